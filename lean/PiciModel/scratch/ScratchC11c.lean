import PiciModel.Props.C11
import PiciModel.Spec.RefReader
open Pici Pici.Ref

mutual
def dEq : Datum → Datum → Bool
  | .num a l c, .num b l' c' => a == b && l == l' && c == c'
  | .chr a l c, .chr b l' c' => a == b && l == l' && c == c'
  | .sym a l c, .sym b l' c' => a == b && l == l' && c == c'
  | .str a l c, .str b l' c' => a == b && l == l' && c == c'
  | .list xs, .list ys => dsEq xs ys
  | .quote x, .quote y => dEq x y
  | _, _ => false
def dsEq : List Datum → List Datum → Bool
  | [], [] => true
  | x :: xs, y :: ys => dEq x y && dsEq xs ys
  | _, _ => false
end

def agree (cs : List Char) (line col : Nat) : Bool :=
  match C11.readChars cs ⟨.stdin, line, col - 1⟩, refRead cs line col with
  | .error .nothing, .nothing => true
  | .error .incomplete, .incomplete => true
  | .error (.error _ eloc _), .error l c => eloc.line == l && eloc.col == c
  | .ok (v, rest), .ok d r l c =>
    (match denote v with | some d' => dEq d d' | none => false) && rest.string == Val.ofChars r && rest.line == l && rest.column == c
  | _, _ => false

def alphabet : List Char := ['(', ')', '\'', '"', '%', '\\', ';', ',', ' ', '\n', 'a', '1', '+', '-']

def strings : Nat → List (List Char)
  | 0 => [[]]
  | n + 1 => (strings n).flatMap fun s => alphabet.map fun c => c :: s

def mainFile (f : String) : IO Unit := do
  let inp ← IO.FS.readFile f
  let mut total := 0
  let mut quirkfree := 0
  let mut bad := 0
  for ln in inp.splitOn "\n" do
    if ln != "" then
      let cs := if ln == "-" then [] else (ln.splitOn ".").map (fun t => Char.ofNat t.toNat!)
      total := total + 1
      if noQuirk cs then
        quirkfree := quirkfree + 1
        if !(agree cs 1 1 && agree cs 3 5) then
          bad := bad + 1
          if bad ≤ 40 then IO.println s!"DIFF {repr (String.ofList cs)}"
  IO.println s!"file: total {total} quirk-free {quirkfree} differences {bad}"

def main (args : List String) : IO Unit := do
  if let [f] := args then mainFile f
  let mut total := 0
  let mut quirkfree := 0
  let mut bad := 0
  for n in [0, 1, 2, 3, 4] do
    for s in strings n do
      total := total + 1
      if noQuirk s then
        quirkfree := quirkfree + 1
        if !(agree s 1 1 && agree s 3 5) then
          bad := bad + 1
          if bad ≤ 40 then
            IO.println s!"DIFF {repr (String.ofList s)} model={repr (C11.readChars s ⟨.stdin, 1, 0⟩)} ref={repr (refRead s 1 1)}"
  IO.println s!"total {total} quirk-free {quirkfree} differences {bad}"
