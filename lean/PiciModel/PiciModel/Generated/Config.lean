/- GENERATED from /repo/src/config.rs by orchestrator/translate/config.py — do not edit. -/
namespace Pici.Config

def initialFreeCells : Nat := 256
def maximumFreeRatioNum : Nat := 3
def maximumFreeRatioDen : Nat := 4
def minimumFreeRatioNum : Nat := 1
def minimumFreeRatioDen : Nat := 10
def allocationRatioNum : Nat := 1
def allocationRatioDen : Nat := 1
def maxRecursionDepth : Nat := 1024
def guiOutputBufferSize : Nat := 1024
def callStackSize : Nat := 33554432

end Pici.Config
