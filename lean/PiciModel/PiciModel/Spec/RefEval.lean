/-
Reference big-step semantics of the core language (C05): literals, quote, if, lambda (with optional rest parameter),
application, global constants, and the list / arithmetic / comparison / equality primitives.

Written from the property, as inference rules: operator first, then operands left to right, the first signal wins;
a closure captures the environment and the module of its creation; a call binds the parameters over the CLOSURE's
environment (the caller's variables are invisible), checks arity exactly unless a rest parameter collects the surplus;
inner bindings shadow outer and global ones; tail positions (if-branches, the body of a called closure) keep the
recursion depth, everything else goes one level down, and a level above the configured maximum raises `stackoverflow`.
Globals are an abstract lookup function `G name home`.
-/
import PiciModel.Model.Eval

namespace Pici.Ref
open Pici

/-- the primitives of the core language -/
def corePrim (id : NativeId) : Bool :=
  id == .cons || id == .car || id == .cdr || id == .list || id == .add || id == .substract || id == .multiply ||
  id == .divide || id == .less || id == .greater || id == .equal

/-- what a core primitive returns (it neither reads nor changes the interpreter state) -/
def primResult (id : NativeId) (args : List Val) (depth : Nat) : Res Val := (simpleNative id args depth default).1

/-- heads with a special meaning, tested in this order by the language: lambda, quote, if, trap -/
def isSpecial (first : Val) : Bool :=
  first.isSymNamed cs!"lambda" || first.isSymNamed cs!"quote" || first.isSymNamed cs!"if" || first.isSymNamed cs!"trap"

abbrev Globals := Name → Name → Lookup

mutual
/-- `Eval G env home d e r`: evaluating `e` in environment `env`, with `home` the module of the running code, at recursion depth `d` yields `r` -/
inductive Eval (G : Globals) : Val → Name → Nat → Val → Res Val → Prop where
  | overflow {env home d e} : d > Config.maxRecursionDepth → Eval G env home d e (.err (stackoverflow cs!"eval"))
  | emptyList {env home d e} : d ≤ Config.maxRecursionDepth → listToVec e = some [] → Eval G env home d e (.ok .nil)
  /-- numbers, characters, nil, function values … evaluate to themselves -/
  | selfEval {env home d e} : d ≤ Config.maxRecursionDepth → listToVec e = none →
      (∀ a b, e.get ≠ .cons a b) → (∀ n h, e.get ≠ .trap n h) → (∀ s, e.get ≠ .sym s) → Eval G env home d e (.ok e)
  /-- a variable: the innermost binding of the environment, else the global visible from `home` -/
  | varLocal {env home d e s v} : d ≤ Config.maxRecursionDepth → listToVec e = none → e.get = .sym s →
      lookupEnv s env = some v → Eval G env home d e (.ok v)
  | varGlobal {env home d e s v} : d ≤ Config.maxRecursionDepth → listToVec e = none → e.get = .sym s →
      lookupEnv s env = none → G s.globalName home = .found v → Eval G env home d e (.ok v)
  | varUnbound {env home d e s} : d ≤ Config.maxRecursionDepth → listToVec e = none → e.get = .sym s →
      lookupEnv s env = none → G s.globalName home = .notFound →
      Eval G env home d e (.err (makeError cs!"unbound-symbol" cs!"eval" [(cs!"symbol", e)]))
  | varAmbiguous {env home d e s ms} : d ≤ Config.maxRecursionDepth → listToVec e = none → e.get = .sym s →
      lookupEnv s env = none → G s.globalName home = .ambiguous ms →
      Eval G env home d e (.err (ambiguousError cs!"eval" e ms))
  /-- `(lambda params body)`: a closure over the current environment and home module — or the error of a malformed parameter list -/
  | lambda {env home d e first operands} : d ≤ Config.maxRecursionDepth → listToVec e = some (first :: operands) →
      first.isSymNamed cs!"lambda" = true →
      Eval G env home d e (makeFunctionInternal operands env home cs!"lambda" .lambda)
  | quote {env home d e first x} : d ≤ Config.maxRecursionDepth → listToVec e = some [first, x] →
      first.isSymNamed cs!"lambda" = false → first.isSymNamed cs!"quote" = true → Eval G env home d e (.ok x)
  | quoteArity {env home d e first operands} : d ≤ Config.maxRecursionDepth → listToVec e = some (first :: operands) →
      first.isSymNamed cs!"lambda" = false → first.isSymNamed cs!"quote" = true → operands.length ≠ 1 →
      Eval G env home d e (.err (wrongArity cs!"quote" 1 operands.length))
  /-- `(if c t o)`: the condition one level down; the chosen branch at the SAME depth -/
  | ifBranch {env home d e first c t o v r} : d ≤ Config.maxRecursionDepth → listToVec e = some [first, c, t, o] →
      first.isSymNamed cs!"lambda" = false → first.isSymNamed cs!"quote" = false → first.isSymNamed cs!"if" = true →
      Eval G env home (d + 1) c (.ok v) → Eval G env home d (if !v.isNil then t else o) r → Eval G env home d e r
  | ifSignal {env home d e first c t o s} : d ≤ Config.maxRecursionDepth → listToVec e = some [first, c, t, o] →
      first.isSymNamed cs!"lambda" = false → first.isSymNamed cs!"quote" = false → first.isSymNamed cs!"if" = true →
      Eval G env home (d + 1) c (.err s) → Eval G env home d e (.err s)
  | ifArity {env home d e first operands} : d ≤ Config.maxRecursionDepth → listToVec e = some (first :: operands) →
      first.isSymNamed cs!"lambda" = false → first.isSymNamed cs!"quote" = false → first.isSymNamed cs!"if" = true →
      operands.length ≠ 3 → Eval G env home d e (.err (wrongArity cs!"if" 3 operands.length))
  /-- application: the operator first; if it signals, the operands are not evaluated -/
  | operatorSignal {env home d e first operands s} : d ≤ Config.maxRecursionDepth → listToVec e = some (first :: operands) →
      isSpecial first = false → Eval G env home (d + 1) first (.err s) → Eval G env home d e (.err s)
  | badOperator {env home d e first operands f} : d ≤ Config.maxRecursionDepth → listToVec e = some (first :: operands) →
      isSpecial first = false → Eval G env home (d + 1) first (.ok f) →
      (∀ k r p b fe m, f.get ≠ .fn k r p b fe m) → (∀ id, f.get ≠ .native id) →
      Eval G env home d e (.err (makeError cs!"eval-bad-operator" cs!"eval" [(cs!"symbol", first)]))
  /-- then the operands, left to right; the first signal wins -/
  | operandSignal {env home d e first operands f s} : d ≤ Config.maxRecursionDepth → listToVec e = some (first :: operands) →
      isSpecial first = false → Eval G env home (d + 1) first (.ok f) →
      ((∃ k r p b fe m, f.get = .fn k r p b fe m) ∨ (∃ id, f.get = .native id)) →
      EvalArgs G env home d operands (.err s) → Eval G env home d e (.err s)
  /-- a closure: parameters bound over the CLOSURE's environment, exact arity unless a rest parameter takes the surplus,
  body evaluated in the closure's module at the depth of the call -/
  | callClosure {env home d e first operands f k rest params body fenv fmod args newEnv r} :
      d ≤ Config.maxRecursionDepth → listToVec e = some (first :: operands) → isSpecial first = false →
      Eval G env home (d + 1) first (.ok f) → f.get = .fn k rest params body fenv fmod →
      EvalArgs G env home d operands (.ok args) →
      pairParamsAndArgs rest params fenv (e.getMeta.map (·.readName)) args = .ok newEnv →
      Eval G newEnv fmod d body r → Eval G env home d e r
  | callArity {env home d e first operands f k rest params body fenv fmod args s} :
      d ≤ Config.maxRecursionDepth → listToVec e = some (first :: operands) → isSpecial first = false →
      Eval G env home (d + 1) first (.ok f) → f.get = .fn k rest params body fenv fmod →
      EvalArgs G env home d operands (.ok args) →
      pairParamsAndArgs rest params fenv (e.getMeta.map (·.readName)) args = .err s →
      Eval G env home d e (.err s)
  /-- a primitive: applied to the evaluated operands -/
  | callPrim {env home d e first operands f id args} :
      d ≤ Config.maxRecursionDepth → listToVec e = some (first :: operands) → isSpecial first = false →
      Eval G env home (d + 1) first (.ok f) → f.get = .native id → corePrim id = true →
      EvalArgs G env home d operands (.ok args) →
      Eval G env home d e (primResult id args (d + 1))
/-- operands, left to right, each one level below the application -/
inductive EvalArgs (G : Globals) : Val → Name → Nat → List Val → Res (List Val) → Prop where
  | nil {env home d} : EvalArgs G env home d [] (.ok [])
  | cons {env home d x xs v vs} : Eval G env home (d + 1) x (.ok v) → EvalArgs G env home d xs (.ok vs) →
      EvalArgs G env home d (x :: xs) (.ok (v :: vs))
  | signalHere {env home d x xs s} : Eval G env home (d + 1) x (.err s) → EvalArgs G env home d (x :: xs) (.err s)
  | signalLater {env home d x xs v s} : Eval G env home (d + 1) x (.ok v) → EvalArgs G env home d xs (.err s) →
      EvalArgs G env home d (x :: xs) (.err s)
end

end Pici.Ref
