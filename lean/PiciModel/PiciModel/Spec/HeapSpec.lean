/-
Specification vocabulary for the heap model (`Model/Heap.lean`): which cells are in use, which are reachable,
what a correct mark result is, and the heap invariant (C01 no dangling, C03 bookkeeping, C04 symbol table).
-/
import PiciModel.Model.Heap

namespace Pici.Heap

/-- the addresses of the used prefix of the cell vector, in vector order -/
def usedList (h : Heap) : List Addr := h.order.toList.take h.firstFree

/-- `a` is the address of a cell in use -/
def Used (h : Heap) (a : Addr) : Prop := a ∈ usedList h

/-- the cells a cell refers to -/
def kids (h : Heap) (a : Addr) : List Addr := (h.cell a).content.children

/-- reachable from a live handle or a global definition: the least set containing the roots (used cells with a
non-zero handle count) and closed under the reference edges (cons car/cdr, trap bodies, function body / environment /
parameters, metadata target) -/
inductive Reach (h : Heap) : Addr → Prop where
  | root {a : Addr} : a ∈ roots h → Reach h a
  | step {a b : Addr} : Reach h a → b ∈ kids h a → Reach h b

/-- a correct result of the mark phase: exactly the reachable cells, as a list used as a set -/
def Marked (h : Heap) (R : List Addr) : Prop := ∀ a, a ∈ R ↔ Reach h a

/-- the heap invariant -/
structure Inv (h : Heap) : Prop where
  nonempty    : 0 < h.order.size
  ff_le       : h.firstFree ≤ h.order.size
  nodup       : h.order.toList.Nodup
  inStore     : ∀ a ∈ h.order.toList, a < h.store.size
  /-- no used cell refers to a cell that is not in use (nothing dangling) -/
  closed      : ∀ a, Used h a → ∀ b ∈ kids h a, Used h b
  /-- free cells hold no handles -/
  freeRc      : ∀ a ∈ h.order.toList, ¬ Used h a → (h.cell a).rc = 0
  /-- symbol table: no duplicate names; every entry names a used symbol cell of that name that knows its own address;
  every used named symbol cell is the entry of its name -/
  symNodup    : (h.symtab.map (·.1)).Nodup
  symSound    : ∀ n a, (n, a) ∈ h.symtab → Used h a ∧ (h.cell a).content = .sym (some n) (some a)
  symComplete : ∀ a n o, Used h a → (h.cell a).content = .sym (some n) o → (n, a) ∈ h.symtab

end Pici.Heap
