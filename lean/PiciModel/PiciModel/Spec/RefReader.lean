/-
The grammar of PiciLisp as an independent object: a transcription of `reader_ref.py` (the reference reader of the
test harness) — a maximal-munch lexer (`lex`: skip blanks and `;` comments, then one of `(` `)` `'`, a string
literal with escapes, a `%` character literal, or a maximal run of non-delimiters classified as number or symbol)
and a recursive-descent parser (`form` / `elems`).  No state machine with lookahead, no `quoted` flag, no stack of
open lists: it is written differently from `Model/Reader.lean` on purpose; `Props/C11c.lean` proves that the two agree.

Positions: `Pos` is (line, 1-based column of the NEXT character), exactly the `pos()` of the Python lexer; the position
of a token is that of its first character.  Only the character classes `isWhitespace`, `isDelimiter`, `isAsciiDigit`
are shared with the model.
-/
import PiciModel.Model.Reader

namespace Pici.Ref
open Pici

/-- what a text denotes; every atom carries the line and the 1-based column of its first character -/
inductive Datum where
  | num (n : Int) (line col : Nat)
  | chr (c : Char) (line col : Nat)
  | sym (s : List Char) (line col : Nat)
  | str (s : List Char) (line col : Nat)
  | list (xs : List Datum)
  | quote (x : Datum)
  deriving Repr, Inhabited

/-- the four statuses of `read`; `ok` carries the remaining text and the line / 1-based column where it starts -/
inductive RefResult where
  | nothing
  | incomplete
  | error (line col : Nat)
  | ok (d : Datum) (rest : List Char) (line col : Nat)
  deriving Repr, Inhabited

/-! ### positions -/

/-- line and 1-based column of the next character -/
structure Pos where
  line : Nat
  col  : Nat
  deriving DecidableEq, Repr, Inhabited

/-- `Lexer.adv` -/
def Pos.adv (p : Pos) (c : Char) : Pos := if c = '\n' then ⟨p.line + 1, 1⟩ else ⟨p.line, p.col + 1⟩

/-- the position after a piece of text -/
def Pos.advs (p : Pos) (s : List Char) : Pos := s.foldl Pos.adv p

/-! ### the lexer -/

inductive Tok where
  | open | close | quote
  | num (n : Int)
  | chr (c : Char)
  | sym (s : List Char)
  | str (s : List Char)
  deriving DecidableEq, Repr, Inhabited

/-- the result of `Lexer.token`: end of text, or the exceptions `Incomplete` / `ReadErr(pos)`, or a token with the
position of its first character, the remaining text and the position of the remaining text -/
inductive Lexed where
  | eof
  | incomplete
  | error (pos : Pos)
  | tok (t : Tok) (pos : Pos) (rest : List Char) (next : Pos)
  deriving Repr, Inhabited

/-- `skip_blank`: whitespace, commas, and `;` comments up to the end of the line (`inComment`: inside one) -/
def skipBlank : Bool → List Char → Pos → List Char × Pos
  | _, [], p => ([], p)
  | true, c :: cs, p => skipBlank (c != '\n') cs (p.adv c)
  | false, c :: cs, p =>
    if c = ';' then skipBlank true cs (p.adv c)
    else if isWhitespace c || c = ',' then skipBlank false cs (p.adv c)
    else (c :: cs, p)

/-- the escapes of a string literal -/
def unescape (e : Char) : Option Char :=
  if e = '"' then some '"' else if e = 'n' then some '\n' else if e = 'r' then some '\r'
  else if e = 't' then some '\t' else if e = '\\' then some '\\' else none

/-- a string literal after its opening quote; `out` collects the characters in reverse -/
def lexString (start : Pos) : List Char → Pos → List Char → Lexed
  | [], _, _ => .incomplete
  | c :: cs, p, out =>
    if c = '"' then .tok (.str out.reverse) start cs (p.adv c)
    else if c = '\\' then
      match cs with
      | [] => .incomplete
      | e :: cs' =>
        match unescape e with
        | some x => lexString start cs' ((p.adv c).adv e) (x :: out)
        | none   => .error (p.adv c)
    else lexString start cs (p.adv c) (c :: out)

def nonDelim (c : Char) : Bool := !isDelimiter c

/-- the character a `%` literal with this body stands for: one of five escapes, or the single character itself -/
def charOf (body : List Char) : Option Char :=
  if body = cs!"\\n" then some '\n' else if body = cs!"\\t" then some '\t' else if body = cs!"\\s" then some ' '
  else if body = cs!"\\r" then some '\r' else if body = cs!"\\\\" then some '\\'
  else match body with
    | [c] => some c
    | _   => none

/-- a character literal after its `%`: the next character is literal whatever it is, then the run goes on to the next
delimiter; an invalid body is an error at its last character -/
def lexChar (start : Pos) (cs : List Char) (p : Pos) : Lexed :=
  match cs with
  | [] => .incomplete
  | c :: cs' =>
    let body := c :: cs'.takeWhile nonDelim
    match charOf body with
    | some x => .tok (.chr x) start (cs'.dropWhile nonDelim) (p.advs body)
    | none   => .error (p.advs body.dropLast)

def signish (c : Char) : Bool := c = '+' || c = '-' || c = '%'

/-- `[0-9].*|[+-][+\-%]*[0-9].*`: the run is committed to being a number -/
def committed : List Char → Bool
  | []      => false
  | c :: cs => isAsciiDigit c || ((c = '+' || c = '-') && ((cs.dropWhile signish).head?.any isAsciiDigit))

/-- the first character of an atom run that can not be there: a backslash anywhere, or anything but a digit and
`+ - %` once the run before it is committed to being a number -/
def firstBad (before : List Char) : List Char → Pos → Option Pos
  | [], _ => none
  | c :: cs, p =>
    if c = '\\' then some p
    else if committed before && !(isAsciiDigit c || signish c) then some p
    else firstBad (before ++ [c]) cs (p.adv c)

/-- `[0-9]+` as a natural number -/
def digitsValue (ds : List Char) : Option Nat :=
  if ds ≠ [] ∧ ds.all isAsciiDigit then some (Nat.ofDigitChars 10 ds 0) else none

/-- `[+-]?[0-9]+` within the range of a 64-bit signed integer -/
def intOf : List Char → Option Int
  | []      => none
  | c :: cs =>
    if c = '-' then (digitsValue cs).bind fun n => if n ≤ 2 ^ 63 then some (-(n : Int)) else none
    else (digitsValue (if c = '+' then cs else c :: cs)).bind fun n => if n < 2 ^ 63 then some (n : Int) else none

/-- an atom: a maximal run of non-delimiters, a number if it is committed to being one, else a symbol; an invalid
number is an error at its last character -/
def lexAtom (cs : List Char) (p : Pos) : Lexed :=
  let run := cs.takeWhile nonDelim
  let rest := cs.dropWhile nonDelim
  match firstBad [] run p with
  | some e => .error e
  | none =>
    if committed run then
      match intOf run with
      | some n => .tok (.num n) p rest (p.advs run)
      | none   => .error (p.advs run.dropLast)
    else .tok (.sym run) p rest (p.advs run)

/-- `Lexer.token` -/
def lex (cs : List Char) (p : Pos) : Lexed :=
  match skipBlank false cs p with
  | ([], _) => .eof
  | (c :: cs', p') =>
    if c = '(' then .tok .open p' cs' (p'.adv c)
    else if c = ')' then .tok .close p' cs' (p'.adv c)
    else if c = '\'' then .tok .quote p' cs' (p'.adv c)
    else if c = '"' then lexString p' cs' (p'.adv c) []
    else if c = '%' then lexChar p' cs' (p'.adv c)
    else lexAtom (c :: cs') p'

/-! ### the parser -/

mutual
/-- `form(tok)`: the datum that starts with the token `t` (found at `p`, the text after it being `r` at `a`) -/
def form : Nat → Tok → Pos → List Char → Pos → RefResult
  | 0, _, _, _, _ => .nothing                    -- out of fuel: does not happen, see `refRead`
  | n + 1, t, p, r, a =>
    match t with
    | .num x => .ok (.num x p.line p.col) r a.line a.col
    | .chr x => .ok (.chr x p.line p.col) r a.line a.col
    | .sym x => .ok (.sym x p.line p.col) r a.line a.col
    | .str x => .ok (.str x p.line p.col) r a.line a.col
    | .quote =>
      match lex r a with
      | .eof | .incomplete => .incomplete
      | .error e => .error e.line e.col
      | .tok t' p' r' a' =>
        match form n t' p' r' a' with
        | .ok d r'' l c => .ok (.quote d) r'' l c
        | other => other
    | .open  => elems n r a []
    | .close => .error p.line p.col              -- too many closing parentheses
/-- the elements of a list up to its closing parenthesis; `acc` holds those read so far, in reverse -/
def elems : Nat → List Char → Pos → List Datum → RefResult
  | 0, _, _, _ => .nothing
  | n + 1, cs, p, acc =>
    match lex cs p with
    | .eof | .incomplete => .incomplete
    | .error e => .error e.line e.col
    | .tok t tp r a =>
      match t with
      | .close => .ok (.list acc.reverse) r a.line a.col
      | _ =>
        match form n t tp r a with
        | .ok d r' l c => elems n r' ⟨l, c⟩ (d :: acc)
        | other => other
end

/-- `read_ref(text, line, col)`.  The fuel is twice the length of the text: every token takes at least one
character, and costs at most one round of `form` and one of `elems`. -/
def refRead (cs : List Char) (line col : Nat) : RefResult :=
  match lex cs ⟨line, col⟩ with
  | .eof => .nothing
  | .incomplete => .incomplete
  | .error e => .error e.line e.col
  | .tok t p r a => form (2 * cs.length) t p r a

/-! ### the texts on which the real reader is known to deviate -/

/-- inside a string literal (after its opening quote): a backslash immediately followed by a newline, before the
literal ends or goes wrong otherwise (F25: the position of that error) -/
def escNewline : List Char → Bool
  | [] => false
  | c :: cs =>
    if c = '"' then false
    else if c = '\\' then
      match cs with
      | [] => false
      | e :: cs' => e = '\n' || ((unescape e).isSome && escNewline cs')
    else escNewline cs

def Tok.isQuote : Tok → Bool
  | .quote => true
  | _ => false

def Tok.isClose : Tok → Bool
  | .close => true
  | _ => false

/-- the next token is not a string literal with a backslash-newline in it -/
def nextTokenOk (cs : List Char) : Bool :=
  match (skipBlank false cs ⟨1, 1⟩).1 with
  | c :: body => !(c = '"' && escNewline body)
  | [] => true

/-- token by token: no quote token directly followed by a quote token or a closing parenthesis (F5), and no string
literal with a backslash-newline (F25).  Positions do not matter here (any will do: `⟨1, 1⟩`). -/
def noQuirkFrom : Nat → Bool → List Char → Bool
  | 0, _, _ => true
  | n + 1, afterQuote, cs =>
    nextTokenOk cs &&
    match lex cs ⟨1, 1⟩ with
    | .tok t _ r _ => !(afterQuote && (t.isQuote || t.isClose)) && noQuirkFrom n t.isQuote r
    | _ => true

def noQuirk (cs : List Char) : Bool := noQuirkFrom cs.length false cs

/-! ### reading a value of the model reader back -/

/-- a bare proper list of bare characters -/
def plainChars : Val → Option (List Char)
  | .nil => some []
  | .cons (.chr c) d => (plainChars d).map (c :: ·)
  | _ => none

mutual
/-- the datum a value built by the model reader stands for, read off the metadata the reader attaches
(`.md v ⟨readName, ⟨src, line, col⟩, doc⟩`): numbers, characters and symbols are metadata cells carrying their
position; a string literal is a metadata cell, with the text as its read name, around the list `(list c1 … cn)` of
bare characters; `'x` is the bare list `(quote x)` whose head is the bare symbol `quote`; a list is a bare proper list
of data.  Convention: the `line` and `col` of a `Loc` are taken as they are — when reading starts at
`⟨src, line, col - 1⟩` the location the model gives a token is already the line and the 1-based column of its first
character.  The source `src` is not looked at. -/
def denote : Val → Option Datum
  | .md (.num n) m => some (.num n m.loc.line m.loc.col)
  | .md (.chr c) m => some (.chr c m.loc.line m.loc.col)
  | .md (.sym (.named s)) m => some (.sym s m.loc.line m.loc.col)
  | .md (.cons hd tl) m =>
    if hd = Val.symName cs!"list" then
      match plainChars tl with
      | some s => if m.readName = s then some (.str s m.loc.line m.loc.col) else none
      | none => none
    else none
  | .nil => some (.list [])
  | .cons a d =>
    if a = quoteSym then
      match denoteList d with
      | some [x] => some (.quote x)
      | _ => none
    else
      match denote a, denoteList d with
      | some x, some xs => some (.list (x :: xs))
      | _, _ => none
  | _ => none
/-- a bare proper list of data -/
def denoteList : Val → Option (List Datum)
  | .nil => some []
  | .cons a d =>
    match denote a, denoteList d with
    | some x, some xs => some (x :: xs)
    | _, _ => none
  | _ => none
end

end Pici.Ref
