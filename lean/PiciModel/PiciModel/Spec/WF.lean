/-
Well-formedness of values and interpreter states, as the Rust code maintains it by construction:
metadata cells never wrap metadata cells (`allocate_metadata` panics on that).
-/
import PiciModel.Model.Eval

namespace Pici

/-- no metadata cell directly around a metadata cell, anywhere inside the value -/
def noNested : Val → Bool
  | .md (.md _ _) _ => false
  | .md v _         => noNested v
  | .cons a d       => noNested a && noNested d
  | .fn _ r p b e _ => noNested r && noNested p && noNested b && noNested e
  | .trap n h       => noNested n && noNested h
  | _               => true

/-- the current module is in the table, and every global value is well formed -/
def StOK (st : St) : Prop :=
  (st.findModule st.current).isSome = true ∧ ∀ m ∈ st.modules, ∀ p ∈ m.defs, noNested p.2 = true

end Pici
