/-
L1 — the cell vector, handles, mark, sweep, shrink and growth of `src/memory/mod.rs` (lines 741-970).

`Vec<Cell>` with `Cell{content: Box<CellContent>}` is a vector of pointers: the *order* of the vector is
kept apart from the *contents* of the boxes.  An address is the identity of a box; boxes are numbered
densely in allocation order (`store[a]` is the box with address `a`), and are never reused after `truncate`
dropped them.  `sweep` only permutes `order` and moves `firstFree`.
-/
import PiciModel.Model.Value
import PiciModel.Generated.Config

namespace Pici

abbrev Addr := Nat

inductive Content where
  | num (n : Int)
  | chr (c : Nat)
  | cons (a d : Option Addr)
  | sym (name : Option Name) (own : Option Addr)
  | fn (kind : Kind) (rest : Bool) (params : List Addr) (body env : Option Addr) (mod : Name)
  | trap (n t : Option Addr)
  | md (v : Option Addr) (m : Meta)
  deriving DecidableEq, Repr, Inhabited

/-- `MetaValue::default()` -/
def Content.dflt : Content := .num 0

structure Cell where
  content : Content
  rc      : Nat           -- `external_ref_count`
  deriving DecidableEq, Repr, Inhabited

def Content.children : Content → List Addr
  | .cons a d         => a.toList ++ d.toList
  | .trap n t         => n.toList ++ t.toList
  | .fn _ _ ps b e _  => b.toList ++ e.toList ++ ps
  | .md v _           => v.toList
  | _                 => []

structure Heap where
  order     : Array Addr              -- the `Vec<Cell>`, as the addresses of its boxes
  store     : Array Cell              -- what each box holds, indexed by address
  firstFree : Nat
  symtab    : List (Name × Addr)      -- `symbols`
  globals   : List (Name × Option Addr)   -- definitions of the (single) current module, each holding one handle
  deriving Repr, Inhabited

namespace Heap

/-- `Memory::new` -/
def init : Heap :=
  { order := Array.range Config.initialFreeCells,
    store := Array.replicate Config.initialFreeCells ⟨Content.dflt, 0⟩,
    firstFree := 0, symtab := [], globals := [] }

def cell (h : Heap) (a : Addr) : Cell := h.store.getD a ⟨Content.dflt, 0⟩

def isUsedIdx (h : Heap) (i : Nat) : Bool := i < h.firstFree

def indexOf (h : Heap) (a : Addr) : Option Nat := h.order.idxOf? a

def isUsed (h : Heap) (a : Addr) : Bool :=
  match h.indexOf a with
  | some i => i < h.firstFree
  | none   => false

def setContent (h : Heap) (a : Addr) (c : Content) : Heap :=
  { h with store := h.store.setIfInBounds a { (h.cell a) with content := c } }

/-- `GcRef::new` / `clone` on a non-null pointer -/
def incRc (h : Heap) (a : Addr) : Heap :=
  { h with store := h.store.setIfInBounds a { (h.cell a) with rc := (h.cell a).rc + 1 } }

def incRc? (h : Heap) : Option Addr → Heap
  | some a => h.incRc a
  | none   => h

/-- `Drop for GcRef`; `none` = the count would go below zero (a panic in debug builds) -/
def decRc (h : Heap) (a : Addr) : Option Heap :=
  if (h.cell a).rc = 0 then none
  else some { h with store := h.store.setIfInBounds a { (h.cell a) with rc := (h.cell a).rc - 1 } }

def decRc? (h : Heap) : Option Addr → Option Heap
  | some a => h.decRc a
  | none   => some h

/-! ### mark -/

/-- the roots: used cells with a non-zero handle count, in vector order -/
def roots (h : Heap) : List Addr :=
  ((List.range h.firstFree).filterMap fun i => h.order[i]?).filter fun a => (h.cell a).rc > 0

/-- the mark loop as written: pop, insert, push the children — without a visited test.
`none`: out of fuel. -/
def markLoop (h : Heap) : Nat → List Addr → List Addr → Option (List Addr)
  | _, [], reachable => some reachable
  | 0, _ :: _, _ => none
  | fuel + 1, a :: stack, reachable =>
    let reachable := if reachable.contains a then reachable else a :: reachable
    -- children are pushed in source order; the last pushed is popped first
    markLoop h fuel ((h.cell a).content.children.reverse ++ stack) reachable

/-- the same set computed with a visited test (used by the executable driver for speed: the loop as written
revisits shared nodes once per path; both satisfy the same specification, `Props/HeapMark.lean`) -/
def markFast (h : Heap) : Nat → List Addr → List Addr → Option (List Addr)
  | _, [], reachable => some reachable
  | 0, _ :: _, _ => none
  | fuel + 1, a :: stack, reachable =>
    if reachable.contains a then markFast h fuel stack reachable
    else markFast h fuel ((h.cell a).content.children.reverse ++ stack) (a :: reachable)

/-- enough fuel for `markFast`: one step per stack entry ever pushed (roots plus all child edges) -/
def markFuel (h : Heap) : Nat :=
  h.store.foldl (fun acc c => acc + c.content.children.length + 1) 0 + h.order.size + 1

/-! ### sweep -/

def removeSym (symtab : List (Name × Addr)) (name : Name) : List (Name × Addr) :=
  symtab.filter (·.1 != name)

/-- the `while i < first_free` loop; `n` is `first_free - i` -/
def sweepLoop (reachable : List Addr) : Nat → Nat → Heap → Heap
  | 0, _, h => h
  | n + 1, i, h =>
    let a := h.order.getD i 0
    if reachable.contains a then sweepLoop reachable n (i + 1) h
    else
      let symtab := match (h.cell a).content with
        | .sym (some name) _ => removeSym h.symtab name
        | _                  => h.symtab
      let order := h.order.swapIfInBounds i (h.firstFree - 1)
      sweepLoop reachable n i { h with symtab := symtab, order := order, firstFree := h.firstFree - 1 }

def sweep (h : Heap) (reachable : List Addr) : Heap :=
  sweepLoop reachable h.firstFree 0 h

/-! ### shrink -/

def ratio (n num den : Nat) : Nat := n * num / den

def shrink (h : Heap) : Heap :=
  let maxFree := ratio h.firstFree Config.maximumFreeRatioNum Config.maximumFreeRatioDen
  if h.order.size - h.firstFree > maxFree then
    let minFree := ratio h.firstFree Config.minimumFreeRatioNum Config.minimumFreeRatioDen
    { h with order := h.order.extract 0 (h.firstFree + minFree + 1) }
  else h

/-- `collect` with the mark phase given by `reach` -/
def collectWith (h : Heap) (reachable : List Addr) : Heap :=
  shrink (sweep h reachable)

/-- `collect`; `none`: the mark loop ran out of fuel -/
def collect (h : Heap) (fuel : Nat) : Option Heap :=
  (markLoop h fuel (roots h).reverse []).map (collectWith h)

/-- executable collection (visited-set marking); `none`: the mark loop ran out of fuel -/
def collectFast (h : Heap) : Option Heap :=
  (markFast h (markFuel h) (roots h).reverse []).map (collectWith h)

/-! ### allocation -/

/-- `allocate_internal` after the optional collection: reuse the first free cell or grow -/
def place (h : Heap) (c : Content) : Heap × Addr :=
  if h.firstFree + 1 ≤ h.order.size then
    let a := h.order.getD h.firstFree 0
    ({ (h.setContent a c) with firstFree := h.firstFree + 1 }, a)
  else
    let a := h.store.size
    let h1 : Heap := { h with order := h.order.push a, store := h.store.push ⟨c, 0⟩, firstFree := h.firstFree + 1 }
    let newCells := ratio h1.order.size Config.allocationRatioNum Config.allocationRatioDen
    let extra := newCells - 1
    let base := h1.store.size
    ({ h1 with order := h1.order ++ (Array.range extra).map (· + base),
               store := h1.store ++ Array.replicate extra ⟨Content.dflt, 0⟩ }, a)

/-- `allocate_internal`; `forced`: the verification hook asks for a collection first.
`none`: `cells.len() - 1` underflows (empty vector) — or the model's mark loop ran out of fuel. -/
def allocate (h : Heap) (c : Content) (forced : Bool) : Option (Heap × Addr) :=
  if h.order.size = 0 then none
  else
    match (if forced then h.collectFast else some h) with
    | none => none
    | some h =>
      if h.order.size = 0 then none
      else
        match (if h.firstFree > h.order.size - 1 then h.collectFast else some h) with
        | none   => none
        | some h => some (h.place c)

/-- allocate and hand out the first handle (`GcRef::new`) -/
def allocHandle (h : Heap) (c : Content) (forced : Bool) : Option (Heap × Addr) :=
  match h.allocate c forced with
  | some (h, a) => some (h.incRc a, a)
  | none        => none

/-- `symbol_for` -/
def symbolFor (h : Heap) (name : Name) (forced : Bool) : Option (Heap × Addr) :=
  match h.symtab.lookup name with
  | some a => some (h.incRc a, a)
  | none =>
    match h.allocate (.sym (some name) none) forced with
    | some (h, a) =>
      let h := h.setContent a (.sym (some name) (some a))
      some (({ h with symtab := (name, a) :: h.symtab } : Heap).incRc a, a)
    | none => none

/-- `unique_symbol` -/
def uniqueSymbol (h : Heap) (forced : Bool) : Option (Heap × Addr) :=
  match h.allocate (.sym none none) forced with
  | some (h, a) => some ((h.setContent a (.sym none (some a))).incRc a, a)
  | none        => none

/-! ### the tree a cell denotes -/

mutual
def abs (h : Heap) : Nat → Option Addr → Val
  | _, none => .nil
  | 0, some _ => .nil
  | fuel + 1, some a =>
    match (h.cell a).content with
    | .num n => .num n
    | .chr c => .chr (Char.ofNat c)
    | .cons x y => .cons (abs h fuel x) (abs h fuel y)
    | .sym (some name) _ => .sym (.named name)
    | .sym none _ => .sym (.gen a)
    | .trap n t => .trap (abs h fuel n) (abs h fuel t)
    | .md v m => .md (abs h fuel v) m
    | .fn k r ps b e m =>
      if r then
        match ps.reverse with
        | last :: initRev => .fn k (abs h fuel (some last)) (absList h fuel initRev.reverse) (abs h fuel b) (abs h fuel e) m
        | [] => .fn k .nil .nil (abs h fuel b) (abs h fuel e) m
      else .fn k .nil (absList h fuel ps) (abs h fuel b) (abs h fuel e) m
def absList (h : Heap) : Nat → List Addr → Val
  | _, [] => .nil
  | 0, _ :: _ => .nil
  | fuel + 1, p :: ps => .cons (abs h fuel (some p)) (absList h fuel ps)
end

end Heap

/-! ### a client of the heap API: slots holding handles -/

/-- a slot: empty, a handle to nil (the null pointer), or a handle to a cell -/
abbrev Slot := Option (Option Addr)

structure HeapState where
  heap  : Heap
  slots : List Slot
  every : Nat          -- collection schedule of the hook: collect before every k-th allocation (0 = never)
  allocs : Nat
  deriving Repr, Inhabited

inductive HeapOp where
  | num (dst : Nat) (n : Int)
  | chr (dst : Nat) (c : Nat)
  | cons (dst : Nat) (a d : Int)          -- slot index, or -1 for nil
  | sym (dst : Nat) (name : Name)
  | gensym (dst : Nat)
  | trap (dst : Nat) (n t : Int)
  | fn (dst : Nat) (kind : Kind) (rest : Bool) (body env : Int) (mod : Name) (params : List Nat)
  | md (dst : Nat) (src : Int) (m : Meta)
  | clone (dst : Nat) (src : Int)
  | drop (slot : Nat)
  | car (dst : Nat) (src : Nat)
  | cdr (dst : Nat) (src : Nat)
  | define (name : Name) (src : Int)
  | undefine (name : Name)
  | getGlobal (dst : Nat) (name : Name)
  | collect
  deriving Repr

inductive HeapResp where
  | ok
  | refused (why : String)
  | notFound
  | collected (used free : Nat)
  | crash (why : String)
  deriving Repr, DecidableEq

namespace HeapState

def init : HeapState := ⟨Heap.init, [], 0, 0⟩

/-- the handle in a slot (`-1` is nil); `none`: the slot is empty -/
def arg (s : HeapState) (i : Int) : Option (Option Addr) :=
  if i < 0 then some none
  else match s.slots[i.toNat]? with
    | some (some x) => some x
    | _             => none

def setSlotList : List Slot → Nat → Slot → List Slot
  | [], 0, v => [v]
  | [], n + 1, v => none :: setSlotList [] n v
  | _ :: xs, 0, v => v :: xs
  | x :: xs, n + 1, v => x :: setSlotList xs n v

/-- store a new handle in a slot, dropping the handle that was there -/
def setSlot (s : HeapState) (dst : Nat) (v : Option Addr) : Option HeapState :=
  let old : Option Addr := match s.slots[dst]? with
    | some (some x) => x
    | _             => none
  match s.heap.decRc? old with
  | some h => some { s with heap := h, slots := setSlotList s.slots dst (some v) }
  | none   => none

/-- does the hook force a collection before this allocation? (mirrors `verif::collect_now`) -/
def tick (s : HeapState) : HeapState × Bool :=
  let n := s.allocs + 1
  ({ s with allocs := n }, s.every != 0 && n % s.every == 0)

def finish (s : HeapState) (dst : Nat) (r : Option (Heap × Addr)) : HeapState × HeapResp :=
  match r with
  | none => (s, .crash "allocate on an empty cell vector")
  | some (h, a) =>
    match ({ s with heap := h } : HeapState).setSlot dst (some a) with
    | some s' => (s', .ok)
    | none    => (s, .crash "handle count below zero")

def step (s : HeapState) (op : HeapOp) : HeapState × HeapResp :=
  match op with
  | .num dst n =>
    let (s, f) := s.tick
    s.finish dst (s.heap.allocHandle (.num n) f)
  | .chr dst c =>
    let (s, f) := s.tick
    s.finish dst (s.heap.allocHandle (.chr c) f)
  | .cons dst a d =>
    match s.arg a, s.arg d with
    | some x, some y =>
      let (s, f) := s.tick
      s.finish dst (s.heap.allocHandle (.cons x y) f)
    | _, _ => (s, .refused "empty slot")
  | .trap dst a d =>
    match s.arg a, s.arg d with
    | some x, some y =>
      let (s, f) := s.tick
      s.finish dst (s.heap.allocHandle (.trap x y) f)
    | _, _ => (s, .refused "empty slot")
  | .sym dst name =>
    -- the hook is consulted only when `symbol_for` actually allocates
    match s.heap.symtab.lookup name with
    | some _ => s.finish dst (s.heap.symbolFor name false)
    | none =>
      let (s, f) := s.tick
      s.finish dst (s.heap.symbolFor name f)
  | .gensym dst =>
    let (s, f) := s.tick
    s.finish dst (s.heap.uniqueSymbol f)
  | .fn dst kind rest body env mod params =>
    match s.arg body, s.arg env with
    | some b, some e =>
      let ps := params.map fun p => s.arg (Int.ofNat p)
      if ps.any (fun p => match p with | some (some a) => !(match (s.heap.cell a).content with
                                                               | .sym .. => true
                                                               | .md (some t) _ => (match (s.heap.cell t).content with | .sym .. => true | _ => false)
                                                               | _ => false)
                                       | _ => true) then (s, .refused "param-not-symbol")
      else if rest && params.isEmpty then (s, .refused "rest-without-params")
      else
        let (s, f) := s.tick
        s.finish dst (s.heap.allocHandle (.fn kind rest (ps.filterMap fun p => p.join) b e mod) f)
    | _, _ => (s, .refused "empty slot")
  | .md dst src m =>
    match s.arg src with
    | some x =>
      if (match x with | some a => (match (s.heap.cell a).content with | .md .. => true | _ => false) | none => false)
      then (s, .refused "meta-of-meta")
      else
        let (s, f) := s.tick
        s.finish dst (s.heap.allocHandle (.md x m) f)
    | none => (s, .refused "empty slot")
  | .clone dst src =>
    match s.arg src with
    | some x =>
      match ({ s with heap := s.heap.incRc? x } : HeapState).setSlot dst x with
      | some s' => (s', .ok)
      | none    => (s, .crash "handle count below zero")
    | none => (s, .refused "empty slot")
  | .drop i =>
    match s.slots[i]? with
    | some (some x) =>
      match s.heap.decRc? x with
      | some h => ({ s with heap := h, slots := setSlotList s.slots i none }, .ok)
      | none   => (s, .crash "handle count below zero")
    | _ => (s, .ok)
  | .car dst src | .cdr dst src =>
    match s.arg src with
    | some (some a) =>
      -- the accessors look through one metadata wrapper (`GcRef::get`)
      let target := match (s.heap.cell a).content with
        | .md (some t) _ => t
        | _              => a
      match (s.heap.cell target).content with
      | .cons x y =>
        let v := match op with | .car .. => x | _ => y
        match ({ s with heap := s.heap.incRc? v } : HeapState).setSlot dst v with
        | some s' => (s', .ok)
        | none    => (s, .crash "handle count below zero")
      | _ => (s, .refused "not-cons")
    | some none => (s, .refused "not-cons")
    | none => (s, .refused "empty slot")
  | .define name src =>
    match s.arg src with
    | some x =>
      let h := s.heap.incRc? x
      let old : Option Addr := (h.globals.lookup name).join
      match h.decRc? old with
      | some h =>
        let globals := if (h.globals.lookup name).isSome
          then h.globals.map fun (n, v) => if n == name then (n, x) else (n, v)
          else h.globals ++ [(name, x)]
        ({ s with heap := { h with globals := globals } }, .ok)
      | none => (s, .crash "handle count below zero")
    | none => (s, .refused "empty slot")
  | .undefine name =>
    match s.heap.globals.lookup name with
    | some v =>
      match s.heap.decRc? v with
      | some h => ({ s with heap := { h with globals := h.globals.filter (·.1 != name) } }, .ok)
      | none   => (s, .crash "handle count below zero")
    | none => (s, .ok)
  | .getGlobal dst name =>
    match s.heap.globals.lookup name with
    | some v =>
      match ({ s with heap := s.heap.incRc? v } : HeapState).setSlot dst v with
      | some s' => (s', .ok)
      | none    => (s, .crash "handle count below zero")
    | none => (s, .notFound)
  | .collect =>
    match s.heap.collectFast with
    | some h => ({ s with heap := h }, .collected h.firstFree (h.order.size - h.firstFree))
    | none   => (s, .crash "mark: out of fuel")

end HeapState

end Pici
