/-
L2 — the reader, `src/native/read/mod.rs`: `TokenIterator::next` (state machine with one character of
lookahead over a Lisp list of characters) and `read_internal` (stack of open lists, one `quoted` flag).
-/
import PiciModel.Model.Numbers

namespace Pici

/-- Unicode `White_Space` (what `char::is_whitespace` tests); compared with the real function for every
scalar value by the correspondence check. -/
def isWhitespace (c : Char) : Bool :=
  let n := c.toNat
  (9 ≤ n && n ≤ 13) || n == 32 || n == 0x85 || n == 0xA0 || n == 0x1680 ||
  (0x2000 ≤ n && n ≤ 0x200A) || n == 0x2028 || n == 0x2029 || n == 0x202F || n == 0x205F || n == 0x3000

def isAsciiDigit (c : Char) : Bool := '0' ≤ c && c ≤ '9'

/-- the characters that end an atom when they come next (`is_atom_ending`) -/
def isDelimiter (c : Char) : Bool :=
  c == ';' || c == '(' || c == ')' || c == '"' || c == '\'' || c == ',' || isWhitespace c

inductive TokStatus where
  | whiteSpace | comment | character | number | symbol | symbolOrNumber | stringNormal | stringEscape
  deriving DecidableEq, Repr

inductive TokenValue where
  | openParen | closeParen | quote
  | character (c : Char)
  | number (n : Int)
  | symbol (s : Name)
  | string (s : List Char)
  deriving DecidableEq, Repr

/-- `StringWithPosition` -/
structure Rest where
  string : Val
  line   : Nat
  column : Nat
  deriving DecidableEq, Repr

inductive ReadError where
  | invalidString
  | incomplete
  | nothing
  | error (msg : List Char) (loc : Loc) (rest : Rest)
  | crash (site : List Char)       -- an `unreachable!()` of the source
  deriving DecidableEq, Repr

/-- how the character list ends: cleanly, or in something that is not a list of characters -/
inductive Tail where
  | eof | invalid
  deriving DecidableEq, Repr

/-- `StringIterator`, unfolded: every character together with the value that follows it -/
def explode : Val → List (Char × Val) × Tail
  | .nil         => ([], .eof)
  | .md .nil _   => ([], .eof)
  | .cons a d    =>
    match a.get with
    | .chr c => let (xs, t) := explode d; ((c, d) :: xs, t)
    | _      => ([], .invalid)
  | .md (.cons a d) _ =>
    match a.get with
    | .chr c => let (xs, t) := explode d; ((c, d) :: xs, t)
    | _      => ([], .invalid)
  | _            => ([], .invalid)

def Loc.stepLine (l : Loc) : Loc := { l with line := l.line + 1, col := 0 }
def Loc.stepColumn (l : Loc) : Loc := { l with col := l.col + 1 }
def Loc.step (l : Loc) (c : Char) : Loc := if c = '\n' then l.stepLine else l.stepColumn

/-- `build_character` (after the fix: exactly one code point, or one of the five escapes) -/
def buildCharacter (buf : List Char) : Except (List Char) Char :=
  if buf = [] then .error cs!"invalid character: '%' (empty literal)"
  else if buf = cs!"\\n" then .ok '\n'
  else if buf = cs!"\\t" then .ok '\t'
  else if buf = cs!"\\s" then .ok ' '
  else if buf = cs!"\\r" then .ok '\r'
  else if buf = cs!"\\\\" then .ok '\\'
  else match buf with
    | [c] => .ok c
    | _   => .error (cs!"invalid character: '%" ++ buf ++ cs!"'")

def buildNumber (buf : List Char) : Except (List Char) Int :=
  match parseI64 buf with
  | .ok n    => .ok n
  | .error e => .error (cs!"invalid number: '" ++ e.message ++ cs!"'")

/-- result of one call of `TokenIterator::next` -/
inductive TokOut where
  | token (v : TokenValue) (loc : Loc) (rest : Rest) (remaining : List (Char × Val)) (newLoc : Loc)
  | err (e : ReadError)
  | done
  deriving Repr

/-- is the next item an atom ending?  `none`: the string is invalid there -/
def atomEnding (remaining : List (Char × Val)) (tail : Tail) : Option Bool :=
  match remaining with
  | (c, _) :: _ => some (isDelimiter c)
  | []          => match tail with
                   | .eof     => some true
                   | .invalid => none

/-- the `while let Some(..) = self.input.next()` loop of `TokenIterator::next`.
`buf` is the token buffer in reverse order. -/
def tokLoop : List (Char × Val) → Tail → Loc → TokStatus → List Char → Loc → TokOut
  | [], tail, _loc, status, buf, _begin =>
    match tail with
    | .invalid => .err .invalidString
    | .eof =>
      if buf ≠ [] || status == .stringNormal || status == .stringEscape || status == .character
      then .err .incomplete else .done
  | (ch, r) :: items, tail, loc0, status, buf, begin =>
    let loc := loc0.step ch
    let rest : Rest := ⟨r, loc.line, loc.col + 1⟩
    -- what happens after the big `match ch`: the atom-ending test
    let finish (status : TokStatus) (buf : List Char) (begin : Loc) : TokOut :=
      if buf ≠ [] then
        match atomEnding items tail with
        | none       => .err .invalidString
        | some false => tokLoop items tail loc status buf begin
        | some true  =>
          match status with
          | .character =>
            match buildCharacter buf.reverse with
            | .ok c      => .token (.character c) begin rest items loc
            | .error msg => .err (.error msg loc rest)
          | .number =>
            match buildNumber buf.reverse with
            | .ok n      => .token (.number n) begin rest items loc
            | .error msg => .err (.error msg loc rest)
          | .symbol | .symbolOrNumber => .token (.symbol buf.reverse) begin rest items loc
          | .stringNormal | .stringEscape => tokLoop items tail loc status buf begin
          | .whiteSpace | .comment => .err (.crash cs!"read: unreachable token status")
      else tokLoop items tail loc status buf begin
    if status == .comment then
      tokLoop items tail loc (if ch = '\n' then .whiteSpace else .comment) buf begin
    else if status == .stringNormal && ch ≠ '"' && ch ≠ '\\' then
      tokLoop items tail loc status (ch :: buf) begin
    else if status == .stringEscape then
      if ch = '"' then tokLoop items tail loc .stringNormal ('"' :: buf) begin
      else if ch = 'n' then tokLoop items tail loc .stringNormal ('\n' :: buf) begin
      else if ch = 'r' then tokLoop items tail loc .stringNormal ('\r' :: buf) begin
      else if ch = 't' then tokLoop items tail loc .stringNormal ('\t' :: buf) begin
      else if ch = '\\' then tokLoop items tail loc .stringNormal ('\\' :: buf) begin
      else .err (.error (cs!"'" ++ [ch] ++ cs!"' is not a valid escape character in a string literal") loc rest)
    else if status == .character && buf = [] then
      -- the character right after `%` is taken literally
      finish status [ch] begin
    else if isWhitespace ch || ch = ',' then
      finish .whiteSpace buf begin
    else if ch = ';' then
      finish .comment buf begin
    else if ch = '\'' then .token .quote loc rest items loc
    else if ch = '(' then .token .openParen loc rest items loc
    else if ch = ')' then .token .closeParen loc rest items loc
    else if ch = '"' then
      if status == .stringNormal then .token (.string buf.reverse) begin rest items loc
      else finish .stringNormal buf loc
    else if ch = '\\' then
      if status == .stringNormal then finish .stringEscape buf begin
      else if status == .character then finish status (ch :: buf) begin
      else .err (.error cs!"unexpected character: '\\'" loc rest)
    else if ch = '%' then
      if status == .whiteSpace then finish .character buf loc
      else finish status (ch :: buf) begin
    else if ch = '+' || ch = '-' then
      if status == .whiteSpace then finish .symbolOrNumber (ch :: buf) loc
      else finish status (ch :: buf) begin
    else if isAsciiDigit ch then
      if status == .symbolOrNumber then finish .number (ch :: buf) begin
      else if status == .whiteSpace then finish .number (ch :: buf) loc
      else finish status (ch :: buf) begin
    else
      if status == .whiteSpace then finish .symbol (ch :: buf) loc
      else if status == .symbolOrNumber then finish .symbol (ch :: buf) begin
      else if status == .number then
        .err (.error (cs!"unexpected character in number literal: '" ++ [ch] ++ cs!"'") loc rest)
      else finish status (ch :: buf) begin

/-- one call of `TokenIterator::next` -/
def nextToken (items : List (Char × Val)) (tail : Tail) (loc : Loc) : TokOut :=
  tokLoop items tail loc .whiteSpace [] loc

def quoteSym : Val := .symName cs!"quote"

def wrapQuote (v : Val) : Val := .ofList [quoteSym, v]

/-- an atom as the reader builds it: the value inside a metadata cell -/
def atomWithMeta (v : Val) (readName : List Char) (loc : Loc) : Val :=
  .md v ⟨readName, loc, []⟩

def tokenAtom (t : TokenValue) (loc : Loc) : Option Val :=
  match t with
  | .character c => some (atomWithMeta (.chr c) [c] loc)
  | .number n    => some (atomWithMeta (.num n) (formatInt n) loc)
  | .symbol s    => some (atomWithMeta (.symName s) s loc)
  | .string s    => some (atomWithMeta (.ofString s) s loc)
  | _            => none

/-- the token loop of `read_internal`; `stack` holds the open lists (elements in reverse order) with the
`quoted` flag each was opened under -/
def readLoop : Nat → List (Char × Val) → Tail → Loc → List (List Val × Bool) → Bool → Except ReadError (Val × Rest)
  | 0, _, _, _, _, _ => .error (.crash cs!"read: out of fuel")
  | fuel + 1, items, tail, loc, stack, quoted =>
    match nextToken items tail loc with
    | .err e => .error e
    | .done  => if !stack.isEmpty || quoted then .error .incomplete else .error .nothing
    | .token v tloc rest remaining newLoc =>
      match v with
      | .quote     => readLoop fuel remaining tail newLoc stack true
      | .openParen => readLoop fuel remaining tail newLoc (([], quoted) :: stack) false
      | .closeParen =>
        match stack with
        | [] => .error (.error cs!"too many closing parentheses" tloc rest)
        | (vec, q) :: lower =>
          let list := Val.ofList vec.reverse
          let qlist := if q then wrapQuote list else list
          let quoted := if q then false else quoted
          match lower with
          | (lvec, lq) :: lower' => readLoop fuel remaining tail newLoc ((qlist :: lvec, lq) :: lower') quoted
          | [] => .ok (if quoted then wrapQuote qlist else qlist, rest)
      | atomTok =>
        match tokenAtom atomTok tloc with
        | none   => .error (.crash cs!"read: not an atom token")
        | some x =>
          let y := if quoted then wrapQuote x else x
          match stack with
          | (vec, q) :: lower => readLoop fuel remaining tail newLoc ((y :: vec, q) :: lower) false
          | [] => .ok (y, rest)

/-- `read_internal` -/
def readInternal (input : Val) (loc : Loc) : Except ReadError (Val × Rest) :=
  let (items, tail) := explode input
  readLoop (items.length + 1) items tail loc [] false

end Pici
