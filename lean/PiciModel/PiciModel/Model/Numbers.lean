/-
Numbers: 64-bit signed arithmetic as `src/native/numbers/mod.rs` uses it
(`checked_add`, `checked_sub`, `checked_mul`, `checked_div`, `<`, `>`),
`str::parse::<i64>` and `{}` formatting of `i64`.

`checked_*` are modelled at the bit level (two's complement result plus the
signed-overflow flag), not by a range test on mathematical integers: that the
two agree is a theorem (Props/C12), not a definition.
-/
import PiciModel.Model.Value

namespace Pici

def i64Min : Int := -9223372036854775808
def i64Max : Int :=  9223372036854775807

def inRange (z : Int) : Bool := decide (i64Min ≤ z) && decide (z ≤ i64Max)

abbrev I64 := BitVec 64

def toI64 (z : Int) : I64 := BitVec.ofInt 64 z

/-- `i64::checked_add` -/
def checkedAdd (x y : I64) : Option I64 :=
  if BitVec.saddOverflow x y then none else some (x + y)

/-- `i64::checked_sub` -/
def checkedSub (x y : I64) : Option I64 :=
  if BitVec.ssubOverflow x y then none else some (x - y)

/-- `i64::checked_mul` -/
def checkedMul (x y : I64) : Option I64 :=
  if BitVec.smulOverflow x y then none else some (x * y)

/-- `i64::checked_div`: `None` for a zero divisor and for `MIN / -1` -/
def checkedDiv (x y : I64) : Option I64 :=
  if y = 0#64 then none
  else if x = BitVec.intMin 64 ∧ y = BitVec.allOnes 64 then none
  else some (BitVec.sdiv x y)

/-- signed `<` -/
def lessI64 (x y : I64) : Bool := BitVec.slt x y

/-! ### `{}` formatting of an `i64` -/

def formatInt (z : Int) : List Char :=
  if z < 0 then '-' :: Nat.toDigits 10 z.natAbs else Nat.toDigits 10 z.toNat

/-! ### `str::parse::<i64>` (`from_ascii_radix`, radix 10) -/

inductive ParseIntError where
  | empty | invalidDigit | posOverflow | negOverflow
  deriving DecidableEq, Repr

def ParseIntError.message : ParseIntError → List Char
  | .empty        => cs!"cannot parse integer from empty string"
  | .invalidDigit => cs!"invalid digit found in string"
  | .posOverflow  => cs!"number too large to fit in target type"
  | .negOverflow  => cs!"number too small to fit in target type"

def digitVal (c : Char) : Option Nat :=
  if '0' ≤ c ∧ c ≤ '9' then some (c.toNat - '0'.toNat) else none

/-- the checked digit loop: multiply by ten, then convert the digit, then add or subtract -/
def parseDigits (positive : Bool) : List Char → Int → Except ParseIntError Int
  | [], acc      => .ok acc
  | c :: cs, acc =>
    match digitVal c with
    | none   => .error .invalidDigit
    | some d =>
      let m := acc * 10
      if !inRange m then .error (if positive then .posOverflow else .negOverflow)
      else
        let r := if positive then m + d else m - d
        if !inRange r then .error (if positive then .posOverflow else .negOverflow)
        else parseDigits positive cs r

def parseI64 (s : List Char) : Except ParseIntError Int :=
  match s with
  | []         => .error .empty
  | ['+']      => .error .invalidDigit
  | ['-']      => .error .invalidDigit
  | '+' :: ds  => parseDigits true ds 0
  | '-' :: ds  => parseDigits false ds 0
  | ds         => parseDigits true ds 0

/-- `x as i64` for a `usize` (64-bit): wraps -/
def usizeAsI64 (n : Nat) : Int := (BitVec.ofNat 64 n).toInt

/-- `fit_to_number`: `i64::try_from(usize)` -/
def fitToNumber (n : Nat) : Val :=
  if n ≤ 9223372036854775807 then .num n else .symName cs!"more-than-number-type-maximum"

end Pici
