/-
The native functions that do not re-enter the evaluator, one definition per Rust function
(`src/native/{list,numbers,misc,globals,signal,reflection,debug,io}/mod.rs`, `src/error_utils/mod.rs`).
Argument validation mirrors `validate_args!`: arity first, then each argument in order.
-/
import PiciModel.Model.Printer
import PiciModel.Model.Reader
import PiciModel.Model.State
import PiciModel.Generated.NativeTable

namespace Pici

/-- outcome of a call: `Ok(value)`, `Err(signal)` (an abort is `Err` of a nil value), a panic of the
Rust code (`crash`), or the model running out of fuel -/
inductive Res (α : Type) where
  | ok (a : α)
  | err (signal : Val)
  | crash (site : List Char)
  | outOfFuel
  deriving Repr

abbrev Out := Res Val × St

/-! ### names and parameters of the natives (checked against the generated table) -/

def NativeId.all : List NativeId :=
  [.cons, .car, .cdr, .list, .getProperty, .append, .unrest, .abort, .signal, .read,
   .makeTrap, .makeFunction, .callNativeFunction, .macroexpand, .eval, .loadAll, .print,
   .add, .substract, .multiply, .divide, .less, .greater,
   .define, .undefine, .whereis, .export, .getCurrentModule, .fromModule, .withCurrentModule,
   .destructureTrap, .destructureFunction, .typeOf, .getMetadata, .send, .receive,
   .inputFile, .outputFile, .gensym, .equal]

def NativeId.name : NativeId → Name
  | .cons => cs!"cons" | .car => cs!"car" | .cdr => cs!"cdr" | .list => cs!"list"
  | .getProperty => cs!"." | .append => cs!"append" | .unrest => cs!"unrest"
  | .abort => cs!"abort" | .signal => cs!"signal" | .read => cs!"read"
  | .makeTrap => cs!"make-trap" | .makeFunction => cs!"make-function"
  | .callNativeFunction => cs!"call-native-function" | .macroexpand => cs!"macroexpand"
  | .eval => cs!"eval" | .loadAll => cs!"load-all" | .print => cs!"print"
  | .add => cs!"add" | .substract => cs!"substract" | .multiply => cs!"multiply" | .divide => cs!"divide"
  | .less => cs!"<" | .greater => cs!">"
  | .define => cs!"define" | .undefine => cs!"undefine" | .whereis => cs!"whereis" | .export => cs!"export"
  | .getCurrentModule => cs!"get-current-module" | .fromModule => cs!"from-module"
  | .withCurrentModule => cs!"with-current-module"
  | .destructureTrap => cs!"destructure-trap" | .destructureFunction => cs!"destructure-function"
  | .typeOf => cs!"type-of" | .getMetadata => cs!"get-metadata"
  | .send => cs!"send" | .receive => cs!"receive"
  | .inputFile => cs!"input-file" | .outputFile => cs!"output-file"
  | .gensym => cs!"gensym" | .equal => cs!"="

def NativeId.params : NativeId → List Name
  | .cons => [cs!"car", cs!"cdr"] | .car => [cs!"cons"] | .cdr => [cs!"cons"]
  | .list => [cs!"&", cs!"objects"] | .getProperty => [cs!"plist", cs!"key"]
  | .append => [cs!"list1", cs!"list2"] | .unrest => [cs!"f"]
  | .abort => [cs!"abort"] | .signal => [cs!"signal"]
  | .read => [cs!"input", cs!"source", cs!"start-line", cs!"start-column"]
  | .makeTrap => [cs!"normal-body", cs!"trap-body"]
  | .makeFunction => [cs!"params", cs!"body", cs!"environment", cs!"environment-module", cs!"kind"]
  | .callNativeFunction => [cs!"function", cs!"arguments", cs!"environment"]
  | .macroexpand => [cs!"object"] | .eval => [cs!"object"] | .loadAll => [cs!"string", cs!"source"]
  | .print => [cs!"input"]
  | .add | .substract | .multiply | .divide | .less | .greater => [cs!"x", cs!"y"]
  | .define => [cs!"name", cs!"value", cs!"documentation"] | .undefine => [cs!"name"]
  | .whereis => [cs!"name"] | .export => [cs!"names"] | .getCurrentModule => []
  | .fromModule => [cs!"name", cs!"module"] | .withCurrentModule => [cs!"name", cs!"module"]
  | .destructureTrap => [cs!"trap"] | .destructureFunction => [cs!"function"]
  | .typeOf => [cs!"object"] | .getMetadata => [cs!"object"]
  | .send => [cs!"data"] | .receive => []
  | .inputFile => [cs!"path"] | .outputFile => [cs!"path", cs!"string"]
  | .gensym => [] | .equal => [cs!"x", cs!"y"]

/-- documentation strings are taken from the generated table (they are plain data, observable through
`get-metadata`) -/
def NativeId.doc (id : NativeId) : List Char :=
  match Generated.nativeTable.find? (·.1 == id.name) with
  | some (_, _, _, d) => d
  | none              => []

/-! ### error values -/

def plist (kv : List (Name × Val)) : Val :=
  .ofList (kv.foldr (fun (k, v) acc => Val.symName k :: v :: acc) [])

/-- `make_error` -/
def makeError (kind source : Name) (details : List (Name × Val)) : Val :=
  plist ((cs!"kind", .symName kind) :: (cs!"source", .symName source) :: details)

def wrongArity (source : Name) (expected actual : Nat) : Val :=
  makeError cs!"wrong-number-of-arguments" source [(cs!"expected", fitToNumber expected), (cs!"actual", fitToNumber actual)]

def wrongType (source : Name) (arg : Val) (expected : TypeLabel) : Val :=
  makeError cs!"wrong-argument-type" source
    [(cs!"argument-value", arg), (cs!"expected", .symName expected.name), (cs!"actual", .symName (extendedGetType arg).name)]

/-! ### `validate_args!` as continuation-passing combinators -/

section validate
variable {α : Type}

@[always_inline, inline] def arity0 (source : Name) (args : List Val) (k : Res α × St) (st : St) : Res α × St :=
  match args with
  | [] => k
  | _  => (.err (wrongArity source 0 args.length), st)

@[always_inline, inline] def arity1 (source : Name) (args : List Val) (st : St) (k : Val → Res α × St) : Res α × St :=
  match args with
  | [x] => k x
  | _   => (.err (wrongArity source 1 args.length), st)

@[always_inline, inline] def arity2 (source : Name) (args : List Val) (st : St) (k : Val → Val → Res α × St) : Res α × St :=
  match args with
  | [x, y] => k x y
  | _      => (.err (wrongArity source 2 args.length), st)

@[always_inline, inline] def arity3 (source : Name) (args : List Val) (st : St) (k : Val → Val → Val → Res α × St) : Res α × St :=
  match args with
  | [x, y, z] => k x y z
  | _         => (.err (wrongArity source 3 args.length), st)

@[always_inline, inline] def asNumber (source : Name) (v : Val) (st : St) (k : Int → Res α × St) : Res α × St :=
  match v.get with
  | .num n => k n
  | _      => (.err (wrongType source v .number), st)

@[always_inline, inline] def asSymbol (source : Name) (v : Val) (st : St) (k : Sym → Res α × St) : Res α × St :=
  match v.get with
  | .sym s => k s
  | _      => (.err (wrongType source v .symbol), st)

@[always_inline, inline] def asList (source : Name) (v : Val) (st : St) (k : List Val → Res α × St) : Res α × St :=
  match listToVec v with
  | some xs => k xs
  | none    => (.err (wrongType source v .list), st)

@[always_inline, inline] def asString (source : Name) (v : Val) (st : St) (k : List Char → Res α × St) : Res α × St :=
  match listToString v with
  | some s => k s
  | none   => (.err (wrongType source v .string), st)

end validate

/-- the text under which a symbol is known to the module table (`Symbol::get_name`); generated symbols
print their address in the real interpreter — here their number -/
def Sym.globalName : Sym → Name
  | .named n => n
  | .gen id  => cs!"#<symbol-" ++ Nat.toDigits 10 id ++ cs!">"

/-! ### `=` (`equal_internal`) -/

def isProperList (v : Val) : Bool := (listToVec v).isSome

mutual
/-- `equal_internal` -/
def equalInternal : Val → Val → Bool
  | .md a _, b   => equalInternal a b
  | .nil, b      => b.isNil
  | .num n, b    => match b.get with | .num m => n == m | _ => false
  | .chr c, b    => match b.get with | .chr d => c == d | _ => false
  | .sym s, b    => match b.get with | .sym t => s == t | _ => false
  | .cons a d, b =>
    match b.get with
    | .cons b1 d2 =>
      if isProperList d then
        -- both proper lists: element by element, same length; a proper list never equals an improper one
        if isProperList d2 then equalInternal a b1 && equalTail d d2 else false
      else equalInternal a b1 && equalInternal d d2
    | _ => false
  | .fn .., _    => false
  | .native _, _ => false
  | .trap _ _, _ => false
/-- element-wise comparison of the remainders of two proper lists -/
def equalTail : Val → Val → Bool
  | .md d _, e   => equalTail d e
  | .nil, e      => e.isNil
  | .cons x d, e =>
    match e.get with
    | .cons y e' => equalInternal x y && equalTail d e'
    | _          => false
  | _, _         => false
end

/-! ### reflection helpers -/

/-- `Function::get_param_names` for a normal function -/
def paramNames (rest : Val) (params : Val) : List Name :=
  let ps := (listToVec params).getD []
  let nameOf (p : Val) : Name := match p.get with
    | .sym s => s.globalName
    | _      => cs!"#<invalid-parameter-name>"
  ps.map nameOf ++ (match rest.restParam? with
    | some last => (match last.get with
        | .sym s => [cs!"&", s.globalName]
        | _      => [cs!"#<invalid-parameter-name>"])
    | none => [])

/-- the `parameters` entry of `destructure-function` for a normal function (after the fix): the parameter symbols
themselves, with `&` before the rest parameter -/
def functionParams (rest : Val) (params : Val) : Val :=
  .ofList ((listToVec params).getD [] ++ (match rest.restParam? with
    | some last => [.symName cs!"&", last]
    | none      => []))

def metadataPlist (m : Meta) : Val :=
  let doc := Val.ofChars m.doc
  match m.loc.src with
  | .native  => plist [(cs!"documentation", doc), (cs!"file", .symName cs!"native")]
  | .prelude => plist [(cs!"documentation", doc), (cs!"file", .symName cs!"prelude"),
                       (cs!"line", .num (usizeAsI64 m.loc.line)), (cs!"column", .num (usizeAsI64 m.loc.col))]
  | .stdin   => plist [(cs!"documentation", doc), (cs!"file", .symName cs!"stdin"),
                       (cs!"line", .num (usizeAsI64 m.loc.line)), (cs!"column", .num (usizeAsI64 m.loc.col))]
  | .file p  => plist [(cs!"documentation", doc), (cs!"file", .ofString p),
                       (cs!"line", .num (usizeAsI64 m.loc.line)), (cs!"column", .num (usizeAsI64 m.loc.col))]

/-! ### the `read` native -/

def locFile (src : Src) : Val :=
  match src with
  | .native  => .symName cs!"native"
  | .prelude => .symName cs!"prelude"
  | .stdin   => .symName cs!"stdin"
  | .file p  => .ofString p

/-- `format_error` -/
def formatReadError (msg : List Char) (loc : Loc) (rest : Rest) : Val :=
  let errorLoc := plist [(cs!"file", locFile loc.src), (cs!"line", .num (usizeAsI64 loc.line)), (cs!"column", .num (usizeAsI64 loc.col))]
  let error    := plist [(cs!"location", errorLoc), (cs!"message", .ofChars msg)]
  plist [(cs!"status", .symName cs!"error"), (cs!"error", error), (cs!"rest", rest.string),
         (cs!"line", .num (usizeAsI64 rest.line)), (cs!"column", .num (usizeAsI64 rest.column))]

/-- what `read` found, before it is packed into a property list -/
inductive ReadOutcome where
  | ok (result : Val) (rest : Rest)
  | nothing
  | incomplete
  | invalid
  | error (msg : List Char) (loc : Loc) (rest : Rest)
  deriving Repr

def ReadOutcome.toPlist : ReadOutcome → Val
  | .ok result rest => plist [(cs!"status", .symName cs!"ok"), (cs!"result", result), (cs!"rest", rest.string),
                              (cs!"line", .num (usizeAsI64 rest.line)), (cs!"column", .num (usizeAsI64 rest.column))]
  | .nothing        => plist [(cs!"status", .symName cs!"nothing")]
  | .incomplete     => plist [(cs!"status", .symName cs!"incomplete")]
  | .invalid        => plist [(cs!"status", .symName cs!"invalid")]
  | .error msg loc rest => formatReadError msg loc rest

/-- the `read` native up to the packing of the result: validation, the source, then `read_internal` -/
def readCore (args : List Val) (depth : Nat) : Res ReadOutcome :=
  if depth > Config.maxRecursionDepth then .err (makeError cs!"stackoverflow" cs!"read" [])
  else match args with
    | [input, source, startLine, startColumn] =>
      match startLine.get with
      | .num sl =>
        match startColumn.get with
        | .num sc =>
          if sl < 1 || sc < 1 then
            .err (makeError cs!"wrong-argument" cs!"read" [(cs!"start-line", startLine), (cs!"start-column", startColumn)])
          else
            let src? : Option Src :=
              match listToString source with
              | some path => some (.file path)
              | none =>
                if source.isSymNamed cs!"prelude" then some .prelude
                else if source.isSymNamed cs!"stdin" then some .stdin
                else none
            match src? with
            | none => .err (makeError cs!"unknown-read-source" cs!"read" [(cs!"the-unknown-source", source)])
            | some src =>
              match readInternal input ⟨src, sl.toNat, sc.toNat - 1⟩ with
              | .ok (result, rest)            => .ok (.ok result rest)
              | .error .nothing               => .ok .nothing
              | .error .incomplete            => .ok .incomplete
              | .error .invalidString         => .ok .invalid
              | .error (.error msg loc rest)  => .ok (.error msg loc rest)
              | .error (.crash site)          => .crash site
        | _ => .err (wrongType cs!"read" startColumn .number)
      | _ => .err (wrongType cs!"read" startLine .number)
    | _ => .err (wrongArity cs!"read" 4 args.length)

def readNative (args : List Val) (depth : Nat) : Res Val :=
  match readCore args depth with
  | .ok o       => .ok o.toPlist
  | .err s      => .err s
  | .crash s    => .crash s
  | .outOfFuel  => .outOfFuel

/-! ### the `print` native -/

def stackoverflow (source : Name) : Val := makeError cs!"stackoverflow" source []

/-- `print(mem, args, _, depth)` as text -/
def printText (args : List Val) (depth : Nat) : Res (List Char) :=
  match args with
  | [x] =>
    match printAt x (depth + 1) with
    | .ok text  => .ok text
    | .overflow => .err (stackoverflow cs!"print")
  | _ => .err (wrongArity cs!"print" 1 args.length)

def printNative (args : List Val) (depth : Nat) : Res Val :=
  match printText args depth with
  | .ok t      => .ok (.ofChars t)
  | .err s     => .err s
  | .crash s   => .crash s
  | .outOfFuel => .outOfFuel

/-- the text a debugger message carries for a value: `print(mem, &[v], nil, recursion_depth + 1)` -/
def printForMessage (v : Val) (depth : Nat) : List Char :=
  match printText [v] (depth + 1) with
  | .ok t => t
  | _     => cs!"#<ERROR: CANNOT CONVERT TO STRING>"

/-- messages are hash maps: a later key replaces an earlier one; the correspondence check compares them with keys sorted -/
def insertField (msg : List (Name × List Char)) (k : Name) (v : List Char) : List (Name × List Char) :=
  match msg with
  | []            => [(k, v)]
  | (k', v') :: m =>
    if k' == k then (k, v) :: m
    else if nameLe k k' then (k, v) :: (k', v') :: m
    else (k', v') :: insertField m k v

/-! ### property lists -/

/-- `get_property_internal`: `none` = malformed property list -/
def getPropertyInternal (key : Sym) : List Val → Option Val
  | []          => some .nil
  | [k]         => match k.get with
                   | .sym s => if s == key then none else some .nil
                   | _      => none
  | k :: v :: r => match k.get with
                   | .sym s => if s == key then some v else getPropertyInternal key r
                   | _      => none

/-! ### arithmetic -/

def arith (source : Name) (op : I64 → I64 → Option I64) (args : List Val) (st : St) : Out :=
  arity2 source args st fun x y =>
  asNumber source x st fun a =>
  asNumber source y st fun b =>
    match op (toI64 a) (toI64 b) with
    | some z => (.ok (.num z.toInt), st)
    | none   => (.err (makeError cs!"arithmetic-overflow" source []), st)

def compare (source : Name) (op : I64 → I64 → Bool) (args : List Val) (st : St) : Out :=
  arity2 source args st fun x y =>
  asNumber source x st fun a =>
  asNumber source y st fun b =>
    if op (toI64 a) (toI64 b) then (.ok (.symName cs!"t"), st) else (.ok .nil, st)

/-- `divide`: the zero test of the source comes first, then `checked_div` -/
def divideNative (args : List Val) (st : St) : Out :=
  arity2 cs!"divide" args st fun x y =>
  asNumber cs!"divide" x st fun a =>
  asNumber cs!"divide" y st fun b =>
    if b = 0 then (.err (makeError cs!"divide-by-zero" cs!"divide" []), st)
    else match checkedDiv (toI64 a) (toI64 b) with
      | some z => (.ok (.num z.toInt), st)
      | none   => (.err (makeError cs!"arithmetic-overflow" cs!"divide" []), st)

/-! ### `export` -/

def exportLoop (st : St) : List Val → Out
  | []      => (.ok (.symName cs!"ok"), st)
  | n :: ns =>
    match n.get with
    | .sym s => exportLoop (st.addExport s.globalName) ns
    | _      => (.err (makeError cs!"wrong-argument-type" cs!"export"
                  [(cs!"expected", .symName cs!"symbol-type"), (cs!"actual", .symName n.getType.name), (cs!"symbol", n)]), st)

/-! ### `send` -/

def sendLoop (depth : Nat) : List Val → List (Name × List Char) → Option (List (Name × List Char))
  | [], msg          => some msg
  | [_], _           => none      -- a key without a value: invalid-plist (after the fix)
  | k :: v :: r, msg =>
    match k.get with
    | .sym s => sendLoop depth r (insertField msg s.globalName (printForMessage v depth))
    | _      => none

/-- `(input-file *stdin*)`: every time the read TIMES OUT before the line is complete, the debugger channel is polled —
INTERRUPT raises `interrupted` (source input-file), ABORT aborts, both losing what was already read of the line; any
other command is consumed and ignored; with nothing pending the wait goes on.  Then `read_line`.  `n` bounds the number
of time-outs (there is at most one per chunk). -/
def inputStdin : Nat → St → Res Val × St
  | n + 1, st =>
    match firstTimeout st.stdinBuf st.stdinChunks with
    | some (before, after) =>
      if st.attached then
        match st.inbox with
        | c :: rest =>
          let st1 := { st with inbox := rest }
          if c.text == cs!"INTERRUPT" then
            (.err (makeError cs!"interrupted" cs!"input-file" []), { st1 with stdinBuf := [], stdinChunks := after })
          else if c.text == cs!"ABORT" then (.err .nil, { st1 with stdinBuf := [], stdinChunks := after })
          else inputStdin n { st1 with stdinChunks := before ++ after }
        | [] => inputStdin n { st with stdinChunks := before ++ after }
      else inputStdin n { st with stdinChunks := before ++ after }
    | none =>
      match st.readLine with
      | (.line text, st1)   => (.ok (.ofChars text), st1)
      | (.eof, st1)         => (.err (makeError cs!"eof" cs!"input-file" []), st1)
      | (.invalidData, st1) => (.err (makeError cs!"cannot-read-file" cs!"input-file" [(cs!"details", .ofChars cs!"invalid data")]), st1)
  | 0, st =>
    match st.readLine with
    | (.line text, st1)   => (.ok (.ofChars text), st1)
    | (.eof, st1)         => (.err (makeError cs!"eof" cs!"input-file" []), st1)
    | (.invalidData, st1) => (.err (makeError cs!"cannot-read-file" cs!"input-file" [(cs!"details", .ofChars cs!"invalid data")]), st1)

/-- every native that does not call back into the evaluator -/
def simpleNative (id : NativeId) (args : List Val) (depth : Nat) (st : St) : Out :=
  match id with
  | .cons => arity2 cs!"cons" args st fun a d => (.ok (.cons a d), st)
  | .car  => arity1 cs!"car" args st fun c =>
      match c.get with
      | .cons a _ => (.ok a, st)
      | _         => (.err (wrongType cs!"car" c .cons), st)
  | .cdr  => arity1 cs!"cdr" args st fun c =>
      match c.get with
      | .cons _ d => (.ok d, st)
      | _         => (.err (wrongType cs!"cdr" c .cons), st)
  | .list => (.ok (.ofList args), st)
  | .getProperty => arity2 cs!"." args st fun pl key =>
      asList cs!"." pl st fun xs =>
      asSymbol cs!"." key st fun s =>
        match getPropertyInternal s xs with
        | some v => (.ok v, st)
        | none   => (.err (makeError cs!"wrong-plist-format" cs!"." []), st)
  | .append => arity2 cs!"append" args st fun l1 l2 =>
      asList cs!"append" l1 st fun xs =>
      asList cs!"append" l2 st fun ys => (.ok (.ofList (xs ++ ys)), st)
  | .unrest => arity1 cs!"unrest" args st fun f =>
      match f.get with
      | .fn k r p b e m =>
        -- the rest parameter becomes an ordinary last parameter
        (.ok (.fn k .nil (match r.restParam? with
                          | some x => .ofList (((listToVec p).getD []) ++ [x])
                          | none   => p) b e m), st)
      | .native _       => (.ok f, st)
      | _               => (.err (wrongType cs!"unrest" f .function), st)
  | .abort => arity0 cs!"abort" args (.err .nil, st) st
  | .signal => arity1 cs!"signal" args st fun s =>
      if s.isNil then
        (.err (makeError cs!"wrong-argument-type" cs!"signal"
          [(cs!"argument-value", s), (cs!"expected", .symName cs!"any-non-nil-type"), (cs!"actual", .symName cs!"nil-type")]), st)
      else (.err s, st)
  | .read => (readNative args depth, st)
  | .print => (printNative args depth, st)
  | .makeTrap =>
      if depth > Config.maxRecursionDepth then (.err (stackoverflow cs!"make-trap"), st)
      else arity2 cs!"make-trap" args st fun n h => (.ok (.trap n h), st)
  | .add       => arith cs!"add" checkedAdd args st
  | .substract => arith cs!"substract" checkedSub args st
  | .multiply  => arith cs!"multiply" checkedMul args st
  | .divide    => divideNative args st
  | .less      => compare cs!"<" lessI64 args st
  | .greater   => compare cs!">" (fun a b => lessI64 b a) args st
  | .define => arity3 cs!"define" args st fun name value doc =>
      asSymbol cs!"define" name st fun s =>
      asString cs!"define" doc st fun d =>
        let n := s.globalName
        if st.isGlobalDefined n then
          (.err (makeError cs!"already-defined" cs!"define" [(cs!"symbol", name)]), st)
        else
          match (match name.getMeta with
                 | some m => (match value.unmeta with
                              | .md _ _ => none          -- `allocate_metadata` panics on metadata of metadata
                              | inner   => some (Val.md inner { m with doc := d }))
                 | none   => some value) with
          | none => (.crash cs!"allocate_metadata: metadata of metadata", st)
          | some stored =>
          let st1 := st.defineGlobal n stored
          let st2 :=
            if st1.isGlobalExported n then
              st1.send (insertField (insertField (insertField (insertField (insertField []
                cs!"kind" cs!"GLOBAL_DEFINED") cs!"name" n) cs!"module" st1.current)
                cs!"type" value.getType.name) cs!"value" (printForMessage value depth))
            else st1
          (.ok (.symName cs!"ok"), st2)
  | .undefine => arity1 cs!"undefine" args st fun name =>
      asSymbol cs!"undefine" name st fun s =>
        let st1 := st.undefineGlobal s.globalName
        let st2 := st1.send (insertField (insertField [] cs!"kind" cs!"GLOBAL_UNDEFINED") cs!"name" s.globalName)
        (.ok (.symName cs!"ok"), st2)
  | .whereis => arity1 cs!"whereis" args st fun name =>
      asSymbol cs!"whereis" name st fun s =>
        (.ok (.ofList ((st.modulesOfGlobal s.globalName).map Val.symName)), st)
  | .export => arity1 cs!"export" args st fun names =>
      asList cs!"export" names st fun ns => exportLoop st ns
  | .getCurrentModule => arity0 cs!"get-current-module" args (.ok (.symName st.current), st) st
  | .fromModule => arity2 cs!"from-module" args st fun name mod =>
      asSymbol cs!"from-module" name st fun s =>
      asSymbol cs!"from-module" mod st fun m =>
        match st.getGlobalFromModule s.globalName m.globalName with
        | .found v           => (.ok v, st)
        | .notFoundOrPrivate => (.err (makeError cs!"unbound-symbol" cs!"from-module" [(cs!"symbol", name)]), st)
        | .noSuchModule      => (.err (makeError cs!"no-such-module" cs!"from-module" [(cs!"module", mod)]), st)
  | .withCurrentModule => arity2 cs!"with-current-module" args st fun name mod =>
      asSymbol cs!"with-current-module" name st fun s =>
      asSymbol cs!"with-current-module" mod st fun m =>
        match st.getGlobal s.globalName m.globalName with
        | .found v      => (.ok v, st)
        | .ambiguous ms => (.err (makeError cs!"ambiguous-name" cs!"with-current-module"
                              [(cs!"symbol", name), (cs!"conflicting-modules", .ofList (ms.map Val.symName))]), st)
        | .notFound     => (.err (makeError cs!"unbound-symbol" cs!"with-current-module" [(cs!"symbol", name)]), st)
  | .destructureTrap => arity1 cs!"destructure-trap" args st fun t =>
      match t.get with
      | .trap n h => (.ok (.ofList [n, h]), st)
      | _         => (.err (wrongType cs!"destructure-trap" t .trap), st)
  | .destructureFunction => arity1 cs!"destructure-function" args st fun f =>
      match f.get with
      | .fn k r p b e m =>
        (.ok (plist [(cs!"kind", .symName k.name), (cs!"parameters", functionParams r p),
                     (cs!"body", b), (cs!"environment", e), (cs!"module", .symName m)]), st)
      | .native id =>
        (.ok (plist [(cs!"kind", .symName cs!"lambda"), (cs!"parameters", .ofList (id.params.map Val.symName)),
                     (cs!"body", .nil), (cs!"environment", .nil), (cs!"module", .symName [])]), st)
      | _ => (.err (wrongType cs!"destructure-function" f .function), st)
  | .typeOf => arity1 cs!"type-of" args st fun x =>
      match x.getType with
      | .cons =>
        let ct := consType x
        (.ok (.symName (if ct.isString then cs!"string-type" else if ct.isList then cs!"list-type" else cs!"cons-type")), st)
      | t => (.ok (.symName t.name), st)
  | .getMetadata => arity1 cs!"get-metadata" args st fun x =>
      match x.getMeta with
      | some m => (.ok (metadataPlist m), st)
      | none   => (.ok .nil, st)
  | .send => arity1 cs!"send" args st fun data =>
      asList cs!"send" data st fun xs =>
        match sendLoop depth xs [] with
        | some msg => (.ok (.symName cs!"ok"), st.send msg)
        | none     => (.err (makeError cs!"invalid-plist" cs!"send" [(cs!"symbol", .symName cs!"data")]), st)
  | .receive => arity0 cs!"receive" args
      (if st.attached then
        match st.inbox with
        | []      => (.outOfFuel, st)     -- the real `recv()` blocks forever: never an outcome
        | c :: cs =>
          let st1 := { st with inbox := cs }
          if c.text == cs!"INTERRUPT" then (.err (makeError cs!"interrupted" cs!"receive" []), st1)
          else if c.text == cs!"ABORT" then (.err .nil, st1)
          else (.ok (plist [(cs!"command", .symName c.text)]), st1)
      else (.ok .nil, st)) st
  | .inputFile => arity1 cs!"input-file" args st fun src =>
      if src.isSymNamed cs!"*stdin*" then inputStdin (st.stdinChunks.length + 1) st
      else match listToString src with
        | none   => (.err (makeError cs!"wrong-argument-type" cs!"input-file"
                      [(cs!"expected", .symName cs!"string-type"), (cs!"actual", .symName src.getType.name)]), st)
        | some _ => -- the file system is not modelled: every path is a file that does not exist
                    (.err (makeError cs!"cannot-read-file" cs!"input-file" [(cs!"details", .ofChars cs!"entity not found")]), st)
  | .outputFile => arity2 cs!"output-file" args st fun dst string =>
      asString cs!"output-file" string st fun s =>
        if dst.isSymNamed cs!"*stdout*" then (.ok (.symName cs!"ok"), st.write s)
        else match listToString dst with
          | none   => (.err (makeError cs!"wrong-argument-type" cs!"output-file"
                        [(cs!"expected", .symName cs!"string-type"), (cs!"actual", .symName dst.getType.name)]), st)
          | some _ => (.err (makeError cs!"cannot-write-file" cs!"output-file" [(cs!"details", .ofChars cs!"entity not found")]), st)
  | .gensym => arity0 cs!"gensym" args (.ok (.sym (.gen st.gensym)), { st with gensym := st.gensym + 1 }) st
  | .equal => arity2 cs!"=" args st fun x y =>
      (.ok (if equalInternal x y then .symName cs!"t" else .nil), st)
  -- the natives that re-enter the evaluator are defined in `Eval.lean`
  | .makeFunction | .callNativeFunction | .macroexpand | .eval | .loadAll =>
      (.crash cs!"simpleNative: re-entrant native", st)

end Pici
