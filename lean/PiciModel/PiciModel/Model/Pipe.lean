/-
L5 — the in-process I/O pipe, `src/io/mod.rs`: `IoSender::{write,flush}` and `IoReceiver::read` over an
`mpsc` channel, modelled as an atomic FIFO of messages plus the receiver's private byte buffer.
-/
namespace Pici

inductive Msg where
  | bytes (bs : List UInt8)
  | eof
  deriving DecidableEq, Repr

structure Pipe where
  chan : List Msg          -- messages sent and not yet received, oldest first
  buf  : List UInt8        -- `IoReceiver::buffer`
  deriving DecidableEq, Repr

def Pipe.empty : Pipe := ⟨[], []⟩

/-- `IoSender::write` (after the fix: an empty buffer sends nothing) -/
def Pipe.write (p : Pipe) (bs : List UInt8) : Pipe :=
  if bs = [] then p else { p with chan := p.chan ++ [.bytes bs] }

/-- `IoSender::flush` -/
def Pipe.flush (p : Pipe) : Pipe :=
  { p with chan := p.chan ++ [.eof] }

inductive ReadResult where
  | data (bs : List UInt8)     -- `Ok(n)`, n > 0, with the bytes copied into the caller's buffer
  | zero                       -- `Ok(0)`
  | timedOut                   -- `Err(TimedOut)`
  deriving DecidableEq, Repr

/-- `IoReceiver::read` into a buffer of `n` bytes -/
def Pipe.read (p : Pipe) (n : Nat) : ReadResult × Pipe :=
  let deliver (p : Pipe) : ReadResult × Pipe :=
    let k := min n p.buf.length
    if k = 0 then (.zero, p) else (.data (p.buf.take k), { p with buf := p.buf.drop k })
  if p.buf = [] then
    match p.chan with
    | []               => (.timedOut, p)
    | .eof :: rest     => (.zero, { p with chan := rest })
    | .bytes bs :: rest => deliver { chan := rest, buf := bs }
  else deliver p

end Pici
