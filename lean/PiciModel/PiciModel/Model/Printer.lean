/-
L3 — the printer, `src/native/print/mod.rs`.

Addresses (`{:p}` / `{:?}` of a pointer) are printed as `0x?`; the correspondence
check masks `0x[0-9a-f]+` in the real output the same way.
-/
import PiciModel.Model.Numbers
import PiciModel.Generated.Config

namespace Pici

def addressText : List Char := cs!"0x?"

def Sym.print : Sym → List Char
  | .named n => n
  | .gen _   => cs!"#<symbol-" ++ addressText ++ cs!">"

/-- the text after `%` for a character -/
def charEscape (c : Char) : List Char :=
  if c = '\t' then cs!"\\t"
  else if c = '\n' then cs!"\\n"
  else if c = '\r' then cs!"\\r"
  else if c = ' ' then cs!"\\s"
  else if c = '\\' then cs!"\\\\"
  else [c]

/-- `print_atom` (recursive on conses, without any depth limit — as in the source) -/
def printAtom : Val → List Char
  | .nil        => cs!"()"
  | .num n      => formatInt n
  | .chr c      => '%' :: charEscape c
  | .sym s      => s.print
  | .trap _ _   => cs!"#<trap-" ++ addressText ++ cs!">"
  | .fn k ..    => cs!"#<" ++ k.name ++ cs!"-" ++ addressText ++ cs!">"
  | .native _   => cs!"#<lambda-" ++ addressText ++ cs!">"
  | .cons a d   => cs!"(cons " ++ printAtom a ++ cs!" " ++ printAtom d ++ cs!")"
  | .md v _     => printAtom v

/-- `print_string`: quotes and backslashes are escaped, nothing else -/
def printStringBody : List Char → List Char
  | []      => []
  | c :: cs => if c = '"' ∨ c = '\\' then '\\' :: c :: printStringBody cs else c :: printStringBody cs

def printString (s : List Char) : List Char :=
  '"' :: (printStringBody s ++ ['"'])

/-- `print_list`: elements separated by one space, in parentheses -/
def joinSpace : List (List Char) → List Char
  | []      => []
  | [x]     => x
  | x :: xs => x ++ ' ' :: joinSpace xs

def printList (elems : List (List Char)) : List Char :=
  '(' :: (joinSpace elems ++ [')'])

inductive PrintResult where
  | ok (text : List Char)
  | overflow              -- the `stackoverflow` signal of `print`
  deriving DecidableEq, Repr

def collectTexts : List PrintResult → Option (List (List Char))
  | []              => some []
  | .ok t :: rs     => (collectTexts rs).map (t :: ·)
  | .overflow :: _  => none

/-- `print_internal`.  `fuel` only makes the recursion structural: every level increases `depth`, and a
depth above the configured maximum stops with the `stackoverflow` signal, so `maxRecursionDepth + 2`
levels of fuel are never used up (`printInternal_fuel_irrelevant`). -/
def printInternal : Nat → Val → Nat → PrintResult
  | 0, _, _ => .overflow
  | fuel + 1, v, depth =>
    if depth > Config.maxRecursionDepth then .overflow
    else if v.isNil then .ok cs!"()"
    else
      match listToString v with
      | some s => .ok (printString s)
      | none   =>
        match listToVec v with
        | some elems =>
          match collectTexts (elems.map fun x => printInternal fuel x (depth + 1)) with
          | some texts => .ok (printList texts)
          | none       => .overflow
        | none => .ok (printAtom v)

/-- the `print` native after argument validation: `print_internal(mem, x, recursion_depth + 1)` -/
def printAt (v : Val) (depth : Nat) : PrintResult :=
  printInternal (Config.maxRecursionDepth + 2) v depth

end Pici
