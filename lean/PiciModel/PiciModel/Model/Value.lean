/-
L0 — values as trees.

PiciLisp data is immutable, functions and traps compare unequal to everything
and the only place an address is observable is the text `#<…-0x…>`, so a
tree-valued semantics is exact up to that address text.  Mirrors
`src/memory/mod.rs` (types, `GcRef::{get,is_nil,get_type}`), `src/metadata/mod.rs`
and `src/util/mod.rs`.
-/

namespace Pici

open Lean in
/-- `cs!"abc"` is the list literal `['a','b','c']` (kernel-friendly: no `String` involved). -/
macro:max "cs!" s:str : term => do
  let elems : Array (TSyntax `term) := (s.getString.toList.map fun c => (⟨(Syntax.mkCharLit c).raw⟩ : TSyntax `term)).toArray
  `([$elems,*])

abbrev Name := List Char

/-- `Location` of `src/metadata/mod.rs` (without the line/column, which live in `Loc`). -/
inductive Src where
  | native
  | prelude
  | stdin
  | file (path : Name)
  deriving DecidableEq, Repr, Inhabited

structure Loc where
  src  : Src
  line : Nat
  col  : Nat
  deriving DecidableEq, Repr, Inhabited

structure Meta where
  readName : Name
  loc      : Loc
  doc      : Name
  deriving DecidableEq, Repr, Inhabited

inductive Kind where
  | lambda
  | macro
  deriving DecidableEq, Repr, Inhabited

def Kind.name : Kind → Name
  | .lambda => cs!"lambda"
  | .macro  => cs!"macro"

/-- symbols: interned by name, or generated (`unique_symbol`), numbered by creation -/
inductive Sym where
  | named (n : Name)
  | gen (id : Nat)
  deriving DecidableEq, Repr, Inhabited

/-- the 40 native functions, in the order of `load_native_functions` -/
inductive NativeId where
  | cons | car | cdr | list | getProperty | append | unrest
  | abort | signal | read
  | makeTrap | makeFunction | callNativeFunction | macroexpand | eval | loadAll
  | print
  | add | substract | multiply | divide | less | greater
  | define | undefine | whereis | export | getCurrentModule | fromModule | withCurrentModule
  | destructureTrap | destructureFunction | typeOf | getMetadata
  | send | receive
  | inputFile | outputFile
  | gensym | equal
  deriving DecidableEq, Repr, Inhabited

inductive Val where
  | nil
  | num (n : Int)
  | chr (c : Char)
  | sym (s : Sym)
  | cons (a d : Val)
  /-- `NormalFunction`; `params` is the proper list of the non-rest parameters (possibly metadata-wrapped symbols),
  `rest` the rest parameter if the function has one (`has_rest_params` with the rest parameter last in `parameters`),
  and `nil` if it has none (a parameter is always a symbol, never nil) -/
  | fn (kind : Kind) (rest : Val) (params body env : Val) (mod : Name)
  | native (id : NativeId)
  | trap (normal handler : Val)
  /-- `MetaValue::Meta`; `v` is never itself a `meta` (`allocate_metadata` panics on that) -/
  | md (v : Val) (m : Meta)
  deriving DecidableEq, Repr, Inhabited

namespace Val

/-- strip one metadata wrapper (what `clone_without_meta` does) -/
def unmeta : Val → Val
  | md v _ => v
  | v        => v

/-- `GcRef::get`: the primitive value behind any metadata; `nil` stands for `None` -/
def get : Val → Val
  | md v _ => get v
  | v        => v

/-- `GcRef::is_nil`: the null pointer or a metadata cell around the null pointer -/
def isNil : Val → Bool
  | nil        => true
  | md nil _ => true
  | _          => false

def getMeta : Val → Option Meta
  | md _ m => some m
  | _        => none

/-- remove every metadata wrapper, everywhere -/
def strip : Val → Val
  | md v _ => strip v
  | cons a d => cons (strip a) (strip d)
  | fn k r p b e m => fn k (strip r) (strip p) (strip b) (strip e) m
  | trap n h => trap (strip n) (strip h)
  | v => v

def symName (name : Name) : Val := sym (.named name)

/-- the rest parameter stored in a function value: `nil` stands for "none" -/
def restParam? : Val → Option Val
  | nil => none
  | r   => some r

/-- build a proper list (`vec_to_list`) -/
def ofList : List Val → Val
  | []      => nil
  | x :: xs => cons x (ofList xs)

/-- `string_to_list` -/
def ofChars (cs : List Char) : Val := ofList (cs.map chr)

/-- `string_to_proper_list`: the `list` symbol followed by the characters -/
def ofString (cs : List Char) : Val := cons (symName cs!"list") (ofChars cs)

end Val

inductive TypeLabel where
  | any | nil | number | character | cons | list | string | symbol | function | trap
  deriving DecidableEq, Repr

def TypeLabel.name : TypeLabel → Name
  | .any       => cs!"any-type"
  | .nil       => cs!"nil-type"
  | .number    => cs!"number-type"
  | .character => cs!"character-type"
  | .cons      => cs!"conscell-type"
  | .list      => cs!"list-type"
  | .string    => cs!"string-type"
  | .symbol    => cs!"symbol-type"
  | .function  => cs!"function-type"
  | .trap      => cs!"trap-type"

/-- `GcRef::get_type` -/
def Val.getType : Val → TypeLabel
  | .nil        => .nil
  | .num _      => .number
  | .chr _      => .character
  | .sym _      => .symbol
  | .cons _ _   => .cons
  | .fn ..      => .function
  | .native _   => .function
  | .trap _ _   => .trap
  | .md v _   => v.getType

/-- `list_to_vec`: `none` when the value is not a nil-terminated chain of conses -/
def listToVec : Val → Option (List Val)
  | .nil                  => some []
  | .md .nil _          => some []
  | .cons a d             => (listToVec d).map (a :: ·)
  | .md (.cons a d) _   => (listToVec d).map (a :: ·)
  | _                     => none

/-- is this value (behind metadata) the symbol named `n`? (`symbol_eq!` against `symbol_for(n)`) -/
def Val.isSymNamed (v : Val) (n : Name) : Bool :=
  match v.get with
  | .sym (.named m) => m == n
  | _               => false

/-- `symbol_eq!` on two arbitrary values -/
def symbolEq (a b : Val) : Bool :=
  match a.get, b.get with
  | .sym s1, .sym s2 => s1 == s2
  | _, _             => false

def charsOf : List Val → Option (List Char)
  | []      => some []
  | x :: xs =>
    match x.get with
    | .chr c => (charsOf xs).map (c :: ·)
    | _      => none

/-- `list_to_string`: a proper list of characters, optionally headed by the symbol `list` -/
def listToString (v : Val) : Option (List Char) :=
  match listToVec v with
  | none     => none
  | some vec =>
    match vec with
    | []      => some []
    | x :: xs => if x.isSymNamed cs!"list" then charsOf xs else charsOf (x :: xs)

structure ConsType where
  isList   : Bool
  isString : Bool

/-- `cons_type` -/
def consTypeAux : Val → Bool → ConsType
  | .nil, s                => ⟨true, s⟩
  | .md .nil _, s        => ⟨true, s⟩
  | .cons a d, s           => consTypeAux d (s && a.getType == .character)
  | .md (.cons a d) _, s => consTypeAux d (s && a.getType == .character)
  | _, _                   => ⟨false, false⟩

def consType (v : Val) : ConsType := consTypeAux v true

/-- `extended_get_type` -/
def extendedGetType (v : Val) : TypeLabel :=
  match v.getType with
  | .cons =>
    let ct := consType v
    if ct.isString then .string else if ct.isList then .list else .cons
  | other => other

/-- `append_lists`: `none` when the first argument is not a proper list -/
def appendLists (l1 l2 : Val) : Option Val :=
  (listToVec l1).map fun xs => xs.foldr Val.cons l2

end Pici
