/-
L4 — the evaluator, `src/native/eval/mod.rs`: `lookup`, `pair_params_and_args`, `make_function_internal`,
`eval_internal` (tail calls re-enter at the same depth), `macroexpand_internal`, `macroexpand_completely`,
the natives `eval`, `macroexpand`, `call-native-function`, `make-function`, `load-all`, and `eval_external`.

All functions take `fuel` (structural recursion); running out of fuel is the outcome `outOfFuel`, distinct
from every outcome of the real interpreter.
-/
import PiciModel.Model.Natives

namespace Pici

/-- the association-list part of `lookup` (after the fix: entries that are not pairs never match) -/
def lookupEnv (key : Sym) : Val → Option Val
  | .cons kv rest =>
    match kv.get with
    | .cons k v => match k.get with
      | .sym s => if s == key then some v else lookupEnv key rest
      | _      => lookupEnv key rest
    | _ => lookupEnv key rest
  | .md (.cons kv rest) _ =>
    match kv.get with
    | .cons k v => match k.get with
      | .sym s => if s == key then some v else lookupEnv key rest
      | _      => lookupEnv key rest
    | _ => lookupEnv key rest
  | _ => none

/-- `lookup`: the environment first, then the globals visible from `home` -/
def lookup (st : St) (key : Sym) (env : Val) (home : Name) : Lookup :=
  match lookupEnv key env with
  | some v => .found v
  | none   => st.getGlobal key.globalName home

def ampersand : Sym := .named cs!"&"

/-- the parameter loop of `make_function_internal`; `count` is the length of the whole parameter list -/
def collectParams (source : Name) (count : Nat) : List Val → Nat → List Val → Except Val (List Val × Option Val)
  | [], _, acc => .ok (acc.reverse, none)
  | p :: ps, i, acc =>
    match p.get with
    | .sym s =>
      if s == ampersand then
        if i + 2 == count then
          match ps with
          | q :: _ =>
            match q.get with
            | .sym _ => .ok (acc.reverse, some q)
            | _      => .error (makeError cs!"param-is-not-symbol" source [(cs!"param", q)])
          | [] => .ok (acc.reverse, none)
        else if i + 2 > count then .error (makeError cs!"missing-rest-parameter" source [])
        else .error (makeError cs!"multiple-rest-parameters" source [])
      else collectParams source count ps (i + 1) (p :: acc)
    | _ => .error (makeError cs!"param-is-not-symbol" source [(cs!"param", p)])

/-- `make_function_internal` -/
def makeFunctionInternal (args : List Val) (env : Val) (mod source : Name) (kind : Kind) : Res Val :=
  match args with
  | [params, body] =>
    match listToVec params with
    | none    => .err (wrongType source params .list)
    | some ps =>
      match collectParams source ps.length ps 0 [] with
      | .ok (actual, rest) => .ok (.fn kind (rest.getD .nil) (.ofList actual) body env mod)
      | .error e           => .err e
  | _ => .err (wrongArity source 2 args.length)

/-- the parameter/argument pairing of `pair_params_and_args`; `i` counts the parameters already bound -/
def bindParams (source : Name) (nargs : Nat) : List Val → List Val → Nat → Val → Except Val (Val × List Val × Nat)
  | [], args, i, env => .ok (env, args, i)
  | p :: ps, args, i, env =>
    match args with
    | a :: as => bindParams source nargs ps as (i + 1) (.cons (.cons p a) env)
    | []      => .error (wrongArity source (i + 1) nargs)

/-- `pair_params_and_args` -/
def pairParamsAndArgs (rest : Val) (params env : Val) (name : Option Name) (args : List Val) : Res Val :=
  let source := name.getD cs!"#<function>"
  let ps := (listToVec params).getD []
  match bindParams source args.length ps args 0 env with
  | .error e => .err e
  | .ok (env', remaining, i) =>
    match rest.restParam? with
    | some restParam => .ok (.cons (.cons restParam (.ofList remaining)) env')
    | none => if remaining.isEmpty then .ok env' else .err (wrongArity source i args.length)

/-- the `error` entry of `read`'s result, as `load-all` passes it on -/
def readErrorDetails (msg : List Char) (loc : Loc) : Val :=
  plist [(cs!"location", plist [(cs!"file", locFile loc.src), (cs!"line", .num (usizeAsI64 loc.line)), (cs!"column", .num (usizeAsI64 loc.col))]),
         (cs!"message", .ofChars msg)]

/-- the debugger poll at the head of the evaluator loop: `none` = go on, `some r` = leave with `r` -/
def pollDebugger (st : St) : Option (Res Val) × St :=
  let k := st.steps
  let st := { st with steps := k + 1 }
  if st.attached then
    match st.inbox with
    | c :: cs =>
      if c.atStep ≤ k then
        let st := { st with inbox := cs }
        if c.text == cs!"INTERRUPT" then (some (.err (makeError cs!"interrupted" cs!"eval" [])), st)
        else if c.text == cs!"ABORT" then (some (.err .nil), st)
        else (none, st)
      else (none, st)
    | [] => (none, st)
  else (none, st)

def ambiguousError (source : Name) (expr : Val) (modules : List Name) : Val :=
  makeError cs!"ambiguous-name" source [(cs!"symbol", expr), (cs!"conflicting-modules", .ofList (modules.map Val.symName))]

mutual

/-- `eval_internal` -/
def evalInternal : Nat → St → Val → Val → Name → Nat → Out
  | 0, st, _, _, _, _ => (.outOfFuel, st)
  | fuel + 1, st, e, env, mod, depth =>
    if depth > Config.maxRecursionDepth then (.err (stackoverflow cs!"eval"), st)
    else
    match pollDebugger st with
    | (some r, st) => (r, st)
    | (none, st) =>
    let name := e.getMeta.map (·.readName)
    match listToVec e with
    | some [] => (.ok .nil, st)
    | some (first :: operands) =>
      if first.isSymNamed cs!"lambda" then
        (makeFunctionInternal operands env mod cs!"lambda" .lambda, st)
      else if first.isSymNamed cs!"quote" then
        arity1 cs!"quote" operands st fun x => (.ok x, st)
      else if first.isSymNamed cs!"if" then
        arity3 cs!"if" operands st fun c t o =>
          match evalInternal fuel st c env mod (depth + 1) with
          | (.ok v, st)      => evalInternal fuel st (if !v.isNil then t else o) env mod depth
          | (.err s, st)     => (.err s, st)
          | (.crash s, st)   => (.crash s, st)
          | (.outOfFuel, st) => (.outOfFuel, st)
      else if first.isSymNamed cs!"trap" then
        arity2 cs!"trap" operands st fun n h => (.ok (.trap n h), st)
      else
        match evalInternal fuel st first env mod (depth + 1) with
        | (.err s, st)     => (.err s, st)
        | (.crash s, st)   => (.crash s, st)
        | (.outOfFuel, st) => (.outOfFuel, st)
        | (.ok operator, st) =>
          match operator.get with
          | .native id =>
            match evalArgs fuel st operands env mod depth with
            | (.err s, st)     => (.err s, st)
            | (.crash s, st)   => (.crash s, st)
            | (.outOfFuel, st) => (.outOfFuel, st)
            | (.ok args, st) =>
              if id == .eval then
                -- `eval` does not call itself as a native: this instance of the loop is reused
                arity1 cs!"eval" args st fun x =>
                  match expandCompletely fuel st x env mod (depth + 1) with
                  | (.ok expanded, st) => evalInternal fuel st expanded env mod depth
                  | (.err s, st)       => (.err s, st)
                  | (.crash s, st)     => (.crash s, st)
                  | (.outOfFuel, st)   => (.outOfFuel, st)
              else applyNative fuel st id args env (depth + 1)
          | .fn _ rest params body fenv fmod =>
            match evalArgs fuel st operands env mod depth with
            | (.err s, st)     => (.err s, st)
            | (.crash s, st)   => (.crash s, st)
            | (.outOfFuel, st) => (.outOfFuel, st)
            | (.ok args, st) =>
              match pairParamsAndArgs rest params fenv name args with
              | .ok newEnv  => evalInternal fuel st body newEnv fmod depth     -- tail call: same depth
              | .err s      => (.err s, st)
              | .crash s    => (.crash s, st)
              | .outOfFuel  => (.outOfFuel, st)
          | _ => (.err (makeError cs!"eval-bad-operator" cs!"eval" [(cs!"symbol", first)]), st)
    | none =>
      match e.get with
      | .cons a d =>
        match evalInternal fuel st a env mod (depth + 1) with
        | (.ok car, st) =>
          match evalInternal fuel st d env mod (depth + 1) with
          | (.ok cdr, st)    => (.ok (.cons car cdr), st)
          | (.err s, st)     => (.err s, st)
          | (.crash s, st)   => (.crash s, st)
          | (.outOfFuel, st) => (.outOfFuel, st)
        | (.err s, st)     => (.err s, st)
        | (.crash s, st)   => (.crash s, st)
        | (.outOfFuel, st) => (.outOfFuel, st)
      | .trap n h =>
        match evalInternal fuel st n env mod (depth + 1) with
        | (.ok x, st)  => (.ok x, st)
        | (.err signal, st) =>
          if signal.isNil then (.err signal, st)       -- an abort passes through every trap
          else
            let newEnv := Val.cons (.cons (.symName cs!"*trapped-signal*") signal) env
            evalInternal fuel st h newEnv mod (depth + 1)
        | (.crash s, st)   => (.crash s, st)
        | (.outOfFuel, st) => (.outOfFuel, st)
      | .sym s =>
        match lookup st s env mod with
        | .found v      => (.ok v, st)
        | .ambiguous ms => (.err (ambiguousError cs!"eval" e ms), st)
        | .notFound     => (.err (makeError cs!"unbound-symbol" cs!"eval" [(cs!"symbol", e)]), st)
      | _ => (.ok e, st)

/-- the operand loop of `eval_internal`: left to right, the first signal wins -/
def evalArgs : Nat → St → List Val → Val → Name → Nat → Res (List Val) × St
  | 0, st, _, _, _, _ => (.outOfFuel, st)
  | _ + 1, st, [], _, _, _ => (.ok [], st)
  | fuel + 1, st, x :: xs, env, mod, depth =>
    match evalInternal fuel st x env mod (depth + 1) with
    | (.ok v, st) =>
      match evalArgs fuel st xs env mod depth with
      | (.ok vs, st)     => (.ok (v :: vs), st)
      | (.err s, st)     => (.err s, st)
      | (.crash s, st)   => (.crash s, st)
      | (.outOfFuel, st) => (.outOfFuel, st)
    | (.err s, st)     => (.err s, st)
    | (.crash s, st)   => (.crash s, st)
    | (.outOfFuel, st) => (.outOfFuel, st)

/-- `macroexpand_internal`; the Boolean is the `changed` flag (in and out) -/
def expandInternal : Nat → St → Val → Val → Name → Nat → Bool → Out × Bool
  | 0, st, _, _, _, _, ch => ((.outOfFuel, st), ch)
  | fuel + 1, st, e, env, mod, depth, ch =>
    if depth > Config.maxRecursionDepth then ((.err (stackoverflow cs!"macroexpand"), st), ch)
    else
    let name := e.getMeta.map (·.readName)
    match listToVec e with
    | some [] => ((.ok .nil, st), ch)
    | some (first :: operands) =>
      if first.isSymNamed cs!"macro" then
        ((makeFunctionInternal operands env mod cs!"macro" .macro, st), ch)
      else if first.isSymNamed cs!"quote" then ((.ok e, st), ch)
      else
        match expandInternal fuel st first env mod (depth + 1) ch with
        | ((.err s, st), ch)     => ((.err s, st), ch)
        | ((.crash s, st), ch)   => ((.crash s, st), ch)
        | ((.outOfFuel, st), ch) => ((.outOfFuel, st), ch)
        | ((.ok operator, st), ch) =>
          match expandArgs fuel st operands env mod depth ch with
          | ((.err s, st), ch)     => ((.err s, st), ch)
          | ((.crash s, st), ch)   => ((.crash s, st), ch)
          | ((.outOfFuel, st), ch) => ((.outOfFuel, st), ch)
          | ((.ok args, st), ch) =>
            match operator.get with
            | .fn .macro rest params body fenv fmod =>
              -- a macro: its body is evaluated with the parameters bound to the expanded, unevaluated operands
              match pairParamsAndArgs rest params fenv name args with
              | .ok newEnv  => (evalInternal fuel st body newEnv fmod (depth + 1), true)
              | .err s      => ((.err s, st), true)
              | .crash s    => ((.crash s, st), true)
              | .outOfFuel  => ((.outOfFuel, st), true)
            | _ => ((.ok (.ofList (operator :: args)), st), ch)
    | none =>
      match e.get with
      | .cons a d =>
        match expandInternal fuel st a env mod (depth + 1) ch with
        | ((.ok car, st), ch) =>
          match expandInternal fuel st d env mod (depth + 1) ch with
          | ((.ok cdr, st), ch)    => ((.ok (.cons car cdr), st), ch)
          | ((.err s, st), ch)     => ((.err s, st), ch)
          | ((.crash s, st), ch)   => ((.crash s, st), ch)
          | ((.outOfFuel, st), ch) => ((.outOfFuel, st), ch)
        | ((.err s, st), ch)     => ((.err s, st), ch)
        | ((.crash s, st), ch)   => ((.crash s, st), ch)
        | ((.outOfFuel, st), ch) => ((.outOfFuel, st), ch)
      | .sym s =>
        match lookup st s env mod with
        | .found v =>
          match v.get with
          | .fn .macro .. => ((.ok v, st), true)
          | _             => ((.ok e, st), ch)
        | .ambiguous ms => ((.err (ambiguousError cs!"macroexpand" e ms), st), ch)
        | .notFound     => ((.ok e, st), ch)
      | _ => ((.ok e, st), ch)

/-- the operand loop of `macroexpand_internal` -/
def expandArgs : Nat → St → List Val → Val → Name → Nat → Bool → (Res (List Val) × St) × Bool
  | 0, st, _, _, _, _, ch => ((.outOfFuel, st), ch)
  | _ + 1, st, [], _, _, _, ch => ((.ok [], st), ch)
  | fuel + 1, st, x :: xs, env, mod, depth, ch =>
    match expandInternal fuel st x env mod (depth + 1) ch with
    | ((.ok v, st), ch) =>
      match expandArgs fuel st xs env mod depth ch with
      | ((.ok vs, st), ch)     => ((.ok (v :: vs), st), ch)
      | ((.err s, st), ch)     => ((.err s, st), ch)
      | ((.crash s, st), ch)   => ((.crash s, st), ch)
      | ((.outOfFuel, st), ch) => ((.outOfFuel, st), ch)
    | ((.err s, st), ch)     => ((.err s, st), ch)
    | ((.crash s, st), ch)   => ((.crash s, st), ch)
    | ((.outOfFuel, st), ch) => ((.outOfFuel, st), ch)

/-- `macroexpand_completely`: repeat until a round changes nothing -/
def expandCompletely : Nat → St → Val → Val → Name → Nat → Out
  | 0, st, _, _, _, _ => (.outOfFuel, st)
  | fuel + 1, st, e, env, mod, depth =>
    match expandInternal fuel st e env mod (depth + 1) false with
    | ((.ok expanded, st), true)  => expandCompletely fuel st expanded env mod depth
    | ((.ok expanded, st), false) => (.ok expanded, st)
    | ((.err s, st), _)           => (.err s, st)
    | ((.crash s, st), _)         => (.crash s, st)
    | ((.outOfFuel, st), _)       => (.outOfFuel, st)

/-- a native function called with evaluated arguments, the caller's environment and a recursion depth -/
def applyNative : Nat → St → NativeId → List Val → Val → Nat → Out
  | 0, st, _, _, _, _ => (.outOfFuel, st)
  | fuel + 1, st, id, args, env, depth =>
    match id with
    | .eval =>
      arity1 cs!"eval" args st fun x =>
        let mod := st.current
        match expandCompletely fuel st x env mod (depth + 1) with
        | (.ok expanded, st) => evalInternal fuel st expanded env mod (depth + 1)
        | (.err s, st)       => (.err s, st)
        | (.crash s, st)     => (.crash s, st)
        | (.outOfFuel, st)   => (.outOfFuel, st)
    | .macroexpand =>
      arity1 cs!"macroexpand" args st fun x => expandCompletely fuel st x env st.current (depth + 1)
    | .callNativeFunction =>
      if depth > Config.maxRecursionDepth then (.err (stackoverflow cs!"call-native-function"), st)
      else arity3 cs!"call-native-function" args st fun f arguments environment =>
        match f.get with
        | .native id' =>
          asList cs!"call-native-function" arguments st fun as => applyNative fuel st id' as environment (depth + 1)
        | .fn .. =>
          asList cs!"call-native-function" arguments st fun _ =>
            (.err (makeError cs!"wrong-argument" cs!"call-native-function"
              [(cs!"expected", .symName cs!"native-function"), (cs!"actual", .symName cs!"normal-function")]), st)
        | _ => (.err (wrongType cs!"call-native-function" f .function), st)
    | .makeFunction =>
      if depth > Config.maxRecursionDepth then (.err (stackoverflow cs!"make-function"), st)
      else match args with
        | [params, body, environment, envModule, kind] =>
          asList cs!"make-function" params st fun _ =>
          asSymbol cs!"make-function" envModule st fun m =>
          asSymbol cs!"make-function" kind st fun k =>
            if k == .named cs!"lambda-type" then
              (makeFunctionInternal [params, body] environment m.globalName cs!"lambda" .lambda, st)
            else if k == .named cs!"macro-type" then
              (makeFunctionInternal [params, body] environment m.globalName cs!"macro" .macro, st)
            else (.err (makeError cs!"wrong-arg-value" cs!"make-function" []), st)
        | _ => (.err (wrongArity cs!"make-function" 5 args.length), st)
    | .loadAll =>
      arity2 cs!"load-all" args st fun input source =>
      asString cs!"load-all" input st fun _ =>
        let old := st.current
        let st := match listToString source with
          | some s => st.defineModule s
          | none   => st
        match loadForms fuel st input source 1 1 depth with
        | (r, st) =>
          -- whatever stopped the load, the previous module is current again
          match st.setCurrentModule old with
          | none    => (.crash cs!"load-all: the previous module no longer exists", st)
          | some st =>
            match r with
            | .ok _      => (.ok (.symName cs!"ok"), st)
            | .err s     => (.err s, st)
            | .crash s   => (.crash s, st)
            | .outOfFuel => (.outOfFuel, st)
    | other => simpleNative other args depth st

/-- the form loop of `load-all` -/
def loadForms : Nat → St → Val → Val → Int → Int → Nat → Res Unit × St
  | 0, st, _, _, _, _, _ => (.outOfFuel, st)
  | fuel + 1, st, cursor, source, line, column, depth =>
    if cursor.isNil then (.ok (), st)
    else
      match readCore [cursor, source, .num line, .num column] (depth + 1) with
      | .err s     => (.err s, st)
      | .crash s   => (.crash s, st)
      | .outOfFuel => (.outOfFuel, st)
      | .ok outcome =>
        match outcome with
        | .ok result rest =>
          match applyNative fuel st .eval [result] .nil (depth + 1) with
          | (.ok _, st)      => loadForms fuel st rest.string source (usizeAsI64 rest.line) (usizeAsI64 rest.column) depth
          | (.err s, st)     => (.err s, st)
          | (.crash s, st)   => (.crash s, st)
          | (.outOfFuel, st) => (.outOfFuel, st)
        | .nothing    => (.ok (), st)
        | .incomplete => (.err (makeError cs!"input-incomplete" cs!"load-all" []), st)
        | .invalid    => (.err (makeError cs!"input-invalid-string" cs!"load-all" []), st)
        | .error msg loc _ => (.err (makeError cs!"read-error" cs!"load-all" [(cs!"details", readErrorDetails msg loc)]), st)

end

/-- the `eval` native at the top level: `eval(mem, &[tree], nil, 0)` as `eval_external` calls it -/
def evalTop (fuel : Nat) (st : St) (tree : Val) : Out :=
  applyNative fuel st .eval [tree] .nil 0

end Pici
