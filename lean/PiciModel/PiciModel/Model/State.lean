/-
Interpreter state as the evaluator model sees it: the module table (`src/memory/mod.rs:581-739`),
the gensym counter, captured standard output, scripted standard input (`BufReader` over chunks) and
the debugger link (`src/debug/mod.rs`).
-/
import PiciModel.Model.Value

namespace Pici

structure Module where
  name    : Name
  defs    : List (Name × Val)
  exports : Option (List Name)        -- `none`: everything is public
  deriving Repr, Inhabited

/-- `Module::get` -/
def Module.get (m : Module) (name home : Name) : Option Val :=
  if (match m.exports with | none => true | some ex => ex.contains name) || home == m.name
  then m.defs.lookup name
  else none

/-- a debugger command scheduled for the loop-head step at which `try_recv` first returns it -/
structure Command where
  atStep : Nat
  text   : Name
  deriving Repr, Inhabited

structure St where
  modules  : List Module
  current  : Name
  gensym   : Nat                      -- next generated-symbol id
  out      : List Char                -- everything written to *stdout*, oldest first
  /-- standard input: bytes already in the `BufReader`, then the chunks the OS will deliver -/
  stdinBuf    : List UInt8
  stdinChunks : List (List UInt8)
  /-- debugger link -/
  attached : Bool
  inbox    : List Command             -- ordered by `atStep`
  sent     : List (List (Name × List Char))   -- messages to the debugger (keys sorted), oldest first
  steps    : Nat                      -- number of evaluator loop heads passed
  deriving Repr, Inhabited

inductive Lookup where
  | found (v : Val)
  | ambiguous (modules : List Name)
  | notFound
  deriving Repr

/-- insertion sort on names (the order `sort()` gives to `Vec<String>`: by UTF-8 bytes = by code points) -/
def nameLe : Name → Name → Bool
  | [], _ => true
  | _ :: _, [] => false
  | a :: as, b :: bs => if a.toNat < b.toNat then true else if b.toNat < a.toNat then false else nameLe as bs

def insertName (n : Name) : List Name → List Name
  | []      => [n]
  | m :: ms => if nameLe n m then n :: m :: ms else m :: insertName n ms

def sortNames : List Name → List Name
  | []      => []
  | n :: ns => insertName n (sortNames ns)

namespace St

def findModule (st : St) (name : Name) : Option Module :=
  st.modules.find? (·.name == name)

def currentModule (st : St) : Module :=
  (st.findModule st.current).getD ⟨st.current, [], none⟩

/-- replace the module with the same name, or add it (`HashMap::insert`) -/
def putModule (ms : List Module) (m : Module) : List Module :=
  match ms with
  | []      => [m]
  | x :: xs => if x.name == m.name then m :: xs else x :: putModule xs m

def updateCurrent (st : St) (f : Module → Module) : St :=
  { st with modules := putModule st.modules (f st.currentModule) }

/-- `Memory::define_module` -/
def defineModule (st : St) (name : Name) : St :=
  { st with modules := putModule st.modules ⟨name, [], none⟩, current := name }

/-- `Memory::set_current_module`; `none` = `NoSuchModule` -/
def setCurrentModule (st : St) (name : Name) : Option St :=
  match st.findModule name with
  | some _ => some { st with current := name }
  | none   => none

/-- `Memory::get_global`: every module in which `name` is visible from `home` -/
def getGlobal (st : St) (name home : Name) : Lookup :=
  let hits := st.modules.filterMap fun m => (m.get name home).map fun v => (m.name, v)
  match hits with
  | []        => .notFound
  | [(_, v)]  => .found v
  | _         => .ambiguous (sortNames (hits.map (·.1)))

inductive FromModule where
  | found (v : Val) | notFoundOrPrivate | noSuchModule

/-- `Memory::get_global_from_module` -/
def getGlobalFromModule (st : St) (name mod : Name) : FromModule :=
  match st.findModule mod with
  | none   => .noSuchModule
  | some m =>
    if (match m.exports with | none => true | some ex => ex.contains name) then
      match m.defs.lookup name with
      | some v => .found v
      | none   => .notFoundOrPrivate
    else .notFoundOrPrivate

def isGlobalDefined (st : St) (name : Name) : Bool :=
  (st.currentModule.defs.lookup name).isSome

def isGlobalExported (st : St) (name : Name) : Bool :=
  match st.currentModule.exports with
  | none    => true
  | some ex => ex.contains name

def insertDef (defs : List (Name × Val)) (name : Name) (v : Val) : List (Name × Val) :=
  match defs with
  | []           => [(name, v)]
  | (n, x) :: ds => if n == name then (name, v) :: ds else (n, x) :: insertDef ds name v

/-- `Memory::define_global` (a `HashMap::insert`: replaces) -/
def defineGlobal (st : St) (name : Name) (v : Val) : St :=
  st.updateCurrent fun m => { m with defs := insertDef m.defs name v }

/-- `Memory::undefine_global` -/
def undefineGlobal (st : St) (name : Name) : St :=
  st.updateCurrent fun m => { m with defs := m.defs.filter (·.1 != name) }

/-- `Memory::add_export` -/
def addExport (st : St) (name : Name) : St :=
  st.updateCurrent fun m =>
    { m with exports := some (match m.exports with
                              | none    => [name]
                              | some ex => if ex.contains name then ex else ex ++ [name]) }

/-- `Memory::get_module_of_global` (sorted) -/
def modulesOfGlobal (st : St) (name : Name) : List Name :=
  sortNames ((st.modules.filter fun m => (m.defs.lookup name).isSome).map (·.name))

def write (st : St) (text : List Char) : St := { st with out := st.out ++ text }

def send (st : St) (msg : List (Name × List Char)) : St :=
  if st.attached then { st with sent := st.sent ++ [msg] } else st

end St

/-! ### standard input: `BufReader::read_line` over scripted chunks -/

/-- split after the first newline byte, if there is one -/
def splitAfterNewline : List UInt8 → Option (List UInt8 × List UInt8)
  | []      => none
  | b :: bs =>
    if b = 10 then some ([b], bs)
    else match splitAfterNewline bs with
      | some (pre, post) => some (b :: pre, post)
      | none             => none

/-- `read_until(b'\n')`: take from the buffer; when it holds no newline, take all of it and refill with the
next chunk (one `read` of the underlying stream); an empty read means end of file for this call.
Returns the line bytes, the new buffer and the chunks not yet read. -/
def readUntilNewline : List UInt8 → List (List UInt8) → List UInt8 → List UInt8 × List UInt8 × List (List UInt8)
  | buf, chunks, acc =>
    match splitAfterNewline buf with
    | some (pre, post) => (acc ++ pre, post, chunks)
    | none =>
      match chunks with
      | []      => (acc ++ buf, [], [])
      | c :: cs => if c = [] then (acc ++ buf, [], cs) else readUntilNewline c cs (acc ++ buf)

/-- UTF-8 decoding of a byte sequence (strict: `None` on anything `str::from_utf8` rejects) -/
def utf8Decode : List UInt8 → Option (List Char)
  | [] => some []
  | b0 :: rest =>
    let n0 := b0.toNat
    if n0 < 0x80 then (utf8Decode rest).map (Char.ofNat n0 :: ·)
    else if 0xC2 ≤ n0 && n0 ≤ 0xDF then
      match rest with
      | b1 :: r =>
        let n1 := b1.toNat
        if 0x80 ≤ n1 && n1 ≤ 0xBF then (utf8Decode r).map (Char.ofNat ((n0 - 0xC0) * 64 + (n1 - 0x80)) :: ·) else none
      | _ => none
    else if 0xE0 ≤ n0 && n0 ≤ 0xEF then
      match rest with
      | b1 :: b2 :: r =>
        let n1 := b1.toNat; let n2 := b2.toNat
        let lo := if n0 == 0xE0 then 0xA0 else 0x80
        let hi := if n0 == 0xED then 0x9F else 0xBF
        if lo ≤ n1 && n1 ≤ hi && 0x80 ≤ n2 && n2 ≤ 0xBF
        then (utf8Decode r).map (Char.ofNat ((n0 - 0xE0) * 4096 + (n1 - 0x80) * 64 + (n2 - 0x80)) :: ·) else none
      | _ => none
    else if 0xF0 ≤ n0 && n0 ≤ 0xF4 then
      match rest with
      | b1 :: b2 :: b3 :: r =>
        let n1 := b1.toNat; let n2 := b2.toNat; let n3 := b3.toNat
        let lo := if n0 == 0xF0 then 0x90 else 0x80
        let hi := if n0 == 0xF4 then 0x8F else 0xBF
        if lo ≤ n1 && n1 ≤ hi && 0x80 ≤ n2 && n2 ≤ 0xBF && 0x80 ≤ n3 && n3 ≤ 0xBF
        then (utf8Decode r).map (Char.ofNat ((n0 - 0xF0) * 262144 + (n1 - 0x80) * 4096 + (n2 - 0x80) * 64 + (n3 - 0x80)) :: ·) else none
      | _ => none
    else none
termination_by bs => bs.length

/-- a chunk that stands for "this read timed out" (no data for a while): the single byte 0xF8, which never occurs in
UTF-8 text.  Only the in-process pipe of the GUI times out; the harness scripts such chunks to model an evaluation that
is BLOCKED waiting for input. -/
def timeoutChunk : List UInt8 := [0xF8]

/-- the first time-out among the chunks the current line still needs: the data chunks before it (none of them holds a
newline) and the chunks after it; `none` when the line is complete — or the input ends — before any time-out -/
def firstTimeoutIn : List (List UInt8) → List (List UInt8) → Option (List (List UInt8) × List (List UInt8))
  | [], _ => none
  | c :: cs, seen =>
    if c = timeoutChunk then some (seen.reverse, cs)
    else if c = [] then none
    else if (splitAfterNewline c).isSome then none
    else firstTimeoutIn cs (c :: seen)

def firstTimeout (buf : List UInt8) (chunks : List (List UInt8)) : Option (List (List UInt8) × List (List UInt8)) :=
  if (splitAfterNewline buf).isSome then none else firstTimeoutIn chunks []

inductive LineResult where
  | line (text : List Char)
  | eof
  | invalidData
  deriving Repr

/-- one `read_line` on the interpreter's standard input -/
def St.readLine (st : St) : LineResult × St :=
  let (bytes, buf, chunks) := readUntilNewline st.stdinBuf st.stdinChunks []
  let st' := { st with stdinBuf := buf, stdinChunks := chunks }
  if bytes = [] then (.eof, st')
  else match utf8Decode bytes with
    | some cs => (.line cs, st')
    | none    => (.invalidData, st')

end Pici
