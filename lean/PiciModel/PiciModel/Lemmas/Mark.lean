/-
Helper lemmas for `Props/HeapMark.lean`: the loop invariant of both mark loops, and the fuel measure of the
loop with the visited test.
-/
import PiciModel.Spec.HeapSpec

namespace Pici.Heap

theorem mem_roots_used {h : Heap} {a : Addr} (ha : a ∈ roots h) : Used h a := by
  unfold roots at ha
  simp only [List.mem_filter, List.mem_filterMap, List.mem_range] at ha
  obtain ⟨⟨i, hi, hget⟩, _⟩ := ha
  unfold Used usedList
  rw [List.mem_take_iff_getElem]
  have hlt : i < h.order.size := by
    rcases Nat.lt_or_ge i h.order.size with hl | hl
    · exact hl
    · rw [Array.getElem?_eq_none hl] at hget; cases hget
  refine ⟨i, ?_, ?_⟩
  · simp only [Array.length_toList]; omega
  · rw [Array.getElem?_eq_getElem hlt] at hget
    simpa using hget

theorem closed_of_reach {h : Heap} {R : List Addr}
    (hroots : ∀ a ∈ roots h, a ∈ R) (hcl : ∀ a ∈ R, ∀ b ∈ kids h a, b ∈ R) :
    ∀ a, Reach h a → a ∈ R := by
  intro a hr
  induction hr with
  | root hr => exact hroots _ hr
  | step _ hb ih => exact hcl _ ih _ hb

theorem markLoop_inv (h : Heap) : ∀ (fuel : Nat) (stack reachable R : List Addr),
    (∀ a ∈ stack, Reach h a) → (∀ a ∈ reachable, Reach h a) →
    (∀ a ∈ roots h, a ∈ reachable ∨ a ∈ stack) →
    (∀ a ∈ reachable, ∀ b ∈ kids h a, b ∈ reachable ∨ b ∈ stack) →
    markLoop h fuel stack reachable = some R →
    (∀ a ∈ R, Reach h a) ∧ (∀ a ∈ roots h, a ∈ R) ∧ (∀ a ∈ R, ∀ b ∈ kids h a, b ∈ R) := by
  intro fuel
  induction fuel with
  | zero =>
    intro stack reachable R hs hr hroot hcl hm
    cases stack with
    | nil =>
      simp only [markLoop, Option.some.injEq] at hm
      subst hm
      refine ⟨hr, ?_, ?_⟩
      · intro a ha; simpa using hroot a ha
      · intro a ha b hb; simpa using hcl a ha b hb
    | cons a st => simp [markLoop] at hm
  | succ n ih =>
    intro stack reachable R hs hr hroot hcl hm
    cases stack with
    | nil =>
      simp only [markLoop, Option.some.injEq] at hm
      subst hm
      refine ⟨hr, ?_, ?_⟩
      · intro a ha; simpa using hroot a ha
      · intro a ha b hb; simpa using hcl a ha b hb
    | cons a st =>
      simp only [markLoop] at hm
      have hra : Reach h a := hs a (by simp)
      have hkids : ∀ b ∈ kids h a, Reach h b := fun b hb => Reach.step hra hb
      refine ih _ _ R ?_ ?_ ?_ ?_ hm
      · intro b hb
        simp only [List.mem_append, List.mem_reverse] at hb
        rcases hb with hb | hb
        · exact hkids b hb
        · exact hs b (by simp [hb])
      · intro b hb
        split at hb
        · exact hr b hb
        · rcases List.mem_cons.mp hb with rfl | hb
          · exact hra
          · exact hr b hb
      · intro b hb
        rcases hroot b hb with h1 | h1
        · left; split
          · exact h1
          · simp [h1]
        · rcases List.mem_cons.mp h1 with rfl | h1
          · left; split
            · rename_i hc; simpa using hc
            · simp
          · right; simp [h1]
      · intro x hx b hb
        have key : ∀ y, (y ∈ reachable ∨ y ∈ a :: st) →
            (y ∈ (if reachable.contains a = true then reachable else a :: reachable) ∨
              y ∈ (kids h a).reverse ++ st) := by
          intro y hy
          rcases hy with h1 | h1
          · left; split
            · exact h1
            · simp [h1]
          · rcases List.mem_cons.mp h1 with rfl | h1
            · left; split
              · rename_i hc; simpa using hc
              · simp
            · right; simp [h1]
        split at hx
        · exact key b (hcl x hx b hb)
        · rcases List.mem_cons.mp hx with rfl | hx
          · right; exact List.mem_append_left _ (List.mem_reverse.mpr hb)
          · exact key b (hcl x hx b hb)


theorem markFast_inv (h : Heap) : ∀ (fuel : Nat) (stack reachable R : List Addr),
    (∀ a ∈ stack, Reach h a) → (∀ a ∈ reachable, Reach h a) →
    (∀ a ∈ roots h, a ∈ reachable ∨ a ∈ stack) →
    (∀ a ∈ reachable, ∀ b ∈ kids h a, b ∈ reachable ∨ b ∈ stack) →
    markFast h fuel stack reachable = some R →
    (∀ a ∈ R, Reach h a) ∧ (∀ a ∈ roots h, a ∈ R) ∧ (∀ a ∈ R, ∀ b ∈ kids h a, b ∈ R) := by
  intro fuel
  induction fuel with
  | zero =>
    intro stack reachable R hs hr hroot hcl hm
    cases stack with
    | nil =>
      simp only [markFast, Option.some.injEq] at hm
      subst hm
      refine ⟨hr, ?_, ?_⟩
      · intro a ha; simpa using hroot a ha
      · intro a ha b hb; simpa using hcl a ha b hb
    | cons a st => simp [markFast] at hm
  | succ n ih =>
    intro stack reachable R hs hr hroot hcl hm
    cases stack with
    | nil =>
      simp only [markFast, Option.some.injEq] at hm
      subst hm
      refine ⟨hr, ?_, ?_⟩
      · intro a ha; simpa using hroot a ha
      · intro a ha b hb; simpa using hcl a ha b hb
    | cons a st =>
      simp only [markFast] at hm
      have hra : Reach h a := hs a (by simp)
      split at hm
      · rename_i hc
        have hc : a ∈ reachable := by simpa using hc
        have key : ∀ y, (y ∈ reachable ∨ y ∈ a :: st) → (y ∈ reachable ∨ y ∈ st) := by
          intro y hy
          rcases hy with h1 | h1
          · exact Or.inl h1
          · rcases List.mem_cons.mp h1 with rfl | h1
            · exact Or.inl hc
            · exact Or.inr h1
        refine ih _ _ R ?_ hr ?_ ?_ hm
        · intro b hb; exact hs b (by simp [hb])
        · intro b hb; exact key b (hroot b hb)
        · intro x hx b hb; exact key b (hcl x hx b hb)
      · have key : ∀ y, (y ∈ reachable ∨ y ∈ a :: st) →
            (y ∈ a :: reachable ∨ y ∈ (kids h a).reverse ++ st) := by
          intro y hy
          rcases hy with h1 | h1
          · left; simp [h1]
          · rcases List.mem_cons.mp h1 with rfl | h1
            · left; simp
            · right; simp [h1]
        refine ih _ _ R ?_ ?_ ?_ ?_ hm
        · intro b hb
          simp only [List.mem_append, List.mem_reverse] at hb
          rcases hb with hb | hb
          · exact Reach.step hra hb
          · exact hs b (by simp [hb])
        · intro b hb
          rcases List.mem_cons.mp hb with rfl | hb
          · exact hra
          · exact hr b hb
        · intro b hb; exact key b (hroot b hb)
        · intro x hx b hb
          rcases List.mem_cons.mp hx with rfl | hx
          · right; exact List.mem_append_left _ (List.mem_reverse.mpr hb)
          · exact key b (hcl x hx b hb)

/-- the hypotheses of the invariant lemmas hold for the initial call -/
theorem marked_of_inv {h : Heap} {R : List Addr}
    (hR : (∀ a ∈ R, Reach h a) ∧ (∀ a ∈ roots h, a ∈ R) ∧ (∀ a ∈ R, ∀ b ∈ kids h a, b ∈ R)) :
    Marked h R :=
  fun a => ⟨hR.1 a, closed_of_reach hR.2.1 hR.2.2 a⟩

theorem markLoop_marked' (h : Heap) (fuel : Nat) (R : List Addr)
    (hm : markLoop h fuel (roots h).reverse [] = some R) : Marked h R := by
  apply marked_of_inv
  refine markLoop_inv h fuel _ _ R ?_ ?_ ?_ ?_ hm
  · intro a ha; exact Reach.root (List.mem_reverse.mp ha)
  · intro a ha; cases ha
  · intro a ha; exact Or.inr (List.mem_reverse.mpr ha)
  · intro a ha; cases ha

theorem markFast_marked' (h : Heap) (fuel : Nat) (R : List Addr)
    (hm : markFast h fuel (roots h).reverse [] = some R) : Marked h R := by
  apply marked_of_inv
  refine markFast_inv h fuel _ _ R ?_ ?_ ?_ ?_ hm
  · intro a ha; exact Reach.root (List.mem_reverse.mp ha)
  · intro a ha; cases ha
  · intro a ha; exact Or.inr (List.mem_reverse.mpr ha)
  · intro a ha; cases ha

/-! ### termination of the loop with the visited test -/

/-- weight of the cells of `l` not yet visited: one per cell plus one per child edge -/
def unvisited (h : Heap) (l R : List Addr) : Nat :=
  ((l.filter (fun i => !R.contains i)).map (fun i => (kids h i).length + 1)).sum

theorem unvisited_mono (h : Heap) (a : Addr) (R : List Addr) :
    ∀ l, unvisited h l (a :: R) ≤ unvisited h l R := by
  intro l
  induction l with
  | nil => simp [unvisited]
  | cons x l ih =>
    unfold unvisited at ih ⊢
    simp only [List.filter_cons]
    by_cases hx : x ∈ R
    · have h1 : (a :: R).contains x = true := by simp [hx]
      have h2 : R.contains x = true := by simp [hx]
      simpa [h1, h2, hx] using ih
    · have h2 : R.contains x = false := by simp [hx]
      by_cases hxa : x = a
      · have h1 : (a :: R).contains x = true := by simp [hxa]
        simp only [h1, h2, Bool.not_true, Bool.not_false, if_true, List.map_cons, List.sum_cons]
        simp at ih ⊢
        omega
      · have h1 : (a :: R).contains x = false := by simp [hx, hxa]
        simp only [h1, h2, Bool.not_false, if_true, List.map_cons, List.sum_cons]
        simp at ih ⊢
        omega

theorem unvisited_visit (h : Heap) (a : Addr) (R : List Addr) (haR : a ∉ R) :
    ∀ l, a ∈ l → unvisited h l (a :: R) + (kids h a).length + 1 ≤ unvisited h l R := by
  intro l
  induction l with
  | nil => intro hal; cases hal
  | cons x l ih =>
    intro hal
    by_cases hxa : x = a
    · subst hxa
      have hm := unvisited_mono h x R l
      unfold unvisited at hm ⊢
      have h1 : (x :: R).contains x = true := by simp
      have h2 : R.contains x = false := by simp [haR]
      simp only [List.filter_cons, h1, h2, Bool.not_true, Bool.not_false, if_true, List.map_cons, List.sum_cons]
      simp at hm ⊢
      omega
    · have hal' : a ∈ l := by
        rcases List.mem_cons.mp hal with h1 | h1
        · exact absurd h1.symm hxa
        · exact h1
      have ih := ih hal'
      unfold unvisited at ih ⊢
      simp only [List.filter_cons]
      by_cases hx : x ∈ R
      · have h1 : (a :: R).contains x = true := by simp [hx]
        have h2 : R.contains x = true := by simp [hx]
        simpa [h1, h2, hx] using ih
      · have h1 : (a :: R).contains x = false := by simp [hx, hxa]
        have h2 : R.contains x = false := by simp [hx]
        simp only [h1, h2, Bool.not_false, if_true, List.map_cons, List.sum_cons]
        simp at ih ⊢
        omega


theorem used_lt_store {h : Heap} (hinv : Inv h) {a : Addr} (ha : Used h a) : a < h.store.size :=
  hinv.inStore a (List.mem_of_mem_take ha)

theorem markFast_fuel (h : Heap) (hinv : Inv h) : ∀ (fuel : Nat) (stack reachable : List Addr),
    (∀ a ∈ stack, Used h a) →
    stack.length + unvisited h (List.range h.store.size) reachable ≤ fuel →
    ∃ R, markFast h fuel stack reachable = some R := by
  intro fuel
  induction fuel with
  | zero =>
    intro stack reachable hs hf
    cases stack with
    | nil => exact ⟨reachable, by simp [markFast]⟩
    | cons a st => simp at hf
  | succ n ih =>
    intro stack reachable hs hf
    cases stack with
    | nil => exact ⟨reachable, by simp [markFast]⟩
    | cons a st =>
      simp only [markFast]
      have hua : Used h a := hs a (by simp)
      have hst : ∀ b ∈ st, Used h b := fun b hb => hs b (by simp [hb])
      simp only [List.length_cons] at hf
      split
      · exact ih _ _ hst (by omega)
      · rename_i hc
        have hc : a ∉ reachable := by simpa using hc
        have hv := unvisited_visit h a reachable hc (List.range h.store.size)
          (List.mem_range.mpr (used_lt_store hinv hua))
        apply ih
        · intro b hb
          simp only [List.mem_append, List.mem_reverse] at hb
          rcases hb with hb | hb
          · exact hinv.closed a hua b hb
          · exact hst b hb
        · simp only [List.length_append, List.length_reverse]
          have : (h.cell a).content.children.length = (kids h a).length := rfl
          omega

theorem roots_length_le (h : Heap) : (roots h).length ≤ h.firstFree := by
  unfold roots
  calc _ ≤ ((List.range h.firstFree).filterMap fun i => h.order[i]?).length := List.length_filter_le _ _
    _ ≤ (List.range h.firstFree).length := List.length_filterMap_le _ _
    _ = h.firstFree := List.length_range

theorem range_map_getD {α} (arr : Array α) (d : α) :
    (List.range arr.size).map (fun i => arr.getD i d) = arr.toList := by
  apply List.ext_getElem
  · simp
  · intro i h1 h2
    simp at h1
    simp [Array.getD, h1]

theorem foldl_eq_sum (l : List Cell) : ∀ (n : Nat),
    l.foldl (fun acc c => acc + c.content.children.length + 1) n
      = n + (l.map (fun c => c.content.children.length + 1)).sum := by
  induction l with
  | nil => simp
  | cons c l ih => intro n; simp only [List.foldl_cons, ih, List.map_cons, List.sum_cons]; omega

theorem unvisited_nil (h : Heap) :
    unvisited h (List.range h.store.size) [] =
      h.store.foldl (fun acc c => acc + c.content.children.length + 1) 0 := by
  rw [← Array.foldl_toList, foldl_eq_sum, ← range_map_getD h.store ⟨Content.dflt, 0⟩]
  have hf : ∀ l : List Nat, List.filter (fun _ => true) l = l := fun l =>
    List.filter_eq_self.mpr (fun _ _ => rfl)
  simp [unvisited, kids, cell, Function.comp_def, hf]

theorem markFast_terminates' (h : Heap) (hinv : Inv h) :
    ∃ R, markFast h (markFuel h) (roots h).reverse [] = some R := by
  apply markFast_fuel h hinv
  · intro a ha; exact mem_roots_used (List.mem_reverse.mp ha)
  · rw [unvisited_nil, List.length_reverse]
    have := roots_length_le h
    have := hinv.ff_le
    unfold markFuel
    omega

end Pici.Heap
