/-
Helper lemmas for Props/C18b (the REPL): a generalisation of `RunsJ` (Lemmas/PreludeSteps.lean) to evaluations that
change the interpreter state in ANY way (here: the output and the standard input) — `RunsS s e env home d r s'`: from
every state that differs from `s` by its step counter, the evaluator answers `r` and leaves `s'` with some more steps;
the rules of the evaluator in that form (operands, `if`, closures, natives, trap values, the inlined `eval`, signals
that propagate out of operands); what `output-file`, `input-file`, `read`, `print` answer; one `read_line` on a
standard input that holds an ASCII line, and on an exhausted one.
-/
import PiciModel.Lemmas.PreludeSteps4
import PiciModel.Lemmas.Expand
import PiciModel.Props.C18
import PiciModel.Lemmas.InputStdin

namespace Pici
open Pici.Ref

/-! ### evaluations that change the state -/

/-- from every state that differs from `s` by its step counter only, with enough fuel, the evaluator answers `r` and
leaves the state `s'` (with more steps) -/
def RunsS (s : St) (e env : Val) (home : Name) (d : Nat) (r : Res Val) (s' : St) : Prop :=
  ∀ j, ∃ F k, ∀ n, F ≤ n → evalInternal n (C05.bump s j) e env home d = (r, C05.bump s' (j + k))

def RunsArgsS (s : St) (xs : List Val) (env : Val) (home : Name) (d : Nat) (r : Res (List Val)) (s' : St) : Prop :=
  ∀ j, ∃ F k, ∀ n, F ≤ n → evalArgs n (C05.bump s j) xs env home d = (r, C05.bump s' (j + k))

/-- an evaluation that only counts steps -/
theorem RunsS.of_pure {s : St} {e env : Val} {home : Name} {d : Nat} {r : Res Val}
    (h : RunsJ s e env home d r) : RunsS s e env home d r s := h

theorem RunsArgsS.of_pure {s : St} {xs : List Val} {env : Val} {home : Name} {d : Nat} {r : Res (List Val)}
    (h : RunsArgsJ s xs env home d r) : RunsArgsS s xs env home d r s := h

theorem RunsS.step {s s' : St} {e env : Val} {home : Name} {d : Nat} {r : Res Val}
    (h : ∀ j, ∃ F k, ∀ n, F ≤ n → evalInternal (n + 1) (C05.bump s j) e env home d = (r, C05.bump s' (j + k))) :
    RunsS s e env home d r s' := by
  intro j
  obtain ⟨F, k, hF⟩ := h j
  refine ⟨F + 1, k, fun n hn => ?_⟩
  obtain ⟨m, rfl⟩ : ∃ m, n = m + 1 := ⟨n - 1, by omega⟩
  exact hF m (by omega)

theorem RunsArgsS.step {s s' : St} {xs : List Val} {env : Val} {home : Name} {d : Nat} {r : Res (List Val)}
    (h : ∀ j, ∃ F k, ∀ n, F ≤ n → evalArgs (n + 1) (C05.bump s j) xs env home d = (r, C05.bump s' (j + k))) :
    RunsArgsS s xs env home d r s' := by
  intro j
  obtain ⟨F, k, hF⟩ := h j
  refine ⟨F + 1, k, fun n hn => ?_⟩
  obtain ⟨m, rfl⟩ : ∃ m, n = m + 1 := ⟨n - 1, by omega⟩
  exact hF m (by omega)

theorem RunsArgsS.nil (s : St) (env : Val) (home : Name) (d : Nat) : RunsArgsS s [] env home d (.ok []) s :=
  RunsArgsS.step fun _ => ⟨0, 0, fun n _ => step_args_nil n _ env home d⟩

theorem RunsArgsS.cons {s s1 s2 : St} {x : Val} {xs : List Val} {env : Val} {home : Name} {d : Nat} {v : Val}
    {vs : List Val}
    (h1 : RunsS s x env home (d + 1) (.ok v) s1) (h2 : RunsArgsS s1 xs env home d (.ok vs) s2) :
    RunsArgsS s (x :: xs) env home d (.ok (v :: vs)) s2 := by
  refine RunsArgsS.step fun j => ?_
  obtain ⟨F1, k1, hF1⟩ := h1 j
  obtain ⟨F2, k2, hF2⟩ := h2 (j + k1)
  refine ⟨F1 + F2, k1 + k2, fun n hn => ?_⟩
  rw [step_args_cons n _ _ _ x xs env home d v vs (hF1 n (by omega)) (hF2 n (by omega)), Nat.add_assoc]

/-- the first operand signals: the others are not evaluated -/
theorem RunsArgsS.here {s s1 : St} {x : Val} {xs : List Val} {env : Val} {home : Name} {d : Nat} {sig : Val}
    (h1 : RunsS s x env home (d + 1) (.err sig) s1) :
    RunsArgsS s (x :: xs) env home d (.err sig) s1 := by
  refine RunsArgsS.step fun j => ?_
  obtain ⟨F1, k1, hF1⟩ := h1 j
  exact ⟨F1, k1, fun n hn => step_args_here n _ _ x xs env home d sig (hF1 n hn)⟩

/-- a later operand signals -/
theorem RunsArgsS.later {s s1 s2 : St} {x : Val} {xs : List Val} {env : Val} {home : Name} {d : Nat} {v sig : Val}
    (h1 : RunsS s x env home (d + 1) (.ok v) s1) (h2 : RunsArgsS s1 xs env home d (.err sig) s2) :
    RunsArgsS s (x :: xs) env home d (.err sig) s2 := by
  refine RunsArgsS.step fun j => ?_
  obtain ⟨F1, k1, hF1⟩ := h1 j
  obtain ⟨F2, k2, hF2⟩ := h2 (j + k1)
  refine ⟨F1 + F2, k1 + k2, fun n hn => ?_⟩
  rw [step_args_later n _ _ _ x xs env home d v sig (hF1 n (by omega)) (hF2 n (by omega)), Nat.add_assoc]

/-- `(if c t o)` when the condition yields a value: the chosen branch at the same depth -/
theorem RunsS.ifOk {s s1 s2 : St} (hatt : s.attached = false) {e env : Val} {home : Name} {d : Nat} {first c t o v : Val}
    {r : Res Val} (hd : d ≤ Config.maxRecursionDepth) (hl : listToVec e = some [first, c, t, o])
    (hlam : first.isSymNamed cs!"lambda" = false) (hq : first.isSymNamed cs!"quote" = false)
    (hif : first.isSymNamed cs!"if" = true)
    (hc : RunsS s c env home (d + 1) (.ok v) s1) (hb : RunsS s1 (if !v.isNil then t else o) env home d r s2) :
    RunsS s e env home d r s2 := by
  refine RunsS.step fun j => ?_
  obtain ⟨F1, k1, hF1⟩ := hc (j + 1)
  obtain ⟨F2, k2, hF2⟩ := hb (j + 1 + k1)
  refine ⟨F1 + F2, 1 + k1 + k2, fun n hn => ?_⟩
  rw [step_ifOk n _ _ e env home d hd (poll_bump s hatt j) first c t o _ v hl hlam hq hif (hF1 n (by omega)),
    hF2 n (by omega)]
  simp only [Nat.add_assoc]

theorem RunsS.ifTrue {s s1 s2 : St} (hatt : s.attached = false) {env : Val} {home : Name} {d : Nat} {m : Meta}
    {c t o v : Val} {r : Res Val} (hd : d ≤ Config.maxRecursionDepth)
    (hc : RunsS s c env home (d + 1) (.ok v) s1) (hv : v.isNil = false) (hb : RunsS s1 t env home d r s2) :
    RunsS s (.ofList [symA cs!"if" m, c, t, o]) env home d r s2 :=
  RunsS.ifOk hatt (first := symA cs!"if" m) hd rfl rfl rfl rfl hc (by rw [hv]; exact hb)

theorem RunsS.ifFalse {s s1 s2 : St} (hatt : s.attached = false) {env : Val} {home : Name} {d : Nat} {m : Meta}
    {c t o v : Val} {r : Res Val} (hd : d ≤ Config.maxRecursionDepth)
    (hc : RunsS s c env home (d + 1) (.ok v) s1) (hv : v.isNil = true) (hb : RunsS s1 o env home d r s2) :
    RunsS s (.ofList [symA cs!"if" m, c, t, o]) env home d r s2 :=
  RunsS.ifOk hatt (first := symA cs!"if" m) hd rfl rfl rfl rfl hc (by rw [hv]; exact hb)

/-- a call of a closure: the body at the depth of the call -/
theorem RunsS.callClosure {s s1 s2 s3 : St} (hatt : s.attached = false) {e env : Val} {home : Name} {d : Nat} {first : Val}
    {operands args : List Val} {f : Val} {k : Kind} {rest params body fenv newEnv : Val} {fmod : Name} {r : Res Val}
    (hd : d ≤ Config.maxRecursionDepth) (hl : listToVec e = some (first :: operands)) (hsp : isSpecial first = false)
    (hop : RunsS s first env home (d + 1) (.ok f) s1) (hf : f.get = .fn k rest params body fenv fmod)
    (ha : RunsArgsS s1 operands env home d (.ok args) s2)
    (hp : pairParamsAndArgs rest params fenv (e.getMeta.map (·.readName)) args = .ok newEnv)
    (hb : RunsS s2 body newEnv fmod d r s3) :
    RunsS s e env home d r s3 := by
  refine RunsS.step fun j => ?_
  obtain ⟨F1, k1, hF1⟩ := hop (j + 1)
  obtain ⟨F2, k2, hF2⟩ := ha (j + 1 + k1)
  obtain ⟨F3, k3, hF3⟩ := hb (j + 1 + k1 + k2)
  refine ⟨F1 + F2 + F3, 1 + k1 + k2 + k3, fun n hn => ?_⟩
  rw [step_callClosure n _ _ e env home d hd (poll_bump s hatt j) first operands _ _ f k rest params body fenv fmod args
    newEnv hl hsp (hF1 n (by omega)) hf (hF2 n (by omega)) hp, hF3 n (by omega)]
  simp only [Nat.add_assoc]

/-- an operand of a call (of a closure or of a native) signals: the call is not made -/
theorem RunsS.operandErr {s s1 s2 : St} (hatt : s.attached = false) {e env : Val} {home : Name} {d : Nat} {first : Val}
    {operands : List Val} {f sig : Val}
    (hd : d ≤ Config.maxRecursionDepth) (hl : listToVec e = some (first :: operands)) (hsp : isSpecial first = false)
    (hop : RunsS s first env home (d + 1) (.ok f) s1)
    (hf : (∃ k r p b fe m, f.get = .fn k r p b fe m) ∨ (∃ id, f.get = .native id))
    (ha : RunsArgsS s1 operands env home d (.err sig) s2) :
    RunsS s e env home d (.err sig) s2 := by
  refine RunsS.step fun j => ?_
  obtain ⟨F1, k1, hF1⟩ := hop (j + 1)
  obtain ⟨F2, k2, hF2⟩ := ha (j + 1 + k1)
  refine ⟨F1 + F2, 1 + k1 + k2, fun n hn => ?_⟩
  rw [step_operandErr n _ _ e env home d hd (poll_bump s hatt j) first operands _ _ f sig hl hsp (hF1 n (by omega)) hf
    (hF2 n (by omega))]
  simp only [Nat.add_assoc]

/-- a call of a native (other than `eval`) that answers with the outcome `r` whatever the step count and the fuel, and
takes the state from `s2` to `s3` -/
theorem RunsS.callNativeRes {s s1 s2 s3 : St} (hatt : s.attached = false) {e env : Val} {home : Name} {d : Nat}
    {first : Val} {operands args : List Val} {f : Val} {id : NativeId} {r : Res Val}
    (hd : d ≤ Config.maxRecursionDepth) (hl : listToVec e = some (first :: operands)) (hsp : isSpecial first = false)
    (hop : RunsS s first env home (d + 1) (.ok f) s1) (hf : f.get = .native id) (hid : id ≠ .eval)
    (ha : RunsArgsS s1 operands env home d (.ok args) s2)
    (hn : ∀ fuel j, applyNative (fuel + 1) (C05.bump s2 j) id args env (d + 1) = (r, C05.bump s3 j)) :
    RunsS s e env home d r s3 := by
  obtain ⟨hlam, hq, hif, htrap⟩ := isSpecial_false hsp
  refine RunsS.step fun j => ?_
  obtain ⟨F1, k1, hF1⟩ := hop (j + 1)
  obtain ⟨F2, k2, hF2⟩ := ha (j + 1 + k1)
  refine ⟨F1 + F2 + 1, 1 + k1 + k2, fun n hn' => ?_⟩
  obtain ⟨m, rfl⟩ : ∃ m, n = m + 1 := ⟨n - 1, by omega⟩
  rw [evalInternal_native (m + 1) _ _ _ _ e first operands env home d f id args hl hlam hq hif htrap hd
    (poll_bump s hatt j) (hF1 (m + 1) (by omega)) hf hid (hF2 (m + 1) (by omega)), hn m]
  simp only [Nat.add_assoc]

/-- evaluating a trap value whose normal body yields a value: that value; the handler is not evaluated -/
theorem RunsS.trapValOk {s s1 : St} (hatt : s.attached = false) {env : Val} {home : Name} {d : Nat} {N H x : Val}
    (hd : d ≤ Config.maxRecursionDepth) (hn : RunsS s N env home (d + 1) (.ok x) s1) :
    RunsS s (.trap N H) env home d (.ok x) s1 := by
  refine RunsS.step fun j => ?_
  obtain ⟨F, k, hF⟩ := hn (j + 1)
  refine ⟨F, 1 + k, fun n hn' => ?_⟩
  rw [evalInternal_trap_step n _ _ (.trap N H) N H env home d (listToVec_trap N H) (get_trap N H) hd (poll_bump s hatt j),
    hF n hn']
  simp only [Nat.add_assoc]

/-- evaluating a trap value whose normal body raises a signal that is not an abort: the handler, in the environment of
the trap extended by `*trapped-signal*`, one level below the trap -/
theorem RunsS.trapValCatch {s s1 s2 : St} (hatt : s.attached = false) {env : Val} {home : Name} {d : Nat}
    {N H sig : Val} {r : Res Val}
    (hd : d ≤ Config.maxRecursionDepth) (hn : RunsS s N env home (d + 1) (.err sig) s1) (hsig : sig.isNil = false)
    (hh : RunsS s1 H (.cons (.cons (.symName cs!"*trapped-signal*") sig) env) home (d + 1) r s2) :
    RunsS s (.trap N H) env home d r s2 := by
  refine RunsS.step fun j => ?_
  obtain ⟨F1, k1, hF1⟩ := hn (j + 1)
  obtain ⟨F2, k2, hF2⟩ := hh (j + 1 + k1)
  refine ⟨F1 + F2, 1 + k1 + k2, fun n hn' => ?_⟩
  rw [evalInternal_trap_step n _ _ (.trap N H) N H env home d (listToVec_trap N H) (get_trap N H) hd (poll_bump s hatt j),
    hF1 n (by omega)]
  simp only [hsig, Bool.false_eq_true, if_false]
  rw [hF2 n (by omega)]
  simp only [Nat.add_assoc]

/-! ### the inlined `eval` -/

/-- what the evaluator does for `(eval X)` once `X` has been evaluated to `x`: complete macro expansion (one level below
the call), then evaluation of the result in the environment and the module of the CALLER, at the depth of the call -/
def evalInline (fuel : Nat) (st : St) (x env : Val) (mod : Name) (depth : Nat) : Out :=
  match expandCompletely fuel st x env mod (depth + 1) with
  | (.ok expanded, st) => evalInternal fuel st expanded env mod depth
  | (.err s, st)       => (.err s, st)
  | (.crash s, st)     => (.crash s, st)
  | (.outOfFuel, st)   => (.outOfFuel, st)

/-- the call `(eval X)`: `X` runs to `x`, and the inlined `eval` of `x` answers `r` -/
theorem RunsS.callEvalInline {s s1 s2 s3 : St} (hatt : s.attached = false) {e env : Val} {home : Name} {d : Nat}
    {first : Val} {operands : List Val} {f x : Val} {r : Res Val}
    (hd : d ≤ Config.maxRecursionDepth) (hl : listToVec e = some (first :: operands)) (hsp : isSpecial first = false)
    (hop : RunsS s first env home (d + 1) (.ok f) s1) (hf : f.get = .native .eval)
    (ha : RunsArgsS s1 operands env home d (.ok [x]) s2)
    (hx : ∀ j, ∃ F k, ∀ n, F ≤ n → evalInline n (C05.bump s2 j) x env home d = (r, C05.bump s3 (j + k))) :
    RunsS s e env home d r s3 := by
  obtain ⟨hlam, hq, hif, htrap⟩ := isSpecial_false hsp
  refine RunsS.step fun j => ?_
  obtain ⟨F1, k1, hF1⟩ := hop (j + 1)
  obtain ⟨F2, k2, hF2⟩ := ha (j + 1 + k1)
  obtain ⟨F3, k3, hF3⟩ := hx (j + 1 + k1 + k2)
  refine ⟨F1 + F2 + F3, 1 + k1 + k2 + k3, fun n hn' => ?_⟩
  have h3 := hF3 n (by omega)
  rw [evalInternal, if_neg (Nat.not_lt.mpr hd), poll_bump s hatt j]
  simp only [hl, hif, hlam, hq, htrap, hF1 n (by omega), hf, hF2 n (by omega)]
  simp only [Bool.false_eq_true, if_false, beq_self_eq_true, if_true, arity1]
  rw [evalInline] at h3
  refine Eq.trans ?_ (h3.trans (by simp only [Nat.add_assoc]))
  rfl

/-- the inlined `eval` of a trap value is the evaluation of the trap value: the expander leaves it alone -/
theorem evalInline_trapVal (n : Nat) (st : St) (N H env : Val) (mod : Name) (d : Nat)
    (hd : d + 2 ≤ Config.maxRecursionDepth) :
    evalInline (n + 2) st (.trap N H) env mod d = evalInternal (n + 2) st (.trap N H) env mod d := by
  rw [evalInline, expandCompletely_trapVal n st N H env mod (d + 1) (by omega)]

/-- `(eval (trap N H))`: the trap value is evaluated at the depth of the call -/
theorem RunsS.callEvalTrap {s s1 s2 s3 : St} (hatt : s.attached = false) {e env : Val} {home : Name} {d : Nat}
    {first : Val} {operands : List Val} {f N H : Val} {r : Res Val}
    (hd : d + 2 ≤ Config.maxRecursionDepth) (hl : listToVec e = some (first :: operands)) (hsp : isSpecial first = false)
    (hop : RunsS s first env home (d + 1) (.ok f) s1) (hf : f.get = .native .eval)
    (ha : RunsArgsS s1 operands env home d (.ok [.trap N H]) s2)
    (hb : RunsS s2 (.trap N H) env home d r s3) :
    RunsS s e env home d r s3 := by
  refine RunsS.callEvalInline hatt (by omega) hl hsp hop hf ha fun j => ?_
  obtain ⟨F, k, hF⟩ := hb j
  refine ⟨F + 2, k, fun n hn => ?_⟩
  obtain ⟨m, rfl⟩ : ∃ m, n = m + 2 := ⟨n - 2, by omega⟩
  rw [evalInline_trapVal m _ N H env home d hd]
  exact hF (m + 2) (by omega)

/-- the answer at ONE fuel and step count, from `s` itself -/
theorem RunsS.at_zero {s s' : St} {e env : Val} {home : Name} {d : Nat} {r : Res Val} (h : RunsS s e env home d r s') :
    ∃ fuel k, evalInternal fuel s e env home d = (r, C05.bump s' k) := by
  obtain ⟨F, k, hF⟩ := h 0
  refine ⟨F, k, ?_⟩
  have := hF F (Nat.le_refl F)
  rwa [C05.bump_zero, Nat.zero_add] at this

/-! ### the natives of the REPL -/

theorem bump_write (s : St) (j : Nat) (text : List Char) : (C05.bump s j).write text = C05.bump (s.write text) j := rfl

/-- `(output-file *stdout* string)` appends the string to the output -/
theorem applyNative_outputFile (fuel : Nat) (s : St) (dst str env : Val) (text : List Char) (d : Nat)
    (hdst : dst.isSymNamed cs!"*stdout*" = true) (hstr : listToString str = some text) :
    applyNative (fuel + 1) s .outputFile [dst, str] env d = (.ok (.symName cs!"ok"), s.write text) := by
  simp [applyNative, simpleNative, arity2, asString, hstr, hdst]

theorem readLine_eq (s : St) : s.readLine =
    (if (readUntilNewline s.stdinBuf s.stdinChunks []).1 = [] then
      (.eof, { s with stdinBuf := (readUntilNewline s.stdinBuf s.stdinChunks []).2.1,
                      stdinChunks := (readUntilNewline s.stdinBuf s.stdinChunks []).2.2 })
     else match utf8Decode (readUntilNewline s.stdinBuf s.stdinChunks []).1 with
       | some cs => (.line cs, { s with stdinBuf := (readUntilNewline s.stdinBuf s.stdinChunks []).2.1,
                                        stdinChunks := (readUntilNewline s.stdinBuf s.stdinChunks []).2.2 })
       | none => (.invalidData, { s with stdinBuf := (readUntilNewline s.stdinBuf s.stdinChunks []).2.1,
                                         stdinChunks := (readUntilNewline s.stdinBuf s.stdinChunks []).2.2 })) := by
  rfl

theorem readLine_bump (s : St) (j : Nat) :
    (C05.bump s j).readLine = ((s.readLine).1, C05.bump (s.readLine).2 j) := by
  rw [readLine_eq, readLine_eq]
  simp only [C05.bump]
  by_cases h : (readUntilNewline s.stdinBuf s.stdinChunks []).1 = []
  · simp only [h, if_true]
  · simp only [h, if_false]
    cases utf8Decode (readUntilNewline s.stdinBuf s.stdinChunks []).1 <;> rfl

/-- `(input-file *stdin*)` when no read times out before the line is complete: one `read_line` -/
theorem applyNative_inputFile (fuel : Nat) (s : St) (src env : Val) (d : Nat)
    (hsrc : src.isSymNamed cs!"*stdin*" = true) (hnt : firstTimeout s.stdinBuf s.stdinChunks = none) :
    applyNative (fuel + 1) s .inputFile [src] env d =
      (match s.readLine with
       | (.line text, s1)   => (.ok (.ofChars text), s1)
       | (.eof, s1)         => (.err (makeError cs!"eof" cs!"input-file" []), s1)
       | (.invalidData, s1) => (.err (makeError cs!"cannot-read-file" cs!"input-file"
                                  [(cs!"details", .ofChars cs!"invalid data")]), s1)) := by
  simp only [applyNative, simpleNative, arity1, hsrc, if_true]
  exact inputStdin_succ_none _ s hnt

/-- `read` does not touch the state -/
theorem applyNative_read (fuel : Nat) (s : St) (args : List Val) (env : Val) (d : Nat) :
    applyNative (fuel + 1) s .read args env d = (readNative args d, s) := by
  simp [applyNative, simpleNative]

/-- `print` does not touch the state -/
theorem applyNative_print (fuel : Nat) (s : St) (args : List Val) (env : Val) (d : Nat) :
    applyNative (fuel + 1) s .print args env d = (printNative args d, s) := by
  simp [applyNative, simpleNative]

/-- the `read` native as the REPL calls it — `(read input 'stdin 1 1)`, the symbol and the numbers with their reader
metadata, at any permitted depth — is `readCore` on the bare arguments -/
theorem readCore_repl (input : Val) (m m1 m2 : Meta) (dep : Nat) (hdep : dep ≤ Config.maxRecursionDepth) :
    readCore [input, symA cs!"stdin" m, numA 1 m1, numA 1 m2] dep =
      readCore [input, .symName cs!"stdin", .num 1, .num 1] 0 := by
  have h0 : ¬ (0 > Config.maxRecursionDepth) := by decide
  simp only [readCore, if_neg (Nat.not_lt.mpr hdep), if_neg h0]
  rfl

/-! ### characters of a proper list of characters -/

theorem charsOf_map_chr (cs : List Char) : charsOf (cs.map Val.chr) = some cs := by
  induction cs with
  | nil => rfl
  | cons c cs ih => simp [charsOf, Val.get, ih]

/-- the characters of a string value: a non-empty bare list of characters -/
theorem listToString_ofChars (cs : List Char) : listToString (.ofChars cs) = some cs := by
  cases cs with
  | nil => rfl
  | cons c cs =>
    have h := charsOf_map_chr (c :: cs)
    simp only [listToString, Val.ofChars, listToVec_ofList, List.map_cons] at h ⊢
    simp only [Val.isSymNamed, Val.get, Bool.false_eq_true, if_false]
    exact h

theorem listToVec_ofChars (cs : List Char) : listToVec (.ofChars cs) = some (cs.map Val.chr) :=
  listToVec_ofList _

/-! ### standard input that holds an ASCII line -/

/-- the bytes of ASCII text -/
def asciiBytes (cs : List Char) : List UInt8 := cs.map fun c => UInt8.ofNat c.toNat

theorem asciiBytes_append (a b : List Char) : asciiBytes (a ++ b) = asciiBytes a ++ asciiBytes b := by
  simp [asciiBytes]

theorem ascii_byte_toNat (c : Char) (h : c.toNat < 128) : (UInt8.ofNat c.toNat).toNat = c.toNat := by
  rw [UInt8.toNat_ofNat']
  omega

/-- ASCII bytes decode to the text they encode -/
theorem utf8Decode_ascii (cs : List Char) (h : ∀ c ∈ cs, c.toNat < 128) : utf8Decode (asciiBytes cs) = some cs := by
  induction cs with
  | nil => simp [asciiBytes, utf8Decode]
  | cons c cs ih =>
    have hc : c.toNat < 128 := h c (by simp)
    have ih' := ih fun x hx => h x (by simp [hx])
    have hb := ascii_byte_toNat c hc
    show utf8Decode (UInt8.ofNat c.toNat :: asciiBytes cs) = some (c :: cs)
    rw [utf8Decode.eq_def]
    simp only [hb]
    rw [if_pos (by omega), ih']
    simp [Char.ofNat_toNat]

theorem ascii_byte_ne_newline (c : Char) (h : c.toNat < 128) (hc : c ≠ '\n') : UInt8.ofNat c.toNat ≠ 10 := by
  intro he
  have h1 := congrArg UInt8.toNat he
  rw [ascii_byte_toNat c h] at h1
  apply hc
  apply Char.ext
  apply UInt32.toNat_inj.mp
  exact h1

theorem splitAfterNewline_asciiBytes_none (body : List Char) (h : ∀ c ∈ body, c.toNat < 128) (hn : '\n' ∉ body) :
    splitAfterNewline (asciiBytes body) = none := by
  rw [splitAfterNewline_eq_none_iff]
  intro hm
  simp only [asciiBytes, List.mem_map] at hm
  obtain ⟨c, hc, he⟩ := hm
  exact ascii_byte_ne_newline c (h c hc) (fun e => hn (e ▸ hc)) he

/-- the first line of input that begins with an ASCII line -/
theorem firstLine_ascii_line (body : List Char) (rest : List UInt8) (h : ∀ c ∈ body, c.toNat < 128) (hn : '\n' ∉ body) :
    C18.firstLine (asciiBytes (body ++ ['\n']) ++ rest) = (asciiBytes (body ++ ['\n']), rest) := by
  rw [asciiBytes_append, List.append_assoc,
    C18.firstLine_append_none _ (splitAfterNewline_asciiBytes_none body h hn)]
  have : C18.firstLine (asciiBytes ['\n'] ++ rest) = (asciiBytes ['\n'], rest) := by
    apply C18.firstLine_of_some
    show splitAfterNewline ((10 : UInt8) :: rest) = some ([10], rest)
    rw [splitAfterNewline_cons, if_pos rfl]
  rw [this]

/-- text up to the end of the line, in terms of `C18.firstLine` -/
theorem textLine_of_firstLine (bytes : List UInt8) (h : ∀ b ∈ (C18.firstLine bytes).1, b.toNat < 0xF8) : TextLine bytes := by
  unfold TextLine
  unfold C18.firstLine at h
  split
  · rename_i pre post heq
    rw [heq] at h
    exact h
  · rename_i heq
    rw [heq] at h
    exact h

/-- a standard input that begins with an ASCII line — however it is chunked — has no time-out marker before the end of
that line: no chunk that the line still needs can be `timeoutChunk`, whose byte 0xF8 is not ASCII -/
theorem firstTimeout_none_ascii_line (buf : List UInt8) (chunks : List (List UInt8)) (body : List Char) (rest : List UInt8)
    (h : ∀ c ∈ body, c.toNat < 128) (hn : '\n' ∉ body)
    (hin : buf ++ chunks.flatten = asciiBytes (body ++ ['\n']) ++ rest) : firstTimeout buf chunks = none := by
  apply firstTimeout_none_of_text
  rw [hin]
  apply textLine_of_firstLine
  rw [firstLine_ascii_line body rest h hn]
  intro b hb
  simp only [asciiBytes, List.mem_map] at hb
  obtain ⟨c, hc, rfl⟩ := hb
  have hc128 : c.toNat < 128 := by
    rcases List.mem_append.mp hc with hc | hc
    · exact h c hc
    · simp only [List.mem_singleton] at hc; subst hc; decide
  rw [ascii_byte_toNat c hc128]
  omega

/-- an exhausted standard input has no time-out ahead -/
theorem firstTimeout_none_exhausted (buf : List UInt8) (chunks : List (List UInt8)) (hin : buf ++ chunks.flatten = []) :
    firstTimeout buf chunks = none := by
  apply firstTimeout_none_of_text
  rw [hin]
  intro b hb
  cases hb

/-- one `read_line` on a standard input that begins with an ASCII line — however the operating system has split it into
chunks: the line is delivered, exactly its bytes are consumed, nothing else changes -/
theorem readLine_ascii_line (s : St) (body : List Char) (rest : List UInt8)
    (h : ∀ c ∈ body, c.toNat < 128) (hn : '\n' ∉ body) (hne : C18.NoEmpty s.stdinChunks)
    (hin : s.stdinBuf ++ s.stdinChunks.flatten = asciiBytes (body ++ ['\n']) ++ rest) :
    ∃ buf chunks, s.readLine = (.line (body ++ ['\n']), { s with stdinBuf := buf, stdinChunks := chunks }) ∧
      buf ++ chunks.flatten = rest ∧ C18.NoEmpty chunks := by
  obtain ⟨h1, h2, h3⟩ := C18.readUntilNewline_spec s.stdinBuf s.stdinChunks hne
  rw [hin, firstLine_ascii_line body rest h hn] at h1 h2
  refine ⟨(readUntilNewline s.stdinBuf s.stdinChunks []).2.1, (readUntilNewline s.stdinBuf s.stdinChunks []).2.2, ?_, h2, h3⟩
  have hall : ∀ c ∈ body ++ ['\n'], c.toNat < 128 := by
    intro c hc
    rcases List.mem_append.mp hc with hc | hc
    · exact h c hc
    · simp only [List.mem_singleton] at hc; subst hc; decide
  have hdec := utf8Decode_ascii (body ++ ['\n']) hall
  have hne' : asciiBytes (body ++ ['\n']) ≠ [] := by simp [asciiBytes]
  unfold St.readLine
  generalize readUntilNewline s.stdinBuf s.stdinChunks [] = res at h1 h2 h3
  obtain ⟨bytes, buf, chunks⟩ := res
  simp only at h1 h2 h3 ⊢
  subst h1
  simp only [hne', if_false, hdec]

/-- one `read_line` on an exhausted standard input: end of file, and the input stays exhausted -/
theorem readLine_exhausted (s : St) (hne : C18.NoEmpty s.stdinChunks)
    (hin : s.stdinBuf ++ s.stdinChunks.flatten = []) :
    s.readLine = (.eof, { s with stdinBuf := [], stdinChunks := [] }) := by
  have hb : s.stdinBuf = [] := (List.append_eq_nil_iff.mp hin).1
  have hc : s.stdinChunks = [] := by
    have hf := (List.append_eq_nil_iff.mp hin).2
    cases hcs : s.stdinChunks with
    | nil => rfl
    | cons c cs =>
      rw [hcs] at hf hne
      have : c = [] := by
        have := List.flatten_eq_nil_iff.mp hf c (by simp)
        exact this
      exact absurd this (hne c (by simp))
  unfold St.readLine
  rw [hb, hc]
  simp [readUntilNewline, splitAfterNewline]

/-! ### for the entries of a script: numbers print, atoms expand to themselves, one round of the expander -/

theorem printText_num (k : Int) (m : Meta) (pd : Nat) (h : pd + 1 ≤ Config.maxRecursionDepth) :
    printText [.md (.num k) m] pd = .ok (formatInt k) := by
  have h' : ¬ (pd + 1 > Config.maxRecursionDepth) := by omega
  simp [printText, printAt, printInternal, h', Val.isNil, listToString, listToVec, printAtom]

theorem printText_bareNum (k : Int) (pd : Nat) (h : pd + 1 ≤ Config.maxRecursionDepth) :
    printText [.num k] pd = .ok (formatInt k) := by
  have h' : ¬ (pd + 1 > Config.maxRecursionDepth) := by omega
  simp [printText, printAt, printInternal, h', Val.isNil, listToString, listToVec, printAtom]

/-- the inlined `eval` of a form that the expander leaves as `x'` in one round, without changing the state -/
theorem evalInline_of_round {s : St} {x x' env : Val} {home : Name} {dd : Nat} {r : Res Val} (K : Nat)
    (hexp : ∀ n, expandInternal (n + K) s x env home (dd + 1 + 1) false = ((.ok x', s), false))
    (hrun : RunsJ s x' env home dd r) :
    ∃ F k, ∀ n, F ≤ n → evalInline n s x env home dd = (r, C05.bump s k) := by
  obtain ⟨F, k, hF⟩ := hrun 0
  refine ⟨F + K + 1, k, fun n hn => ?_⟩
  obtain ⟨m, rfl⟩ : ∃ m, n = m + K + 1 := ⟨n - K - 1, by omega⟩
  rw [evalInline, Expand.expandCompletely_of_false (hexp m)]
  have := hF (m + K + 1) (by omega)
  rwa [C05.bump_zero, Nat.zero_add] at this

theorem readCore_of_check {args : List Val} {dep : Nat} {form : Val} {rest : Rest}
    (h : (match readCore args dep with
          | .ok (.ok f r) => decide (f = form ∧ r = rest)
          | _ => false) = true) : readCore args dep = .ok (.ok form rest) := by
  split at h
  · rename_i f r heq
    obtain ⟨h1, h2⟩ := of_decide_eq_true h
    rw [heq, h1, h2]
  · cases h

/-- a number literal as the reader produces it is left alone by the expander -/
theorem expand_numA (fuel : Nat) (s : St) (k : Int) (m : Meta) (env : Val) (home : Name) (d : Nat)
    (hd : d ≤ Config.maxRecursionDepth) (ch : Bool) :
    expandInternal (fuel + 1) s (numA k m) env home d ch = ((.ok (numA k m), s), ch) :=
  Expand.expandInternal_of_step hd (.atom rfl (fun _ _ h => by cases h) (fun _ h => by cases h))


end Pici
