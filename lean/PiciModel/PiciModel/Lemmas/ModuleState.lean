/-
Helper lemmas for C15.

* how the operations of `Model/State.lean` act on the module table (`putModule`, `updateCurrent`, `defineModule`,
  `setCurrentModule`, `send`, ...), phrased with `HasModule st n` ("a module named `n` exists");
* the invariant `Keeps'`/`Keeps` ("the current module stays current, every module that exists keeps existing")
  for the simple natives and the debugger poll;
* no crash of the reader or of a simple native is the panic message of `load-all` (`panicMsg`);
* `Good` = `Keeps` + "the outcome is not that panic", proved for the seven mutually recursive functions of
  `Model/Eval.lean` by induction on the fuel (`goodAll`): one `…_step` lemma per function, each taking the
  invariant at the fuel below (`GoodAll fuel`).
-/
import PiciModel.Model.Eval
import PiciModel.Lemmas.InputStdin

namespace Pici

/-! ### association lists of definitions -/

theorem lookup_insertDef_self (defs : List (Name × Val)) (name : Name) (v : Val) :
    (St.insertDef defs name v).lookup name = some v := by
  induction defs with
  | nil => simp [St.insertDef]
  | cons p ds ih =>
    obtain ⟨n, x⟩ := p
    simp only [St.insertDef]
    by_cases h : n = name
    · subst h; simp
    · have h' : (n == name) = false := by simpa using h
      have h'' : (name == n) = false := by simpa using fun e => h e.symm
      simp [h', List.lookup, h'', ih]

theorem lookup_insertDef_ne (defs : List (Name × Val)) (name n : Name) (v : Val) (hne : n ≠ name) :
    (St.insertDef defs name v).lookup n = defs.lookup n := by
  induction defs with
  | nil =>
    have : (n == name) = false := by simpa using hne
    simp [St.insertDef, List.lookup, this]
  | cons p ds ih =>
    obtain ⟨k, x⟩ := p
    simp only [St.insertDef]
    by_cases h : k = name
    · subst h
      have : (n == k) = false := by simpa using hne
      simp [List.lookup, this]
    · have h' : (k == name) = false := by simpa using h
      simp only [h', Bool.false_eq_true, if_false, List.lookup]
      cases n == k <;> simp [ih]

theorem lookup_filter_self (defs : List (Name × Val)) (name : Name) :
    (defs.filter (·.1 != name)).lookup name = none := by
  induction defs with
  | nil => rfl
  | cons p ds ih =>
    obtain ⟨k, x⟩ := p
    by_cases h : k = name
    · subst h; simp [List.filter, ih]
    · have h1 : (k != name) = true := by simpa using h
      have h2 : (name == k) = false := by simpa using fun e => h e.symm
      simp [List.filter, h1, List.lookup, h2, ih]

theorem lookup_filter_ne (defs : List (Name × Val)) (name n : Name) (hne : n ≠ name) :
    (defs.filter (·.1 != name)).lookup n = defs.lookup n := by
  induction defs with
  | nil => rfl
  | cons p ds ih =>
    obtain ⟨k, x⟩ := p
    by_cases h : k = name
    · subst h
      have : (n == k) = false := by simpa using hne
      simp [List.filter, List.lookup, this, ih]
    · have h1 : (k != name) = true := by simpa using h
      simp only [List.filter, h1, List.lookup]
      cases n == k <;> simp [ih]

/-! ### `putModule` -/

theorem find_putModule_self (ms : List Module) (m : Module) :
    (St.putModule ms m).find? (·.name == m.name) = some m := by
  induction ms with
  | nil => simp [St.putModule]
  | cons x xs ih =>
    simp only [St.putModule]
    by_cases h : x.name = m.name
    · simp [h]
    · have h' : (x.name == m.name) = false := by simpa using h
      simp [h', ih]

theorem find_putModule_ne (ms : List Module) (m : Module) (n : Name) (hne : n ≠ m.name) :
    (St.putModule ms m).find? (·.name == n) = ms.find? (·.name == n) := by
  induction ms with
  | nil =>
    have : (m.name == n) = false := by simpa using fun e => hne e.symm
    simp [St.putModule, this]
  | cons x xs ih =>
    simp only [St.putModule]
    by_cases h : x.name = m.name
    · have h1 : (x.name == n) = false := by rw [h]; simpa using fun e => hne e.symm
      have h2 : (m.name == n) = false := by simpa using fun e => hne e.symm
      simp [h, h2, List.find?]
    · have h' : (x.name == m.name) = false := by simpa using h
      simp only [h', Bool.false_eq_true, if_false, List.find?]
      cases x.name == n <;> simp [ih]

theorem find_name (ms : List Module) (n : Name) (m : Module) (h : ms.find? (·.name == n) = some m) :
    m.name = n := by
  have := List.find?_some h
  simpa using this

namespace St

theorem findModule_name (st : St) (n : Name) (m : Module) (h : st.findModule n = some m) : m.name = n :=
  find_name _ _ _ h

theorem currentModule_name (st : St) : st.currentModule.name = st.current := by
  unfold currentModule
  cases h : st.findModule st.current with
  | none => rfl
  | some m => exact findModule_name st _ m h

end St

/-- a module named `n` exists -/
def HasModule (st : St) (n : Name) : Prop := (st.findModule n).isSome = true

/-- the invariant of C15, without any hypothesis: the current module stays current, every module stays in the table -/
def Keeps' (st st' : St) : Prop :=
  st'.current = st.current ∧ ∀ n, HasModule st n → HasModule st' n

/-- the invariant of C15 as the evaluator keeps it: it needs the current module to exist to begin with
(`load-all` restores the previous module by name) -/
structure Keeps (st st' : St) : Prop where
  keeps : HasModule st st.current → Keeps' st st'

theorem Keeps'.refl (st : St) : Keeps' st st := ⟨rfl, fun _ h => h⟩

theorem Keeps'.trans {a b c : St} (h1 : Keeps' a b) (h2 : Keeps' b c) : Keeps' a c :=
  ⟨h2.1.trans h1.1, fun n h => h2.2 n (h1.2 n h)⟩

theorem Keeps'.keeps {a b : St} (h : Keeps' a b) : Keeps a b := ⟨fun _ => h⟩

theorem Keeps.refl (st : St) : Keeps st st := ⟨fun _ => Keeps'.refl st⟩

theorem Keeps.trans {a b c : St} (h1 : Keeps a b) (h2 : Keeps b c) : Keeps a c := by
  refine ⟨fun ha => ?_⟩
  have hb := h1.keeps ha
  have : HasModule b b.current := by rw [hb.1]; exact hb.2 _ ha
  exact hb.trans (h2.keeps this)

/-- with the current module present to begin with, it is still current and present afterwards -/
theorem Keeps.hasCurrent {a b : St} (h : Keeps a b) (ha : HasModule a a.current) : HasModule b b.current := by
  have hb := h.keeps ha
  rw [hb.1]; exact hb.2 _ ha

/-- same module table and same current module -/
theorem Keeps'.of_eq {st st' : St} (hm : st'.modules = st.modules) (hc : st'.current = st.current) : Keeps' st st' := by
  refine ⟨hc, fun n h => ?_⟩
  unfold HasModule St.findModule at *
  rw [hm]; exact h

theorem hasModule_putModule (ms : List Module) (m : Module) (n : Name)
    (h : (ms.find? (·.name == n)).isSome = true) : ((St.putModule ms m).find? (·.name == n)).isSome = true := by
  by_cases hn : n = m.name
  · subst hn; rw [find_putModule_self]; rfl
  · rw [find_putModule_ne _ _ _ hn]; exact h

namespace St

theorem keeps_updateCurrent (st : St) (f : Module → Module) : Keeps' st (st.updateCurrent f) :=
  ⟨rfl, fun n h => hasModule_putModule _ _ n h⟩

theorem keeps_defineGlobal (st : St) (n : Name) (v : Val) : Keeps' st (st.defineGlobal n v) := keeps_updateCurrent _ _
theorem keeps_undefineGlobal (st : St) (n : Name) : Keeps' st (st.undefineGlobal n) := keeps_updateCurrent _ _
theorem keeps_addExport (st : St) (n : Name) : Keeps' st (st.addExport n) := keeps_updateCurrent _ _

theorem keeps_send (st : St) (msg : List (Name × List Char)) : Keeps' st (st.send msg) := by
  unfold send
  split
  · exact Keeps'.of_eq rfl rfl
  · exact Keeps'.refl _

theorem keeps_write (st : St) (t : List Char) : Keeps' st (st.write t) := Keeps'.of_eq rfl rfl

theorem keeps_readLine (st : St) : Keeps' st st.readLine.2 := by
  unfold readLine
  simp only
  split
  · exact Keeps'.of_eq rfl rfl
  · split <;> exact Keeps'.of_eq rfl rfl

/-- `defineModule` keeps every module present and makes the new one current and present -/
theorem hasModule_defineModule (st : St) (name n : Name) (h : HasModule st n) : HasModule (st.defineModule name) n :=
  hasModule_putModule _ _ n h

theorem defineModule_current (st : St) (name : Name) : (st.defineModule name).current = name := rfl

theorem findModule_defineModule (st : St) (name : Name) :
    (st.defineModule name).findModule name = some ⟨name, [], none⟩ :=
  find_putModule_self st.modules ⟨name, [], none⟩

theorem hasModule_defineModule_self (st : St) (name : Name) : HasModule (st.defineModule name) name := by
  unfold HasModule; rw [findModule_defineModule]; rfl

theorem setCurrentModule_of_hasModule (st : St) (n : Name) (h : HasModule st n) :
    st.setCurrentModule n = some { st with current := n } := by
  unfold HasModule at h
  unfold setCurrentModule
  cases hf : st.findModule n with
  | none => rw [hf] at h; cases h
  | some m => rfl

/-! how `updateCurrent` and `send` act on `findModule` / `currentModule` -/

theorem findModule_of_modules {a b : St} (h : a.modules = b.modules) (n : Name) : a.findModule n = b.findModule n := by
  unfold findModule; rw [h]

theorem currentModule_of_modules {a b : St} (h : a.modules = b.modules) (hc : a.current = b.current) :
    a.currentModule = b.currentModule := by
  unfold currentModule; rw [findModule_of_modules h, hc]

theorem findModule_current (st : St) (h : HasModule st st.current) : st.findModule st.current = some st.currentModule := by
  unfold HasModule at h
  unfold currentModule
  cases hf : st.findModule st.current with
  | none => rw [hf] at h; cases h
  | some m => rfl

theorem findModule_updateCurrent_self (st : St) (f : Module → Module) (hf : (f st.currentModule).name = st.current) :
    (st.updateCurrent f).findModule st.current = some (f st.currentModule) := by
  have := find_putModule_self st.modules (f st.currentModule)
  rw [hf] at this
  exact this

theorem findModule_updateCurrent_ne (st : St) (f : Module → Module) (hf : (f st.currentModule).name = st.current)
    (n : Name) (hne : n ≠ st.current) :
    (st.updateCurrent f).findModule n = st.findModule n :=
  find_putModule_ne st.modules (f st.currentModule) n (by rw [hf]; exact hne)

theorem currentModule_updateCurrent (st : St) (f : Module → Module) (hf : (f st.currentModule).name = st.current) :
    (st.updateCurrent f).currentModule = f st.currentModule := by
  show ((st.updateCurrent f).findModule st.current).getD _ = _
  rw [findModule_updateCurrent_self st f hf]; rfl

theorem send_modules (st : St) (msg : List (Name × List Char)) : (st.send msg).modules = st.modules := by
  unfold send; split <;> rfl

theorem send_current (st : St) (msg : List (Name × List Char)) : (st.send msg).current = st.current := by
  unfold send; split <;> rfl

end St

/-! ### the simple natives and the debugger poll -/

/-- split every `match`/`if` of the goal, beta-reducing the continuations in between -/
macro "splits" : tactic => `(tactic| repeat' first | split | (dsimp only))

theorem exportLoop_keeps (st : St) (ns : List Val) : Keeps' st (exportLoop st ns).2 := by
  induction ns generalizing st with
  | nil => exact Keeps'.refl _
  | cons n ns ih =>
    unfold exportLoop
    split
    · exact (St.keeps_addExport _ _).trans (ih _)
    · exact Keeps'.refl _

theorem arith_keeps (src : Name) (op) (args : List Val) (st : St) : Keeps' st (arith src op args st).2 := by
  unfold arith arity2 asNumber
  splits
  all_goals exact Keeps'.refl _

theorem inputStdin_keeps (n : Nat) (st : St) : Keeps' st (inputStdin n st).2 := by
  obtain ⟨buf, chunks, inbox, h⟩ := inputStdin_frame n st
  rw [h]
  exact Keeps'.of_eq rfl rfl

theorem compare_keeps (src : Name) (op) (args : List Val) (st : St) : Keeps' st (compare src op args st).2 := by
  unfold compare arity2 asNumber
  splits
  all_goals exact Keeps'.refl _

theorem divide_keeps (args : List Val) (st : St) : Keeps' st (divideNative args st).2 := by
  unfold divideNative arity2 asNumber
  splits
  all_goals exact Keeps'.refl _

theorem simpleNative_keeps (id : NativeId) (args : List Val) (d : Nat) (st : St) :
    Keeps' st (simpleNative id args d st).2 := by
  cases id
  all_goals
    simp only [simpleNative]
    try unfold arity0
    try unfold arity1
    try unfold arity2
    try unfold arity3
    try unfold asList
    try unfold asSymbol
    try unfold asString
    splits
  all_goals first
    | exact Keeps'.refl _
    | exact arith_keeps ..
    | exact compare_keeps ..
    | exact divide_keeps ..
    | exact exportLoop_keeps ..
    | exact St.keeps_send ..
    | exact St.keeps_write ..
    | exact (St.keeps_defineGlobal ..).trans (St.keeps_send ..)
    | exact St.keeps_defineGlobal ..
    | exact (St.keeps_undefineGlobal ..).trans (St.keeps_send ..)
    | exact inputStdin_keeps ..

theorem pollDebugger_keeps (st : St) : Keeps' st (pollDebugger st).2 := by
  unfold pollDebugger
  splits
  all_goals exact Keeps'.of_eq rfl rfl

theorem pollDebugger_keeps_eq {st st' : St} {r} (h : pollDebugger st = (r, st')) : Keeps st st' := by
  have := pollDebugger_keeps st; rw [h] at this; exact this.keeps

/-! ### no native and no reader crash is the panic of `load-all` -/

/-- the message of the `unwrap` on `set_current_module(&old_module)` in `load-all` -/
abbrev panicMsg : List Char := cs!"load-all: the previous module no longer exists"

theorem ite_ne {α : Type} {c : Prop} [Decidable c] {a b x : α} (ha : c → a ≠ x) (hb : ¬c → b ≠ x) :
    (if c then a else b) ≠ x := by
  split
  · exact ha ‹_›
  · exact hb ‹_›

theorem finish_noPanic (items : List (Char × Val)) (tail : Tail) (loc : Loc) (rest : Rest)
    (ih : ∀ (status : TokStatus) (buf : List Char) (begin : Loc),
      tokLoop items tail loc status buf begin ≠ .err (.crash panicMsg))
    (status : TokStatus) (buf : List Char) (begin : Loc) :
    (if buf ≠ [] then
        match atomEnding items tail with
        | none       => TokOut.err .invalidString
        | some false => tokLoop items tail loc status buf begin
        | some true  =>
          match status with
          | .character =>
            match buildCharacter buf.reverse with
            | .ok c      => .token (.character c) begin rest items loc
            | .error msg => .err (.error msg loc rest)
          | .number =>
            match buildNumber buf.reverse with
            | .ok n      => .token (.number n) begin rest items loc
            | .error msg => .err (.error msg loc rest)
          | .symbol | .symbolOrNumber => .token (.symbol buf.reverse) begin rest items loc
          | .stringNormal | .stringEscape => tokLoop items tail loc status buf begin
          | .whiteSpace | .comment => .err (.crash cs!"read: unreachable token status")
      else tokLoop items tail loc status buf begin) ≠ .err (.crash panicMsg) := by
  splits
  all_goals first
    | exact ih _ _ _
    | (intro h; cases h; done)
    | simp

theorem tokLoop_noPanic (items : List (Char × Val)) : ∀ (tail : Tail) (loc : Loc) (status : TokStatus) (buf : List Char) (begin : Loc),
    tokLoop items tail loc status buf begin ≠ .err (.crash panicMsg) := by
  induction items with
  | nil =>
    intro tail loc status buf begin
    unfold tokLoop
    splits
    all_goals (intro h; cases h)
  | cons p items ih =>
    obtain ⟨ch, r⟩ := p
    intro tail loc status buf begin
    rw [tokLoop]
    repeat' first
      | exact ih _ _ _ _ _
      | exact finish_noPanic items tail (loc.step ch) ⟨r, (loc.step ch).line, (loc.step ch).col + 1⟩ (ih tail _) _ _ _
      | refine ite_ne (fun _ => ?_) (fun _ => ?_)
    all_goals (intro h; cases h; done)

theorem readLoop_noPanic (fuel : Nat) : ∀ (items : List (Char × Val)) (tail : Tail) (loc : Loc)
    (stack : List (List Val × Bool)) (quoted : Bool),
    readLoop fuel items tail loc stack quoted ≠ .error (.crash panicMsg) := by
  induction fuel with
  | zero => intro items tail loc stack quoted; rw [readLoop]; simp
  | succ fuel ih =>
    intro items tail loc stack quoted
    rw [readLoop]
    splits
    all_goals first
      | exact ih _ _ _ _ _
      | (intro h; cases h; done)
      | (intro h; injection h with h; subst h; exact tokLoop_noPanic _ _ _ _ _ _ ‹_›)
      | simp

theorem readInternal_noPanic (input : Val) (loc : Loc) : readInternal input loc ≠ .error (.crash panicMsg) := by
  unfold readInternal
  exact readLoop_noPanic _ _ _ _ _ _

theorem readCore_noPanic (args : List Val) (d : Nat) : readCore args d ≠ .crash panicMsg := by
  unfold readCore
  splits
  all_goals first
    | (intro h; cases h; done)
    | (intro h; injection h with h; subst h; exact readInternal_noPanic _ _ ‹_›)

theorem readNative_noPanic (args : List Val) (d : Nat) : readNative args d ≠ .crash panicMsg := by
  unfold readNative
  splits
  all_goals first
    | (intro h; cases h; done)
    | (intro h; injection h with h; subst h; exact readCore_noPanic _ _ ‹_›)

theorem printNative_noPanic (args : List Val) (d : Nat) : printNative args d ≠ .crash panicMsg := by
  unfold printNative
  splits
  all_goals first
    | (intro h; cases h; done)
    | skip
  rename_i s h
  revert h
  unfold printText
  splits
  all_goals (intro h; cases h; done)

theorem exportLoop_noPanic (st : St) (ns : List Val) : (exportLoop st ns).1 ≠ .crash panicMsg := by
  induction ns generalizing st with
  | nil => intro h; cases h
  | cons n ns ih =>
    unfold exportLoop
    split
    · exact ih _
    · intro h; cases h

theorem arith_noPanic (src : Name) (op) (args : List Val) (st : St) : (arith src op args st).1 ≠ .crash panicMsg := by
  unfold arith arity2 asNumber
  splits
  all_goals (intro h; cases h; done)

theorem compare_noPanic (src : Name) (op) (args : List Val) (st : St) : (compare src op args st).1 ≠ .crash panicMsg := by
  unfold compare arity2 asNumber
  splits
  all_goals (intro h; cases h; done)

theorem divide_noPanic (args : List Val) (st : St) : (divideNative args st).1 ≠ .crash panicMsg := by
  unfold divideNative arity2 asNumber
  splits
  all_goals (intro h; cases h; done)

theorem simpleNative_noPanic (id : NativeId) (args : List Val) (d : Nat) (st : St) :
    (simpleNative id args d st).1 ≠ .crash panicMsg := by
  cases id
  all_goals
    simp only [simpleNative]
    try unfold arity0
    try unfold arity1
    try unfold arity2
    try unfold arity3
    try unfold asList
    try unfold asSymbol
    try unfold asString
    splits
  all_goals first
    | (intro h; cases h; done)
    | exact arith_noPanic _ _ _ _
    | exact compare_noPanic _ _ _ _
    | exact divide_noPanic _ _
    | exact exportLoop_noPanic _ _
    | exact readNative_noPanic _ _
    | exact printNative_noPanic _ _
    | exact inputStdin_noCrash _ _ _
    | simp


theorem Res.ok_ne_crash {α : Type} (a : α) (s : List Char) : (Res.ok a : Res α) ≠ .crash s := fun h => by cases h
theorem Res.err_ne_crash {α : Type} (e : Val) (s : List Char) : (Res.err e : Res α) ≠ .crash s := fun h => by cases h
theorem Res.outOfFuel_ne_crash {α : Type} (s : List Char) : (Res.outOfFuel : Res α) ≠ .crash s := fun h => by cases h

theorem makeFunctionInternal_noCrash (args : List Val) (env : Val) (mod src : Name) (kind : Kind) (s : List Char) :
    makeFunctionInternal args env mod src kind ≠ .crash s := by
  unfold makeFunctionInternal
  splits
  all_goals (intro h; cases h; done)

theorem pairParamsAndArgs_noCrash (rest params env : Val) (name : Option Name) (args : List Val) (s : List Char) :
    pairParamsAndArgs rest params env name args ≠ .crash s := by
  unfold pairParamsAndArgs
  splits
  all_goals (intro h; cases h; done)

theorem pollDebugger_noCrash {st st' : St} {r : Res Val} (h : pollDebugger st = (some r, st')) (s : List Char) :
    r ≠ .crash s := by
  revert h
  unfold pollDebugger
  splits
  all_goals (intro h; cases h <;> (intro h; cases h))

/-! ### the evaluator: the invariant for all seven mutually recursive functions at a given fuel -/

/-- what every call keeps, started in a state whose current module exists: the current module, the presence
of every module, and it does not end in the panic of `load-all` -/
structure Good {α : Type} (st : St) (out : Res α × St) : Prop where
  good : HasModule st st.current → Keeps' st out.2 ∧ out.1 ≠ .crash panicMsg

theorem Good.keeps {α : Type} {st : St} {out : Res α × St} (h : Good st out) : Keeps st out.2 :=
  ⟨fun hc => (h.good hc).1⟩

theorem Good.bind {α : Type} {st st1 : St} {out : Res α × St} (h1 : Keeps st st1) (h2 : Good st1 out) : Good st out := by
  refine ⟨fun hc => ?_⟩
  have h := h2.good (h1.hasCurrent hc)
  exact ⟨(h1.keeps hc).trans h.1, h.2⟩

theorem Good.pure {α : Type} {st : St} {r : Res α} (hr : r ≠ .crash panicMsg) : Good st (r, st) :=
  ⟨fun _ => ⟨Keeps'.refl _, hr⟩⟩

theorem Good.of_keeps' {α : Type} {st st' : St} {r : Res α} (hk : Keeps' st st') (hr : r ≠ .crash panicMsg) :
    Good st (r, st') :=
  ⟨fun _ => ⟨hk, hr⟩⟩

/-- a crash passed on unchanged, possibly at another result type -/
theorem Good.crash_cast {α β : Type} {st st' : St} {s : List Char} (h : Good (α := α) st (.crash s, st')) :
    Good (α := β) st (.crash s, st') :=
  ⟨fun hc => ⟨(h.good hc).1, fun he => (h.good hc).2 (by injection he with he; rw [he])⟩⟩

theorem simpleNative_good (id : NativeId) (args : List Val) (d : Nat) (st : St) : Good st (simpleNative id args d st) :=
  ⟨fun _ => ⟨simpleNative_keeps id args d st, simpleNative_noPanic id args d st⟩⟩

theorem pollDebugger_good {st st' : St} {r : Res Val} (h : pollDebugger st = (some r, st')) : Good st (r, st') :=
  ⟨fun hc => ⟨(pollDebugger_keeps_eq h).keeps hc, pollDebugger_noCrash h _⟩⟩

theorem readCore_crash_good {st : St} {args : List Val} {d : Nat} {s : List Char} (h : readCore args d = .crash s) :
    Good (α := Unit) st (.crash s, st) :=
  Good.pure (fun he => readCore_noPanic args d (by rw [h]; injection he with he; rw [he]))

structure GoodAll (fuel : Nat) : Prop where
  eval : ∀ st e env mod d, Good st (evalInternal fuel st e env mod d)
  args : ∀ st xs env mod d, Good st (evalArgs fuel st xs env mod d)
  expand : ∀ st e env mod d ch, Good st (expandInternal fuel st e env mod d ch).1
  expandArgs : ∀ st xs env mod d ch, Good st (expandArgs fuel st xs env mod d ch).1
  complete : ∀ st e env mod d, Good st (expandCompletely fuel st e env mod d)
  native : ∀ st id args env d, Good st (applyNative fuel st id args env d)
  load : ∀ st c s l col d, Good st (loadForms fuel st c s l col d)

namespace GoodAll
variable {fuel : Nat} (ih : GoodAll fuel)
include ih

theorem eval_out {st e env mod d out} (h : evalInternal fuel st e env mod d = out) : Good st out := by
  rw [← h]; exact ih.eval st e env mod d
theorem args_out {st xs env mod d out} (h : evalArgs fuel st xs env mod d = out) : Good st out := by
  rw [← h]; exact ih.args st xs env mod d
theorem expand_out {st e env mod d ch out ch'} (h : expandInternal fuel st e env mod d ch = (out, ch')) : Good st out := by
  have := ih.expand st e env mod d ch; rw [h] at this; exact this
theorem expandArgs_out {st xs env mod d ch out ch'} (h : Pici.expandArgs fuel st xs env mod d ch = (out, ch')) : Good st out := by
  have := ih.expandArgs st xs env mod d ch; rw [h] at this; exact this
theorem complete_out {st e env mod d out} (h : expandCompletely fuel st e env mod d = out) : Good st out := by
  rw [← h]; exact ih.complete st e env mod d
theorem native_out {st id args env d out} (h : applyNative fuel st id args env d = out) : Good st out := by
  rw [← h]; exact ih.native st id args env d
theorem load_out {st c s l col d out} (h : loadForms fuel st c s l col d = out) : Good st out := by
  rw [← h]; exact ih.load st c s l col d

theorem eval_eq {st e env mod d r st'} (h : evalInternal fuel st e env mod d = (r, st')) : Keeps st st' :=
  (ih.eval_out h).keeps
theorem args_eq {st xs env mod d r st'} (h : evalArgs fuel st xs env mod d = (r, st')) : Keeps st st' :=
  (ih.args_out h).keeps
theorem expand_eq {st e env mod d ch r st' ch'} (h : expandInternal fuel st e env mod d ch = ((r, st'), ch')) : Keeps st st' :=
  (ih.expand_out h).keeps
theorem expandArgs_eq {st xs env mod d ch r st' ch'} (h : Pici.expandArgs fuel st xs env mod d ch = ((r, st'), ch')) : Keeps st st' :=
  (ih.expandArgs_out h).keeps
theorem complete_eq {st e env mod d r st'} (h : expandCompletely fuel st e env mod d = (r, st')) : Keeps st st' :=
  (ih.complete_out h).keeps
theorem native_eq {st id args env d r st'} (h : applyNative fuel st id args env d = (r, st')) : Keeps st st' :=
  (ih.native_out h).keeps
theorem load_eq {st c s l col d r st'} (h : loadForms fuel st c s l col d = (r, st')) : Keeps st st' :=
  (ih.load_out h).keeps
end GoodAll

/-- close a goal `Keeps st₀ stₖ` where `stₖ` is reached from `st₀` through calls recorded in the context -/
syntax "keeps_chain " ident : tactic
macro_rules
  | `(tactic| keeps_chain $ih) => `(tactic| first
      | exact Keeps.refl _
      | (refine Keeps.trans ?_ (GoodAll.eval_eq $ih (by assumption)); keeps_chain $ih)
      | (refine Keeps.trans ?_ (GoodAll.args_eq $ih (by assumption)); keeps_chain $ih)
      | (refine Keeps.trans ?_ (GoodAll.expand_eq $ih (by assumption)); keeps_chain $ih)
      | (refine Keeps.trans ?_ (GoodAll.expandArgs_eq $ih (by assumption)); keeps_chain $ih)
      | (refine Keeps.trans ?_ (GoodAll.complete_eq $ih (by assumption)); keeps_chain $ih)
      | (refine Keeps.trans ?_ (GoodAll.native_eq $ih (by assumption)); keeps_chain $ih)
      | (refine Keeps.trans ?_ (GoodAll.load_eq $ih (by assumption)); keeps_chain $ih)
      | (refine Keeps.trans ?_ (pollDebugger_keeps_eq (by assumption)); keeps_chain $ih))

/-- close a goal `Good st₀ out` where `out` is a tail call, the outcome of a recorded call, or a plain result
in a state reached from `st₀` through calls recorded in the context -/
syntax "good_chain " ident : tactic
macro_rules
  | `(tactic| good_chain $ih) => `(tactic| first
      | (refine Good.bind ?_ (Good.pure (Res.ok_ne_crash _ _)); keeps_chain $ih)
      | (refine Good.bind ?_ (Good.pure (Res.err_ne_crash _ _)); keeps_chain $ih)
      | (refine Good.bind ?_ (Good.pure (Res.outOfFuel_ne_crash _)); keeps_chain $ih)
      | (refine Good.bind ?_ (GoodAll.eval $ih _ _ _ _ _); keeps_chain $ih)
      | (refine Good.bind ?_ (GoodAll.args $ih _ _ _ _ _); keeps_chain $ih)
      | (refine Good.bind ?_ (GoodAll.expand $ih _ _ _ _ _ _); keeps_chain $ih)
      | (refine Good.bind ?_ (GoodAll.expandArgs $ih _ _ _ _ _ _); keeps_chain $ih)
      | (refine Good.bind ?_ (GoodAll.complete $ih _ _ _ _ _); keeps_chain $ih)
      | (refine Good.bind ?_ (GoodAll.native $ih _ _ _ _ _); keeps_chain $ih)
      | (refine Good.bind ?_ (GoodAll.load $ih _ _ _ _ _ _); keeps_chain $ih)
      | (refine Good.bind ?_ (Good.crash_cast (GoodAll.eval_out $ih (by assumption))); keeps_chain $ih)
      | (refine Good.bind ?_ (Good.crash_cast (GoodAll.args_out $ih (by assumption))); keeps_chain $ih)
      | (refine Good.bind ?_ (Good.crash_cast (GoodAll.expand_out $ih (by assumption))); keeps_chain $ih)
      | (refine Good.bind ?_ (Good.crash_cast (GoodAll.expandArgs_out $ih (by assumption))); keeps_chain $ih)
      | (refine Good.bind ?_ (Good.crash_cast (GoodAll.complete_out $ih (by assumption))); keeps_chain $ih)
      | (refine Good.bind ?_ (Good.crash_cast (GoodAll.native_out $ih (by assumption))); keeps_chain $ih)
      | (refine Good.bind ?_ (Good.crash_cast (GoodAll.load_out $ih (by assumption))); keeps_chain $ih)
      | (refine Good.bind ?_ (Good.pure (makeFunctionInternal_noCrash _ _ _ _ _ _)); keeps_chain $ih)
      | (refine Good.bind ?_ (pollDebugger_good (by assumption)); keeps_chain $ih)
      | (refine Good.bind ?_ (readCore_crash_good (by assumption)); keeps_chain $ih)
      | (exfalso; exact pairParamsAndArgs_noCrash _ _ _ _ _ _ (by assumption)))

/-! ### one unfolding of each function, given the invariant at the fuel below -/

theorem evalInternal_step {fuel : Nat} (ih : GoodAll fuel) (st e env mod d) :
    Good st (evalInternal (fuel + 1) st e env mod d) := by
  rw [evalInternal]
  unfold arity1 arity2 arity3
  splits
  all_goals good_chain ih

theorem evalArgs_step {fuel : Nat} (ih : GoodAll fuel) (st xs env mod d) :
    Good st (evalArgs (fuel + 1) st xs env mod d) := by
  cases xs with
  | nil => rw [evalArgs]; good_chain ih
  | cons x xs =>
    rw [evalArgs]
    splits
    all_goals good_chain ih

theorem expandInternal_step {fuel : Nat} (ih : GoodAll fuel) (st e env mod d ch) :
    Good st (expandInternal (fuel + 1) st e env mod d ch).1 := by
  rw [expandInternal]
  splits
  all_goals good_chain ih

theorem expandArgs_step {fuel : Nat} (ih : GoodAll fuel) (st xs env mod d ch) :
    Good st (expandArgs (fuel + 1) st xs env mod d ch).1 := by
  cases xs with
  | nil => rw [expandArgs]; good_chain ih
  | cons x xs =>
    rw [expandArgs]
    splits
    all_goals good_chain ih

theorem expandCompletely_step {fuel : Nat} (ih : GoodAll fuel) (st e env mod d) :
    Good st (expandCompletely (fuel + 1) st e env mod d) := by
  rw [expandCompletely]
  splits
  all_goals good_chain ih

theorem loadForms_step {fuel : Nat} (ih : GoodAll fuel) (st c s l col d) :
    Good st (loadForms (fuel + 1) st c s l col d) := by
  rw [loadForms]
  splits
  all_goals good_chain ih

theorem keeps'_setCurrent (st st2 : St) (h : ∀ n, HasModule st n → HasModule st2 n) :
    Keeps' st { st2 with current := st.current } :=
  ⟨rfl, fun n hn => h n hn⟩

/-- after the forms: the previous module still exists, so `set_current_module` succeeds and restores it -/
theorem loadAll_tail (st st1 st2 : St) (hmono : ∀ n, HasModule st n → HasModule st1 n)
    (hcur : HasModule st st.current) (h12 : Keeps' st1 st2) :
    st2.setCurrentModule st.current = some { st2 with current := st.current } ∧
      Keeps' st { st2 with current := st.current } := by
  have hmono2 : ∀ n, HasModule st n → HasModule st2 n := fun n hn => h12.2 n (hmono n hn)
  exact ⟨St.setCurrentModule_of_hasModule _ _ (hmono2 _ hcur), keeps'_setCurrent st st2 hmono2⟩

theorem loadAll_step {fuel : Nat} (ih : GoodAll fuel) (st args env d) :
    Good st (applyNative (fuel + 1) st .loadAll args env d) := by
  rw [applyNative]
  unfold arity2 asString
  split
  · dsimp only
    split
    · refine ⟨fun hcur => ?_⟩
      rename_i input source _ _ _
      cases hsrc : listToString source with
      | none =>
        dsimp only
        have hl := (ih.load st input source 1 1 d).good hcur
        have ht := loadAll_tail st st _ (fun _ h => h) hcur hl.1
        rw [ht.1]
        dsimp only
        split
        all_goals first
          | exact ⟨ht.2, Res.ok_ne_crash _ _⟩
          | exact ⟨ht.2, Res.err_ne_crash _ _⟩
          | exact ⟨ht.2, Res.outOfFuel_ne_crash _⟩
          | exact ⟨ht.2, fun h => hl.2 (by rw [‹(loadForms fuel _ _ _ _ _ _).1 = _›]; injection h with h; rw [h])⟩
      | some s =>
        dsimp only
        have hl := (ih.load (st.defineModule s) input source 1 1 d).good (St.hasModule_defineModule_self _ _)
        have ht := loadAll_tail st _ _ (fun n h => St.hasModule_defineModule st s n h) hcur hl.1
        rw [ht.1]
        dsimp only
        split
        all_goals first
          | exact ⟨ht.2, Res.ok_ne_crash _ _⟩
          | exact ⟨ht.2, Res.err_ne_crash _ _⟩
          | exact ⟨ht.2, Res.outOfFuel_ne_crash _⟩
          | exact ⟨ht.2, fun h => hl.2 (by rw [‹(loadForms fuel _ _ _ _ _ _).1 = _›]; injection h with h; rw [h])⟩
    · good_chain ih
  · good_chain ih

theorem applyNative_step {fuel : Nat} (ih : GoodAll fuel) (st id args env d) :
    Good st (applyNative (fuel + 1) st id args env d) := by
  cases id
  case loadAll => exact loadAll_step ih st args env d
  case eval =>
    rw [applyNative]; unfold arity1; splits
    all_goals good_chain ih
  case macroexpand =>
    rw [applyNative]; unfold arity1; splits
    all_goals good_chain ih
  case callNativeFunction =>
    rw [applyNative]; unfold arity3 asList; splits
    all_goals good_chain ih
  case makeFunction =>
    unfold applyNative; dsimp only; unfold asList asSymbol; splits
    all_goals good_chain ih
  all_goals
    rw [applyNative] <;> try (intro h; cases h)
    exact simpleNative_good _ _ _ _

/-- the invariant for all seven functions of the mutual recursion, at every fuel -/
theorem goodAll : ∀ fuel, GoodAll fuel
  | 0 =>
    { eval := fun st e env mod d => by rw [evalInternal]; exact Good.pure (by intro h; cases h)
      args := fun st xs env mod d => by rw [evalArgs]; exact Good.pure (by intro h; cases h)
      expand := fun st e env mod d ch => by rw [expandInternal]; exact Good.pure (by intro h; cases h)
      expandArgs := fun st xs env mod d ch => by rw [expandArgs]; exact Good.pure (by intro h; cases h)
      complete := fun st e env mod d => by rw [expandCompletely]; exact Good.pure (by intro h; cases h)
      native := fun st id args env d => by rw [applyNative]; exact Good.pure (by intro h; cases h)
      load := fun st c s l col d => by rw [loadForms]; exact Good.pure (by intro h; cases h) }
  | fuel + 1 =>
    have ih := goodAll fuel
    { eval := evalInternal_step ih
      args := evalArgs_step ih
      expand := expandInternal_step ih
      expandArgs := expandArgs_step ih
      complete := expandCompletely_step ih
      native := applyNative_step ih
      load := loadForms_step ih }

end Pici
