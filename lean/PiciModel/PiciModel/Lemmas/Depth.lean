/-
Helper lemmas for Props/C07: one-step unfoldings of the evaluator (`evalInternal`, `evalArgs`, `applyNative`) on the
shapes of expression a tail-recursive loop is made of — a symbol, a number, a `quote` form, an application of a native
function — and the arithmetic of counting down by one.  Every lemma consumes exactly one level of fuel of the function
it unfolds, so that the fuel bookkeeping of a composite evaluation is explicit.
-/
import PiciModel.Model.Eval
import PiciModel.Lemmas.Numbers

namespace Pici

/-- without a debugger attached the poll only counts the step -/
theorem pollDebugger_detached (st : St) (h : st.attached = false) :
    pollDebugger st = (none, { st with steps := st.steps + 1 }) := by
  simp [pollDebugger, h]

/-- a symbol evaluates to what `lookup` finds -/
theorem evalInternal_sym (fuel : Nat) (st st1 : St) (s : Sym) (env : Val) (mod : Name) (d : Nat) (v : Val)
    (hd : d ≤ Config.maxRecursionDepth) (hpoll : pollDebugger st = (none, st1))
    (hl : lookup st1 s env mod = .found v) :
    evalInternal (fuel + 1) st (.sym s) env mod d = (.ok v, st1) := by
  rw [evalInternal, if_neg (Nat.not_lt.mpr hd), hpoll]
  simp only [listToVec, Val.get, hl]

/-- a number evaluates to itself -/
theorem evalInternal_num (fuel : Nat) (st st1 : St) (k : Int) (env : Val) (mod : Name) (d : Nat)
    (hd : d ≤ Config.maxRecursionDepth) (hpoll : pollDebugger st = (none, st1)) :
    evalInternal (fuel + 1) st (.num k) env mod d = (.ok (.num k), st1) := by
  rw [evalInternal, if_neg (Nat.not_lt.mpr hd), hpoll]
  simp only [listToVec, Val.get]

theorem evalArgs_nil (fuel : Nat) (st : St) (env : Val) (mod : Name) (d : Nat) :
    evalArgs (fuel + 1) st [] env mod d = (.ok [], st) := by
  rw [evalArgs]

/-- operands are evaluated one level below the application, left to right -/
theorem evalArgs_cons (fuel : Nat) (st st1 st2 : St) (x : Val) (xs : List Val) (env : Val) (mod : Name) (d : Nat)
    (v : Val) (vs : List Val)
    (hx : evalInternal fuel st x env mod (d + 1) = (.ok v, st1))
    (hxs : evalArgs fuel st1 xs env mod d = (.ok vs, st2)) :
    evalArgs (fuel + 1) st (x :: xs) env mod d = (.ok (v :: vs), st2) := by
  rw [evalArgs, hx]; simp only [hxs]

/-- `(quote x)` -/
theorem evalInternal_quote (fuel : Nat) (st st1 : St) (e first x : Val) (env : Val) (mod : Name) (d : Nat)
    (hl : listToVec e = some [first, x]) (hlam : first.isSymNamed cs!"lambda" = false)
    (hq : first.isSymNamed cs!"quote" = true)
    (hd : d ≤ Config.maxRecursionDepth) (hpoll : pollDebugger st = (none, st1)) :
    evalInternal (fuel + 1) st e env mod d = (.ok x, st1) := by
  rw [evalInternal, if_neg (Nat.not_lt.mpr hd), hpoll]
  simp only [hl, hlam, hq, arity1]
  simp

/-- an application of a native other than `eval`: the native is called one level below the application -/
theorem evalInternal_native (fuel : Nat) (st st1 st2 st3 : St) (e first : Val) (operands : List Val) (env : Val)
    (mod : Name) (d : Nat) (operator : Val) (id : NativeId) (args : List Val)
    (hl : listToVec e = some (first :: operands)) (hlam : first.isSymNamed cs!"lambda" = false)
    (hq : first.isSymNamed cs!"quote" = false) (hif : first.isSymNamed cs!"if" = false)
    (htrap : first.isSymNamed cs!"trap" = false)
    (hd : d ≤ Config.maxRecursionDepth) (hpoll : pollDebugger st = (none, st1))
    (hop : evalInternal fuel st1 first env mod (d + 1) = (.ok operator, st2))
    (hf : operator.get = .native id) (hid : id ≠ .eval)
    (hargs : evalArgs fuel st2 operands env mod d = (.ok args, st3)) :
    evalInternal (fuel + 1) st e env mod d = applyNative fuel st3 id args env (d + 1) := by
  rw [evalInternal, if_neg (Nat.not_lt.mpr hd), hpoll]
  simp only [hl, hif, hlam, hq, htrap, hop, hf, hargs]
  simp [hid]

theorem applyNative_equal (fuel : Nat) (st : St) (x y env : Val) (d : Nat) :
    applyNative (fuel + 1) st .equal [x, y] env d =
      (.ok (if equalInternal x y then .symName cs!"t" else .nil), st) := by
  simp [applyNative, simpleNative, arity2]

theorem applyNative_substract (fuel : Nat) (st : St) (args : List Val) (env : Val) (d : Nat) :
    applyNative (fuel + 1) st .substract args env d = arith cs!"substract" checkedSub args st := by
  simp [applyNative, simpleNative]

/-- counting down by one from a positive `i64` never overflows -/
theorem substract_succ_one (fuel : Nat) (st : St) (k : Nat) (hk : ((k + 1 : Nat) : Int) ≤ i64Max) (env : Val) (d : Nat) :
    applyNative (fuel + 1) st .substract [.num ((k + 1 : Nat) : Int), .num 1] env d = (.ok (.num (k : Int)), st) := by
  have hx : inRange ((k + 1 : Nat) : Int) = true := by rw [inRange_iff]; unfold i64Max at hk; omega
  have h1 : inRange 1 = true := by rw [inRange_iff]; omega
  have hr : inRange (((k + 1 : Nat) : Int) - 1) = true := by rw [inRange_iff]; unfold i64Max at hk; omega
  have hsub := checkedSub_toI64 _ 1 hx h1
  have ha : (Val.num ((k + 1 : Nat) : Int)).get = .num ((k + 1 : Nat) : Int) := rfl
  have hb : (Val.num 1).get = .num 1 := rfl
  rw [applyNative_substract, arith_exact cs!"substract" checkedSub (· - ·) _ _ _ _ st ha hb hsub]
  have hk' : ((k + 1 : Nat) : Int) - 1 = (k : Int) := by omega
  rw [if_pos hr, hk']

end Pici
