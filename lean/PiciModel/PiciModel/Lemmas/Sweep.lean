/-
Helper lemmas for `Props/HeapSweep.lean`: one step of the sweep loop (`Array.swapIfInBounds` on a duplicate-free
vector), the specification of `sweepLoop` by induction on its fuel, the two cases of `shrink`.
-/
import PiciModel.Spec.HeapSpec
namespace Pici.Heap

theorem mem_take_toList {xs : Array Addr} {k : Nat} {a : Addr} :
    a ∈ xs.toList.take k ↔ ∃ (j : Nat) (hj : j < xs.size), j < k ∧ xs[j] = a := by
  rw [List.mem_take_iff_getElem]
  constructor
  · rintro ⟨j, hm, rfl⟩
    have : j < xs.size := by simp at hm; omega
    exact ⟨j, this, by omega, by simp⟩
  · rintro ⟨j, hj, hk, rfl⟩
    exact ⟨j, by simp; omega, by simp⟩

theorem arr_inj {xs : Array Addr} (hnd : xs.toList.Nodup) {i j : Nat} (hi : i < xs.size) (hj : j < xs.size)
    (h : xs[i] = xs[j]) : i = j := by
  have := (List.getElem_inj (xs := xs.toList) (h₀ := by simpa using hi) (h₁ := by simpa using hj) hnd).1 (by simpa using h)
  exact this

theorem swapIfInBounds_perm (xs : Array Addr) (i j : Nat) : (xs.swapIfInBounds i j).toList.Perm xs.toList := by
  rw [Array.swapIfInBounds_def]
  split
  · split
    · exact Array.perm_iff_toList_perm.1 (Array.swap_perm _ _)
    · exact List.Perm.refl _
  · exact List.Perm.refl _

theorem swap_step (xs : Array Addr) (i ff : Nat) (hi : i < ff) (hff : ff ≤ xs.size) (hnd : xs.toList.Nodup) :
    (xs.swapIfInBounds i (ff - 1)).toList.take i = xs.toList.take i ∧
    (∀ a, a ∈ (xs.swapIfInBounds i (ff - 1)).toList.take (ff - 1) ↔ a ∈ xs.toList.take ff ∧ a ≠ xs.getD i 0) ∧
    xs.getD i 0 ∉ xs.toList.take i ∧ xs.getD i 0 ∈ xs.toList.take ff := by
  have his : i < xs.size := by omega
  have hx : xs.getD i 0 = xs[i] := by simp [Array.getD, his]
  rw [hx]
  refine ⟨?_, ?_, ?_, ?_⟩
  · apply List.ext_getElem
    · simp
    · intro k h1 h2
      simp at h1 h2
      simp [Array.getElem_swapIfInBounds]
      have : k ≠ i := by omega
      have : k ≠ ff - 1 := by omega
      simp [*]
  · intro a
    simp only [mem_take_toList, Array.size_swapIfInBounds]
    constructor
    · rintro ⟨j, hj, hjk, rfl⟩
      by_cases hji : j = i
      · subst hji
        have h2 : ff - 1 < xs.size := by omega
        have e : (xs.swapIfInBounds j (ff - 1))[j]'(by simpa using hj) = xs[ff - 1] := by
          rw [Array.getElem_swapIfInBounds]; simp [h2]
        rw [e]
        refine ⟨⟨ff - 1, h2, by omega, rfl⟩, ?_⟩
        intro h
        have := arr_inj hnd _ _ h
        omega
      · have hjl : j ≠ ff - 1 := by omega
        have e : (xs.swapIfInBounds i (ff - 1))[j]'(by simpa using hj) = xs[j] := by
          rw [Array.getElem_swapIfInBounds]; simp [hji, hjl]
        rw [e]
        refine ⟨⟨j, hj, by omega, rfl⟩, ?_⟩
        intro h
        exact hji (arr_inj hnd _ _ h)
    · rintro ⟨⟨j, hj, hjk, rfl⟩, hne⟩
      have hji : j ≠ i := by rintro rfl; exact hne rfl
      by_cases hjl : j = ff - 1
      · refine ⟨i, his, by omega, ?_⟩
        rw [Array.getElem_swapIfInBounds]
        have h2 : ff - 1 < xs.size := by omega
        simp [h2, hjl]
      · refine ⟨j, hj, by omega, ?_⟩
        rw [Array.getElem_swapIfInBounds]
        simp [*]
  · rw [mem_take_toList]
    rintro ⟨j, hj, hji, h⟩
    have := arr_inj hnd _ _ h
    omega
  · rw [mem_take_toList]
    exact ⟨i, his, hi, rfl⟩


theorem sweepLoop_succ (R : List Addr) (n i : Nat) (h : Heap) :
    sweepLoop R (n + 1) i h =
      if R.contains (h.order.getD i 0) then sweepLoop R n (i + 1) h
      else sweepLoop R n i
        { h with
          symtab := (match (h.cell (h.order.getD i 0)).content with
            | .sym (some name) _ => removeSym h.symtab name
            | _ => h.symtab),
          order := h.order.swapIfInBounds i (h.firstFree - 1),
          firstFree := h.firstFree - 1 } := rfl

theorem sweepLoop_store (R : List Addr) : ∀ n i h,
    (sweepLoop R n i h).store = h.store ∧ (sweepLoop R n i h).globals = h.globals := by
  intro n
  induction n with
  | zero => intro i h; simp [sweepLoop]
  | succ n ih =>
    intro i h
    simp only [sweepLoop]
    split
    · exact ih _ _
    · exact ih _ _

theorem sweepLoop_perm (R : List Addr) : ∀ n i h,
    (sweepLoop R n i h).order.toList.Perm h.order.toList ∧ (sweepLoop R n i h).firstFree ≤ h.firstFree := by
  intro n
  induction n with
  | zero => intro i h; simp [sweepLoop]
  | succ n ih =>
    intro i h
    simp only [sweepLoop]
    split
    · exact ih _ _
    · refine ⟨(ih _ _).1.trans (swapIfInBounds_perm _ _ _), Nat.le_trans (ih _ _).2 (Nat.sub_le _ _)⟩

theorem cell_congr {h h' : Heap} (e : h'.store = h.store) (a : Addr) : h'.cell a = h.cell a := by
  simp [cell, e]

theorem sweepLoop_spec (R : List Addr) : ∀ n i h, i + n = h.firstFree → h.firstFree ≤ h.order.size →
    h.order.toList.Nodup →
    (∀ a, a ∈ usedList (sweepLoop R n i h) ↔ a ∈ usedList h ∧ (a ∈ h.order.toList.take i ∨ a ∈ R)) ∧
    (∀ nm a, (nm, a) ∈ (sweepLoop R n i h).symtab ↔
      (nm, a) ∈ h.symtab ∧ ¬ ∃ b o, b ∈ usedList h ∧ b ∉ h.order.toList.take i ∧ b ∉ R ∧
        (h.cell b).content = .sym (some nm) o) := by
  intro n
  induction n with
  | zero =>
    intro i h hn hff hnd
    simp only [sweepLoop, usedList]
    have : i = h.firstFree := by omega
    subst this
    constructor
    · intro a; constructor
      · intro ha; exact ⟨ha, Or.inl ha⟩
      · intro ha; exact ha.1
    · intro nm a; constructor
      · intro ha; exact ⟨ha, fun ⟨b, o, h1, h2, _⟩ => h2 h1⟩
      · intro ha; exact ha.1
  | succ n ih =>
    intro i h hn hff hnd
    have his : i < h.order.size := by omega
    rw [sweepLoop_succ]
    by_cases hc : R.contains (h.order.getD i 0) = true
    · rw [if_pos hc]
      have hxR : h.order.getD i 0 ∈ R := by simpa using hc
      have hx : h.order.getD i 0 = h.order[i] := by simp [Array.getD, his]
      have htake : h.order.toList.take (i + 1) = h.order.toList.take i ++ [h.order.getD i 0] := by
        rw [hx, List.take_succ_eq_append_getElem (by simpa using his)]; simp
      obtain ⟨ih1, ih2⟩ := ih (i + 1) h (by omega) hff hnd
      constructor
      · intro a
        rw [ih1 a, htake]
        constructor
        · rintro ⟨h1, h2⟩
          refine ⟨h1, ?_⟩
          rcases h2 with h2 | h2
          · rcases List.mem_append.1 h2 with h3 | h3
            · exact Or.inl h3
            · rw [List.mem_singleton] at h3; subst h3; exact Or.inr hxR
          · exact Or.inr h2
        · rintro ⟨h1, h2⟩
          refine ⟨h1, ?_⟩
          rcases h2 with h2 | h2
          · exact Or.inl (List.mem_append_left _ h2)
          · exact Or.inr h2
      · intro nm a
        rw [ih2 nm a, htake]
        constructor
        · rintro ⟨h1, h2⟩
          refine ⟨h1, ?_⟩
          rintro ⟨b, o, hb1, hb2, hb3, hb4⟩
          apply h2
          refine ⟨b, o, hb1, ?_, hb3, hb4⟩
          intro hb
          rcases List.mem_append.1 hb with h3 | h3
          · exact hb2 h3
          · rw [List.mem_singleton] at h3; subst h3; exact hb3 hxR
        · rintro ⟨h1, h2⟩
          refine ⟨h1, ?_⟩
          rintro ⟨b, o, hb1, hb2, hb3, hb4⟩
          apply h2
          exact ⟨b, o, hb1, fun hb => hb2 (List.mem_append_left _ hb), hb3, hb4⟩
    · rw [if_neg hc]
      have hxR : h.order.getD i 0 ∉ R := by simpa using hc
      obtain ⟨st1, st2, st3, st4⟩ := swap_step h.order i h.firstFree (by omega) hff hnd
      generalize hsym : (match (h.cell (h.order.getD i 0)).content with
        | .sym (some name) _ => removeSym h.symtab name
        | _ => h.symtab) = symtab1
      have hsym' : ∀ nm a, (nm, a) ∈ symtab1 ↔ (nm, a) ∈ h.symtab ∧
          ¬ ∃ o, (h.cell (h.order.getD i 0)).content = .sym (some nm) o := by
        intro nm a
        rw [← hsym]
        split
        · rename_i name o heq
          rw [heq]
          simp [removeSym]
          intro _
          exact ⟨fun h1 h2 => h1 h2.symm, fun h1 h2 => h1 h2.symm⟩
        · rename_i hne
          constructor
          · intro h1; exact ⟨h1, fun ⟨o, ho⟩ => hne _ _ ho⟩
          · intro h1; exact h1.1
      obtain ⟨ih1, ih2⟩ := ih i
        { h with symtab := symtab1, order := h.order.swapIfInBounds i (h.firstFree - 1), firstFree := h.firstFree - 1 }
        (by simp; omega) (by simp; omega) ((swapIfInBounds_perm _ _ _).nodup_iff.2 hnd)
      constructor
      · intro a
        rw [ih1 a]
        simp only [usedList]
        rw [st1, st2 a]
        constructor
        · rintro ⟨⟨h1, h2⟩, h3⟩; exact ⟨h1, h3⟩
        · rintro ⟨h1, h3⟩
          refine ⟨⟨h1, ?_⟩, h3⟩
          rintro rfl
          rcases h3 with h3 | h3
          · exact st3 h3
          · exact hxR h3
      · intro nm a
        rw [ih2 nm a]
        simp only [usedList, cell]
        rw [st1, hsym' nm a]
        constructor
        · rintro ⟨⟨h1, h2⟩, h3⟩
          refine ⟨h1, ?_⟩
          rintro ⟨b, o, hb1, hb2, hb3, hb4⟩
          by_cases hbx : b = h.order.getD i 0
          · subst hbx; exact h2 ⟨o, hb4⟩
          · exact h3 ⟨b, o, (st2 b).2 ⟨hb1, hbx⟩, hb2, hb3, hb4⟩
        · rintro ⟨h1, h2⟩
          refine ⟨⟨h1, ?_⟩, ?_⟩
          · rintro ⟨o, ho⟩
            exact h2 ⟨_, o, st4, st3, hxR, ho⟩
          · rintro ⟨b, o, hb1, hb2, hb3, hb4⟩
            exact h2 ⟨b, o, ((st2 b).1 hb1).1, hb2, hb3, hb4⟩


theorem sweepLoop_congr (R1 R2 : List Addr) (heq : ∀ a, a ∈ R1 ↔ a ∈ R2) : ∀ n i h,
    sweepLoop R1 n i h = sweepLoop R2 n i h := by
  have hc : ∀ a, R1.contains a = R2.contains a := by
    intro a
    rw [Bool.eq_iff_iff]
    simp [heq a]
  intro n
  induction n with
  | zero => intro i h; rfl
  | succ n ih =>
    intro i h
    rw [sweepLoop_succ, sweepLoop_succ, hc, ih, ih]

/-- the two cases of `shrink` -/
theorem shrink_cases (h : Heap) :
    (¬ h.order.size - h.firstFree > ratio h.firstFree Config.maximumFreeRatioNum Config.maximumFreeRatioDen ∧
      shrink h = h) ∨
    (h.order.size - h.firstFree > ratio h.firstFree Config.maximumFreeRatioNum Config.maximumFreeRatioDen ∧
      shrink h = { h with order := (h.order.extract 0
        (h.firstFree + ratio h.firstFree Config.minimumFreeRatioNum Config.minimumFreeRatioDen + 1)) }) := by
  unfold shrink
  by_cases hc : h.order.size - h.firstFree > ratio h.firstFree Config.maximumFreeRatioNum Config.maximumFreeRatioDen
  · exact Or.inr ⟨hc, by simp only [if_pos hc]⟩
  · exact Or.inl ⟨hc, by simp only [if_neg hc]⟩

theorem ratio_min_le_max (n : Nat) :
    ratio n Config.minimumFreeRatioNum Config.minimumFreeRatioDen ≤
      ratio n Config.maximumFreeRatioNum Config.maximumFreeRatioDen := by
  simp only [ratio, Config.minimumFreeRatioNum, Config.minimumFreeRatioDen, Config.maximumFreeRatioNum,
    Config.maximumFreeRatioDen]
  omega

theorem shrink_spec' (h : Heap) (hff : h.firstFree ≤ h.order.size) :
    (shrink h).store = h.store ∧ (shrink h).firstFree = h.firstFree ∧ (shrink h).symtab = h.symtab ∧ (shrink h).globals = h.globals ∧
    usedList (shrink h) = usedList h ∧ h.firstFree ≤ (shrink h).order.size ∧
    (∀ a ∈ (shrink h).order.toList, a ∈ h.order.toList) ∧
    (h.order.toList.Nodup → (shrink h).order.toList.Nodup) ∧
    (0 < h.order.size → 0 < (shrink h).order.size) := by
  rcases shrink_cases h with ⟨_, e⟩ | ⟨hc, e⟩
  · rw [e]
    exact ⟨rfl, rfl, rfl, rfl, rfl, hff, fun _ h => h, fun h => h, fun h => h⟩
  · rw [e]
    have hl : (h.order.extract 0 (h.firstFree + ratio h.firstFree Config.minimumFreeRatioNum Config.minimumFreeRatioDen + 1)).toList
        = h.order.toList.take (h.firstFree + ratio h.firstFree Config.minimumFreeRatioNum Config.minimumFreeRatioDen + 1) := by
      simp
    refine ⟨rfl, rfl, rfl, rfl, ?_, ?_, ?_, ?_, ?_⟩
    · simp only [usedList, hl, List.take_take]
      congr 1
      omega
    · simp only [Array.size_extract]; omega
    · intro a ha
      rw [hl] at ha
      exact List.mem_of_mem_take ha
    · intro hnd
      rw [hl]
      exact hnd.sublist (List.take_sublist _ _)
    · intro _
      simp only [Array.size_extract]; omega

theorem shrink_post' (h : Heap) (hff : h.firstFree ≤ h.order.size) :
    (shrink h).order.size - h.firstFree ≤ ratio h.firstFree Config.maximumFreeRatioNum Config.maximumFreeRatioDen ∨
    (shrink h).order.size - h.firstFree = ratio h.firstFree Config.minimumFreeRatioNum Config.minimumFreeRatioDen + 1 := by
  rcases shrink_cases h with ⟨hc, e⟩ | ⟨hc, e⟩
  · rw [e]; left; omega
  · rw [e]; right
    have := ratio_min_le_max h.firstFree
    simp only [Array.size_extract]
    omega

end Pici.Heap
