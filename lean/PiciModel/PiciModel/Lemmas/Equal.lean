/-
Helper lemmas for C13 (`Props/C13.lean`) that do not depend on the `Plain`/`Data` predicates.
-/
import PiciModel.Model.Natives
import PiciModel.Model.Printer

namespace Pici

namespace Val

/-- stripping after `get` is stripping: `get` only removes top-level metadata wrappers -/
@[simp] theorem strip_get (v : Val) : v.get.strip = v.strip := by
  induction v <;> simp_all [Val.get, Val.strip]

end Val

/-- `print_atom` never looks at metadata -/
theorem printAtom_strip (v : Val) : printAtom v.strip = printAtom v := by
  induction v <;> simp_all [Val.strip, printAtom]

theorem isProperList_cons (a d : Val) : isProperList (.cons a d) = isProperList d := by
  simp [isProperList, listToVec]

/-- functions and traps are equal to nothing -/
theorem equalInternal_fn (k : Kind) (r p b e : Val) (m : Name) (x : Val) :
    equalInternal (.fn k r p b e m) x = false := by
  simp [equalInternal]

theorem equalInternal_native (id : NativeId) (x : Val) : equalInternal (.native id) x = false := by
  simp [equalInternal]

theorem equalInternal_trap (n h x : Val) : equalInternal (.trap n h) x = false := by
  simp [equalInternal]

end Pici
