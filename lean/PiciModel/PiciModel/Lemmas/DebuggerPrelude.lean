/-
Helper lemmas for Props/C20b, part 2: the prelude functions the stepping evaluator calls — `enumerate` (through `zip`,
`range`, `length`) on an ARBITRARY list value (a form as the reader or `define` hands it over may carry metadata at any
cons cell and end in a metadata-wrapped nil), and `map` with an arbitrary "one call" relation (each call made by the
stepping evaluator is a whole recursive run of itself).  Generalisations of the corresponding lemmas of Props/C16.lean and
Props/C16b.lean, proved the same way.
-/
import PiciModel.Lemmas.DebuggerSteps

namespace Pici.C16
open Pici Pici.Ref

/-- the helper `-length` on an arbitrary list value -/
theorem flength_evalL {st : St} (hl : Loaded st) (d : Nat) (hd : d + 2 ≤ Config.maxRecursionDepth) :
    ∀ (xs : List Val) (tv : Val) (n : Int) (nv env : Val), listToVec tv = some xs → nv.get = .num n → 0 ≤ n →
      n + (xs.length : Int) ≤ i64Max →
      pairParamsAndArgs Prelude.f_length_rest Prelude.f_length_params .nil none [tv, nv] = .ok env →
      ∃ r, r.get = .num (n + (xs.length : Int)) ∧
        Eval (globalsOf st) env cs!"prelude" d Prelude.f_length_body (.ok r) := by
  obtain ⟨p1, p2, hp⟩ := Prelude.f_length_params_shape
  obtain ⟨m1, m2, m3, m4, m5, m6, m7, m8, m9, hb⟩ := Prelude.f_length_body_shape
  obtain ⟨wf, hwf, hwfg⟩ := hl.prelude _ _ Prelude.f_length_mem
  obtain ⟨wcdr, hwcdr, hwcdrg⟩ := hl.native .cdr (by decide)
  obtain ⟨wadd, hwadd, hwaddg⟩ := hl.native .add (by decide)
  have hd0 : d ≤ Config.maxRecursionDepth := by omega
  have hd1 : d + 1 ≤ Config.maxRecursionDepth := by omega
  have hd2 : d + 1 + 1 ≤ Config.maxRecursionDepth := by omega
  intro xs
  induction xs with
  | nil =>
    intro tv n nv env hlv hnv _ _ henv
    have hE : env = .cons (.cons (symA cs!"n" p2) nv) (.cons (.cons (symA cs!"things" p1) tv) .nil) := by
      rw [hp, Prelude.f_length_rest_eq, pair2] at henv
      exact (Res.ok.inj henv).symm
    refine ⟨nv, by simpa using hnv, ?_⟩
    rw [hb]
    exact ev_if_false hd0 (ev_local hd1 (by lk hE)) (listToVec_nil_inv hlv) (ev_local hd0 (by lk hE))
  | cons x xs ih =>
    intro tv n nv env hlv hnv hn0 hlen henv
    obtain ⟨hnil, dd, hg, hdd⟩ := listToVec_cons_inv hlv
    have hE : env = .cons (.cons (symA cs!"n" p2) nv) (.cons (.cons (symA cs!"things" p1) tv) .nil) := by
      rw [hp, Prelude.f_length_rest_eq, pair2] at henv
      exact (Res.ok.inj henv).symm
    have hlen' : n + 1 + (xs.length : Int) ≤ i64Max := by
      have : ((x :: xs).length : Int) = (xs.length : Int) + 1 := by simp
      omega
    have hpair : pairParamsAndArgs Prelude.f_length_rest Prelude.f_length_params .nil none [dd, .num (n + 1)] =
        .ok (.cons (.cons (symA cs!"n" p2) (.num (n + 1))) (.cons (.cons (symA cs!"things" p1) dd) .nil)) := by
      rw [hp, Prelude.f_length_rest_eq, pair2]
    obtain ⟨r, hr, hev⟩ := ih dd (n + 1) (.num (n + 1)) _ hdd rfl (by omega) hlen' hpair
    refine ⟨r, ?_, ?_⟩
    · rw [hr]
      have : ((x :: xs).length : Int) = (xs.length : Int) + 1 := by simp
      rw [this]
      congr 1
      omega
    rw [hb]
    have hrn : inRange n = true := by rw [inRange_iff]; unfold i64Max at hlen'; omega
    have hrn1 : inRange (n + 1) = true := by rw [inRange_iff]; unfold i64Max at hlen'; omega
    refine ev_if_true hd0 (ev_local hd1 (by lk hE)) hnil ?_
    refine ev_call hd0 rfl (ev_global hd1 (by lk hE) hwf) (hwfg.trans Prelude.f_length_fn_eq) (evs_two ?_ ?_) hpair hev
    · exact ev_prim hd1 rfl (ev_global hd2 (by lk hE) hwcdr) hwcdrg rfl (evs_one (ev_local hd2 (by lk hE)))
        (prim_cdr _ x _ _ hg)
    · exact ev_prim hd1 rfl (ev_global hd2 (by lk hE) hwadd) hwaddg rfl
        (evs_two (ev_local hd2 (by lk hE)) (ev_num hd2))
        (prim_add _ _ n 1 _ hnv (numA_get 1 m8) hrn (by decide) hrn1)

/-- the body of `length` on an arbitrary list value -/
theorem length_evalL {st : St} (hl : Loaded st) (xs : List Val) (tv env : Val) (d : Nat) (hlv : listToVec tv = some xs)
    (hlen : (xs.length : Int) ≤ i64Max) (hd : d + 2 ≤ Config.maxRecursionDepth)
    (henv : pairParamsAndArgs Prelude.length_rest Prelude.length_params .nil none [tv] = .ok env) :
    ∃ r, r.get = .num xs.length ∧ Eval (globalsOf st) env cs!"prelude" d Prelude.length_body (.ok r) := by
  obtain ⟨p1, hp⟩ := Prelude.length_params_shape
  obtain ⟨m1, m2, m3, hb⟩ := Prelude.length_body_shape
  obtain ⟨q1, q2, hq⟩ := Prelude.f_length_params_shape
  have hE : env = .cons (.cons (symA cs!"things" p1) tv) .nil := by
    rw [hp, Prelude.length_rest_eq, pair1] at henv
    exact (Res.ok.inj henv).symm
  obtain ⟨wf, hwf, hwfg⟩ := hl.prelude _ _ Prelude.f_length_mem
  have hd0 : d ≤ Config.maxRecursionDepth := by omega
  have hd1 : d + 1 ≤ Config.maxRecursionDepth := by omega
  have hpair : pairParamsAndArgs Prelude.f_length_rest Prelude.f_length_params .nil none [tv, numA 0 m3] =
      .ok (.cons (.cons (symA cs!"n" q2) (numA 0 m3)) (.cons (.cons (symA cs!"things" q1) tv) .nil)) := by
    rw [hq, Prelude.f_length_rest_eq, pair2]
  obtain ⟨r, hr, hev⟩ := flength_evalL hl d (by omega) xs tv 0 (numA 0 m3) _ hlv rfl (by omega) (by omega) hpair
  refine ⟨r, by rw [hr, Int.zero_add], ?_⟩
  rw [hb]
  exact ev_call hd0 rfl (ev_global hd1 (by lk hE) hwf) (hwfg.trans Prelude.f_length_fn_eq)
    (evs_two (ev_local hd1 (by lk hE)) (ev_num hd1)) hpair hev

/-- the helper `-zip`, the first list being an arbitrary list value -/
theorem fzip_evalL {st : St} (hl : Loaded st) (d : Nat) (hd : d + 4 ≤ Config.maxRecursionDepth)
    (t2 : Val) (ht2 : t2.isNil = true) :
    ∀ (xs : List Val) (tv : Val) (ys : List Val) (acc env : Val), listToVec tv = some xs →
      pairParamsAndArgs Prelude.f_zip_rest Prelude.f_zip_params .nil none
        [tv, ys.foldr Val.cons t2, acc] = .ok env →
      Eval (globalsOf st) env cs!"prelude" d Prelude.f_zip_body
        (.ok ((List.zipWith Val.cons xs ys).reverse.foldr Val.cons acc)) := by
  obtain ⟨p1, p2, p3, hp⟩ := Prelude.f_zip_params_shape
  obtain ⟨m1, m2, m3, m4, m5, m6, m7, m8, m9, m10, m11, m12, m13, m14, m15, m16, m17, m18, hb⟩ := Prelude.f_zip_body_shape
  obtain ⟨wf, hwf, hwfg⟩ := hl.prelude _ _ Prelude.f_zip_mem
  obtain ⟨wcar, hwcar, hwcarg⟩ := hl.native .car (by decide)
  obtain ⟨wcdr, hwcdr, hwcdrg⟩ := hl.native .cdr (by decide)
  obtain ⟨wcons, hwcons, hwconsg⟩ := hl.native .cons (by decide)
  have hd0 : d ≤ Config.maxRecursionDepth := by omega
  have hd1 : d + 1 ≤ Config.maxRecursionDepth := by omega
  have hd2 : d + 1 + 1 ≤ Config.maxRecursionDepth := by omega
  have hd3 : d + 1 + 1 + 1 ≤ Config.maxRecursionDepth := by omega
  have hd4 : d + 1 + 1 + 1 + 1 ≤ Config.maxRecursionDepth := by omega
  intro xs
  induction xs with
  | nil =>
    intro tv ys acc env hlv henv
    have hE : env = .cons (.cons (symA cs!"init" p3) acc) (.cons (.cons (symA cs!"things2" p2) (ys.foldr Val.cons t2))
        (.cons (.cons (symA cs!"things1" p1) tv) .nil)) := by
      rw [hp, Prelude.f_zip_rest_eq, pair3] at henv
      exact (Res.ok.inj henv).symm
    rw [hb]
    exact ev_if_false hd0 (ev_local hd1 (by lk hE)) (listToVec_nil_inv hlv) (ev_local hd0 (by lk hE))
  | cons x xs ih =>
    intro tv ys acc env hlv henv
    obtain ⟨hnil, dd, hg, hdd⟩ := listToVec_cons_inv hlv
    cases ys with
    | nil =>
      have hE : env = .cons (.cons (symA cs!"init" p3) acc) (.cons (.cons (symA cs!"things2" p2) t2)
          (.cons (.cons (symA cs!"things1" p1) tv) .nil)) := by
        rw [hp, Prelude.f_zip_rest_eq, pair3] at henv
        exact (Res.ok.inj henv).symm
      rw [hb]
      exact ev_if_true hd0 (ev_local hd1 (by lk hE)) hnil
        (ev_if_false hd0 (ev_local hd1 (by lk hE)) ht2 (ev_local hd0 (by lk hE)))
    | cons y ys =>
      have hE : env = .cons (.cons (symA cs!"init" p3) acc)
          (.cons (.cons (symA cs!"things2" p2) (.cons y (ys.foldr Val.cons t2)))
          (.cons (.cons (symA cs!"things1" p1) tv) .nil)) := by
        rw [hp, Prelude.f_zip_rest_eq, pair3] at henv
        exact (Res.ok.inj henv).symm
      have hpair : pairParamsAndArgs Prelude.f_zip_rest Prelude.f_zip_params .nil none
          [dd, ys.foldr Val.cons t2, .cons (.cons x y) acc] =
          .ok (.cons (.cons (symA cs!"init" p3) (.cons (.cons x y) acc))
            (.cons (.cons (symA cs!"things2" p2) (ys.foldr Val.cons t2))
            (.cons (.cons (symA cs!"things1" p1) dd) .nil))) := by
        rw [hp, Prelude.f_zip_rest_eq, pair3]
      have hev := ih dd ys (.cons (.cons x y) acc) _ hdd hpair
      rw [List.zipWith_cons_cons, foldr_cons_reverse_cons, hb]
      refine ev_if_true hd0 (ev_local hd1 (by lk hE)) hnil (ev_if_true hd0 (ev_local hd1 (by lk hE)) rfl ?_)
      refine ev_call hd0 rfl (ev_global hd1 (by lk hE) hwf) (hwfg.trans Prelude.f_zip_fn_eq) (evs_three ?_ ?_ ?_) hpair hev
      · exact ev_prim hd1 rfl (ev_global hd2 (by lk hE) hwcdr) hwcdrg rfl (evs_one (ev_local hd2 (by lk hE)))
          (prim_cdr _ x _ _ hg)
      · exact ev_prim hd1 rfl (ev_global hd2 (by lk hE) hwcdr) hwcdrg rfl (evs_one (ev_local hd2 (by lk hE)))
          (prim_cdr _ y _ _ rfl)
      · refine ev_prim hd1 rfl (ev_global hd2 (by lk hE) hwcons) hwconsg rfl
          (evs_two ?_ (ev_local hd2 (by lk hE))) rfl
        refine ev_prim hd2 rfl (ev_global hd3 (by lk hE) hwcons) hwconsg rfl (evs_two ?_ ?_) rfl
        · exact ev_prim hd3 rfl (ev_global hd4 (by lk hE) hwcar) hwcarg rfl (evs_one (ev_local hd4 (by lk hE)))
            (prim_car _ x _ _ hg)
        · exact ev_prim hd3 rfl (ev_global hd4 (by lk hE) hwcar) hwcarg rfl (evs_one (ev_local hd4 (by lk hE)))
            (prim_car _ y _ _ rfl)

/-- the body of `zip`, the first list being an arbitrary list value -/
theorem zip_runsL {st : St} (hl : Loaded st) (xs : List Val) (tv : Val) (hlv : listToVec tv = some xs) (ys : List Val)
    (t2 : Val) (ht2 : t2.isNil = true)
    (env : Val) (d : Nat) (hd : d + 6 ≤ Config.maxRecursionDepth)
    (tail : Val) (htail : st.getGlobal cs!"nil" cs!"prelude" = .found tail)
    (henv : pairParamsAndArgs Prelude.zip_rest Prelude.zip_params .nil none [tv, ys.foldr Val.cons t2] = .ok env) :
    RunsJ st Prelude.zip_body env cs!"prelude" d (.ok ((List.zipWith Val.cons xs ys).foldr Val.cons tail)) := by
  obtain ⟨p1, p2, hp⟩ := Prelude.zip_params_shape
  obtain ⟨m1, m2, m3, m4, m5, hb⟩ := Prelude.zip_body_shape
  obtain ⟨q1, q2, q3, hq⟩ := Prelude.f_zip_params_shape
  have hE : env = .cons (.cons (symA cs!"things2" p2) (ys.foldr Val.cons t2))
      (.cons (.cons (symA cs!"things1" p1) tv) .nil) := by
    rw [hp, Prelude.zip_rest_eq, pair2] at henv
    exact (Res.ok.inj henv).symm
  obtain ⟨wf, hwf, hwfg⟩ := hl.prelude _ _ Prelude.f_zip_mem
  obtain ⟨tail', htail', htailp⟩ := hl.nil
  have hs := hl.sees
  have hd1 : d + 1 ≤ Config.maxRecursionDepth := by omega
  have hd2 : d + 1 + 1 ≤ Config.maxRecursionDepth := by omega
  have hpair : pairParamsAndArgs Prelude.f_zip_rest Prelude.f_zip_params .nil none
      [tv, ys.foldr Val.cons t2, tail'] =
      .ok (.cons (.cons (symA cs!"init" q3) tail') (.cons (.cons (symA cs!"things2" q2) (ys.foldr Val.cons t2))
        (.cons (.cons (symA cs!"things1" q1) tv) .nil))) := by
    rw [hq, Prelude.f_zip_rest_eq, pair3]
  have hz := fzip_evalL hl (d + 1) (by omega) t2 ht2 xs tv ys tail' _ hlv hpair
  rw [hb]
  rw [← List.reverse_reverse (List.zipWith Val.cons xs ys)]
  refine call_reverse hl htailp (by omega) (by lk hE) tail htail (RunsJ.of_eval hs ?_)
  exact ev_call hd1 rfl (ev_global hd2 (by lk hE) hwf) (hwfg.trans Prelude.f_zip_fn_eq)
    (evs_three (ev_local hd2 (by lk hE)) (ev_local hd2 (by lk hE)) (ev_global hd2 (by lk hE) htail')) hpair hz

/-- the indices 0 … n-1 as number values -/
def indices (n : Nat) : List Val := (List.range n).map fun (i : Nat) => Val.num (Int.ofNat i)

/-- the body of `enumerate` on an arbitrary list value, from every later step count: every element paired with its index -/
theorem enumerate_runsL {st : St} (hl : Loaded st) (xs : List Val) (tv : Val) (hlv : listToVec tv = some xs) (env : Val)
    (d : Nat) (hlen : (xs.length : Int) ≤ i64Max) (hd : d + 14 ≤ Config.maxRecursionDepth)
    (tail : Val) (htail : st.getGlobal cs!"nil" cs!"prelude" = .found tail)
    (henv : pairParamsAndArgs Prelude.enumerate_rest Prelude.enumerate_params .nil none [tv] = .ok env) :
    RunsJ st Prelude.enumerate_body env cs!"prelude" d
      (.ok ((List.zipWith Val.cons xs (indices xs.length)).foldr Val.cons tail)) := by
  obtain ⟨p1, hp⟩ := Prelude.enumerate_params_shape
  obtain ⟨m1, m2, m3, m4, m5, hb⟩ := Prelude.enumerate_body_shape
  obtain ⟨q1, hq⟩ := Prelude.length_params_shape
  obtain ⟨r1, hr⟩ := Prelude.range_params_shape
  obtain ⟨z1, z2, hz⟩ := Prelude.zip_params_shape
  have hE : env = .cons (.cons (symA cs!"things" p1) tv) .nil := by
    rw [hp, Prelude.enumerate_rest_eq, pair1] at henv
    exact (Res.ok.inj henv).symm
  obtain ⟨wzip, hwzip, hwzipg⟩ := hl.prelude _ _ Prelude.zip_mem
  obtain ⟨wrange, hwrange, hwrangeg⟩ := hl.prelude _ _ Prelude.range_mem
  obtain ⟨wlen, hwlen, hwleng⟩ := hl.prelude _ _ Prelude.length_mem
  have htailp : tail.isNil = true := by
    obtain ⟨t', ht', htp⟩ := hl.nil
    rw [htail] at ht'; cases ht'; exact htp
  have hs := hl.sees
  have hd0 : d ≤ Config.maxRecursionDepth := by omega
  have hd1 : d + 1 ≤ Config.maxRecursionDepth := by omega
  have hd2 : d + 1 + 1 ≤ Config.maxRecursionDepth := by omega
  have hd3 : d + 1 + 1 + 1 ≤ Config.maxRecursionDepth := by omega
  have hpairL : pairParamsAndArgs Prelude.length_rest Prelude.length_params .nil none [tv] =
      .ok (.cons (.cons (symA cs!"things" q1) tv) .nil) := by
    rw [hq, Prelude.length_rest_eq, pair1]
  obtain ⟨nv, hnv, hlenE⟩ := length_evalL hl xs tv _ (d + 1 + 1) hlv hlen (by omega) hpairL
  have hpairR : pairParamsAndArgs Prelude.range_rest Prelude.range_params .nil none [nv] =
      .ok (.cons (.cons (symA cs!"n" r1) nv) .nil) := by
    rw [hr, Prelude.range_rest_eq, pair1]
  have hnr : i64Min < (xs.length : Int) ∧ (xs.length : Int) ≤ i64Max := by
    refine ⟨?_, hlen⟩
    unfold i64Min; omega
  have hrangeE := range_eval hl (xs.length : Int) nv _ (d + 1) hnv hnr (by omega) tail htail hpairR
  rw [Int.toNat_natCast] at hrangeE
  have hpairZ : pairParamsAndArgs Prelude.zip_rest Prelude.zip_params .nil none
      [tv, (indices xs.length).foldr Val.cons tail] =
      .ok (.cons (.cons (symA cs!"things2" z2) ((indices xs.length).foldr Val.cons tail))
        (.cons (.cons (symA cs!"things1" z1) tv) .nil)) := by
    rw [hz, Prelude.zip_rest_eq, pair2]
  have hzip := zip_runsL hl xs tv hlv (indices xs.length) tail htailp _ d (by omega) tail htail hpairZ
  rw [hb]
  refine RunsJ.callClosure hl.detached hd0 (listToVec_ofList _) rfl
    (RunsJ.of_eval hs (ev_global hd1 (by lk hE) hwzip)) (hwzipg.trans Prelude.zip_fn_eq)
    (RunsArgsJ.of_evalArgs hs (evs_two (ev_local hd1 (by lk hE)) ?_))
    hpairZ hzip
  refine ev_call hd1 rfl (ev_global hd2 (by lk hE) hwrange) (hwrangeg.trans Prelude.range_fn_eq) (evs_one ?_) hpairR hrangeE
  exact ev_call hd2 rfl (ev_global hd3 (by lk hE) hwlen) (hwleng.trans Prelude.length_fn_eq)
    (evs_one (ev_local hd3 (by lk hE))) hpairL hlenE

/-- one call per element, left to right, under an arbitrary "one call" relation -/
inductive MapsVia (C : Val → Val → Prop) : List Val → List Val → Prop where
  | nil : MapsVia C [] []
  | cons (x y : Val) (xs ys : List Val) : C x y → MapsVia C xs ys → MapsVia C (x :: xs) (y :: ys)

/-- the helper `-map` over any "one call" relation that the application branch realises two levels below the body -/
theorem fmap_via {st : St} (hl : Loaded st) (fv : Val) (d : Nat) (hd : d + 4 ≤ Config.maxRecursionDepth)
    (C : Val → Val → Prop) (hcall : ∀ x y, C x y → Applies st fv [x] y (d + 1 + 1))
    (t : Val) (ht : t.isNil = true) :
    ∀ xs ys, MapsVia C xs ys → ∀ acc env,
      pairParamsAndArgs Prelude.f_map_rest Prelude.f_map_params .nil none [fv, xs.foldr Val.cons t, acc] = .ok env →
      RunsJ st Prelude.f_map_body env cs!"prelude" d (.ok (ys.reverse.foldr Val.cons acc)) := by
  obtain ⟨p1, p2, p3, hp⟩ := Prelude.f_map_params_shape
  obtain ⟨m1, m2, m3, m4, m5, m6, m7, m8, m9, m10, m11, m12, hb⟩ := Prelude.f_map_body_shape
  obtain ⟨wf, hwf, hwfg⟩ := hl.prelude _ _ Prelude.f_map_mem
  obtain ⟨wcar, hwcar, hwcarg⟩ := hl.native .car (by decide)
  obtain ⟨wcdr, hwcdr, hwcdrg⟩ := hl.native .cdr (by decide)
  obtain ⟨wcons, hwcons, hwconsg⟩ := hl.native .cons (by decide)
  have hs := hl.sees
  have hd0 : d ≤ Config.maxRecursionDepth := by omega
  have hd1 : d + 1 ≤ Config.maxRecursionDepth := by omega
  have hd2 : d + 1 + 1 ≤ Config.maxRecursionDepth := by omega
  have hd3 : d + 1 + 1 + 1 ≤ Config.maxRecursionDepth := by omega
  have hd4 : d + 1 + 1 + 1 + 1 ≤ Config.maxRecursionDepth := by omega
  intro xs ys h
  induction h with
  | nil =>
    intro acc env henv
    have hE : env = .cons (.cons (symA cs!"init" p3) acc) (.cons (.cons (symA cs!"things" p2) t)
        (.cons (.cons (symA cs!"f" p1) fv) .nil)) := by
      rw [hp, Prelude.f_map_rest_eq, pair3] at henv
      exact (Res.ok.inj henv).symm
    rw [hb]
    exact RunsJ.of_eval hs (ev_if_false hd0 (ev_local hd1 (by lk hE)) ht (ev_local hd0 (by lk hE)))
  | cons x y xs ys hc _ ih =>
    intro acc env henv
    have hE : env = .cons (.cons (symA cs!"init" p3) acc) (.cons (.cons (symA cs!"things" p2) (.cons x (xs.foldr Val.cons t)))
        (.cons (.cons (symA cs!"f" p1) fv) .nil)) := by
      rw [hp, Prelude.f_map_rest_eq, pair3] at henv
      exact (Res.ok.inj henv).symm
    have hpair : pairParamsAndArgs Prelude.f_map_rest Prelude.f_map_params .nil none [fv, xs.foldr Val.cons t, .cons y acc] =
        .ok (.cons (.cons (symA cs!"init" p3) (.cons y acc)) (.cons (.cons (symA cs!"things" p2) (xs.foldr Val.cons t))
          (.cons (.cons (symA cs!"f" p1) fv) .nil))) := by
      rw [hp, Prelude.f_map_rest_eq, pair3]
    rw [foldr_cons_reverse_cons, hb]
    refine RunsJ.ifTrue hl.detached hd0 (RunsJ.of_eval hs (ev_local hd1 (by lk hE))) rfl ?_
    refine RunsJ.callClosure hl.detached hd0 (listToVec_ofList _) rfl
      (RunsJ.of_eval hs (ev_global hd1 (by lk hE) hwf)) (hwfg.trans Prelude.f_map_fn_eq)
      (RunsArgsJ.cons (RunsJ.of_eval hs (ev_local hd1 (by lk hE)))
        (RunsArgsJ.cons (RunsJ.of_eval hs ?_) (RunsArgsJ.cons ?_ (RunsArgsJ.nil _ _ _ _))))
      hpair (ih _ _ hpair)
    · exact ev_prim hd1 rfl (ev_global hd2 (by lk hE) hwcdr) hwcdrg rfl (evs_one (ev_local hd2 (by lk hE)))
        (prim_cdr _ x _ _ rfl)
    · refine RunsJ.callPrim hl.detached hd1 (listToVec_ofList _) rfl
        (RunsJ.of_eval hs (ev_global hd2 (by lk hE) hwcons)) hwconsg rfl
        (RunsArgsJ.cons ?_ (RunsArgsJ.cons (RunsJ.of_eval hs (ev_local hd2 (by lk hE))) (RunsArgsJ.nil _ _ _ _))) rfl
      refine hcall x y hc _ env cs!"prelude" _ _ (listToVec_ofList _) rfl rfl
        (RunsJ.of_eval hs (ev_local hd3 (by lk hE)))
        (RunsArgsJ.of_evalArgs hs (evs_one ?_))
      exact ev_prim hd3 rfl (ev_global hd4 (by lk hE) hwcar) hwcarg rfl (evs_one (ev_local hd4 (by lk hE)))
        (prim_car _ x _ _ rfl)

/-- the body of `map` over any "one call" relation that the application branch realises three levels below the body;
the result ends in the value of the global `nil` -/
theorem map_via {st : St} (hl : Loaded st) (fv : Val) (d : Nat) (hd : d + 7 ≤ Config.maxRecursionDepth)
    (C : Val → Val → Prop) (hcall : ∀ x y, C x y → Applies st fv [x] y (d + 1 + 1 + 1))
    (t : Val) (ht : t.isNil = true) (xs ys : List Val) (hmap : MapsVia C xs ys) (env : Val)
    (tail : Val) (htail : st.getGlobal cs!"nil" cs!"prelude" = .found tail)
    (henv : pairParamsAndArgs Prelude.map_rest Prelude.map_params .nil none [fv, xs.foldr Val.cons t] = .ok env) :
    RunsJ st Prelude.map_body env cs!"prelude" d (.ok (ys.foldr Val.cons tail)) := by
  obtain ⟨p1, p2, hp⟩ := Prelude.map_params_shape
  obtain ⟨m1, m2, m3, m4, m5, hb⟩ := Prelude.map_body_shape
  obtain ⟨q1, q2, q3, hq⟩ := Prelude.f_map_params_shape
  have hE : env = .cons (.cons (symA cs!"things" p2) (xs.foldr Val.cons t)) (.cons (.cons (symA cs!"f" p1) fv) .nil) := by
    rw [hp, Prelude.map_rest_eq, pair2] at henv
    exact (Res.ok.inj henv).symm
  obtain ⟨wf, hwf, hwfg⟩ := hl.prelude _ _ Prelude.f_map_mem
  have htailp : tail.isNil = true := by
    obtain ⟨t', ht', htp⟩ := hl.nil
    rw [htail] at ht'; cases ht'; exact htp
  have htail' : globalsOf st cs!"nil" cs!"prelude" = .found tail := htail
  have hs := hl.sees
  have hd1 : d + 1 ≤ Config.maxRecursionDepth := by omega
  have hd2 : d + 1 + 1 ≤ Config.maxRecursionDepth := by omega
  have hpair : pairParamsAndArgs Prelude.f_map_rest Prelude.f_map_params .nil none [fv, xs.foldr Val.cons t, tail] =
      .ok (.cons (.cons (symA cs!"init" q3) tail) (.cons (.cons (symA cs!"things" q2) (xs.foldr Val.cons t))
        (.cons (.cons (symA cs!"f" q1) fv) .nil))) := by
    rw [hq, Prelude.f_map_rest_eq, pair3]
  have hmapr := fmap_via hl fv (d + 1) (by omega) C hcall t ht xs ys hmap tail _ hpair
  rw [hb]
  rw [← List.reverse_reverse ys]
  refine call_reverse hl htailp (by omega) (by lk hE) tail htail ?_
  exact RunsJ.callClosure hl.detached hd1 (listToVec_ofList _) rfl
    (RunsJ.of_eval hs (ev_global hd2 (by lk hE) hwf)) (hwfg.trans Prelude.f_map_fn_eq)
    (RunsArgsJ.of_evalArgs hs (evs_three (ev_local hd2 (by lk hE)) (ev_local hd2 (by lk hE))
      (ev_global hd2 (by lk hE) htail')))
    hpair hmapr

end Pici.C16
