/-
Helper lemmas for C06: the tokenizer (`tokLoop`) never reaches its `unreachable!()`, every token consumes
input, and the token loop of `read_internal` never runs out of fuel.
-/
import PiciModel.Model.Natives

namespace Pici

/-! ### generic steps through `if` -/

theorem ite_pred {α : Type} {P : α → Prop} {c : Prop} [Decidable c] {a b : α} (ha : c → P a) (hb : ¬c → P b) :
    P (if c then a else b) := by
  split
  · exact ha ‹_›
  · exact hb ‹_›

/-! ### delimiters -/

theorem isDelimiter_false {c : Char} (h : isDelimiter c = false) :
    isWhitespace c = false ∧ c ≠ ';' ∧ c ≠ '(' ∧ c ≠ ')' ∧ c ≠ '"' ∧ c ≠ '\'' ∧ c ≠ ',' := by
  simp [isDelimiter] at h
  simp [h]

theorem isWhitespace_dquote : isWhitespace '"' = false := by decide
theorem isWhitespace_backslash : isWhitespace '\\' = false := by decide

/-! ### the invariant of the tokenizer loop -/

/-- the states in which the buffer holds (part of) an atom -/
def atomState : TokStatus → Bool
  | .character | .number | .symbol | .symbolOrNumber => true
  | _ => false

/-- the states between tokens -/
def blankState : TokStatus → Bool
  | .whiteSpace | .comment => true
  | _ => false

/-- is the next character a delimiter? -/
def headDelim : List (Char × Val) → Bool
  | (c, _) :: _ => isDelimiter c
  | []          => false

/-- between tokens the buffer is empty; inside an atom the next character has been checked not to end it -/
def TokInv (items : List (Char × Val)) (status : TokStatus) (buf : List Char) : Prop :=
  buf ≠ [] → blankState status = false ∧ (atomState status = true → headDelim items = false)

theorem atomEnding_false {items : List (Char × Val)} {tail : Tail} (h : atomEnding items tail = some false) :
    headDelim items = false := by
  cases items with
  | nil => cases tail <;> simp [atomEnding] at h
  | cons p items => obtain ⟨c, d⟩ := p; simpa [atomEnding, headDelim] using h

/-- the outcome is not a panic -/
def NoCrash (site : List Char) (o : TokOut) : Prop := o ≠ .err (.crash site)

/-- the atom-ending test after the big `match ch` (the local `finish` of `tokLoop`) -/
def tokFinish (items : List (Char × Val)) (tail : Tail) (loc : Loc) (rest : Rest)
    (status : TokStatus) (buf : List Char) (begin : Loc) : TokOut :=
  if buf ≠ [] then
    match atomEnding items tail with
    | none       => .err .invalidString
    | some false => tokLoop items tail loc status buf begin
    | some true  =>
      match status with
      | .character =>
        match buildCharacter buf.reverse with
        | .ok c      => .token (.character c) begin rest items loc
        | .error msg => .err (.error msg loc rest)
      | .number =>
        match buildNumber buf.reverse with
        | .ok n      => .token (.number n) begin rest items loc
        | .error msg => .err (.error msg loc rest)
      | .symbol | .symbolOrNumber => .token (.symbol buf.reverse) begin rest items loc
      | .stringNormal | .stringEscape => tokLoop items tail loc status buf begin
      | .whiteSpace | .comment => .err (.crash cs!"read: unreachable token status")
  else tokLoop items tail loc status buf begin

/-- one step of `tokLoop`, with the local `finish` named -/
theorem tokLoop_cons (ch : Char) (r : Val) (items : List (Char × Val)) (tail : Tail) (loc0 : Loc) (status : TokStatus)
    (buf : List Char) (begin : Loc) :
    tokLoop ((ch, r) :: items) tail loc0 status buf begin =
    (let loc := loc0.step ch
    let rest : Rest := ⟨r, loc.line, loc.col + 1⟩
    let finish := tokFinish items tail loc rest
    if status == .comment then
      tokLoop items tail loc (if ch = '\n' then .whiteSpace else .comment) buf begin
    else if status == .stringNormal && ch ≠ '"' && ch ≠ '\\' then
      tokLoop items tail loc status (ch :: buf) begin
    else if status == .stringEscape then
      if ch = '"' then tokLoop items tail loc .stringNormal ('"' :: buf) begin
      else if ch = 'n' then tokLoop items tail loc .stringNormal ('\n' :: buf) begin
      else if ch = 'r' then tokLoop items tail loc .stringNormal ('\r' :: buf) begin
      else if ch = 't' then tokLoop items tail loc .stringNormal ('\t' :: buf) begin
      else if ch = '\\' then tokLoop items tail loc .stringNormal ('\\' :: buf) begin
      else .err (.error (cs!"'" ++ [ch] ++ cs!"' is not a valid escape character in a string literal") loc rest)
    else if status == .character && buf = [] then
      finish status [ch] begin
    else if isWhitespace ch || ch = ',' then
      finish .whiteSpace buf begin
    else if ch = ';' then
      finish .comment buf begin
    else if ch = '\'' then .token .quote loc rest items loc
    else if ch = '(' then .token .openParen loc rest items loc
    else if ch = ')' then .token .closeParen loc rest items loc
    else if ch = '"' then
      if status == .stringNormal then .token (.string buf.reverse) begin rest items loc
      else finish .stringNormal buf loc
    else if ch = '\\' then
      if status == .stringNormal then finish .stringEscape buf begin
      else if status == .character then finish status (ch :: buf) begin
      else .err (.error cs!"unexpected character: '\\'" loc rest)
    else if ch = '%' then
      if status == .whiteSpace then finish .character buf loc
      else finish status (ch :: buf) begin
    else if ch = '+' || ch = '-' then
      if status == .whiteSpace then finish .symbolOrNumber (ch :: buf) loc
      else finish status (ch :: buf) begin
    else if isAsciiDigit ch then
      if status == .symbolOrNumber then finish .number (ch :: buf) begin
      else if status == .whiteSpace then finish .number (ch :: buf) loc
      else finish status (ch :: buf) begin
    else
      if status == .whiteSpace then finish .symbol (ch :: buf) loc
      else if status == .symbolOrNumber then finish .symbol (ch :: buf) begin
      else if status == .number then
        .err (.error (cs!"unexpected character in number literal: '" ++ [ch] ++ cs!"'") loc rest)
      else finish status (ch :: buf) begin) := by
  rw [tokLoop]
  rfl

theorem tokFinish_noCrash (site : List Char) (items : List (Char × Val)) (tail : Tail) (loc : Loc) (rest : Rest)
    (ih : ∀ (status : TokStatus) (buf : List Char) (begin : Loc), TokInv items status buf →
      NoCrash site (tokLoop items tail loc status buf begin))
    (status : TokStatus) (buf : List Char) (begin : Loc) (h : buf ≠ [] → blankState status = false) :
    NoCrash site (tokFinish items tail loc rest status buf begin) := by
  unfold tokFinish
  split
  · rename_i hb
    have hs := h hb
    split
    · intro h; cases h
    · rename_i hae
      exact ih _ _ _ (fun _ => ⟨hs, fun _ => atomEnding_false hae⟩)
    · split
      all_goals first
        | (simp [blankState] at hs; done)
        | (split <;> (intro h; cases h; done))
        | (intro h; cases h; done)
        | exact ih _ _ _ (fun _ => ⟨hs, fun ha => by simp [atomState] at ha⟩)
  · rename_i hb
    exact ih _ _ _ (fun hb' => absurd hb' hb)

theorem tokInv_string (items : List (Char × Val)) (buf : List Char) : TokInv items .stringNormal buf :=
  fun _ => ⟨rfl, fun h => by cases h⟩

/-- a delimiter outside a string or comment finds the buffer empty -/
theorem buf_nil_of_delim {ch : Char} {r : Val} {items : List (Char × Val)} {status : TokStatus} {buf : List Char}
    (hinv : TokInv ((ch, r) :: items) status buf)
    (h1 : ¬(status == .comment) = true)
    (h2 : ¬(status == .stringNormal && decide (ch ≠ '"') && decide (ch ≠ '\\')) = true)
    (h3 : ¬(status == .stringEscape) = true)
    (hd : (isWhitespace ch || decide (ch = ',')) = true ∨ ch = ';') : buf = [] := by
  apply Classical.byContradiction
  intro hb
  obtain ⟨hbl, hat⟩ := hinv hb
  have hdel : atomState status = true → (isWhitespace ch = false ∧ ch ≠ ',' ∧ ch ≠ ';') := by
    intro ha
    have := isDelimiter_false (hat ha)
    exact ⟨this.1, this.2.2.2.2.2.2, this.2.1⟩
  cases status
  case whiteSpace => simp [blankState] at hbl
  case comment => simp [blankState] at hbl
  case stringEscape => simp at h3
  case stringNormal =>
    have hc : ch = '"' ∨ ch = '\\' := by
      by_cases hq : ch = '"'
      · exact Or.inl hq
      · by_cases hs : ch = '\\'
        · exact Or.inr hs
        · simp [hq, hs] at h2
    rcases hc with hc | hc <;> subst hc <;> revert hd <;> decide
  all_goals
    obtain ⟨hw, hc, hs⟩ := hdel rfl
    rcases hd with hd | hd
    · simp [hw, hc] at hd
    · exact hs hd

theorem tokLoop_noCrash (site : List Char) (items : List (Char × Val)) :
    ∀ (tail : Tail) (loc : Loc) (status : TokStatus) (buf : List Char) (begin : Loc), TokInv items status buf →
      NoCrash site (tokLoop items tail loc status buf begin) := by
  induction items with
  | nil =>
    intro tail loc status buf begin _
    unfold tokLoop NoCrash
    split
    · intro h; cases h
    · split <;> (intro h; cases h)
  | cons p items ih =>
    obtain ⟨ch, r⟩ := p
    intro tail loc status buf begin hinv
    rw [tokLoop_cons]
    dsimp only
    repeat' first
      | refine ih _ _ _ _ _ ?_
      | refine tokFinish_noCrash site items tail _ _ (ih tail _) _ _ _ ?_
      | refine ite_pred (fun _ => ?_) (fun _ => ?_)
    all_goals try (intro h; cases h; done)
    all_goals try clear ih
    all_goals try (exact fun _ => rfl)
    all_goals try (exact fun _ => ⟨rfl, fun h => by cases h⟩)
    all_goals try (intro _; clear hinv; cases status <;> first | rfl | (simp at *; done))
    · have hs : status = .comment := by simpa using ‹(status == TokStatus.comment) = true›
      subst hs
      intro hb
      exact absurd (hinv hb).1 (by simp [blankState])
    · have hs : status = .stringNormal := by
        have h := ‹(status == TokStatus.stringNormal && decide (ch ≠ '"') && decide (ch ≠ '\\')) = true›
        simp only [Bool.and_eq_true, beq_iff_eq] at h
        exact h.1.1
      subst hs
      exact tokInv_string _ _
    · intro hb
      exact absurd (buf_nil_of_delim hinv ‹_› ‹_› ‹_› (Or.inl ‹_›)) hb
    · intro hb
      exact absurd (buf_nil_of_delim hinv ‹_› ‹_› ‹_› (Or.inr ‹_›)) hb

/-! ### what a token or an error of the tokenizer carries -/

/-- a token ends somewhere in the input: what is left is a proper suffix, and the `rest` string is the value that
followed the last character read; the `rest` of an error is such a value as well -/
def TokSpec (items : List (Char × Val)) (o : TokOut) : Prop :=
  (∀ v tloc rest remaining newLoc, o = .token v tloc rest remaining newLoc →
    ∃ pre c, items = pre ++ (c, rest.string) :: remaining) ∧
  (∀ msg loc rest, o = .err (.error msg loc rest) → ∃ c, (c, rest.string) ∈ items)

theorem TokSpec.cons {items : List (Char × Val)} {o : TokOut} (p : Char × Val) (h : TokSpec items o) :
    TokSpec (p :: items) o := by
  refine ⟨fun v tloc rest remaining newLoc ho => ?_, fun msg loc rest ho => ?_⟩
  · obtain ⟨pre, c, hpre⟩ := h.1 v tloc rest remaining newLoc ho
    exact ⟨p :: pre, c, by rw [hpre]; rfl⟩
  · obtain ⟨c, hc⟩ := h.2 msg loc rest ho
    exact ⟨c, List.mem_cons_of_mem _ hc⟩

theorem TokSpec.token_here (ch : Char) (r : Val) (items : List (Char × Val)) (v : TokenValue) (tloc newLoc : Loc)
    (l c : Nat) : TokSpec ((ch, r) :: items) (.token v tloc ⟨r, l, c⟩ items newLoc) := by
  refine ⟨fun v tloc rest remaining newLoc ho => ?_, fun msg loc rest ho => by cases ho⟩
  injection ho with _ _ h3 h4 _
  subst h3 h4
  exact ⟨[], ch, rfl⟩

theorem TokSpec.error_here (ch : Char) (r : Val) (items : List (Char × Val)) (msg : List Char) (loc : Loc)
    (l c : Nat) : TokSpec ((ch, r) :: items) (.err (.error msg loc ⟨r, l, c⟩)) := by
  refine ⟨fun v tloc rest remaining newLoc ho => (by cases ho), fun msg loc rest ho => ?_⟩
  injection ho with ho
  injection ho with _ _ h3
  subst h3
  exact ⟨ch, List.mem_cons_self⟩

theorem TokSpec.invalid (items : List (Char × Val)) : TokSpec items (.err .invalidString) :=
  ⟨fun _ _ _ _ _ ho => (by cases ho), fun _ _ _ ho => (by cases ho)⟩

theorem tokFinish_spec (ch : Char) (r : Val) (items : List (Char × Val)) (tail : Tail) (loc : Loc) (l c : Nat)
    (ih : ∀ (status : TokStatus) (buf : List Char) (begin : Loc), TokSpec items (tokLoop items tail loc status buf begin))
    (status : TokStatus) (buf : List Char) (begin : Loc) :
    TokSpec ((ch, r) :: items) (tokFinish items tail loc ⟨r, l, c⟩ status buf begin) := by
  unfold tokFinish
  repeat' first
    | exact (ih _ _ _).cons _
    | exact TokSpec.token_here ..
    | exact TokSpec.error_here ..
    | exact TokSpec.invalid _
    | split
  all_goals exact ⟨fun _ _ _ _ _ ho => (by cases ho), fun _ _ _ ho => (by cases ho)⟩

theorem tokLoop_spec (items : List (Char × Val)) :
    ∀ (tail : Tail) (loc : Loc) (status : TokStatus) (buf : List Char) (begin : Loc),
      TokSpec items (tokLoop items tail loc status buf begin) := by
  induction items with
  | nil =>
    intro tail loc status buf begin
    unfold tokLoop
    split
    · exact TokSpec.invalid _
    · split <;> exact ⟨fun _ _ _ _ _ ho => (by cases ho), fun _ _ _ ho => (by cases ho)⟩
  | cons p items ih =>
    obtain ⟨ch, r⟩ := p
    intro tail loc status buf begin
    rw [tokLoop_cons]
    dsimp only
    repeat' first
      | exact (ih _ _ _ _ _).cons _
      | exact tokFinish_spec ch r items tail _ _ _ (ih tail _) _ _ _
      | exact TokSpec.token_here ..
      | exact TokSpec.error_here ..
      | refine ite_pred (fun _ => ?_) (fun _ => ?_)

theorem nextToken_spec (items : List (Char × Val)) (tail : Tail) (loc : Loc) : TokSpec items (nextToken items tail loc) :=
  tokLoop_spec items tail loc _ _ _

theorem nextToken_noCrash (items : List (Char × Val)) (tail : Tail) (loc : Loc) (site : List Char) :
    nextToken items tail loc ≠ .err (.crash site) :=
  tokLoop_noCrash site items tail loc _ _ _ (fun h => absurd rfl h)

theorem nextToken_shorter {items remaining : List (Char × Val)} {tail : Tail} {loc tloc newLoc : Loc} {v : TokenValue}
    {rest : Rest} (h : nextToken items tail loc = .token v tloc rest remaining newLoc) :
    remaining.length < items.length := by
  obtain ⟨pre, c, hpre⟩ := (nextToken_spec items tail loc).1 _ _ _ _ _ h
  rw [hpre]
  simp
  omega

/-! ### the token loop of `read_internal` -/

theorem tokenAtom_isSome (t : TokenValue) (loc : Loc) (h1 : t ≠ .quote) (h2 : t ≠ .openParen) (h3 : t ≠ .closeParen) :
    ∃ x, tokenAtom t loc = some x := by
  cases t <;> simp_all [tokenAtom]

theorem readLoop_noCrash (site : List Char) (fuel : Nat) : ∀ (items : List (Char × Val)) (tail : Tail) (loc : Loc)
    (stack : List (List Val × Bool)) (quoted : Bool), items.length < fuel →
    readLoop fuel items tail loc stack quoted ≠ .error (.crash site) := by
  induction fuel with
  | zero => intro items tail loc stack quoted h; omega
  | succ fuel ih =>
    intro items tail loc stack quoted hlen
    rw [readLoop]
    cases hnt : nextToken items tail loc with
    | err e =>
      dsimp only
      intro h
      injection h with h
      subst h
      exact nextToken_noCrash _ _ _ _ hnt
    | done => dsimp only; split <;> (intro h; cases h)
    | token v tloc rest remaining newLoc =>
      have hlt : remaining.length < fuel := by
        have := nextToken_shorter hnt
        omega
      cases v
      case quote => exact ih _ _ _ _ _ hlt
      case openParen => exact ih _ _ _ _ _ hlt
      case closeParen =>
        dsimp only
        split
        · intro h; cases h
        · split
          · exact ih _ _ _ _ _ hlt
          · intro h; cases h
      all_goals
        dsimp only [tokenAtom]
        split
        · exact ih _ _ _ _ _ hlt
        · intro h; cases h

theorem readInternal_noCrash (input : Val) (loc : Loc) (site : List Char) :
    readInternal input loc ≠ .error (.crash site) := by
  unfold readInternal
  exact readLoop_noCrash site _ _ _ _ _ _ (Nat.lt_succ_self _)

theorem readCore_noCrash (args : List Val) (d : Nat) (site : List Char) :
    readCore args d ≠ .crash site ∧ readCore args d ≠ .outOfFuel := by
  unfold readCore
  repeat' first | split | (dsimp only)
  all_goals first
    | (exfalso; exact readInternal_noCrash _ _ _ ‹_›)
    | exact ⟨fun h => (by cases h), fun h => (by cases h)⟩

theorem readNative_noCrash (args : List Val) (d : Nat) (site : List Char) :
    readNative args d ≠ .crash site ∧ readNative args d ≠ .outOfFuel := by
  have h := readCore_noCrash args d
  unfold readNative
  split
  · exact ⟨fun h => (by cases h), fun h => (by cases h)⟩
  · exact ⟨fun h => (by cases h), fun h => (by cases h)⟩
  · rename_i s hs
    exact absurd hs (h s).1
  · rename_i hs
    exact absurd hs (h []).2

/-! ### the printer -/

theorem printText_noCrash (args : List Val) (d : Nat) (site : List Char) :
    printText args d ≠ .crash site ∧ printText args d ≠ .outOfFuel := by
  unfold printText
  repeat' split
  all_goals exact ⟨fun h => (by cases h), fun h => (by cases h)⟩

theorem printNative_noCrash (args : List Val) (d : Nat) (site : List Char) :
    printNative args d ≠ .crash site ∧ printNative args d ≠ .outOfFuel := by
  have h := printText_noCrash args d
  unfold printNative
  split
  · exact ⟨fun h => (by cases h), fun h => (by cases h)⟩
  · exact ⟨fun h => (by cases h), fun h => (by cases h)⟩
  · rename_i s hs
    exact absurd hs (h s).1
  · rename_i hs
    exact absurd hs (h []).2

end Pici
