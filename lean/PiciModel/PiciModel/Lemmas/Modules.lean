/-
Helper lemmas about the module table of `Model/State.lean`: `nameLe` is a total order, `sortNames` sorts and
permutes, and `St.getGlobal` depends on its list of hits only up to permutation.
-/
import PiciModel.Model.State

namespace Pici

/-! ### `nameLe` is a total order -/

theorem nameLe_nil (b : Name) : nameLe [] b = true := by
  cases b <;> rfl

theorem nameLe_cons_cons (a b : Char) (as bs : Name) :
    nameLe (a :: as) (b :: bs) =
      if a.toNat < b.toNat then true else if b.toNat < a.toNat then false else nameLe as bs := rfl

theorem nameLe_refl (a : Name) : nameLe a a = true := by
  induction a with
  | nil => rfl
  | cons c cs ih => simp [nameLe_cons_cons, ih]

theorem nameLe_total (a b : Name) : nameLe a b = true ∨ nameLe b a = true := by
  induction a generalizing b with
  | nil => exact .inl (nameLe_nil b)
  | cons c cs ih =>
    cases b with
    | nil => exact .inr (nameLe_nil _)
    | cons d ds =>
      simp only [nameLe_cons_cons]
      by_cases h1 : c.toNat < d.toNat
      · simp [h1]
      · by_cases h2 : d.toNat < c.toNat
        · simp [h2]
        · simp only [h1, h2, if_false]
          exact ih ds

theorem nameLe_of_not (a b : Name) (h : nameLe a b = false) : nameLe b a = true := by
  cases nameLe_total a b with
  | inl h' => rw [h] at h'; cases h'
  | inr h' => exact h'

theorem nameLe_trans (a b c : Name) (h1 : nameLe a b = true) (h2 : nameLe b c = true) :
    nameLe a c = true := by
  induction a generalizing b c with
  | nil => exact nameLe_nil c
  | cons x xs ih =>
    cases b with
    | nil => cases h1
    | cons y ys =>
      cases c with
      | nil => cases h2
      | cons z zs =>
        simp only [nameLe_cons_cons] at h1 h2 ⊢
        by_cases hxy : x.toNat < y.toNat
        · by_cases hyz : y.toNat < z.toNat
          · have : x.toNat < z.toNat := Nat.lt_trans hxy hyz
            simp [this]
          · by_cases hzy : z.toNat < y.toNat
            · simp [hyz, hzy] at h2
            · have : x.toNat < z.toNat := by omega
              simp [this]
        · by_cases hyx : y.toNat < x.toNat
          · simp [hxy, hyx] at h1
          · simp only [hxy, hyx, if_false] at h1
            have hxy' : x.toNat = y.toNat := by omega
            by_cases hyz : y.toNat < z.toNat
            · have : x.toNat < z.toNat := by omega
              simp [this]
            · by_cases hzy : z.toNat < y.toNat
              · simp [hyz, hzy] at h2
              · simp only [hyz, hzy, if_false] at h2
                have hxz : ¬ x.toNat < z.toNat := by omega
                have hzx : ¬ z.toNat < x.toNat := by omega
                simp only [hxz, hzx, if_false]
                exact ih ys zs h1 h2

theorem char_eq_of_toNat_eq (a b : Char) (h : a.toNat = b.toNat) : a = b := by
  apply Char.ext
  apply UInt32.toNat_inj.mp
  exact h

theorem nameLe_antisymm (a b : Name) (h1 : nameLe a b = true) (h2 : nameLe b a = true) : a = b := by
  induction a generalizing b with
  | nil =>
    cases b with
    | nil => rfl
    | cons d ds => cases h2
  | cons c cs ih =>
    cases b with
    | nil => cases h1
    | cons d ds =>
      simp only [nameLe_cons_cons] at h1 h2
      by_cases hcd : c.toNat < d.toNat
      · have : ¬ d.toNat < c.toNat := by omega
        simp [hcd, this] at h2
      · by_cases hdc : d.toNat < c.toNat
        · simp [hcd, hdc] at h1
        · simp only [hcd, hdc, if_false] at h1 h2
          have : c = d := char_eq_of_toNat_eq c d (by omega)
          rw [this, ih ds h1 h2]

/-! ### `insertName` / `sortNames` -/

theorem insertName_perm (n : Name) (l : List Name) : (insertName n l).Perm (n :: l) := by
  induction l with
  | nil => exact List.Perm.refl _
  | cons m ms ih =>
    simp only [insertName]
    split
    · exact List.Perm.refl _
    · exact (List.Perm.cons m ih).trans (List.Perm.swap n m ms)

theorem sortNames_perm (l : List Name) : (sortNames l).Perm l := by
  induction l with
  | nil => exact List.Perm.refl _
  | cons n ns ih =>
    simp only [sortNames]
    exact (insertName_perm n _).trans (List.Perm.cons n ih)

theorem sortNames_length (l : List Name) : (sortNames l).length = l.length :=
  (sortNames_perm l).length_eq

theorem mem_insertName (x n : Name) (l : List Name) : x ∈ insertName n l ↔ x = n ∨ x ∈ l := by
  rw [(insertName_perm n l).mem_iff, List.mem_cons]

theorem mem_sortNames (x : Name) (l : List Name) : x ∈ sortNames l ↔ x ∈ l :=
  (sortNames_perm l).mem_iff

theorem insertName_sorted (n : Name) (l : List Name) (h : l.Pairwise (fun a b => nameLe a b = true)) :
    (insertName n l).Pairwise (fun a b => nameLe a b = true) := by
  induction l with
  | nil => simp [insertName]
  | cons m ms ih =>
    simp only [insertName]
    rw [List.pairwise_cons] at h
    split
    · rename_i hnm
      rw [List.pairwise_cons]
      refine ⟨?_, List.pairwise_cons.mpr h⟩
      intro x hx
      rcases List.mem_cons.mp hx with rfl | hx
      · exact hnm
      · exact nameLe_trans _ _ _ hnm (h.1 x hx)
    · rename_i hnm
      have hmn : nameLe m n = true := nameLe_of_not n m (by simpa using hnm)
      rw [List.pairwise_cons]
      refine ⟨?_, ih h.2⟩
      intro x hx
      rcases (mem_insertName x n ms).mp hx with rfl | hx
      · exact hmn
      · exact h.1 x hx

theorem sortNames_sorted (l : List Name) : (sortNames l).Pairwise (fun a b => nameLe a b = true) := by
  induction l with
  | nil => exact List.Pairwise.nil
  | cons n ns ih => exact insertName_sorted n _ ih

/-- the sorted list is determined by the multiset of names -/
theorem sortNames_eq_of_perm (l₁ l₂ : List Name) (h : l₁.Perm l₂) : sortNames l₁ = sortNames l₂ := by
  apply List.Perm.eq_of_pairwise (le := fun a b => nameLe a b = true)
  · intro a b _ _ hab hba
    exact nameLe_antisymm a b hab hba
  · exact sortNames_sorted l₁
  · exact sortNames_sorted l₂
  · exact (sortNames_perm l₁).trans (h.trans (sortNames_perm l₂).symm)

/-! ### the answer of `getGlobal` as a function of its hits -/

/-- the `match` of `St.getGlobal` -/
def resolveHits (hits : List (Name × Val)) : Lookup :=
  match hits with
  | []        => .notFound
  | [(_, v)]  => .found v
  | _         => .ambiguous (sortNames (hits.map (·.1)))

theorem getGlobal_eq_resolveHits (st : St) (name home : Name) :
    st.getGlobal name home =
      resolveHits (st.modules.filterMap fun m => (m.get name home).map fun v => (m.name, v)) := rfl

theorem resolveHits_nil : resolveHits [] = .notFound := rfl

theorem resolveHits_singleton (p : Name × Val) : resolveHits [p] = .found p.2 := rfl

theorem resolveHits_many (p q : Name × Val) (r : List (Name × Val)) :
    resolveHits (p :: q :: r) = .ambiguous (sortNames ((p :: q :: r).map (·.1))) := rfl

theorem resolveHits_perm (h₁ h₂ : List (Name × Val)) (h : h₁.Perm h₂) : resolveHits h₁ = resolveHits h₂ := by
  have hlen := h.length_eq
  match h₁, h₂, h, hlen with
  | [], [], _, _ => rfl
  | [p], [q], h, _ =>
    have : p = q := by simpa using h
    rw [this]
  | p :: q :: r, p' :: q' :: r', h, _ =>
    rw [resolveHits_many, resolveHits_many]
    congr 1
    exact sortNames_eq_of_perm _ _ (h.map _)
  | [], _ :: _, _, hl => simp at hl
  | _ :: _, [], _, hl => simp at hl
  | [_], _ :: _ :: _, _, hl => simp at hl
  | _ :: _ :: _, [_], _, hl => simp at hl

/-! ### hits of `getGlobal` matched position by position with the modules they come from -/

/-- a hit `p` of `getGlobal` comes from the visible module `m` -/
def HitOf (name : Name) (p : Name × Val) (m : Module) : Prop :=
  p.1 = m.name ∧ m.defs.lookup name = some p.2

/-- `hits` are, position by position, definitions of `name` in the modules `vis` -/
inductive HitsOf (name : Name) : List (Name × Val) → List Module → Prop where
  | nil : HitsOf name [] []
  | cons {p m ps ms} : HitOf name p m → HitsOf name ps ms → HitsOf name (p :: ps) (m :: ms)

theorem hitsOf_names (name : Name) (hits : List (Name × Val)) (vis : List Module)
    (h : HitsOf name hits vis) : hits.map (·.1) = vis.map (·.name) := by
  induction h with
  | nil => rfl
  | cons hd _ ih => simp only [List.map_cons, ih, hd.1]

theorem hitsOf_length (name : Name) (hits : List (Name × Val)) (vis : List Module)
    (h : HitsOf name hits vis) : hits.length = vis.length := by
  induction h with
  | nil => rfl
  | cons _ _ ih => simp only [List.length_cons, ih]

theorem resolve_found_iff (name : Name) (hits : List (Name × Val)) (vis : List Module)
    (h : HitsOf name hits vis) (v : Val) :
    resolveHits hits = .found v ↔ ∃ m, vis = [m] ∧ m.defs.lookup name = some v := by
  cases h with
  | nil => simp [resolveHits_nil]
  | cons hd tl =>
    rename_i p m ps ms
    cases tl with
    | nil =>
      rw [resolveHits_singleton]
      constructor
      · intro hf
        injection hf with hf
        exact ⟨m, rfl, hf ▸ hd.2⟩
      · rintro ⟨m', hm', hl⟩
        have : m = m' := by simpa using hm'
        subst this
        rw [hd.2] at hl
        injection hl with hl
        rw [hl]
    | cons hd' tl' =>
      rw [resolveHits_many]
      simp

theorem resolve_notFound_iff (name : Name) (hits : List (Name × Val)) (vis : List Module)
    (h : HitsOf name hits vis) :
    resolveHits hits = .notFound ↔ vis = [] := by
  cases h with
  | nil => simp [resolveHits_nil]
  | cons hd tl =>
    cases tl with
    | nil => simp [resolveHits_singleton]
    | cons hd' tl' => simp [resolveHits_many]

theorem resolve_ambiguous_iff (name : Name) (hits : List (Name × Val)) (vis : List Module)
    (h : HitsOf name hits vis) (l : List Name) :
    resolveHits hits = .ambiguous l ↔ 2 ≤ vis.length ∧ l = sortNames (vis.map (·.name)) := by
  have hn := hitsOf_names name hits vis h
  cases h with
  | nil => simp [resolveHits_nil]
  | cons hd tl =>
    cases tl with
    | nil => simp [resolveHits_singleton]
    | cons hd' tl' =>
      rw [resolveHits_many, hn]
      constructor
      · intro hf
        injection hf with hf
        exact ⟨by simp [List.length_cons], hf.symm⟩
      · rintro ⟨_, hl⟩
        rw [hl]

end Pici
