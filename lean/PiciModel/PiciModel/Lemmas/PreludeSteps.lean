/-
Helper lemmas for Props/C16: the shape of the prelude bodies of `Generated/Prelude.lean` UP TO the reader metadata
(every atom is `.md atom meta`; nothing here depends on what the metadata says), the rules of the reference semantics
(`Spec/RefEval.lean`) specialised to such atoms, what the core primitives return, and a "runs from every later step
count" form of the evaluator (`RunsJ`) in which evaluations that are not covered by the reference semantics (a call of an
arbitrary pure function value) can be composed with those that are.
-/
import PiciModel.Props.C05
import PiciModel.Lemmas.Numbers
import PiciModel.Lemmas.Depth
import PiciModel.Generated.Prelude

namespace Pici
open Pici.Ref

/-! ### atoms as the reader produces them -/

/-- a symbol with its reader metadata -/
def symA (n : Name) (m : Meta) : Val := .md (.symName n) m
/-- a number literal with its reader metadata -/
def numA (k : Int) (m : Meta) : Val := .md (.num k) m

theorem symA_get (n : Name) (m : Meta) : (symA n m).get = .sym (.named n) := rfl
theorem symA_listToVec (n : Name) (m : Meta) : listToVec (symA n m) = none := rfl
theorem symA_isSymNamed (n x : Name) (m : Meta) : (symA n m).isSymNamed x = (n == x) := rfl
theorem numA_get (k : Int) (m : Meta) : (numA k m).get = .num k := rfl
theorem numA_listToVec (k : Int) (m : Meta) : listToVec (numA k m) = none := rfl

theorem isSpecial_symA (n : Name) (m : Meta) :
    isSpecial (symA n m) = (n == cs!"lambda" || n == cs!"quote" || n == cs!"if" || n == cs!"trap") := rfl

theorem ofList_cons_getMeta (x : Val) (xs : List Val) : (Val.ofList (x :: xs)).getMeta = none := rfl

/-! ### the shape of the prelude bodies, up to metadata -/

namespace Prelude

theorem length_params_shape : ∃ p1, length_params = .ofList [symA cs!"things" p1] := ⟨_, rfl⟩
theorem length_rest_eq : length_rest = .nil := rfl
theorem length_body_shape : ∃ m1 m2 m3,
    length_body = .ofList [symA cs!"-length" m1, symA cs!"things" m2, numA 0 m3] := ⟨_, _, _, rfl⟩

theorem f_length_params_shape : ∃ p1 p2, f_length_params = .ofList [symA cs!"things" p1, symA cs!"n" p2] := ⟨_, _, rfl⟩
theorem f_length_rest_eq : f_length_rest = .nil := rfl
theorem f_length_body_shape : ∃ m1 m2 m3 m4 m5 m6 m7 m8 m9, f_length_body =
    .ofList [symA cs!"if" m1, symA cs!"things" m2,
      .ofList [symA cs!"-length" m3, .ofList [symA cs!"cdr" m4, symA cs!"things" m5],
               .ofList [symA cs!"add" m6, symA cs!"n" m7, numA 1 m8]],
      symA cs!"n" m9] := ⟨_, _, _, _, _, _, _, _, _, rfl⟩

theorem range_params_shape : ∃ p1, range_params = .ofList [symA cs!"n" p1] := ⟨_, rfl⟩
theorem range_rest_eq : range_rest = .nil := rfl
theorem range_body_shape : ∃ m1 m2 m3 m4 m5,
    range_body = .ofList [symA cs!"-range" m1, .ofList [symA cs!"substract" m2, symA cs!"n" m3, numA 1 m4], symA cs!"nil" m5] :=
  ⟨_, _, _, _, _, rfl⟩

theorem f_range_params_shape : ∃ p1 p2, f_range_params = .ofList [symA cs!"n" p1, symA cs!"init" p2] := ⟨_, _, rfl⟩
theorem f_range_rest_eq : f_range_rest = .nil := rfl
theorem f_range_body_shape : ∃ m1 m2 m3 m4 m5 m6 m7 m8 m9 m10 m11 m12, f_range_body =
    .ofList [symA cs!"if" m1, .ofList [symA cs!"<" m2, symA cs!"n" m3, numA 0 m4], symA cs!"init" m5,
      .ofList [symA cs!"-range" m6, .ofList [symA cs!"substract" m7, symA cs!"n" m8, numA 1 m9],
               .ofList [symA cs!"cons" m10, symA cs!"n" m11, symA cs!"init" m12]]] :=
  ⟨_, _, _, _, _, _, _, _, _, _, _, _, rfl⟩

theorem foldl_params_shape : ∃ p1 p2 p3,
    foldl_params = .ofList [symA cs!"f" p1, symA cs!"init" p2, symA cs!"things" p3] := ⟨_, _, _, rfl⟩
theorem foldl_rest_eq : foldl_rest = .nil := rfl
theorem foldl_body_shape : ∃ m1 m2 m3 m4 m5 m6 m7 m8 m9 m10 m11, foldl_body =
    .ofList [symA cs!"if" m1, symA cs!"things" m2,
      .ofList [symA cs!"foldl" m3, symA cs!"f" m4,
               .ofList [symA cs!"f" m5, symA cs!"init" m6, .ofList [symA cs!"car" m7, symA cs!"things" m8]],
               .ofList [symA cs!"cdr" m9, symA cs!"things" m10]],
      symA cs!"init" m11] := ⟨_, _, _, _, _, _, _, _, _, _, _, rfl⟩

theorem reverse_params_shape : ∃ p1, reverse_params = .ofList [symA cs!"things" p1] := ⟨_, rfl⟩
theorem reverse_rest_eq : reverse_rest = .nil := rfl
theorem reverse_body_shape : ∃ m1 m2 m3 m4 m5 m6 m7 m8 m9, reverse_body =
    .ofList [symA cs!"foldl" m1,
      .ofList [symA cs!"lambda" m2, .ofList [symA cs!"xs" m3, symA cs!"x" m4],
               .ofList [symA cs!"cons" m5, symA cs!"x" m6, symA cs!"xs" m7]],
      symA cs!"nil" m8, symA cs!"things" m9] := ⟨_, _, _, _, _, _, _, _, _, rfl⟩

theorem when_params_shape : ∃ p1 p2, when_params = .ofList [symA cs!"condition" p1, symA cs!"then" p2] := ⟨_, _, rfl⟩
theorem when_rest_eq : when_rest = .nil := rfl
theorem when_body_shape : ∃ m1 m2 m3 m4 m5, when_body =
    .ofList [symA cs!"list" m1, .ofList [.symName cs!"quote", symA cs!"if" m2], symA cs!"condition" m3, symA cs!"then" m4,
             symA cs!"nil" m5] := ⟨_, _, _, _, _, rfl⟩

theorem and_params_shape : ∃ p1 p2, and_params = .ofList [symA cs!"x" p1, symA cs!"y" p2] := ⟨_, _, rfl⟩
theorem and_rest_eq : and_rest = .nil := rfl
theorem and_body_shape : ∃ m1 m2 m3 m4 m5, and_body =
    .ofList [symA cs!"list" m1, .ofList [.symName cs!"quote", symA cs!"if" m2], symA cs!"x" m3, symA cs!"y" m4,
             symA cs!"nil" m5] := ⟨_, _, _, _, _, rfl⟩

theorem not_params_shape : ∃ p1, not_params = .ofList [symA cs!"x" p1] := ⟨_, rfl⟩
theorem not_rest_eq : not_rest = .nil := rfl
theorem not_body_shape : ∃ m1 m2 m3 m4 m5, not_body =
    .ofList [symA cs!"list" m1, .ofList [.symName cs!"quote", symA cs!"if" m2], symA cs!"x" m3, symA cs!"nil" m4,
             symA cs!"t" m5] := ⟨_, _, _, _, _, rfl⟩

theorem f_length_fn_eq : f_length_fn = .fn .lambda f_length_rest f_length_params f_length_body .nil cs!"prelude" := rfl
theorem f_range_fn_eq : f_range_fn = .fn .lambda f_range_rest f_range_params f_range_body .nil cs!"prelude" := rfl
theorem foldl_fn_eq : foldl_fn = .fn .lambda foldl_rest foldl_params foldl_body .nil cs!"prelude" := rfl

theorem f_length_mem : (cs!"-length", f_length_fn) ∈ table := by simp [table]
theorem f_range_mem : (cs!"-range", f_range_fn) ∈ table := by simp [table]
theorem foldl_mem : (cs!"foldl", foldl_fn) ∈ table := by simp [table]

end Prelude

/-! ### parameter binding and variable lookup -/

theorem pair1 (p1 a1 fenv : Val) (name : Option Name) :
    pairParamsAndArgs .nil (.ofList [p1]) fenv name [a1] = .ok (.cons (.cons p1 a1) fenv) := by
  simp [pairParamsAndArgs, listToVec_ofList, bindParams, Val.restParam?]

theorem pair2 (p1 p2 a1 a2 fenv : Val) (name : Option Name) :
    pairParamsAndArgs .nil (.ofList [p1, p2]) fenv name [a1, a2] =
      .ok (.cons (.cons p2 a2) (.cons (.cons p1 a1) fenv)) := by
  simp [pairParamsAndArgs, listToVec_ofList, bindParams, Val.restParam?]

theorem pair3 (p1 p2 p3 a1 a2 a3 fenv : Val) (name : Option Name) :
    pairParamsAndArgs .nil (.ofList [p1, p2, p3]) fenv name [a1, a2, a3] =
      .ok (.cons (.cons p3 a3) (.cons (.cons p2 a2) (.cons (.cons p1 a1) fenv))) := by
  simp [pairParamsAndArgs, listToVec_ofList, bindParams, Val.restParam?]

theorem lookupEnv_nil (s : Sym) : lookupEnv s .nil = none := rfl

theorem lookupEnv_hit (n : Name) (m : Meta) (v rest : Val) :
    lookupEnv (.named n) (.cons (.cons (symA n m) v) rest) = some v := by
  simp [lookupEnv, symA, Val.get, Val.symName]

theorem lookupEnv_miss (n n' : Name) (m : Meta) (v rest : Val) (h : n' ≠ n) :
    lookupEnv (.named n) (.cons (.cons (symA n' m) v) rest) = lookupEnv (.named n) rest := by
  simp [lookupEnv, symA, Val.get, Val.symName, h]

/-! ### the rules of the reference semantics on atoms -/

section rules
variable {G : Globals} {env : Val} {home : Name} {d : Nat}

theorem ev_local {n : Name} {m : Meta} {v : Val} (hd : d ≤ Config.maxRecursionDepth)
    (h : lookupEnv (.named n) env = some v) : Eval G env home d (symA n m) (.ok v) :=
  Eval.varLocal hd rfl rfl h

theorem ev_global {n : Name} {m : Meta} {v : Val} (hd : d ≤ Config.maxRecursionDepth)
    (h : lookupEnv (.named n) env = none) (hG : G n home = .found v) : Eval G env home d (symA n m) (.ok v) :=
  Eval.varGlobal (s := .named n) hd rfl rfl h hG

/-- a number literal evaluates to itself — WITH its metadata -/
theorem ev_num {k : Int} {m : Meta} (hd : d ≤ Config.maxRecursionDepth) :
    Eval G env home d (numA k m) (.ok (numA k m)) :=
  Eval.selfEval hd rfl (fun _ _ h => by cases h) (fun _ _ h => by cases h) (fun _ h => by cases h)

/-- `'x` is the datum `x` — WITH its metadata -/
theorem ev_quote {x : Val} (hd : d ≤ Config.maxRecursionDepth) :
    Eval G env home d (.ofList [.symName cs!"quote", x]) (.ok x) :=
  Eval.quote (first := .symName cs!"quote") hd rfl rfl rfl

theorem ev_if {m : Meta} {c t o v : Val} {r : Res Val} (hd : d ≤ Config.maxRecursionDepth)
    (hc : Eval G env home (d + 1) c (.ok v)) (hb : Eval G env home d (if !v.isNil then t else o) r) :
    Eval G env home d (.ofList [symA cs!"if" m, c, t, o]) r :=
  Eval.ifBranch (first := symA cs!"if" m) hd rfl rfl rfl rfl hc hb

theorem ev_if_true {m : Meta} {c t o v : Val} {r : Res Val} (hd : d ≤ Config.maxRecursionDepth)
    (hc : Eval G env home (d + 1) c (.ok v)) (hv : v.isNil = false) (hb : Eval G env home d t r) :
    Eval G env home d (.ofList [symA cs!"if" m, c, t, o]) r :=
  ev_if hd hc (by rw [hv]; exact hb)

theorem ev_if_false {m : Meta} {c t o v : Val} {r : Res Val} (hd : d ≤ Config.maxRecursionDepth)
    (hc : Eval G env home (d + 1) c (.ok v)) (hv : v.isNil = true) (hb : Eval G env home d o r) :
    Eval G env home d (.ofList [symA cs!"if" m, c, t, o]) r :=
  ev_if hd hc (by rw [hv]; exact hb)

theorem ev_lambda {m : Meta} {operands : List Val} (hd : d ≤ Config.maxRecursionDepth) :
    Eval G env home d (.ofList (symA cs!"lambda" m :: operands))
      (makeFunctionInternal operands env home cs!"lambda" .lambda) :=
  Eval.lambda (first := symA cs!"lambda" m) hd (listToVec_ofList _) rfl

theorem ev_prim {first : Val} {operands args : List Val} {f : Val} {id : NativeId} {r : Res Val}
    (hd : d ≤ Config.maxRecursionDepth)
    (hsp : isSpecial first = false) (hop : Eval G env home (d + 1) first (.ok f)) (hf : f.get = .native id)
    (hc : corePrim id = true) (ha : EvalArgs G env home d operands (.ok args)) (hr : primResult id args (d + 1) = r) :
    Eval G env home d (.ofList (first :: operands)) r :=
  hr ▸ Eval.callPrim hd (listToVec_ofList _) hsp hop hf hc ha

theorem ev_call {first : Val} {operands args : List Val} {f : Val} {k : Kind} {rest params body fenv newEnv : Val}
    {fmod : Name} {r : Res Val} (hd : d ≤ Config.maxRecursionDepth)
    (hsp : isSpecial first = false) (hop : Eval G env home (d + 1) first (.ok f))
    (hf : f.get = .fn k rest params body fenv fmod) (ha : EvalArgs G env home d operands (.ok args))
    (hp : pairParamsAndArgs rest params fenv none args = .ok newEnv)
    (hb : Eval G newEnv fmod d body r) :
    Eval G env home d (.ofList (first :: operands)) r :=
  Eval.callClosure hd (listToVec_ofList _) hsp hop hf ha hp hb

theorem evs_one {x v : Val} (h : Eval G env home (d + 1) x (.ok v)) : EvalArgs G env home d [x] (.ok [v]) :=
  .cons h .nil

theorem evs_two {x y v w : Val} (h1 : Eval G env home (d + 1) x (.ok v)) (h2 : Eval G env home (d + 1) y (.ok w)) :
    EvalArgs G env home d [x, y] (.ok [v, w]) :=
  .cons h1 (.cons h2 .nil)

end rules

/-! ### what the core primitives return -/

theorem prim_list (args : List Val) (d : Nat) : primResult .list args d = .ok (.ofList args) := rfl
theorem prim_cons (a b : Val) (d : Nat) : primResult .cons [a, b] d = .ok (.cons a b) := rfl

theorem prim_car (c a b : Val) (d : Nat) (h : c.get = .cons a b) : primResult .car [c] d = .ok a := by
  simp [primResult, simpleNative, arity1, h]

theorem prim_cdr (c a b : Val) (d : Nat) (h : c.get = .cons a b) : primResult .cdr [c] d = .ok b := by
  simp [primResult, simpleNative, arity1, h]

theorem prim_add (a b : Val) (x y : Int) (d : Nat) (ha : a.get = .num x) (hb : b.get = .num y)
    (hx : inRange x = true) (hy : inRange y = true) (hr : inRange (x + y) = true) :
    primResult .add [a, b] d = .ok (.num (x + y)) := by
  simp only [primResult, simpleNative]
  rw [arith_exact cs!"add" checkedAdd (· + ·) a b x y _ ha hb (checkedAdd_toI64 x y hx hy), if_pos hr]

theorem prim_substract (a b : Val) (x y : Int) (d : Nat) (ha : a.get = .num x) (hb : b.get = .num y)
    (hx : inRange x = true) (hy : inRange y = true) (hr : inRange (x - y) = true) :
    primResult .substract [a, b] d = .ok (.num (x - y)) := by
  simp only [primResult, simpleNative]
  rw [arith_exact cs!"substract" checkedSub (· - ·) a b x y _ ha hb (checkedSub_toI64 x y hx hy), if_pos hr]

theorem prim_less (a b : Val) (x y : Int) (d : Nat) (ha : a.get = .num x) (hb : b.get = .num y)
    (hx : inRange x = true) (hy : inRange y = true) :
    primResult .less [a, b] d = .ok (if x < y then .symName cs!"t" else .nil) := by
  simp only [primResult, simpleNative]
  rw [compare_nums cs!"<" lessI64 a b x y _ ha hb, lessI64_toI64 x y hx hy]
  simp

/-! ### evaluations that start from any later step count -/

/-- from every state that differs from `st` by its step counter only, with enough fuel, the evaluator answers `r` and only counts steps -/
def RunsJ (st : St) (e env : Val) (home : Name) (d : Nat) (r : Res Val) : Prop :=
  ∀ j, ∃ F k, ∀ n, F ≤ n → evalInternal n (C05.bump st j) e env home d = (r, C05.bump st (j + k))

def RunsArgsJ (st : St) (xs : List Val) (env : Val) (home : Name) (d : Nat) (r : Res (List Val)) : Prop :=
  ∀ j, ∃ F k, ∀ n, F ≤ n → evalArgs n (C05.bump st j) xs env home d = (r, C05.bump st (j + k))

theorem RunsJ.of_eval {G : Globals} {st : St} {e env : Val} {home : Name} {d : Nat} {r : Res Val}
    (hs : C05.Sees st G) (h : Eval G env home d e r) : RunsJ st e env home d r := by
  intro j
  obtain ⟨F, k, hF⟩ := C05.eval_runs h (C05.bump st j) (hs.bump j)
  exact ⟨F, k, fun n hn => by rw [hF n hn, C05.bump_bump]⟩

theorem RunsArgsJ.of_evalArgs {G : Globals} {st : St} {xs : List Val} {env : Val} {home : Name} {d : Nat}
    {r : Res (List Val)} (hs : C05.Sees st G) (h : EvalArgs G env home d xs r) : RunsArgsJ st xs env home d r := by
  intro j
  obtain ⟨F, k, hF⟩ := C05.evalArgs_runs h (C05.bump st j) (hs.bump j)
  exact ⟨F, k, fun n hn => by rw [hF n hn, C05.bump_bump]⟩

theorem poll_bump (st : St) (h : st.attached = false) (j : Nat) :
    pollDebugger (C05.bump st j) = (none, C05.bump st (j + 1)) := by
  simp [pollDebugger, C05.bump, h, Nat.add_assoc]

theorem RunsJ.step {st : St} {e env : Val} {home : Name} {d : Nat} {r : Res Val}
    (h : ∀ j, ∃ F k, ∀ n, F ≤ n → evalInternal (n + 1) (C05.bump st j) e env home d = (r, C05.bump st (j + k))) :
    RunsJ st e env home d r := by
  intro j
  obtain ⟨F, k, hF⟩ := h j
  refine ⟨F + 1, k, fun n hn => ?_⟩
  obtain ⟨m, rfl⟩ : ∃ m, n = m + 1 := ⟨n - 1, by omega⟩
  exact hF m (by omega)

theorem RunsArgsJ.step {st : St} {xs : List Val} {env : Val} {home : Name} {d : Nat} {r : Res (List Val)}
    (h : ∀ j, ∃ F k, ∀ n, F ≤ n → evalArgs (n + 1) (C05.bump st j) xs env home d = (r, C05.bump st (j + k))) :
    RunsArgsJ st xs env home d r := by
  intro j
  obtain ⟨F, k, hF⟩ := h j
  refine ⟨F + 1, k, fun n hn => ?_⟩
  obtain ⟨m, rfl⟩ : ∃ m, n = m + 1 := ⟨n - 1, by omega⟩
  exact hF m (by omega)

theorem RunsArgsJ.nil (st : St) (env : Val) (home : Name) (d : Nat) : RunsArgsJ st [] env home d (.ok []) :=
  RunsArgsJ.step fun _ => ⟨0, 0, fun n _ => step_args_nil n _ env home d⟩

theorem RunsArgsJ.cons {st : St} {x : Val} {xs : List Val} {env : Val} {home : Name} {d : Nat} {v : Val} {vs : List Val}
    (h1 : RunsJ st x env home (d + 1) (.ok v)) (h2 : RunsArgsJ st xs env home d (.ok vs)) :
    RunsArgsJ st (x :: xs) env home d (.ok (v :: vs)) := by
  refine RunsArgsJ.step fun j => ?_
  obtain ⟨F1, k1, hF1⟩ := h1 j
  obtain ⟨F2, k2, hF2⟩ := h2 (j + k1)
  refine ⟨F1 + F2, k1 + k2, fun n hn => ?_⟩
  rw [step_args_cons n _ _ _ x xs env home d v vs (hF1 n (by omega)) (hF2 n (by omega)), Nat.add_assoc]

/-- `(if c t o)` when the condition yields a value: the chosen branch at the same depth -/
theorem RunsJ.ifOk {st : St} (hatt : st.attached = false) {e env : Val} {home : Name} {d : Nat} {first c t o v : Val}
    {r : Res Val} (hd : d ≤ Config.maxRecursionDepth) (hl : listToVec e = some [first, c, t, o])
    (hlam : first.isSymNamed cs!"lambda" = false) (hq : first.isSymNamed cs!"quote" = false)
    (hif : first.isSymNamed cs!"if" = true)
    (hc : RunsJ st c env home (d + 1) (.ok v)) (hb : RunsJ st (if !v.isNil then t else o) env home d r) :
    RunsJ st e env home d r := by
  refine RunsJ.step fun j => ?_
  obtain ⟨F1, k1, hF1⟩ := hc (j + 1)
  obtain ⟨F2, k2, hF2⟩ := hb (j + 1 + k1)
  refine ⟨F1 + F2, 1 + k1 + k2, fun n hn => ?_⟩
  rw [step_ifOk n _ _ e env home d hd (poll_bump st hatt j) first c t o _ v hl hlam hq hif (hF1 n (by omega)),
    hF2 n (by omega)]
  simp only [Nat.add_assoc]

theorem RunsJ.ifTrue {st : St} (hatt : st.attached = false) {env : Val} {home : Name} {d : Nat} {m : Meta} {c t o v : Val}
    {r : Res Val} (hd : d ≤ Config.maxRecursionDepth)
    (hc : RunsJ st c env home (d + 1) (.ok v)) (hv : v.isNil = false) (hb : RunsJ st t env home d r) :
    RunsJ st (.ofList [symA cs!"if" m, c, t, o]) env home d r :=
  RunsJ.ifOk hatt (first := symA cs!"if" m) hd rfl rfl rfl rfl hc (by rw [hv]; exact hb)

/-- a call of a closure: the body at the depth of the call -/
theorem RunsJ.callClosure {st : St} (hatt : st.attached = false) {e env : Val} {home : Name} {d : Nat} {first : Val}
    {operands args : List Val} {f : Val} {k : Kind} {rest params body fenv newEnv : Val} {fmod : Name} {r : Res Val}
    (hd : d ≤ Config.maxRecursionDepth) (hl : listToVec e = some (first :: operands)) (hsp : isSpecial first = false)
    (hop : RunsJ st first env home (d + 1) (.ok f)) (hf : f.get = .fn k rest params body fenv fmod)
    (ha : RunsArgsJ st operands env home d (.ok args))
    (hp : pairParamsAndArgs rest params fenv (e.getMeta.map (·.readName)) args = .ok newEnv)
    (hb : RunsJ st body newEnv fmod d r) :
    RunsJ st e env home d r := by
  refine RunsJ.step fun j => ?_
  obtain ⟨F1, k1, hF1⟩ := hop (j + 1)
  obtain ⟨F2, k2, hF2⟩ := ha (j + 1 + k1)
  obtain ⟨F3, k3, hF3⟩ := hb (j + 1 + k1 + k2)
  refine ⟨F1 + F2 + F3, 1 + k1 + k2 + k3, fun n hn => ?_⟩
  rw [step_callClosure n _ _ e env home d hd (poll_bump st hatt j) first operands _ _ f k rest params body fenv fmod args
    newEnv hl hsp (hF1 n (by omega)) hf (hF2 n (by omega)) hp, hF3 n (by omega)]
  simp only [Nat.add_assoc]

/-- a call of a native (other than `eval`, which the evaluator does not call as a native) that answers `r` whatever the
step count, the environment and the fuel -/
theorem RunsJ.callNative {st : St} (hatt : st.attached = false) {e env : Val} {home : Name} {d : Nat} {first : Val}
    {operands args : List Val} {f : Val} {id : NativeId} {r : Val}
    (hd : d ≤ Config.maxRecursionDepth) (hl : listToVec e = some (first :: operands)) (hsp : isSpecial first = false)
    (hop : RunsJ st first env home (d + 1) (.ok f)) (hf : f.get = .native id) (hid : id ≠ .eval)
    (ha : RunsArgsJ st operands env home d (.ok args))
    (hn : ∀ fuel j, applyNative (fuel + 1) (C05.bump st j) id args env (d + 1) = (.ok r, C05.bump st j)) :
    RunsJ st e env home d (.ok r) := by
  obtain ⟨hlam, hq, hif, htrap⟩ := isSpecial_false hsp
  refine RunsJ.step fun j => ?_
  obtain ⟨F1, k1, hF1⟩ := hop (j + 1)
  obtain ⟨F2, k2, hF2⟩ := ha (j + 1 + k1)
  refine ⟨F1 + F2 + 1, 1 + k1 + k2, fun n hn' => ?_⟩
  obtain ⟨m, rfl⟩ : ∃ m, n = m + 1 := ⟨n - 1, by omega⟩
  rw [evalInternal_native (m + 1) _ _ _ _ e first operands env home d f id args hl hlam hq hif htrap hd
    (poll_bump st hatt j) (hF1 (m + 1) (by omega)) hf hid (hF2 (m + 1) (by omega)), hn m]
  simp only [Nat.add_assoc]

/-- the answer at ONE fuel and step count -/
theorem RunsJ.at_zero {st : St} {e env : Val} {home : Name} {d : Nat} {r : Res Val} (h : RunsJ st e env home d r) :
    ∃ fuel k, evalInternal fuel st e env home d = (r, C05.bump st k) := by
  obtain ⟨F, k, hF⟩ := h 0
  refine ⟨F, k, ?_⟩
  have := hF F (Nat.le_refl F)
  rwa [C05.bump_zero, Nat.zero_add] at this

/-- applying the function value `f` to the already evaluated arguments `args` at depth `d` yields `r`: every application
expression whose operator evaluates to `f` and whose operands evaluate to `args` runs to `r` -/
def Applies (st : St) (f : Val) (args : List Val) (r : Val) (d : Nat) : Prop :=
  ∀ (e env : Val) (home : Name) (first : Val) (operands : List Val),
    listToVec e = some (first :: operands) → isSpecial first = false → e.getMeta = none →
    RunsJ st first env home (d + 1) (.ok f) → RunsArgsJ st operands env home d (.ok args) →
    RunsJ st e env home d (.ok r)

/-! ### reordering existentials: the fuel and the step count come last in a proof, first in the statements -/

theorem ex_reorder1 {A : Val → Prop} {E : Nat → Nat → Val → Prop} (a : Val) (ha : A a)
    (h : ∃ fuel k, E fuel k a) : ∃ fuel k a, A a ∧ E fuel k a := by
  obtain ⟨fuel, k, h⟩ := h; exact ⟨fuel, k, a, ha, h⟩

theorem ex_reorder2 {A B : Val → Prop} {E : Nat → Nat → Val → Val → Prop} (a b : Val) (ha : A a) (hb : B b)
    (h : ∃ fuel k, E fuel k a b) : ∃ fuel k a b, A a ∧ B b ∧ E fuel k a b := by
  obtain ⟨fuel, k, h⟩ := h; exact ⟨fuel, k, a, b, ha, hb, h⟩

theorem ex_reorder3 {A B C : Val → Prop} {E : Nat → Nat → Val → Val → Val → Prop} (a b c : Val) (ha : A a) (hb : B b)
    (hc : C c) (h : ∃ fuel k, E fuel k a b c) : ∃ fuel k a b c, A a ∧ B b ∧ C c ∧ E fuel k a b c := by
  obtain ⟨fuel, k, h⟩ := h; exact ⟨fuel, k, a, b, c, ha, hb, hc, h⟩

/-! ### lists as values -/

theorem foldr_cons_range_succ (m : Nat) (tail : Val) :
    ((List.range (m + 1)).map fun (i : Nat) => Val.num (Int.ofNat i)).foldr Val.cons tail =
      ((List.range m).map fun (i : Nat) => Val.num (Int.ofNat i)).foldr Val.cons (.cons (.num (Int.ofNat m)) tail) := by
  rw [List.range_succ, List.map_append, List.foldr_append]
  rfl

theorem foldr_cons_reverse_cons (x : Val) (xs : List Val) (tail : Val) :
    (x :: xs).reverse.foldr Val.cons tail = xs.reverse.foldr Val.cons (.cons x tail) := by
  rw [List.reverse_cons, List.foldr_append]
  rfl

theorem ofList_isNil_cons (x : Val) (xs : List Val) : (Val.ofList (x :: xs)).isNil = false := rfl
theorem ofList_get_cons (x : Val) (xs : List Val) : (Val.ofList (x :: xs)).get = .cons x (.ofList xs) := rfl

end Pici
