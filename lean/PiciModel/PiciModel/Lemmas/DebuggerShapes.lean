/-
Helper lemmas for Props/C20b, part 3: the shape, UP TO the reader metadata and the numbers of the generated symbols, of the
stored (macro-expanded) bodies of `lookup`, `add-parameters`, `debug-list` and `debug-eval-internal` in
`Generated/DebuggerExpanded.lean`.  The parts that only run when the debugger steps in (`(when step-in …)`), and the
branches for forms outside the core language (`eval`, `trap`, improper lists, trap objects), are left open.
The `Is…` definitions were written by a script from the s-expressions in their comments: a symbol stands for that
symbol with some reader metadata, a number for that number with metadata, `'x` for `(quote x)`, `Ga`/`Gb` for generated
symbols, `$x` for an arbitrary value (a part that is left open), `@X` for a part of shape `IsX`.
-/
import PiciModel.Lemmas.DebuggerSteps
import PiciModel.Generated.DebuggerExpanded

namespace Pici.DebuggerX
open Pici

/-- the body of `lookup`:
`(if env ((lambda (key-value) (if (= key (car key-value)) (cdr key-value) (lookup key (cdr env) env-module))) (car
env)) (with-current-module key env-module))` -/
def IsLookupBody (v : Val) : Prop :=
  ∃ (m1 m2 m3 m4 m5 m6 m7 m8 m9 m10 m11 m12 m13 m14 m15 m16 m17 m18 m19 m20 m21 : Meta), v = .ofList [symA cs!"if" m1,
      symA cs!"env" m2, .ofList [.ofList [symA cs!"lambda" m3, .ofList [symA cs!"key-value" m4], .ofList [symA cs!"if"
      m5, .ofList [symA cs!"=" m6, symA cs!"key" m7, .ofList [symA cs!"car" m8, symA cs!"key-value" m9]], .ofList
      [symA cs!"cdr" m10, symA cs!"key-value" m11], .ofList [symA cs!"lookup" m12, symA cs!"key" m13, .ofList [symA
      cs!"cdr" m14, symA cs!"env" m15], symA cs!"env-module" m16]]], .ofList [symA cs!"car" m17, symA cs!"env" m18]],
      .ofList [symA cs!"with-current-module" m19, symA cs!"key" m20, symA cs!"env-module" m21]]

/-- the body of `add-parameters`:
`(if params (if (= (car params) '&) (cons (cons (car (cdr params)) args) env) (add-parameters (cdr params) (cdr args)
(cons (cons (car params) (car args)) env))) env)` -/
def IsAddParamsBody (v : Val) : Prop :=
  ∃ (m1 m2 m3 m4 m5 m6 m7 m8 m9 m10 m11 m12 m13 m14 m15 m16 m17 m18 m19 m20 m21 m22 m23 m24 m25 m26 m27 : Meta), v =
      .ofList [symA cs!"if" m1, symA cs!"params" m2, .ofList [symA cs!"if" m3, .ofList [symA cs!"=" m4, .ofList [symA
      cs!"car" m5, symA cs!"params" m6], quoA cs!"&" m7], .ofList [symA cs!"cons" m8, .ofList [symA cs!"cons" m9,
      .ofList [symA cs!"car" m10, .ofList [symA cs!"cdr" m11, symA cs!"params" m12]], symA cs!"args" m13], symA
      cs!"env" m14], .ofList [symA cs!"add-parameters" m15, .ofList [symA cs!"cdr" m16, symA cs!"params" m17], .ofList
      [symA cs!"cdr" m18, symA cs!"args" m19], .ofList [symA cs!"cons" m20, .ofList [symA cs!"cons" m21, .ofList [symA
      cs!"car" m22, symA cs!"params" m23], .ofList [symA cs!"car" m24, symA cs!"args" m25]], symA cs!"env" m26]]],
      symA cs!"env" m27]

/-- the `case` on the type of the expression in `debug-eval-internal` (the branches for improper lists and traps are not part of the core language):
`(if (= type 'list-type) (debug-list expr env env-module step-in) (if (= type 'cons-type) $cons (if (= type
'symbol-type) (lookup expr env env-module) (if (= type 'trap-type) $trap (if 'otherwise expr ())))))` -/
def IsCases (v : Val) : Prop :=
  ∃ (m1 m2 m3 m4 m5 m6 m7 m8 m9 m10 m11 m12 m13 m14 m15 m16 m17 m18 m19 m20 m21 m22 m23 m24 m25 m26 m27 m28 : Meta)
      (o_cons o_trap : Val), v = .ofList [symA cs!"if" m1, .ofList [symA cs!"=" m2, symA cs!"type" m3, quoA
      cs!"list-type" m4], .ofList [symA cs!"debug-list" m5, symA cs!"expr" m6, symA cs!"env" m7, symA cs!"env-module"
      m8, symA cs!"step-in" m9], .ofList [symA cs!"if" m10, .ofList [symA cs!"=" m11, symA cs!"type" m12, quoA
      cs!"cons-type" m13], o_cons, .ofList [symA cs!"if" m14, .ofList [symA cs!"=" m15, symA cs!"type" m16, quoA
      cs!"symbol-type" m17], .ofList [symA cs!"lookup" m18, symA cs!"expr" m19, symA cs!"env" m20, symA
      cs!"env-module" m21], .ofList [symA cs!"if" m22, .ofList [symA cs!"=" m23, symA cs!"type" m24, quoA
      cs!"trap-type" m25], o_trap, .ofList [symA cs!"if" m26, quoA cs!"otherwise" m27, symA cs!"expr" m28, .nil]]]]]

/-- `(let (type (type-of expr)) (case …))`:
`((lambda (type) @Cases) (type-of expr))` -/
def IsDispatch (v : Val) : Prop :=
  ∃ (m1 m2 m3 m4 : Meta) (vCases : Val), v = .ofList [.ofList [symA cs!"lambda" m1, .ofList [symA cs!"type" m2],
      vCases], .ofList [symA cs!"type-of" m3, symA cs!"expr" m4]] ∧ IsCases vCases

/-- the body of `debug-eval-internal`: `(eval (trap (block (when step-in …) (let (result …) (block (when step-in …) result))) handler))`:
`(eval (trap ((lambda (Ga) ((lambda (result) ((lambda (Gb) result) (if step-in $s1 ()))) @Dispatch)) (if step-in $s2
())) $handler))` -/
def IsDeiBody (v : Val) : Prop :=
  ∃ (m1 m2 m3 m4 m5 m6 m7 m8 m9 m10 m11 : Meta) (g1 g2 : Nat) (o_s1 o_s2 o_handler vDispatch : Val), v = .ofList [symA
      cs!"eval" m1, .ofList [symA cs!"trap" m2, .ofList [.ofList [symA cs!"lambda" m3, .ofList [(.sym (.gen g1))],
      .ofList [.ofList [symA cs!"lambda" m4, .ofList [symA cs!"result" m5], .ofList [.ofList [symA cs!"lambda" m6,
      .ofList [(.sym (.gen g2))], symA cs!"result" m7], .ofList [symA cs!"if" m8, symA cs!"step-in" m9, o_s1, .nil]]],
      vDispatch]], .ofList [symA cs!"if" m10, symA cs!"step-in" m11, o_s2, .nil]], o_handler]] ∧ IsDispatch vDispatch

/-- the local function `highlight-and-debug` of `debug-list`:
`(lambda (x i) (if step-in $s (debug-eval-internal x env env-module nil)))` -/
def IsHad (v : Val) : Prop :=
  ∃ (m1 m2 m3 m4 m5 m6 m7 m8 m9 m10 : Meta) (o_s : Val), v = .ofList [symA cs!"lambda" m1, .ofList [symA cs!"x" m2, symA
      cs!"i" m3], .ofList [symA cs!"if" m4, symA cs!"step-in" m5, o_s, .ofList [symA cs!"debug-eval-internal" m6, symA
      cs!"x" m7, symA cs!"env" m8, symA cs!"env-module" m9, symA cs!"nil" m10]]]

/-- `debug-list`, operator `quote`:
`((lambda (Ga) (car operands)) (if step-in $s ()))` -/
def IsQuoteBranch (v : Val) : Prop :=
  ∃ (m1 m2 m3 m4 m5 : Meta) (g1 : Nat) (o_s : Val), v = .ofList [.ofList [symA cs!"lambda" m1, .ofList [(.sym (.gen
      g1))], .ofList [symA cs!"car" m2, symA cs!"operands" m3]], .ofList [symA cs!"if" m4, symA cs!"step-in" m5, o_s,
      .nil]]

/-- `debug-list`, operator `if`:
`((lambda (condition then otherwise) (if (highlight-and-debug condition 1) (highlight-and-debug then 2)
(highlight-and-debug otherwise 3))) (car operands) (car (cdr operands)) (car (cdr (cdr operands))))` -/
def IsIfBranch (v : Val) : Prop :=
  ∃ (m1 m2 m3 m4 m5 m6 m7 m8 m9 m10 m11 m12 m13 m14 m15 m16 m17 m18 m19 m20 m21 m22 m23 : Meta), v = .ofList [.ofList
      [symA cs!"lambda" m1, .ofList [symA cs!"condition" m2, symA cs!"then" m3, symA cs!"otherwise" m4], .ofList [symA
      cs!"if" m5, .ofList [symA cs!"highlight-and-debug" m6, symA cs!"condition" m7, numA 1 m8], .ofList [symA
      cs!"highlight-and-debug" m9, symA cs!"then" m10, numA 2 m11], .ofList [symA cs!"highlight-and-debug" m12, symA
      cs!"otherwise" m13, numA 3 m14]]], .ofList [symA cs!"car" m15, symA cs!"operands" m16], .ofList [symA cs!"car"
      m17, .ofList [symA cs!"cdr" m18, symA cs!"operands" m19]], .ofList [symA cs!"car" m20, .ofList [symA cs!"cdr"
      m21, .ofList [symA cs!"cdr" m22, symA cs!"operands" m23]]]]

/-- `debug-list`, operator `lambda`:
`(make-function (car operands) (car (cdr operands)) env env-module 'lambda-type)` -/
def IsLambdaBranch (v : Val) : Prop :=
  ∃ (m1 m2 m3 m4 m5 m6 m7 m8 m9 : Meta), v = .ofList [symA cs!"make-function" m1, .ofList [symA cs!"car" m2, symA
      cs!"operands" m3], .ofList [symA cs!"car" m4, .ofList [symA cs!"cdr" m5, symA cs!"operands" m6]], symA cs!"env"
      m7, symA cs!"env-module" m8, quoA cs!"lambda-type" m9]

/-- `debug-list`, application of a closure: the body in the extended closure environment:
`(debug-eval-internal (. evaled-parts 'body) (add-parameters (. evaled-parts 'parameters) (cdr evaled-expr) (.
evaled-parts 'environment)) (. evaled-parts 'module) step-in)` -/
def IsCloCall (v : Val) : Prop :=
  ∃ (m1 m2 m3 m4 m5 m6 m7 m8 m9 m10 m11 m12 m13 m14 m15 m16 m17 : Meta), v = .ofList [symA cs!"debug-eval-internal" m1,
      .ofList [symA cs!"." m2, symA cs!"evaled-parts" m3, quoA cs!"body" m4], .ofList [symA cs!"add-parameters" m5,
      .ofList [symA cs!"." m6, symA cs!"evaled-parts" m7, quoA cs!"parameters" m8], .ofList [symA cs!"cdr" m9, symA
      cs!"evaled-expr" m10], .ofList [symA cs!"." m11, symA cs!"evaled-parts" m12, quoA cs!"environment" m13]],
      .ofList [symA cs!"." m14, symA cs!"evaled-parts" m15, quoA cs!"module" m16], symA cs!"step-in" m17]

/-- `debug-list`, application of a native function:
`(call-native-function (car evaled-expr) (cdr evaled-expr) env)` -/
def IsNatCall (v : Val) : Prop :=
  ∃ (m1 m2 m3 m4 m5 m6 : Meta), v = .ofList [symA cs!"call-native-function" m1, .ofList [symA cs!"car" m2, symA
      cs!"evaled-expr" m3], .ofList [symA cs!"cdr" m4, symA cs!"evaled-expr" m5], symA cs!"env" m6]

/-- `debug-list`, application: closure or native?:
`((lambda (Ga) (if (. evaled-parts 'body) @CloCall @NatCall)) (if step-in $s ()))` -/
def IsApp3 (v : Val) : Prop :=
  ∃ (m1 m2 m3 m4 m5 m6 m7 : Meta) (g1 : Nat) (o_s vCloCall vNatCall : Val), v = .ofList [.ofList [symA cs!"lambda" m1,
      .ofList [(.sym (.gen g1))], .ofList [symA cs!"if" m2, .ofList [symA cs!"." m3, symA cs!"evaled-parts" m4, quoA
      cs!"body" m5], vCloCall, vNatCall]], .ofList [symA cs!"if" m6, symA cs!"step-in" m7, o_s, .nil]] ∧ IsCloCall
      vCloCall ∧ IsNatCall vNatCall

/-- `debug-list`, application: the evaluated operator is taken apart:
`((lambda (evaled-parts) @App3) (destructure-function (car evaled-expr)))` -/
def IsApp2 (v : Val) : Prop :=
  ∃ (m1 m2 m3 m4 m5 : Meta) (vApp3 : Val), v = .ofList [.ofList [symA cs!"lambda" m1, .ofList [symA cs!"evaled-parts"
      m2], vApp3], .ofList [symA cs!"destructure-function" m3, .ofList [symA cs!"car" m4, symA cs!"evaled-expr" m5]]]
      ∧ IsApp3 vApp3

/-- `debug-list`, application: every element of the form is evaluated, left to right:
`((lambda (evaled-expr) @App2) (map (lambda (xi) (highlight-and-debug (car xi) (cdr xi))) (enumerate expr)))` -/
def IsAppBranch (v : Val) : Prop :=
  ∃ (m1 m2 m3 m4 m5 m6 m7 m8 m9 m10 m11 m12 : Meta) (vApp2 : Val), v = .ofList [.ofList [symA cs!"lambda" m1, .ofList
      [symA cs!"evaled-expr" m2], vApp2], .ofList [symA cs!"map" m3, .ofList [symA cs!"lambda" m4, .ofList [symA
      cs!"xi" m5], .ofList [symA cs!"highlight-and-debug" m6, .ofList [symA cs!"car" m7, symA cs!"xi" m8], .ofList
      [symA cs!"cdr" m9, symA cs!"xi" m10]]], .ofList [symA cs!"enumerate" m11, symA cs!"expr" m12]]] ∧ IsApp2 vApp2

/-- the `case` on the operator in `debug-list` (`eval` and `trap` are not part of the core language):
`(if (= operator 'quote) @QuoteBranch (if (= operator 'if) @IfBranch (if (= operator 'eval) $eval (if (= operator
'trap) $trap (if (= operator 'lambda) @LambdaBranch (if 'otherwise @AppBranch ()))))))` -/
def IsIfs (v : Val) : Prop :=
  ∃ (m1 m2 m3 m4 m5 m6 m7 m8 m9 m10 m11 m12 m13 m14 m15 m16 m17 m18 m19 m20 m21 m22 : Meta) (o_eval o_trap vQuoteBranch
      vIfBranch vLambdaBranch vAppBranch : Val), v = .ofList [symA cs!"if" m1, .ofList [symA cs!"=" m2, symA
      cs!"operator" m3, quoA cs!"quote" m4], vQuoteBranch, .ofList [symA cs!"if" m5, .ofList [symA cs!"=" m6, symA
      cs!"operator" m7, quoA cs!"if" m8], vIfBranch, .ofList [symA cs!"if" m9, .ofList [symA cs!"=" m10, symA
      cs!"operator" m11, quoA cs!"eval" m12], o_eval, .ofList [symA cs!"if" m13, .ofList [symA cs!"=" m14, symA
      cs!"operator" m15, quoA cs!"trap" m16], o_trap, .ofList [symA cs!"if" m17, .ofList [symA cs!"=" m18, symA
      cs!"operator" m19, quoA cs!"lambda" m20], vLambdaBranch, .ofList [symA cs!"if" m21, quoA cs!"otherwise" m22,
      vAppBranch, .nil]]]]]] ∧ IsQuoteBranch vQuoteBranch ∧ IsIfBranch vIfBranch ∧ IsLambdaBranch vLambdaBranch ∧
      IsAppBranch vAppBranch

/-- the body of `debug-list`:
`((lambda (operator operands highlight-and-debug) @Ifs) (car expr) (cdr expr) @Had)` -/
def IsDebugListBody (v : Val) : Prop :=
  ∃ (m1 m2 m3 m4 m5 m6 m7 m8 : Meta) (vIfs vHad : Val), v = .ofList [.ofList [symA cs!"lambda" m1, .ofList [symA
      cs!"operator" m2, symA cs!"operands" m3, symA cs!"highlight-and-debug" m4], vIfs], .ofList [symA cs!"car" m5,
      symA cs!"expr" m6], .ofList [symA cs!"cdr" m7, symA cs!"expr" m8], vHad] ∧ IsIfs vIfs ∧ IsHad vHad

/-- proves a shape statement about a closed term: the witnesses are found by unification -/
macro "shape_unfold" : tactic =>
  `(tactic| first
      | unfold IsLookupBody | unfold IsAddParamsBody | unfold IsCases | unfold IsDispatch | unfold IsDeiBody
      | unfold IsHad | unfold IsQuoteBranch | unfold IsIfBranch | unfold IsLambdaBranch | unfold IsCloCall
      | unfold IsNatCall | unfold IsApp3 | unfold IsApp2 | unfold IsAppBranch | unfold IsIfs | unfold IsDebugListBody)

macro "shape_rfl" : tactic =>
  `(tactic| repeat (first | exact rfl | apply Exists.intro | apply And.intro | shape_unfold))

theorem lookup_params_shape : ∃ p1 p2 p3,
    lookup_params = .ofList [symA cs!"key" p1, symA cs!"env" p2, symA cs!"env-module" p3] := ⟨_, _, _, rfl⟩
theorem lookup_rest_eq : lookup_rest = .nil := rfl
theorem lookup_body_shape : IsLookupBody lookup_body := by shape_rfl

theorem add_parameters_params_shape : ∃ p1 p2 p3,
    add_parameters_params = .ofList [symA cs!"params" p1, symA cs!"args" p2, symA cs!"env" p3] := ⟨_, _, _, rfl⟩
theorem add_parameters_rest_eq : add_parameters_rest = .nil := rfl
theorem add_parameters_body_shape : IsAddParamsBody add_parameters_body := by shape_rfl

theorem debug_list_params_shape : ∃ p1 p2 p3 p4,
    debug_list_params = .ofList [symA cs!"expr" p1, symA cs!"env" p2, symA cs!"env-module" p3, symA cs!"step-in" p4] :=
  ⟨_, _, _, _, rfl⟩
theorem debug_list_rest_eq : debug_list_rest = .nil := rfl
theorem debug_list_body_shape : IsDebugListBody debug_list_body := by shape_rfl

theorem debug_eval_internal_params_shape : ∃ p1 p2 p3 p4,
    debug_eval_internal_params =
      .ofList [symA cs!"expr" p1, symA cs!"env" p2, symA cs!"env-module" p3, symA cs!"step-in" p4] :=
  ⟨_, _, _, _, rfl⟩
theorem debug_eval_internal_rest_eq : debug_eval_internal_rest = .nil := rfl
theorem debug_eval_internal_body_shape : IsDeiBody debug_eval_internal_body := by shape_rfl

theorem lookup_fn_eq : lookup_fn = .fn .lambda lookup_rest lookup_params lookup_body .nil cs!"debugger" := rfl
theorem add_parameters_fn_eq :
    add_parameters_fn = .fn .lambda add_parameters_rest add_parameters_params add_parameters_body .nil cs!"debugger" := rfl
theorem debug_list_fn_eq : debug_list_fn = .fn .lambda debug_list_rest debug_list_params debug_list_body .nil cs!"debugger" := rfl
theorem debug_eval_internal_fn_eq : debug_eval_internal_fn =
    .fn .lambda debug_eval_internal_rest debug_eval_internal_params debug_eval_internal_body .nil cs!"debugger" := rfl

theorem lookup_mem : (cs!"lookup", lookup_fn) ∈ table := by simp [table]
theorem add_parameters_mem : (cs!"add-parameters", add_parameters_fn) ∈ table := by simp [table]
theorem debug_list_mem : (cs!"debug-list", debug_list_fn) ∈ table := by simp [table]
theorem debug_eval_internal_mem : (cs!"debug-eval-internal", debug_eval_internal_fn) ∈ table := by simp [table]

end Pici.DebuggerX
