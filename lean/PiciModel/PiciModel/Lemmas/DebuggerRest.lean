/-
Helper lemmas for Props/C20c, part 1 (independent of the relation `Sim`): `add-parameters` on a parameter list that ends
in `& rest`, and `debug-list` on an application whose operator evaluates to a closure WITH OR WITHOUT a rest parameter.
Generalised copies of `add_params_runs` (`Lemmas/DebuggerList.lean`) and `app_closure` (`Lemmas/DebuggerApp.lean`).
-/
import PiciModel.Lemmas.DebuggerApp

namespace Pici.Dbg
open Pici Pici.Ref Pici.DebuggerX Pici.C16

/-- the binding of the rest parameter, if the function has one, in front of `env` -/
def restEnv (rest remaining env : Val) : Val :=
  match rest.restParam? with
  | some r => .cons (.cons r remaining) env
  | none   => env

/-- the parameter list `destructure-function` hands out, as a list -/
def paramList (ps : List Val) (rest : Val) : List Val :=
  ps ++ (match rest.restParam? with
    | some last => [.symName cs!"&", last]
    | none      => [])

theorem functionParams_eq (rest params : Val) :
    functionParams rest params = .ofList (paramList ((listToVec params).getD []) rest) := rfl

section
variable {st : St}

/-- the body of `add-parameters`, for a parameter list without `&` followed by `& restp`, and at least as many arguments
as parameters before the `&`: the surplus arguments — the TAIL of the argument list as it is — are bound to `restp` -/
theorem add_params_runs_rest (hl : DLoaded st) (D : Nat) (hd : D + 4 ≤ Config.maxRecursionDepth) (t restp : Val) :
    ∀ (ps args : List Val) (acc : Val), ps.length ≤ args.length → (∀ p ∈ ps, p.isSymNamed cs!"&" = false) →
      ∀ q1 q2 q3, RunsJ st add_parameters_body
        (env3 cs!"params" cs!"args" cs!"env" q1 q2 q3 (.ofList (ps ++ [.symName cs!"&", restp])) (args.foldr Val.cons t) acc)
        cs!"debugger" D
        (.ok (.cons (.cons restp ((args.drop ps.length).foldr Val.cons t)) (bindAll ps args acc))) := by
  obtain ⟨m1, m2, m3, m4, m5, m6, m7, m8, m9, m10, m11, m12, m13, m14, m15, m16, m17, m18, m19, m20, m21, m22, m23, m24,
    m25, m26, m27, hb⟩ := add_parameters_body_shape
  obtain ⟨p1, p2, p3, hq⟩ := add_parameters_params_shape
  obtain ⟨wf, hwf, hwfg⟩ := hl.debugger _ _ add_parameters_mem
  obtain ⟨wcons, hwcons, hwconsg⟩ := hl.nativesD .cons
  obtain ⟨weq, hweq, hweqg⟩ := hl.nativesD .equal
  have hs := hl.sees
  intro ps
  induction ps with
  | nil =>
    intro args acc _ _ q1 q2 q3
    rw [hb, bindAll_nil]
    simp only [List.nil_append, List.length_nil, List.drop_zero]
    refine RunsJ.ifTrue hl.detached (by omega) (RunsJ.loc hs (by omega) (by lke)) rfl ?_
    have hcond : Eval (C16.globalsOf st)
        (env3 cs!"params" cs!"args" cs!"env" q1 q2 q3 (.ofList [.symName cs!"&", restp]) (args.foldr Val.cons t) acc)
        cs!"debugger" (D + 1)
        (.ofList [symA cs!"=" m4, .ofList [symA cs!"car" m5, symA cs!"params" m6], quoA cs!"&" m7])
        (.ok (.symName cs!"t")) :=
      ev_eqQ (env := env3 cs!"params" cs!"args" cs!"env" q1 q2 q3 (.ofList [.symName cs!"&", restp]) (args.foldr Val.cons t) acc)
        (m1 := m4) (m3 := m7) (n := cs!"&") (d := D + 1) (by omega) (by lke) hweq hweqg
        (ev_carVar (m1 := m5) (m2 := m6) (n := cs!"params") hl (by omega) (by lke) (by lke)
          (ofList_get_cons (.symName cs!"&") [restp]))
    refine RunsJ.ifTrue hl.detached (by omega) (RunsJ.of_eval hs hcond) rfl (RunsJ.of_eval hs ?_)
    refine ev_prim (args := [.cons restp (args.foldr Val.cons t), acc]) (by omega) rfl
      (ev_global (by omega) (by lke) hwcons) hwconsg rfl (evs_two ?_ (ev_local (by omega) (by lke))) rfl
    refine ev_prim (args := [restp, args.foldr Val.cons t]) (by omega) rfl (ev_global (by omega) (by lke) hwcons) hwconsg rfl
      (evs_two ?_ (ev_local (by omega) (by lke))) rfl
    exact ev_carOf hl (by omega) (by lke)
      (ev_cdrVar hl (by omega) (by lke) (by lke) (ofList_get_cons (.symName cs!"&") [restp])) (ofList_get_cons restp [])
  | cons p ps ih =>
    intro args acc hlen hamp q1 q2 q3
    cases args with
    | nil => simp at hlen
    | cons a as =>
      have hp : p.isSymNamed cs!"&" = false := hamp p (List.mem_cons_self ..)
      have hget : (Val.ofList (p :: ps ++ [.symName cs!"&", restp])).get = .cons p (.ofList (ps ++ [.symName cs!"&", restp])) := rfl
      rw [hb]
      simp only [List.length_cons, List.drop_succ_cons]
      refine RunsJ.ifTrue hl.detached (by omega) (RunsJ.loc hs (by omega) (by lke)) rfl ?_
      have hcond : Eval (C16.globalsOf st)
          (env3 cs!"params" cs!"args" cs!"env" q1 q2 q3 (.ofList (p :: ps ++ [.symName cs!"&", restp]))
            ((a :: as).foldr Val.cons t) acc) cs!"debugger" (D + 1)
          (.ofList [symA cs!"=" m4, .ofList [symA cs!"car" m5, symA cs!"params" m6], quoA cs!"&" m7]) (.ok .nil) := by
        have := ev_eqQ (env := env3 cs!"params" cs!"args" cs!"env" q1 q2 q3 (.ofList (p :: ps ++ [.symName cs!"&", restp]))
            ((a :: as).foldr Val.cons t) acc)
          (m1 := m4) (m3 := m7) (n := cs!"&") (d := D + 1) (by omega) (by lke) hweq hweqg
          (ev_carVar (m1 := m5) (m2 := m6) (n := cs!"params") hl (by omega) (by lke) (by lke) hget)
        rwa [hp] at this
      refine RunsJ.ifFalse hl.detached (by omega) (RunsJ.of_eval hs hcond) rfl ?_
      refine RunsJ.callClosure hl.detached (by omega) (listToVec_ofList _) rfl
        (RunsJ.glob hs (by omega) (by lke) hwf) (hwfg.trans add_parameters_fn_eq)
        (RunsArgsJ.of_evalArgs hs (evs_three
          (ev_cdrVar hl (by omega) (by lke) (by lke) hget)
          (ev_cdrVar (a := a) (b := as.foldr Val.cons t) hl (by omega) (by lke) (by lke) rfl) ?_))
        (by rw [hq, add_parameters_rest_eq]; exact pair3 _ _ _ _ _ _ _ _)
        (ih as (.cons (.cons p a) acc) (by simpa using hlen) (fun x hx => hamp x (List.mem_cons_of_mem _ hx)) p1 p2 p3)
      refine ev_prim (args := [.cons p a, acc]) (by omega) rfl (ev_global (by omega) (by lke) hwcons) hwconsg rfl
        (evs_two ?_ (ev_local (by omega) (by lke))) rfl
      exact ev_prim (args := [p, a]) (by omega) rfl (ev_global (by omega) (by lke) hwcons) hwconsg rfl
        (evs_two (ev_carVar hl (by omega) (by lke) (by lke) hget)
          (ev_carVar (a := a) (b := as.foldr Val.cons t) hl (by omega) (by lke) (by lke) rfl)) rfl

/-- the body of `add-parameters` on the parameter list of a closure with or without a rest parameter -/
theorem add_params_runs_gen (hl : DLoaded st) (D : Nat) (hd : D + 4 ≤ Config.maxRecursionDepth) (t rest : Val)
    (ps args : List Val) (acc : Val) (hlen : ps.length ≤ args.length) (hamp : ∀ p ∈ ps, p.isSymNamed cs!"&" = false)
    (q1 q2 q3 : Meta) :
    RunsJ st add_parameters_body
      (env3 cs!"params" cs!"args" cs!"env" q1 q2 q3 (.ofList (paramList ps rest)) (args.foldr Val.cons t) acc)
      cs!"debugger" D
      (.ok (restEnv rest ((args.drop ps.length).foldr Val.cons t) (bindAll ps args acc))) := by
  unfold paramList restEnv
  cases hr : rest.restParam? with
  | none =>
    simp only [List.append_nil]
    exact add_params_runs hl D hd t ps args acc hlen hamp q1 q2 q3
  | some r => exact add_params_runs_rest hl D hd t r ps args acc hlen hamp q1 q2 q3

/-- `debug-list` on an application whose operator evaluates to a closure — with or without a rest parameter — with a
non-empty body and no parameter named `&`: the body, evaluated by `debug-eval-internal` in the closure's environment
extended by the parameters (the rest parameter bound to the tail of the list of evaluated elements, which ends in the value
of the global `nil`), in the closure's module -/
theorem app_closure_gen (hl : DLoaded st) {ab : Val} (hab : IsAppBranch ab) {clo : Val → Val} (hspec : HadSpec st clo)
    (a b c q1 q2 q3 q4 : Meta) (first dd e env mv sv : Val) (xs : List Val) (f : Val) (args : List Val)
    (k : Kind) (rest params body fenv : Val) (fmod : Name) (v : Val) (D : Nat)
    (tail : Val) (htail : st.getGlobal cs!"nil" cs!"prelude" = .found tail)
    (hsv : sv.isNil = true) (hd : D + 17 ≤ Config.maxRecursionDepth) (hlv : listToVec e = some xs)
    (hlen : (xs.length : Int) ≤ i64Max)
    (hall : MapsVia (DeiRuns st env mv (D + 4)) xs (f :: args))
    (hf : f.get = .fn k rest params body fenv fmod) (hbody : body.isNil = false)
    (hamp : ∀ p ∈ (listToVec params).getD [], p.isSymNamed cs!"&" = false)
    (hlenp : ((listToVec params).getD []).length ≤ args.length)
    (hrun : DeiRuns st (restEnv rest ((args.drop ((listToVec params).getD []).length).foldr Val.cons tail)
      (bindAll ((listToVec params).getD []) args fenv)) (.symName fmod) D body v) :
    RunsJ st ab (dlEnv a b c first dd (clo (env4 q1 q2 q3 q4 e env mv sv)) (env4 q1 q2 q3 q4 e env mv sv))
      cs!"debugger" D (.ok v) := by
  obtain ⟨m1, m2, m3, m4, m5, m6, m7, m8, m9, m10, m11, m12, app2, rfl, happ2⟩ := hab
  obtain ⟨n1, n2, n3, n4, n5, app3, rfl, happ3⟩ := happ2
  obtain ⟨k1, k2, k3, k4, k5, k6, k7, g1, os, cc, nc, rfl, hcc, hnc⟩ := happ3
  obtain ⟨c1, c2, c3, c4, c5, c6, c7, c8, c9, c10, c11, c12, c13, c14, c15, c16, c17, rfl⟩ := hcc
  have hs := hl.sees
  obtain ⟨wdf, hwdf, hwdfg⟩ := hl.nativesD .destructureFunction
  obtain ⟨wdei, hwdei, hwdeig⟩ := hl.debugger _ _ debug_eval_internal_mem
  obtain ⟨wadd, hwadd, hwaddg⟩ := hl.debugger _ _ add_parameters_mem
  obtain ⟨pd1, pd2, pd3, pd4, hpd⟩ := debug_eval_internal_params_shape
  obtain ⟨pa1, pa2, pa3, hpa⟩ := add_parameters_params_shape
  -- every element of the form is evaluated
  refine RunsJ.letForm (vs := [(f :: args).foldr Val.cons tail]) hs (by omega) rfl
    (RunsArgsJ.one (map_elements hl hspec a b c q1 q2 q3 q4 first dd e env mv sv xs (f :: args) D
      m3 m4 m5 m6 m7 m8 m9 m10 m11 m12 hsv hd hlv hlen hall tail htail)) (pair1 _ _ _ _) ?_
  change RunsJ st _ (bindN cs!"evaled-expr" m2 ((f :: args).foldr Val.cons tail)
    (dlEnv a b c first dd (clo (env4 q1 q2 q3 q4 e env mv sv)) (env4 q1 q2 q3 q4 e env mv sv))) _ _ _
  -- the operator is taken apart
  refine RunsJ.letForm (vs := [parts (.symName k.name) (functionParams rest params) body fenv (.symName fmod)]) hs (by omega) rfl
    (RunsArgsJ.one (RunsJ.callSimple hl.detached (by omega) (listToVec_ofList _) rfl
      (RunsJ.glob hs (by omega) (by lke) hwdf) hwdfg (by decide) (by decide) (by decide) (by decide) (by decide)
      (RunsArgsJ.one (RunsJ.of_eval hs (ev_carVar (a := f) (b := args.foldr Val.cons tail) hl (by omega) (by lke) (by lke) rfl)))
      (fun j => destructure_fn _ _ f k rest params body fenv fmod hf))) (pair1 _ _ _ _) ?_
  change RunsJ st _ (bindN cs!"evaled-parts" n2 (parts (.symName k.name) (functionParams rest params) body fenv (.symName fmod))
    (bindN cs!"evaled-expr" m2 ((f :: args).foldr Val.cons tail)
      (dlEnv a b c first dd (clo (env4 q1 q2 q3 q4 e env mv sv)) (env4 q1 q2 q3 q4 e env mv sv)))) _ _ _
  refine RunsJ.letForm (vs := [.nil]) hs (by omega) rfl (RunsArgsJ.one (skip_when hl (by omega) (by lke) hsv)) (pair1 _ _ _ _) ?_
  change RunsJ st _ (bindG g1 .nil (bindN cs!"evaled-parts" n2
    (parts (.symName k.name) (functionParams rest params) body fenv (.symName fmod))
    (bindN cs!"evaled-expr" m2 ((f :: args).foldr Val.cons tail)
      (dlEnv a b c first dd (clo (env4 q1 q2 q3 q4 e env mv sv)) (env4 q1 q2 q3 q4 e env mv sv))))) _ _ _
  -- the body is not nil: a closure
  refine RunsJ.ifTrue hl.detached (by omega)
    (RunsJ.dot hl (by omega) (by lke) (by lke) (fun dd st' => parts_body st' dd _ _ _ _ _ _ rfl)) hbody ?_
  refine RunsJ.callClosure hl.detached (by omega) (listToVec_ofList _) rfl
    (RunsJ.glob hs (by omega) (by lke) hwdei) (hwdeig.trans debug_eval_internal_fn_eq)
    (RunsArgsJ.cons (RunsJ.dot hl (by omega) (by lke) (by lke) (fun dd st' => parts_body st' dd _ _ _ _ _ _ rfl))
      (RunsArgsJ.three ?_
        (RunsJ.dot hl (by omega) (by lke) (by lke) (fun dd st' => parts_module st' dd _ _ _ _ _ _ rfl))
        (RunsJ.loc hs (by omega) (by lke))))
    (by rw [hpd, debug_eval_internal_rest_eq]; exact pair4 _ _ _ _ _ _ _ _ _ _) (hrun pd1 pd2 pd3 pd4 sv hsv)
  -- `(add-parameters parameters (cdr evaled-expr) environment)`
  refine RunsJ.callClosure hl.detached (by omega) (listToVec_ofList _) rfl
    (RunsJ.glob hs (by omega) (by lke) hwadd) (hwaddg.trans add_parameters_fn_eq)
    (RunsArgsJ.three
      (RunsJ.dot hl (by omega) (by lke) (by lke) (fun dd st' => parts_parameters st' dd _ _ _ _ _ _ rfl))
      (RunsJ.of_eval hs (ev_cdrVar (a := f) (b := args.foldr Val.cons tail) hl (by omega) (by lke) (by lke) rfl))
      (RunsJ.dot hl (by omega) (by lke) (by lke) (fun dd st' => parts_environment st' dd _ _ _ _ _ _ rfl)))
    (by rw [hpa, add_parameters_rest_eq]; exact pair3 _ _ _ _ _ _ _ _) ?_
  rw [functionParams_eq]
  exact add_params_runs_gen hl (D + 1) (by omega) tail rest _ args fenv hlenp hamp pa1 pa2 pa3

end

end Pici.Dbg
