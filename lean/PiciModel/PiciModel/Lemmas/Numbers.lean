/-
Helper lemmas for Props/C12: the bit-level `checked_*` operations agree with range tests on
mathematical integers; the digit loop of `parseI64`; `Nat.toDigits`.
-/
import PiciModel.Model.Natives

namespace Pici

theorem inRange_iff (z : Int) :
    inRange z = true ↔ (-9223372036854775808 ≤ z ∧ z ≤ 9223372036854775807) := by
  unfold inRange i64Min i64Max
  rw [Bool.and_eq_true, decide_eq_true_iff, decide_eq_true_iff]

theorem inRange_eq_false_iff (z : Int) :
    inRange z = false ↔ (z < -9223372036854775808 ∨ 9223372036854775807 < z) := by
  rw [← Bool.not_eq_true, inRange_iff]; omega

theorem bmod64_of_inRange (z : Int) (h : inRange z = true) : z.bmod (2 ^ 64) = z := by
  rw [inRange_iff] at h
  apply Int.bmod_eq_of_le <;> omega

theorem toInt_toI64 (z : Int) (h : inRange z = true) : (toI64 z).toInt = z := by
  rw [toI64, BitVec.toInt_ofInt]; exact bmod64_of_inRange z h

theorem inRange_toInt (v : I64) : inRange v.toInt = true := by
  rw [inRange_iff]
  have := @BitVec.toInt_lt 64 v
  have := @BitVec.le_toInt 64 v
  omega

/-- the signed-overflow flag of core `BitVec` is the negated range test -/
theorem sovf_eq (p : Int) :
    (decide (p ≥ 2 ^ (64 - 1)) || decide (p < -2 ^ (64 - 1))) = !inRange p := by
  cases h : inRange p
  · rw [inRange_eq_false_iff] at h
    rw [Bool.not_false, Bool.or_eq_true, decide_eq_true_iff, decide_eq_true_iff]; omega
  · rw [inRange_iff] at h
    rw [Bool.not_true, Bool.or_eq_false_iff, decide_eq_false_iff_not, decide_eq_false_iff_not]; omega

theorem toI64_toInt (v : I64) : toI64 v.toInt = v := BitVec.ofInt_toInt

theorem checkedAdd_toI64 (x y : Int) (hx : inRange x = true) (hy : inRange y = true) :
    checkedAdd (toI64 x) (toI64 y) = if inRange (x + y) then some (toI64 (x + y)) else none := by
  unfold checkedAdd BitVec.saddOverflow
  rw [toInt_toI64 x hx, toInt_toI64 y hy, sovf_eq]
  cases inRange (x + y)
  · rfl
  · simp only [toI64, BitVec.ofInt_add]; rfl

theorem checkedSub_toI64 (x y : Int) (hx : inRange x = true) (hy : inRange y = true) :
    checkedSub (toI64 x) (toI64 y) = if inRange (x - y) then some (toI64 (x - y)) else none := by
  unfold checkedSub BitVec.ssubOverflow
  rw [toInt_toI64 x hx, toInt_toI64 y hy, sovf_eq]
  cases inRange (x - y)
  · rfl
  · simp only [toI64, Int.sub_eq_add_neg, BitVec.ofInt_add, BitVec.ofInt_neg, BitVec.sub_eq_add_neg]; rfl

theorem checkedMul_toI64 (x y : Int) (hx : inRange x = true) (hy : inRange y = true) :
    checkedMul (toI64 x) (toI64 y) = if inRange (x * y) then some (toI64 (x * y)) else none := by
  unfold checkedMul BitVec.smulOverflow
  rw [toInt_toI64 x hx, toInt_toI64 y hy, sovf_eq]
  cases inRange (x * y)
  · rfl
  · simp only [toI64, BitVec.ofInt_mul]; rfl

/-! ### division -/

theorem toI64_inj (x y : Int) (hx : inRange x = true) (hy : inRange y = true) :
    toI64 x = toI64 y ↔ x = y := by
  constructor
  · intro h
    have := congrArg BitVec.toInt h
    rwa [toInt_toI64 x hx, toInt_toI64 y hy] at this
  · intro h; rw [h]

theorem tdiv_natAbs_le (x y : Int) : (Int.tdiv x y).natAbs ≤ x.natAbs := by
  rw [Int.natAbs_tdiv]; exact Nat.div_le_self _ _

theorem tdiv_natAbs_le_half (x y : Int) (hy : 2 ≤ y.natAbs) : (Int.tdiv x y).natAbs ≤ x.natAbs / 2 := by
  rw [Int.natAbs_tdiv]; exact Nat.div_le_div_left hy (by omega)

theorem div_overflow_iff' (x y : Int) (hx : inRange x = true) (hy : inRange y = true) (h0 : y ≠ 0) :
    inRange (Int.tdiv x y) = false ↔ (x = i64Min ∧ y = -1) := by
  rw [inRange_eq_false_iff, i64Min]
  rw [inRange_iff] at hx hy
  by_cases h1 : y = 1
  · subst h1; rw [Int.tdiv_one]; omega
  by_cases h2 : y = -1
  · subst h2; rw [Int.tdiv_neg, Int.tdiv_one]; omega
  have := tdiv_natAbs_le_half x y (by omega)
  omega

theorem intMin_eq : BitVec.intMin 64 = toI64 i64Min := by decide
theorem allOnes_eq : BitVec.allOnes 64 = toI64 (-1) := by decide
theorem zero_eq : 0#64 = toI64 0 := by decide

theorem checkedDiv_toI64 (x y : Int) (hx : inRange x = true) (hy : inRange y = true) :
    checkedDiv (toI64 x) (toI64 y) =
      if y = 0 then none else if inRange (Int.tdiv x y) then some (toI64 (Int.tdiv x y)) else none := by
  unfold checkedDiv
  rw [zero_eq, intMin_eq, allOnes_eq]
  simp only [toI64_inj y 0 hy (by decide), toI64_inj x i64Min hx (by decide),
    toI64_inj y (-1) hy (by decide)]
  by_cases h0 : y = 0
  · rw [if_pos h0, if_pos h0]
  rw [if_neg h0, if_neg h0]
  by_cases hov : x = i64Min ∧ y = -1
  · rw [if_pos hov, if_neg]
    rw [Bool.not_eq_true, div_overflow_iff' x y hx hy h0]; exact hov
  · rw [if_neg hov, if_pos]
    · congr 1
      apply BitVec.eq_of_toInt_eq
      have hr : inRange (Int.tdiv x y) = true := by
        rw [← Bool.not_eq_false, div_overflow_iff' x y hx hy h0]; exact hov
      rw [BitVec.toInt_sdiv, toInt_toI64 x hx, toInt_toI64 y hy, toInt_toI64 _ hr]
      exact bmod64_of_inRange _ hr
    · rw [← Bool.not_eq_false, div_overflow_iff' x y hx hy h0]; exact hov

/-! ### comparison -/

theorem lessI64_toI64 (x y : Int) (hx : inRange x = true) (hy : inRange y = true) :
    lessI64 (toI64 x) (toI64 y) = decide (x < y) := by
  rw [lessI64, BitVec.slt_eq_decide, toInt_toI64 x hx, toInt_toI64 y hy]

/-! ### the natives on two number arguments -/

theorem arith_some (source : Name) (op : I64 → I64 → Option I64) (a b : Val) (x y : Int) (st : St) (z : I64)
    (ha : a.get = .num x) (hb : b.get = .num y) (h : op (toI64 x) (toI64 y) = some z) :
    arith source op [a, b] st = (.ok (.num z.toInt), st) := by
  simp only [arith, arity2, asNumber, ha, hb, h]

theorem arith_none (source : Name) (op : I64 → I64 → Option I64) (a b : Val) (x y : Int) (st : St)
    (ha : a.get = .num x) (hb : b.get = .num y) (h : op (toI64 x) (toI64 y) = none) :
    arith source op [a, b] st = (.err (makeError cs!"arithmetic-overflow" source []), st) := by
  simp only [arith, arity2, asNumber, ha, hb, h]

/-- `arith` on two numbers, for an operation that agrees with the exact operation `f` under a range test -/
theorem arith_exact (source : Name) (op : I64 → I64 → Option I64) (f : Int → Int → Int)
    (a b : Val) (x y : Int) (st : St)
    (ha : a.get = .num x) (hb : b.get = .num y)
    (h : op (toI64 x) (toI64 y) = if inRange (f x y) then some (toI64 (f x y)) else none) :
    arith source op [a, b] st =
      if inRange (f x y) then (.ok (.num (f x y)), st)
      else (.err (makeError cs!"arithmetic-overflow" source []), st) := by
  by_cases hr : inRange (f x y) = true
  · rw [if_pos hr] at h ⊢
    rw [arith_some source op a b x y st _ ha hb h, toInt_toI64 _ hr]
  · rw [if_neg hr] at h ⊢
    exact arith_none source op a b x y st ha hb h

theorem compare_nums (source : Name) (op : I64 → I64 → Bool) (a b : Val) (x y : Int) (st : St)
    (ha : a.get = .num x) (hb : b.get = .num y) :
    compare source op [a, b] st =
      (.ok (if op (toI64 x) (toI64 y) then .symName cs!"t" else .nil), st) := by
  simp only [compare, arity2, asNumber, ha, hb]
  split <;> rfl

theorem divide_exact (a b : Val) (x y : Int) (st : St)
    (ha : a.get = .num x) (hb : b.get = .num y) (hx : inRange x = true) (hy : inRange y = true) :
    divideNative [a, b] st =
      if y = 0 then (.err (makeError cs!"divide-by-zero" cs!"divide" []), st)
      else if inRange (Int.tdiv x y) then (.ok (.num (Int.tdiv x y)), st)
      else (.err (makeError cs!"arithmetic-overflow" cs!"divide" []), st) := by
  simp only [divideNative, arity2, asNumber, ha, hb]
  by_cases h0 : y = 0
  · rw [if_pos h0, if_pos h0]
  rw [if_neg h0, if_neg h0, checkedDiv_toI64 x y hx hy, if_neg h0]
  by_cases hr : inRange (Int.tdiv x y) = true
  · rw [if_pos hr, if_pos hr]; simp only [toInt_toI64 _ hr]
  · rw [if_neg hr, if_neg hr]

/-! ### `parseI64` stays in range -/

theorem parseDigits_inRange (p : Bool) (s : List Char) (acc n : Int) (hacc : inRange acc = true)
    (h : parseDigits p s acc = .ok n) : inRange n = true := by
  induction s generalizing acc with
  | nil =>
    simp only [parseDigits] at h
    cases h; exact hacc
  | cons c cs ih =>
    rw [parseDigits] at h
    cases hd : digitVal c with
    | none => rw [hd] at h; cases h
    | some d =>
      rw [hd] at h
      simp only [] at h
      cases hm : inRange (acc * 10) with
      | false => rw [hm] at h; cases h
      | true =>
        rw [hm] at h
        simp only [Bool.not_true, Bool.false_eq_true, if_false] at h
        cases hr : inRange (if p = true then acc * 10 + (d : Int) else acc * 10 - (d : Int)) with
        | false => rw [hr] at h; cases h
        | true =>
          rw [hr] at h
          exact ih _ hr h

theorem parseI64_inRange (s : List Char) (n : Int) (h : parseI64 s = .ok n) : inRange n = true := by
  unfold parseI64 at h
  split at h
  · cases h
  · cases h
  · cases h
  all_goals exact parseDigits_inRange _ _ 0 n (by decide) h

/-! ### `parseI64 ∘ formatInt` -/

theorem digitVal_of_isDigit (c : Char) (h : c.isDigit = true) :
    digitVal c = some (c.toNat - '0'.toNat) := by
  unfold digitVal
  rw [if_pos]
  simp only [Char.isDigit, Bool.and_eq_true, decide_eq_true_eq] at h
  exact h

theorem le_ofDigitChars (l : List Char) (init : Nat) : init ≤ Nat.ofDigitChars 10 l init := by
  rw [Nat.ofDigitChars_eq_ofDigitChars_zero]
  have : 0 < 10 ^ l.length := Nat.pow_pos (by decide)
  calc init = 1 * init := (Nat.one_mul _).symm
    _ ≤ 10 ^ l.length * init := Nat.mul_le_mul_right _ this
    _ ≤ _ := Nat.le_add_right _ _

/-- one successful round of the digit loop -/
theorem parseDigits_step (p : Bool) (c : Char) (cs : List Char) (acc : Int) (d : Nat)
    (hd : digitVal c = some d) (hm : inRange (acc * 10) = true)
    (hr : inRange (if p = true then acc * 10 + (d : Int) else acc * 10 - (d : Int)) = true) :
    parseDigits p (c :: cs) acc =
      parseDigits p cs (if p = true then acc * 10 + (d : Int) else acc * 10 - (d : Int)) := by
  rw [parseDigits, hd]
  simp only [hm, hr, Bool.not_true, Bool.false_eq_true, if_false]

theorem parseDigits_pos (s : List Char) (init : Nat) (hs : ∀ c ∈ s, c.isDigit = true)
    (hv : Nat.ofDigitChars 10 s init ≤ 9223372036854775807) :
    parseDigits true s (init : Int) = .ok (Nat.ofDigitChars 10 s init : Nat) := by
  induction s generalizing init with
  | nil => simp only [parseDigits, Nat.ofDigitChars_nil]
  | cons c cs ih =>
    rw [Nat.ofDigitChars_cons] at hv ⊢
    have hle := le_ofDigitChars cs (10 * init + (c.toNat - '0'.toNat))
    have hd := digitVal_of_isDigit c (hs c (List.mem_cons_self ..))
    generalize c.toNat - '0'.toNat = d at *
    have e : (init : Int) * 10 + (d : Int) = ((10 * init + d : Nat) : Int) := by omega
    rw [parseDigits_step true c cs init d hd, if_pos rfl, e]
    · exact ih _ (fun c hc => hs c (List.mem_cons_of_mem _ hc)) hv
    · rw [inRange_iff]; omega
    · rw [if_pos rfl, inRange_iff]; omega

theorem parseDigits_neg (s : List Char) (init : Nat) (hs : ∀ c ∈ s, c.isDigit = true)
    (hv : Nat.ofDigitChars 10 s init ≤ 9223372036854775808) :
    parseDigits false s (-(init : Int)) = .ok (-(Nat.ofDigitChars 10 s init : Nat)) := by
  induction s generalizing init with
  | nil => simp only [parseDigits, Nat.ofDigitChars_nil]
  | cons c cs ih =>
    rw [Nat.ofDigitChars_cons] at hv ⊢
    have hle := le_ofDigitChars cs (10 * init + (c.toNat - '0'.toNat))
    have hd := digitVal_of_isDigit c (hs c (List.mem_cons_self ..))
    generalize c.toNat - '0'.toNat = d at *
    have e : -(init : Int) * 10 - (d : Int) = -((10 * init + d : Nat) : Int) := by omega
    rw [parseDigits_step false c cs _ d hd, if_neg (by decide), e]
    · exact ih _ (fun c hc => hs c (List.mem_cons_of_mem _ hc)) hv
    · rw [inRange_iff]; omega
    · rw [if_neg (by decide), inRange_iff]; omega

theorem parseI64_neg (cs : List Char) (h : cs ≠ []) : parseI64 ('-' :: cs) = parseDigits false cs 0 := by
  cases cs with
  | nil => exact absurd rfl h
  | cons c cs => rfl

theorem parseI64_digit (c : Char) (cs : List Char) (h : c.isDigit = true) :
    parseI64 (c :: cs) = parseDigits true (c :: cs) 0 := by
  have h1 : c ≠ '+' := by rintro rfl; revert h; decide
  have h2 : c ≠ '-' := by rintro rfl; revert h; decide
  unfold parseI64
  split
  · rename_i heq; cases heq
  · rename_i heq; cases heq; exact absurd rfl h1
  · rename_i heq; cases heq; exact absurd rfl h2
  · rename_i heq; cases heq; exact absurd rfl h1
  · rename_i heq; cases heq; exact absurd rfl h2
  · rfl

theorem toDigits_isDigit (n : Nat) : ∀ c ∈ Nat.toDigits 10 n, c.isDigit = true :=
  fun _ hc => Nat.isDigit_of_mem_toDigits (by decide) (by decide) hc

theorem parseI64_toDigits (n : Nat) (h : n ≤ 9223372036854775807) :
    parseI64 (Nat.toDigits 10 n) = .ok (n : Int) := by
  have hd := toDigits_isDigit n
  have hv : Nat.ofDigitChars 10 (Nat.toDigits 10 n) 0 = n := Nat.ofDigitChars_ten_toDigits
  have hp := parseDigits_pos (Nat.toDigits 10 n) 0 hd (by rw [hv]; exact h)
  rw [hv] at hp
  cases hs : Nat.toDigits 10 n with
  | nil => exact absurd hs Nat.toDigits_ne_nil
  | cons c cs =>
    rw [hs] at hd hp
    rw [parseI64_digit c cs (hd c (List.mem_cons_self ..))]
    exact hp

theorem parseI64_neg_toDigits (n : Nat) (h : n ≤ 9223372036854775808) :
    parseI64 ('-' :: Nat.toDigits 10 n) = .ok (-(n : Int)) := by
  have hv : Nat.ofDigitChars 10 (Nat.toDigits 10 n) 0 = n := Nat.ofDigitChars_ten_toDigits
  have hp := parseDigits_neg (Nat.toDigits 10 n) 0 (toDigits_isDigit n) (by rw [hv]; exact h)
  rw [hv] at hp
  rw [parseI64_neg _ Nat.toDigits_ne_nil]
  exact hp

theorem parseI64_formatInt (n : Int) (h : inRange n = true) : parseI64 (formatInt n) = .ok n := by
  rw [inRange_iff] at h
  unfold formatInt
  by_cases hn : n < 0
  · rw [if_pos hn, parseI64_neg_toDigits _ (by omega)]
    congr 1; omega
  · rw [if_neg hn, parseI64_toDigits _ (by omega)]
    congr 1; omega

end Pici
