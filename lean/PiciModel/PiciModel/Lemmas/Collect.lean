/-
Helper lemmas for `Props/HeapCollect.lean`: roots and reachability, one collection (`collectWith`), the executable
collection, `place` (reuse of a free cell / growth of the vector), `allocate` and the symbol table operations.
-/
import PiciModel.Props.HeapMark
import PiciModel.Props.HeapSweep

namespace Pici.Heap

/-! ### roots, reachability -/

theorem mem_roots_iff {h : Heap} {a : Addr} : a ∈ roots h ↔ Used h a ∧ 0 < (h.cell a).rc := by
  constructor
  · intro ha
    refine ⟨mem_roots_used ha, ?_⟩
    unfold roots at ha
    simp only [List.mem_filter] at ha
    simpa using ha.2
  · rintro ⟨hu, hrc⟩
    unfold Used usedList at hu
    rw [mem_take_toList] at hu
    obtain ⟨j, hj, hjk, rfl⟩ := hu
    unfold roots
    simp only [List.mem_filter, List.mem_filterMap, List.mem_range]
    refine ⟨⟨j, hjk, ?_⟩, by simpa using hrc⟩
    simp [hj]

theorem reach_used' (h : Heap) (hinv : Inv h) (a : Addr) (hr : Reach h a) : Used h a := by
  induction hr with
  | root hr => exact mem_roots_used hr
  | step _ hb ih => exact hinv.closed _ ih _ hb

theorem reach_mono {h h' : Heap} (hroots : ∀ a, a ∈ roots h → Reach h' a) (hkids : ∀ a, kids h' a = kids h a)
    (a : Addr) (hr : Reach h a) : Reach h' a := by
  induction hr with
  | root hr => exact hroots _ hr
  | step _ hb ih => exact Reach.step ih (by rw [hkids]; exact hb)

theorem reach_congr {h h' : Heap} (hroots : ∀ a, a ∈ roots h' ↔ a ∈ roots h) (hkids : ∀ a, kids h' a = kids h a)
    (a : Addr) : Reach h' a ↔ Reach h a :=
  ⟨reach_mono (fun a ha => Reach.root ((hroots a).1 ha)) (fun a => (hkids a).symm) a,
   reach_mono (fun a ha => Reach.root ((hroots a).2 ha)) hkids a⟩

theorem kids_congr {h h' : Heap} {a : Addr} (e : h'.cell a = h.cell a) : kids h' a = kids h a := by
  simp [kids, e]

/-! ### association lists with unique keys -/

theorem assoc_unique {α β} : ∀ (l : List (α × β)), (l.map (·.1)).Nodup → ∀ n a b, (n, a) ∈ l → (n, b) ∈ l → a = b := by
  intro l
  induction l with
  | nil => intro _ n a b ha; cases ha
  | cons p l ih =>
    intro hnd n a b ha hb
    simp only [List.map_cons, List.nodup_cons] at hnd
    rcases List.mem_cons.1 ha with rfl | ha'
    · rcases List.mem_cons.1 hb with hb' | hb'
      · exact (Prod.ext_iff.1 hb').2.symm
      · exact (hnd.1 (List.mem_map.2 ⟨(n, b), hb', rfl⟩)).elim
    · rcases List.mem_cons.1 hb with rfl | hb'
      · exact (hnd.1 (List.mem_map.2 ⟨(n, a), ha', rfl⟩)).elim
      · exact ih hnd.2 n a b ha' hb'

theorem lookup_of_mem {α β} [BEq α] [LawfulBEq α] : ∀ (l : List (α × β)), (l.map (·.1)).Nodup → ∀ n a, (n, a) ∈ l →
    l.lookup n = some a := by
  intro l
  induction l with
  | nil => intro _ n a ha; cases ha
  | cons p l ih =>
    intro hnd n a ha
    obtain ⟨k, v⟩ := p
    simp only [List.map_cons, List.nodup_cons] at hnd
    rcases List.mem_cons.1 ha with ha' | ha'
    · cases ha'
      simp [List.lookup]
    · have hne : n ≠ k := by
        rintro rfl
        exact hnd.1 (List.mem_map.2 ⟨(n, a), ha', rfl⟩)
      rw [List.lookup_cons]
      have : (n == k) = false := by simpa using hne
      rw [this]
      exact ih hnd.2 n a ha'

theorem lookup_none_of_not_mem {α β} [BEq α] [LawfulBEq α] : ∀ (l : List (α × β)) (n : α), (∀ a, (n, a) ∉ l) →
    l.lookup n = none := by
  intro l
  induction l with
  | nil => intro n _; rfl
  | cons p l ih =>
    intro n hno
    obtain ⟨k, v⟩ := p
    have hne : n ≠ k := by
      rintro rfl
      exact hno v (List.mem_cons_self ..)
    rw [List.lookup_cons]
    have : (n == k) = false := by simpa using hne
    rw [this]
    exact ih n (fun a ha => hno a (List.mem_cons_of_mem _ ha))

theorem named_unique' (h : Heap) (hinv : Inv h) (a b : Addr) (n : Name) (oa ob : Option Addr)
    (ha : Used h a) (hb : Used h b) (hca : (h.cell a).content = .sym (some n) oa) (hcb : (h.cell b).content = .sym (some n) ob) :
    a = b := by
  have h1 := hinv.symComplete a n oa ha hca
  have h2 := hinv.symComplete b n ob hb hcb
  have := assoc_unique h.symtab hinv.symNodup n a b h1 h2
  exact this

/-! ### one collection -/

theorem sweepLoop_symtab_sublist (R : List Addr) : ∀ n i h, (sweepLoop R n i h).symtab.Sublist h.symtab := by
  intro n
  induction n with
  | zero => intro i h; simp [sweepLoop]
  | succ n ih =>
    intro i h
    rw [sweepLoop_succ]
    split
    · exact ih _ _
    · refine (ih _ _).trans ?_
      dsimp only
      split
      · exact List.filter_sublist
      · exact List.Sublist.refl _

/-- everything about `collectWith h R` in terms of `h` -/
theorem collectWith_facts (h : Heap) (hff : h.firstFree ≤ h.order.size) (hnd : h.order.toList.Nodup) (R : List Addr) :
    (collectWith h R).store = h.store ∧ (collectWith h R).globals = h.globals ∧
    (∀ a, Used (collectWith h R) a ↔ Used h a ∧ a ∈ R) ∧
    (∀ n a, (n, a) ∈ (collectWith h R).symtab ↔
      (n, a) ∈ h.symtab ∧ ¬ ∃ b o, Used h b ∧ b ∉ R ∧ (h.cell b).content = .sym (some n) o) ∧
    (collectWith h R).symtab.Sublist h.symtab ∧
    (∀ a ∈ (collectWith h R).order.toList, a ∈ h.order.toList) ∧
    (collectWith h R).order.toList.Nodup ∧
    (collectWith h R).firstFree ≤ (collectWith h R).order.size ∧
    (0 < h.order.size → 0 < (collectWith h R).order.size) ∧
    (collectWith h R).order.size ≤ h.order.size := by
  obtain ⟨hs1, hs2⟩ := sweep_store h R
  obtain ⟨hp1, hp2⟩ := sweep_perm h R hff
  have hsz : (sweep h R).order.size = h.order.size := by simpa using hp1.length_eq
  have hff1 : (sweep h R).firstFree ≤ (sweep h R).order.size := by omega
  obtain ⟨k1, k2, k3, k4, k5, k6, k7, k8, k9⟩ := shrink_spec (sweep h R) hff1
  unfold collectWith
  refine ⟨by rw [k1, hs1], by rw [k4, hs2], ?_, ?_, ?_, ?_, ?_, ?_, ?_, ?_⟩
  · intro a
    rw [← sweep_used h R hff hnd a]
    unfold Used
    rw [k5]
  · intro n a
    rw [k3]
    exact sweep_symtab h R hff hnd n a
  · rw [k3]
    exact sweepLoop_symtab_sublist R _ _ _
  · intro a ha
    exact hp1.mem_iff.1 (k7 a ha)
  · exact k8 (hp1.nodup_iff.2 hnd)
  · rw [k2]; exact k6
  · intro h0; exact k9 (by omega)
  · have : (shrink (sweep h R)).order.toList.length ≤ (sweep h R).order.toList.length := by
      rcases shrink_cases (sweep h R) with ⟨_, e⟩ | ⟨_, e⟩
      · rw [e]; exact Nat.le_refl _
      · rw [e]; simp; omega
    simp only [Array.length_toList] at this
    omega

theorem collectWith_used (h : Heap) (hinv : Inv h) (R : List Addr) (hm : Marked h R) (a : Addr) :
    Used (collectWith h R) a ↔ Reach h a := by
  obtain ⟨_, _, f3, _⟩ := collectWith_facts h hinv.ff_le hinv.nodup R
  rw [f3 a, hm a]
  exact ⟨fun x => x.2, fun x => ⟨reach_used' h hinv a x, x⟩⟩

theorem collectWith_cell (h : Heap) (hinv : Inv h) (R : List Addr) (a : Addr) :
    (collectWith h R).cell a = h.cell a :=
  cell_congr (collectWith_facts h hinv.ff_le hinv.nodup R).1 a

theorem collectWith_roots (h : Heap) (hinv : Inv h) (R : List Addr) (hm : Marked h R) (a : Addr) :
    a ∈ roots (collectWith h R) ↔ a ∈ roots h := by
  rw [mem_roots_iff, mem_roots_iff, collectWith_used h hinv R hm, collectWith_cell h hinv R]
  constructor
  · rintro ⟨h1, h2⟩; exact ⟨reach_used' h hinv a h1, h2⟩
  · rintro ⟨h1, h2⟩; exact ⟨Reach.root (mem_roots_iff.2 ⟨h1, h2⟩), h2⟩

theorem collectWith_reach' (h : Heap) (hinv : Inv h) (R : List Addr) (hm : Marked h R) (a : Addr) :
    Reach (collectWith h R) a ↔ Reach h a :=
  reach_congr (collectWith_roots h hinv R hm) (fun a => kids_congr (collectWith_cell h hinv R a)) a

theorem collectWith_inv' (h : Heap) (hinv : Inv h) (R : List Addr) (hm : Marked h R) : Inv (collectWith h R) := by
  obtain ⟨f1, f2, f3, f4, f5, f6, f7, f8, f9, f10⟩ := collectWith_facts h hinv.ff_le hinv.nodup R
  have hu := collectWith_used h hinv R hm
  have hc := collectWith_cell h hinv R
  refine ⟨f9 hinv.nonempty, f8, f7, ?_, ?_, ?_, ?_, ?_, ?_⟩
  · intro a ha
    rw [f1]
    exact hinv.inStore a (f6 a ha)
  · intro a ha b hb
    rw [hu] at ha ⊢
    rw [kids_congr (hc a)] at hb
    exact Reach.step ha hb
  · intro a ha hnu
    rw [hc a]
    rw [hu] at hnu
    by_cases hua : Used h a
    · rcases Nat.eq_zero_or_pos (h.cell a).rc with h0 | h0
      · exact h0
      · exact (hnu (Reach.root (mem_roots_iff.2 ⟨hua, h0⟩))).elim
    · exact hinv.freeRc a (f6 a ha) hua
  · exact hinv.symNodup.sublist (f5.map _)
  · intro n a hna
    obtain ⟨h1, h2⟩ := (f4 n a).1 hna
    obtain ⟨s1, s2⟩ := hinv.symSound n a h1
    have haR : a ∈ R := by
      apply Classical.byContradiction
      intro haR
      exact h2 ⟨a, some a, s1, haR, s2⟩
    rw [hu, hc a]
    exact ⟨(hm a).1 haR, s2⟩
  · intro a n o ha hca
    rw [hu] at ha
    rw [hc a] at hca
    have hua := reach_used' h hinv a ha
    rw [f4 n a]
    refine ⟨hinv.symComplete a n o hua hca, ?_⟩
    rintro ⟨b, o', hb1, hb2, hb3⟩
    have := named_unique' h hinv a b n o o' hua hb1 hca hb3
    subst this
    exact hb2 ((hm a).2 ha)

/-- the executable collection, with a few more facts than the public statement -/
theorem collectFast_spec' (h : Heap) (hinv : Inv h) :
    ∃ h', h.collectFast = some h' ∧ Inv h' ∧ h'.store = h.store ∧ h'.globals = h.globals ∧
      (∀ a, Used h' a ↔ Reach h a) ∧ (∀ a, Reach h' a ↔ Reach h a) ∧ h'.order.size ≤ h.order.size := by
  obtain ⟨R, hR⟩ := markFast_terminates h hinv
  have hm := markFast_marked h _ R hR
  obtain ⟨f1, f2, _, _, _, _, _, _, _, f10⟩ := collectWith_facts h hinv.ff_le hinv.nodup R
  refine ⟨collectWith h R, ?_, collectWith_inv' h hinv R hm, f1, f2, collectWith_used h hinv R hm,
    collectWith_reach' h hinv R hm, f10⟩
  unfold collectFast
  rw [hR]
  rfl

theorem collect_eq_collectFast' (h : Heap) (hinv : Inv h) (fuel : Nat) (h1 : Heap) (hc : h.collect fuel = some h1) :
    h.collectFast = some h1 := by
  obtain ⟨R, hR⟩ := markFast_terminates h hinv
  unfold collect at hc
  cases hL : markLoop h fuel (roots h).reverse [] with
  | none => rw [hL] at hc; cases hc
  | some R1 =>
    rw [hL] at hc
    simp only [Option.map_some, Option.some.injEq] at hc
    unfold collectFast
    rw [hR]
    simp only [Option.map_some, Option.some.injEq]
    rw [← hc]
    exact (collectWith_congr h R1 R (mark_agree h fuel _ R1 R hL hR)).symm

theorem init_inv' : Inv Heap.init := by
  have hu : ∀ a, ¬ Used Heap.init a := by
    intro a ha
    simp [Used, usedList, Heap.init] at ha
  refine ⟨by simp [Heap.init, Config.initialFreeCells], by simp [Heap.init], ?_, ?_, ?_, ?_, ?_, ?_, ?_⟩
  · simp only [Heap.init, Array.toList_range]
    exact List.nodup_range
  · intro a ha
    simp only [Heap.init, Array.toList_range, List.mem_range] at ha
    simpa [Heap.init] using ha
  · intro a ha; exact (hu a ha).elim
  · intro a ha _
    simp only [Heap.init, Array.toList_range, List.mem_range] at ha
    simp [Heap.init, cell, ha]
  · simp [Heap.init]
  · intro n a hna; simp [Heap.init] at hna
  · intro a n o ha; exact (hu a ha).elim

/-! ### cells of an updated store -/

theorem cell_ge (h : Heap) (x : Addr) (hx : h.store.size ≤ x) : h.cell x = ⟨Content.dflt, 0⟩ := by
  simp [cell, Array.getD, Nat.not_lt.2 hx]

theorem getD_set_self (s : Array Cell) (a : Nat) (v d : Cell) (ha : a < s.size) :
    (s.setIfInBounds a v).getD a d = v := by
  simp [Array.getD, ha]

theorem getD_set_ne (s : Array Cell) (a x : Nat) (v d : Cell) (hx : x ≠ a) :
    (s.setIfInBounds a v).getD x d = s.getD x d := by
  simp [Array.getD_eq_getD_getElem?, Ne.symm hx]

theorem getD_grow_lt (s : Array Cell) (v w d : Cell) (k x : Nat) (hx : x < s.size) :
    ((s.push v) ++ Array.replicate k w).getD x d = s.getD x d := by
  have h1 : x < s.size + 1 := by omega
  simp [Array.getD_eq_getD_getElem?, Array.getElem?_append, hx, h1, Array.getElem_push]

theorem getD_grow_eq (s : Array Cell) (v w d : Cell) (k : Nat) :
    ((s.push v) ++ Array.replicate k w).getD s.size d = v := by
  simp [Array.getD_eq_getD_getElem?, Array.getElem?_append]

theorem getD_grow_gt (s : Array Cell) (v d : Cell) (k x : Nat) (hx : s.size < x) :
    ((s.push v) ++ Array.replicate k d).getD x d = d := by
  simp [Array.getD_eq_getD_getElem?, Array.getElem?_append]
  split
  · omega
  · simp [Array.getElem?_replicate]
    split <;> rfl

/-! ### the invariant, with the table entry of one cell pending -/

/-- `Inv`, except that the cell `x` need not have its symbol table entry yet -/
structure InvX (h : Heap) (x : Addr) : Prop where
  nonempty    : 0 < h.order.size
  ff_le       : h.firstFree ≤ h.order.size
  nodup       : h.order.toList.Nodup
  inStore     : ∀ a ∈ h.order.toList, a < h.store.size
  closed      : ∀ a, Used h a → ∀ b ∈ kids h a, Used h b
  freeRc      : ∀ a ∈ h.order.toList, ¬ Used h a → (h.cell a).rc = 0
  symNodup    : (h.symtab.map (·.1)).Nodup
  symSound    : ∀ n a, (n, a) ∈ h.symtab → Used h a ∧ (h.cell a).content = .sym (some n) (some a)
  symComplete : ∀ a n o, Used h a → a ≠ x → (h.cell a).content = .sym (some n) o → (n, a) ∈ h.symtab

theorem InvX.toInv {h : Heap} {x : Addr} (hx : InvX h x)
    (hc : ∀ n o, Used h x → (h.cell x).content = .sym (some n) o → (n, x) ∈ h.symtab) : Inv h := by
  refine ⟨hx.nonempty, hx.ff_le, hx.nodup, hx.inStore, hx.closed, hx.freeRc, hx.symNodup, hx.symSound, ?_⟩
  intro a n o ha hca
  by_cases hax : a = x
  · subst hax; exact hc n o ha hca
  · exact hx.symComplete a n o ha hax hca

/-- a heap `h'` that extends `h` by one used cell `a` holding `c` -/
theorem invX_of_extend (h h' : Heap) (a : Addr) (c : Content) (hinv : Inv h)
    (hkids : ∀ b ∈ c.children, Used h b)
    (hna : ¬ Used h a)
    (hused : ∀ x, Used h' x ↔ x = a ∨ Used h x)
    (hcella : h'.cell a = ⟨c, 0⟩)
    (hcell : ∀ x, x ≠ a → h'.cell x = h.cell x)
    (hsym : h'.symtab = h.symtab)
    (hne : 0 < h'.order.size) (hff : h'.firstFree ≤ h'.order.size) (hnd : h'.order.toList.Nodup)
    (hin : ∀ x ∈ h'.order.toList, x < h'.store.size)
    (hnew : ∀ x ∈ h'.order.toList, x ∈ h.order.toList ∨ h.store.size ≤ x) : InvX h' a := by
  refine ⟨hne, hff, hnd, hin, ?_, ?_, ?_, ?_, ?_⟩
  · intro x hx b hb
    rw [hused] at hx ⊢
    rcases hx with rfl | hx
    · simp only [kids, hcella] at hb
      exact Or.inr (hkids b hb)
    · have hxa : x ≠ a := by rintro rfl; exact hna hx
      rw [kids_congr (hcell x hxa)] at hb
      exact Or.inr (hinv.closed x hx b hb)
  · intro x hx hnu
    rw [hused] at hnu
    have hxa : x ≠ a := fun e => hnu (Or.inl e)
    rw [hcell x hxa]
    rcases hnew x hx with h1 | h1
    · exact hinv.freeRc x h1 (fun e => hnu (Or.inr e))
    · rw [cell_ge h x h1]
  · rw [hsym]; exact hinv.symNodup
  · intro n x hnx
    rw [hsym] at hnx
    obtain ⟨s1, s2⟩ := hinv.symSound n x hnx
    have hxa : x ≠ a := by rintro rfl; exact hna s1
    rw [hused, hcell x hxa]
    exact ⟨Or.inr s1, s2⟩
  · intro x n o hx hxa hc
    rw [hused] at hx
    rcases hx with e | hx
    · exact (hxa e).elim
    · rw [hcell x hxa] at hc
      rw [hsym]
      exact hinv.symComplete x n o hx hc

/-! ### `place` -/

theorem place_reuse (h : Heap) (c : Content) (hlt : h.firstFree + 1 ≤ h.order.size) :
    h.place c = ({ (h.setContent (h.order.getD h.firstFree 0) c) with firstFree := h.firstFree + 1 },
      h.order.getD h.firstFree 0) := by
  unfold place
  rw [if_pos hlt]

theorem place_grow (h : Heap) (c : Content) (hlt : ¬ h.firstFree + 1 ≤ h.order.size) :
    h.place c = ({ h with
      order := (h.order.push h.store.size) ++
        (Array.range (ratio (h.order.size + 1) Config.allocationRatioNum Config.allocationRatioDen - 1)).map
          (· + (h.store.size + 1)),
      store := (h.store.push ⟨c, 0⟩) ++
        Array.replicate (ratio (h.order.size + 1) Config.allocationRatioNum Config.allocationRatioDen - 1) ⟨Content.dflt, 0⟩,
      firstFree := h.firstFree + 1 }, h.store.size) := by
  unfold place
  rw [if_neg hlt]
  simp

/-- what `place` does, on a well-formed heap, with a content whose children are in use -/
def PlaceSpec (h : Heap) (c : Content) (h' : Heap) (a : Addr) : Prop :=
  InvX h' a ∧ ¬ Used h a ∧ (∀ x, Used h' x ↔ x = a ∨ Used h x) ∧ h'.cell a = ⟨c, 0⟩ ∧
  (∀ x, x ≠ a → h'.cell x = h.cell x) ∧ h'.symtab = h.symtab ∧ h'.globals = h.globals

theorem place_spec_reuse (h : Heap) (hinv : Inv h) (c : Content) (hkids : ∀ b ∈ c.children, Used h b)
    (hlt : h.firstFree + 1 ≤ h.order.size) : PlaceSpec h c (h.place c).1 (h.place c).2 := by
  rw [place_reuse h c hlt]
  have hlt' : h.firstFree < h.order.size := by omega
  have hx : h.order.getD h.firstFree 0 = h.order[h.firstFree] := by simp [Array.getD, hlt']
  generalize ha : h.order.getD h.firstFree 0 = a at *
  have hmem : a ∈ h.order.toList := by rw [hx]; simp
  have hna : ¬ Used h a := by
    unfold Used usedList
    rw [mem_take_toList]
    rintro ⟨j, hj, hjk, e⟩
    rw [hx] at e
    have := arr_inj hinv.nodup _ _ e
    omega
  have hrc : (h.cell a).rc = 0 := hinv.freeRc a hmem hna
  have hst : a < h.store.size := hinv.inStore a hmem
  have hused : ∀ x, Used ({ (h.setContent a c) with firstFree := h.firstFree + 1 } : Heap) x ↔ x = a ∨ Used h x := by
    intro x
    simp only [Used, usedList, setContent]
    rw [List.take_succ_eq_append_getElem (by simpa using hlt'), List.mem_append, List.mem_singleton]
    rw [Array.getElem_toList, ← hx]
    exact Or.comm
  have hcella : ({ (h.setContent a c) with firstFree := h.firstFree + 1 } : Heap).cell a = ⟨c, 0⟩ := by
    simp only [cell, setContent]
    rw [getD_set_self _ _ _ _ hst]
    have : (h.store.getD a ⟨Content.dflt, 0⟩).rc = 0 := hrc
    rw [this]
  have hcell : ∀ x, x ≠ a → ({ (h.setContent a c) with firstFree := h.firstFree + 1 } : Heap).cell x = h.cell x := by
    intro x hxa
    simp only [cell, setContent]
    rw [getD_set_ne _ _ _ _ _ hxa]
  refine ⟨?_, hna, hused, hcella, hcell, rfl, rfl⟩
  refine invX_of_extend h _ a c hinv hkids hna hused hcella hcell rfl ?_ ?_ ?_ ?_ ?_
  · exact hinv.nonempty
  · exact hlt
  · exact hinv.nodup
  · intro x hx
    simp only [setContent, Array.size_setIfInBounds]
    exact hinv.inStore x hx
  · intro x hx; exact Or.inl hx

/-- `omega`, after unfolding the abbreviation `Addr` (which hides `Nat` from it) -/
macro "omega_addr" : tactic => `(tactic| ((try simp only [Addr] at *); omega))

theorem lt_store {h : Heap} (hinv : Inv h) {x : Nat} (hx : x ∈ h.order.toList) : @LT.lt Nat _ x h.store.size :=
  hinv.inStore x hx

theorem place_spec_grow (h : Heap) (hinv : Inv h) (c : Content) (hkids : ∀ b ∈ c.children, Used h b)
    (hlt : ¬ h.firstFree + 1 ≤ h.order.size) : PlaceSpec h c (h.place c).1 (h.place c).2 := by
  rw [place_grow h c hlt]
  have hff : h.firstFree = h.order.size := by have := hinv.ff_le; omega
  generalize ratio (h.order.size + 1) Config.allocationRatioNum Config.allocationRatioDen - 1 = extra
  generalize hh' : ({ h with
      order := (h.order.push h.store.size) ++ (Array.range extra).map (· + (h.store.size + 1)),
      store := (h.store.push ⟨c, 0⟩) ++ Array.replicate extra ⟨Content.dflt, 0⟩,
      firstFree := h.firstFree + 1 } : Heap) = h'
  have ho : h'.order.toList = (h.order.toList ++ [h.store.size]) ++ (List.range extra).map (· + (h.store.size + 1)) := by
    subst hh'; simp
  have hs : h'.store = (h.store.push ⟨c, 0⟩) ++ Array.replicate extra ⟨Content.dflt, 0⟩ := by subst hh'; rfl
  have hf : h'.firstFree = h.order.size + 1 := by subst hh'; simp [hff]
  have hsy : h'.symtab = h.symtab := by subst hh'; rfl
  have hg : h'.globals = h.globals := by subst hh'; rfl
  have hul : usedList h = h.order.toList := by
    unfold usedList; rw [hff]; exact List.take_of_length_le (by simp)
  have hul' : usedList h' = h.order.toList ++ [h.store.size] := by
    unfold usedList
    rw [ho, hf]
    exact List.take_left' (by simp)
  have hna : ¬ Used h h.store.size := by
    intro hu
    unfold Used at hu
    rw [hul] at hu
    have := lt_store hinv hu
    omega
  have hused : ∀ x, Used h' x ↔ x = h.store.size ∨ Used h x := by
    intro x
    unfold Used
    rw [hul', hul, List.mem_append, List.mem_singleton]
    exact Or.comm
  have hcella : h'.cell h.store.size = ⟨c, 0⟩ := by
    simp only [cell, hs]
    exact getD_grow_eq _ _ _ _ _
  have hcell : ∀ x, x ≠ h.store.size → h'.cell x = h.cell x := by
    intro x hx
    rcases Nat.lt_or_ge x h.store.size with h1 | h1
    · simp only [cell, hs]
      exact getD_grow_lt _ _ _ _ _ _ h1
    · rw [cell_ge h x h1]
      simp only [cell, hs]
      exact getD_grow_gt _ _ _ _ _ (by omega)
  refine ⟨?_, hna, hused, hcella, hcell, hsy, hg⟩
  refine invX_of_extend h h' _ c hinv hkids hna hused hcella hcell hsy ?_ ?_ ?_ ?_ ?_
  · have := congrArg List.length ho
    simp at this; omega_addr
  · have := congrArg List.length ho
    simp at this; omega_addr
  · rw [ho, List.nodup_append]
    refine ⟨?_, ?_, ?_⟩
    · rw [List.nodup_append]
      refine ⟨hinv.nodup, by simp, ?_⟩
      intro x hx y hy
      rw [List.mem_singleton] at hy
      have := lt_store hinv hx
      omega_addr
    · exact List.Pairwise.map _ (fun a b (hab : a ≠ b) => by omega_addr) List.nodup_range
    · intro x hx y hy
      rw [List.mem_map] at hy
      obtain ⟨i, _, rfl⟩ := hy
      rw [List.mem_append, List.mem_singleton] at hx
      rcases hx with hx | hx
      · have := lt_store hinv hx; omega_addr
      · omega_addr
  · intro x hx
    rw [ho] at hx
    rw [hs]
    simp only [Array.size_append, Array.size_push, Array.size_replicate]
    rw [List.mem_append, List.mem_append, List.mem_singleton, List.mem_map] at hx
    rcases hx with (hx | hx) | ⟨i, hi, rfl⟩
    · have := lt_store hinv hx; omega_addr
    · omega_addr
    · rw [List.mem_range] at hi; omega_addr
  · intro x hx
    rw [ho] at hx
    rw [List.mem_append, List.mem_append, List.mem_singleton, List.mem_map] at hx
    rcases hx with (hx | hx) | ⟨i, hi, rfl⟩
    · exact Or.inl hx
    · right; omega_addr
    · right; omega_addr

theorem place_spec (h : Heap) (hinv : Inv h) (c : Content) (hkids : ∀ b ∈ c.children, Used h b) :
    PlaceSpec h c (h.place c).1 (h.place c).2 := by
  by_cases hlt : h.firstFree + 1 ≤ h.order.size
  · exact place_spec_reuse h hinv c hkids hlt
  · exact place_spec_grow h hinv c hkids hlt

theorem place_size (h : Heap) (c : Content) :
    (h.place c).1.order.size = h.order.size ∨
    (¬ h.firstFree + 1 ≤ h.order.size ∧ (h.place c).1.order.size =
      h.order.size + 1 + (ratio (h.order.size + 1) Config.allocationRatioNum Config.allocationRatioDen - 1)) := by
  by_cases hlt : h.firstFree + 1 ≤ h.order.size
  · left; rw [place_reuse h c hlt]; rfl
  · right; rw [place_grow h c hlt]; simp [hlt]

/-! ### `allocate` -/

/-- `h'` is `h` after zero or more collections -/
structure Coll (h h' : Heap) : Prop where
  inv     : Inv h'
  store   : h'.store = h.store
  globals : h'.globals = h.globals
  keeps   : ∀ a, Reach h a → Used h' a
  used    : ∀ a, Used h' a → Used h a
  reach   : ∀ a, Reach h' a ↔ Reach h a
  size    : h'.order.size ≤ h.order.size

theorem Coll.refl {h : Heap} (hinv : Inv h) : Coll h h :=
  ⟨hinv, rfl, rfl, reach_used' h hinv, fun _ x => x, fun _ => Iff.rfl, Nat.le_refl _⟩

theorem Coll.trans {h h1 h2 : Heap} (c1 : Coll h h1) (c2 : Coll h1 h2) : Coll h h2 :=
  ⟨c2.inv, c2.store.trans c1.store, c2.globals.trans c1.globals,
   fun a ha => c2.keeps a ((c1.reach a).2 ha), fun a ha => c1.used a (c2.used a ha),
   fun a => (c2.reach a).trans (c1.reach a), Nat.le_trans c2.size c1.size⟩

theorem opt_collect (h : Heap) (hinv : Inv h) (p : Prop) [Decidable p] :
    ∃ h1, (if p then h.collectFast else some h) = some h1 ∧ Coll h h1 ∧ (p → ∀ a, Used h1 a → Reach h a) := by
  by_cases hp : p
  · obtain ⟨h1, e, i1, s1, g1, u1, r1, z1⟩ := collectFast_spec' h hinv
    refine ⟨h1, by rw [if_pos hp, e], ⟨i1, s1, g1, fun a ha => (u1 a).2 ha, ?_, r1, z1⟩, fun _ a ha => (u1 a).1 ha⟩
    intro a ha
    exact reach_used' h hinv a ((u1 a).1 ha)
  · exact ⟨h, by rw [if_neg hp], Coll.refl hinv, fun hp' => (hp hp').elim⟩

theorem allocate_eq (h : Heap) (hinv : Inv h) (c : Content) (forced : Bool) :
    ∃ h2, Coll h h2 ∧ h.allocate c forced = some (h2.place c) ∧
      (h2.firstFree = h2.order.size → ∀ b, Used h2 b → Reach h b) := by
  obtain ⟨h1, e1, c1, _⟩ := opt_collect h hinv (forced = true)
  obtain ⟨h2, e2, c2, u2⟩ := opt_collect h1 c1.inv (h1.firstFree > h1.order.size - 1)
  refine ⟨h2, c1.trans c2, ?_, ?_⟩
  · unfold allocate
    have n0 : ¬ h.order.size = 0 := by have := hinv.nonempty; omega
    have n1 : ¬ h1.order.size = 0 := by have := c1.inv.nonempty; omega
    rw [if_neg n0, e1]
    dsimp only
    rw [if_neg n1, e2]
  · intro hfull b hb
    by_cases hp : h1.firstFree > h1.order.size - 1
    · exact (c1.reach b).1 (u2 hp b hb)
    · exfalso
      rw [if_neg hp] at e2
      cases e2
      have := c1.inv.nonempty
      omega

/-- `allocate`, for any content (the table entry of a named symbol is still pending) -/
theorem allocate_core (h : Heap) (hinv : Inv h) (c : Content) (forced : Bool)
    (hkids : ∀ b ∈ c.children, Reach h b) :
    ∃ h' a, h.allocate c forced = some (h', a) ∧ InvX h' a ∧ ¬ Reach h a ∧ Used h' a ∧
      h'.cell a = ⟨c, 0⟩ ∧ h'.globals = h.globals ∧
      (∀ b, Reach h b → Used h' b) ∧ (∀ b, b ≠ a → h'.cell b = h.cell b) ∧
      (∀ b, Used h' b → b = a ∨ Used h b) := by
  obtain ⟨h2, c2, e, _⟩ := allocate_eq h hinv c forced
  obtain ⟨p1, p2, p3, p4, p5, p6, p7⟩ := place_spec h2 c2.inv c (fun b hb => c2.keeps b (hkids b hb))
  refine ⟨(h2.place c).1, (h2.place c).2, e, p1, fun hr => p2 (c2.keeps _ hr), (p3 _).2 (Or.inl rfl), p4,
    p7.trans c2.globals, fun b hb => (p3 b).2 (Or.inr (c2.keeps b hb)), ?_, ?_⟩
  · intro b hb
    rw [p5 b hb]
    exact cell_congr c2.store b
  · intro b hb
    rcases (p3 b).1 hb with h1 | h1
    · exact Or.inl h1
    · exact Or.inr (c2.used b h1)

theorem allocate_spec' (h : Heap) (hinv : Inv h) (c : Content) (forced : Bool)
    (hkids : ∀ b ∈ c.children, Reach h b)
    (hsym : ∀ n o, c ≠ .sym (some n) o) :
    ∃ h' a, h.allocate c forced = some (h', a) ∧ Inv h' ∧ ¬ Reach h a ∧ Used h' a ∧
      h'.cell a = ⟨c, 0⟩ ∧ h'.globals = h.globals ∧
      (∀ b, Reach h b → Used h' b ∧ h'.cell b = h.cell b) ∧
      (∀ b, Used h' b → b = a ∨ Used h b) := by
  obtain ⟨h', a, e, q1, q2, q3, q4, q5, q6, q7, q8⟩ := allocate_core h hinv c forced hkids
  refine ⟨h', a, e, ?_, q2, q3, q4, q5, ?_, q8⟩
  · apply q1.toInv
    intro n o _ hc
    rw [q4] at hc
    exact (hsym n o hc).elim
  · intro b hb
    refine ⟨q6 b hb, q7 b ?_⟩
    rintro rfl
    exact q2 hb

theorem allocate_growth' (h : Heap) (hinv : Inv h) (c : Content) (forced : Bool) (h' : Heap) (a : Addr)
    (ha : h.allocate c forced = some (h', a)) :
    h'.order.size ≤ h.order.size ∨
    (∃ hc, hc.firstFree = hc.order.size ∧ hc.order.size ≤ h.order.size ∧ (∀ b, Used hc b → Reach h b) ∧
      h'.order.size = hc.order.size + 1 + (ratio (hc.order.size + 1) Config.allocationRatioNum Config.allocationRatioDen - 1)) := by
  obtain ⟨h2, c2, e, u⟩ := allocate_eq h hinv c forced
  rw [e] at ha
  have : h' = (h2.place c).1 := by
    have := congrArg Prod.fst (Option.some.inj ha)
    exact this.symm
  subst this
  rcases place_size h2 c with hs | ⟨hlt, hs⟩
  · left; rw [hs]; exact c2.size
  · right
    have hfull : h2.firstFree = h2.order.size := by have := c2.inv.ff_le; omega
    exact ⟨h2, hfull, c2.size, u hfull, hs⟩

/-! ### symbols -/

theorem used_mem_order {h : Heap} {a : Addr} (hu : Used h a) : a ∈ h.order.toList := List.mem_of_mem_take hu

theorem setContent_cell_self (h : Heap) (a : Addr) (c : Content) (ha : a < h.store.size) :
    (h.setContent a c).cell a = ⟨c, (h.cell a).rc⟩ := by
  simp only [cell, setContent]
  rw [getD_set_self _ _ _ _ ha]

theorem setContent_cell_ne (h : Heap) (a x : Addr) (c : Content) (hx : x ≠ a) :
    (h.setContent a c).cell x = h.cell x := by
  simp only [cell, setContent]
  rw [getD_set_ne _ _ _ _ _ hx]

theorem incRc_cell_self (h : Heap) (a : Addr) (ha : a < h.store.size) :
    (h.incRc a).cell a = ⟨(h.cell a).content, (h.cell a).rc + 1⟩ := by
  simp only [cell, incRc]
  rw [getD_set_self _ _ _ _ ha]

theorem incRc_cell_ne (h : Heap) (a x : Addr) (hx : x ≠ a) : (h.incRc a).cell x = h.cell x := by
  simp only [cell, incRc]
  rw [getD_set_ne _ _ _ _ _ hx]

theorem incRc_content (h : Heap) (a x : Addr) (ha : a < h.store.size) :
    ((h.incRc a).cell x).content = (h.cell x).content := by
  by_cases hx : x = a
  · subst hx; rw [incRc_cell_self h x ha]
  · rw [incRc_cell_ne h a x hx]

/-- handing out a handle on a used cell keeps the invariant -/
theorem inv_incRc (h : Heap) (hinv : Inv h) (a : Addr) (hua : Used h a) : Inv (h.incRc a) := by
  have ha : a < h.store.size := hinv.inStore a (used_mem_order hua)
  have hu : ∀ x, Used (h.incRc a) x ↔ Used h x := fun _ => Iff.rfl
  have hk : ∀ x, kids (h.incRc a) x = kids h x := by
    intro x; simp only [kids, incRc_content h a x ha]
  refine ⟨hinv.nonempty, hinv.ff_le, hinv.nodup, ?_, ?_, ?_, hinv.symNodup, ?_, ?_⟩
  · intro x hx
    simp only [incRc, Array.size_setIfInBounds]
    exact hinv.inStore x hx
  · intro x hx b hb
    rw [hk] at hb
    exact hinv.closed x hx b hb
  · intro x hx hnu
    have hxa : x ≠ a := by rintro rfl; exact hnu hua
    rw [incRc_cell_ne h a x hxa]
    exact hinv.freeRc x hx hnu
  · intro n x hnx
    rw [incRc_content h a x ha]
    exact hinv.symSound n x hnx
  · intro x n o hx hc
    rw [incRc_content h a x ha] at hc
    exact hinv.symComplete x n o hx hc

/-- a fresh symbol cell learns its own address -/
theorem invX_setOwn (h : Heap) (a : Addr) (nm : Option Name) (hx : InvX h a) (hua : Used h a)
    (hca : (h.cell a).content = .sym nm none) : InvX (h.setContent a (.sym nm (some a))) a := by
  have ha : a < h.store.size := hx.inStore a (used_mem_order hua)
  have hk : ∀ x, kids (h.setContent a (.sym nm (some a))) x = kids h x := by
    intro x
    by_cases hxa : x = a
    · subst hxa
      simp only [kids, setContent_cell_self h x _ ha, hca, Content.children]
    · simp only [kids, setContent_cell_ne h a x _ hxa]
  refine ⟨hx.nonempty, hx.ff_le, hx.nodup, ?_, ?_, ?_, hx.symNodup, ?_, ?_⟩
  · intro x hxo
    simp only [setContent, Array.size_setIfInBounds]
    exact hx.inStore x hxo
  · intro x hxu b hb
    rw [hk] at hb
    exact hx.closed x hxu b hb
  · intro x hxo hnu
    have hxa : x ≠ a := by rintro rfl; exact hnu hua
    rw [setContent_cell_ne h a x _ hxa]
    exact hx.freeRc x hxo hnu
  · intro n x hnx
    obtain ⟨s1, s2⟩ := hx.symSound n x hnx
    have hxa : x ≠ a := by
      rintro rfl
      rw [hca] at s2
      cases s2
    rw [setContent_cell_ne h a x _ hxa]
    exact ⟨s1, s2⟩
  · intro x n o hxu hxa hc
    rw [setContent_cell_ne h a x _ hxa] at hc
    exact hx.symComplete x n o hxu hxa hc

/-- entering the pending cell in the table completes the invariant -/
theorem inv_addSym (h : Heap) (a : Addr) (n : Name) (hx : InvX h a) (hua : Used h a)
    (hca : (h.cell a).content = .sym (some n) (some a)) (hfresh : ∀ y, (n, y) ∉ h.symtab) :
    Inv ({ h with symtab := (n, a) :: h.symtab } : Heap) := by
  refine ⟨hx.nonempty, hx.ff_le, hx.nodup, hx.inStore, hx.closed, hx.freeRc, ?_, ?_, ?_⟩
  · simp only [List.map_cons, List.nodup_cons]
    refine ⟨?_, hx.symNodup⟩
    intro hm
    obtain ⟨⟨m, y⟩, hy, e⟩ := List.mem_map.1 hm
    simp only at e
    subst e
    exact hfresh y hy
  · intro m y hmy
    rcases List.mem_cons.1 hmy with e | hmy'
    · cases e
      exact ⟨hua, hca⟩
    · exact hx.symSound m y hmy'
  · intro y m o hy hc
    by_cases hya : y = a
    · subst hya
      have hc' : (h.cell y).content = .sym (some m) o := hc
      rw [hca] at hc'
      cases hc'
      exact List.mem_cons_self ..
    · exact List.mem_cons_of_mem _ (hx.symComplete y m o hy hya hc)

theorem intern_same' (h : Heap) (hinv : Inv h) (n : Name) (a : Addr) (o : Option Addr) (forced : Bool)
    (ha : Used h a) (hc : (h.cell a).content = .sym (some n) o) :
    h.symbolFor n forced = some (h.incRc a, a) := by
  have := lookup_of_mem h.symtab hinv.symNodup n a (hinv.symComplete a n o ha hc)
  unfold symbolFor
  rw [this]

theorem intern_fresh' (h : Heap) (hinv : Inv h) (n : Name) (forced : Bool)
    (hno : ∀ a o, Used h a → (h.cell a).content ≠ .sym (some n) o) :
    ∃ h' a, h.symbolFor n forced = some (h', a) ∧ Inv h' ∧ ¬ Reach h a ∧ Used h' a ∧
      (h'.cell a).content = .sym (some n) (some a) ∧ (h'.cell a).rc = 1 ∧
      (∀ b, Reach h b → Used h' b ∧ h'.cell b = h.cell b) := by
  have hlk : h.symtab.lookup n = none := by
    apply lookup_none_of_not_mem
    intro y hy
    obtain ⟨s1, s2⟩ := hinv.symSound n y hy
    exact hno y _ s1 s2
  obtain ⟨h1, a, e, q1, q2, q3, q4, q5, q6, q7, q8⟩ :=
    allocate_core h hinv (.sym (some n) none) forced (by intro b hb; simp [Content.children] at hb)
  have ha : a < h1.store.size := q1.inStore a (used_mem_order q3)
  have hca1 : (h1.cell a).content = .sym (some n) none := by rw [q4]
  have x2 := invX_setOwn h1 a (some n) q1 q3 hca1
  have hc2 := setContent_cell_self h1 a (.sym (some n) (some a)) ha
  have hfresh : ∀ y, (n, y) ∉ (h1.setContent a (.sym (some n) (some a))).symtab := by
    intro y hy
    obtain ⟨s1, s2⟩ := q1.symSound n y hy
    have hya : y ≠ a := by
      rintro rfl
      rw [hca1] at s2
      cases s2
    rcases q8 y s1 with h0 | h0
    · exact hya h0
    · rw [q7 y hya] at s2
      exact hno y _ h0 s2
  have i3 := inv_addSym _ a n x2 q3 (by rw [hc2]) hfresh
  have i4 := inv_incRc _ i3 a q3
  refine ⟨_, a, ?_, i4, q2, q3, ?_, ?_, ?_⟩
  · unfold symbolFor
    rw [hlk, e]
  · rw [incRc_content _ a a (by simpa [setContent] using ha)]
    show ((h1.setContent a _).cell a).content = _
    rw [hc2]
  · rw [incRc_cell_self _ a (by simpa [setContent] using ha)]
    show ((h1.setContent a _).cell a).rc + 1 = 1
    rw [hc2, q4]
  · intro b hb
    have hba : b ≠ a := by rintro rfl; exact q2 hb
    refine ⟨q6 b hb, ?_⟩
    rw [incRc_cell_ne _ a b hba]
    show (h1.setContent a _).cell b = _
    rw [setContent_cell_ne h1 a b _ hba, q7 b hba]

theorem gensym_fresh' (h : Heap) (hinv : Inv h) (forced : Bool) :
    ∃ h' a, h.uniqueSymbol forced = some (h', a) ∧ Inv h' ∧ ¬ Reach h a ∧ Used h' a ∧
      (h'.cell a).content = .sym none (some a) ∧ (h'.cell a).rc = 1 ∧ (∀ n, (n, a) ∉ h'.symtab) ∧
      (∀ b, Reach h b → Used h' b ∧ h'.cell b = h.cell b) := by
  obtain ⟨h1, a, e, q1, q2, q3, q4, q5, q6, q7, q8⟩ :=
    allocate_core h hinv (.sym none none) forced (by intro b hb; simp [Content.children] at hb)
  have ha : a < h1.store.size := q1.inStore a (used_mem_order q3)
  have hca1 : (h1.cell a).content = .sym none none := by rw [q4]
  have x2 := invX_setOwn h1 a none q1 q3 hca1
  have hc2 := setContent_cell_self h1 a (.sym none (some a)) ha
  have i2 : Inv (h1.setContent a (.sym none (some a))) := by
    apply x2.toInv
    intro n o _ hc
    rw [hc2] at hc
    cases hc
  have i3 := inv_incRc _ i2 a q3
  refine ⟨_, a, ?_, i3, q2, q3, ?_, ?_, ?_, ?_⟩
  · unfold uniqueSymbol
    rw [e]
  · rw [incRc_content _ a a (by simpa [setContent] using ha), hc2]
  · rw [incRc_cell_self _ a (by simpa [setContent] using ha), hc2, q4]
  · intro n hn
    obtain ⟨_, s2⟩ := i3.symSound n a hn
    rw [incRc_content _ a a (by simpa [setContent] using ha), hc2] at s2
    cases s2
  · intro b hb
    have hba : b ≠ a := by rintro rfl; exact q2 hb
    refine ⟨q6 b hb, ?_⟩
    rw [incRc_cell_ne _ a b hba, setContent_cell_ne h1 a b _ hba, q7 b hba]

end Pici.Heap
