/-
Helper lemmas for Props/C11: the tokenizer `tokLoop` and the token loop `readLoop` of `Model/Reader.lean` on plain
text (`Val.ofChars`), one character at a time.
-/
import PiciModel.Model.Reader

namespace Pici.ReaderSpec
open Pici

/-! ### `explode` on plain text -/

/-- the exploded form of plain text -/
def items : List Char → List (Char × Val)
  | [] => []
  | c :: cs => (c, .ofChars cs) :: items cs

theorem ofChars_cons (c : Char) (cs : List Char) : Val.ofChars (c :: cs) = .cons (.chr c) (.ofChars cs) := rfl

theorem explode_ofChars (cs : List Char) : explode (.ofChars cs) = (items cs, .eof) := by
  induction cs with
  | nil => rfl
  | cons c cs ih =>
    rw [ofChars_cons, explode]
    simp only [Val.get, ih, items]

theorem items_length (cs : List Char) : (items cs).length = cs.length := by
  induction cs with
  | nil => rfl
  | cons c cs ih => simp [items, ih]

theorem ofChars_inj {a b : List Char} (h : Val.ofChars a = Val.ofChars b) : a = b := by
  induction a generalizing b with
  | nil => cases b with
    | nil => rfl
    | cons c b => simp [Val.ofChars, Val.ofList] at h
  | cons c a ih => cases b with
    | nil => simp [Val.ofChars, Val.ofList] at h
    | cons d b =>
      simp only [ofChars_cons, Val.cons.injEq, Val.chr.injEq] at h
      rw [h.1, ih h.2]

/-! ### one step of `tokLoop` -/

/-- what one character does to the tokenizer state, before the atom-ending test -/
inductive Act where
  | go (status : TokStatus) (buf : List Char) (begin : Loc)
  | fin (status : TokStatus) (buf : List Char) (begin : Loc)
  | tok (v : TokenValue) (tloc : Loc)
  | bad (msg : List Char)

def msgEscape (ch : Char) : List Char := cs!"'" ++ [ch] ++ cs!"' is not a valid escape character in a string literal"
def msgBackslash : List Char := cs!"unexpected character: '\\'"
def msgNumber (ch : Char) : List Char := cs!"unexpected character in number literal: '" ++ [ch] ++ cs!"'"

/-- `loc` is the location after the character -/
def act (ch : Char) (loc : Loc) (status : TokStatus) (buf : List Char) (begin : Loc) : Act :=
  if status == .comment then
    .go (if ch = '\n' then .whiteSpace else .comment) buf begin
  else if status == .stringNormal && ch ≠ '"' && ch ≠ '\\' then
    .go status (ch :: buf) begin
  else if status == .stringEscape then
    if ch = '"' then .go .stringNormal ('"' :: buf) begin
    else if ch = 'n' then .go .stringNormal ('\n' :: buf) begin
    else if ch = 'r' then .go .stringNormal ('\r' :: buf) begin
    else if ch = 't' then .go .stringNormal ('\t' :: buf) begin
    else if ch = '\\' then .go .stringNormal ('\\' :: buf) begin
    else .bad (msgEscape ch)
  else if status == .character && buf = [] then
    .fin status [ch] begin
  else if isWhitespace ch || ch = ',' then
    .fin .whiteSpace buf begin
  else if ch = ';' then
    .fin .comment buf begin
  else if ch = '\'' then .tok .quote loc
  else if ch = '(' then .tok .openParen loc
  else if ch = ')' then .tok .closeParen loc
  else if ch = '"' then
    if status == .stringNormal then .tok (.string buf.reverse) begin
    else .fin .stringNormal buf loc
  else if ch = '\\' then
    if status == .stringNormal then .fin .stringEscape buf begin
    else if status == .character then .fin status (ch :: buf) begin
    else .bad msgBackslash
  else if ch = '%' then
    if status == .whiteSpace then .fin .character buf loc
    else .fin status (ch :: buf) begin
  else if ch = '+' || ch = '-' then
    if status == .whiteSpace then .fin .symbolOrNumber (ch :: buf) loc
    else .fin status (ch :: buf) begin
  else if isAsciiDigit ch then
    if status == .symbolOrNumber then .fin .number (ch :: buf) begin
    else if status == .whiteSpace then .fin .number (ch :: buf) loc
    else .fin status (ch :: buf) begin
  else
    if status == .whiteSpace then .fin .symbol (ch :: buf) loc
    else if status == .symbolOrNumber then .fin .symbol (ch :: buf) begin
    else if status == .number then
      .bad (msgNumber ch)
    else .fin status (ch :: buf) begin

/-- the atom-ending test after a character (the local `finish` of `tokLoop`, verbatim) -/
def finishF (items : List (Char × Val)) (tail : Tail) (loc : Loc) (rest : Rest)
    (status : TokStatus) (buf : List Char) (begin : Loc) : TokOut :=
  if buf ≠ [] then
    match atomEnding items tail with
    | none       => .err .invalidString
    | some false => tokLoop items tail loc status buf begin
    | some true  =>
      match status with
      | .character =>
        match buildCharacter buf.reverse with
        | .ok c      => .token (.character c) begin rest items loc
        | .error msg => .err (.error msg loc rest)
      | .number =>
        match buildNumber buf.reverse with
        | .ok n      => .token (.number n) begin rest items loc
        | .error msg => .err (.error msg loc rest)
      | .symbol | .symbolOrNumber => .token (.symbol buf.reverse) begin rest items loc
      | .stringNormal | .stringEscape => tokLoop items tail loc status buf begin
      | .whiteSpace | .comment => .err (.crash cs!"read: unreachable token status")
  else tokLoop items tail loc status buf begin

def runAct (items : List (Char × Val)) (tail : Tail) (loc : Loc) (rest : Rest) : Act → TokOut
  | .go s b g  => tokLoop items tail loc s b g
  | .fin s b g => finishF items tail loc rest s b g
  | .tok v tl  => .token v tl rest items loc
  | .bad msg   => .err (.error msg loc rest)

theorem tokLoop_cons (ch : Char) (r : Val) (items : List (Char × Val)) (tail : Tail) (loc0 : Loc)
    (status : TokStatus) (buf : List Char) (begin : Loc) :
    tokLoop ((ch, r) :: items) tail loc0 status buf begin =
      runAct items tail (loc0.step ch) ⟨r, (loc0.step ch).line, (loc0.step ch).col + 1⟩
        (act ch (loc0.step ch) status buf begin) := by
  rw [tokLoop]
  unfold act
  simp only [apply_ite (runAct items tail (loc0.step ch) ⟨r, (loc0.step ch).line, (loc0.step ch).col + 1⟩)]
  rfl

theorem tokLoop_nil (loc : Loc) (status : TokStatus) (buf : List Char) (begin : Loc) :
    tokLoop [] .eof loc status buf begin =
      if buf ≠ [] || status == .stringNormal || status == .stringEscape || status == .character
      then .err .incomplete else .done := by
  rw [tokLoop]

/-! ### the atom-ending test on plain text -/

/-- the next character exists and is not a delimiter -/
def nd : List Char → Bool
  | c :: _ => !isDelimiter c
  | []     => false

theorem atomEnding_items (cs : List Char) : atomEnding (items cs) .eof = some (!nd cs) := by
  cases cs <;> simp [items, atomEnding, nd]

/-- the atom that ends here (`finish` once the atom-ending test has said yes) -/
def endF (its : List (Char × Val)) (loc : Loc) (rest : Rest) (status : TokStatus) (buf : List Char) (begin : Loc) : TokOut :=
  match status with
  | .character =>
    match buildCharacter buf.reverse with
    | .ok c      => .token (.character c) begin rest its loc
    | .error msg => .err (.error msg loc rest)
  | .number =>
    match buildNumber buf.reverse with
    | .ok n      => .token (.number n) begin rest its loc
    | .error msg => .err (.error msg loc rest)
  | .symbol | .symbolOrNumber => .token (.symbol buf.reverse) begin rest its loc
  | .stringNormal | .stringEscape => tokLoop its .eof loc status buf begin
  | .whiteSpace | .comment => .err (.crash cs!"read: unreachable token status")

theorem finishF_nil (its : List (Char × Val)) (tail : Tail) (loc : Loc) (rest : Rest) (s : TokStatus) (g : Loc) :
    finishF its tail loc rest s [] g = tokLoop its tail loc s [] g := by
  simp [finishF]

theorem finishF_nd (cs : List Char) (loc : Loc) (rest : Rest) (s : TokStatus) (b : List Char) (g : Loc)
    (h : nd cs = true) : finishF (items cs) .eof loc rest s b g = tokLoop (items cs) .eof loc s b g := by
  unfold finishF
  rw [atomEnding_items, h]
  simp

theorem finishF_end (cs : List Char) (loc : Loc) (rest : Rest) (s : TokStatus) (b : List Char) (g : Loc)
    (hb : b ≠ []) (h : nd cs = false) : finishF (items cs) .eof loc rest s b g = endF (items cs) loc rest s b g := by
  unfold finishF
  rw [atomEnding_items, h, if_pos hb]
  rfl

/-- case analysis for `finishF` on plain text -/
theorem finishF_cases (cs : List Char) (loc : Loc) (rest : Rest) (s : TokStatus) (b : List Char) (g : Loc) :
    (finishF (items cs) .eof loc rest s b g = tokLoop (items cs) .eof loc s b g ∧ (b = [] ∨ nd cs = true)) ∨
    (finishF (items cs) .eof loc rest s b g = endF (items cs) loc rest s b g ∧ b ≠ [] ∧ nd cs = false) := by
  by_cases hb : b = []
  · subst hb; exact .inl ⟨finishF_nil .., .inl rfl⟩
  · by_cases h : nd cs = true
    · exact .inl ⟨finishF_nd _ _ _ _ _ _ h, .inr h⟩
    · have h' : nd cs = false := by simpa using h
      exact .inr ⟨finishF_end _ _ _ _ _ _ hb h', hb, h'⟩

theorem nd_append (cs t : List Char) (h : cs ≠ []) : nd (cs ++ t) = nd cs := by
  cases cs with
  | nil => exact absurd rfl h
  | cons c cs => rfl

theorem items_cons (c : Char) (cs : List Char) : items (c :: cs) = (c, .ofChars cs) :: items cs := rfl

theorem items_inj {a b : List Char} (h : items a = items b) : a = b := by
  induction a generalizing b with
  | nil => cases b with
    | nil => rfl
    | cons c b => simp [items] at h
  | cons c a ih => cases b with
    | nil => simp [items] at h
    | cons d b =>
      simp only [items, List.cons.injEq, Prod.mk.injEq] at h
      rw [h.1.1, ih h.2]

/-! ### what `tokLoop` can return on plain text -/

theorem tokLoop_pred (P : TokOut → Prop) (hdone : P .done) (hinc : P (.err .incomplete))
    (htok : ∀ v l r rem nl, P (.token v l r rem nl)) (herr : ∀ m l r, P (.err (.error m l r)))
    (hcrash : ∀ m, P (.err (.crash m))) (cs : List Char) :
    ∀ loc s b g, P (tokLoop (items cs) .eof loc s b g) := by
  induction cs with
  | nil =>
    intro loc s b g
    rw [items, tokLoop_nil]
    split
    · exact hinc
    · exact hdone
  | cons c cs ih =>
    intro loc s b g
    rw [items_cons, tokLoop_cons]
    cases act c (loc.step c) s b g with
    | go s' b' g' => exact ih ..
    | tok v tl => exact htok ..
    | bad m => exact herr ..
    | fin s' b' g' =>
      simp only [runAct]
      rcases finishF_cases cs (loc.step c) ⟨.ofChars cs, (loc.step c).line, (loc.step c).col + 1⟩ s' b' g' with ⟨h, -⟩ | ⟨h, -, -⟩
      · rw [h]; exact ih ..
      · rw [h]
        unfold endF
        split
        · split
          · exact htok ..
          · exact herr ..
        · split
          · exact htok ..
          · exact herr ..
        · exact htok ..
        · exact htok ..
        · exact ih ..
        · exact ih ..
        · exact hcrash ..
        · exact hcrash ..

theorem tokLoop_clean (cs : List Char) (loc : Loc) (s : TokStatus) (b : List Char) (g : Loc) :
    tokLoop (items cs) .eof loc s b g ≠ .err .invalidString ∧ tokLoop (items cs) .eof loc s b g ≠ .err .nothing := by
  apply tokLoop_pred (fun out => out ≠ .err .invalidString ∧ out ≠ .err .nothing) <;> simp

/-! ### positions -/

theorem step_src (l : Loc) (c : Char) : (l.step c).src = l.src := by
  unfold Loc.step; split <;> rfl

theorem foldl_step_src (cs : List Char) (l : Loc) : (cs.foldl Loc.step l).src = l.src := by
  induction cs generalizing l with
  | nil => rfl
  | cons c cs ih => rw [List.foldl_cons, ih, step_src]

/-- a token consumes a non-empty prefix, and reports the remaining text with its exact position -/
theorem tokLoop_token_prefix (cs : List Char) : ∀ (loc : Loc) (s : TokStatus) (b : List Char) (g : Loc)
    (v : TokenValue) (tloc : Loc) (rest : Rest) (remaining : List (Char × Val)) (newLoc : Loc),
    tokLoop (items cs) .eof loc s b g = .token v tloc rest remaining newLoc →
    ∃ consumed r, cs = consumed ++ r ∧ consumed ≠ [] ∧ remaining = items r ∧
      rest = ⟨.ofChars r, newLoc.line, newLoc.col + 1⟩ ∧ newLoc = consumed.foldl Loc.step loc := by
  induction cs with
  | nil =>
    intro loc s b g v tloc rest remaining newLoc h
    rw [items, tokLoop_nil] at h
    split at h <;> cases h
  | cons c cs ih =>
    intro loc s b g v tloc rest remaining newLoc h
    have hrec : ∀ s' b' g', tokLoop (items cs) .eof (loc.step c) s' b' g' = .token v tloc rest remaining newLoc →
        ∃ consumed r, c :: cs = consumed ++ r ∧ consumed ≠ [] ∧ remaining = items r ∧
          rest = ⟨.ofChars r, newLoc.line, newLoc.col + 1⟩ ∧ newLoc = consumed.foldl Loc.step loc := by
      intro s' b' g' h'
      obtain ⟨consumed, r, h1, -, h3, h4, h5⟩ := ih _ _ _ _ _ _ _ _ _ h'
      exact ⟨c :: consumed, r, by rw [h1]; rfl, by simp, h3, h4, by rw [h5]; rfl⟩
    have hhere : ∀ v' g', TokOut.token v' g' ⟨.ofChars cs, (loc.step c).line, (loc.step c).col + 1⟩ (items cs) (loc.step c)
          = .token v tloc rest remaining newLoc →
        ∃ consumed r, c :: cs = consumed ++ r ∧ consumed ≠ [] ∧ remaining = items r ∧
          rest = ⟨.ofChars r, newLoc.line, newLoc.col + 1⟩ ∧ newLoc = consumed.foldl Loc.step loc := by
      intro v' g' h'
      injection h' with _ _ h3 h4 h5
      subst h3 h4 h5
      exact ⟨[c], cs, rfl, by simp, rfl, rfl, rfl⟩
    rw [items_cons, tokLoop_cons] at h
    cases hact : act c (loc.step c) s b g with
    | go s' b' g' => rw [hact] at h; exact hrec _ _ _ h
    | tok v' tl => rw [hact] at h; exact hhere _ _ h
    | bad m => rw [hact] at h; cases h
    | fin s' b' g' =>
      rw [hact] at h
      simp only [runAct] at h
      rcases finishF_cases cs (loc.step c) ⟨.ofChars cs, (loc.step c).line, (loc.step c).col + 1⟩ s' b' g' with ⟨h', -⟩ | ⟨h', -, -⟩
      · rw [h'] at h; exact hrec _ _ _ h
      · rw [h'] at h
        unfold endF at h
        split at h
        · split at h
          · exact hhere _ _ h
          · cases h
        · split at h
          · exact hhere _ _ h
          · cases h
        · exact hhere _ _ h
        · exact hhere _ _ h
        · exact hrec _ _ _ h
        · exact hrec _ _ _ h
        · cases h
        · cases h

/-! ### continuation of the text after a token -/

/-- tokens that do not depend on the character that follows them -/
def nonAtom : TokenValue → Bool
  | .openParen | .closeParen | .quote | .string _ => true
  | _ => false

theorem endF_token (its : List (Char × Val)) (loc : Loc) (rest : Rest) (s : TokStatus) (b : List Char) (g : Loc)
    (v : TokenValue) (tloc : Loc) (rest' : Rest) (rem : List (Char × Val)) (nl : Loc)
    (h : endF its loc rest s b g = .token v tloc rest' rem nl) :
    ((s = .stringNormal ∨ s = .stringEscape) ∧ tokLoop its .eof loc s b g = .token v tloc rest' rem nl ∧
        ∀ its2 rest2, endF its2 loc rest2 s b g = tokLoop its2 .eof loc s b g) ∨
    (rem = its ∧ rest' = rest ∧ nl = loc ∧ nonAtom v = false ∧ tloc = g ∧
        ∀ its2 rest2, endF its2 loc rest2 s b g = .token v tloc rest2 its2 loc) := by
  unfold endF at h
  split at h
  · split at h
    · rename_i hb
      injection h with h1 h2 h3 h4 h5
      subst h1 h2 h3 h4 h5
      refine .inr ⟨rfl, rfl, rfl, rfl, rfl, ?_⟩
      intro its2 rest2; simp only [endF, hb]
    · cases h
  · split at h
    · rename_i hb
      injection h with h1 h2 h3 h4 h5
      subst h1 h2 h3 h4 h5
      refine .inr ⟨rfl, rfl, rfl, rfl, rfl, ?_⟩
      intro its2 rest2; simp only [endF, hb]
    · cases h
  · injection h with h1 h2 h3 h4 h5
    subst h1 h2 h3 h4 h5
    exact .inr ⟨rfl, rfl, rfl, rfl, rfl, fun _ _ => rfl⟩
  · injection h with h1 h2 h3 h4 h5
    subst h1 h2 h3 h4 h5
    exact .inr ⟨rfl, rfl, rfl, rfl, rfl, fun _ _ => rfl⟩
  · exact .inl ⟨.inl rfl, h, fun _ _ => rfl⟩
  · exact .inl ⟨.inr rfl, h, fun _ _ => rfl⟩
  · cases h
  · cases h

theorem tokLoop_nil_ne_token (loc : Loc) (s : TokStatus) (b : List Char) (g : Loc)
    (v : TokenValue) (tloc : Loc) (rest : Rest) (rem : List (Char × Val)) (nl : Loc) :
    tokLoop [] .eof loc s b g ≠ .token v tloc rest rem nl := by
  rw [tokLoop_nil]; split <;> simp

/-- a token that did not look at the end of the text is found again, with the same positions, when text is appended -/
theorem tokLoop_token_ext (cs : List Char) : ∀ (loc : Loc) (s : TokStatus) (b : List Char) (g : Loc)
    (v : TokenValue) (tloc : Loc) (rest : Rest) (r : List Char) (newLoc : Loc),
    tokLoop (items cs) .eof loc s b g = .token v tloc rest (items r) newLoc →
    (r ≠ [] ∨ nonAtom v = true) → ∀ t,
    tokLoop (items (cs ++ t)) .eof loc s b g = .token v tloc ⟨.ofChars (r ++ t), rest.line, rest.column⟩ (items (r ++ t)) newLoc := by
  induction cs with
  | nil =>
    intro loc s b g v tloc rest r newLoc h
    exact absurd h (tokLoop_nil_ne_token _ _ _ _ _ _ _ _ _)
  | cons c cs ih =>
    intro loc s b g v tloc rest r newLoc h hr t
    rw [items_cons, tokLoop_cons] at h
    rw [List.cons_append, items_cons, tokLoop_cons]
    cases hact : act c (loc.step c) s b g with
    | go s' b' g' => rw [hact] at h; exact ih _ _ _ _ _ _ _ _ _ h hr t
    | tok v' tl =>
      rw [hact] at h
      simp only [runAct] at h ⊢
      injection h with h1 h2 h3 h4 h5
      have := items_inj h4
      subst h1 h2 h3 h5 this
      rfl
    | bad m => rw [hact] at h; cases h
    | fin s' b' g' =>
      rw [hact] at h
      simp only [runAct] at h ⊢
      rcases finishF_cases cs (loc.step c) ⟨.ofChars cs, (loc.step c).line, (loc.step c).col + 1⟩ s' b' g' with ⟨h', hc⟩ | ⟨h', hb, hn⟩
      · rw [h'] at h
        have : finishF (items (cs ++ t)) .eof (loc.step c) ⟨.ofChars (cs ++ t), (loc.step c).line, (loc.step c).col + 1⟩ s' b' g'
            = tokLoop (items (cs ++ t)) .eof (loc.step c) s' b' g' := by
          rcases hc with hc | hc
          · subst hc; exact finishF_nil ..
          · apply finishF_nd
            cases cs with
            | nil => cases hc
            | cons d cs => exact hc
        rw [this]
        exact ih _ _ _ _ _ _ _ _ _ h hr t
      · rw [h'] at h
        rcases endF_token _ _ _ _ _ _ _ _ _ _ _ h with ⟨-, h1, h2⟩ | ⟨h1, h2, h3, h4, h5, h6⟩
        · have : finishF (items (cs ++ t)) .eof (loc.step c) ⟨.ofChars (cs ++ t), (loc.step c).line, (loc.step c).col + 1⟩ s' b' g'
              = tokLoop (items (cs ++ t)) .eof (loc.step c) s' b' g' := by
            rcases finishF_cases (cs ++ t) (loc.step c) ⟨.ofChars (cs ++ t), (loc.step c).line, (loc.step c).col + 1⟩ s' b' g' with ⟨h'', -⟩ | ⟨h'', -, -⟩
            · exact h''
            · rw [h'', h2]
          rw [this]
          exact ih _ _ _ _ _ _ _ _ _ h1 hr t
        · have hcs := items_inj h1
          subst hcs h2 h3
          rw [h4] at hr
          have hne : r ≠ [] := by simpa using hr
          rw [finishF_end _ _ _ _ _ _ hb (by rw [nd_append _ _ hne]; exact hn), h6]

/-! ### one round of `readLoop` -/

/-- what a token does to the reader state -/
inductive RStep where
  | cont (stack : List (List Val × Bool)) (quoted : Bool)
  | retOk (x : Val)
  | tooMany
  | notAtom

def rstep (v : TokenValue) (tloc : Loc) (stack : List (List Val × Bool)) (quoted : Bool) : RStep :=
  match v with
  | .quote     => .cont stack true
  | .openParen => .cont (([], quoted) :: stack) false
  | .closeParen =>
    match stack with
    | [] => .tooMany
    | (vec, q) :: lower =>
      let list := Val.ofList vec.reverse
      let qlist := if q then wrapQuote list else list
      let quoted := if q then false else quoted
      match lower with
      | (lvec, lq) :: lower' => .cont ((qlist :: lvec, lq) :: lower') quoted
      | [] => .retOk (if quoted then wrapQuote qlist else qlist)
  | atomTok =>
    match tokenAtom atomTok tloc with
    | none   => .notAtom
    | some x =>
      let y := if quoted then wrapQuote x else x
      match stack with
      | (vec, q) :: lower => .cont ((y :: vec, q) :: lower) false
      | [] => .retOk y

def runR (fuel : Nat) (tail : Tail) (tloc : Loc) (rest : Rest) (remaining : List (Char × Val)) (newLoc : Loc) :
    RStep → Except ReadError (Val × Rest)
  | .cont st q => readLoop fuel remaining tail newLoc st q
  | .retOk x   => .ok (x, rest)
  | .tooMany   => .error (.error cs!"too many closing parentheses" tloc rest)
  | .notAtom   => .error (.crash cs!"read: not an atom token")

theorem readLoop_succ (fuel : Nat) (its : List (Char × Val)) (tail : Tail) (loc : Loc)
    (stack : List (List Val × Bool)) (quoted : Bool) :
    readLoop (fuel + 1) its tail loc stack quoted =
      match nextToken its tail loc with
      | .err e => .error e
      | .done  => if !stack.isEmpty || quoted then .error .incomplete else .error .nothing
      | .token v tloc rest remaining newLoc => runR fuel tail tloc rest remaining newLoc (rstep v tloc stack quoted) := by
  rw [readLoop]
  cases nextToken its tail loc with
  | err e => rfl
  | done => rfl
  | token v tloc rest remaining newLoc =>
    cases v with
    | quote => rfl
    | openParen => rfl
    | closeParen =>
      cases stack with
      | nil => rfl
      | cons top lower =>
        obtain ⟨vec, q⟩ := top
        cases lower with
        | nil => rfl
        | cons l2 lower' => rfl
    | character c => simp only [rstep, tokenAtom]; cases stack <;> rfl
    | number n => simp only [rstep, tokenAtom]; cases stack <;> rfl
    | symbol n => simp only [rstep, tokenAtom]; cases stack <;> rfl
    | string n => simp only [rstep, tokenAtom]; cases stack <;> rfl

theorem rstep_cont (v : TokenValue) (tloc : Loc) (stack : List (List Val × Bool)) (quoted : Bool)
    (st : List (List Val × Bool)) (q : Bool) (h : rstep v tloc stack quoted = .cont st q) : st ≠ [] ∨ q = true := by
  unfold rstep at h
  split at h
  · injection h with h1 h2; exact .inr h2.symm
  · injection h with h1 h2; subst h1; exact .inl (by simp)
  · split at h
    · cases h
    · simp only at h
      split at h
      · injection h with h1 h2; subst h1; exact .inl (by simp)
      · cases h
  · split at h
    · cases h
    · simp only at h
      split at h
      · injection h with h1 h2; subst h1; exact .inl (by simp)
      · cases h

theorem rstep_tooMany (v : TokenValue) (tloc : Loc) (stack : List (List Val × Bool)) (quoted : Bool)
    (h : rstep v tloc stack quoted = .tooMany) : nonAtom v = true := by
  unfold rstep at h
  split at h
  · rfl
  · rfl
  · rfl
  · split at h
    · cases h
    · simp only at h
      split at h <;> cases h

/-! ### `readLoop` on plain text -/

theorem readLoop_zero (its : List (Char × Val)) (tail : Tail) (loc : Loc) (stack : List (List Val × Bool)) (quoted : Bool) :
    readLoop 0 its tail loc stack quoted = .error (.crash cs!"read: out of fuel") := by
  rw [readLoop]

theorem readLoop_ne_invalid (fuel : Nat) : ∀ (cs : List Char) (loc : Loc) (stack : List (List Val × Bool)) (quoted : Bool),
    readLoop fuel (items cs) .eof loc stack quoted ≠ .error .invalidString := by
  induction fuel with
  | zero => intro cs loc stack quoted; rw [readLoop_zero]; simp
  | succ fuel ih =>
    intro cs loc stack quoted
    rw [readLoop_succ]
    cases h : nextToken (items cs) .eof loc with
    | err e =>
      have := (tokLoop_clean cs loc .whiteSpace [] loc).1
      unfold nextToken at h
      rw [h] at this
      simpa using this
    | done => simp only; split <;> simp
    | token v tloc rest remaining newLoc =>
      obtain ⟨consumed, r, -, -, h3, -, -⟩ := tokLoop_token_prefix cs _ _ _ _ _ _ _ _ _ h
      subst h3
      simp only
      cases rstep v tloc stack quoted with
      | cont st q => exact ih _ _ _ _
      | retOk x => simp [runR]
      | tooMany => simp [runR]
      | notAtom => simp [runR]

theorem readLoop_ne_nothing (fuel : Nat) : ∀ (cs : List Char) (loc : Loc) (stack : List (List Val × Bool)) (quoted : Bool),
    (stack ≠ [] ∨ quoted = true) → readLoop fuel (items cs) .eof loc stack quoted ≠ .error .nothing := by
  induction fuel with
  | zero => intro cs loc stack quoted _; rw [readLoop_zero]; simp
  | succ fuel ih =>
    intro cs loc stack quoted hsq
    rw [readLoop_succ]
    cases h : nextToken (items cs) .eof loc with
    | err e =>
      have := (tokLoop_clean cs loc .whiteSpace [] loc).2
      unfold nextToken at h
      rw [h] at this
      simpa using this
    | done =>
      simp only
      rw [if_pos]
      · simp
      · rcases hsq with hs | hq
        · cases stack with
          | nil => exact absurd rfl hs
          | cons a b => rfl
        · simp [hq]
    | token v tloc rest remaining newLoc =>
      obtain ⟨consumed, r, -, -, h3, -, -⟩ := tokLoop_token_prefix cs _ _ _ _ _ _ _ _ _ h
      subst h3
      simp only
      cases hr : rstep v tloc stack quoted with
      | cont st q => exact ih _ _ _ _ (rstep_cont _ _ _ _ _ _ hr)
      | retOk x => simp [runR]
      | tooMany => simp [runR]
      | notAtom => simp [runR]

/-- an `ok` result consumes a non-empty prefix and reports the remaining text with its exact position -/
theorem readLoop_ok_prefix (fuel : Nat) : ∀ (cs : List Char) (loc : Loc) (stack : List (List Val × Bool)) (quoted : Bool)
    (x : Val) (rest : Rest), readLoop fuel (items cs) .eof loc stack quoted = .ok (x, rest) →
    ∃ consumed r, cs = consumed ++ r ∧ consumed ≠ [] ∧
      rest = ⟨.ofChars r, (consumed.foldl Loc.step loc).line, (consumed.foldl Loc.step loc).col + 1⟩ := by
  induction fuel with
  | zero => intro cs loc stack quoted x rest h; rw [readLoop_zero] at h; cases h
  | succ fuel ih =>
    intro cs loc stack quoted x rest h
    rw [readLoop_succ] at h
    cases ht : nextToken (items cs) .eof loc with
    | err e => rw [ht] at h; cases h
    | done => rw [ht] at h; simp only at h; split at h <;> cases h
    | token v tloc rest1 remaining newLoc =>
      rw [ht] at h
      obtain ⟨consumed, r, h1, h2, h3, h4, h5⟩ := tokLoop_token_prefix cs _ _ _ _ _ _ _ _ _ ht
      subst h3 h4
      simp only at h
      cases hr : rstep v tloc stack quoted with
      | cont st q =>
        rw [hr] at h
        obtain ⟨consumed', r', h1', -, h3'⟩ := ih _ _ _ _ _ _ h
        refine ⟨consumed ++ consumed', r', by rw [h1, h1', List.append_assoc], by simp [h2], ?_⟩
        rw [h3', List.foldl_append, h5]
      | retOk y =>
        rw [hr] at h
        simp only [runR, Except.ok.injEq, Prod.mk.injEq] at h
        refine ⟨consumed, r, h1, h2, ?_⟩
        rw [← h.2, h5]
      | tooMany => rw [hr] at h; cases h
      | notAtom => rw [hr] at h; cases h

theorem readLoop_nil_not_ok (fuel : Nat) (loc : Loc) (stack : List (List Val × Bool)) (quoted : Bool) (x : Val) (rest : Rest) :
    readLoop fuel (items []) .eof loc stack quoted ≠ .ok (x, rest) := by
  intro h
  obtain ⟨consumed, r, h1, h2, -⟩ := readLoop_ok_prefix fuel [] loc stack quoted x rest h
  cases consumed with
  | nil => exact h2 rfl
  | cons a b => cases h1

/-- the datum and the place where it ends do not depend on what follows a non-empty rest -/
theorem readLoop_ok_ext (fuel : Nat) : ∀ (cs : List Char) (loc : Loc) (stack : List (List Val × Bool)) (quoted : Bool)
    (x : Val) (r : List Char) (l c : Nat), readLoop fuel (items cs) .eof loc stack quoted = .ok (x, ⟨.ofChars r, l, c⟩) →
    r ≠ [] → ∀ (fuel' : Nat) (t : List Char), fuel ≤ fuel' →
    readLoop fuel' (items (cs ++ t)) .eof loc stack quoted = .ok (x, ⟨.ofChars (r ++ t), l, c⟩) := by
  induction fuel with
  | zero => intro cs loc stack quoted x r l c h; rw [readLoop_zero] at h; cases h
  | succ fuel ih =>
    intro cs loc stack quoted x r l c h hr fuel' t hf
    obtain ⟨f', rfl⟩ : ∃ f', fuel' = f' + 1 := ⟨fuel' - 1, by omega⟩
    rw [readLoop_succ] at h ⊢
    cases ht : nextToken (items cs) .eof loc with
    | err e => rw [ht] at h; cases h
    | done => rw [ht] at h; simp only at h; split at h <;> cases h
    | token v tloc rest1 remaining newLoc =>
      rw [ht] at h
      obtain ⟨consumed, r1, h1, h2, h3, h4, h5⟩ := tokLoop_token_prefix cs _ _ _ _ _ _ _ _ _ ht
      subst h3
      simp only at h
      have hr1 : r1 ≠ [] := by
        rintro rfl
        cases hs : rstep v tloc stack quoted with
        | cont st q => rw [hs] at h; exact readLoop_nil_not_ok _ _ _ _ _ _ h
        | retOk y =>
          rw [hs, h4] at h
          simp only [runR, Except.ok.injEq, Prod.mk.injEq, Rest.mk.injEq] at h
          exact hr (ofChars_inj h.2.1).symm
        | tooMany => rw [hs] at h; cases h
        | notAtom => rw [hs] at h; cases h
      unfold nextToken at ht ⊢
      rw [tokLoop_token_ext cs _ _ _ _ _ _ _ _ _ ht (.inl hr1) t]
      simp only
      cases hs : rstep v tloc stack quoted with
      | cont st q => rw [hs] at h; exact ih _ _ _ _ _ _ _ _ h hr f' t (by omega)
      | retOk y =>
        rw [hs, h4] at h
        simp only [runR, Except.ok.injEq, Prod.mk.injEq, Rest.mk.injEq] at h ⊢
        obtain ⟨hy, hrr, hl, hc⟩ := h
        rw [ofChars_inj hrr, h4]
        exact ⟨hy, rfl, hl, hc⟩
      | tooMany => rw [hs] at h; cases h
      | notAtom => rw [hs] at h; cases h

/-! ### numbers and characters that stay invalid -/

theorem parseDigits_error_append (p : Bool) (ds : List Char) : ∀ (acc : Int) (e : ParseIntError),
    parseDigits p ds acc = .error e → ∀ u, parseDigits p (ds ++ u) acc = .error e := by
  induction ds with
  | nil => intro acc e h; simp [parseDigits] at h
  | cons c ds ih =>
    intro acc e h u
    rw [List.cons_append, parseDigits]
    rw [parseDigits] at h
    cases hd : digitVal c with
    | none => rw [hd] at h; exact h
    | some d =>
      rw [hd] at h
      simp only at h ⊢
      by_cases h1 : (!inRange (acc * 10)) = true
      · rw [if_pos h1] at h ⊢; exact h
      · rw [if_neg h1] at h ⊢
        by_cases h2 : (!inRange (if p = true then acc * 10 + ↑d else acc * 10 - ↑d)) = true
        · rw [if_pos h2] at h ⊢; exact h
        · rw [if_neg h2] at h ⊢; exact ih _ _ h u

theorem parseI64_plus (c : Char) (cs : List Char) : parseI64 ('+' :: c :: cs) = parseDigits true (c :: cs) 0 := rfl
theorem parseI64_minus (c : Char) (cs : List Char) : parseI64 ('-' :: c :: cs) = parseDigits false (c :: cs) 0 := rfl

theorem parseI64_other (c : Char) (cs : List Char) (h1 : c ≠ '+') (h2 : c ≠ '-') :
    parseI64 (c :: cs) = parseDigits true (c :: cs) 0 := by
  unfold parseI64
  split
  · rename_i heq; cases heq
  · rename_i heq; cases heq; exact absurd rfl h1
  · rename_i heq; cases heq; exact absurd rfl h2
  · rename_i heq; cases heq; exact absurd rfl h1
  · rename_i heq; cases heq; exact absurd rfl h2
  · rfl

theorem parseI64_error_append (s : List Char) (e : ParseIntError) (hl : 2 ≤ s.length) (h : parseI64 s = .error e) (u : List Char) :
    parseI64 (s ++ u) = .error e := by
  match s, hl with
  | a :: b :: ds, _ =>
    by_cases h1 : a = '+'
    · subst h1
      rw [parseI64_plus] at h
      rw [List.cons_append, List.cons_append, parseI64_plus, ← List.cons_append]
      exact parseDigits_error_append _ _ _ _ h u
    · by_cases h2 : a = '-'
      · subst h2
        rw [parseI64_minus] at h
        rw [List.cons_append, List.cons_append, parseI64_minus, ← List.cons_append]
        exact parseDigits_error_append _ _ _ _ h u
      · rw [parseI64_other _ _ h1 h2] at h
        rw [List.cons_append, parseI64_other _ _ h1 h2, ← List.cons_append]
        exact parseDigits_error_append _ _ _ _ h u

theorem parseI64_single_digit (d : Char) (h : isAsciiDigit d = true) : ∃ n, parseI64 [d] = .ok n := by
  have h1 : d ≠ '+' := by rintro rfl; revert h; decide
  have h2 : d ≠ '-' := by rintro rfl; revert h; decide
  rw [parseI64_other _ _ h1 h2]
  simp only [isAsciiDigit, Bool.and_eq_true, decide_eq_true_eq] at h
  have hd : digitVal d = some (d.toNat - '0'.toNat) := by
    unfold digitVal; rw [if_pos h]
  rw [parseDigits, hd]
  have h9 : d.toNat - '0'.toNat ≤ 9 := by
    have := h.2
    rw [Char.le_def] at this
    have h57 : d.toNat ≤ 57 := by
      have : d.val.toNat ≤ '9'.val.toNat := UInt32.le_iff_toNat_le.mp this
      exact this
    have : '0'.toNat = 48 := rfl
    omega
  generalize d.toNat - '0'.toNat = k at h9
  have hr : inRange (0 * 10 + (k : Int)) = true := by
    simp only [inRange, i64Min, i64Max, Bool.and_eq_true]
    constructor <;> exact decide_eq_true (by omega)
  simp only [show inRange ((0 : Int) * 10) = true from by decide, hr, Bool.not_true, Bool.false_eq_true, if_false, if_true, parseDigits]
  exact ⟨_, rfl⟩

theorem buildCharacter_long (s : List Char) (h : 3 ≤ s.length) : ∃ m, buildCharacter s = .error m := by
  match s, h with
  | a :: b :: c :: ds, _ => simp [buildCharacter]

theorem buildCharacter_error_length (s : List Char) (m : List Char) (hs : s ≠ []) (h : buildCharacter s = .error m) : 2 ≤ s.length := by
  match s, hs with
  | [a], _ => simp [buildCharacter] at h
  | a :: b :: ds, _ => simp

/-! ### properties of `act` -/

/-- a property of each kind of `Act` -/
def Act.sat (Pgo Pfin : TokStatus → List Char → Loc → Prop) (Ptok : TokenValue → Loc → Prop) (Pbad : List Char → Prop) : Act → Prop
  | .go s b g  => Pgo s b g
  | .fin s b g => Pfin s b g
  | .tok v l   => Ptok v l
  | .bad m     => Pbad m

theorem ite_elim {α : Type} {P : α → Prop} {c : Prop} [Decidable c] {a b : α} (h1 : c → P a) (h2 : ¬c → P b) :
    P (if c then a else b) := by
  by_cases h : c
  · rw [if_pos h]; exact h1 h
  · rw [if_neg h]; exact h2 h

/-- a number buffer is never empty, and has a single character only if that is a digit -/
theorem act_inv1 (c : Char) (loc : Loc) (s : TokStatus) (b : List Char) (g : Loc) (h : s = .number → b ≠ []) :
    (act c loc s b g).sat (fun s' b' _ => s' = .number → b' ≠ [])
      (fun s' b' _ => s' = .number → 2 ≤ b'.length ∨ ∃ d, b' = [d] ∧ isAsciiDigit d = true) (fun _ _ => True) (fun _ => True) := by
  unfold act
  repeat' (refine ite_elim (fun _ => ?_) (fun _ => ?_))
  all_goals try (simp_all [Act.sat]; done)
  all_goals try (cases b <;> simp_all [Act.sat]; done)
  · simp only [Act.sat]; split <;> simp

theorem act_number_stuck (c : Char) (loc : Loc) (b : List Char) (g : Loc) (h : isDelimiter c = false) :
    (act c loc .number b g).sat (fun _ _ _ => False) (fun s' b' g' => s' = .number ∧ b' = c :: b ∧ g' = g)
      (fun _ _ => False) (fun _ => True) := by
  unfold act
  repeat' (refine ite_elim (fun _ => ?_) (fun _ => ?_))
  all_goals try (simp_all [Act.sat, isDelimiter]; done)

theorem act_character_stuck (c : Char) (loc : Loc) (b : List Char) (g : Loc) (h : isDelimiter c = false) (hb : b ≠ []) :
    (act c loc .character b g).sat (fun _ _ _ => False) (fun s' b' g' => s' = .character ∧ b' = c :: b ∧ g' = g)
      (fun _ _ => False) (fun _ => False) := by
  unfold act
  repeat' (refine ite_elim (fun _ => ?_) (fun _ => ?_))
  all_goals try (simp_all [Act.sat, isDelimiter]; done)

theorem act_comment (c : Char) (loc : Loc) (b : List Char) (g : Loc) :
    act c loc .comment b g = .go (if c = '\n' then .whiteSpace else .comment) b g := by
  unfold act; rw [if_pos (by decide)]

theorem act_ws_blank (c : Char) (loc : Loc) (g : Loc) (h : (isWhitespace c || c == ',') = true) :
    act c loc .whiteSpace [] g = .fin .whiteSpace [] g := by
  unfold act
  rw [if_neg (by decide), if_neg (by simp), if_neg (by decide), if_neg (by decide), if_pos (by simpa using h)]

theorem act_ws_semicolon (loc : Loc) (g : Loc) : act ';' loc .whiteSpace [] g = .fin .comment [] g := by
  unfold act
  rw [if_neg (by decide), if_neg (by decide), if_neg (by decide), if_neg (by decide), if_neg (by decide), if_pos rfl]

/-- the state after the first character of a token -/
def Kf (s : TokStatus) (b : List Char) : Prop :=
  s ≠ .whiteSpace ∧ s ≠ .comment ∧ (b = [] → s = .stringNormal ∨ s = .stringEscape ∨ s = .character)

theorem act_ws_start (c : Char) (loc : Loc) (g : Loc) (h : (isWhitespace c || c == ',') = false) (h' : c ≠ ';') :
    (act c loc .whiteSpace [] g).sat (fun _ _ _ => False) (fun s' b' g' => g' = loc ∧ Kf s' b')
      (fun _ tl => tl = loc) (fun _ => True) := by
  unfold act
  repeat' (refine ite_elim (fun _ => ?_) (fun _ => ?_))
  all_goals try (simp_all [Act.sat, Kf]; done)

theorem act_K (c : Char) (loc : Loc) (s : TokStatus) (b : List Char) (g : Loc) (hk : Kf s b)
    (h4 : b ≠ [] → s = .stringNormal ∨ s = .stringEscape ∨ isDelimiter c = false) :
    (act c loc s b g).sat (fun s' _ g' => g' = g ∧ s' = .stringNormal) (fun s' b' g' => g' = g ∧ Kf s' b')
      (fun _ tl => tl = g) (fun _ => True) := by
  obtain ⟨h1, h2, h3⟩ := hk
  unfold act
  repeat' (refine ite_elim (fun _ => ?_) (fun _ => ?_))
  all_goals try (simp_all [Act.sat, Kf, isDelimiter]; done)
  all_goals try (cases b <;> simp_all [Act.sat, Kf, isDelimiter]; done)
  all_goals try (cases s <;> cases b <;> simp_all [Act.sat, Kf, isDelimiter]; done)
  · rename_i hs1 hs2 hs3 hs4 hw
    exfalso
    have hq : c ≠ '"' := by rintro rfl; revert hw; decide
    have hb : c ≠ '\\' := by rintro rfl; revert hw; decide
    have hd : isDelimiter c = true := by
      simp only [isDelimiter, Bool.or_eq_true, beq_iff_eq, decide_eq_true_eq] at hw ⊢
      rcases hw with hw | hw
      · exact .inr hw
      · exact .inl (.inr hw)
    cases s <;> cases b <;> simp_all

/-! ### errors cannot be repaired -/

theorem nd_cons (c : Char) (cs : List Char) : nd (c :: cs) = !isDelimiter c := rfl

/-- a number token that is already unparsable stays an error however the text goes on -/
theorem number_stuck (cs : List Char) : ∀ (loc : Loc) (b : List Char) (g : Loc), nd cs = true →
    (∀ u, ∃ e, parseI64 (b.reverse ++ u) = .error e) →
    ∃ m l r, tokLoop (items cs) .eof loc .number b g = .err (.error m l r) := by
  induction cs with
  | nil => intro loc b g h; cases h
  | cons c cs ih =>
    intro loc b g hnd hbad
    have hc : isDelimiter c = false := by simpa [nd_cons] using hnd
    rw [items_cons, tokLoop_cons]
    have hact := act_number_stuck c (loc.step c) b g hc
    cases ha : act c (loc.step c) .number b g with
    | go s' b' g' => rw [ha] at hact; exact hact.elim
    | tok v tl => rw [ha] at hact; exact hact.elim
    | bad m => exact ⟨_, _, _, rfl⟩
    | fin s' b' g' =>
      rw [ha] at hact
      obtain ⟨rfl, rfl, rfl⟩ := hact
      simp only [runAct]
      have hbad' : ∀ u, ∃ e, parseI64 ((c :: b).reverse ++ u) = .error e := by
        intro u
        rw [List.reverse_cons, List.append_assoc]
        exact hbad _
      rcases finishF_cases cs (loc.step c) ⟨.ofChars cs, (loc.step c).line, (loc.step c).col + 1⟩ .number (c :: b) g' with ⟨h, hh⟩ | ⟨h, -, -⟩
      · rw [h]
        rcases hh with hh | hh
        · cases hh
        · exact ih _ _ _ hh hbad'
      · rw [h]
        obtain ⟨e, he⟩ := hbad' []
        rw [List.append_nil] at he
        simp only [endF, buildNumber, he]
        exact ⟨_, _, _, rfl⟩

/-- a character token of two or more characters that goes on stays an error -/
theorem character_stuck (cs : List Char) : ∀ (loc : Loc) (b : List Char) (g : Loc), nd cs = true → 2 ≤ b.length →
    ∃ m l r, tokLoop (items cs) .eof loc .character b g = .err (.error m l r) := by
  induction cs with
  | nil => intro loc b g h; cases h
  | cons c cs ih =>
    intro loc b g hnd hb
    have hc : isDelimiter c = false := by simpa [nd_cons] using hnd
    have hbne : b ≠ [] := by rintro rfl; simp at hb
    rw [items_cons, tokLoop_cons]
    have hact := act_character_stuck c (loc.step c) b g hc hbne
    cases ha : act c (loc.step c) .character b g with
    | go s' b' g' => rw [ha] at hact; exact hact.elim
    | tok v tl => rw [ha] at hact; exact hact.elim
    | bad m => rw [ha] at hact; exact hact.elim
    | fin s' b' g' =>
      rw [ha] at hact
      obtain ⟨rfl, rfl, rfl⟩ := hact
      simp only [runAct]
      rcases finishF_cases cs (loc.step c) ⟨.ofChars cs, (loc.step c).line, (loc.step c).col + 1⟩ .character (c :: b) g' with ⟨h, hh⟩ | ⟨h, -, -⟩
      · rw [h]
        rcases hh with hh | hh
        · cases hh
        · exact ih _ _ _ hh (by simp; omega)
      · rw [h]
        obtain ⟨m, hm⟩ := buildCharacter_long (c :: b).reverse (by simp; omega)
        simp only [endF, hm]
        exact ⟨_, _, _, rfl⟩

theorem endF_error (its : List (Char × Val)) (loc : Loc) (rest : Rest) (s : TokStatus) (b : List Char) (g : Loc)
    (m : List Char) (l : Loc) (r : Rest) (h : endF its loc rest s b g = .err (.error m l r)) :
    ((s = .stringNormal ∨ s = .stringEscape) ∧ tokLoop its .eof loc s b g = .err (.error m l r) ∧
        ∀ its2 rest2, endF its2 loc rest2 s b g = tokLoop its2 .eof loc s b g) ∨
    ((∀ its2 rest2, endF its2 loc rest2 s b g = .err (.error m loc rest2)) ∧
      ((s = .number ∧ ∃ e, parseI64 b.reverse = .error e) ∨ (s = .character ∧ buildCharacter b.reverse = .error m))) := by
  unfold endF at h
  split at h
  · split at h
    · cases h
    · rename_i msg hb
      injection h with h; injection h with h1 h2 h3
      subst h1 h2 h3
      refine .inr ⟨?_, .inr ⟨rfl, hb⟩⟩
      intro its2 rest2; simp only [endF, hb]
  · split at h
    · cases h
    · rename_i msg hb
      injection h with h; injection h with h1 h2 h3
      subst h1 h2 h3
      refine .inr ⟨?_, .inl ⟨rfl, ?_⟩⟩
      · intro its2 rest2; simp only [endF, hb]
      · unfold buildNumber at hb
        split at hb
        · cases hb
        · exact ⟨_, by assumption⟩
  · cases h
  · cases h
  · exact .inl ⟨.inl rfl, h, fun _ _ => rfl⟩
  · exact .inl ⟨.inr rfl, h, fun _ _ => rfl⟩
  · cases h
  · cases h

/-- an error of the tokenizer stays an error (maybe another one) when text is appended -/
theorem tokLoop_error_ext (cs : List Char) : ∀ (loc : Loc) (s : TokStatus) (b : List Char) (g : Loc)
    (m : List Char) (l : Loc) (r : Rest), (s = .number → b ≠ []) →
    tokLoop (items cs) .eof loc s b g = .err (.error m l r) →
    ∀ t, ∃ m' l' r', tokLoop (items (cs ++ t)) .eof loc s b g = .err (.error m' l' r') := by
  induction cs with
  | nil =>
    intro loc s b g m l r _ h
    rw [items, tokLoop_nil] at h
    split at h <;> cases h
  | cons c cs ih =>
    intro loc s b g m l r hinv h t
    rw [items_cons, tokLoop_cons] at h
    rw [List.cons_append, items_cons, tokLoop_cons]
    have hact := act_inv1 c (loc.step c) s b g hinv
    cases ha : act c (loc.step c) s b g with
    | go s' b' g' =>
      rw [ha] at h hact
      exact ih _ _ _ _ _ _ _ hact h t
    | tok v tl => rw [ha] at h; cases h
    | bad m' => exact ⟨_, _, _, rfl⟩
    | fin s' b' g' =>
      rw [ha] at h hact
      simp only [runAct, Act.sat] at h hact ⊢
      have hinv' : s' = .number → b' ≠ [] := by
        intro hs
        rcases hact hs with h2 | ⟨d, hd, -⟩
        · intro hb; rw [hb] at h2; simp at h2
        · rw [hd]; simp
      rcases finishF_cases cs (loc.step c) ⟨.ofChars cs, (loc.step c).line, (loc.step c).col + 1⟩ s' b' g' with ⟨h', hc⟩ | ⟨h', hb, hn⟩
      · rw [h'] at h
        have : finishF (items (cs ++ t)) .eof (loc.step c) ⟨.ofChars (cs ++ t), (loc.step c).line, (loc.step c).col + 1⟩ s' b' g'
            = tokLoop (items (cs ++ t)) .eof (loc.step c) s' b' g' := by
          rcases hc with hc | hc
          · subst hc; exact finishF_nil ..
          · apply finishF_nd
            cases cs with
            | nil => cases hc
            | cons d cs => exact hc
        rw [this]
        exact ih _ _ _ _ _ _ _ hinv' h t
      · rw [h'] at h
        rcases endF_error _ _ _ _ _ _ _ _ _ h with ⟨-, h1, h2⟩ | ⟨h1, h2⟩
        · have : finishF (items (cs ++ t)) .eof (loc.step c) ⟨.ofChars (cs ++ t), (loc.step c).line, (loc.step c).col + 1⟩ s' b' g'
              = tokLoop (items (cs ++ t)) .eof (loc.step c) s' b' g' := by
            rcases finishF_cases (cs ++ t) (loc.step c) ⟨.ofChars (cs ++ t), (loc.step c).line, (loc.step c).col + 1⟩ s' b' g' with ⟨h'', -⟩ | ⟨h'', -, -⟩
            · exact h''
            · rw [h'', h2]
          rw [this]
          exact ih _ _ _ _ _ _ _ hinv' h1 t
        · rcases finishF_cases (cs ++ t) (loc.step c) ⟨.ofChars (cs ++ t), (loc.step c).line, (loc.step c).col + 1⟩ s' b' g' with ⟨h'', hc⟩ | ⟨h'', -, -⟩
          · rw [h'']
            have hnd : nd (cs ++ t) = true := by
              rcases hc with hc | hc
              · exact absurd hc hb
              · exact hc
            rcases h2 with ⟨rfl, e, he⟩ | ⟨rfl, hbc⟩
            · apply number_stuck _ _ _ _ hnd
              rcases hact rfl with h2 | ⟨d, hd, hdig⟩
              · intro u
                exact ⟨e, parseI64_error_append _ _ (by simpa using h2) he u⟩
              · subst hd
                obtain ⟨n, hn'⟩ := parseI64_single_digit d hdig
                rw [List.reverse_singleton, hn'] at he
                cases he
            · apply character_stuck _ _ _ _ hnd
              have := buildCharacter_error_length _ _ (by simpa using hb) hbc
              simpa using this
          · rw [h'', h1]
            exact ⟨_, _, _, rfl⟩

theorem readLoop_nil_not_error (fuel : Nat) (loc : Loc) (stack : List (List Val × Bool)) (quoted : Bool)
    (m : List Char) (l : Loc) (r : Rest) :
    readLoop fuel (items []) .eof loc stack quoted ≠ .error (.error m l r) := by
  cases fuel with
  | zero => rw [readLoop_zero]; simp
  | succ fuel =>
    rw [readLoop_succ]
    have : nextToken (items []) .eof loc = .done := by
      unfold nextToken; rw [items, tokLoop_nil]; rfl
    rw [this]
    simp only
    split <;> simp

/-- an error of the reader stays an error (maybe another one) when text is appended -/
theorem readLoop_error_ext (fuel : Nat) : ∀ (cs : List Char) (loc : Loc) (stack : List (List Val × Bool)) (quoted : Bool)
    (m : List Char) (l : Loc) (r : Rest), readLoop fuel (items cs) .eof loc stack quoted = .error (.error m l r) →
    ∀ (fuel' : Nat) (t : List Char), fuel ≤ fuel' →
    ∃ m' l' r', readLoop fuel' (items (cs ++ t)) .eof loc stack quoted = .error (.error m' l' r') := by
  induction fuel with
  | zero => intro cs loc stack quoted m l r h; rw [readLoop_zero] at h; cases h
  | succ fuel ih =>
    intro cs loc stack quoted m l r h fuel' t hf
    obtain ⟨f', rfl⟩ : ∃ f', fuel' = f' + 1 := ⟨fuel' - 1, by omega⟩
    rw [readLoop_succ] at h ⊢
    cases ht : nextToken (items cs) .eof loc with
    | err e =>
      rw [ht] at h
      simp only [Except.error.injEq] at h
      subst h
      unfold nextToken at ht ⊢
      obtain ⟨m', l', r', h'⟩ := tokLoop_error_ext cs _ _ _ _ _ _ _ (by simp) ht t
      rw [h']
      exact ⟨_, _, _, rfl⟩
    | done => rw [ht] at h; simp only at h; split at h <;> cases h
    | token v tloc rest1 remaining newLoc =>
      rw [ht] at h
      obtain ⟨consumed, r1, h1, h2, h3, h4, h5⟩ := tokLoop_token_prefix cs _ _ _ _ _ _ _ _ _ ht
      subst h3
      simp only at h
      have hr1 : r1 ≠ [] ∨ nonAtom v = true := by
        cases hs : rstep v tloc stack quoted with
        | cont st q =>
          left; rintro rfl
          rw [hs] at h; exact readLoop_nil_not_error _ _ _ _ _ _ _ h
        | retOk y => rw [hs] at h; cases h
        | tooMany => exact .inr (rstep_tooMany _ _ _ _ hs)
        | notAtom => rw [hs] at h; cases h
      unfold nextToken at ht ⊢
      rw [tokLoop_token_ext cs _ _ _ _ _ _ _ _ _ ht hr1 t]
      simp only
      cases hs : rstep v tloc stack quoted with
      | cont st q => rw [hs] at h; exact ih _ _ _ _ _ _ _ h f' t (by omega)
      | retOk y => rw [hs] at h; cases h
      | tooMany => exact ⟨_, _, _, rfl⟩
      | notAtom => rw [hs] at h; cases h

/-! ### the location of a token -/

/-- once a token has started, its location is fixed, and the tokenizer does not stop without a result -/
theorem tokLoop_started (cs : List Char) : ∀ (loc : Loc) (s : TokStatus) (b : List Char) (g : Loc), Kf s b →
    (b ≠ [] → s = .stringNormal ∨ s = .stringEscape ∨ nd cs = true) →
    tokLoop (items cs) .eof loc s b g ≠ .done ∧
    ∀ v tloc rest rem nl, tokLoop (items cs) .eof loc s b g = .token v tloc rest rem nl → tloc = g := by
  induction cs with
  | nil =>
    intro loc s b g hk hb
    rw [items, tokLoop_nil]
    obtain ⟨h1, h2, h3⟩ := hk
    rw [if_pos]
    · simp
    · cases b with
      | nil => rcases h3 rfl with h | h | h <;> subst h <;> rfl
      | cons a b => rfl
  | cons c cs ih =>
    intro loc s b g hk hb
    rw [items_cons, tokLoop_cons]
    have hact := act_K c (loc.step c) s b g hk (by
      intro hne
      rcases hb hne with h | h | h
      · exact .inl h
      · exact .inr (.inl h)
      · exact .inr (.inr (by simpa [nd_cons] using h)))
    cases ha : act c (loc.step c) s b g with
    | go s' b' g' =>
      rw [ha] at hact
      obtain ⟨rfl, rfl⟩ := hact
      exact ih _ _ _ _ ⟨by simp, by simp, by simp⟩ (fun _ => .inl rfl)
    | tok v tl =>
      rw [ha] at hact
      simp only [Act.sat] at hact
      subst hact
      simp only [runAct]
      refine ⟨by simp, ?_⟩
      intro v' tloc rest rem nl h
      injection h with _ h
      exact h.symm
    | bad m => simp [runAct]
    | fin s' b' g' =>
      rw [ha] at hact
      obtain ⟨rfl, hk'⟩ := hact
      simp only [runAct]
      rcases finishF_cases cs (loc.step c) ⟨.ofChars cs, (loc.step c).line, (loc.step c).col + 1⟩ s' b' g' with ⟨h, hh⟩ | ⟨h, hne, -⟩
      · rw [h]
        apply ih _ _ _ _ hk'
        intro hne
        rcases hh with hh | hh
        · exact absurd hh hne
        · exact .inr (.inr hh)
      · rw [h]
        obtain ⟨h1, h2, h3⟩ := hk'
        unfold endF
        split
        · split
          · refine ⟨by simp, ?_⟩
            intro v' tloc rest rem nl h; injection h with _ h; exact h.symm
          · simp
        · split
          · refine ⟨by simp, ?_⟩
            intro v' tloc rest rem nl h; injection h with _ h; exact h.symm
          · simp
        · refine ⟨by simp, ?_⟩
          intro v' tloc rest rem nl h; injection h with _ h; exact h.symm
        · refine ⟨by simp, ?_⟩
          intro v' tloc rest rem nl h; injection h with _ h; exact h.symm
        · exact ih _ _ _ _ ⟨h1, h2, h3⟩ (fun _ => .inl rfl)
        · exact ih _ _ _ _ ⟨h1, h2, h3⟩ (fun _ => .inr (.inl rfl))
        · exact absurd rfl h1
        · exact absurd rfl h2

theorem finishF_started (cs : List Char) (loc : Loc) (rest : Rest) (s : TokStatus) (b : List Char) (g : Loc) (hk : Kf s b) :
    finishF (items cs) .eof loc rest s b g ≠ .done ∧
    ∀ v tloc rest' rem nl, finishF (items cs) .eof loc rest s b g = .token v tloc rest' rem nl → tloc = g := by
  rcases finishF_cases cs loc rest s b g with ⟨h, hh⟩ | ⟨h, hne, -⟩
  · rw [h]
    apply tokLoop_started _ _ _ _ _ hk
    intro hne
    rcases hh with hh | hh
    · exact absurd hh hne
    · exact .inr (.inr hh)
  · rw [h]
    obtain ⟨h1, h2, h3⟩ := hk
    unfold endF
    split
    · split
      · refine ⟨by simp, ?_⟩
        intro v' tloc rest rem nl h; injection h with _ h; exact h.symm
      · simp
    · split
      · refine ⟨by simp, ?_⟩
        intro v' tloc rest rem nl h; injection h with _ h; exact h.symm
      · simp
    · refine ⟨by simp, ?_⟩
      intro v' tloc rest rem nl h; injection h with _ h; exact h.symm
    · refine ⟨by simp, ?_⟩
      intro v' tloc rest rem nl h; injection h with _ h; exact h.symm
    · exact tokLoop_started _ _ _ _ _ ⟨h1, h2, h3⟩ (fun _ => .inl rfl)
    · exact tokLoop_started _ _ _ _ _ ⟨h1, h2, h3⟩ (fun _ => .inr (.inl rfl))
    · exact absurd rfl h1
    · exact absurd rfl h2

end Pici.ReaderSpec
