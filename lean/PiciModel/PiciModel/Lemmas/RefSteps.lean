/-
Helper lemmas for Props/C05: one unfolding of `evalInternal` / `evalArgs` for each rule of the reference semantics
(`Spec/RefEval.lean`), the arity combinators off their expected length, and the independence of the core primitives
from the interpreter state.  Every evaluator lemma consumes exactly one level of fuel and takes the outcome of the
debugger poll as a hypothesis, so that it does not depend on how the state is described.
-/
import PiciModel.Spec.RefEval

namespace Pici
open Pici.Ref

/-! ### the arity combinators off their expected length -/

theorem arity1_bad {α : Type} (src : Name) (ops : List Val) (st : St) (k : Val → Res α × St) (h : ops.length ≠ 1) :
    arity1 src ops st k = (.err (wrongArity src 1 ops.length), st) := by
  unfold arity1
  split
  · simp at h
  · rfl

theorem arity3_bad {α : Type} (src : Name) (ops : List Val) (st : St) (k : Val → Val → Val → Res α × St) (h : ops.length ≠ 3) :
    arity3 src ops st k = (.err (wrongArity src 3 ops.length), st) := by
  unfold arity3
  split
  · simp at h
  · rfl

/-! ### special heads -/

theorem isSpecial_false {first : Val} (h : isSpecial first = false) :
    first.isSymNamed cs!"lambda" = false ∧ first.isSymNamed cs!"quote" = false ∧
    first.isSymNamed cs!"if" = false ∧ first.isSymNamed cs!"trap" = false := by
  unfold isSpecial at h
  simp only [Bool.or_eq_false_iff] at h
  exact ⟨h.1.1.1, h.1.1.2, h.1.2, h.2⟩

/-! ### the core primitives neither read nor write the state -/

theorem corePrim_state (id : NativeId) (args : List Val) (dep : Nat) (st : St) (h : corePrim id = true) :
    simpleNative id args dep st = ((simpleNative id args dep default).1, st) := by
  cases id <;> first | (exfalso; revert h; decide) | skip
  all_goals
    simp only [simpleNative, arity1, arity2, arith, compare, divideNative, asNumber]
    repeat' split
    all_goals rfl

theorem corePrim_simple (id : NativeId) (h : corePrim id = true) :
    id ≠ .eval ∧ id ≠ .macroexpand ∧ id ≠ .callNativeFunction ∧ id ≠ .makeFunction ∧ id ≠ .loadAll := by
  cases id <;> first | (exfalso; revert h; decide) | decide

theorem applyNative_corePrim (n : Nat) (st : St) (id : NativeId) (args : List Val) (env : Val) (d : Nat)
    (h : corePrim id = true) :
    applyNative (n + 1) st id args env d = (primResult id args d, st) := by
  obtain ⟨h1, h2, h3, h4, h5⟩ := corePrim_simple id h
  rw [applyNative] <;> first | exact corePrim_state id args d st h | assumption

/-! ### one unfolding of `evalInternal`, rule by rule -/

section steps
variable (n : Nat) (st st1 : St) (e env : Val) (mod : Name) (d : Nat)
variable (hd : d ≤ Config.maxRecursionDepth) (hpoll : pollDebugger st = (none, st1))
include hd hpoll

theorem step_emptyList (hl : listToVec e = some []) :
    evalInternal (n + 1) st e env mod d = (.ok .nil, st1) := by
  rw [evalInternal, if_neg (Nat.not_lt.mpr hd), hpoll]
  simp only [hl]

theorem step_selfEval (hl : listToVec e = none) (h1 : ∀ a b, e.get ≠ .cons a b) (h2 : ∀ x h, e.get ≠ .trap x h)
    (h3 : ∀ s, e.get ≠ .sym s) :
    evalInternal (n + 1) st e env mod d = (.ok e, st1) := by
  rw [evalInternal, if_neg (Nat.not_lt.mpr hd), hpoll]
  simp only [hl]

theorem step_sym (s : Sym) (hl : listToVec e = none) (hg : e.get = .sym s) :
    evalInternal (n + 1) st e env mod d =
      (match lookup st1 s env mod with
       | .found v      => (.ok v, st1)
       | .ambiguous ms => (.err (ambiguousError cs!"eval" e ms), st1)
       | .notFound     => (.err (makeError cs!"unbound-symbol" cs!"eval" [(cs!"symbol", e)]), st1)) := by
  rw [evalInternal, if_neg (Nat.not_lt.mpr hd), hpoll]
  simp only [hl, hg]
  cases lookup st1 s env mod <;> rfl

theorem step_lambda (first : Val) (operands : List Val) (hl : listToVec e = some (first :: operands))
    (hlam : first.isSymNamed cs!"lambda" = true) :
    evalInternal (n + 1) st e env mod d = (makeFunctionInternal operands env mod cs!"lambda" .lambda, st1) := by
  rw [evalInternal, if_neg (Nat.not_lt.mpr hd), hpoll]
  simp only [hl, hlam, if_true]

theorem step_quote (first x : Val) (hl : listToVec e = some [first, x])
    (hlam : first.isSymNamed cs!"lambda" = false) (hq : first.isSymNamed cs!"quote" = true) :
    evalInternal (n + 1) st e env mod d = (.ok x, st1) := by
  rw [evalInternal, if_neg (Nat.not_lt.mpr hd), hpoll]
  simp only [hl, hlam, hq, arity1]
  simp

theorem step_quoteArity (first : Val) (operands : List Val) (hl : listToVec e = some (first :: operands))
    (hlam : first.isSymNamed cs!"lambda" = false) (hq : first.isSymNamed cs!"quote" = true) (hlen : operands.length ≠ 1) :
    evalInternal (n + 1) st e env mod d = (.err (wrongArity cs!"quote" 1 operands.length), st1) := by
  rw [evalInternal, if_neg (Nat.not_lt.mpr hd), hpoll]
  simp only [hl, hlam, hq]
  simp only [Bool.false_eq_true, if_false, if_true]
  exact arity1_bad _ _ _ _ hlen

theorem step_ifOk (first c t o : Val) (st2 : St) (v : Val) (hl : listToVec e = some [first, c, t, o])
    (hlam : first.isSymNamed cs!"lambda" = false) (hq : first.isSymNamed cs!"quote" = false)
    (hif : first.isSymNamed cs!"if" = true)
    (hc : evalInternal n st1 c env mod (d + 1) = (.ok v, st2)) :
    evalInternal (n + 1) st e env mod d = evalInternal n st2 (if !v.isNil then t else o) env mod d := by
  rw [evalInternal, if_neg (Nat.not_lt.mpr hd), hpoll]
  simp only [hl, hif, hlam, hq, arity3, hc]
  simp

theorem step_ifErr (first c t o : Val) (st2 : St) (s : Val) (hl : listToVec e = some [first, c, t, o])
    (hlam : first.isSymNamed cs!"lambda" = false) (hq : first.isSymNamed cs!"quote" = false)
    (hif : first.isSymNamed cs!"if" = true)
    (hc : evalInternal n st1 c env mod (d + 1) = (.err s, st2)) :
    evalInternal (n + 1) st e env mod d = (.err s, st2) := by
  rw [evalInternal, if_neg (Nat.not_lt.mpr hd), hpoll]
  simp only [hl, hif, hlam, hq, arity3, hc]
  simp

theorem step_ifArity (first : Val) (operands : List Val) (hl : listToVec e = some (first :: operands))
    (hlam : first.isSymNamed cs!"lambda" = false) (hq : first.isSymNamed cs!"quote" = false)
    (hif : first.isSymNamed cs!"if" = true) (hlen : operands.length ≠ 3) :
    evalInternal (n + 1) st e env mod d = (.err (wrongArity cs!"if" 3 operands.length), st1) := by
  rw [evalInternal, if_neg (Nat.not_lt.mpr hd), hpoll]
  simp only [hl, hlam, hq, hif]
  simp only [Bool.false_eq_true, if_false, if_true]
  exact arity3_bad _ _ _ _ hlen

theorem step_operatorErr (first : Val) (operands : List Val) (st2 : St) (s : Val)
    (hl : listToVec e = some (first :: operands)) (hsp : isSpecial first = false)
    (hop : evalInternal n st1 first env mod (d + 1) = (.err s, st2)) :
    evalInternal (n + 1) st e env mod d = (.err s, st2) := by
  obtain ⟨hlam, hq, hif, htrap⟩ := isSpecial_false hsp
  rw [evalInternal, if_neg (Nat.not_lt.mpr hd), hpoll]
  simp only [hl, hif, hlam, hq, htrap, hop]
  simp

theorem step_badOperator (first : Val) (operands : List Val) (st2 : St) (f : Val)
    (hl : listToVec e = some (first :: operands)) (hsp : isSpecial first = false)
    (hop : evalInternal n st1 first env mod (d + 1) = (.ok f, st2))
    (hfn : ∀ k r p b fe m, f.get ≠ .fn k r p b fe m) (hnat : ∀ id, f.get ≠ .native id) :
    evalInternal (n + 1) st e env mod d =
      (.err (makeError cs!"eval-bad-operator" cs!"eval" [(cs!"symbol", first)]), st2) := by
  obtain ⟨hlam, hq, hif, htrap⟩ := isSpecial_false hsp
  rw [evalInternal, if_neg (Nat.not_lt.mpr hd), hpoll]
  simp only [hl, hif, hlam, hq, htrap, hop]
  simp only [Bool.false_eq_true, if_false]

theorem step_operandErr (first : Val) (operands : List Val) (st2 st3 : St) (f s : Val)
    (hl : listToVec e = some (first :: operands)) (hsp : isSpecial first = false)
    (hop : evalInternal n st1 first env mod (d + 1) = (.ok f, st2))
    (hf : (∃ k r p b fe m, f.get = .fn k r p b fe m) ∨ (∃ id, f.get = .native id))
    (hargs : evalArgs n st2 operands env mod d = (.err s, st3)) :
    evalInternal (n + 1) st e env mod d = (.err s, st3) := by
  obtain ⟨hlam, hq, hif, htrap⟩ := isSpecial_false hsp
  rw [evalInternal, if_neg (Nat.not_lt.mpr hd), hpoll]
  simp only [hl, hif, hlam, hq, htrap, hop]
  simp only [Bool.false_eq_true, if_false]
  rcases hf with ⟨k, r, p, b, fe, m, hg⟩ | ⟨id, hg⟩
  · simp only [hg, hargs]
  · simp only [hg, hargs]

theorem step_callClosure (first : Val) (operands : List Val) (st2 st3 : St) (f : Val)
    (k : Kind) (rest params body fenv : Val) (fmod : Name) (args : List Val) (newEnv : Val)
    (hl : listToVec e = some (first :: operands)) (hsp : isSpecial first = false)
    (hop : evalInternal n st1 first env mod (d + 1) = (.ok f, st2))
    (hf : f.get = .fn k rest params body fenv fmod)
    (hargs : evalArgs n st2 operands env mod d = (.ok args, st3))
    (hpair : pairParamsAndArgs rest params fenv (e.getMeta.map (·.readName)) args = .ok newEnv) :
    evalInternal (n + 1) st e env mod d = evalInternal n st3 body newEnv fmod d := by
  obtain ⟨hlam, hq, hif, htrap⟩ := isSpecial_false hsp
  rw [evalInternal, if_neg (Nat.not_lt.mpr hd), hpoll]
  simp only [hl, hif, hlam, hq, htrap, hop, hf, hargs, hpair]
  simp

theorem step_callArity (first : Val) (operands : List Val) (st2 st3 : St) (f : Val)
    (k : Kind) (rest params body fenv : Val) (fmod : Name) (args : List Val) (s : Val)
    (hl : listToVec e = some (first :: operands)) (hsp : isSpecial first = false)
    (hop : evalInternal n st1 first env mod (d + 1) = (.ok f, st2))
    (hf : f.get = .fn k rest params body fenv fmod)
    (hargs : evalArgs n st2 operands env mod d = (.ok args, st3))
    (hpair : pairParamsAndArgs rest params fenv (e.getMeta.map (·.readName)) args = .err s) :
    evalInternal (n + 1) st e env mod d = (.err s, st3) := by
  obtain ⟨hlam, hq, hif, htrap⟩ := isSpecial_false hsp
  rw [evalInternal, if_neg (Nat.not_lt.mpr hd), hpoll]
  simp only [hl, hif, hlam, hq, htrap, hop, hf, hargs, hpair]
  simp

theorem step_callPrim (first : Val) (operands : List Val) (st2 st3 : St) (f : Val) (id : NativeId) (args : List Val)
    (hl : listToVec e = some (first :: operands)) (hsp : isSpecial first = false)
    (hop : evalInternal (n + 1) st1 first env mod (d + 1) = (.ok f, st2))
    (hf : f.get = .native id) (hcore : corePrim id = true)
    (hargs : evalArgs (n + 1) st2 operands env mod d = (.ok args, st3)) :
    evalInternal (n + 2) st e env mod d = (primResult id args (d + 1), st3) := by
  obtain ⟨hlam, hq, hif, htrap⟩ := isSpecial_false hsp
  have hid : id ≠ .eval := (corePrim_simple id hcore).1
  rw [evalInternal, if_neg (Nat.not_lt.mpr hd), hpoll]
  simp only [hl, hif, hlam, hq, htrap, hop, hf, hargs]
  simp only [Bool.false_eq_true, if_false, beq_iff_eq, hid]
  exact applyNative_corePrim n st3 id args env (d + 1) hcore

end steps

/-! ### one unfolding of `evalArgs` -/

theorem step_args_nil (n : Nat) (st : St) (env : Val) (mod : Name) (d : Nat) :
    evalArgs (n + 1) st [] env mod d = (.ok [], st) := by
  rw [evalArgs]

theorem step_args_cons (n : Nat) (st st1 st2 : St) (x : Val) (xs : List Val) (env : Val) (mod : Name) (d : Nat)
    (v : Val) (vs : List Val)
    (hx : evalInternal n st x env mod (d + 1) = (.ok v, st1))
    (hxs : evalArgs n st1 xs env mod d = (.ok vs, st2)) :
    evalArgs (n + 1) st (x :: xs) env mod d = (.ok (v :: vs), st2) := by
  rw [evalArgs, hx]; simp only [hxs]

theorem step_args_here (n : Nat) (st st1 : St) (x : Val) (xs : List Val) (env : Val) (mod : Name) (d : Nat) (s : Val)
    (hx : evalInternal n st x env mod (d + 1) = (.err s, st1)) :
    evalArgs (n + 1) st (x :: xs) env mod d = (.err s, st1) := by
  rw [evalArgs, hx]

theorem step_args_later (n : Nat) (st st1 st2 : St) (x : Val) (xs : List Val) (env : Val) (mod : Name) (d : Nat)
    (v s : Val)
    (hx : evalInternal n st x env mod (d + 1) = (.ok v, st1))
    (hxs : evalArgs n st1 xs env mod d = (.err s, st2)) :
    evalArgs (n + 1) st (x :: xs) env mod d = (.err s, st2) := by
  rw [evalArgs, hx]; simp only [hxs]

/-! ### parameter binding -/

theorem listToVec_ofList (xs : List Val) : listToVec (.ofList xs) = some xs := by
  induction xs with
  | nil => rfl
  | cons x xs ih => simp [Val.ofList, listToVec, ih]

/-- enough arguments: every parameter is bound, the surplus is handed back -/
theorem bindParams_ok (src : Name) (nargs : Nat) (ps args : List Val) (i : Nat) (env : Val)
    (h : ps.length ≤ args.length) :
    ∃ env', bindParams src nargs ps args i env = .ok (env', args.drop ps.length, i + ps.length) := by
  induction ps generalizing args i env with
  | nil => exact ⟨env, rfl⟩
  | cons p ps ih =>
    cases args with
    | nil => simp at h
    | cons a as =>
      obtain ⟨env', he⟩ := ih as (i + 1) (.cons (.cons p a) env) (by simpa using h)
      refine ⟨env', ?_⟩
      rw [bindParams, he]
      simp only [List.length_cons, List.drop_succ_cons]
      rw [show i + 1 + ps.length = i + (ps.length + 1) by omega]

/-- too few arguments: the arity error -/
theorem bindParams_err (src : Name) (nargs : Nat) (ps args : List Val) (i : Nat) (env : Val)
    (h : args.length < ps.length) :
    ∃ s, bindParams src nargs ps args i env = .error s := by
  induction ps generalizing args i env with
  | nil => simp at h
  | cons p ps ih =>
    cases args with
    | nil => exact ⟨_, rfl⟩
    | cons a as =>
      obtain ⟨s, he⟩ := ih as (i + 1) (.cons (.cons p a) env) (by simpa using h)
      exact ⟨s, by rw [bindParams, he]⟩

/-! ### determinism of the reference semantics -/

/-- closes a goal whose hypotheses contradict each other through the side conditions of two different rules -/
macro "det_easy" : tactic => `(tactic| first | omega | (simp_all [isSpecial]; done))

/-- the reference semantics is deterministic (both judgments, simultaneously) -/
theorem Ref.eval_deterministic {G : Globals} {env : Val} {home : Name} {d : Nat} {e : Val} {r : Res Val}
    (h : Eval G env home d e r) : ∀ r2, Eval G env home d e r2 → r = r2 := by
  apply Eval.rec (motive_1 := fun env home d e r _ => ∀ r2, Eval G env home d e r2 → r = r2)
    (motive_2 := fun env home d xs r _ => ∀ r2, EvalArgs G env home d xs r2 → r = r2) (t := h)
  case overflow =>
    intro env home d e hd r2 h2
    cases h2 <;> det_easy
  case emptyList =>
    intro env home d e hd hl r2 h2
    cases h2 <;> det_easy
  case selfEval =>
    intro env home d e hd hl h1 h2 h3 r2 h2
    cases h2 <;> det_easy
  case varLocal =>
    intro env home d e s v hd hl hg hlk r2 h2
    cases h2 <;> det_easy
  case varGlobal =>
    intro env home d e s v hd hl hg hlk hG r2 h2
    cases h2 <;> det_easy
  case varUnbound =>
    intro env home d e s hd hl hg hlk hG r2 h2
    cases h2 <;> det_easy
  case varAmbiguous =>
    intro env home d e s ms hd hl hg hlk hG r2 h2
    cases h2 <;> det_easy
  case lambda =>
    intro env home d e first operands hd hl hlam r2 h2
    cases h2 <;> det_easy
  case quote =>
    intro env home d e first x hd hl hlam hq r2 h2
    cases h2 <;> det_easy
  case quoteArity =>
    intro env home d e first operands hd hl hlam hq hlen r2 h2
    cases h2 with
    | quote _ hl' _ _ => rw [hl] at hl'; cases hl'; exact absurd rfl hlen
    | _ => det_easy
  case ifBranch =>
    intro env home d e first c t o v r hd hl hlam hq hif _ _ ih1 ih2 r2 h2
    cases h2 with
    | ifBranch _ hl' _ _ _ hc' hb' =>
      rw [hl] at hl'; cases hl'
      cases ih1 _ hc'
      exact ih2 _ hb'
    | ifSignal _ hl' _ _ _ hc' =>
      rw [hl] at hl'; cases hl'
      cases ih1 _ hc'
    | ifArity _ hl' _ _ _ hlen' => rw [hl] at hl'; cases hl'; exact absurd rfl hlen'
    | _ => det_easy
  case ifSignal =>
    intro env home d e first c t o s hd hl hlam hq hif _ ih1 r2 h2
    cases h2 with
    | ifBranch _ hl' _ _ _ hc' hb' =>
      rw [hl] at hl'; cases hl'
      cases ih1 _ hc'
    | ifSignal _ hl' _ _ _ hc' =>
      rw [hl] at hl'; cases hl'
      cases ih1 _ hc'
      rfl
    | ifArity _ hl' _ _ _ hlen' => rw [hl] at hl'; cases hl'; exact absurd rfl hlen'
    | _ => det_easy
  case ifArity =>
    intro env home d e first operands hd hl hlam hq hif hlen r2 h2
    cases h2 with
    | ifBranch _ hl' _ _ _ hc' hb' => rw [hl] at hl'; cases hl'; exact absurd rfl hlen
    | ifSignal _ hl' _ _ _ hc' => rw [hl] at hl'; cases hl'; exact absurd rfl hlen
    | _ => det_easy
  case operatorSignal =>
    intro env home d e first operands s hd hl hsp _ ih1 r2 h2
    cases h2 with
    | operatorSignal _ hl' _ hop' => rw [hl] at hl'; cases hl'; cases ih1 _ hop'; rfl
    | badOperator _ hl' _ hop' _ _ => rw [hl] at hl'; cases hl'; cases ih1 _ hop'
    | operandSignal _ hl' _ hop' _ _ => rw [hl] at hl'; cases hl'; cases ih1 _ hop'
    | callClosure _ hl' _ hop' _ _ _ _ => rw [hl] at hl'; cases hl'; cases ih1 _ hop'
    | callArity _ hl' _ hop' _ _ _ => rw [hl] at hl'; cases hl'; cases ih1 _ hop'
    | callPrim _ hl' _ hop' _ _ _ => rw [hl] at hl'; cases hl'; cases ih1 _ hop'
    | _ => det_easy
  case badOperator =>
    intro env home d e first operands f hd hl hsp _ hfn hnat ih1 r2 h2
    cases h2 with
    | operatorSignal _ hl' _ hop' => rw [hl] at hl'; cases hl'; cases ih1 _ hop'
    | badOperator _ hl' _ hop' _ _ => rw [hl] at hl'; cases hl'; cases ih1 _ hop'; rfl
    | operandSignal _ hl' _ hop' hf' _ =>
      rw [hl] at hl'; cases hl'; cases ih1 _ hop'
      rcases hf' with ⟨k, r, p, b, fe, m, hg⟩ | ⟨id, hg⟩
      · exact absurd hg (hfn _ _ _ _ _ _)
      · exact absurd hg (hnat _)
    | callClosure _ hl' _ hop' hf' _ _ _ => rw [hl] at hl'; cases hl'; cases ih1 _ hop'; exact absurd hf' (hfn _ _ _ _ _ _)
    | callArity _ hl' _ hop' hf' _ _ => rw [hl] at hl'; cases hl'; cases ih1 _ hop'; exact absurd hf' (hfn _ _ _ _ _ _)
    | callPrim _ hl' _ hop' hf' _ _ => rw [hl] at hl'; cases hl'; cases ih1 _ hop'; exact absurd hf' (hnat _)
    | _ => det_easy
  case operandSignal =>
    intro env home d e first operands f s hd hl hsp _ hf _ ih1 ih2 r2 h2
    cases h2 with
    | operatorSignal _ hl' _ hop' => rw [hl] at hl'; cases hl'; cases ih1 _ hop'
    | badOperator _ hl' _ hop' hfn' hnat' =>
      rw [hl] at hl'; cases hl'; cases ih1 _ hop'
      rcases hf with ⟨k, r, p, b, fe, m, hg⟩ | ⟨id, hg⟩
      · exact absurd hg (hfn' _ _ _ _ _ _)
      · exact absurd hg (hnat' _)
    | operandSignal _ hl' _ hop' _ hargs' => rw [hl] at hl'; cases hl'; cases ih1 _ hop'; cases ih2 _ hargs'; rfl
    | callClosure _ hl' _ hop' _ hargs' _ _ => rw [hl] at hl'; cases hl'; cases ih1 _ hop'; cases ih2 _ hargs'
    | callArity _ hl' _ hop' _ hargs' _ => rw [hl] at hl'; cases hl'; cases ih1 _ hop'; cases ih2 _ hargs'
    | callPrim _ hl' _ hop' _ _ hargs' => rw [hl] at hl'; cases hl'; cases ih1 _ hop'; cases ih2 _ hargs'
    | _ => det_easy
  case callClosure =>
    intro env home d e first operands f k rest params body fenv fmod args newEnv r hd hl hsp _ hf _ hpair _ ih1 ih2 ih3 r2 h2
    cases h2 with
    | operatorSignal _ hl' _ hop' => rw [hl] at hl'; cases hl'; cases ih1 _ hop'
    | badOperator _ hl' _ hop' hfn' _ => rw [hl] at hl'; cases hl'; cases ih1 _ hop'; exact absurd hf (hfn' _ _ _ _ _ _)
    | operandSignal _ hl' _ hop' _ hargs' => rw [hl] at hl'; cases hl'; cases ih1 _ hop'; cases ih2 _ hargs'
    | callClosure _ hl' _ hop' hf' hargs' hpair' hbody' =>
      rw [hl] at hl'; cases hl'; cases ih1 _ hop'
      rw [hf] at hf'; cases hf'
      cases ih2 _ hargs'
      rw [hpair] at hpair'; cases hpair'
      exact ih3 _ hbody'
    | callArity _ hl' _ hop' hf' hargs' hpair' =>
      rw [hl] at hl'; cases hl'; cases ih1 _ hop'
      rw [hf] at hf'; cases hf'
      cases ih2 _ hargs'
      rw [hpair] at hpair'; cases hpair'
    | callPrim _ hl' _ hop' hf' _ _ => rw [hl] at hl'; cases hl'; cases ih1 _ hop'; rw [hf] at hf'; cases hf'
    | _ => det_easy
  case callArity =>
    intro env home d e first operands f k rest params body fenv fmod args s hd hl hsp _ hf _ hpair ih1 ih2 r2 h2
    cases h2 with
    | operatorSignal _ hl' _ hop' => rw [hl] at hl'; cases hl'; cases ih1 _ hop'
    | badOperator _ hl' _ hop' hfn' _ => rw [hl] at hl'; cases hl'; cases ih1 _ hop'; exact absurd hf (hfn' _ _ _ _ _ _)
    | operandSignal _ hl' _ hop' _ hargs' => rw [hl] at hl'; cases hl'; cases ih1 _ hop'; cases ih2 _ hargs'
    | callClosure _ hl' _ hop' hf' hargs' hpair' _ =>
      rw [hl] at hl'; cases hl'; cases ih1 _ hop'
      rw [hf] at hf'; cases hf'
      cases ih2 _ hargs'
      rw [hpair] at hpair'; cases hpair'
    | callArity _ hl' _ hop' hf' hargs' hpair' =>
      rw [hl] at hl'; cases hl'; cases ih1 _ hop'
      rw [hf] at hf'; cases hf'
      cases ih2 _ hargs'
      rw [hpair] at hpair'; cases hpair'
      rfl
    | callPrim _ hl' _ hop' hf' _ _ => rw [hl] at hl'; cases hl'; cases ih1 _ hop'; rw [hf] at hf'; cases hf'
    | _ => det_easy
  case callPrim =>
    intro env home d e first operands f id args hd hl hsp _ hf hcore _ ih1 ih2 r2 h2
    cases h2 with
    | operatorSignal _ hl' _ hop' => rw [hl] at hl'; cases hl'; cases ih1 _ hop'
    | badOperator _ hl' _ hop' _ hnat' => rw [hl] at hl'; cases hl'; cases ih1 _ hop'; exact absurd hf (hnat' _)
    | operandSignal _ hl' _ hop' _ hargs' => rw [hl] at hl'; cases hl'; cases ih1 _ hop'; cases ih2 _ hargs'
    | callClosure _ hl' _ hop' hf' _ _ _ => rw [hl] at hl'; cases hl'; cases ih1 _ hop'; rw [hf] at hf'; cases hf'
    | callArity _ hl' _ hop' hf' _ _ => rw [hl] at hl'; cases hl'; cases ih1 _ hop'; rw [hf] at hf'; cases hf'
    | callPrim _ hl' _ hop' hf' _ hargs' =>
      rw [hl] at hl'; cases hl'; cases ih1 _ hop'
      rw [hf] at hf'; cases hf'
      cases ih2 _ hargs'
      rfl
    | _ => det_easy
  case nil =>
    intro env home d r2 h2
    cases h2; rfl
  case cons =>
    intro env home d x xs v vs _ _ ih1 ih2 r2 h2
    cases h2 with
    | cons h1' h2' => cases ih1 _ h1'; cases ih2 _ h2'; rfl
    | signalHere h1' => cases ih1 _ h1'
    | signalLater h1' h2' => cases ih1 _ h1'; cases ih2 _ h2'
  case signalHere =>
    intro env home d x xs s _ ih1 r2 h2
    cases h2 with
    | cons h1' _ => cases ih1 _ h1'
    | signalHere h1' => cases ih1 _ h1'; rfl
    | signalLater h1' _ => cases ih1 _ h1'
  case signalLater =>
    intro env home d x xs v s _ _ ih1 ih2 r2 h2
    cases h2 with
    | cons h1' h2' => cases ih1 _ h1'; cases ih2 _ h2'
    | signalHere h1' => cases ih1 _ h1'
    | signalLater h1' h2' => cases ih1 _ h1'; cases ih2 _ h2'; rfl

end Pici
