/-
Helper lemmas for Props/C11c: the token loop `readLoop` of `Model/Reader.lean` (a stack of open lists and one `quoted`
flag) computes, on quirk-free text, what the recursive descent `Ref.form` / `Ref.elems` of `Spec/RefReader.lean` computes.
-/
import PiciModel.Lemmas.RefLexer

namespace Pici.RefParser
open Pici Pici.Ref Pici.ReaderSpec Pici.RefLexer

/-! ### the token and the remaining text do not depend on the position the lexer starts from -/

def shape : Lexed → Option (Tok × List Char)
  | .tok t _ r _ => some (t, r)
  | _ => none

theorem lexString_shape (cs : List Char) : ∀ (s s' p q : Pos) (out : List Char),
    shape (lexString s cs p out) = shape (lexString s' cs q out) ∧
    shape (lexEscape s cs p out) = shape (lexEscape s' cs q out) := by
  induction cs with
  | nil => intro s s' p q out; exact ⟨rfl, rfl⟩
  | cons c cs ih =>
    intro s s' p q out
    constructor
    · by_cases h1 : c = '"'
      · subst h1; rw [lexString_quote, lexString_quote]; rfl
      · by_cases h2 : c = '\\'
        · subst h2; rw [lexString_bs, lexString_bs]; exact (ih _ _ _ _ _).2
        · rw [lexString_plain _ _ _ _ _ h1 h2, lexString_plain _ _ _ _ _ h1 h2]; exact (ih _ _ _ _ _).1
    · simp only [lexEscape]
      cases hu : unescape c with
      | none => rfl
      | some x => exact (ih _ _ _ _ _).1

theorem lexChar_shape (cs : List Char) (s s' p q : Pos) : shape (lexChar s cs p) = shape (lexChar s' cs q) := by
  unfold lexChar
  cases cs with
  | nil => rfl
  | cons c cs => simp only; cases charOf (c :: cs.takeWhile nonDelim) <;> rfl

theorem firstBad_isSome (cs : List Char) : ∀ (pre : List Char) (p q : Pos),
    (firstBad pre cs p).isSome = (firstBad pre cs q).isSome := by
  induction cs with
  | nil => intro pre p q; rfl
  | cons c cs ih =>
    intro pre p q
    rw [firstBad, firstBad]
    by_cases h1 : c = '\\'
    · rw [if_pos h1, if_pos h1]; rfl
    · rw [if_neg h1, if_neg h1]
      by_cases h2 : (committed pre && !(isAsciiDigit c || signish c)) = true
      · rw [if_pos h2, if_pos h2]; rfl
      · rw [if_neg h2, if_neg h2]; exact ih _ _ _

theorem lexAtom_shape (cs : List Char) (p q : Pos) : shape (lexAtom cs p) = shape (lexAtom cs q) := by
  unfold lexAtom
  simp only
  have h := firstBad_isSome (cs.takeWhile nonDelim) [] p q
  cases h1 : firstBad [] (cs.takeWhile nonDelim) p with
  | some e =>
    rw [h1] at h
    cases h2 : firstBad [] (cs.takeWhile nonDelim) q with
    | some e' => rfl
    | none => rw [h2] at h; cases h
  | none =>
    rw [h1] at h
    cases h2 : firstBad [] (cs.takeWhile nonDelim) q with
    | some e' => rw [h2] at h; cases h
    | none =>
      simp only
      by_cases hc : committed (cs.takeWhile nonDelim) = true
      · rw [if_pos hc, if_pos hc]
        cases hi : intOf (cs.takeWhile nonDelim) <;> rfl
      · rw [if_neg hc, if_neg hc]; rfl

theorem lex_shape (cs : List Char) (p q : Pos) : shape (lex cs p) = shape (lex cs q) := by
  unfold lex
  have h := skipBlank_fst cs false p q
  rcases h1 : skipBlank false cs p with ⟨l1, p1⟩
  rcases h2 : skipBlank false cs q with ⟨l2, p2⟩
  rw [h1, h2] at h
  simp only at h
  subst h
  cases l1 with
  | nil => rfl
  | cons c cs' =>
    simp only
    by_cases ho : c = '('
    · rw [if_pos ho, if_pos ho]; rfl
    · rw [if_neg ho, if_neg ho]
      by_cases hcl : c = ')'
      · rw [if_pos hcl, if_pos hcl]; rfl
      · rw [if_neg hcl, if_neg hcl]
        by_cases hq : c = '\''
        · rw [if_pos hq, if_pos hq]; rfl
        · rw [if_neg hq, if_neg hq]
          by_cases hdq : c = '"'
          · rw [if_pos hdq, if_pos hdq]; exact (lexString_shape _ _ _ _ _ _).1
          · rw [if_neg hdq, if_neg hdq]
            by_cases hpc : c = '%'
            · rw [if_pos hpc, if_pos hpc]; exact lexChar_shape _ _ _ _ _
            · rw [if_neg hpc, if_neg hpc]; exact lexAtom_shape _ _ _

theorem lex_tok_any (cs : List Char) (p q : Pos) (t : Tok) (tp : Pos) (r : List Char) (a : Pos)
    (h : lex cs p = .tok t tp r a) : ∃ tp' a', lex cs q = .tok t tp' r a' := by
  have hs := lex_shape cs p q
  rw [h] at hs
  cases hq : lex cs q with
  | tok t' tp' r' a' =>
    rw [hq] at hs
    simp only [shape, Option.some.injEq, Prod.mk.injEq] at hs
    rw [hs.1, hs.2]
    exact ⟨_, _, rfl⟩
  | eof => rw [hq] at hs; cases hs
  | incomplete => rw [hq] at hs; cases hs
  | error e => rw [hq] at hs; cases hs

/-- a token takes at least one character -/
theorem lex_shorter (cs : List Char) (loc : Loc) (hok : nextTokenOk cs = true) (t : Tok) (tp : Pos) (r : List Char) (a : Pos)
    (h : lex cs (posOf loc) = .tok t tp r a) : r.length < cs.length := by
  have hc := lexer_conforms cs loc hok
  rw [h] at hc
  cases hn : nextToken (items cs) .eof loc with
  | token v tl rest rem nl =>
    rw [hn] at hc
    obtain ⟨-, -, -, h4, -, -⟩ := hc
    unfold nextToken at hn
    obtain ⟨consumed, r', h1, h2, h3, -, -⟩ := tokLoop_token_prefix cs _ _ _ _ _ _ _ _ _ hn
    have : r = r' := items_inj (h4.symm.trans h3)
    subst this
    rw [h1, List.length_append]
    have : 0 < consumed.length := List.length_pos_iff.mpr h2
    omega
  | done => rw [hn] at hc; exact hc.elim
  | err e => rw [hn] at hc; cases e <;> exact hc.elim

/-! ### quirk-free text, whatever the fuel -/

def NQ (q : Bool) (cs : List Char) : Prop := ∀ k, noQuirkFrom k q cs = true

theorem NQ_ok {q : Bool} {cs : List Char} (h : NQ q cs) : nextTokenOk cs = true := by
  have := h 1
  rw [noQuirkFrom, Bool.and_eq_true] at this
  exact this.1

theorem NQ_tok {q : Bool} {cs : List Char} (h : NQ q cs) (p : Pos) (t : Tok) (tp : Pos) (r : List Char) (a : Pos)
    (hl : lex cs p = .tok t tp r a) : (q = true → t.isQuote = false ∧ t.isClose = false) ∧ NQ t.isQuote r := by
  obtain ⟨tp', a', hl'⟩ := lex_tok_any cs p ⟨1, 1⟩ t tp r a hl
  have key : ∀ k, (!(q && (t.isQuote || t.isClose)) && noQuirkFrom k t.isQuote r) = true := by
    intro k
    have := h (k + 1)
    rw [noQuirkFrom, hl', Bool.and_eq_true] at this
    exact this.2
  constructor
  · intro hq
    have := key 0
    subst hq
    simp only [Bool.true_and, Bool.and_eq_true, Bool.not_eq_true', Bool.or_eq_false_iff] at this
    exact this.1
  · intro k
    have := key k
    rw [Bool.and_eq_true] at this
    exact this.2

theorem NQ_of_noQuirk (cs : List Char) (h : noQuirk cs = true) : NQ false cs := by
  have gen : ∀ (k n : Nat) (q : Bool) (cs : List Char), cs.length ≤ n → noQuirkFrom n q cs = true → noQuirkFrom k q cs = true := by
    intro k
    induction k with
    | zero => intro n q cs _ _; rfl
    | succ k ih =>
      intro n q cs hn hq
      cases n with
      | zero =>
        have : cs = [] := List.eq_nil_of_length_eq_zero (by omega)
        subst this
        rfl
      | succ n =>
        rw [noQuirkFrom, Bool.and_eq_true] at hq ⊢
        refine ⟨hq.1, ?_⟩
        cases hl : lex cs ⟨1, 1⟩ with
        | tok t tp r a =>
          have hq2 := hq.2
          rw [hl] at hq2
          simp only [Bool.and_eq_true] at hq2 ⊢
          refine ⟨hq2.1, ih n _ r ?_ hq2.2⟩
          have := lex_shorter cs ⟨.stdin, 1, 0⟩ hq.1 t tp r a hl
          omega
        | eof => rfl
        | incomplete => rfl
        | error e => rfl
  intro k
  exact gen k cs.length false cs (Nat.le_refl _) h

/-! ### `denote` on what the reader builds -/

theorem plainChars_ofChars (s : List Char) : plainChars (Val.ofChars s) = some s := by
  induction s with
  | nil => rfl
  | cons c s ih => rw [ofChars_cons, plainChars, ih]; rfl

theorem denote_atom (v : TokenValue) (tloc : Loc) (x : Val) (h : tokenAtom v tloc = some x) :
    match tokOf v with
    | .num n => denote x = some (.num n tloc.line tloc.col)
    | .chr c => denote x = some (.chr c tloc.line tloc.col)
    | .sym s => denote x = some (.sym s tloc.line tloc.col)
    | .str s => denote x = some (.str s tloc.line tloc.col)
    | _ => False := by
  cases v <;> simp only [tokenAtom, Option.some.injEq] at h <;> try cases h
  · simp [tokOf, atomWithMeta, denote]
  · simp [tokOf, atomWithMeta, denote]
  · simp [tokOf, atomWithMeta, denote, Val.symName]
  · simp [tokOf, atomWithMeta, denote, Val.ofString, plainChars_ofChars]

theorem denote_quote (v : Val) (d : Datum) (h : denote v = some d) : denote (wrapQuote v) = some (.quote d) := by
  rw [wrapQuote, Val.ofList, Val.ofList, Val.ofList, denote, if_pos rfl, denoteList, denoteList, h]

theorem denote_ne_quoteSym (v : Val) (d : Datum) (h : denote v = some d) : v ≠ quoteSym := by
  rintro rfl
  simp [quoteSym, Val.symName, denote] at h

/-- the elements of a list, pairwise -/
def DenoteAll : List Val → List Datum → Prop
  | [], [] => True
  | v :: vs, d :: ds => denote v = some d ∧ DenoteAll vs ds
  | _, _ => False

theorem denoteList_ofList (vs : List Val) : ∀ (ds : List Datum), DenoteAll vs ds → denoteList (Val.ofList vs) = some ds := by
  induction vs with
  | nil => intro ds h; cases ds with
    | nil => simp [Val.ofList, denoteList]
    | cons d ds => exact h.elim
  | cons v vs ih =>
    intro ds h
    cases ds with
    | nil => exact h.elim
    | cons d ds =>
      simp [Val.ofList, denoteList, h.1, ih ds h.2]

theorem denote_ofList (vs : List Val) (ds : List Datum) (h : DenoteAll vs ds) : denote (Val.ofList vs) = some (.list ds) := by
  cases vs with
  | nil => cases ds with
    | nil => simp [Val.ofList, denote]
    | cons d ds => exact h.elim
  | cons v vs =>
    cases ds with
    | nil => exact h.elim
    | cons d ds =>
      have := denoteList_ofList vs ds h.2
      rw [Val.ofList, denote, if_neg (denote_ne_quoteSym v d h.1), h.1, this]

theorem DenoteAll_reverse (vs : List Val) (ds : List Datum) (h : DenoteAll vs ds) : DenoteAll vs.reverse ds.reverse := by
  have gen : ∀ (vs : List Val) (ds : List Datum) (vs' : List Val) (ds' : List Datum), DenoteAll vs ds → DenoteAll vs' ds' →
      DenoteAll (vs.reverse ++ vs') (ds.reverse ++ ds') := by
    intro vs
    induction vs with
    | nil => intro ds vs' ds' h h'; cases ds with
      | nil => exact h'
      | cons d ds => exact h.elim
    | cons v vs ih =>
      intro ds vs' ds' h h'
      cases ds with
      | nil => exact h.elim
      | cons d ds =>
        rw [List.reverse_cons, List.reverse_cons, List.append_assoc, List.append_assoc]
        exact ih ds (v :: vs') (d :: ds') h.2 ⟨h.1, h'⟩
  have := gen vs ds [] [] h trivial
  simpa using this

/-! ### one round of the token loop, against the lexer -/

theorem readLoop_step (cs : List Char) (loc : Loc) (stack : List (List Val × Bool)) (quoted : Bool) (F : Nat)
    (hF : cs.length + 1 ≤ F) (hok : nextTokenOk cs = true) :
    match lex cs (posOf loc) with
    | .eof => readLoop F (items cs) .eof loc stack quoted = if !stack.isEmpty || quoted then .error .incomplete else .error .nothing
    | .incomplete => readLoop F (items cs) .eof loc stack quoted = .error .incomplete
    | .error e => ∃ m el rest, readLoop F (items cs) .eof loc stack quoted = .error (.error m el rest) ∧ el.line = e.line ∧ el.col = e.col
    | .tok t p r a => ∃ v tloc nl, tokOf v = t ∧ tloc.line = p.line ∧ tloc.col = p.col ∧ posOf nl = a ∧ r.length < cs.length ∧
        readLoop F (items cs) .eof loc stack quoted = runR (F - 1) .eof tloc (restAt nl r) (items r) nl (rstep v tloc stack quoted) := by
  obtain ⟨F0, rfl⟩ : ∃ F0, F = F0 + 1 := ⟨F - 1, by omega⟩
  rw [readLoop_succ]
  have hc := lexer_conforms cs loc hok
  cases hl : lex cs (posOf loc) with
  | eof =>
    rw [hl] at hc
    cases hn : nextToken (items cs) .eof loc with
    | done => rfl
    | err e => rw [hn] at hc; cases e <;> exact hc.elim
    | token v tl rest rem nl => rw [hn] at hc; exact hc.elim
  | incomplete =>
    rw [hl] at hc
    cases hn : nextToken (items cs) .eof loc with
    | done => rw [hn] at hc; exact hc.elim
    | err e => rw [hn] at hc; cases e <;> first | exact hc.elim | rfl
    | token v tl rest rem nl => rw [hn] at hc; exact hc.elim
  | error e =>
    rw [hl] at hc
    cases hn : nextToken (items cs) .eof loc with
    | done => rw [hn] at hc; exact hc.elim
    | err e' =>
      rw [hn] at hc
      cases e' with
      | error m el rest => exact ⟨m, el, rest, rfl, hc.1, hc.2⟩
      | _ => exact hc.elim
    | token v tl rest rem nl => rw [hn] at hc; exact hc.elim
  | tok t p r a =>
    have hlen := lex_shorter cs loc hok t p r a hl
    rw [hl] at hc
    cases hn : nextToken (items cs) .eof loc with
    | done => rw [hn] at hc; exact hc.elim
    | err e => rw [hn] at hc; cases e <;> exact hc.elim
    | token v tl rest rem nl =>
      rw [hn] at hc
      obtain ⟨h1, h2, h3, h4, h5, h6⟩ := hc
      subst h4 h5
      exact ⟨v, tl, nl, h1, h2, h3, h6, hlen, rfl⟩

/-! ### the stack and the flag, against the recursion -/

def wrapIf (q : Bool) (v : Val) : Val := if q then wrapQuote v else v

/-- what the token loop does once a complete datum `v` has been built: return it, or put it into the innermost open list and go on -/
def resume (F : Nat) (stack : List (List Val × Bool)) (v : Val) (r : List Char) (loc : Loc) : Except ReadError (Val × Rest) :=
  match stack with
  | [] => .ok (v, restAt loc r)
  | (vec, q) :: lower => readLoop F (items r) .eof loc ((v :: vec, q) :: lower) false

/-- the model, in a context (`stack`: the lists of the enclosing `form` calls, `Q`: a quote token is pending), does what
the recursive descent says -/
def FormConf (stack : List (List Val × Bool)) (Q : Bool) (B : Nat) (res : Except ReadError (Val × Rest)) (ref : RefResult) : Prop :=
  match ref with
  | .nothing => False
  | .incomplete => res = .error .incomplete
  | .error l c => ∃ m el rest, res = .error (.error m el rest) ∧ el.line = l ∧ el.col = c
  | .ok d r' l c => ∃ val F' loc', denote val = some d ∧ posOf loc' = ⟨l, c⟩ ∧ r'.length + 1 ≤ F' ∧ r'.length ≤ B ∧ NQ false r' ∧
      res = resume F' stack (wrapIf Q val) r' loc'

theorem FormConf_mono {stack : List (List Val × Bool)} {Q : Bool} {B B' : Nat} {res : Except ReadError (Val × Rest)} {ref : RefResult}
    (hB : B ≤ B') (h : FormConf stack Q B res ref) : FormConf stack Q B' res ref := by
  cases ref with
  | ok d r' l c =>
    obtain ⟨val, F', loc', h1, h2, h3, h4, h5, h6⟩ := h
    exact ⟨val, F', loc', h1, h2, h3, Nat.le_trans h4 hB, h5, h6⟩
  | _ => exact h

theorem runR_atomTok (v : TokenValue) (tloc : Loc) (x : Val) (h : tokenAtom v tloc = some x) (F : Nat) (r : List Char) (nl : Loc)
    (stack : List (List Val × Bool)) (Q : Bool) :
    runR F .eof tloc (restAt nl r) (items r) nl (rstep v tloc stack Q) = resume F stack (wrapIf Q x) r nl := by
  cases v <;> simp only [tokenAtom, Option.some.injEq] at h <;> try cases h
  all_goals
    cases stack with
    | nil => rfl
    | cons top lower => obtain ⟨vec, q⟩ := top; rfl

theorem runR_close (tloc : Loc) (F : Nat) (r : List Char) (nl : Loc) (vec : List Val) (q : Bool) (stack : List (List Val × Bool)) :
    runR F .eof tloc (restAt nl r) (items r) nl (rstep .closeParen tloc ((vec, q) :: stack) false) =
      resume F stack (wrapIf q (Val.ofList vec.reverse)) r nl := by
  cases stack with
  | nil => cases q <;> rfl
  | cons top lower => obtain ⟨lvec, lq⟩ := top; cases q <;> rfl

theorem elems_succ_tok (n : Nat) (cs : List Char) (p : Pos) (acc : List Datum) (t : Tok) (tp : Pos) (r : List Char) (a : Pos)
    (hl : lex cs p = .tok t tp r a) (ht : t ≠ .close) :
    elems (n + 1) cs p acc =
      match form n t tp r a with
      | .ok d r' l c => elems n r' ⟨l, c⟩ (d :: acc)
      | other => other := by
  rw [elems, hl]
  cases t <;> first | rfl | exact absurd rfl ht

theorem form_quote (n : Nat) (p : Pos) (r : List Char) (a : Pos) :
    form (n + 1) .quote p r a =
      match lex r a with
      | .eof | .incomplete => .incomplete
      | .error e => .error e.line e.col
      | .tok t' p' r' a' =>
        match form n t' p' r' a' with
        | .ok d r'' l c => .ok (.quote d) r'' l c
        | other => other := by
  rw [form.eq_def]; rfl
theorem form_open (n : Nat) (p : Pos) (r : List Char) (a : Pos) : form (n + 1) .open p r a = elems n r a [] := by rw [form.eq_def]
theorem form_close (n : Nat) (p : Pos) (r : List Char) (a : Pos) : form (n + 1) .close p r a = .error p.line p.col := by rw [form.eq_def]
theorem form_num (n : Nat) (x : Int) (p : Pos) (r : List Char) (a : Pos) : form (n + 1) (.num x) p r a = .ok (.num x p.line p.col) r a.line a.col := by rw [form.eq_def]
theorem form_chr (n : Nat) (x : Char) (p : Pos) (r : List Char) (a : Pos) : form (n + 1) (.chr x) p r a = .ok (.chr x p.line p.col) r a.line a.col := by rw [form.eq_def]
theorem form_sym (n : Nat) (x : List Char) (p : Pos) (r : List Char) (a : Pos) : form (n + 1) (.sym x) p r a = .ok (.sym x p.line p.col) r a.line a.col := by rw [form.eq_def]
theorem form_str (n : Nat) (x : List Char) (p : Pos) (r : List Char) (a : Pos) : form (n + 1) (.str x) p r a = .ok (.str x p.line p.col) r a.line a.col := by rw [form.eq_def]

theorem tokOf_close {v : TokenValue} (h : tokOf v = .close) : v = .closeParen := by
  cases v <;> first | rfl | cases h

/-- parser level: the stack holds the partially built lists of the enclosing `form` calls, `quoted` is true exactly when
a quote token is pending; on quirk-free text the token loop then does what `form` / `elems` say -/
theorem parser_conforms (n : Nat) :
    (∀ (v : TokenValue) (t : Tok) (p : Pos) (r : List Char) (a : Pos) (tloc nl : Loc) (stack : List (List Val × Bool)) (Q : Bool) (F : Nat),
      tokOf v = t → tloc.line = p.line → tloc.col = p.col → posOf nl = a → 2 * r.length + 2 ≤ n → r.length + 1 ≤ F →
      NQ t.isQuote r → (t = .quote → Q = false) → (t = .close → stack = []) →
      FormConf stack Q r.length (runR F .eof tloc (restAt nl r) (items r) nl (rstep v tloc stack Q)) (form n t p r a)) ∧
    (∀ (cs : List Char) (p : Pos) (acc : List Datum) (vec : List Val) (q : Bool) (stack : List (List Val × Bool)) (loc : Loc) (F : Nat),
      posOf loc = p → 2 * cs.length + 1 ≤ n → cs.length + 1 ≤ F → NQ false cs → DenoteAll vec acc →
      FormConf stack q cs.length (readLoop F (items cs) .eof loc ((vec, q) :: stack) false) (elems n cs p acc)) := by
  induction n with
  | zero =>
    constructor
    · intro v t p r a tloc nl stack Q F _ _ _ _ hn; omega
    · intro cs p acc vec q stack loc F _ hn; omega
  | succ n ih =>
    obtain ⟨ihF, ihL⟩ := ih
    constructor
    · intro v t p r a tloc nl stack Q F hv h1 h2 ha hn hF hNQ hq hc
      have hatom : ∀ x, tokenAtom v tloc = some x → ∀ d, denote x = some d → form (n + 1) t p r a = .ok d r a.line a.col →
          t.isQuote = false →
          FormConf stack Q r.length (runR F .eof tloc (restAt nl r) (items r) nl (rstep v tloc stack Q)) (form (n + 1) t p r a) := by
        intro x hx d hd hf hnq
        rw [hf, runR_atomTok v tloc x hx]
        rw [hnq] at hNQ
        exact ⟨x, F, nl, hd, by rw [ha], hF, Nat.le_refl _, hNQ, rfl⟩
      cases v with
      | quote =>
        obtain rfl : t = .quote := hv.symm
        have hQ := hq rfl
        subst hQ
        have hstep := readLoop_step r nl stack true F hF (NQ_ok hNQ)
        rw [ha] at hstep
        have hr : runR F .eof tloc (restAt nl r) (items r) nl (rstep .quote tloc stack false) = readLoop F (items r) .eof nl stack true := rfl
        rw [hr, form_quote]
        cases hl : lex r a with
        | eof =>
          rw [hl] at hstep
          simp only [FormConf]
          rw [hstep]; simp
        | incomplete => rw [hl] at hstep; exact hstep
        | error e => rw [hl] at hstep; exact hstep
        | tok t' p' r' a' =>
          rw [hl] at hstep
          obtain ⟨v', tloc', nl', hv', h1', h2', ha', hlen, hrl⟩ := hstep
          obtain ⟨hnq, hNQ'⟩ := NQ_tok hNQ a t' p' r' a' hl
          obtain ⟨hnq1, hnq2⟩ := hnq rfl
          have := ihF v' t' p' r' a' tloc' nl' stack true (F - 1) hv' h1' h2' ha' (by omega) (by omega) hNQ'
            (by rintro rfl; cases hnq1) (by rintro rfl; cases hnq2)
          rw [← hrl] at this
          simp only
          cases hf : form n t' p' r' a' with
          | nothing => rw [hf] at this; exact this.elim
          | incomplete => rw [hf] at this; exact this
          | error l c => rw [hf] at this; exact this
          | ok d r'' l c =>
            rw [hf] at this
            obtain ⟨val, F', loc', hd, hp, hF', hB, hNQ'', hres⟩ := this
            exact ⟨wrapQuote val, F', loc', denote_quote val d hd, hp, hF', by omega, hNQ'', hres⟩
      | openParen =>
        obtain rfl : t = .open := hv.symm
        have hr : runR F .eof tloc (restAt nl r) (items r) nl (rstep .openParen tloc stack Q) =
            readLoop F (items r) .eof nl (([], Q) :: stack) false := rfl
        rw [hr, form_open]
        exact ihL r a [] [] Q stack nl F ha (by omega) hF hNQ trivial
      | closeParen =>
        obtain rfl : t = .close := hv.symm
        have := hc rfl
        subst this
        rw [form_close]
        exact ⟨_, _, _, rfl, h1, h2⟩
      | character c =>
        obtain rfl : t = .chr c := hv.symm
        refine hatom _ rfl (.chr c p.line p.col) ?_ (form_chr ..) rfl
        have := denote_atom (.character c) tloc _ rfl
        simp only [tokOf] at this
        rw [this, h1, h2]
      | number c =>
        obtain rfl : t = .num c := hv.symm
        refine hatom _ rfl (.num c p.line p.col) ?_ (form_num ..) rfl
        have := denote_atom (.number c) tloc _ rfl
        simp only [tokOf] at this
        rw [this, h1, h2]
      | symbol c =>
        obtain rfl : t = .sym c := hv.symm
        refine hatom _ rfl (.sym c p.line p.col) ?_ (form_sym ..) rfl
        have := denote_atom (.symbol c) tloc _ rfl
        simp only [tokOf] at this
        rw [this, h1, h2]
      | string c =>
        obtain rfl : t = .str c := hv.symm
        refine hatom _ rfl (.str c p.line p.col) ?_ (form_str ..) rfl
        have := denote_atom (.string c) tloc _ rfl
        simp only [tokOf] at this
        rw [this, h1, h2]
    · intro cs p acc vec q stack loc F hp hn hF hNQ hD
      subst hp
      have hstep := readLoop_step cs loc ((vec, q) :: stack) false F hF (NQ_ok hNQ)
      cases hl : lex cs (posOf loc) with
      | eof =>
        rw [hl] at hstep
        rw [elems, hl]
        simp only [FormConf]
        rw [hstep]; simp
      | incomplete => rw [hl] at hstep; rw [elems, hl]; exact hstep
      | error e => rw [hl] at hstep; rw [elems, hl]; exact hstep
      | tok t tp r a =>
        rw [hl] at hstep
        obtain ⟨v, tloc, nl, hv, h1, h2, ha, hlen, hrl⟩ := hstep
        obtain ⟨-, hNQ'⟩ := NQ_tok hNQ _ t tp r a hl
        by_cases hcl : t = .close
        · subst hcl
          have := tokOf_close hv
          subst this
          rw [elems, hl, hrl, runR_close]
          exact ⟨_, F - 1, nl, denote_ofList _ _ (DenoteAll_reverse _ _ hD), by rw [ha], by omega, by omega, hNQ', rfl⟩
        · rw [elems_succ_tok n cs _ acc t tp r a hl hcl, hrl]
          have := ihF v t tp r a tloc nl ((vec, q) :: stack) false (F - 1) hv h1 h2 ha (by omega) (by omega) hNQ'
            (fun _ => rfl) (fun h => absurd h hcl)
          cases hf : form n t tp r a with
          | nothing => rw [hf] at this; exact this.elim
          | incomplete => rw [hf] at this; exact this
          | error l c => rw [hf] at this; exact this
          | ok d r' l c =>
            rw [hf] at this
            obtain ⟨val, F', loc', hd, hp, hF', hB, hNQ'', hres⟩ := this
            rw [hres]
            have hres' : resume F' ((vec, q) :: stack) (wrapIf false val) r' loc' =
                readLoop F' (items r') .eof loc' ((val :: vec, q) :: stack) false := rfl
            rw [hres']
            exact FormConf_mono (by omega) (ihL r' ⟨l, c⟩ (d :: acc) (val :: vec) q stack loc' F' hp (by omega) hF' hNQ'' ⟨hd, hD⟩)

end Pici.RefParser
