/-
Lemmas about the debugger poll (`pollDebugger`) and about single steps of `evalInternal` around it:
what the poll returns in each situation, and how a poll outcome determines one unfolding of the evaluator
(symbol lookup, a call `(f)` whose operator signals, a call `(f)` of a parameterless function).
Used by `Props/C19.lean`.
-/
import PiciModel.Model.Eval

namespace Pici

/-! ### the poll itself -/

theorem pollDebugger_steps (st : St) : (pollDebugger st).2.steps = st.steps + 1 := by
  unfold pollDebugger
  simp only
  repeat' split
  all_goals rfl

theorem pollDebugger_detached (st : St) (h : st.attached = false) :
    pollDebugger st = (none, { st with steps := st.steps + 1 }) := by
  simp [pollDebugger, h]

theorem pollDebugger_not_yet (st : St) (c : Command) (cs : List Command) (hi : st.inbox = c :: cs)
    (ht : st.steps < c.atStep) :
    pollDebugger st = (none, { st with steps := st.steps + 1 }) := by
  simp [pollDebugger, hi, Nat.not_le.mpr ht]

theorem pollDebugger_other (st : St) (c : Command) (cs : List Command) (ha : st.attached = true)
    (hi : st.inbox = c :: cs) (ht : c.atStep ≤ st.steps) (h1 : c.text ≠ cs!"INTERRUPT") (h2 : c.text ≠ cs!"ABORT") :
    pollDebugger st = (none, { st with steps := st.steps + 1, inbox := cs }) := by
  simp [pollDebugger, hi, ha, ht, h1, h2]

theorem pollDebugger_interrupt (st : St) (c : Command) (cs : List Command) (ha : st.attached = true)
    (hi : st.inbox = c :: cs) (hc : c.text = cs!"INTERRUPT") (ht : c.atStep ≤ st.steps) :
    pollDebugger st = (some (.err (makeError cs!"interrupted" cs!"eval" [])),
                       { st with steps := st.steps + 1, inbox := cs }) := by
  simp [pollDebugger, hi, ha, ht, hc]

theorem pollDebugger_abort (st : St) (c : Command) (cs : List Command) (ha : st.attached = true)
    (hi : st.inbox = c :: cs) (hc : c.text = cs!"ABORT") (ht : c.atStep ≤ st.steps) :
    pollDebugger st = (some (.err .nil), { st with steps := st.steps + 1, inbox := cs }) := by
  simp [pollDebugger, hi, ha, ht, hc]

/-! ### one unfolding of `evalInternal`, given the outcome of its poll -/

/-- the poll asks to leave: the evaluation ends with what the poll returned, whatever the expression -/
theorem evalInternal_poll_some (fuel : Nat) (st st' : St) (e env : Val) (mod : Name) (d : Nat) (r : Res Val)
    (hd : d ≤ Config.maxRecursionDepth) (hp : pollDebugger st = (some r, st')) :
    evalInternal (fuel + 1) st e env mod d = (r, st') := by
  rw [evalInternal, if_neg (Nat.not_lt.mpr hd), hp]

/-- a symbol that `lookup` finds evaluates to its value -/
theorem evalInternal_sym_found (fuel : Nat) (st st' : St) (s : Sym) (env : Val) (mod : Name) (d : Nat) (v : Val)
    (hd : d ≤ Config.maxRecursionDepth) (hp : pollDebugger st = (none, st'))
    (hl : lookup st' s env mod = .found v) :
    evalInternal (fuel + 1) st (.sym s) env mod d = (.ok v, st') := by
  rw [evalInternal, if_neg (Nat.not_lt.mpr hd), hp]
  simp [listToVec, Val.get, hl]

/-- a call `(f)` whose operator signals: the signal is the outcome of the call -/
theorem evalInternal_call_operator_err (fuel : Nat) (st st1 st2 : St) (first env : Val) (mod : Name) (d : Nat) (x : Val)
    (hd : d ≤ Config.maxRecursionDepth) (hp : pollDebugger st = (none, st1))
    (h1 : first.isSymNamed cs!"lambda" = false) (h2 : first.isSymNamed cs!"quote" = false)
    (h3 : first.isSymNamed cs!"if" = false) (h4 : first.isSymNamed cs!"trap" = false)
    (ho : evalInternal fuel st1 first env mod (d + 1) = (.err x, st2)) :
    evalInternal (fuel + 1) st (.ofList [first]) env mod d = (.err x, st2) := by
  rw [evalInternal, if_neg (Nat.not_lt.mpr hd), hp]
  simp [listToVec, Val.ofList, h1, h2, h3, h4, ho]

/-- a call `(f)` of a function without parameters is a tail call of its body -/
theorem evalInternal_call_fn0 (fuel : Nat) (st st1 st2 : St) (first env : Val) (mod : Name) (d : Nat)
    (kind : Kind) (body fenv : Val) (fmod : Name)
    (hd : d ≤ Config.maxRecursionDepth) (hp : pollDebugger st = (none, st1))
    (h1 : first.isSymNamed cs!"lambda" = false) (h2 : first.isSymNamed cs!"quote" = false)
    (h3 : first.isSymNamed cs!"if" = false) (h4 : first.isSymNamed cs!"trap" = false)
    (ho : evalInternal (fuel + 1) st1 first env mod (d + 1) = (.ok (.fn kind .nil .nil body fenv fmod), st2)) :
    evalInternal (fuel + 2) st (.ofList [first]) env mod d = evalInternal (fuel + 1) st2 body fenv fmod d := by
  rw [evalInternal, if_neg (Nat.not_lt.mpr hd), hp]
  simp [listToVec, Val.ofList, h1, h2, h3, h4, ho, Val.get, evalArgs, pairParamsAndArgs, bindParams, Val.restParam?]

end Pici
