/-
Fuel monotonicity of the evaluator model: an outcome other than `outOfFuel` is unchanged by more fuel.
(Glue between "partial correctness for every fuel" and "termination for some fuel" statements.)

The statements need the current module of the start state to exist (`HasModule st st.current`, the invariant of
C15): `load-all` makes the previous module current again after the load, and when that module is missing from the
table this step crashes whatever the outcome of the load was -- also when the load ran out of fuel.  So in such a
state little fuel gives a crash (not `outOfFuel`) and more fuel a different final state, see
`fuel_mono_needs_current_module` at the end of this file.

Architecture (as in `Lemmas/ModuleState.lean`): `FuelLe a b` = "`a` ran out of fuel or `b = a`"; `FuelMonoAll n` = `FuelLe` of
every one of the seven mutually recursive functions at fuel `n` and `n + 1`; one `…_mono_step` lemma per function,
taking `FuelMonoAll n` and the invariant `GoodAll n` of `ModuleState.lean` (every sub-call keeps the current module, so
the induction hypothesis applies to the states reached through sub-calls); `monoAll` by induction on the fuel.
-/
import PiciModel.Lemmas.ModuleState

namespace Pici
open Pici

/-- `b` is the outcome `a`, unless `a` ran out of fuel -/
def FuelLe {α : Type} (a b : Res α × St) : Prop := a.1 = .outOfFuel ∨ b = a
/-- the same for the functions with the `changed` flag -/
def FuelLe2 {α : Type} (a b : (Res α × St) × Bool) : Prop := a.1.1 = .outOfFuel ∨ b = a

theorem FuelLe.refl {α : Type} (a : Res α × St) : FuelLe a a := Or.inr rfl
theorem FuelLe.oof {α : Type} (st : St) (b : Res α × St) : FuelLe (.outOfFuel, st) b := Or.inl rfl
theorem FuelLe2.refl {α : Type} (a : (Res α × St) × Bool) : FuelLe2 a a := Or.inr rfl
theorem FuelLe2.oof {α : Type} (st : St) (ch : Bool) (b : (Res α × St) × Bool) : FuelLe2 ((.outOfFuel, st), ch) b := Or.inl rfl
theorem FuelLe2.pair {α : Type} {a b : Res α × St} (c : Bool) (h : FuelLe a b) : FuelLe2 (a, c) (b, c) := by
  cases h with
  | inl h => exact Or.inl h
  | inr h => exact Or.inr (by rw [h])

def Res.isOof {α : Type} : Res α → Bool
  | .outOfFuel => true
  | _ => false

theorem Res.ne_oof {α : Type} {r : Res α} (h : r.isOof = false) : r ≠ .outOfFuel := by
  intro e; rw [e] at h; cases h

/-- one more unit of fuel changes no outcome other than `outOfFuel`, for the seven functions at fuel `n`,
started in a state whose current module exists -/
structure FuelMonoAll (n : Nat) : Prop where
  eval : ∀ st e env mod d, HasModule st st.current → FuelLe (evalInternal n st e env mod d) (evalInternal (n + 1) st e env mod d)
  args : ∀ st xs env mod d, HasModule st st.current → FuelLe (evalArgs n st xs env mod d) (evalArgs (n + 1) st xs env mod d)
  expand : ∀ st e env mod d ch, HasModule st st.current → FuelLe2 (expandInternal n st e env mod d ch) (expandInternal (n + 1) st e env mod d ch)
  expandArgs : ∀ st xs env mod d ch, HasModule st st.current → FuelLe2 (expandArgs n st xs env mod d ch) (expandArgs (n + 1) st xs env mod d ch)
  complete : ∀ st e env mod d, HasModule st st.current → FuelLe (expandCompletely n st e env mod d) (expandCompletely (n + 1) st e env mod d)
  native : ∀ st id args env d, HasModule st st.current → FuelLe (applyNative n st id args env d) (applyNative (n + 1) st id args env d)
  load : ∀ st c s l col d, HasModule st st.current → FuelLe (loadForms n st c s l col d) (loadForms (n + 1) st c s l col d)

theorem FuelLe.eq {α : Type} {a b : Res α × St} {r : Res α} {st' : St} (h : FuelLe a b) (ha : a = (r, st')) (hr : r ≠ .outOfFuel) :
    b = (r, st') := by
  cases h with
  | inl h => rw [ha] at h; exact absurd h hr
  | inr h => rw [h, ha]

theorem FuelLe2.eq {α : Type} {a b : (Res α × St) × Bool} {r : Res α} {st' : St} {ch' : Bool} (h : FuelLe2 a b)
    (ha : a = ((r, st'), ch')) (hr : r ≠ .outOfFuel) : b = ((r, st'), ch') := by
  cases h with
  | inl h => rw [ha] at h; exact absurd h hr
  | inr h => rw [h, ha]

namespace FuelMonoAll
variable {n : Nat} (ih : FuelMonoAll n)
include ih
theorem eval_eq {st e env mod d r st'} (h : evalInternal n st e env mod d = (r, st')) (hc : HasModule st st.current)
    (hr : r ≠ .outOfFuel) : evalInternal (n + 1) st e env mod d = (r, st') := (ih.eval st e env mod d hc).eq h hr
theorem args_eq {st xs env mod d r st'} (h : evalArgs n st xs env mod d = (r, st')) (hc : HasModule st st.current)
    (hr : r ≠ .outOfFuel) : evalArgs (n + 1) st xs env mod d = (r, st') := (ih.args st xs env mod d hc).eq h hr
theorem expand_eq {st e env mod d ch r st' ch'} (h : expandInternal n st e env mod d ch = ((r, st'), ch')) (hc : HasModule st st.current)
    (hr : r ≠ .outOfFuel) : expandInternal (n + 1) st e env mod d ch = ((r, st'), ch') := (ih.expand st e env mod d ch hc).eq h hr
theorem expandArgs_eq {st xs env mod d ch r st' ch'} (h : Pici.expandArgs n st xs env mod d ch = ((r, st'), ch')) (hc : HasModule st st.current)
    (hr : r ≠ .outOfFuel) : Pici.expandArgs (n + 1) st xs env mod d ch = ((r, st'), ch') := (ih.expandArgs st xs env mod d ch hc).eq h hr
theorem complete_eq {st e env mod d r st'} (h : expandCompletely n st e env mod d = (r, st')) (hc : HasModule st st.current)
    (hr : r ≠ .outOfFuel) : expandCompletely (n + 1) st e env mod d = (r, st') := (ih.complete st e env mod d hc).eq h hr
theorem native_eq {st id args env d r st'} (h : applyNative n st id args env d = (r, st')) (hc : HasModule st st.current)
    (hr : r ≠ .outOfFuel) : applyNative (n + 1) st id args env d = (r, st') := (ih.native st id args env d hc).eq h hr
theorem load_eq {st c s l col d r st'} (h : loadForms n st c s l col d = (r, st')) (hc : HasModule st st.current)
    (hr : r ≠ .outOfFuel) : loadForms (n + 1) st c s l col d = (r, st') := (ih.load st c s l col d hc).eq h hr
end FuelMonoAll

/-- `HasModule s s.current` for a state `s` reached from the start state through recorded calls -/
syntax "has_cur " ident ident : tactic
macro_rules
  | `(tactic| has_cur $g $hc) => `(tactic| exact Keeps.hasCurrent (by keeps_chain $g) $hc)

syntax "mono_close " ident ident ident : tactic
macro_rules
  | `(tactic| mono_close $ih $g $hc) => `(tactic| first
      | exact FuelLe.refl _
      | exact FuelLe.oof _ _
      | exact FuelLe2.refl _
      | exact FuelLe2.oof _ _ _
      | exact FuelMonoAll.eval $ih _ _ _ _ _ (by has_cur $g $hc)
      | exact FuelMonoAll.args $ih _ _ _ _ _ (by has_cur $g $hc)
      | exact FuelMonoAll.expand $ih _ _ _ _ _ _ (by has_cur $g $hc)
      | exact FuelMonoAll.expandArgs $ih _ _ _ _ _ _ (by has_cur $g $hc)
      | exact FuelMonoAll.complete $ih _ _ _ _ _ (by has_cur $g $hc)
      | exact FuelMonoAll.native $ih _ _ _ _ _ (by has_cur $g $hc)
      | exact FuelMonoAll.load $ih _ _ _ _ _ _ (by has_cur $g $hc)
      | exact FuelLe2.pair _ (FuelMonoAll.eval $ih _ _ _ _ _ (by has_cur $g $hc)))

syntax "mono_rw " ident ident ident : tactic
macro_rules
  | `(tactic| mono_rw $ih $g $hc) => `(tactic| (
      rename_i heq
      first
        | rw [FuelMonoAll.eval_eq $ih heq (by has_cur $g $hc) (Res.ne_oof rfl)]
        | rw [FuelMonoAll.args_eq $ih heq (by has_cur $g $hc) (Res.ne_oof rfl)]
        | rw [FuelMonoAll.expand_eq $ih heq (by has_cur $g $hc) (Res.ne_oof rfl)]
        | rw [FuelMonoAll.expandArgs_eq $ih heq (by has_cur $g $hc) (Res.ne_oof rfl)]
        | rw [FuelMonoAll.complete_eq $ih heq (by has_cur $g $hc) (Res.ne_oof rfl)]
        | rw [FuelMonoAll.native_eq $ih heq (by has_cur $g $hc) (Res.ne_oof rfl)]
        | rw [FuelMonoAll.load_eq $ih heq (by has_cur $g $hc) (Res.ne_oof rfl)]))

syntax "mono_steps " ident ident ident : tactic
macro_rules
  | `(tactic| mono_steps $ih $g $hc) => `(tactic| repeat' first
      | mono_close $ih $g $hc
      | (split <;> try (mono_rw $ih $g $hc; try dsimp only))
      | (dsimp only))

theorem evalArgs_mono_step {n : Nat} (ih : FuelMonoAll n) (g : GoodAll n) (st xs env mod d) (hc : HasModule st st.current) :
    FuelLe (evalArgs (n + 1) st xs env mod d) (evalArgs (n + 1 + 1) st xs env mod d) := by
  cases xs with
  | nil => rw [evalArgs, evalArgs]; exact FuelLe.refl _
  | cons x xs =>
    conv => lhs; rw [evalArgs]
    conv => rhs; rw [evalArgs]
    mono_steps ih g hc

theorem evalInternal_mono_step {n : Nat} (ih : FuelMonoAll n) (g : GoodAll n) (st e env mod d) (hc : HasModule st st.current) :
    FuelLe (evalInternal (n + 1) st e env mod d) (evalInternal (n + 1 + 1) st e env mod d) := by
  conv => lhs; rw [evalInternal]
  conv => rhs; rw [evalInternal]
  unfold arity1 arity2 arity3
  mono_steps ih g hc

theorem expandInternal_mono_step {n : Nat} (ih : FuelMonoAll n) (g : GoodAll n) (st e env mod d ch) (hc : HasModule st st.current) :
    FuelLe2 (expandInternal (n + 1) st e env mod d ch) (expandInternal (n + 1 + 1) st e env mod d ch) := by
  conv => lhs; rw [expandInternal]
  conv => rhs; rw [expandInternal]
  mono_steps ih g hc

theorem expandArgs_mono_step {n : Nat} (ih : FuelMonoAll n) (g : GoodAll n) (st xs env mod d ch) (hc : HasModule st st.current) :
    FuelLe2 (expandArgs (n + 1) st xs env mod d ch) (expandArgs (n + 1 + 1) st xs env mod d ch) := by
  cases xs with
  | nil => rw [expandArgs, expandArgs]; exact FuelLe2.refl _
  | cons x xs =>
    conv => lhs; rw [expandArgs]
    conv => rhs; rw [expandArgs]
    mono_steps ih g hc

theorem expandCompletely_mono_step {n : Nat} (ih : FuelMonoAll n) (g : GoodAll n) (st e env mod d) (hc : HasModule st st.current) :
    FuelLe (expandCompletely (n + 1) st e env mod d) (expandCompletely (n + 1 + 1) st e env mod d) := by
  conv => lhs; rw [expandCompletely]
  conv => rhs; rw [expandCompletely]
  mono_steps ih g hc

theorem loadForms_mono_step {n : Nat} (ih : FuelMonoAll n) (g : GoodAll n) (st c s l col d) (hc : HasModule st st.current) :
    FuelLe (loadForms (n + 1) st c s l col d) (loadForms (n + 1 + 1) st c s l col d) := by
  conv => lhs; rw [loadForms]
  conv => rhs; rw [loadForms]
  mono_steps ih g hc

/-- the part of `load-all` after the module of the source is defined: the forms, then the previous module is made
current again, which succeeds because it still exists -/
theorem loadAll_tail_mono {n : Nat} (ih : FuelMonoAll n) (g : GoodAll n) (st st1 : St) (input source : Val) (d : Nat)
    (hc : HasModule st st.current) (hc1 : HasModule st1 st1.current) (hmono : ∀ m, HasModule st m → HasModule st1 m) :
    FuelLe (α := Val) (match loadForms n st1 input source 1 1 d with
        | (r, st2) =>
          match st2.setCurrentModule st.current with
          | none    => (.crash cs!"load-all: the previous module no longer exists", st2)
          | some st3 =>
            match r with
            | .ok _      => (.ok (Val.symName cs!"ok"), st3)
            | .err s     => (.err s, st3)
            | .crash s   => (.crash s, st3)
            | .outOfFuel => (.outOfFuel, st3))
       (match loadForms (n + 1) st1 input source 1 1 d with
        | (r, st2) =>
          match st2.setCurrentModule st.current with
          | none    => (.crash cs!"load-all: the previous module no longer exists", st2)
          | some st3 =>
            match r with
            | .ok _      => (.ok (Val.symName cs!"ok"), st3)
            | .err s     => (.err s, st3)
            | .crash s   => (.crash s, st3)
            | .outOfFuel => (.outOfFuel, st3)) := by
  cases hl : loadForms n st1 input source 1 1 d with
  | mk r st2 =>
    have hk : Keeps' st1 st2 := by
      have := ((g.load st1 input source 1 1 d).good hc1).1
      rw [hl] at this; exact this
    have ht := loadAll_tail st st1 st2 hmono hc hk
    cases r with
    | outOfFuel => dsimp only; rw [ht.1]; exact FuelLe.oof _ _
    | ok u => rw [ih.load_eq hl hc1 (Res.ne_oof rfl)]; exact FuelLe.refl _
    | err e => rw [ih.load_eq hl hc1 (Res.ne_oof rfl)]; exact FuelLe.refl _
    | crash e => rw [ih.load_eq hl hc1 (Res.ne_oof rfl)]; exact FuelLe.refl _

theorem applyNative_simple (n : Nat) (st : St) (id : NativeId) (args : List Val) (env : Val) (d : Nat)
    (h1 : id ≠ .eval) (h2 : id ≠ .macroexpand) (h3 : id ≠ .callNativeFunction) (h4 : id ≠ .makeFunction) (h5 : id ≠ .loadAll) :
    applyNative (n + 1) st id args env d = simpleNative id args d st := by
  rw [applyNative] <;> assumption

theorem loadAll_mono_step {n : Nat} (ih : FuelMonoAll n) (g : GoodAll n) (st args env d) (hc : HasModule st st.current) :
    FuelLe (applyNative (n + 1) st .loadAll args env d) (applyNative (n + 1 + 1) st .loadAll args env d) := by
  conv => lhs; rw [applyNative]
  conv => rhs; rw [applyNative]
  unfold arity2 asString
  split
  · dsimp only
    split
    · rename_i input source _ _ _
      cases hsrc : listToString source with
      | none =>
        dsimp only
        exact loadAll_tail_mono ih g st st input source d hc hc (fun _ h => h)
      | some s =>
        dsimp only
        exact loadAll_tail_mono ih g st (st.defineModule s) input source d hc (St.hasModule_defineModule_self _ _)
          (fun m h => St.hasModule_defineModule st s m h)
    · exact FuelLe.refl _
  · exact FuelLe.refl _

theorem applyNative_mono_step {n : Nat} (ih : FuelMonoAll n) (g : GoodAll n) (st id args env d) (hc : HasModule st st.current) :
    FuelLe (applyNative (n + 1) st id args env d) (applyNative (n + 1 + 1) st id args env d) := by
  cases id
  case loadAll => exact loadAll_mono_step ih g st args env d hc
  case eval =>
    conv => lhs; rw [applyNative]
    conv => rhs; rw [applyNative]
    unfold arity1
    mono_steps ih g hc
  case macroexpand =>
    conv => lhs; rw [applyNative]
    conv => rhs; rw [applyNative]
    unfold arity1
    mono_steps ih g hc
  case callNativeFunction =>
    conv => lhs; rw [applyNative]
    conv => rhs; rw [applyNative]
    unfold arity3 asList
    mono_steps ih g hc
  case makeFunction =>
    conv => lhs; unfold applyNative
    conv => rhs; unfold applyNative
    exact FuelLe.refl _
  all_goals
    rw [applyNative_simple n, applyNative_simple (n + 1)] <;> first | exact FuelLe.refl _ | (intro h; cases h)


/-- fuel monotonicity, one unit of fuel, for all seven functions of the mutual recursion -/
theorem monoAll : ∀ n, FuelMonoAll n
  | 0 =>
    { eval := fun st e env mod d _ => by rw [evalInternal]; exact FuelLe.oof _ _
      args := fun st xs env mod d _ => by rw [evalArgs]; exact FuelLe.oof _ _
      expand := fun st e env mod d ch _ => by rw [expandInternal]; exact FuelLe2.oof _ _ _
      expandArgs := fun st xs env mod d ch _ => by rw [expandArgs]; exact FuelLe2.oof _ _ _
      complete := fun st e env mod d _ => by rw [expandCompletely]; exact FuelLe.oof _ _
      native := fun st id args env d _ => by rw [applyNative]; exact FuelLe.oof _ _
      load := fun st c s l col d _ => by rw [loadForms]; exact FuelLe.oof _ _ }
  | n + 1 =>
    have ih := monoAll n
    have g := goodAll n
    { eval := evalInternal_mono_step ih g
      args := evalArgs_mono_step ih g
      expand := expandInternal_mono_step ih g
      expandArgs := expandArgs_mono_step ih g
      complete := expandCompletely_mono_step ih g
      native := applyNative_mono_step ih g
      load := loadForms_mono_step ih g }

/-! ### the statements -/

theorem expandArgs_fuel_mono (fuel k : Nat) (st st' : St) (xs : List Val) (env : Val) (mod : Name) (d : Nat) (ch ch' : Bool)
    (r : Res (List Val)) (hc : HasModule st st.current)
    (h : expandArgs fuel st xs env mod d ch = ((r, st'), ch')) (hr : ∀ (_ : r = .outOfFuel), False) :
    expandArgs (fuel + k) st xs env mod d ch = ((r, st'), ch') := by
  induction k with
  | zero => exact h
  | succ k ih => exact (monoAll (fuel + k)).expandArgs_eq ih hc hr

theorem loadForms_fuel_mono (fuel k : Nat) (st st' : St) (cursor source : Val) (line column : Int) (d : Nat) (r : Res Unit)
    (hc : HasModule st st.current)
    (h : loadForms fuel st cursor source line column d = (r, st')) (hr : ∀ (_ : r = .outOfFuel), False) :
    loadForms (fuel + k) st cursor source line column d = (r, st') := by
  induction k with
  | zero => exact h
  | succ k ih => exact (monoAll (fuel + k)).load_eq ih hc hr

theorem evalInternal_fuel_mono (fuel k : Nat) (st st' : St) (e env : Val) (mod : Name) (d : Nat) (r : Res Val)
    (hc : HasModule st st.current)
    (h : evalInternal fuel st e env mod d = (r, st')) (hr : ∀ (_ : r = .outOfFuel), False) :
    evalInternal (fuel + k) st e env mod d = (r, st') := by
  induction k with
  | zero => exact h
  | succ k ih => exact (monoAll (fuel + k)).eval_eq ih hc hr

theorem evalArgs_fuel_mono (fuel k : Nat) (st st' : St) (xs : List Val) (env : Val) (mod : Name) (d : Nat) (r : Res (List Val))
    (hc : HasModule st st.current)
    (h : evalArgs fuel st xs env mod d = (r, st')) (hr : ∀ (_ : r = .outOfFuel), False) :
    evalArgs (fuel + k) st xs env mod d = (r, st') := by
  induction k with
  | zero => exact h
  | succ k ih => exact (monoAll (fuel + k)).args_eq ih hc hr

theorem expandInternal_fuel_mono (fuel k : Nat) (st st' : St) (e env : Val) (mod : Name) (d : Nat) (ch ch' : Bool) (r : Res Val)
    (hc : HasModule st st.current)
    (h : expandInternal fuel st e env mod d ch = ((r, st'), ch')) (hr : ∀ (_ : r = .outOfFuel), False) :
    expandInternal (fuel + k) st e env mod d ch = ((r, st'), ch') := by
  induction k with
  | zero => exact h
  | succ k ih => exact (monoAll (fuel + k)).expand_eq ih hc hr

theorem expandCompletely_fuel_mono (fuel k : Nat) (st st' : St) (e env : Val) (mod : Name) (d : Nat) (r : Res Val)
    (hc : HasModule st st.current)
    (h : expandCompletely fuel st e env mod d = (r, st')) (hr : ∀ (_ : r = .outOfFuel), False) :
    expandCompletely (fuel + k) st e env mod d = (r, st') := by
  induction k with
  | zero => exact h
  | succ k ih => exact (monoAll (fuel + k)).complete_eq ih hc hr

theorem applyNative_fuel_mono (fuel k : Nat) (st st' : St) (id : NativeId) (args : List Val) (env : Val) (d : Nat) (r : Res Val)
    (hc : HasModule st st.current)
    (h : applyNative fuel st id args env d = (r, st')) (hr : ∀ (_ : r = .outOfFuel), False) :
    applyNative (fuel + k) st id args env d = (r, st') := by
  induction k with
  | zero => exact h
  | succ k ih => exact (monoAll (fuel + k)).native_eq ih hc hr

/-! ### the hypothesis on the current module cannot be dropped -/

/-- a state whose current module `ghost` is not in the (empty) module table -/
def ghostState : St := { (default : St) with modules := [], current := cs!"ghost" }

/-- `(load-all "x" 'stdin)`: one form, the unbound symbol `x` -/
def ghostArgs : List Val := [Val.ofChars cs!"x", Val.symName cs!"stdin"]

theorem ghost_loadAll_fuel1 :
    applyNative 1 ghostState .loadAll ghostArgs .nil 0
      = (.crash cs!"load-all: the previous module no longer exists", ghostState) := by
  with_unfolding_all rfl

/-- Without `HasModule st st.current` fuel monotonicity is false.  In a state whose current module is missing from
the module table, the restoration step of `load-all` (`set_current_module(&old_module).unwrap()`) crashes regardless
of the outcome of the load, also when the load ran out of fuel: with fuel `1` the call `(load-all "x" 'stdin)` ends in
that crash with the state unchanged, with fuel `5` the form `x` has been evaluated (one more evaluator step is
counted in the final state).  Such states are unreachable from real ones: by C15 (`native_keeps_current`, here
`goodAll`) the current module of a state in which it exists keeps existing. -/
theorem fuel_mono_needs_current_module :
    ¬ (∀ (fuel k : Nat) (st st' : St) (id : NativeId) (args : List Val) (env : Val) (d : Nat) (r : Res Val)
        (_ : applyNative fuel st id args env d = (r, st')) (_ : ∀ (_ : r = .outOfFuel), False),
        applyNative (fuel + k) st id args env d = (r, st')) := by
  intro H
  have h2 := H 1 4 ghostState ghostState .loadAll ghostArgs .nil 0 _ ghost_loadAll_fuel1 (by intro h; cases h)
  have h3 : (applyNative (1 + 4) ghostState .loadAll ghostArgs .nil 0).2.steps = 1 := by decide +kernel
  rw [h2] at h3
  exact absurd h3 (by decide)

end Pici
