/-
Helper lemmas for Props/C16d: the shape (up to reader metadata) of the prelude bodies of unzip-list, let, throw, catch,
catch-all, try, apply (`Generated/Prelude.lean`) and of the stored bodies of -, / and concat
(`Generated/PreludeExpanded.lean`); `Val.strip` on lists; `RunsJ` rules for the special form `trap`, for a trap value and
for a call of `eval` on a value the expander leaves alone; what `divide`, `append` and `.` return.
-/
import PiciModel.Lemmas.PreludeSteps3
import PiciModel.Lemmas.EvalSteps

namespace Pici
open Pici.Ref

/-! ### the shape of the bodies, up to metadata -/

namespace Prelude

theorem unzip_list_params_shape : ∃ p1, unzip_list_params = .ofList [symA cs!"pairs" p1] := ⟨_, rfl⟩
theorem unzip_list_rest_eq : unzip_list_rest = .nil := rfl
/-- `S` is the form `(signal (list 'kind 'wrong-argument …))` -/
theorem unzip_list_body_shape : ∃ m1 m2 m3 m4 m5 m6 m7 m8 m9 m10 m11 m12 m13 m14 m15 m16 m17 m18 m19 m20 m21 m22 m23 m24 m25 m26 S,
    unzip_list_body =
    .ofList [symA cs!"if" m1, symA cs!"pairs" m2,
      .ofList [.ofList [symA cs!"lambda" m3, .ofList [symA cs!"fsts-snds" m4],
                 .ofList [symA cs!"cons" m5,
                   .ofList [symA cs!"cons" m6, .ofList [symA cs!"car" m7, symA cs!"pairs" m8],
                            .ofList [symA cs!"car" m9, symA cs!"fsts-snds" m10]],
                   .ofList [symA cs!"cons" m11, .ofList [symA cs!"car" m12, .ofList [symA cs!"cdr" m13, symA cs!"pairs" m14]],
                            .ofList [symA cs!"cdr" m15, symA cs!"fsts-snds" m16]]]],
               .ofList [symA cs!"unzip-list" m17,
                 .ofList [symA cs!"cdr" m18,
                   .ofList [symA cs!"if" m19, .ofList [symA cs!"cdr" m20, symA cs!"pairs" m21],
                            .ofList [symA cs!"cdr" m22, symA cs!"pairs" m23], S]]]],
      .ofList [symA cs!"cons" m24, symA cs!"nil" m25, symA cs!"nil" m26]] :=
  ⟨_, _, _, _, _, _, _, _, _, _, _, _, _, _, _, _, _, _, _, _, _, _, _, _, _, _, _, rfl⟩

theorem let_params_shape : ∃ p1 p2, let_params = .ofList [symA cs!"bindings" p1, symA cs!"body" p2] := ⟨_, _, rfl⟩
theorem let_rest_eq : let_rest = .nil := rfl
/-- `H` is the handler `(signal (list 'kind 'wrong-argument 'source 'let 'details 'incomplete-binding))` -/
theorem let_body_shape : ∃ m1 m2 m3 m4 m5 m6 m7 m8 m9 m10 m11 m12 m13 m14 m15 m16 m17 m18 m19 H, let_body =
    .ofList [
      .ofList [symA cs!"lambda" m1, .ofList [symA cs!"params-args" m2],
        .ofList [.ofList [symA cs!"lambda" m3, .ofList [symA cs!"params" m4, symA cs!"args" m5],
                   .ofList [symA cs!"cons" m6,
                            .ofList [symA cs!"list" m7, quoA cs!"lambda" m8, symA cs!"params" m9, symA cs!"body" m10],
                            symA cs!"args" m11]],
                 .ofList [symA cs!"car" m12, symA cs!"params-args" m13],
                 .ofList [symA cs!"cdr" m14, symA cs!"params-args" m15]]],
      .ofList [symA cs!"eval" m16,
        .ofList [symA cs!"trap" m17, .ofList [symA cs!"unzip-list" m18, symA cs!"bindings" m19], H]]] :=
  ⟨_, _, _, _, _, _, _, _, _, _, _, _, _, _, _, _, _, _, _, _, rfl⟩

theorem throw_params_eq : throw_params = .ofList [] := rfl
theorem throw_rest_shape : ∃ p, throw_rest = symA cs!"body" p := ⟨_, rfl⟩
theorem throw_body_shape : ∃ m1 m2 m3 m4 m5, throw_body =
    .ofList [symA cs!"list" m1, quoA cs!"signal" m2, .ofList [symA cs!"cons" m3, quoA cs!"list" m4, symA cs!"body" m5]] :=
  ⟨_, _, _, _, _, rfl⟩

theorem catch_all_params_shape : ∃ p1, catch_all_params = .ofList [symA cs!"body" p1] := ⟨_, rfl⟩
theorem catch_all_rest_eq : catch_all_rest = .nil := rfl
theorem catch_all_body_shape : ∃ m1 m2 m3 m4 m5, catch_all_body =
    .ofList [symA cs!"list" m1, quoA cs!"test" m2, symA cs!"t" m3, quoA cs!"body" m4, symA cs!"body" m5] :=
  ⟨_, _, _, _, _, rfl⟩

theorem catch_params_shape : ∃ p1 p2, catch_params = .ofList [symA cs!"kind" p1, symA cs!"body" p2] := ⟨_, _, rfl⟩
theorem catch_rest_eq : catch_rest = .nil := rfl
theorem catch_body_shape : ∃ m1 m2 m3 m4 m5 m6 m7 m8 m9 m10 m11 m12 m13 m14 m15, catch_body =
    .ofList [symA cs!"list" m1, quoA cs!"test" m2,
      .ofList [symA cs!"list" m3, quoA cs!"=" m4,
        .ofList [symA cs!"list" m5, quoA cs!"get-property-safe" m6,
                 .ofList [symA cs!"list" m7, quoA cs!"quote" m8, quoA cs!"kind" m9], quoA cs!"*trapped-signal*" m10],
        .ofList [symA cs!"list" m11, quoA cs!"quote" m12, symA cs!"kind" m13]],
      quoA cs!"body" m14, symA cs!"body" m15] :=
  ⟨_, _, _, _, _, _, _, _, _, _, _, _, _, _, _, rfl⟩

theorem apply_params_shape : ∃ p1 p2, apply_params = .ofList [symA cs!"f" p1, symA cs!"args-list" p2] := ⟨_, _, rfl⟩
theorem apply_rest_eq : apply_rest = .nil := rfl
theorem apply_body_shape : ∃ m1 m2 m3 m4 m5, apply_body =
    .ofList [symA cs!"list" m1, .ofList [symA cs!"list" m2, quoA cs!"unrest" m3, symA cs!"f" m4], symA cs!"args-list" m5] :=
  ⟨_, _, _, _, _, rfl⟩

theorem try_params_shape : ∃ p1, try_params = .ofList [symA cs!"body" p1] := ⟨_, rfl⟩
theorem try_rest_shape : ∃ p, try_rest = symA cs!"catchers" p := ⟨_, rfl⟩
theorem try_body_shape : ∃ m1 m2 m3 m4 m5 m6 m7 m8 m9 m10 m11 m12 m13 m14 m15 m16 m17 m18 m19 m20, try_body =
    .ofList [symA cs!"list" m1, quoA cs!"eval" m2,
      .ofList [symA cs!"list" m3, quoA cs!"trap" m4, symA cs!"body" m5,
        .ofList [symA cs!"cons" m6, quoA cs!"case" m7,
          .ofList [symA cs!"map" m8,
            .ofList [symA cs!"lambda" m9, .ofList [symA cs!"catcher" m10],
              .ofList [symA cs!"list" m11, .ofList [symA cs!"." m12, symA cs!"catcher" m13, quoA cs!"test" m14],
                .ofList [symA cs!"list" m15, .ofList [symA cs!"." m16, symA cs!"catcher" m17, quoA cs!"body" m18],
                         quoA cs!"*trapped-signal*" m19]]],
            symA cs!"catchers" m20]]]] :=
  ⟨_, _, _, _, _, _, _, _, _, _, _, _, _, _, _, _, _, _, _, _, rfl⟩

theorem unzip_list_fn_eq : unzip_list_fn = .fn .lambda unzip_list_rest unzip_list_params unzip_list_body .nil cs!"prelude" := rfl
theorem unzip_list_mem : (cs!"unzip-list", unzip_list_fn) ∈ table := by simp [table]

end Prelude

namespace PreludeX

theorem minus_params_eq : f__params = .ofList [] := rfl
theorem minus_rest_shape : ∃ p, f__rest = symA cs!"numbers" p := ⟨_, rfl⟩
theorem minus_body_shape : ∃ m1 m2 m3 m4 m5 m6 m7 m8 m9 m10 m11 m12 m13 m14 m15 m16 m17 m18 m19 m20 m21, f__body =
    .ofList [symA cs!"if" m1, symA cs!"numbers" m2,
      .ofList [.ofList [symA cs!"lambda" m3, .ofList [symA cs!"first" m4, symA cs!"rest" m5],
                 .ofList [symA cs!"if" m6, symA cs!"rest" m7,
                   .ofList [symA cs!"substract" m8, symA cs!"first" m9,
                            .ofList [symA cs!"foldl" m10, symA cs!"add" m11, numA 0 m12, symA cs!"rest" m13]],
                   .ofList [symA cs!"multiply" m14, numA (-1) m15, symA cs!"first" m16]]],
               .ofList [symA cs!"car" m17, symA cs!"numbers" m18], .ofList [symA cs!"cdr" m19, symA cs!"numbers" m20]],
      numA 0 m21] :=
  ⟨_, _, _, _, _, _, _, _, _, _, _, _, _, _, _, _, _, _, _, _, _, rfl⟩

theorem slash_params_eq : slash_params = .ofList [] := rfl
theorem slash_rest_shape : ∃ p, slash_rest = symA cs!"numbers" p := ⟨_, rfl⟩
theorem slash_body_shape : ∃ m1 m2 m3 m4 m5 m6 m7 m8 m9 m10 m11 m12 m13 m14 m15 m16 m17 m18 m19 m20 m21, slash_body =
    .ofList [symA cs!"if" m1, symA cs!"numbers" m2,
      .ofList [.ofList [symA cs!"lambda" m3, .ofList [symA cs!"first" m4, symA cs!"rest" m5],
                 .ofList [symA cs!"if" m6, symA cs!"rest" m7,
                   .ofList [symA cs!"divide" m8, symA cs!"first" m9,
                            .ofList [symA cs!"foldl" m10, symA cs!"multiply" m11, numA 1 m12, symA cs!"rest" m13]],
                   .ofList [symA cs!"divide" m14, numA 1 m15, symA cs!"first" m16]]],
               .ofList [symA cs!"car" m17, symA cs!"numbers" m18], .ofList [symA cs!"cdr" m19, symA cs!"numbers" m20]],
      numA 1 m21] :=
  ⟨_, _, _, _, _, _, _, _, _, _, _, _, _, _, _, _, _, _, _, _, _, rfl⟩

theorem concat_params_eq : concat_params = .ofList [] := rfl
theorem concat_rest_shape : ∃ p, concat_rest = symA cs!"lists" p := ⟨_, rfl⟩
theorem concat_body_shape : ∃ m1 m2 m3 m4 m5 m6 m7 m8 m9 m10 m11 m12 m13 m14 m15 m16 m17 m18, concat_body =
    .ofList [.ofList [symA cs!"lambda" m1, .ofList [symA cs!"f" m2], .ofList [symA cs!"f" m3, symA cs!"f" m4, symA cs!"lists" m5]],
      .ofList [symA cs!"lambda" m6, .ofList [symA cs!"f" m7, symA cs!"xs" m8],
        .ofList [symA cs!"if" m9, symA cs!"xs" m10,
          .ofList [symA cs!"append" m11, .ofList [symA cs!"car" m12, symA cs!"xs" m13],
                   .ofList [symA cs!"f" m14, symA cs!"f" m15, .ofList [symA cs!"cdr" m16, symA cs!"xs" m17]]],
          symA cs!"nil" m18]]] :=
  ⟨_, _, _, _, _, _, _, _, _, _, _, _, _, _, _, _, _, _, rfl⟩

end PreludeX

/-! ### `Val.strip` on lists -/

theorem strip_nil : Val.nil.strip = .nil := rfl
theorem strip_cons (a d : Val) : (Val.cons a d).strip = .cons a.strip d.strip := by simp [Val.strip]
theorem strip_symA (n : Name) (m : Meta) : (symA n m).strip = .symName n := by simp [symA, Val.strip, Val.symName]
theorem strip_symName (n : Name) : (Val.symName n).strip = .symName n := by simp [Val.strip, Val.symName]

theorem strip_of_isNil {t : Val} (h : t.isNil = true) : t.strip = .nil := by
  cases t with
  | nil => rfl
  | md v m =>
    cases v <;> first | rfl | (simp [Val.isNil] at h)
  | _ => simp [Val.isNil] at h

theorem strip_ofList (xs : List Val) : (Val.ofList xs).strip = Val.ofList (xs.map Val.strip) := by
  induction xs with
  | nil => rfl
  | cons x xs ih => simp [Val.ofList, strip_cons, ih]

theorem strip_foldr_cons (xs : List Val) (t : Val) (ht : t.isNil = true) :
    (xs.foldr Val.cons t).strip = (Val.ofList xs).strip := by
  induction xs with
  | nil => exact (strip_of_isNil ht).trans rfl
  | cons x xs ih => simp [Val.ofList, strip_cons, ih]

/-! ### the special form `trap`, trap values, and `eval` -/

theorem step_trapForm (n : Nat) (st st1 : St) (e env : Val) (mod : Name) (d : Nat)
    (hd : d ≤ Config.maxRecursionDepth) (hpoll : pollDebugger st = (none, st1))
    (first N H : Val) (hl : listToVec e = some [first, N, H])
    (hlam : first.isSymNamed cs!"lambda" = false) (hq : first.isSymNamed cs!"quote" = false)
    (hif : first.isSymNamed cs!"if" = false) (htrap : first.isSymNamed cs!"trap" = true) :
    evalInternal (n + 1) st e env mod d = (.ok (.trap N H), st1) := by
  rw [evalInternal, if_neg (Nat.not_lt.mpr hd), hpoll]
  simp only [hl, hlam, hq, hif, htrap, arity2]
  simp

/-- `(trap N H)` evaluates to the trap value: nothing is evaluated -/
theorem RunsJ.trapForm {st : St} (hatt : st.attached = false) {env : Val} {home : Name} {d : Nat} {m : Meta} {N H : Val}
    (hd : d ≤ Config.maxRecursionDepth) :
    RunsJ st (.ofList [symA cs!"trap" m, N, H]) env home d (.ok (.trap N H)) :=
  RunsJ.step fun j => ⟨0, 1, fun n _ =>
    step_trapForm n _ _ _ env home d hd (poll_bump st hatt j) (symA cs!"trap" m) N H rfl rfl rfl rfl rfl⟩

/-- evaluating a trap value whose normal body yields a value: that value; the handler is not evaluated -/
theorem RunsJ.trapVal {st : St} (hatt : st.attached = false) {env : Val} {home : Name} {d : Nat} {N H x : Val}
    (hd : d ≤ Config.maxRecursionDepth) (hn : RunsJ st N env home (d + 1) (.ok x)) :
    RunsJ st (.trap N H) env home d (.ok x) := by
  refine RunsJ.step fun j => ?_
  obtain ⟨F, k, hF⟩ := hn (j + 1)
  refine ⟨F, 1 + k, fun n hn' => ?_⟩
  rw [evalInternal_trap_step n _ _ (.trap N H) N H env home d (listToVec_trap N H) (get_trap N H) hd (poll_bump st hatt j),
    hF n hn']
  simp only [Nat.add_assoc]

/-- the expander leaves a trap value alone -/
theorem expandCompletely_trapVal (n : Nat) (st : St) (N H env : Val) (mod : Name) (d : Nat)
    (hd : d + 1 ≤ Config.maxRecursionDepth) :
    expandCompletely (n + 2) st (.trap N H) env mod d = (.ok (.trap N H), st) := by
  rw [expandCompletely, expandInternal, if_neg (Nat.not_lt.mpr hd)]
  simp [listToVec, Val.get]

/-- `(eval X)` where `X` runs to a value `x` that the expander leaves alone: `x` is evaluated at the depth of the call -/
theorem RunsJ.callEval {st : St} (hatt : st.attached = false) {e env : Val} {home : Name} {d : Nat} {first : Val}
    {operands : List Val} {f x : Val} {r : Res Val}
    (hd : d ≤ Config.maxRecursionDepth) (hl : listToVec e = some (first :: operands)) (hsp : isSpecial first = false)
    (hop : RunsJ st first env home (d + 1) (.ok f)) (hf : f.get = .native .eval)
    (ha : RunsArgsJ st operands env home d (.ok [x]))
    (hx : ∀ n st', expandCompletely (n + 2) st' x env home (d + 1) = (.ok x, st'))
    (hb : RunsJ st x env home d r) :
    RunsJ st e env home d r := by
  obtain ⟨hlam, hq, hif, htrap⟩ := isSpecial_false hsp
  refine RunsJ.step fun j => ?_
  obtain ⟨F1, k1, hF1⟩ := hop (j + 1)
  obtain ⟨F2, k2, hF2⟩ := ha (j + 1 + k1)
  obtain ⟨F3, k3, hF3⟩ := hb (j + 1 + k1 + k2)
  refine ⟨F1 + F2 + F3 + 2, 1 + k1 + k2 + k3, fun n hn' => ?_⟩
  obtain ⟨m, rfl⟩ : ∃ m, n = m + 2 := ⟨n - 2, by omega⟩
  rw [evalInternal, if_neg (Nat.not_lt.mpr hd), poll_bump st hatt j]
  simp only [hl, hif, hlam, hq, htrap, hF1 (m + 2) (by omega), hf, hF2 (m + 2) (by omega)]
  simp only [Bool.false_eq_true, if_false, beq_self_eq_true, if_true, arity1, hx m, hF3 (m + 2) (by omega)]
  simp only [Nat.add_assoc]

/-! ### what `divide`, `append` and `.` return -/

theorem prim_divide (a b : Val) (x y : Int) (d : Nat) (ha : a.get = .num x) (hb : b.get = .num y)
    (hx : inRange x = true) (hy : inRange y = true) (h0 : y ≠ 0) (hr : inRange (Int.tdiv x y) = true) :
    primResult .divide [a, b] d = .ok (.num (Int.tdiv x y)) := by
  simp only [primResult, simpleNative]
  rw [divide_exact a b x y _ ha hb hx hy, if_neg h0, if_pos hr]

theorem applyNative_append (fuel : Nat) (st : St) (l1 l2 env : Val) (xs ys : List Val) (d : Nat)
    (h1 : listToVec l1 = some xs) (h2 : listToVec l2 = some ys) :
    applyNative (fuel + 1) st .append [l1, l2] env d = (.ok (.ofList (xs ++ ys)), st) := by
  simp [applyNative, simpleNative, arity2, asList, h1, h2]

theorem applyNative_getProperty (fuel : Nat) (st : St) (pl key env : Val) (xs : List Val) (s : Sym) (v : Val) (d : Nat)
    (h1 : listToVec pl = some xs) (h2 : key.get = .sym s) (h3 : getPropertyInternal s xs = some v) :
    applyNative (fuel + 1) st .getProperty [pl, key] env d = (.ok v, st) := by
  simp [applyNative, simpleNative, arity2, asList, asSymbol, h1, h2, h3]

theorem listToVec_foldr_cons (xs : List Val) (t : Val) (ht : t.isNil = true) : listToVec (xs.foldr Val.cons t) = some xs := by
  induction xs with
  | nil =>
    cases t with
    | nil => rfl
    | md v m => cases v <;> first | rfl | (simp [Val.isNil] at ht)
    | _ => simp [Val.isNil] at ht
  | cons x xs ih => simp [listToVec, ih]

end Pici
