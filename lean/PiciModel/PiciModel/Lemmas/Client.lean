/-
Helper lemmas for the client-level properties `Props/C01.lean`, `Props/C03.lean`, `Props/C04.lean`:
handle counts (`incRc` / `decRc`), the three allocating entry points with everything the client invariant needs
(`allocHandle`, `symbolFor`, `uniqueSymbol`), the growth bound of one allocation, lists of slots and of global definitions.
-/
import PiciModel.Props.HeapCollect

namespace Pici.Heap

/-! ### heaps that differ only in handle counts -/

/-- `h'` is `h` up to handle counts (and global definitions) -/
structure RcOnly (h h' : Heap) : Prop where
  order     : h'.order = h.order
  firstFree : h'.firstFree = h.firstFree
  symtab    : h'.symtab = h.symtab
  size      : h'.store.size = h.store.size
  content   : ∀ b, (h'.cell b).content = (h.cell b).content

theorem RcOnly.refl (h : Heap) : RcOnly h h := ⟨rfl, rfl, rfl, rfl, fun _ => rfl⟩

theorem RcOnly.trans {h h1 h2 : Heap} (r1 : RcOnly h h1) (r2 : RcOnly h1 h2) : RcOnly h h2 :=
  ⟨r2.order.trans r1.order, r2.firstFree.trans r1.firstFree, r2.symtab.trans r1.symtab, r2.size.trans r1.size,
   fun b => (r2.content b).trans (r1.content b)⟩

theorem RcOnly.usedList {h h' : Heap} (r : RcOnly h h') : usedList h' = usedList h := by
  unfold Heap.usedList; rw [r.order, r.firstFree]

theorem RcOnly.used {h h' : Heap} (r : RcOnly h h') (a : Addr) : Used h' a ↔ Used h a := by
  unfold Used; rw [r.usedList]

theorem RcOnly.kids {h h' : Heap} (r : RcOnly h h') (a : Addr) : kids h' a = kids h a := by
  unfold Heap.kids; rw [r.content]

theorem RcOnly.setGlobals {h : Heap} (g : List (Name × Option Addr)) : RcOnly h { h with globals := g } :=
  ⟨rfl, rfl, rfl, rfl, fun _ => rfl⟩

/-- the invariant does not look at the global definitions -/
theorem inv_setGlobals {h : Heap} (hinv : Inv h) (g : List (Name × Option Addr)) : Inv { h with globals := g } :=
  ⟨hinv.nonempty, hinv.ff_le, hinv.nodup, hinv.inStore, hinv.closed, hinv.freeRc, hinv.symNodup, hinv.symSound,
   hinv.symComplete⟩

/-- the invariant, moved along a change of handle counts that leaves free cells without handles -/
theorem RcOnly.inv {h h' : Heap} (r : RcOnly h h') (hinv : Inv h)
    (hfree : ∀ a ∈ h.order.toList, ¬ Used h a → (h'.cell a).rc = 0) : Inv h' := by
  refine ⟨by rw [r.order]; exact hinv.nonempty, by rw [r.order, r.firstFree]; exact hinv.ff_le,
    by rw [r.order]; exact hinv.nodup, ?_, ?_, ?_, by rw [r.symtab]; exact hinv.symNodup, ?_, ?_⟩
  · intro a ha
    rw [r.order] at ha; rw [r.size]
    exact hinv.inStore a ha
  · intro a ha b hb
    rw [r.used] at ha ⊢
    rw [r.kids] at hb
    exact hinv.closed a ha b hb
  · intro a ha hnu
    rw [r.order] at ha
    rw [r.used] at hnu
    exact hfree a ha hnu
  · intro n a hna
    rw [r.symtab] at hna
    rw [r.used, r.content]
    exact hinv.symSound n a hna
  · intro a n o ha hc
    rw [r.used] at ha
    rw [r.content] at hc
    rw [r.symtab]
    exact hinv.symComplete a n o ha hc

/-! ### `incRc`, `decRc` -/

theorem rc_pos_lt_store {h : Heap} {a : Addr} (hp : (h.cell a).rc ≠ 0) : a < h.store.size := by
  apply Classical.byContradiction
  intro hn
  rw [cell_ge h a (Nat.le_of_not_lt hn)] at hp
  exact hp rfl

/-- the heap after dropping one handle on `a` -/
def dropRc (h : Heap) (a : Addr) : Heap :=
  { h with store := h.store.setIfInBounds a { (h.cell a) with rc := (h.cell a).rc - 1 } }

theorem decRc_eq (h : Heap) (a : Addr) (hp : (h.cell a).rc ≠ 0) : h.decRc a = some (h.dropRc a) := by
  unfold decRc dropRc
  rw [if_neg hp]

theorem dropRc_cell_self (h : Heap) (a : Addr) (ha : a < h.store.size) :
    (h.dropRc a).cell a = ⟨(h.cell a).content, (h.cell a).rc - 1⟩ := by
  simp only [cell, dropRc]
  rw [getD_set_self _ _ _ _ ha]

theorem dropRc_cell_ne (h : Heap) (a x : Addr) (hx : x ≠ a) : (h.dropRc a).cell x = h.cell x := by
  simp only [cell, dropRc]
  rw [getD_set_ne _ _ _ _ _ hx]

theorem dropRc_content (h : Heap) (a x : Addr) : ((h.dropRc a).cell x).content = (h.cell x).content := by
  by_cases hx : x = a
  · subst hx
    by_cases ha : x < h.store.size
    · rw [dropRc_cell_self h x ha]
    · simp only [cell, dropRc]
      rw [Array.setIfInBounds_eq_of_size_le (Nat.le_of_not_lt ha)]
  · rw [dropRc_cell_ne h a x hx]

theorem incRc_content' (h : Heap) (a x : Addr) : ((h.incRc a).cell x).content = (h.cell x).content := by
  by_cases ha : a < h.store.size
  · exact incRc_content h a x ha
  · simp only [cell, incRc]
    rw [Array.setIfInBounds_eq_of_size_le (Nat.le_of_not_lt ha)]

theorem rcOnly_incRc (h : Heap) (a : Addr) : RcOnly h (h.incRc a) :=
  ⟨rfl, rfl, rfl, by simp [incRc], fun b => incRc_content' h a b⟩

theorem rcOnly_dropRc (h : Heap) (a : Addr) : RcOnly h (h.dropRc a) :=
  ⟨rfl, rfl, rfl, by simp [dropRc], fun b => dropRc_content h a b⟩

theorem rcOnly_incRc? (h : Heap) (x : Option Addr) : RcOnly h (h.incRc? x) := by
  cases x with
  | none => exact RcOnly.refl h
  | some a => exact rcOnly_incRc h a

theorem incRc_globals (h : Heap) (a : Addr) : (h.incRc a).globals = h.globals := rfl
theorem dropRc_globals (h : Heap) (a : Addr) : (h.dropRc a).globals = h.globals := rfl

theorem incRc?_globals (h : Heap) (x : Option Addr) : (h.incRc? x).globals = h.globals := by
  cases x <;> rfl

/-- dropping a handle keeps the invariant (a used cell may be left without handles: it is garbage for the next collection) -/
theorem inv_dropRc (h : Heap) (hinv : Inv h) (a : Addr) : Inv (h.dropRc a) := by
  apply (rcOnly_dropRc h a).inv hinv
  intro x hx hnu
  by_cases hxa : x = a
  · subst hxa
    rw [dropRc_cell_self h x (hinv.inStore x hx)]
    show (h.cell x).rc - 1 = 0
    rw [hinv.freeRc x hx hnu]
  · rw [dropRc_cell_ne h a x hxa]
    exact hinv.freeRc x hx hnu

theorem inv_incRc? (h : Heap) (hinv : Inv h) (x : Option Addr) (hx : ∀ a, x = some a → Used h a) : Inv (h.incRc? x) := by
  cases x with
  | none => exact hinv
  | some a => exact inv_incRc h hinv a (hx a rfl)

/-- the handle count of every cell after `incRc?` -/
theorem incRc?_rc (h : Heap) (hinv : Inv h) (x : Option Addr) (hx : ∀ a, x = some a → Used h a) (b : Addr) :
    ((h.incRc? x).cell b).rc = (h.cell b).rc + (if x = some b then 1 else 0) := by
  cases x with
  | none => simp [incRc?]
  | some a =>
    by_cases hba : b = a
    · subst hba
      simp only [incRc?, if_true]
      rw [incRc_cell_self h b (used_lt_store hinv (hx b rfl))]
    · have : ¬ (some a = some b) := fun e => hba (Option.some.inj e).symm
      simp only [incRc?, if_neg this]
      rw [incRc_cell_ne h a b hba]
      rfl

/-- `decRc?` on a handle whose count is positive -/
theorem decRc?_spec (h : Heap) (hinv : Inv h) (x : Option Addr) (hx : ∀ a, x = some a → (h.cell a).rc ≠ 0) :
    ∃ h', h.decRc? x = some h' ∧ Inv h' ∧ RcOnly h h' ∧ h'.globals = h.globals ∧
      ∀ b, (h'.cell b).rc + (if x = some b then 1 else 0) = (h.cell b).rc := by
  cases x with
  | none => exact ⟨h, rfl, hinv, RcOnly.refl h, rfl, fun b => by simp⟩
  | some a =>
    have hp := hx a rfl
    refine ⟨h.dropRc a, decRc_eq h a hp, inv_dropRc h hinv a, rcOnly_dropRc h a, rfl, ?_⟩
    intro b
    by_cases hba : b = a
    · subst hba
      simp only [if_true]
      rw [dropRc_cell_self h b (rc_pos_lt_store hp)]
      show (h.cell b).rc - 1 + 1 = (h.cell b).rc
      omega
    · have : ¬ (some a = some b) := fun e => hba (Option.some.inj e).symm
      simp only [if_neg this]
      rw [dropRc_cell_ne h a b hba]
      rfl

/-! ### the number of reachable cells, and the growth of one allocation -/

/-- the number of reachable cells: the size of the used prefix right after a collection -/
def liveCount (h : Heap) : Nat :=
  match h.collectFast with
  | some hc => hc.firstFree
  | none    => 0

/-- the length of the cell vector after growing from `n` used cells -/
def growthOf (n : Nat) : Nat := n + 1 + (ratio (n + 1) Config.allocationRatioNum Config.allocationRatioDen - 1)

theorem ratio_mono {n m : Nat} (num den : Nat) (hnm : n ≤ m) : ratio n num den ≤ ratio m num den := by
  unfold ratio
  exact Nat.div_le_div_right (Nat.mul_le_mul_right _ hnm)

theorem growthOf_mono {n m : Nat} (hnm : n ≤ m) : growthOf n ≤ growthOf m := by
  unfold growthOf
  have := ratio_mono Config.allocationRatioNum Config.allocationRatioDen (show n + 1 ≤ m + 1 by omega)
  omega

theorem nodup_subset_length {α} [DecidableEq α] : ∀ (l1 l2 : List α), l1.Nodup → (∀ a ∈ l1, a ∈ l2) →
    l1.length ≤ l2.length := by
  intro l1
  induction l1 with
  | nil => intro l2 _ _; exact Nat.zero_le _
  | cons a t ih =>
    intro l2 hnd hsub
    rw [List.nodup_cons] at hnd
    have ha : a ∈ l2 := hsub a (List.mem_cons_self ..)
    have := ih (l2.erase a) hnd.2 (by
      intro b hb
      have hba : b ≠ a := by rintro rfl; exact hnd.1 hb
      exact (List.mem_erase_of_ne hba).2 (hsub b (List.mem_cons_of_mem _ hb)))
    rw [List.length_erase_of_mem ha] at this
    have hpos : 0 < l2.length := List.length_pos_of_mem ha
    simp only [List.length_cons]
    omega

theorem usedList_nodup {h : Heap} (hinv : Inv h) : (usedList h).Nodup :=
  hinv.nodup.sublist (List.take_sublist _ _)

theorem usedList_length {h : Heap} (hinv : Inv h) : (usedList h).length = h.firstFree := by
  unfold usedList
  rw [List.length_take, Array.length_toList]
  exact Nat.min_eq_left hinv.ff_le

/-- any duplicate-free list of reachable cells is at most as long as the used prefix after a collection -/
theorem liveCount_ge (h : Heap) (hinv : Inv h) (l : List Addr) (hnd : l.Nodup) (hr : ∀ a ∈ l, Reach h a) :
    l.length ≤ liveCount h := by
  obtain ⟨hc, e, ic, _, _, u, _⟩ := collectFast_spec h hinv
  unfold liveCount
  rw [e]
  show l.length ≤ hc.firstFree
  rw [← usedList_length ic]
  exact nodup_subset_length l (usedList hc) hnd (fun a ha => (u a).2 (hr a ha))

/-- one allocation lengthens the cell vector at most to the growth of the reachable set -/
theorem allocate_size (h : Heap) (hinv : Inv h) (c : Content) (forced : Bool) (h' : Heap) (a : Addr)
    (ha : h.allocate c forced = some (h', a)) :
    h'.order.size ≤ max h.order.size (growthOf (liveCount h)) := by
  obtain ⟨h2, c2, e, u⟩ := allocate_eq h hinv c forced
  rw [e] at ha
  have : h' = (h2.place c).1 := by
    have := congrArg Prod.fst (Option.some.inj ha)
    exact this.symm
  subst this
  rcases place_size h2 c with hs | ⟨hlt, hs⟩
  · rw [hs]; exact Nat.le_trans c2.size (Nat.le_max_left _ _)
  · have hfull : h2.firstFree = h2.order.size := by have := c2.inv.ff_le; omega
    have hle : h2.order.size ≤ liveCount h := by
      have := liveCount_ge h hinv (usedList h2) (usedList_nodup c2.inv) (fun b hb => u hfull b hb)
      rw [usedList_length c2.inv, hfull] at this
      exact this
    rw [hs]
    exact Nat.le_trans (growthOf_mono hle) (Nat.le_max_right _ _)

/-! ### the allocating entry points, with everything a client needs -/

/-- `h'` is `h` after allocating the cell `a` and handing out its first handle -/
structure Alloc (h h' : Heap) (a : Addr) : Prop where
  inv     : Inv h'
  fresh   : ¬ Reach h a
  used    : Used h' a
  rc      : (h'.cell a).rc = 1
  globals : h'.globals = h.globals
  cell    : ∀ b, b ≠ a → h'.cell b = h.cell b
  keeps   : ∀ b, Reach h b → Used h' b
  back    : ∀ b, Used h' b → b = a ∨ Used h b
  size    : h'.order.size ≤ max h.order.size (growthOf (liveCount h))

theorem allocHandle_alloc (h : Heap) (hinv : Inv h) (c : Content) (forced : Bool)
    (hkids : ∀ b ∈ c.children, Reach h b) (hsym : ∀ n o, c ≠ .sym (some n) o) :
    ∃ h' a, h.allocHandle c forced = some (h', a) ∧ Alloc h h' a ∧ (h'.cell a).content = c := by
  obtain ⟨h1, a, e, q1, q2, q3, q4, q5, q6, q7, q8⟩ := allocate_core h hinv c forced hkids
  have i1 : Inv h1 := by
    apply q1.toInv
    intro n o _ hc
    rw [q4] at hc
    exact (hsym n o hc).elim
  have ha : a < h1.store.size := used_lt_store i1 q3
  refine ⟨h1.incRc a, a, ?_, ⟨inv_incRc h1 i1 a q3, q2, q3, ?_, q5, ?_, q6, q8, allocate_size h hinv c forced h1 a e⟩, ?_⟩
  · unfold allocHandle
    rw [e]
  · rw [incRc_cell_self h1 a ha, q4]
  · intro b hb
    rw [incRc_cell_ne h1 a b hb]
    exact q7 b hb
  · rw [incRc_content h1 a a ha, q4]

theorem symbolFor_alloc (h : Heap) (hinv : Inv h) (n : Name) (forced : Bool) (hlk : h.symtab.lookup n = none) :
    ∃ h' a, h.symbolFor n forced = some (h', a) ∧ Alloc h h' a ∧ (h'.cell a).content = .sym (some n) (some a) := by
  have hnot : ∀ y, (n, y) ∉ h.symtab := by
    intro y hy
    have := List.lookup_eq_none_iff.1 hlk (n, y) hy
    simp at this
  have hno : ∀ a o, Used h a → (h.cell a).content ≠ .sym (some n) o := by
    intro a o ha hc
    exact hnot a (hinv.symComplete a n o ha hc)
  obtain ⟨h1, a, e, q1, q2, q3, q4, q5, q6, q7, q8⟩ :=
    allocate_core h hinv (.sym (some n) none) forced (by intro b hb; simp [Content.children] at hb)
  have ha : a < h1.store.size := q1.inStore a (used_mem_order q3)
  have hca1 : (h1.cell a).content = .sym (some n) none := by rw [q4]
  have x2 := invX_setOwn h1 a (some n) q1 q3 hca1
  have hc2 := setContent_cell_self h1 a (.sym (some n) (some a)) ha
  have hfresh : ∀ y, (n, y) ∉ (h1.setContent a (.sym (some n) (some a))).symtab := by
    intro y hy
    obtain ⟨s1, s2⟩ := q1.symSound n y hy
    have hya : y ≠ a := by
      rintro rfl
      rw [hca1] at s2
      cases s2
    rcases q8 y s1 with h0 | h0
    · exact hya h0
    · rw [q7 y hya] at s2
      exact hno y _ h0 s2
  have i3 := inv_addSym _ a n x2 q3 (by rw [hc2]) hfresh
  have i4 := inv_incRc _ i3 a q3
  refine ⟨_, a, ?_, ⟨i4, q2, q3, ?_, q5, ?_, q6, q8, allocate_size h hinv _ forced h1 a e⟩, ?_⟩
  · unfold symbolFor
    rw [hlk, e]
  · rw [incRc_cell_self _ a (by simpa [setContent] using ha)]
    show ((h1.setContent a _).cell a).rc + 1 = 1
    rw [hc2, q4]
  · intro b hba
    rw [incRc_cell_ne _ a b hba]
    show (h1.setContent a _).cell b = _
    rw [setContent_cell_ne h1 a b _ hba, q7 b hba]
  · rw [incRc_content _ a a (by simpa [setContent] using ha)]
    show ((h1.setContent a _).cell a).content = _
    rw [hc2]

theorem uniqueSymbol_alloc (h : Heap) (hinv : Inv h) (forced : Bool) :
    ∃ h' a, h.uniqueSymbol forced = some (h', a) ∧ Alloc h h' a ∧ (h'.cell a).content = .sym none (some a) ∧
      (∀ n, (n, a) ∉ h'.symtab) := by
  obtain ⟨h1, a, e, q1, q2, q3, q4, q5, q6, q7, q8⟩ :=
    allocate_core h hinv (.sym none none) forced (by intro b hb; simp [Content.children] at hb)
  have ha : a < h1.store.size := q1.inStore a (used_mem_order q3)
  have hca1 : (h1.cell a).content = .sym none none := by rw [q4]
  have x2 := invX_setOwn h1 a none q1 q3 hca1
  have hc2 := setContent_cell_self h1 a (.sym none (some a)) ha
  have i2 : Inv (h1.setContent a (.sym none (some a))) := by
    apply x2.toInv
    intro n o _ hc
    rw [hc2] at hc
    cases hc
  have i3 := inv_incRc _ i2 a q3
  have hcont : (((h1.setContent a (.sym none (some a))).incRc a).cell a).content = .sym none (some a) := by
    rw [incRc_content _ a a (by simpa [setContent] using ha), hc2]
  refine ⟨_, a, ?_, ⟨i3, q2, q3, ?_, q5, ?_, q6, q8, allocate_size h hinv _ forced h1 a e⟩, hcont, ?_⟩
  · unfold uniqueSymbol
    rw [e]
  · rw [incRc_cell_self _ a (by simpa [setContent] using ha), hc2, q4]
  · intro b hba
    rw [incRc_cell_ne _ a b hba, setContent_cell_ne h1 a b _ hba, q7 b hba]
  · intro n hn
    obtain ⟨_, s2⟩ := i3.symSound n a hn
    rw [hcont] at s2
    cases s2

/-- interning a name that is in the table: a new handle on its cell, nothing else -/
theorem symbolFor_found (h : Heap) (n : Name) (a : Addr) (forced : Bool) (hlk : h.symtab.lookup n = some a) :
    h.symbolFor n forced = some (h.incRc a, a) := by
  unfold symbolFor
  rw [hlk]

theorem lookup_mem {α β} [BEq α] [LawfulBEq α] : ∀ (l : List (α × β)) (n : α) (a : β), l.lookup n = some a → (n, a) ∈ l := by
  intro l
  induction l with
  | nil => intro n a h; cases h
  | cons p l ih =>
    intro n a h
    obtain ⟨k, v⟩ := p
    rw [List.lookup_cons] at h
    by_cases hk : n = k
    · subst hk
      simp only [beq_self_eq_true] at h
      cases h
      exact List.mem_cons_self ..
    · have : (n == k) = false := by simpa using hk
      rw [this] at h
      exact List.mem_cons_of_mem _ (ih n a h)

/-! ### the tree a cell denotes depends only on the contents of the cells reachable from it -/

theorem abs_congr (h h' : Heap) (hc : ∀ a, Reach h a → (h'.cell a).content = (h.cell a).content) :
    ∀ fuel, (∀ x : Option Addr, (∀ a, x = some a → Reach h a) → abs h' fuel x = abs h fuel x) ∧
      (∀ l : List Addr, (∀ a ∈ l, Reach h a) → absList h' fuel l = absList h fuel l) := by
  intro fuel
  induction fuel with
  | zero =>
    refine ⟨?_, ?_⟩
    · intro x _
      cases x <;> simp [abs]
    · intro l _
      cases l <;> simp [absList]
  | succ fuel ih =>
    obtain ⟨ih1, ih2⟩ := ih
    refine ⟨?_, ?_⟩
    · intro x hx
      cases x with
      | none => simp [abs]
      | some a =>
        have ha := hx a rfl
        have kid : ∀ b, b ∈ (h.cell a).content.children → Reach h b := fun b hb => Reach.step ha hb
        simp only [abs]
        rw [hc a ha]
        cases hcon : (h.cell a).content with
        | num n => rfl
        | chr c => rfl
        | cons x y =>
          rw [hcon] at kid
          simp only
          rw [ih1 x (fun b hb => kid b (by simp [Content.children, hb])),
              ih1 y (fun b hb => kid b (by simp [Content.children, hb]))]
        | sym name own => cases name <;> rfl
        | trap x y =>
          rw [hcon] at kid
          simp only
          rw [ih1 x (fun b hb => kid b (by simp [Content.children, hb])),
              ih1 y (fun b hb => kid b (by simp [Content.children, hb]))]
        | md v m =>
          rw [hcon] at kid
          simp only
          rw [ih1 v (fun b hb => kid b (by simp [Content.children, hb]))]
        | fn k r ps b e m =>
          rw [hcon] at kid
          simp only
          have hb := ih1 b (fun c hc' => kid c (by simp [Content.children, hc']))
          have he := ih1 e (fun c hc' => kid c (by simp [Content.children, hc']))
          have hps : ∀ c ∈ ps, Reach h c := fun c hc' => kid c (by simp [Content.children, hc'])
          rw [hb, he, ih2 ps hps]
          cases hrev : ps.reverse with
          | nil => rfl
          | cons last initRev =>
            have hmem : ∀ c, c ∈ last :: initRev → c ∈ ps := by
              intro c hc'; rw [← hrev] at hc'; exact List.mem_reverse.1 hc'
            simp only
            rw [ih1 (some last) (fun c hc' => by cases hc'; exact hps _ (hmem _ (List.mem_cons_self ..))),
                ih2 initRev.reverse (fun c hc' => hps c (hmem c (List.mem_cons_of_mem _ (List.mem_reverse.1 hc'))))]
    · intro l hl
      cases l with
      | nil => simp [absList]
      | cons p ps =>
        simp only [absList]
        rw [ih1 (some p) (fun a e => by cases e; exact hl _ (List.mem_cons_self ..)),
            ih2 ps (fun a ha => hl a (List.mem_cons_of_mem _ ha))]

end Pici.Heap

namespace Pici
open Pici.Heap HeapState

/-! ### lists of slots -/

theorem count_setSlotList (w : Slot) (hw : w ≠ none) : ∀ (i : Nat) (l : List Slot) (v : Slot),
    (setSlotList l i v).count w + (if l[i]? = some w then 1 else 0) = l.count w + (if v = w then 1 else 0) := by
  have hnw : ((none : Slot) == w) = false := by
    cases w with
    | none => exact (hw rfl).elim
    | some _ => rfl
  intro i
  induction i with
  | zero =>
    intro l v
    cases l with
    | nil => simp [setSlotList, List.count_cons]
    | cons x t =>
      simp only [setSlotList, List.count_cons, List.getElem?_cons_zero, Option.some.injEq, beq_iff_eq]
      omega
  | succ i ih =>
    intro l v
    cases l with
    | nil =>
      have := ih [] v
      simp only [setSlotList, List.count_cons, hnw, List.getElem?_nil] at this ⊢
      simpa using this
    | cons x t =>
      have := ih t v
      simp only [setSlotList, List.count_cons, List.getElem?_cons_succ]
      omega

theorem getElem?_setSlotList : ∀ (i : Nat) (l : List Slot) (v : Slot), (setSlotList l i v)[i]? = some v := by
  intro i
  induction i with
  | zero => intro l v; cases l <;> simp [setSlotList]
  | succ i ih => intro l v; cases l <;> simp [setSlotList, ih]

/-! ### global definitions -/

abbrev Globals := List (Name × Option Addr)

def gcount (g : Globals) (b : Addr) : Nat := (g.map (·.2)).count (some b)

theorem gcount_cons (k : Name) (v : Option Addr) (t : Globals) (b : Addr) :
    gcount ((k, v) :: t) b = gcount t b + (if v = some b then 1 else 0) := by
  simp [gcount, List.count_cons]

theorem gcount_append (g1 g2 : Globals) (b : Addr) : gcount (g1 ++ g2) b = gcount g1 b + gcount g2 b := by
  simp [gcount, List.count_append]

def redefine (name : Name) (x : Option Addr) (g : Globals) : Globals :=
  g.map fun (n, v) => if n == name then (n, x) else (n, v)

theorem redefine_keys (name : Name) (x : Option Addr) (g : Globals) :
    (redefine name x g).map (·.1) = g.map (·.1) := by
  induction g with
  | nil => rfl
  | cons p t ih =>
    obtain ⟨k, v⟩ := p
    simp only [redefine, List.map_cons] at ih ⊢
    rw [ih]
    split <;> rfl

theorem redefine_absent (name : Name) (x : Option Addr) (g : Globals) (hn : name ∉ g.map (·.1)) :
    redefine name x g = g := by
  induction g with
  | nil => rfl
  | cons p t ih =>
    obtain ⟨k, v⟩ := p
    simp only [List.map_cons, List.mem_cons, not_or] at hn
    have hk : (k == name) = false := by simpa using fun e => hn.1 e.symm
    simp only [redefine, List.map_cons, hk] at ih ⊢
    rw [ih hn.2]
    rfl

theorem filter_absent (name : Name) (g : Globals) (hn : name ∉ g.map (·.1)) :
    g.filter (·.1 != name) = g := by
  rw [List.filter_eq_self]
  intro p hp
  have : p.1 ≠ name := by
    rintro rfl
    exact hn (List.mem_map.2 ⟨p, hp, rfl⟩)
  simpa using this

theorem gcount_redefine (name : Name) (x : Option Addr) (b : Addr) : ∀ (g : Globals) (v : Option Addr),
    (g.map (·.1)).Nodup → g.lookup name = some v →
    gcount (redefine name x g) b + (if v = some b then 1 else 0) = gcount g b + (if x = some b then 1 else 0) := by
  intro g
  induction g with
  | nil => intro v _ h; cases h
  | cons p t ih =>
    intro v hnd hl
    obtain ⟨k, w⟩ := p
    simp only [List.map_cons, List.nodup_cons] at hnd
    rw [List.lookup_cons] at hl
    by_cases hk : name = k
    · subst hk
      simp only [beq_self_eq_true, Option.some.injEq] at hl
      subst hl
      have : redefine name x ((name, w) :: t) = (name, x) :: t := by
        have := redefine_absent name x t hnd.1
        simp only [redefine, List.map_cons, beq_self_eq_true, if_true] at this ⊢
        rw [this]
      rw [this, gcount_cons, gcount_cons]
      omega
    · have hk1 : (name == k) = false := by simpa using hk
      have hk2 : (k == name) = false := by simpa using fun e => hk (Eq.symm e)
      rw [hk1] at hl
      have := ih v hnd.2 hl
      have e : redefine name x ((k, w) :: t) = (k, w) :: redefine name x t := by
        simp only [redefine, List.map_cons, hk2]
        rfl
      rw [e, gcount_cons, gcount_cons]
      omega

theorem gcount_remove (name : Name) (b : Addr) : ∀ (g : Globals) (v : Option Addr),
    (g.map (·.1)).Nodup → g.lookup name = some v →
    gcount (g.filter (·.1 != name)) b + (if v = some b then 1 else 0) = gcount g b := by
  intro g
  induction g with
  | nil => intro v _ h; cases h
  | cons p t ih =>
    intro v hnd hl
    obtain ⟨k, w⟩ := p
    simp only [List.map_cons, List.nodup_cons] at hnd
    rw [List.lookup_cons] at hl
    by_cases hk : name = k
    · subst hk
      simp only [beq_self_eq_true, Option.some.injEq] at hl
      subst hl
      have : ((name, w) :: t).filter (·.1 != name) = t := by
        rw [List.filter_cons]
        simp only [bne_self_eq_false, Bool.false_eq_true, if_false]
        exact filter_absent name t hnd.1
      rw [this, gcount_cons]
    · have hk1 : (name == k) = false := by simpa using hk
      have hk2 : (k != name) = true := by simpa using fun e => hk (Eq.symm e)
      rw [hk1] at hl
      have := ih v hnd.2 hl
      have e : ((k, w) :: t).filter (·.1 != name) = (k, w) :: t.filter (·.1 != name) := by
        rw [List.filter_cons]
        simp only [hk2, if_true]
      rw [e, gcount_cons, gcount_cons]
      omega

theorem lookup_none_absent (name : Name) (g : Globals) (h : g.lookup name = none) : name ∉ g.map (·.1) := by
  intro hm
  obtain ⟨p, hp, e⟩ := List.mem_map.1 hm
  have := List.lookup_eq_none_iff.1 h p hp
  simp [e] at this

end Pici
