/-
Helper lemmas for Props/C20d, part 2: `debug-list` when a sub-run of `debug-eval-internal` signals — the local function
`highlight-and-debug` hands the signal on; the `if` dispatch (condition, chosen branch); an application: an element of the
form signals (the `map` over the elements ends), the body of the called closure signals, the native signals.
Generalised copies of the lemmas of `Lemmas/DebuggerList.lean`, `Lemmas/DebuggerApp.lean` and `Lemmas/DebuggerRest.lean`.
-/
import PiciModel.Lemmas.DebuggerSignals

namespace Pici.Dbg
open Pici Pici.Ref Pici.DebuggerX Pici.C16

section
variable {st : St}

/-! ### `highlight-and-debug` with any outcome -/

/-- `HadSpec` for any outcome of the run of `debug-eval-internal` -/
def HadSpecR (st : St) (clo : Val → Val) : Prop :=
  ∀ (q1 q2 q3 q4 : Meta) (e env mv sv x iv : Val) (r : Res Val) (D : Nat), sv.isNil = true →
    D + 2 ≤ Config.maxRecursionDepth → DeiRunsR st env mv D x r →
    AppliesR st (clo (env4 q1 q2 q3 q4 e env mv sv)) [x, iv] r D

theorem HadSpecR.toHadSpec {clo : Val → Val} (h : HadSpecR st clo) : HadSpec st clo :=
  fun q1 q2 q3 q4 e env mv sv x iv v D hsv hd hdei => h q1 q2 q3 q4 e env mv sv x iv (.ok v) D hsv hd hdei

theorem had_spec_r (hl : DLoaded st) {hadE : Val} (hh : IsHad hadE) :
    ∃ clo : Val → Val, (∀ E d, d ≤ Config.maxRecursionDepth →
      Eval (C16.globalsOf st) E cs!"debugger" d hadE (.ok (clo E))) ∧ HadSpecR st clo := by
  obtain ⟨m1, m2, m3, m4, m5, m6, m7, m8, m9, m10, os, rfl⟩ := hh
  obtain ⟨p1, p2, p3, p4, hq⟩ := debug_eval_internal_params_shape
  obtain ⟨wf, hwf, hwfg⟩ := hl.debugger _ _ debug_eval_internal_mem
  obtain ⟨wn, hwn, hwnp⟩ := hl.nilD
  have hs := hl.sees
  refine ⟨fun E => .fn .lambda .nil (.ofList [symA cs!"x" m2, symA cs!"i" m3])
    (.ofList [symA cs!"if" m4, symA cs!"step-in" m5, os, .ofList [symA cs!"debug-eval-internal" m6,
      symA cs!"x" m7, symA cs!"env" m8, symA cs!"env-module" m9, symA cs!"nil" m10]]) E cs!"debugger", ?_, ?_⟩
  · intro E d hd
    exact makeFunction_plain [symA cs!"x" m2, symA cs!"i" m3] _ E cs!"debugger" rfl ▸ ev_lambda hd
  · intro q1 q2 q3 q4 e env mv sv x iv r D hsv hd hdei e' env' home first operands hlv hsp hmeta hop hargs
    refine RunsJ.callClosure hl.detached (by omega) hlv hsp hop rfl hargs (by rw [hmeta]; exact pair2 _ _ _ _ _ _) ?_
    have hE : ∀ n, lookupEnv (.named n) (Val.cons (.cons (symA cs!"i" m3) iv) (.cons (.cons (symA cs!"x" m2) x)
        (env4 q1 q2 q3 q4 e env mv sv))) =
        lookupEnv (.named n) (bindN cs!"i" m3 iv (bindN cs!"x" m2 x (env4 q1 q2 q3 q4 e env mv sv))) := fun _ => rfl
    refine RunsJ.ifFalse hl.detached (by omega) (RunsJ.loc hs (by omega) (by rw [hE]; lke)) hsv ?_
    exact RunsJ.callClosure hl.detached (by omega) (listToVec_ofList _) rfl
      (RunsJ.glob hs (by omega) (by rw [hE]; lke) hwf) (hwfg.trans debug_eval_internal_fn_eq)
      (RunsArgsJ.cons (RunsJ.loc hs (by omega) (by rw [hE]; lke)) (RunsArgsJ.three (RunsJ.loc hs (by omega) (by rw [hE]; lke))
        (RunsJ.loc hs (by omega) (by rw [hE]; lke)) (RunsJ.glob hs (by omega) (by rw [hE]; lke) hwn)))
      (by rw [hq, debug_eval_internal_rest_eq]; exact pair4 _ _ _ _ _ _ _ _ _ _) (hdei p1 p2 p3 p4 wn hwnp)

theorem dl_to_ifs_r (hl : DLoaded st) {body : Val} (hb : IsDebugListBody body) :
    ∃ (ifs : Val) (clo : Val → Val), IsIfs ifs ∧ HadSpecR st clo ∧
      ∀ (q1 q2 q3 q4 : Meta) (e env mv sv first dd : Val) (D : Nat) (r : Res Val), e.get = .cons first dd →
        D + 3 ≤ Config.maxRecursionDepth →
        (∀ a b c, RunsJ st ifs (dlEnv a b c first dd (clo (env4 q1 q2 q3 q4 e env mv sv)) (env4 q1 q2 q3 q4 e env mv sv))
          cs!"debugger" D r) →
        RunsJ st body (env4 q1 q2 q3 q4 e env mv sv) cs!"debugger" D r := by
  obtain ⟨m1, m2, m3, m4, m5, m6, m7, m8, ifs, hadE, rfl, hifs, hhad⟩ := hb
  obtain ⟨clo, hclo, hspec⟩ := had_spec_r hl hhad
  refine ⟨ifs, clo, hifs, hspec, ?_⟩
  intro q1 q2 q3 q4 e env mv sv first dd D r he hd hrun
  have hs := hl.sees
  refine RunsJ.letForm hs (by omega) rfl
    (RunsArgsJ.of_evalArgs hs (evs_three (ev_carVar hl (by omega) (by lke) (by lke) he)
      (ev_cdrVar hl (by omega) (by lke) (by lke) he) (hclo _ _ (by omega)))) (pair3 _ _ _ _ _ _ _ _) (hrun m2 m3 m4)

/-- a non-empty list whose head is not a character, when the `case` on the operator in `debug-list` signals -/
theorem dei_list_err (hl : DLoaded st) :
    ∃ (ifs : Val) (clo : Val → Val), IsIfs ifs ∧ HadSpecR st clo ∧
      ∀ (e first dd : Val) (operands : List Val) (env mv : Val) (d : Nat) (s : Val),
        listToVec e = some (first :: operands) → first.getType ≠ .character → e.get = .cons first dd →
        d + 5 ≤ Config.maxRecursionDepth → (s = .nil ∨ s.isNil = false) →
        (∀ sv, sv.isNil = true → ∀ a b c q1 q2 q3 q4,
          RunsJ st ifs (dlEnv a b c first dd (clo (env4 q1 q2 q3 q4 e env mv sv)) (env4 q1 q2 q3 q4 e env mv sv))
            cs!"debugger" (d + 2) (.err s)) →
        DeiRunsR st env mv d e (.err s) := by
  obtain ⟨cases, hcases, hwrap⟩ := dei_to_cases_err hl debug_eval_internal_body_shapeH
  obtain ⟨ifs, clo, hifs, hspec, hdl⟩ := dl_to_ifs_r hl debug_list_body_shape
  refine ⟨ifs, clo, hifs, hspec, ?_⟩
  intro e first dd operands env mv d s hlv hc he hd hgood hrun p1 p2 p3 p4 sv hsv
  exact hwrap p1 p2 p3 p4 e env mv sv _ d s hsv hd hgood (fun dd' st' => typeOf_list st' dd' e first operands hlv hc)
    (fun a g => cases_list hl hcases a g p1 p2 p3 p4 e env mv sv (d + 2) _ (by omega)
      (fun q1 q2 q3 q4 => hdl q1 q2 q3 q4 e env mv sv first dd (d + 2) _ he (by omega)
        (fun a' b' c' => hrun sv hsv a' b' c' q1 q2 q3 q4)))

/-! ### `if` -/

/-- the condition signals -/
theorem if_branch_cond_err (hl : DLoaded st) {ib : Val} (hib : IsIfBranch ib) {clo : Val → Val} (hspec : HadSpecR st clo)
    (a b c q1 q2 q3 q4 : Meta) (first dd e env mv sv c' t o d2 d3 d4 s : Val) (D : Nat)
    (hsv : sv.isNil = true) (hd : D + 4 ≤ Config.maxRecursionDepth)
    (hdd : dd.get = .cons c' d2) (hd2 : d2.get = .cons t d3) (hd3 : d3.get = .cons o d4)
    (hc : DeiRunsR st env mv (D + 1) c' (.err s)) :
    RunsJ st ib (dlEnv a b c first dd (clo (env4 q1 q2 q3 q4 e env mv sv)) (env4 q1 q2 q3 q4 e env mv sv))
      cs!"debugger" D (.err s) := by
  obtain ⟨m1, m2, m3, m4, m5, m6, m7, m8, m9, m10, m11, m12, m13, m14, m15, m16, m17, m18, m19, m20, m21, m22, m23, rfl⟩ := hib
  have hs := hl.sees
  refine RunsJ.letForm hs (by omega) rfl (RunsArgsJ.of_evalArgs hs (evs_three
    (ev_carVar hl (by omega) (by lke) (by lke) hdd)
    (ev_carOf hl (by omega) (by lke) (ev_cdrVar hl (by omega) (by lke) (by lke) hdd) hd2)
    (ev_carOf hl (by omega) (by lke) (ev_cdrOf hl (by omega) (by lke) (ev_cdrVar hl (by omega) (by lke) (by lke) hdd) hd2) hd3)))
    (pair3 _ _ _ _ _ _ _ _) ?_
  have hE : ∀ n, lookupEnv (.named n) (Val.cons (.cons (symA cs!"otherwise" m4) o) (.cons (.cons (symA cs!"then" m3) t)
      (.cons (.cons (symA cs!"condition" m2) c')
        (dlEnv a b c first dd (clo (env4 q1 q2 q3 q4 e env mv sv)) (env4 q1 q2 q3 q4 e env mv sv))))) =
      lookupEnv (.named n) (bindN cs!"otherwise" m4 o (bindN cs!"then" m3 t (bindN cs!"condition" m2 c'
        (dlEnv a b c first dd (clo (env4 q1 q2 q3 q4 e env mv sv)) (env4 q1 q2 q3 q4 e env mv sv))))) := fun _ => rfl
  exact RunsJ.ifErr hl.detached (first := symA cs!"if" m5) (by omega) rfl rfl rfl rfl
    (hspec q1 q2 q3 q4 e env mv sv c' (numA 1 m8) _ (D + 1) hsv (by omega) hc _ _ cs!"debugger" _ _
      (listToVec_ofList _) rfl rfl (RunsJ.loc hs (by omega) (by rw [hE]; lke))
      (RunsArgsJ.two (RunsJ.loc hs (by omega) (by rw [hE]; lke)) (RunsJ.of_eval hs (ev_num (by omega)))))

/-- the condition has a value, the chosen branch any outcome -/
theorem if_branch_r (hl : DLoaded st) {ib : Val} (hib : IsIfBranch ib) {clo : Val → Val} (hspec : HadSpecR st clo)
    (a b c q1 q2 q3 q4 : Meta) (first dd e env mv sv c' t o d2 d3 d4 cv : Val) (r : Res Val) (D : Nat)
    (hsv : sv.isNil = true) (hd : D + 4 ≤ Config.maxRecursionDepth)
    (hdd : dd.get = .cons c' d2) (hd2 : d2.get = .cons t d3) (hd3 : d3.get = .cons o d4)
    (hc : DeiRunsR st env mv (D + 1) c' (.ok cv))
    (hb : DeiRunsR st env mv D (if !cv.isNil then t else o) r) :
    RunsJ st ib (dlEnv a b c first dd (clo (env4 q1 q2 q3 q4 e env mv sv)) (env4 q1 q2 q3 q4 e env mv sv))
      cs!"debugger" D r := by
  obtain ⟨m1, m2, m3, m4, m5, m6, m7, m8, m9, m10, m11, m12, m13, m14, m15, m16, m17, m18, m19, m20, m21, m22, m23, rfl⟩ := hib
  have hs := hl.sees
  refine RunsJ.letForm hs (by omega) rfl (RunsArgsJ.of_evalArgs hs (evs_three
    (ev_carVar hl (by omega) (by lke) (by lke) hdd)
    (ev_carOf hl (by omega) (by lke) (ev_cdrVar hl (by omega) (by lke) (by lke) hdd) hd2)
    (ev_carOf hl (by omega) (by lke) (ev_cdrOf hl (by omega) (by lke) (ev_cdrVar hl (by omega) (by lke) (by lke) hdd) hd2) hd3)))
    (pair3 _ _ _ _ _ _ _ _) ?_
  have hE : ∀ n, lookupEnv (.named n) (Val.cons (.cons (symA cs!"otherwise" m4) o) (.cons (.cons (symA cs!"then" m3) t)
      (.cons (.cons (symA cs!"condition" m2) c')
        (dlEnv a b c first dd (clo (env4 q1 q2 q3 q4 e env mv sv)) (env4 q1 q2 q3 q4 e env mv sv))))) =
      lookupEnv (.named n) (bindN cs!"otherwise" m4 o (bindN cs!"then" m3 t (bindN cs!"condition" m2 c'
        (dlEnv a b c first dd (clo (env4 q1 q2 q3 q4 e env mv sv)) (env4 q1 q2 q3 q4 e env mv sv))))) := fun _ => rfl
  refine RunsJ.ifOk hl.detached (first := symA cs!"if" m5) (by omega) rfl rfl rfl rfl
    (hspec q1 q2 q3 q4 e env mv sv c' (numA 1 m8) _ (D + 1) hsv (by omega) hc _ _ cs!"debugger" _ _
      (listToVec_ofList _) rfl rfl (RunsJ.loc hs (by omega) (by rw [hE]; lke))
      (RunsArgsJ.two (RunsJ.loc hs (by omega) (by rw [hE]; lke)) (RunsJ.of_eval hs (ev_num (by omega))))) ?_
  cases hcv : cv.isNil
  · simp only [hcv, Bool.not_false, if_true] at hb ⊢
    exact hspec q1 q2 q3 q4 e env mv sv t (numA 2 m11) _ D hsv (by omega) hb _ _ cs!"debugger" _ _
      (listToVec_ofList _) rfl rfl (RunsJ.loc hs (by omega) (by rw [hE]; lke))
      (RunsArgsJ.two (RunsJ.loc hs (by omega) (by rw [hE]; lke)) (RunsJ.of_eval hs (ev_num (by omega))))
  · simp only [hcv, Bool.not_true, Bool.false_eq_true, if_false] at hb ⊢
    exact hspec q1 q2 q3 q4 e env mv sv o (numA 3 m14) _ D hsv (by omega) hb _ _ cs!"debugger" _ _
      (listToVec_ofList _) rfl rfl (RunsJ.loc hs (by omega) (by rw [hE]; lke))
      (RunsArgsJ.two (RunsJ.loc hs (by omega) (by rw [hE]; lke)) (RunsJ.of_eval hs (ev_num (by omega))))

/-! ### an element of an application signals -/

/-- `(map (lambda (xi) (highlight-and-debug (car xi) (cdr xi))) (enumerate expr))` when the run for one element signals,
the runs for the elements before it having values -/
theorem map_elements_err (hl : DLoaded st) {clo : Val → Val} (hspec : HadSpecR st clo)
    (a b c q1 q2 q3 q4 : Meta) (first dd e env mv sv : Val) (pre : List Val) (x0 : Val) (post ys : List Val) (s : Val)
    (D : Nat) (m3 m4 m5 m6 m7 m8 m9 m10 m11 m12 : Meta)
    (hsv : sv.isNil = true) (hd : D + 17 ≤ Config.maxRecursionDepth) (hlv : listToVec e = some (pre ++ x0 :: post))
    (hlen : ((pre ++ x0 :: post).length : Int) ≤ i64Max)
    (hall : MapsVia (DeiRuns st env mv (D + 4)) pre ys) (herr : DeiRunsR st env mv (D + 4) x0 (.err s)) :
    RunsJ st (.ofList [symA cs!"map" m3, .ofList [symA cs!"lambda" m4, .ofList [symA cs!"xi" m5],
        .ofList [symA cs!"highlight-and-debug" m6, .ofList [symA cs!"car" m7, symA cs!"xi" m8],
          .ofList [symA cs!"cdr" m9, symA cs!"xi" m10]]], .ofList [symA cs!"enumerate" m11, symA cs!"expr" m12]])
      (dlEnv a b c first dd (clo (env4 q1 q2 q3 q4 e env mv sv)) (env4 q1 q2 q3 q4 e env mv sv)) cs!"debugger" (D + 1)
      (.err s) := by
  have hs := hl.sees
  obtain ⟨tail, htail, htailp⟩ := hl.base.nil
  obtain ⟨wmap, hwmap, hwmapg⟩ := hl.preludeD _ _ Prelude.map_mem
  obtain ⟨wenum, hwenum, hwenumg⟩ := hl.preludeD _ _ Prelude.enumerate_mem
  obtain ⟨pe, hpe⟩ := Prelude.enumerate_params_shape
  obtain ⟨pm1, pm2, hpm⟩ := Prelude.map_params_shape
  -- the closure `(lambda (xi) …)`
  let Edl := dlEnv a b c first dd (clo (env4 q1 q2 q3 q4 e env mv sv)) (env4 q1 q2 q3 q4 e env mv sv)
  let F : Val := .fn .lambda .nil (.ofList [symA cs!"xi" m5]) (.ofList [symA cs!"highlight-and-debug" m6,
    .ofList [symA cs!"car" m7, symA cs!"xi" m8], .ofList [symA cs!"cdr" m9, symA cs!"xi" m10]]) Edl cs!"debugger"
  have happR : ∀ x i r, DeiRunsR st env mv (D + 4) x r → AppliesR st F [Val.cons x i] r (D + 1 + 1 + 1 + 1) := by
    intro x i r hR e' env' home first' operands' hlv' hsp hmeta hop hargs
    refine RunsJ.callClosure hl.detached (by omega) hlv' hsp hop rfl hargs (by rw [hmeta]; exact pair1 _ _ _ _) ?_
    have hE : ∀ n, lookupEnv (.named n) (Val.cons (.cons (symA cs!"xi" m5) (.cons x i)) Edl) =
        lookupEnv (.named n) (bindN cs!"xi" m5 (.cons x i) Edl) := fun _ => rfl
    exact hspec q1 q2 q3 q4 e env mv sv x i r (D + 1 + 1 + 1 + 1) hsv (by omega) hR _ _ cs!"debugger" _ _
      (listToVec_ofList _) rfl rfl (RunsJ.loc hs (by omega) (by rw [hE]; simp only [Edl]; lke))
      (RunsArgsJ.of_evalArgs hs (evs_two
        (ev_carVar (a := x) (b := i) hl (by omega) (by rw [hE]; simp only [Edl]; lke) (by rw [hE]; simp only [Edl]; lke) rfl)
        (ev_cdrVar (a := x) (b := i) hl (by omega) (by rw [hE]; simp only [Edl]; lke) (by rw [hE]; simp only [Edl]; lke) rfl)))
  have happ : ∀ p y, (∃ x i, p = Val.cons x i ∧ DeiRuns st env mv (D + 4) x y) → Applies st F [p] y (D + 1 + 1 + 1 + 1) := by
    rintro p y ⟨x, i, rfl, hR⟩
    exact happR x i (.ok y) hR
  -- `(enumerate expr)`
  have hpairE : pairParamsAndArgs Prelude.enumerate_rest Prelude.enumerate_params .nil none [e] =
      .ok (.cons (.cons (symA cs!"things" pe) e) .nil) := by
    rw [hpe, Prelude.enumerate_rest_eq, pair1]
  have henum : RunsJ st (.ofList [symA cs!"enumerate" m11, symA cs!"expr" m12]) Edl cs!"debugger" (D + 1 + 1)
      (.ok ((List.zipWith Val.cons (pre ++ x0 :: post) (indices (pre ++ x0 :: post).length)).foldr Val.cons tail)) :=
    RunsJ.callClosure hl.detached (by omega) (listToVec_ofList _) rfl
      (RunsJ.glob hs (by omega) (by simp only [Edl]; lke) hwenum) (hwenumg.trans Prelude.enumerate_fn_eq)
      (RunsArgsJ.one (RunsJ.loc hs (by omega) (by simp only [Edl]; lke))) hpairE
      (enumerate_runsL hl.base _ e hlv _ (D + 1 + 1) hlen (by omega) tail htail hpairE)
  obtain ⟨i0, is', hzip⟩ := zipWith_append_cons Val.cons x0 post pre (indices (pre ++ x0 :: post).length)
    (by simp [indices])
  rw [hzip] at henum
  -- `(map … …)`
  have hpairM : pairParamsAndArgs Prelude.map_rest Prelude.map_params .nil none
      [F, (List.zipWith Val.cons pre (indices (pre ++ x0 :: post).length) ++
        Val.cons x0 i0 :: List.zipWith Val.cons post is').foldr Val.cons tail] =
      .ok (.cons (.cons (symA cs!"things" pm2) ((List.zipWith Val.cons pre (indices (pre ++ x0 :: post).length) ++
        Val.cons x0 i0 :: List.zipWith Val.cons post is').foldr Val.cons tail))
        (.cons (.cons (symA cs!"f" pm1) F) .nil)) := by
    rw [hpm, Prelude.map_rest_eq, pair2]
  have hmapped := mapsVia_zip hall (indices (pre ++ x0 :: post).length) (by simp [indices])
  exact RunsJ.callClosure hl.detached (by omega) (listToVec_ofList _) rfl
    (RunsJ.glob hs (by omega) (by lke) hwmap) (hwmapg.trans Prelude.map_fn_eq)
    (RunsArgsJ.two (RunsJ.of_eval hs (makeFunction_plain [symA cs!"xi" m5] _ Edl cs!"debugger" rfl ▸ ev_lambda (by omega)))
      henum) hpairM
    (map_via_err hl.base F (D + 1) (by omega) _ happ tail (Val.cons x0 i0) _ s (happR x0 i0 _ herr) _ ys hmapped _ hpairM)

/-- `debug-list` on an application one of whose elements signals, the elements before it having values -/
theorem app_elem_err (hl : DLoaded st) {ab : Val} (hab : IsAppBranch ab) {clo : Val → Val} (hspec : HadSpecR st clo)
    (a b c q1 q2 q3 q4 : Meta) (first dd e env mv sv : Val) (pre : List Val) (x0 : Val) (post ys : List Val) (s : Val)
    (D : Nat) (hsv : sv.isNil = true) (hd : D + 17 ≤ Config.maxRecursionDepth)
    (hlv : listToVec e = some (pre ++ x0 :: post)) (hlen : ((pre ++ x0 :: post).length : Int) ≤ i64Max)
    (hall : MapsVia (DeiRuns st env mv (D + 4)) pre ys) (herr : DeiRunsR st env mv (D + 4) x0 (.err s)) :
    RunsJ st ab (dlEnv a b c first dd (clo (env4 q1 q2 q3 q4 e env mv sv)) (env4 q1 q2 q3 q4 e env mv sv))
      cs!"debugger" D (.err s) := by
  obtain ⟨m1, m2, m3, m4, m5, m6, m7, m8, m9, m10, m11, m12, app2, rfl, happ2⟩ := hab
  exact RunsJ.letFormErr hl.sees (by omega) rfl
    (RunsArgsJ.here (map_elements_err hl hspec a b c q1 q2 q3 q4 first dd e env mv sv pre x0 post ys s D
      m3 m4 m5 m6 m7 m8 m9 m10 m11 m12 hsv hd hlv hlen hall herr))

/-! ### application of a closure, of a native, with any outcome -/

/-- `app_closure_gen` for any outcome of the run of the body -/
theorem app_closure_r (hl : DLoaded st) {ab : Val} (hab : IsAppBranch ab) {clo : Val → Val} (hspec : HadSpec st clo)
    (a b c q1 q2 q3 q4 : Meta) (first dd e env mv sv : Val) (xs : List Val) (f : Val) (args : List Val)
    (k : Kind) (rest params body fenv : Val) (fmod : Name) (r : Res Val) (D : Nat)
    (tail : Val) (htail : st.getGlobal cs!"nil" cs!"prelude" = .found tail)
    (hsv : sv.isNil = true) (hd : D + 17 ≤ Config.maxRecursionDepth) (hlv : listToVec e = some xs)
    (hlen : (xs.length : Int) ≤ i64Max)
    (hall : MapsVia (DeiRuns st env mv (D + 4)) xs (f :: args))
    (hf : f.get = .fn k rest params body fenv fmod) (hbody : body.isNil = false)
    (hamp : ∀ p ∈ (listToVec params).getD [], p.isSymNamed cs!"&" = false)
    (hlenp : ((listToVec params).getD []).length ≤ args.length)
    (hrun : DeiRunsR st (restEnv rest ((args.drop ((listToVec params).getD []).length).foldr Val.cons tail)
      (bindAll ((listToVec params).getD []) args fenv)) (.symName fmod) D body r) :
    RunsJ st ab (dlEnv a b c first dd (clo (env4 q1 q2 q3 q4 e env mv sv)) (env4 q1 q2 q3 q4 e env mv sv))
      cs!"debugger" D r := by
  obtain ⟨m1, m2, m3, m4, m5, m6, m7, m8, m9, m10, m11, m12, app2, rfl, happ2⟩ := hab
  obtain ⟨n1, n2, n3, n4, n5, app3, rfl, happ3⟩ := happ2
  obtain ⟨k1, k2, k3, k4, k5, k6, k7, g1, os, cc, nc, rfl, hcc, hnc⟩ := happ3
  obtain ⟨c1, c2, c3, c4, c5, c6, c7, c8, c9, c10, c11, c12, c13, c14, c15, c16, c17, rfl⟩ := hcc
  have hs := hl.sees
  obtain ⟨wdf, hwdf, hwdfg⟩ := hl.nativesD .destructureFunction
  obtain ⟨wdei, hwdei, hwdeig⟩ := hl.debugger _ _ debug_eval_internal_mem
  obtain ⟨wadd, hwadd, hwaddg⟩ := hl.debugger _ _ add_parameters_mem
  obtain ⟨pd1, pd2, pd3, pd4, hpd⟩ := debug_eval_internal_params_shape
  obtain ⟨pa1, pa2, pa3, hpa⟩ := add_parameters_params_shape
  -- every element of the form is evaluated
  refine RunsJ.letForm (vs := [(f :: args).foldr Val.cons tail]) hs (by omega) rfl
    (RunsArgsJ.one (map_elements hl hspec a b c q1 q2 q3 q4 first dd e env mv sv xs (f :: args) D
      m3 m4 m5 m6 m7 m8 m9 m10 m11 m12 hsv hd hlv hlen hall tail htail)) (pair1 _ _ _ _) ?_
  change RunsJ st _ (bindN cs!"evaled-expr" m2 ((f :: args).foldr Val.cons tail)
    (dlEnv a b c first dd (clo (env4 q1 q2 q3 q4 e env mv sv)) (env4 q1 q2 q3 q4 e env mv sv))) _ _ _
  -- the operator is taken apart
  refine RunsJ.letForm (vs := [parts (.symName k.name) (functionParams rest params) body fenv (.symName fmod)]) hs (by omega) rfl
    (RunsArgsJ.one (RunsJ.callSimple hl.detached (by omega) (listToVec_ofList _) rfl
      (RunsJ.glob hs (by omega) (by lke) hwdf) hwdfg (by decide) (by decide) (by decide) (by decide) (by decide)
      (RunsArgsJ.one (RunsJ.of_eval hs (ev_carVar (a := f) (b := args.foldr Val.cons tail) hl (by omega) (by lke) (by lke) rfl)))
      (fun j => destructure_fn _ _ f k rest params body fenv fmod hf))) (pair1 _ _ _ _) ?_
  change RunsJ st _ (bindN cs!"evaled-parts" n2 (parts (.symName k.name) (functionParams rest params) body fenv (.symName fmod))
    (bindN cs!"evaled-expr" m2 ((f :: args).foldr Val.cons tail)
      (dlEnv a b c first dd (clo (env4 q1 q2 q3 q4 e env mv sv)) (env4 q1 q2 q3 q4 e env mv sv)))) _ _ _
  refine RunsJ.letForm (vs := [.nil]) hs (by omega) rfl (RunsArgsJ.one (skip_when hl (by omega) (by lke) hsv)) (pair1 _ _ _ _) ?_
  change RunsJ st _ (bindG g1 .nil (bindN cs!"evaled-parts" n2
    (parts (.symName k.name) (functionParams rest params) body fenv (.symName fmod))
    (bindN cs!"evaled-expr" m2 ((f :: args).foldr Val.cons tail)
      (dlEnv a b c first dd (clo (env4 q1 q2 q3 q4 e env mv sv)) (env4 q1 q2 q3 q4 e env mv sv))))) _ _ _
  -- the body is not nil: a closure
  refine RunsJ.ifTrue hl.detached (by omega)
    (RunsJ.dot hl (by omega) (by lke) (by lke) (fun dd st' => parts_body st' dd _ _ _ _ _ _ rfl)) hbody ?_
  refine RunsJ.callClosure hl.detached (by omega) (listToVec_ofList _) rfl
    (RunsJ.glob hs (by omega) (by lke) hwdei) (hwdeig.trans debug_eval_internal_fn_eq)
    (RunsArgsJ.cons (RunsJ.dot hl (by omega) (by lke) (by lke) (fun dd st' => parts_body st' dd _ _ _ _ _ _ rfl))
      (RunsArgsJ.three ?_
        (RunsJ.dot hl (by omega) (by lke) (by lke) (fun dd st' => parts_module st' dd _ _ _ _ _ _ rfl))
        (RunsJ.loc hs (by omega) (by lke))))
    (by rw [hpd, debug_eval_internal_rest_eq]; exact pair4 _ _ _ _ _ _ _ _ _ _) (hrun pd1 pd2 pd3 pd4 sv hsv)
  -- `(add-parameters parameters (cdr evaled-expr) environment)`
  refine RunsJ.callClosure hl.detached (by omega) (listToVec_ofList _) rfl
    (RunsJ.glob hs (by omega) (by lke) hwadd) (hwaddg.trans add_parameters_fn_eq)
    (RunsArgsJ.three
      (RunsJ.dot hl (by omega) (by lke) (by lke) (fun dd st' => parts_parameters st' dd _ _ _ _ _ _ rfl))
      (RunsJ.of_eval hs (ev_cdrVar (a := f) (b := args.foldr Val.cons tail) hl (by omega) (by lke) (by lke) rfl))
      (RunsJ.dot hl (by omega) (by lke) (by lke) (fun dd st' => parts_environment st' dd _ _ _ _ _ _ rfl)))
    (by rw [hpa, add_parameters_rest_eq]; exact pair3 _ _ _ _ _ _ _ _) ?_
  rw [functionParams_eq]
  exact add_params_runs_gen hl (D + 1) (by omega) tail rest _ args fenv hlenp hamp pa1 pa2 pa3

/-- `debug-list` on an application whose operator evaluates to a native: whatever the native answers — a value or a signal —
when `call-native-function` applies it to the evaluated operands, in the environment of the form -/
theorem app_native_r (hl : DLoaded st) {ab : Val} (hab : IsAppBranch ab) {clo : Val → Val} (hspec : HadSpec st clo)
    (a b c q1 q2 q3 q4 : Meta) (first dd e env mv sv : Val) (xs : List Val) (f : Val) (args : List Val)
    (id : NativeId) (r : Res Val) (D : Nat)
    (hsv : sv.isNil = true) (hd : D + 17 ≤ Config.maxRecursionDepth) (hlv : listToVec e = some xs)
    (hlen : (xs.length : Int) ≤ i64Max)
    (hall : MapsVia (DeiRuns st env mv (D + 4)) xs (f :: args))
    (hf : f.get = .native id)
    (hr : ∀ fuel j, applyNative (fuel + 1) (C05.bump st j) id args env (D + 1 + 1) = (r, C05.bump st j)) :
    RunsJ st ab (dlEnv a b c first dd (clo (env4 q1 q2 q3 q4 e env mv sv)) (env4 q1 q2 q3 q4 e env mv sv))
      cs!"debugger" D r := by
  obtain ⟨m1, m2, m3, m4, m5, m6, m7, m8, m9, m10, m11, m12, app2, rfl, happ2⟩ := hab
  obtain ⟨n1, n2, n3, n4, n5, app3, rfl, happ3⟩ := happ2
  obtain ⟨k1, k2, k3, k4, k5, k6, k7, g1, os, cc, nc, rfl, hcc, hnc⟩ := happ3
  obtain ⟨c1, c2, c3, c4, c5, c6, rfl⟩ := hnc
  have hs := hl.sees
  obtain ⟨tail, htail, htailp⟩ := hl.base.nil
  obtain ⟨wdf, hwdf, hwdfg⟩ := hl.nativesD .destructureFunction
  obtain ⟨wcn, hwcn, hwcng⟩ := hl.nativesD .callNativeFunction
  refine RunsJ.letForm (vs := [(f :: args).foldr Val.cons tail]) hs (by omega) rfl
    (RunsArgsJ.one (map_elements hl hspec a b c q1 q2 q3 q4 first dd e env mv sv xs (f :: args) D
      m3 m4 m5 m6 m7 m8 m9 m10 m11 m12 hsv hd hlv hlen hall tail htail)) (pair1 _ _ _ _) ?_
  change RunsJ st _ (bindN cs!"evaled-expr" m2 ((f :: args).foldr Val.cons tail)
    (dlEnv a b c first dd (clo (env4 q1 q2 q3 q4 e env mv sv)) (env4 q1 q2 q3 q4 e env mv sv))) _ _ _
  refine RunsJ.letForm (vs := [parts (.symName cs!"lambda") (.ofList (id.params.map Val.symName)) .nil .nil (.symName [])])
    hs (by omega) rfl
    (RunsArgsJ.one (RunsJ.callSimple hl.detached (by omega) (listToVec_ofList _) rfl
      (RunsJ.glob hs (by omega) (by lke) hwdf) hwdfg (by decide) (by decide) (by decide) (by decide) (by decide)
      (RunsArgsJ.one (RunsJ.of_eval hs (ev_carVar (a := f) (b := args.foldr Val.cons tail) hl (by omega) (by lke) (by lke) rfl)))
      (fun j => destructure_native _ _ f id hf))) (pair1 _ _ _ _) ?_
  change RunsJ st _ (bindN cs!"evaled-parts" n2
    (parts (.symName cs!"lambda") (.ofList (id.params.map Val.symName)) .nil .nil (.symName []))
    (bindN cs!"evaled-expr" m2 ((f :: args).foldr Val.cons tail)
      (dlEnv a b c first dd (clo (env4 q1 q2 q3 q4 e env mv sv)) (env4 q1 q2 q3 q4 e env mv sv)))) _ _ _
  refine RunsJ.letForm (vs := [.nil]) hs (by omega) rfl (RunsArgsJ.one (skip_when hl (by omega) (by lke) hsv)) (pair1 _ _ _ _) ?_
  change RunsJ st _ (bindG g1 .nil (bindN cs!"evaled-parts" n2
    (parts (.symName cs!"lambda") (.ofList (id.params.map Val.symName)) .nil .nil (.symName []))
    (bindN cs!"evaled-expr" m2 ((f :: args).foldr Val.cons tail)
      (dlEnv a b c first dd (clo (env4 q1 q2 q3 q4 e env mv sv)) (env4 q1 q2 q3 q4 e env mv sv))))) _ _ _
  -- the body is nil: a native
  refine RunsJ.ifFalse hl.detached (by omega)
    (RunsJ.dot hl (by omega) (by lke) (by lke) (fun dd st' => parts_body st' dd _ _ _ _ _ _ rfl)) rfl ?_
  refine RunsJ.callNativeFrom hl.detached 2 (by omega) (listToVec_ofList _) rfl
    (RunsJ.glob hs (by omega) (by lke) hwcn) hwcng (by decide)
    (RunsArgsJ.of_evalArgs hs (evs_three
      (ev_carVar (a := f) (b := args.foldr Val.cons tail) hl (by omega) (by lke) (by lke) rfl)
      (ev_cdrVar (a := f) (b := args.foldr Val.cons tail) hl (by omega) (by lke) (by lke) rfl)
      (ev_local (by omega) (by lke)))) ?_
  intro fuel j hfuel
  obtain ⟨n, rfl⟩ : ∃ n, fuel = n + 2 := ⟨fuel - 2, by omega⟩
  rw [C20.call_native_is_application (n + 1) _ f _ env _ id args (D + 1) (by omega) hf (listToVec_foldr args tail htailp),
    hr n j]

end

end Pici.Dbg
