/-
Helper lemmas for C06 (part 2): the evaluator never panics on well-formed input and keeps values and states
well formed.

* well-formedness (`noNested`) of what the pure helpers of `Model/Eval.lean` return: `lookupEnv`, `lookup`,
  `collectParams`, `makeFunctionInternal`, `bindParams`, `pairParamsAndArgs`, `pollDebugger`, `readErrorDetails`,
  `ambiguousError`;
* `Tot P out`: the outcome `out` is no panic, its state is well formed (`StOK`), its value satisfies `P` and its
  signal is well formed — `OutOK` of `Props/C06Eval.lean` is `Tot` at `P := noNested · = true`;
* `TotalAll fuel`: `Tot` for the seven mutually recursive functions of `Model/Eval.lean` on well-formed input, proved
  by induction on the fuel (`totalAll`), one `…_tot` lemma per function.
-/
import PiciModel.Props.C06
import PiciModel.Lemmas.ModuleState

namespace Pici

/-! ### sub-values of well-formed values -/

theorem noNested_cons_parts {a d : Val} (h : noNested (.cons a d) = true) : noNested a = true ∧ noNested d = true := by
  simpa using h

theorem noNested_get_cons_parts {e a d : Val} (he : noNested e = true) (hg : e.get = .cons a d) :
    noNested a = true ∧ noNested d = true :=
  noNested_cons_parts (noNested_of_get_eq he hg)

theorem noNested_get_trap_parts {e n h : Val} (he : noNested e = true) (hg : e.get = .trap n h) :
    noNested n = true ∧ noNested h = true := by
  have := noNested_of_get_eq he hg
  simpa using this

theorem noNested_get_fn_parts {e : Val} {k : Kind} {r p b env : Val} {m : Name} (he : noNested e = true)
    (hg : e.get = .fn k r p b env m) :
    noNested r = true ∧ noNested p = true ∧ noNested b = true ∧ noNested env = true := by
  have := noNested_of_get_eq he hg
  simp only [noNested_fn, Bool.and_eq_true] at this
  exact ⟨this.1.1.1, this.1.1.2, this.1.2, this.2⟩

/-! ### `lookup` -/

/-- one entry of the association list: what it binds is well formed -/
theorem lookupEnv_entry {key : Sym} {kv rest v : Val} (hkv : noNested kv = true)
    (ih : lookupEnv key rest = some v → noNested v = true)
    (h : (match kv.get with
          | .cons k v => (match k.get with
            | .sym s => if s == key then some v else lookupEnv key rest
            | _      => lookupEnv key rest)
          | _ => lookupEnv key rest) = some v) : noNested v = true := by
  split at h
  · rename_i k w hg
    have hw := (noNested_get_cons_parts hkv hg).2
    split at h
    · split at h
      · injection h with h; subst h; exact hw
      · exact ih h
    · exact ih h
  · exact ih h

theorem lookupEnv_wf (key : Sym) : ∀ {env v : Val}, noNested env = true → lookupEnv key env = some v → noNested v = true
  | .cons kv rest, v, henv, h => by
    have hp := noNested_cons_parts henv
    rw [lookupEnv] at h
    exact lookupEnv_entry hp.1 (lookupEnv_wf key hp.2) h
  | .md (.cons kv rest) m, v, henv, h => by
    have hp := noNested_cons_parts (noNested_md_inner henv)
    rw [lookupEnv] at h
    exact lookupEnv_entry hp.1 (lookupEnv_wf key hp.2) h
  | .nil, _, _, h => by simp [lookupEnv] at h
  | .num _, _, _, h => by simp [lookupEnv] at h
  | .chr _, _, _, h => by simp [lookupEnv] at h
  | .sym _, _, _, h => by simp [lookupEnv] at h
  | .native _, _, _, h => by simp [lookupEnv] at h
  | .fn .., _, _, h => by simp [lookupEnv] at h
  | .trap .., _, _, h => by simp [lookupEnv] at h
  | .md .nil _, _, _, h => by simp [lookupEnv] at h
  | .md (.num _) _, _, _, h => by simp [lookupEnv] at h
  | .md (.chr _) _, _, _, h => by simp [lookupEnv] at h
  | .md (.sym _) _, _, _, h => by simp [lookupEnv] at h
  | .md (.native _) _, _, _, h => by simp [lookupEnv] at h
  | .md (.fn ..) _, _, _, h => by simp [lookupEnv] at h
  | .md (.trap ..) _, _, _, h => by simp [lookupEnv] at h
  | .md (.md ..) _, _, _, h => by simp [lookupEnv] at h

theorem lookup_wf {st : St} {key : Sym} {env : Val} {home : Name} {v : Val} (hst : StOK st) (henv : noNested env = true)
    (h : lookup st key env home = .found v) : noNested v = true := by
  unfold lookup at h
  split at h
  · rename_i w hw
    injection h with h; subst h
    exact lookupEnv_wf key henv hw
  · exact hst.getGlobal h

@[simp] theorem noNested_ambiguousError (source : Name) (expr : Val) (modules : List Name) :
    noNested (ambiguousError source expr modules) = noNested expr := by
  simp [ambiguousError]

@[simp] theorem noNested_readErrorDetails (msg : List Char) (loc : Loc) : noNested (readErrorDetails msg loc) = true := by
  simp [readErrorDetails]

/-! ### `make_function_internal` -/

theorem collectParams_wf (source : Name) (count : Nat) : ∀ (ps : List Val) (i : Nat) (acc : List Val),
    (∀ p ∈ ps, noNested p = true) → (∀ p ∈ acc, noNested p = true) →
    (∀ actual rest, collectParams source count ps i acc = .ok (actual, rest) →
        (∀ p ∈ actual, noNested p = true) ∧ noNested (rest.getD .nil) = true) ∧
    (∀ e, collectParams source count ps i acc = .error e → noNested e = true)
  | [], i, acc, _, hacc => by
    refine ⟨fun actual rest h => ?_, fun e h => ?_⟩
    · simp only [collectParams, Except.ok.injEq, Prod.mk.injEq] at h
      obtain ⟨rfl, rfl⟩ := h
      exact ⟨fun p hp => hacc p (List.mem_reverse.1 hp), rfl⟩
    · simp [collectParams] at h
  | p :: ps, i, acc, hps, hacc => by
    have hp : noNested p = true := hps p List.mem_cons_self
    have hps' : ∀ q ∈ ps, noNested q = true := fun q hq => hps q (List.mem_cons_of_mem _ hq)
    have hrev : ∀ q ∈ acc.reverse, noNested q = true := fun q hq => hacc q (List.mem_reverse.1 hq)
    have ih := collectParams_wf source count ps (i + 1) (p :: acc) hps'
      (fun q hq => by rcases List.mem_cons.1 hq with rfl | hq; exact hp; exact hacc q hq)
    unfold collectParams
    repeat' first | split | (dsimp only)
    all_goals first
      | exact ih
      | refine ⟨fun actual rest h => ?_, fun e h => ?_⟩
    all_goals first
      | (cases h; done)
      | (simp only [Except.ok.injEq, Prod.mk.injEq] at h
         obtain ⟨rfl, rfl⟩ := h
         first
          | exact ⟨hrev, rfl⟩
          | exact ⟨hrev, hps' _ List.mem_cons_self⟩)
      | (injection h with h; subst h
         first
          | (simp; done)
          | (simpa using hp)
          | (simpa using hps' _ List.mem_cons_self))

theorem makeFunctionInternal_wf {args : List Val} {env : Val} {mod source : Name} {kind : Kind}
    (hargs : ∀ v ∈ args, noNested v = true) (henv : noNested env = true) :
    (∀ v, makeFunctionInternal args env mod source kind = .ok v → noNested v = true) ∧
    (∀ s, makeFunctionInternal args env mod source kind = .err s → noNested s = true) := by
  unfold makeFunctionInternal
  split
  · rename_i params body
    have hparams : noNested params = true := hargs _ (by simp)
    have hbody : noNested body = true := hargs _ (by simp)
    split
    · exact ⟨fun v h => (by cases h), fun s h => (by injection h with h; subst h; simpa using hparams)⟩
    · rename_i ps hps
      have hc := collectParams_wf source ps.length ps 0 [] (noNested_listToVec hparams hps) (fun p hp => by cases hp)
      split
      · rename_i actual rest hcp
        have := hc.1 actual rest hcp
        refine ⟨fun v h => ?_, fun s h => (by cases h)⟩
        injection h with h; subst h
        simp only [noNested_fn, Bool.and_eq_true, noNested_ofList, List.all_eq_true]
        exact ⟨⟨⟨this.2, this.1⟩, hbody⟩, henv⟩
      · rename_i e hcp
        exact ⟨fun v h => (by cases h), fun s h => (by injection h with h; subst h; exact hc.2 e hcp)⟩
  · exact ⟨fun v h => (by cases h), fun s h => (by injection h with h; subst h; simp)⟩

/-! ### `pair_params_and_args` -/

theorem bindParams_wf (source : Name) (nargs : Nat) : ∀ (ps args : List Val) (i : Nat) (env : Val),
    (∀ p ∈ ps, noNested p = true) → (∀ a ∈ args, noNested a = true) → noNested env = true →
    (∀ env' remaining j, bindParams source nargs ps args i env = .ok (env', remaining, j) →
        noNested env' = true ∧ ∀ a ∈ remaining, noNested a = true) ∧
    (∀ e, bindParams source nargs ps args i env = .error e → noNested e = true)
  | [], args, i, env, _, hargs, henv => by
    refine ⟨fun env' remaining j h => ?_, fun e h => ?_⟩
    · simp only [bindParams, Except.ok.injEq, Prod.mk.injEq] at h
      obtain ⟨rfl, rfl, rfl⟩ := h
      exact ⟨henv, hargs⟩
    · simp [bindParams] at h
  | p :: ps, [], i, env, _, _, _ => by
    refine ⟨fun env' remaining j h => ?_, fun e h => ?_⟩
    · simp [bindParams] at h
    · simp only [bindParams, Except.error.injEq] at h
      subst h; simp
  | p :: ps, a :: as, i, env, hps, hargs, henv => by
    rw [bindParams]
    refine bindParams_wf source nargs ps as (i + 1) _ (fun q hq => hps q (List.mem_cons_of_mem _ hq))
      (fun q hq => hargs q (List.mem_cons_of_mem _ hq)) ?_
    simp [hps p List.mem_cons_self, hargs a List.mem_cons_self, henv]

theorem pairParamsAndArgs_wf {rest params env : Val} {name : Option Name} {args : List Val}
    (hrest : noNested rest = true) (hparams : noNested params = true) (henv : noNested env = true)
    (hargs : ∀ a ∈ args, noNested a = true) :
    (∀ v, pairParamsAndArgs rest params env name args = .ok v → noNested v = true) ∧
    (∀ s, pairParamsAndArgs rest params env name args = .err s → noNested s = true) := by
  unfold pairParamsAndArgs
  dsimp only
  have hb := bindParams_wf (name.getD cs!"#<function>") args.length ((listToVec params).getD []) args 0 env
    (noNested_getD_listToVec hparams) hargs henv
  split
  · rename_i e he
    exact ⟨fun v h => (by cases h), fun s h => (by injection h with h; subst h; exact hb.2 e he)⟩
  · rename_i env' remaining i he
    have := hb.1 env' remaining i he
    split
    · rename_i restParam hr
      have hrp := restParam?_some hr
      subst hrp
      refine ⟨fun v h => ?_, fun s h => (by cases h)⟩
      injection h with h; subst h
      simp only [noNested_cons, Bool.and_eq_true, noNested_ofList, List.all_eq_true]
      exact ⟨⟨hrest, this.2⟩, this.1⟩
    · split
      · exact ⟨fun v h => (by injection h with h; subst h; exact this.1), fun s h => (by cases h)⟩
      · exact ⟨fun v h => (by cases h), fun s h => (by injection h with h; subst h; simp)⟩

/-! ### the debugger poll -/

theorem pollDebugger_stOK {st : St} (hst : StOK st) : StOK (pollDebugger st).2 := by
  unfold pollDebugger
  splits
  all_goals exact hst.of_eq rfl rfl

theorem pollDebugger_signal {st st' : St} {r : Res Val} (h : pollDebugger st = (some r, st')) :
    ∃ s, r = .err s ∧ noNested s = true := by
  revert h
  unfold pollDebugger
  splits
  all_goals intro h
  all_goals first
    | (cases h; done)
    | (injection h with h1 h2; injection h1 with h1; subst h1; exact ⟨_, rfl, by simp⟩)

/-! ### outcomes that are no panic and well formed -/

/-- no panic, a well-formed state, a value satisfying `P`, a well-formed signal -/
def Tot {α : Type} (P : α → Prop) (o : Res α × St) : Prop :=
  (∀ site, o.1 ≠ .crash site) ∧ StOK o.2 ∧ (∀ v, o.1 = .ok v → P v) ∧ (∀ s, o.1 = .err s → noNested s = true)

/-- a well-formed value -/
abbrev WF (v : Val) : Prop := noNested v = true
/-- a list of well-formed values -/
abbrev WFs (xs : List Val) : Prop := ∀ x ∈ xs, noNested x = true

namespace Tot
variable {α β : Type} {P : α → Prop} {Q : β → Prop} {st : St}

theorem ok {v : α} (hst : StOK st) (hv : P v) : Tot P (.ok v, st) :=
  ⟨fun _ h => (by cases h), hst, fun _ h => (by injection h with h; subst h; exact hv), fun _ h => (by cases h)⟩

theorem err {s : Val} (hst : StOK st) (hs : noNested s = true) : Tot P (.err s, st) :=
  ⟨fun _ h => (by cases h), hst, fun _ h => (by cases h), fun _ h => (by injection h with h; subst h; exact hs)⟩

theorem oof (hst : StOK st) : Tot P (.outOfFuel, st) :=
  ⟨fun _ h => (by cases h), hst, fun _ h => (by cases h), fun _ h => (by cases h)⟩

theorem stOK {r : Res α} (h : Tot P (r, st)) : StOK st := h.2.1
theorem val {v : α} (h : Tot P (.ok v, st)) : P v := h.2.2.1 v rfl
theorem sig {s : Val} (h : Tot P (.err s, st)) : noNested s = true := h.2.2.2 s rfl

theorem okv {v : Val} (hst : StOK st) (hv : noNested v = true) : Tot WF (.ok v, st) := ok hst hv
theorem wf {v : Val} (h : Tot WF (.ok v, st)) : noNested v = true := h.val

theorem pass_err {s : Val} (h : Tot P (.err s, st)) : Tot Q (.err s, st) := err h.stOK h.sig
theorem pass_crash {s : List Char} (h : Tot P (.crash s, st)) : Tot Q (.crash s, st) := absurd rfl (h.1 s)
theorem pass_oof (h : Tot P (.outOfFuel, st)) : Tot Q (.outOfFuel, st) := oof h.stOK

/-- a pure result in an unchanged state -/
theorem of_res {r : Res α} (hst : StOK st) (hc : ∀ site, r ≠ .crash site) (hv : ∀ v, r = .ok v → P v)
    (hs : ∀ s, r = .err s → noNested s = true) : Tot P (r, st) :=
  ⟨hc, hst, hv, hs⟩

theorem of_wfOut {o : Out} (h : WFOut o) (hc : ∀ site, o.1 ≠ .crash site) : Tot WF o :=
  ⟨hc, h.1, h.2.1, h.2.2⟩

theorem mono {P' : α → Prop} {o : Res α × St} (h : Tot P o) (hp : ∀ v, P v → P' v) : Tot P' o :=
  ⟨h.1, h.2.1, fun v hv => hp v (h.2.2.1 v hv), h.2.2.2⟩

end Tot

section combinators
variable {α : Type} {P : α → Prop} {src : Name} {args : List Val} {st : St}

theorem tot_arity1 {k : Val → Res α × St} (hst : StOK st) (hargs : WFs args)
    (hk : ∀ x, noNested x = true → Tot P (k x)) : Tot P (arity1 src args st k) := by
  unfold arity1; split
  · exact hk _ (hargs _ (by simp))
  · exact Tot.err hst (by simp)

theorem tot_arity2 {k : Val → Val → Res α × St} (hst : StOK st) (hargs : WFs args)
    (hk : ∀ x y, noNested x = true → noNested y = true → Tot P (k x y)) : Tot P (arity2 src args st k) := by
  unfold arity2; split
  · exact hk _ _ (hargs _ (by simp)) (hargs _ (by simp))
  · exact Tot.err hst (by simp)

theorem tot_arity3 {k : Val → Val → Val → Res α × St} (hst : StOK st) (hargs : WFs args)
    (hk : ∀ x y z, noNested x = true → noNested y = true → noNested z = true → Tot P (k x y z)) : Tot P (arity3 src args st k) := by
  unfold arity3; split
  · exact hk _ _ _ (hargs _ (by simp)) (hargs _ (by simp)) (hargs _ (by simp))
  · exact Tot.err hst (by simp)

theorem tot_asSymbol {v : Val} {k : Sym → Res α × St} (hst : StOK st) (hv : noNested v = true)
    (hk : ∀ s, Tot P (k s)) : Tot P (asSymbol src v st k) := by
  unfold asSymbol; split
  · exact hk _
  · exact Tot.err hst (by simpa using hv)

theorem tot_asList {v : Val} {k : List Val → Res α × St} (hst : StOK st) (hv : noNested v = true)
    (hk : ∀ xs, WFs xs → Tot P (k xs)) : Tot P (asList src v st k) := by
  unfold asList; split
  · exact hk _ (noNested_listToVec hv ‹_›)
  · exact Tot.err hst (by simpa using hv)

theorem tot_asString {v : Val} {k : List Char → Res α × St} (hst : StOK st) (hv : noNested v = true)
    (hk : ∀ s, Tot P (k s)) : Tot P (asString src v st k) := by
  unfold asString; split
  · exact hk _
  · exact Tot.err hst (by simpa using hv)

end combinators

theorem tot_makeFunctionInternal {st : St} {args : List Val} {env : Val} {mod source : Name} {kind : Kind}
    (hst : StOK st) (hargs : WFs args) (henv : noNested env = true) :
    Tot WF (makeFunctionInternal args env mod source kind, st) :=
  have h := makeFunctionInternal_wf (mod := mod) (source := source) (kind := kind) hargs henv
  Tot.of_res hst (makeFunctionInternal_noCrash _ _ _ _ _) h.1 h.2

/-! ### the evaluator: totality of all seven mutually recursive functions at a given fuel -/

structure TotalAll (fuel : Nat) : Prop where
  eval : ∀ st e env mod d, StOK st → noNested e = true → noNested env = true → Tot WF (evalInternal fuel st e env mod d)
  args : ∀ st xs env mod d, StOK st → WFs xs → noNested env = true → Tot WFs (evalArgs fuel st xs env mod d)
  expand : ∀ st e env mod d ch, StOK st → noNested e = true → noNested env = true → Tot WF (expandInternal fuel st e env mod d ch).1
  expandArgs : ∀ st xs env mod d ch, StOK st → WFs xs → noNested env = true → Tot WFs (expandArgs fuel st xs env mod d ch).1
  complete : ∀ st e env mod d, StOK st → noNested e = true → noNested env = true → Tot WF (expandCompletely fuel st e env mod d)
  native : ∀ st id args env d, StOK st → WFs args → noNested env = true → Tot WF (applyNative fuel st id args env d)
  load : ∀ st c s l col d, StOK st → noNested c = true → noNested s = true → Tot (fun _ => True) (loadForms fuel st c s l col d)

/-- `tot_bind h : t`: the goal is `Tot Q (match call with | (.ok v, st) => … | (.err s, st) => (.err s, st) | …)` and
`t : Tot P call`; the branches that pass a signal, a panic or `outOfFuel` on are closed, in the remaining one
`h : Tot P (.ok v, st)` -/
syntax "tot_bind " ident " : " term : tactic
macro_rules
  | `(tactic| tot_bind $h : $t) => `(tactic| (
      have $h := $t
      split <;> (rename_i heq; rw [heq] at $h:ident; clear heq; try dsimp only at $h:ident) <;>
        first
          | exact Tot.pass_err $h
          | exact Tot.pass_crash $h
          | exact Tot.pass_oof $h
          | skip))

theorem evalInternal_tot {fuel : Nat} (ih : TotalAll fuel) (st e env mod d) (hst : StOK st) (he : noNested e = true) (henv : noNested env = true) :
    Tot WF (evalInternal (fuel + 1) st e env mod d) := by
  rw [evalInternal]
  split
  · exact Tot.err hst (by simp)
  split
  · rename_i r st1 hp
    obtain ⟨s, rfl, hs⟩ := pollDebugger_signal hp
    have := pollDebugger_stOK hst
    rw [hp] at this
    exact Tot.err this hs
  rename_i st1 hp
  have hst1 : StOK st1 := by have := pollDebugger_stOK hst; rw [hp] at this; exact this
  clear hp hst
  dsimp only
  split
  · -- the empty list
    exact Tot.okv hst1 rfl
  · -- a form
    rename_i first operands hl
    have hall := noNested_listToVec he hl
    have hfirst : noNested first = true := hall _ List.mem_cons_self
    have hops : WFs operands := fun x hx => hall x (List.mem_cons_of_mem _ hx)
    split
    · exact tot_makeFunctionInternal hst1 hops henv
    split
    · exact tot_arity1 hst1 hops fun x hx => Tot.okv hst1 hx
    split
    · refine tot_arity3 hst1 hops fun c t o hc ht ho => ?_
      tot_bind h : ih.eval st1 c env mod (d + 1) hst1 hc henv
      exact ih.eval _ _ _ _ _ h.stOK (by split <;> assumption) henv
    split
    · exact tot_arity2 hst1 hops fun n h hn hh => Tot.okv hst1 (by simp [hn, hh])
    tot_bind hop : ih.eval st1 first env mod (d + 1) hst1 hfirst henv
    rename_i operator st2
    split
    · -- a native function
      tot_bind hargs : ih.args st2 operands env mod d hop.stOK hops henv
      rename_i args st3
      split
      · refine tot_arity1 hargs.stOK hargs.val fun x hx => ?_
        tot_bind hx : ih.complete st3 x env mod (d + 1) hargs.stOK hx henv
        exact ih.eval _ _ _ _ _ hx.stOK hx.wf henv
      · exact ih.native _ _ _ _ _ hargs.stOK hargs.val henv
    · -- a function
      rename_i kind rest params body fenv fmod hg
      obtain ⟨hrest, hparams, hbody, hfenv⟩ := noNested_get_fn_parts hop.wf hg
      tot_bind hargs : ih.args st2 operands env mod d hop.stOK hops henv
      rename_i args st3
      have hpair := pairParamsAndArgs_wf (name := Option.map (fun x => x.readName) e.getMeta) hrest hparams hfenv hargs.val
      split
      · exact ih.eval _ _ _ _ _ hargs.stOK hbody (hpair.1 _ ‹_›)
      · exact Tot.err hargs.stOK (hpair.2 _ ‹_›)
      · exact absurd ‹_› (pairParamsAndArgs_noCrash _ _ _ _ _ _)
      · exact Tot.oof hargs.stOK
    · exact Tot.err hop.stOK (by simpa using hfirst)
  · -- not a proper list
    split
    · rename_i a d' hg
      obtain ⟨ha, hd⟩ := noNested_get_cons_parts he hg
      tot_bind hcar : ih.eval st1 a env mod (d + 1) hst1 ha henv
      tot_bind hcdr : ih.eval _ d' env mod (d + 1) hcar.stOK hd henv
      exact Tot.okv hcdr.stOK (by simp [hcar.wf, hcdr.wf])
    · rename_i n h hg
      obtain ⟨hn, hh⟩ := noNested_get_trap_parts he hg
      have hcall := ih.eval st1 n env mod (d + 1) hst1 hn henv
      split <;> (rename_i heq; rw [heq] at hcall)
      · exact hcall
      · split
        · exact hcall
        · exact ih.eval _ _ _ _ _ hcall.stOK hh (by simp [hcall.sig, henv])
      · exact hcall
      · exact hcall
    · split
      · exact Tot.okv hst1 (lookup_wf hst1 henv ‹_›)
      · exact Tot.err hst1 (by simpa using he)
      · exact Tot.err hst1 (by simpa using he)
    · exact Tot.okv hst1 he

theorem evalArgs_tot {fuel : Nat} (ih : TotalAll fuel) (st xs env mod d) (hst : StOK st) (hxs : WFs xs)
    (henv : noNested env = true) : Tot WFs (evalArgs (fuel + 1) st xs env mod d) := by
  cases xs with
  | nil => rw [evalArgs]; exact Tot.ok hst (fun x hx => by cases hx)
  | cons x xs =>
    rw [evalArgs]
    tot_bind hv : ih.eval st x env mod (d + 1) hst (hxs x List.mem_cons_self) henv
    tot_bind hvs : ih.args _ xs env mod d hv.stOK (fun y hy => hxs y (List.mem_cons_of_mem _ hy)) henv
    refine Tot.ok hvs.stOK fun y hy => ?_
    rcases List.mem_cons.1 hy with rfl | hy
    · exact hv.wf
    · exact hvs.val y hy

theorem expandInternal_tot {fuel : Nat} (ih : TotalAll fuel) (st e env mod d ch) (hst : StOK st)
    (he : noNested e = true) (henv : noNested env = true) :
    Tot WF (expandInternal (fuel + 1) st e env mod d ch).1 := by
  rw [expandInternal]
  split
  · exact Tot.err hst (by simp)
  dsimp only
  split
  · exact Tot.okv hst rfl
  · rename_i first operands hl
    have hall := noNested_listToVec he hl
    have hfirst : noNested first = true := hall _ List.mem_cons_self
    have hops : WFs operands := fun x hx => hall x (List.mem_cons_of_mem _ hx)
    split
    · exact tot_makeFunctionInternal hst hops henv
    split
    · exact Tot.okv hst he
    tot_bind hop : ih.expand st first env mod (d + 1) ch hst hfirst henv
    rename_i operator st2 ch2
    tot_bind hargs : ih.expandArgs st2 operands env mod d ch2 hop.stOK hops henv
    rename_i args st3 ch3
    split
    · rename_i rest params body fenv fmod hg
      obtain ⟨hrest, hparams, hbody, hfenv⟩ := noNested_get_fn_parts hop.wf hg
      have hpair := pairParamsAndArgs_wf (name := Option.map (fun x => x.readName) e.getMeta) hrest hparams hfenv hargs.val
      split
      · exact ih.eval _ _ _ _ _ hargs.stOK hbody (hpair.1 _ ‹_›)
      · exact Tot.err hargs.stOK (hpair.2 _ ‹_›)
      · exact absurd ‹_› (pairParamsAndArgs_noCrash _ _ _ _ _ _)
      · exact Tot.oof hargs.stOK
    · refine Tot.okv hargs.stOK ?_
      simp only [noNested_ofList, List.all_eq_true]
      intro y hy
      rcases List.mem_cons.1 hy with rfl | hy
      · exact hop.wf
      · exact hargs.val y hy
  · split
    · rename_i a d' hg
      obtain ⟨ha, hd⟩ := noNested_get_cons_parts he hg
      tot_bind hcar : ih.expand st a env mod (d + 1) ch hst ha henv
      rename_i car st2 ch2
      tot_bind hcdr : ih.expand st2 d' env mod (d + 1) ch2 hcar.stOK hd henv
      exact Tot.okv hcdr.stOK (by simp [hcar.wf, hcdr.wf])
    · split
      · have hv := lookup_wf hst henv ‹_›
        split
        · exact Tot.okv hst hv
        · exact Tot.okv hst he
      · exact Tot.err hst (by simpa using he)
      · exact Tot.okv hst he
    · exact Tot.okv hst he

theorem expandArgs_tot {fuel : Nat} (ih : TotalAll fuel) (st xs env mod d ch) (hst : StOK st) (hxs : WFs xs)
    (henv : noNested env = true) : Tot WFs (expandArgs (fuel + 1) st xs env mod d ch).1 := by
  cases xs with
  | nil => rw [expandArgs]; exact Tot.ok hst (fun x hx => by cases hx)
  | cons x xs =>
    rw [expandArgs]
    tot_bind hv : ih.expand st x env mod (d + 1) ch hst (hxs x List.mem_cons_self) henv
    rename_i v st2 ch2
    tot_bind hvs : ih.expandArgs st2 xs env mod d ch2 hv.stOK (fun y hy => hxs y (List.mem_cons_of_mem _ hy)) henv
    refine Tot.ok hvs.stOK fun y hy => ?_
    rcases List.mem_cons.1 hy with rfl | hy
    · exact hv.wf
    · exact hvs.val y hy

theorem expandCompletely_tot {fuel : Nat} (ih : TotalAll fuel) (st e env mod d) (hst : StOK st)
    (he : noNested e = true) (henv : noNested env = true) :
    Tot WF (expandCompletely (fuel + 1) st e env mod d) := by
  rw [expandCompletely]
  tot_bind h : ih.expand st e env mod (d + 1) false hst he henv
  · exact ih.complete _ _ _ _ _ h.stOK h.wf henv
  · exact h

theorem loadForms_tot {fuel : Nat} (ih : TotalAll fuel) (st c s l col d) (hst : StOK st)
    (hc : noNested c = true) (hs : noNested s = true) :
    Tot (fun _ => True) (loadForms (fuel + 1) st c s l col d) := by
  rw [loadForms]
  split
  · exact Tot.ok hst trivial
  have hargs : WFs [c, s, .num l, .num col] := by
    intro x hx
    simp only [List.mem_cons, List.not_mem_nil, or_false] at hx
    rcases hx with rfl | rfl | rfl | rfl <;> first | assumption | rfl
  have hr := readCore_ok [c, s, .num l, .num col] (d + 1) hargs
  split
  · exact Tot.err hst (hr.2 _ ‹_›)
  · exact absurd ‹_› (readCore_noCrash _ _ _).1
  · exact Tot.oof hst
  · rename_i outcome ho
    have hok := hr.1 _ ho
    split
    · obtain ⟨hres, hrest⟩ := hok
      rename_i result rest
      tot_bind h : ih.native st .eval [result] .nil (d + 1) hst (by intro x hx; simp at hx; subst hx; exact hres) rfl
      exact ih.load _ _ _ _ _ _ h.stOK hrest hs
    · exact Tot.ok hst trivial
    · exact Tot.err hst (by simp)
    · exact Tot.err hst (by simp)
    · exact Tot.err hst (by simp)

/-! ### the natives that re-enter the evaluator -/

theorem StOK.defineModule {st : St} (h : StOK st) (name : Name) : StOK (st.defineModule name) := by
  refine ⟨St.hasModule_defineModule_self st name, fun m hm => ?_⟩
  rcases mem_putModule hm with rfl | hm
  · intro p hp; cases hp
  · exact h.2 m hm

/-- `load-all` after the forms: the previous module still exists (so `set_current_module(..).unwrap()` does not panic),
and the state with that module current again is well formed -/
theorem loadAll_facts {fuel : Nat} (ih : TotalAll fuel) {st st1 st2 : St} {input source : Val} {d : Nat} {r : Res Unit}
    (hst : StOK st) (hst1 : StOK st1) (hmono : ∀ n, HasModule st n → HasModule st1 n)
    (hin : noNested input = true) (hsrc : noNested source = true)
    (hlf : loadForms fuel st1 input source 1 1 d = (r, st2)) :
    st2.setCurrentModule st.current = some { st2 with current := st.current } ∧
      StOK { st2 with current := st.current } ∧ Tot (fun _ => True) (r, st2) := by
  have hl := ih.load st1 input source 1 1 d hst1 hin hsrc
  have hk := ((goodAll fuel).load st1 input source 1 1 d).good hst1.1
  rw [hlf] at hl hk
  have ht := loadAll_tail st st1 st2 hmono hst.1 hk.1
  exact ⟨ht.1, ⟨ht.2.2 _ hst.1, hl.stOK.2⟩, hl⟩

theorem loadAll_tot {fuel : Nat} (ih : TotalAll fuel) (st args env d) (hst : StOK st) (hargs : WFs args) :
    Tot WF (applyNative (fuel + 1) st .loadAll args env d) := by
  rw [applyNative]
  refine tot_arity2 hst hargs fun input source hin hsrc => tot_asString hst hin fun _ => ?_
  cases hls : listToString source with
  | none =>
    dsimp only
    cases hlf : loadForms fuel st input source 1 1 d with
    | mk r st2 =>
      obtain ⟨hset, hst3, hr⟩ := loadAll_facts ih hst hst (fun _ h => h) hin hsrc hlf
      dsimp only
      rw [hset]
      cases r
      · exact Tot.okv hst3 rfl
      · exact Tot.err hst3 hr.sig
      · exact absurd rfl (hr.1 _)
      · exact Tot.oof hst3
  | some s =>
    dsimp only
    cases hlf : loadForms fuel (st.defineModule s) input source 1 1 d with
    | mk r st2 =>
      obtain ⟨hset, hst3, hr⟩ := loadAll_facts ih hst (hst.defineModule s)
        (fun n h => St.hasModule_defineModule st s n h) hin hsrc hlf
      dsimp only
      rw [hset]
      cases r
      · exact Tot.okv hst3 rfl
      · exact Tot.err hst3 hr.sig
      · exact absurd rfl (hr.1 _)
      · exact Tot.oof hst3

theorem applyNative_tot {fuel : Nat} (ih : TotalAll fuel) (st id args env d) (hst : StOK st) (hargs : WFs args)
    (henv : noNested env = true) : Tot WF (applyNative (fuel + 1) st id args env d) := by
  cases id
  case loadAll => exact loadAll_tot ih st args env d hst hargs
  case eval =>
    rw [applyNative]
    refine tot_arity1 hst hargs fun x hx => ?_
    dsimp only
    tot_bind h : ih.complete st x env st.current (d + 1) hst hx henv
    exact ih.eval _ _ _ _ _ h.stOK h.wf henv
  case macroexpand =>
    rw [applyNative]
    exact tot_arity1 hst hargs fun x hx => ih.complete st x env st.current (d + 1) hst hx henv
  case callNativeFunction =>
    rw [applyNative]
    split
    · exact Tot.err hst (by simp)
    refine tot_arity3 hst hargs fun f arguments environment hf ha he => ?_
    split
    · exact tot_asList hst ha fun as has => ih.native _ _ _ _ _ hst has he
    · exact tot_asList hst ha fun _ _ => Tot.err hst (by simp)
    · exact Tot.err hst (by simpa using hf)
  case makeFunction =>
    unfold applyNative
    dsimp only
    split
    · exact Tot.err hst (by simp)
    split
    · rename_i params body environment envModule kind
      have hparams : noNested params = true := hargs _ (by simp)
      have hbody : noNested body = true := hargs _ (by simp)
      have henvironment : noNested environment = true := hargs _ (by simp)
      have hmod : noNested envModule = true := hargs _ (by simp)
      have hkind : noNested kind = true := hargs _ (by simp)
      have hpb : WFs [params, body] := by
        intro x hx
        simp only [List.mem_cons, List.not_mem_nil, or_false] at hx
        rcases hx with rfl | rfl <;> assumption
      refine tot_asList hst hparams fun _ _ => tot_asSymbol hst hmod fun m => tot_asSymbol hst hkind fun k => ?_
      split
      · exact tot_makeFunctionInternal hst hpb henvironment
      split
      · exact tot_makeFunctionInternal hst hpb henvironment
      · exact Tot.err hst (by simp)
    · exact Tot.err hst (by simp)
  all_goals
    rw [applyNative] <;> try (intro h; cases h)
    exact Tot.of_wfOut (simpleNative_wf _ _ _ _ hst hargs)
      (fun site => simpleNative_noCrash _ _ _ _ site (by decide) hargs)

/-- totality of all seven functions of the mutual recursion, at every fuel -/
theorem totalAll : ∀ fuel, TotalAll fuel
  | 0 =>
    { eval := fun st e env mod d hst _ _ => by rw [evalInternal]; exact Tot.oof hst
      args := fun st xs env mod d hst _ _ => by rw [evalArgs]; exact Tot.oof hst
      expand := fun st e env mod d ch hst _ _ => by rw [expandInternal]; exact Tot.oof hst
      expandArgs := fun st xs env mod d ch hst _ _ => by rw [expandArgs]; exact Tot.oof hst
      complete := fun st e env mod d hst _ _ => by rw [expandCompletely]; exact Tot.oof hst
      native := fun st id args env d hst _ _ => by rw [applyNative]; exact Tot.oof hst
      load := fun st c s l col d hst _ _ => by rw [loadForms]; exact Tot.oof hst }
  | fuel + 1 =>
    have ih := totalAll fuel
    { eval := evalInternal_tot ih
      args := evalArgs_tot ih
      expand := expandInternal_tot ih
      expandArgs := expandArgs_tot ih
      complete := expandCompletely_tot ih
      native := applyNative_tot ih
      load := loadForms_tot ih }

end Pici
