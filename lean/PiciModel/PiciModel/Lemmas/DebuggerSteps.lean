/-
Helper lemmas for Props/C20b (the stepping evaluator of debugger.lisp agrees with `eval` on the core language), part 1:
what is independent of the text of debugger.lisp — list values as `car`/`cdr`/`if` see them, `=` against a symbol,
`type-of`, `let`-forms (`((lambda (v …) body) e …)`), the natives the stepping evaluator uses that are not core
primitives, and the `(eval (trap normal handler))` wrapper, all as `RunsJ` rules (`Lemmas/PreludeSteps.lean`).
-/
import PiciModel.Props.C16b
import PiciModel.Props.C20
import PiciModel.Lemmas.EvalSteps

namespace Pici
open Pici.Ref

/-! ### list values -/

theorem listToVec_cons_inv {v x : Val} {xs : List Val} (h : listToVec v = some (x :: xs)) :
    v.isNil = false ∧ ∃ d, v.get = .cons x d ∧ listToVec d = some xs := by
  have key : ∀ a d, (listToVec d).map (a :: ·) = some (x :: xs) → a = x ∧ listToVec d = some xs := by
    intro a d h
    cases hd : listToVec d with
    | none => rw [hd] at h; cases h
    | some ys => rw [hd] at h; simp at h; exact ⟨h.1, by rw [h.2]⟩
  cases v with
  | nil => simp [listToVec] at h
  | cons a d =>
    simp only [listToVec] at h
    obtain ⟨rfl, h2⟩ := key a d h
    exact ⟨rfl, d, rfl, h2⟩
  | md w m =>
    cases w with
    | nil => simp [listToVec] at h
    | cons a d =>
      simp only [listToVec] at h
      obtain ⟨rfl, h2⟩ := key a d h
      exact ⟨rfl, d, rfl, h2⟩
    | _ => simp [listToVec] at h
  | _ => simp [listToVec] at h

theorem listToVec_nil_inv {v : Val} (h : listToVec v = some []) : v.isNil = true := by
  cases v with
  | nil => rfl
  | cons a d => simp only [listToVec] at h; cases hd : listToVec d <;> rw [hd] at h <;> simp at h
  | md w m =>
    cases w with
    | nil => rfl
    | cons a d => simp only [listToVec] at h; cases hd : listToVec d <;> rw [hd] at h <;> simp at h
    | _ => simp [listToVec] at h
  | _ => simp [listToVec] at h

theorem listToVec_foldr (xs : List Val) (t : Val) (ht : t.isNil = true) : listToVec (xs.foldr Val.cons t) = some xs := by
  induction xs with
  | nil =>
    cases t with
    | nil => rfl
    | md w m => cases w <;> first | rfl | cases ht
    | _ => cases ht
  | cons x xs ih => simp [listToVec, ih]

theorem get_get (v : Val) : v.get.get = v.get := by
  induction v with
  | md w m ih => simpa [Val.get] using ih
  | _ => rfl

theorem get_ne_md (v w : Val) (m : Meta) : v.get ≠ .md w m := by
  induction v with
  | md w' m' ih => simpa [Val.get] using ih
  | _ => simp [Val.get]

/-! ### `=` against a symbol, `type-of` -/

theorem equalInternal_sym_right (a b : Val) (s : Sym) (hb : b.get = .sym s) :
    equalInternal a b = (match a.get with | .sym t => t == s | _ => false) := by
  induction a with
  | md w m ih => rw [equalInternal]; simpa [Val.get] using ih
  | nil =>
    rw [equalInternal]
    cases b with
    | md w m => cases w <;> simp_all [Val.get, Val.isNil]
    | _ => simp_all [Val.get, Val.isNil]
  | num n => rw [equalInternal, hb]; rfl
  | chr c => rw [equalInternal, hb]; rfl
  | sym t => rw [equalInternal, hb]; rfl
  | cons x y _ _ => rw [equalInternal, hb]; rfl
  | fn => rw [equalInternal]; rfl
  | native => rw [equalInternal]; rfl
  | trap => rw [equalInternal]; rfl

/-- `(= x 'name)`: is `x` the symbol `name`? -/
theorem equalInternal_symA (a : Val) (n : Name) (m : Meta) : equalInternal a (symA n m) = a.isSymNamed n := by
  rw [equalInternal_sym_right a _ (.named n) rfl]
  unfold Val.isSymNamed
  cases a.get with
  | sym t =>
    cases t with
    | named a => rw [Bool.eq_iff_iff]; simp
    | gen i => simp
  | _ => rfl

theorem getType_get (v : Val) : v.getType = v.get.getType := by
  induction v with
  | md w m ih => simpa [Val.getType, Val.get] using ih
  | _ => rfl

theorem consTypeAux_isList (v : Val) (xs : List Val) (h : listToVec v = some xs) (s : Bool) :
    (consTypeAux v s).isList = true := by
  induction xs generalizing v s with
  | nil =>
    cases v with
    | nil => rfl
    | cons a d => simp only [listToVec] at h; cases hd : listToVec d <;> rw [hd] at h <;> simp at h
    | md w m =>
      cases w with
      | nil => rfl
      | cons a d => simp only [listToVec] at h; cases hd : listToVec d <;> rw [hd] at h <;> simp at h
      | _ => simp [listToVec] at h
    | _ => simp [listToVec] at h
  | cons x xs ih =>
    have key : ∀ a d, (listToVec d).map (a :: ·) = some (x :: xs) → listToVec d = some xs := by
      intro a d h
      cases hd : listToVec d with
      | none => rw [hd] at h; cases h
      | some ys => rw [hd] at h; simp at h; rw [h.2]
    cases v with
    | cons a d => simp only [listToVec] at h; simp only [consTypeAux]; exact ih d (key a d h) _
    | md w m =>
      cases w with
      | cons a d => simp only [listToVec] at h; simp only [consTypeAux]; exact ih d (key a d h) _
      | nil => simp [listToVec] at h
      | _ => simp [listToVec] at h
    | nil => simp [listToVec] at h
    | _ => simp [listToVec] at h

theorem consTypeAux_false (v : Val) : (consTypeAux v false).isString = false := by
  induction v with
  | cons a d _ ihd => simpa [consTypeAux] using ihd
  | md w m ih =>
    cases w with
    | cons a d =>
      simp only [consTypeAux, Bool.false_and]
      have := ih
      simpa [consTypeAux] using this
    | _ => rfl
  | _ => rfl

/-- a non-empty list whose head is not a character is of type `list-type` -/
theorem typeOf_list (st : St) (d : Nat) (e first : Val) (operands : List Val) (hl : listToVec e = some (first :: operands))
    (hc : first.getType ≠ .character) :
    simpleNative .typeOf [e] d st = (.ok (.symName cs!"list-type"), st) := by
  have hlist : (consType e).isList = true := consTypeAux_isList e _ hl true
  have hstr : (consType e).isString = false := by
    unfold consType
    cases e with
    | cons a dd =>
      simp only [listToVec] at hl
      cases hd : listToVec dd with
      | none => rw [hd] at hl; cases hl
      | some ys =>
        rw [hd] at hl; simp at hl
        obtain ⟨rfl, _⟩ := hl
        simp only [consTypeAux]
        have : (a.getType == TypeLabel.character) = false := by
          cases h : a.getType <;> first | rfl | exact absurd h hc
        rw [this]; exact consTypeAux_false dd
    | md w m =>
      cases w with
      | cons a dd =>
        simp only [listToVec] at hl
        cases hd : listToVec dd with
        | none => rw [hd] at hl; cases hl
        | some ys =>
          rw [hd] at hl; simp at hl
          obtain ⟨rfl, _⟩ := hl
          simp only [consTypeAux]
          have : (a.getType == TypeLabel.character) = false := by
            cases h : a.getType <;> first | rfl | exact absurd h hc
          rw [this]; exact consTypeAux_false dd
      | nil => simp [listToVec] at hl
      | _ => simp [listToVec] at hl
    | nil => simp [listToVec] at hl
    | _ => simp [listToVec] at hl
  have hty : e.getType = .cons := by
    obtain ⟨_, dd, hg, _⟩ := listToVec_cons_inv hl
    rw [getType_get, hg]; rfl
  simp [simpleNative, arity1, hty, hlist, hstr]

/-- the type name of a value that is neither a cons cell nor a symbol nor a trap is none of the four the stepping
evaluator dispatches on -/
theorem typeOf_atom (e : Val) (h1 : ∀ a b, e.get ≠ .cons a b) (h2 : ∀ n t, e.get ≠ .trap n t)
    (h3 : ∀ s, e.get ≠ .sym s) :
    ∃ tn, (∀ (d : Nat) (st : St), simpleNative .typeOf [e] d st = (.ok (.symName tn), st)) ∧ tn ≠ cs!"list-type" ∧
      tn ≠ cs!"cons-type" ∧ tn ≠ cs!"symbol-type" ∧ tn ≠ cs!"trap-type" := by
  have hty : e.getType = e.get.getType := getType_get e
  cases hg : e.get with
  | nil => exact ⟨cs!"nil-type", fun d st => by simp [simpleNative, arity1, hty, hg, Val.getType, TypeLabel.name], by decide, by decide, by decide, by decide⟩
  | num n => exact ⟨cs!"number-type", fun d st => by simp [simpleNative, arity1, hty, hg, Val.getType, TypeLabel.name], by decide, by decide, by decide, by decide⟩
  | chr c => exact ⟨cs!"character-type", fun d st => by simp [simpleNative, arity1, hty, hg, Val.getType, TypeLabel.name], by decide, by decide, by decide, by decide⟩
  | sym s => exact absurd hg (h3 s)
  | cons a b => exact absurd hg (h1 a b)
  | fn k r p b fe fm => exact ⟨cs!"function-type", fun d st => by simp [simpleNative, arity1, hty, hg, Val.getType, TypeLabel.name], by decide, by decide, by decide, by decide⟩
  | native id => exact ⟨cs!"function-type", fun d st => by simp [simpleNative, arity1, hty, hg, Val.getType, TypeLabel.name], by decide, by decide, by decide, by decide⟩
  | trap n t => exact absurd hg (h2 n t)
  | md w m => exact absurd hg (get_ne_md e w m)

theorem typeOf_sym (st : St) (d : Nat) (e : Val) (s : Sym) (hg : e.get = .sym s) :
    simpleNative .typeOf [e] d st = (.ok (.symName cs!"symbol-type"), st) := by
  have hty : e.getType = e.get.getType := getType_get e
  simp [simpleNative, arity1, hty, hg, Val.getType, TypeLabel.name]

/-! ### variables bound to generated symbols (the expansion of `block` and `or`) -/

theorem lookupEnv_miss_gen (n : Name) (i : Nat) (v rest : Val) :
    lookupEnv (.named n) (.cons (.cons (.sym (.gen i)) v) rest) = lookupEnv (.named n) rest := by
  simp [lookupEnv, Val.get]

/-- variable lookup in an environment of reader symbols and generated symbols, given by the equation `h` -/
macro "lkd" h:ident : tactic =>
  `(tactic| (simp only [$h:ident, lookupEnv_hit, lookupEnv_miss, lookupEnv_miss_gen, lookupEnv_nil, ne_eq, List.cons.injEq,
      Char.reduceEq, and_true, and_false, false_and, true_and, not_false_eq_true, reduceCtorEq, Option.some.injEq]; try rfl))

/-! ### `lambda` with plain parameters, `let`-forms -/

/-- a parameter list without `&`: symbols only -/
def plainParams (ps : List Val) : Bool :=
  ps.all fun p => match p.get with
    | .sym s => !(s == ampersand)
    | _      => false

theorem collectParams_plain (source : Name) (count : Nat) (ps : List Val) (i : Nat) (acc : List Val)
    (h : plainParams ps = true) : collectParams source count ps i acc = .ok (acc.reverse ++ ps, none) := by
  induction ps generalizing i acc with
  | nil => simp [collectParams]
  | cons p ps ih =>
    simp only [plainParams, List.all_cons, Bool.and_eq_true] at h
    obtain ⟨hp, hps⟩ := h
    rw [collectParams.eq_def]
    simp only
    cases hg : p.get with
    | sym s =>
      rw [hg] at hp
      have : (s == ampersand) = false := by simpa using hp
      simp only [this]
      rw [ih (i + 1) (p :: acc) hps]
      simp
    | _ => rw [hg] at hp; cases hp

theorem makeFunction_plain (ps : List Val) (body env : Val) (home : Name) (h : plainParams ps = true) :
    makeFunctionInternal [.ofList ps, body] env home cs!"lambda" .lambda = .ok (.fn .lambda .nil (.ofList ps) body env home) := by
  simp [makeFunctionInternal, listToVec_ofList, collectParams_plain _ _ _ _ _ h]

section runs
variable {st : St} {G : Globals}

/-- `((lambda (v …) body) e …)`: the expansion of `let`, `block`, `or` -/
theorem RunsJ.letForm (hs : C05.Sees st G) {m : Meta} {ps args vs : List Val} {body env newEnv : Val} {home : Name}
    {d : Nat} {r : Res Val} (hd : d + 1 ≤ Config.maxRecursionDepth) (hpl : plainParams ps = true)
    (ha : RunsArgsJ st args env home d (.ok vs))
    (hp : pairParamsAndArgs .nil (.ofList ps) env none vs = .ok newEnv)
    (hb : RunsJ st body newEnv home d r) :
    RunsJ st (.ofList (.ofList [symA cs!"lambda" m, .ofList ps, body] :: args)) env home d r :=
  RunsJ.callClosure hs.detached (by omega) (listToVec_ofList _) rfl
    (RunsJ.of_eval hs (makeFunction_plain ps body env home hpl ▸ ev_lambda hd)) rfl ha hp hb

theorem RunsJ.loc (hs : C05.Sees st G) {n : Name} {m : Meta} {v env : Val} {home : Name} {d : Nat}
    (hd : d ≤ Config.maxRecursionDepth) (h : lookupEnv (.named n) env = some v) :
    RunsJ st (symA n m) env home d (.ok v) := RunsJ.of_eval hs (ev_local hd h)

theorem RunsJ.glob (hs : C05.Sees st G) {n : Name} {m : Meta} {v env : Val} {home : Name} {d : Nat}
    (hd : d ≤ Config.maxRecursionDepth) (h : lookupEnv (.named n) env = none) (hG : G n home = .found v) :
    RunsJ st (symA n m) env home d (.ok v) := RunsJ.of_eval hs (ev_global hd h hG)

theorem RunsArgsJ.one {x : Val} {env : Val} {home : Name} {d : Nat} {v : Val}
    (h : RunsJ st x env home (d + 1) (.ok v)) : RunsArgsJ st [x] env home d (.ok [v]) :=
  RunsArgsJ.cons h (RunsArgsJ.nil _ _ _ _)

theorem RunsArgsJ.two {x y : Val} {env : Val} {home : Name} {d : Nat} {v w : Val}
    (h1 : RunsJ st x env home (d + 1) (.ok v)) (h2 : RunsJ st y env home (d + 1) (.ok w)) :
    RunsArgsJ st [x, y] env home d (.ok [v, w]) :=
  RunsArgsJ.cons h1 (RunsArgsJ.one h2)

theorem RunsArgsJ.three {x y z : Val} {env : Val} {home : Name} {d : Nat} {v w u : Val}
    (h1 : RunsJ st x env home (d + 1) (.ok v)) (h2 : RunsJ st y env home (d + 1) (.ok w))
    (h3 : RunsJ st z env home (d + 1) (.ok u)) :
    RunsArgsJ st [x, y, z] env home d (.ok [v, w, u]) :=
  RunsArgsJ.cons h1 (RunsArgsJ.two h2 h3)

/-- a call of a native that does not re-enter the evaluator and answers `r` in every state that differs from `st` by its
step count -/
theorem RunsJ.callSimple (hatt : st.attached = false) {e env : Val} {home : Name} {d : Nat} {first : Val}
    {operands args : List Val} {f : Val} {id : NativeId} {r : Res Val}
    (hd : d ≤ Config.maxRecursionDepth) (hl : listToVec e = some (first :: operands)) (hsp : isSpecial first = false)
    (hop : RunsJ st first env home (d + 1) (.ok f)) (hf : f.get = .native id)
    (h1 : id ≠ .eval) (h2 : id ≠ .macroexpand) (h3 : id ≠ .callNativeFunction) (h4 : id ≠ .makeFunction) (h5 : id ≠ .loadAll)
    (ha : RunsArgsJ st operands env home d (.ok args))
    (hn : ∀ j, simpleNative id args (d + 1) (C05.bump st j) = (r, C05.bump st j)) :
    RunsJ st e env home d r :=
  RunsJ.callNativeRes hatt hd hl hsp hop hf h1 ha
    (fun fuel j => by rw [applyNative_simple fuel _ id args env (d + 1) h1 h2 h3 h4 h5, hn j])

/-- the special form `(trap normal handler)` builds a trap object -/
theorem RunsJ.trapForm (hatt : st.attached = false) {e env : Val} {home : Name} {d : Nat} {first n h : Val}
    (hd : d ≤ Config.maxRecursionDepth) (hl : listToVec e = some [first, n, h])
    (hlam : first.isSymNamed cs!"lambda" = false) (hq : first.isSymNamed cs!"quote" = false)
    (hif : first.isSymNamed cs!"if" = false) (htrap : first.isSymNamed cs!"trap" = true) :
    RunsJ st e env home d (.ok (.trap n h)) := by
  refine RunsJ.step fun j => ⟨0, 1, fun k _ => ?_⟩
  rw [evalInternal, if_neg (Nat.not_lt.mpr hd), poll_bump st hatt j]
  simp only [hl, hlam, hq, hif, htrap, arity2]
  simp

end runs

/-! ### `(eval (trap normal handler))` -/

/-- macro expansion leaves a trap object alone -/
theorem expandCompletely_trap (fuel : Nat) (st : St) (n h env : Val) (mod : Name) (d : Nat)
    (hd : d + 1 ≤ Config.maxRecursionDepth) :
    expandCompletely (fuel + 2) st (.trap n h) env mod d = (.ok (.trap n h), st) := by
  rw [expandCompletely, expandInternal, if_neg (Nat.not_lt.mpr hd)]
  simp [listToVec, Val.get]

/-- an application of the native `eval`: the argument is macro-expanded one level below, the expansion evaluated at the
depth of the application -/
theorem evalInternal_evalNative (fuel : Nat) (st st1 st2 st3 : St) (e first : Val) (operands : List Val) (env : Val)
    (mod : Name) (d : Nat) (operator x : Val)
    (hl : listToVec e = some (first :: operands)) (hsp : isSpecial first = false)
    (hd : d ≤ Config.maxRecursionDepth) (hpoll : pollDebugger st = (none, st1))
    (hop : evalInternal fuel st1 first env mod (d + 1) = (.ok operator, st2))
    (hf : operator.get = .native .eval)
    (hargs : evalArgs fuel st2 operands env mod d = (.ok [x], st3)) :
    evalInternal (fuel + 1) st e env mod d =
      (match expandCompletely fuel st3 x env mod (d + 1) with
       | (.ok expanded, st) => evalInternal fuel st expanded env mod d
       | (.err s, st)       => (.err s, st)
       | (.crash s, st)     => (.crash s, st)
       | (.outOfFuel, st)   => (.outOfFuel, st)) := by
  obtain ⟨hlam, hq, hif, htrap⟩ := isSpecial_false hsp
  rw [evalInternal, if_neg (Nat.not_lt.mpr hd), hpoll]
  simp only [hl, hif, hlam, hq, htrap, hop, hf, hargs]
  simp only [arity1, Bool.false_eq_true, if_false, beq_self_eq_true, if_true]
  rfl

/-- `(eval t)` where `t` evaluates to a trap object whose normal body yields a value: that value (the handler never
runs); the normal body runs one level below the call of `eval` -/
theorem RunsJ.evalTrap {st : St} (hatt : st.attached = false) {e env : Val} {home : Name} {d : Nat} {first targ f n h : Val}
    {v : Val} (hd : d + 2 ≤ Config.maxRecursionDepth) (hl : listToVec e = some [first, targ])
    (hsp : isSpecial first = false)
    (hop : RunsJ st first env home (d + 1) (.ok f)) (hf : f.get = .native .eval)
    (harg : RunsJ st targ env home (d + 1) (.ok (.trap n h)))
    (hn : RunsJ st n env home (d + 1) (.ok v)) :
    RunsJ st e env home d (.ok v) := by
  have hd0 : d ≤ Config.maxRecursionDepth := by omega
  refine RunsJ.step fun j => ?_
  obtain ⟨F1, k1, hF1⟩ := hop (j + 1)
  obtain ⟨F2, k2, hF2⟩ := (RunsArgsJ.one harg) (j + 1 + k1)
  obtain ⟨F3, k3, hF3⟩ := hn (j + 1 + k1 + k2 + 1)
  refine ⟨F1 + F2 + F3 + 3, 1 + k1 + k2 + 1 + k3, fun m hm => ?_⟩
  obtain ⟨m', rfl⟩ : ∃ m', m = m' + 2 := ⟨m - 2, by omega⟩
  rw [evalInternal_evalNative (m' + 2) _ _ _ _ e first [targ] env home d f (.trap n h) hl hsp hd0 (poll_bump st hatt j)
    (hF1 _ (by omega)) hf (hF2 _ (by omega))]
  rw [expandCompletely_trap m' _ n h env home (d + 1) (by omega)]
  show evalInternal (m' + 1 + 1) _ (.trap n h) env home d = _
  rw [evalInternal_trap_step (m' + 1) _ _ (.trap n h) n h env home d rfl rfl hd0 (poll_bump st hatt _), hF3 _ (by omega)]
  simp only [Nat.add_assoc]

end Pici
