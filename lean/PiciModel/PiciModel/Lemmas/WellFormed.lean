/-
Helper lemmas for C06: well-formedness (`noNested`, `StOK`) of what the reader and the simple natives build.
-/
import PiciModel.Spec.WF
import PiciModel.Lemmas.ReaderTotal
import PiciModel.Lemmas.ModuleState

namespace Pici

/-! ### `noNested` on the constructors and on the builders of values -/

@[simp] theorem noNested_nil : noNested .nil = true := rfl
@[simp] theorem noNested_num (n : Int) : noNested (.num n) = true := rfl
@[simp] theorem noNested_chr (c : Char) : noNested (.chr c) = true := rfl
@[simp] theorem noNested_sym (s : Sym) : noNested (.sym s) = true := rfl
@[simp] theorem noNested_native (id : NativeId) : noNested (.native id) = true := rfl
@[simp] theorem noNested_symName (n : Name) : noNested (.symName n) = true := rfl
@[simp] theorem noNested_cons (a d : Val) : noNested (.cons a d) = (noNested a && noNested d) := by
  simp [noNested]
@[simp] theorem noNested_trap (n h : Val) : noNested (.trap n h) = (noNested n && noNested h) := by
  simp [noNested]
@[simp] theorem noNested_fn (k : Kind) (r p b e : Val) (m : Name) :
    noNested (.fn k r p b e m) = (noNested r && noNested p && noNested b && noNested e) := by
  simp [noNested]

/-- a metadata cell around a value that is not a metadata cell -/
theorem noNested_md_of_unmeta {v : Val} (m : Meta) (h : ∀ w m', v ≠ .md w m') : noNested (.md v m) = noNested v := by
  cases v <;> first | rfl | exact absurd rfl (h _ _)

theorem noNested_md_inner {v : Val} {m : Meta} (h : noNested (.md v m) = true) : noNested v = true := by
  cases v <;> first | exact h | (simp [noNested] at h)

@[simp] theorem noNested_ofList (xs : List Val) : noNested (.ofList xs) = xs.all noNested := by
  induction xs with
  | nil => rfl
  | cons x xs ih => simp [Val.ofList, ih]

@[simp] theorem noNested_ofChars (cs : List Char) : noNested (.ofChars cs) = true := by
  simp [Val.ofChars]

@[simp] theorem noNested_ofString (cs : List Char) : noNested (.ofString cs) = true := by
  simp [Val.ofString]

@[simp] theorem noNested_plist (kv : List (Name × Val)) : noNested (plist kv) = kv.all (fun p => noNested p.2) := by
  unfold plist
  rw [noNested_ofList]
  induction kv with
  | nil => rfl
  | cons p kv ih => obtain ⟨k, v⟩ := p; simp [ih]

@[simp] theorem noNested_makeError (kind source : Name) (details : List (Name × Val)) :
    noNested (makeError kind source details) = details.all (fun p => noNested p.2) := by
  simp [makeError]

@[simp] theorem noNested_fitToNumber (n : Nat) : noNested (fitToNumber n) = true := by
  unfold fitToNumber; split <;> rfl

@[simp] theorem noNested_wrongArity (source : Name) (a b : Nat) : noNested (wrongArity source a b) = true := by
  simp [wrongArity]

@[simp] theorem noNested_wrongType (source : Name) (v : Val) (t : TypeLabel) :
    noNested (wrongType source v t) = noNested v := by
  simp [wrongType]

@[simp] theorem noNested_stackoverflow (source : Name) : noNested (stackoverflow source) = true := by
  simp [stackoverflow]

@[simp] theorem noNested_wrapQuote (v : Val) : noNested (wrapQuote v) = noNested v := by
  simp [wrapQuote, quoteSym]

@[simp] theorem noNested_locFile (src : Src) : noNested (locFile src) = true := by
  cases src <;> simp [locFile]

@[simp] theorem noNested_metadataPlist (m : Meta) : noNested (metadataPlist m) = true := by
  unfold metadataPlist
  split <;> simp

/-! ### components of well-formed values -/

theorem noNested_unmeta {v : Val} (h : noNested v = true) : noNested v.unmeta = true := by
  cases v <;> first | exact h | exact noNested_md_inner h

theorem noNested_get : ∀ {v : Val}, noNested v = true → noNested v.get = true
  | .md v m, h => by
    have := noNested_get (noNested_md_inner h)
    simpa [Val.get] using this
  | .nil, _ => rfl
  | .num _, _ => rfl
  | .chr _, _ => rfl
  | .sym _, _ => rfl
  | .native _, _ => rfl
  | .cons a d, h => h
  | .fn .., h => h
  | .trap .., h => h

theorem noNested_of_get_eq {v w : Val} (h : noNested v = true) (hw : v.get = w) : noNested w = true := by
  subst hw; exact noNested_get h

theorem noNested_listToVec : ∀ {v : Val} {xs : List Val}, noNested v = true → listToVec v = some xs →
    ∀ x ∈ xs, noNested x = true
  | .nil, xs, _, hv => by simp [listToVec] at hv; subst hv; simp
  | .md .nil _, xs, _, hv => by simp [listToVec] at hv; subst hv; simp
  | .cons a d, xs, h, hv => by
    simp only [listToVec, Option.map_eq_some_iff] at hv
    obtain ⟨ys, hys, rfl⟩ := hv
    simp only [noNested_cons, Bool.and_eq_true] at h
    intro x hx
    rcases List.mem_cons.1 hx with rfl | hx
    · exact h.1
    · exact noNested_listToVec h.2 hys x hx
  | .md (.cons a d) m, xs, h, hv => by
    simp only [listToVec, Option.map_eq_some_iff] at hv
    obtain ⟨ys, hys, rfl⟩ := hv
    have h := noNested_md_inner h
    simp only [noNested_cons, Bool.and_eq_true] at h
    intro x hx
    rcases List.mem_cons.1 hx with rfl | hx
    · exact h.1
    · exact noNested_listToVec h.2 hys x hx
  | .num _, _, _, hv => by simp [listToVec] at hv
  | .chr _, _, _, hv => by simp [listToVec] at hv
  | .sym _, _, _, hv => by simp [listToVec] at hv
  | .native _, _, _, hv => by simp [listToVec] at hv
  | .fn .., _, _, hv => by simp [listToVec] at hv
  | .trap .., _, _, hv => by simp [listToVec] at hv
  | .md (.num _) _, _, _, hv => by simp [listToVec] at hv
  | .md (.chr _) _, _, _, hv => by simp [listToVec] at hv
  | .md (.sym _) _, _, _, hv => by simp [listToVec] at hv
  | .md (.native _) _, _, _, hv => by simp [listToVec] at hv
  | .md (.fn ..) _, _, _, hv => by simp [listToVec] at hv
  | .md (.trap ..) _, _, _, hv => by simp [listToVec] at hv
  | .md (.md ..) _, _, _, hv => by simp [listToVec] at hv

theorem all_noNested_iff {xs : List Val} : xs.all noNested = true ↔ ∀ x ∈ xs, noNested x = true := by
  simp

/-! ### the reader -/

/-- every value paired with a character is well formed -/
def ItemsOK (items : List (Char × Val)) : Prop := ∀ p ∈ items, noNested p.2 = true

/-- every element of every open list is well formed -/
def StackOK (stack : List (List Val × Bool)) : Prop := ∀ p ∈ stack, ∀ x ∈ p.1, noNested x = true

theorem explode_ok : ∀ {v : Val}, noNested v = true → ItemsOK (explode v).1
  | .cons a d, h => by
    simp only [noNested_cons, Bool.and_eq_true] at h
    unfold explode
    split
    · intro p hp
      rcases List.mem_cons.1 hp with rfl | hp
      · exact h.2
      · exact explode_ok h.2 p hp
    · intro p hp; cases hp
  | .md (.cons a d) m, h => by
    have h := noNested_md_inner h
    simp only [noNested_cons, Bool.and_eq_true] at h
    unfold explode
    split
    · intro p hp
      rcases List.mem_cons.1 hp with rfl | hp
      · exact h.2
      · exact explode_ok h.2 p hp
    · intro p hp; cases hp
  | .nil, _ => by intro p hp; simp [explode] at hp
  | .md .nil _, _ => by intro p hp; simp [explode] at hp
  | .num _, _ => by intro p hp; simp [explode] at hp
  | .chr _, _ => by intro p hp; simp [explode] at hp
  | .sym _, _ => by intro p hp; simp [explode] at hp
  | .native _, _ => by intro p hp; simp [explode] at hp
  | .fn .., _ => by intro p hp; simp [explode] at hp
  | .trap .., _ => by intro p hp; simp [explode] at hp
  | .md (.num _) _, _ => by intro p hp; simp [explode] at hp
  | .md (.chr _) _, _ => by intro p hp; simp [explode] at hp
  | .md (.sym _) _, _ => by intro p hp; simp [explode] at hp
  | .md (.native _) _, _ => by intro p hp; simp [explode] at hp
  | .md (.fn ..) _, _ => by intro p hp; simp [explode] at hp
  | .md (.trap ..) _, _ => by intro p hp; simp [explode] at hp
  | .md (.md ..) _, _ => by intro p hp; simp [explode] at hp

theorem tokenAtom_ok {t : TokenValue} {loc : Loc} {x : Val} (h : tokenAtom t loc = some x) : noNested x = true := by
  cases t <;> simp only [tokenAtom, Option.some.injEq, reduceCtorEq] at h <;> subst h
  · rfl
  · rfl
  · rfl
  · show noNested (Val.ofString _) = true
    simp

@[simp] theorem noNested_ite_wrapQuote (b : Bool) (v : Val) :
    noNested (if b = true then wrapQuote v else v) = noNested v := by
  cases b <;> simp

/-- what `read_internal` returns: a well-formed value and rest, or an error with a well-formed rest -/
def ReadOK (o : Except ReadError (Val × Rest)) : Prop :=
  (∀ v rest, o = .ok (v, rest) → noNested v = true ∧ noNested rest.string = true) ∧
  (∀ msg l rest, o = .error (.error msg l rest) → noNested rest.string = true)

theorem ReadOK.ok {v : Val} {rest : Rest} (hv : noNested v = true) (hr : noNested rest.string = true) :
    ReadOK (.ok (v, rest)) := by
  refine ⟨fun v' rest' h => ?_, fun _ _ _ h => by cases h⟩
  injection h with h
  injection h with h1 h2
  subst h1 h2
  exact ⟨hv, hr⟩

theorem ReadOK.error {msg : List Char} {l : Loc} {rest : Rest} (hr : noNested rest.string = true) :
    ReadOK (.error (.error msg l rest)) := by
  refine ⟨fun _ _ h => (by cases h), fun _ _ rest' h => ?_⟩
  injection h with h
  injection h with _ _ h3
  subst h3
  exact hr

theorem ReadOK.incomplete : ReadOK (.error .incomplete) := ⟨fun _ _ h => (by cases h), fun _ _ _ h => by cases h⟩
theorem ReadOK.nothing : ReadOK (.error .nothing) := ⟨fun _ _ h => (by cases h), fun _ _ _ h => by cases h⟩
theorem ReadOK.crash (s : List Char) : ReadOK (.error (.crash s)) := ⟨fun _ _ h => (by cases h), fun _ _ _ h => by cases h⟩

theorem readLoop_ok (fuel : Nat) : ∀ (items : List (Char × Val)) (tail : Tail) (loc : Loc)
    (stack : List (List Val × Bool)) (quoted : Bool), ItemsOK items → StackOK stack →
    ReadOK (readLoop fuel items tail loc stack quoted) := by
  induction fuel with
  | zero => intro items tail loc stack quoted _ _; rw [readLoop]; exact ReadOK.crash _
  | succ fuel ih =>
    intro items tail loc stack quoted hitems hstack
    rw [readLoop]
    have hspec := nextToken_spec items tail loc
    cases hnt : nextToken items tail loc with
    | err e =>
      dsimp only
      refine ⟨fun _ _ h => (by cases h), fun msg l rest h => ?_⟩
      injection h with h
      subst h
      obtain ⟨c, hc⟩ := hspec.2 msg l rest hnt
      exact hitems _ hc
    | done => dsimp only; split; exact ReadOK.incomplete; exact ReadOK.nothing
    | token v tloc rest remaining newLoc =>
      obtain ⟨pre, c, hpre⟩ := hspec.1 _ _ _ _ _ hnt
      have hrest : noNested rest.string = true := hitems (c, rest.string) (by rw [hpre]; simp)
      have hrem : ItemsOK remaining := fun p hp => hitems p (by rw [hpre]; simp [hp])
      cases v
      case quote => exact ih _ _ _ _ _ hrem hstack
      case openParen =>
        refine ih _ _ _ _ _ hrem ?_
        intro p hp
        rcases List.mem_cons.1 hp with rfl | hp
        · intro x hx; cases hx
        · exact hstack p hp
      case closeParen =>
        dsimp only
        split
        · exact ReadOK.error hrest
        · rename_i vec q lower
          have hvec : ∀ x ∈ vec, noNested x = true := hstack (vec, q) List.mem_cons_self
          have hlist : noNested (if q = true then wrapQuote (Val.ofList vec.reverse) else Val.ofList vec.reverse) = true := by
            simpa using hvec
          split
          · rename_i lvec lq lower'
            refine ih _ _ _ _ _ hrem ?_
            intro p hp
            rcases List.mem_cons.1 hp with rfl | hp
            · intro x hx
              rcases List.mem_cons.1 hx with rfl | hx
              · exact hlist
              · exact hstack (lvec, lq) (by simp) x hx
            · exact hstack p (by simp [hp])
          · refine ReadOK.ok ?_ hrest
            rw [noNested_ite_wrapQuote]; exact hlist
      all_goals
        dsimp only
        split
        · exact ReadOK.crash _
        · rename_i x hx
          have hxok : noNested x = true := tokenAtom_ok hx
          have hy : noNested (if quoted = true then wrapQuote x else x) = true := by
            rw [noNested_ite_wrapQuote]; exact hxok
          split
          · rename_i vec q lower
            refine ih _ _ _ _ _ hrem ?_
            intro p hp
            rcases List.mem_cons.1 hp with rfl | hp
            · intro y hy'
              rcases List.mem_cons.1 hy' with rfl | hy'
              · exact hy
              · exact hstack (vec, q) (by simp) y hy'
            · exact hstack p (by simp [hp])
          · exact ReadOK.ok hy hrest

theorem readInternal_ok (input : Val) (loc : Loc) (hin : noNested input = true) : ReadOK (readInternal input loc) := by
  unfold readInternal
  exact readLoop_ok _ _ _ _ _ _ (explode_ok hin) (fun p hp => by cases hp)

/-! ### states -/

theorem lookup_mem {defs : List (Name × Val)} {n : Name} {v : Val} (h : defs.lookup n = some v) : (n, v) ∈ defs := by
  induction defs with
  | nil => cases h
  | cons p ds ih =>
    obtain ⟨k, x⟩ := p
    simp only [List.lookup] at h
    split at h
    · rename_i heq
      have hk : n = k := by simpa using heq
      injection h with h
      subst hk h
      exact List.mem_cons_self
    · exact List.mem_cons_of_mem _ (ih h)

theorem mem_insertDef {defs : List (Name × Val)} {n : Name} {v : Val} {p : Name × Val}
    (h : p ∈ St.insertDef defs n v) : p = (n, v) ∨ p ∈ defs := by
  induction defs with
  | nil => simp [St.insertDef] at h; exact Or.inl h
  | cons q ds ih =>
    obtain ⟨k, x⟩ := q
    simp only [St.insertDef] at h
    split at h
    · rcases List.mem_cons.1 h with h | h
      · exact Or.inl h
      · exact Or.inr (List.mem_cons_of_mem _ h)
    · rcases List.mem_cons.1 h with h | h
      · exact Or.inr (h ▸ List.mem_cons_self)
      · rcases ih h with h | h
        · exact Or.inl h
        · exact Or.inr (List.mem_cons_of_mem _ h)

theorem mem_putModule {ms : List Module} {m x : Module} (h : x ∈ St.putModule ms m) : x = m ∨ x ∈ ms := by
  induction ms with
  | nil => simp [St.putModule] at h; exact Or.inl h
  | cons y ys ih =>
    simp only [St.putModule] at h
    split at h
    · rcases List.mem_cons.1 h with h | h
      · exact Or.inl h
      · exact Or.inr (List.mem_cons_of_mem _ h)
    · rcases List.mem_cons.1 h with h | h
      · exact Or.inr (h ▸ List.mem_cons_self)
      · rcases ih h with h | h
        · exact Or.inl h
        · exact Or.inr (List.mem_cons_of_mem _ h)

namespace StOK

/-- `StOK` only looks at the module table and the name of the current module -/
theorem of_eq {st st' : St} (h : StOK st) (hm : st'.modules = st.modules) (hc : st'.current = st.current) : StOK st' := by
  unfold StOK St.findModule at *
  rw [hm, hc]; exact h

theorem findModule_defs {st : St} (h : StOK st) {n : Name} {m : Module} (hm : st.findModule n = some m) :
    ∀ p ∈ m.defs, noNested p.2 = true :=
  h.2 m (List.mem_of_find?_eq_some hm)

theorem currentModule_defs {st : St} (h : StOK st) : ∀ p ∈ st.currentModule.defs, noNested p.2 = true := by
  unfold St.currentModule
  cases hf : st.findModule st.current with
  | none => intro p hp; cases hp
  | some m => exact h.findModule_defs hf

theorem updateCurrent {st : St} (h : StOK st) (f : Module → Module)
    (hf : ∀ p ∈ (f st.currentModule).defs, noNested p.2 = true) : StOK (st.updateCurrent f) := by
  refine ⟨(St.keeps_updateCurrent st f).2 _ h.1, fun m hm => ?_⟩
  rcases mem_putModule hm with rfl | hm
  · exact hf
  · exact h.2 m hm

theorem defineGlobal {st : St} (h : StOK st) (n : Name) (v : Val) (hv : noNested v = true) : StOK (st.defineGlobal n v) := by
  refine h.updateCurrent _ fun p hp => ?_
  rcases mem_insertDef hp with rfl | hp
  · exact hv
  · exact h.currentModule_defs p hp

theorem undefineGlobal {st : St} (h : StOK st) (n : Name) : StOK (st.undefineGlobal n) :=
  h.updateCurrent _ fun p hp => h.currentModule_defs p (List.mem_filter.1 hp).1

theorem addExport {st : St} (h : StOK st) (n : Name) : StOK (st.addExport n) :=
  h.updateCurrent _ fun p hp => h.currentModule_defs p hp

theorem send {st : St} (h : StOK st) (msg : List (Name × List Char)) : StOK (st.send msg) :=
  h.of_eq (St.send_modules st msg) (St.send_current st msg)

theorem write {st : St} (h : StOK st) (t : List Char) : StOK (st.write t) := h.of_eq rfl rfl

theorem readLine {st : St} (h : StOK st) : StOK st.readLine.2 := by
  unfold St.readLine
  simp only
  split
  · exact h.of_eq rfl rfl
  · split <;> exact h.of_eq rfl rfl

theorem getGlobalFromModule {st : St} (h : StOK st) {n m : Name} {v : Val}
    (hv : st.getGlobalFromModule n m = .found v) : noNested v = true := by
  unfold St.getGlobalFromModule at hv
  repeat' split at hv
  all_goals first
    | (cases hv; done)
    | (injection hv with hv; subst hv; exact h.findModule_defs ‹_› _ (lookup_mem ‹_›))

theorem module_get {st : St} (h : StOK st) {m : Module} (hm : m ∈ st.modules) {n home : Name} {v : Val}
    (hv : m.get n home = some v) : noNested v = true := by
  unfold Module.get at hv
  repeat' split at hv
  all_goals first
    | (cases hv; done)
    | exact h.2 m hm _ (lookup_mem hv)

theorem getGlobal {st : St} (h : StOK st) {n home : Name} {v : Val}
    (hv : st.getGlobal n home = .found v) : noNested v = true := by
  unfold St.getGlobal at hv
  simp only at hv
  split at hv
  · cases hv
  · rename_i name w hhits
    injection hv with hv
    subst hv
    have hmem : (name, w) ∈ st.modules.filterMap fun m => (m.get n home).map fun v => (m.name, v) := by
      rw [hhits]; exact List.mem_cons_self
    obtain ⟨m, hm, hget⟩ := List.mem_filterMap.1 hmem
    simp only [Option.map_eq_some_iff] at hget
    obtain ⟨w', hw', heq⟩ := hget
    injection heq with _ heq
    subst heq
    exact h.module_get hm hw'
  · cases hv

end StOK

/-! ### outcomes of natives -/

/-- the state is well formed, and so is the value or the signal -/
def WFOut (o : Out) : Prop :=
  StOK o.2 ∧ (∀ v, o.1 = .ok v → noNested v = true) ∧ (∀ s, o.1 = .err s → noNested s = true)

theorem WFOut.ok {st : St} {v : Val} (hst : StOK st) (hv : noNested v = true) : WFOut (.ok v, st) :=
  ⟨hst, fun _ h => (by injection h with h; subst h; exact hv), fun _ h => (by cases h)⟩

theorem WFOut.err {st : St} {s : Val} (hst : StOK st) (hs : noNested s = true) : WFOut (.err s, st) :=
  ⟨hst, fun _ h => (by cases h), fun _ h => (by injection h with h; subst h; exact hs)⟩

theorem WFOut.crash {st : St} {s : List Char} (hst : StOK st) : WFOut (.crash s, st) :=
  ⟨hst, fun _ h => (by cases h), fun _ h => (by cases h)⟩

theorem WFOut.outOfFuel {st : St} (hst : StOK st) : WFOut (.outOfFuel, st) :=
  ⟨hst, fun _ h => (by cases h), fun _ h => (by cases h)⟩

/-- `(input-file *stdin*)`, time-outs and debugger commands included -/
theorem wf_inputStdin (n : Nat) {st : St} (hst : StOK st) : WFOut (inputStdin n st) := by
  refine inputStdin_induction (fun st o => StOK st → WFOut o) ?_ ?_ ?_ n st hst
  · intro st hst
    have hrl := hst.readLine
    unfold readLineOutcome
    split
    all_goals
      rename_i heq
      rw [heq] at hrl
    · exact WFOut.ok hrl (by simp)
    · exact WFOut.err hrl (by simp)
    · exact WFOut.err hrl (by simp)
  · rintro st r after rest (rfl | rfl) hst
    · exact WFOut.err (hst.of_eq rfl rfl) (by simp)
    · exact WFOut.err (hst.of_eq rfl rfl) rfl
  · intro st chunks inbox o h hst
    exact h (hst.of_eq rfl rfl)

section combinators
variable {src : Name} {args : List Val} {st : St}

theorem wf_arity0 {k : Out} (hst : StOK st) (hk : WFOut k) : WFOut (arity0 src args k st) := by
  unfold arity0; split
  · exact hk
  · exact WFOut.err hst (by simp)

theorem wf_arity1 {k : Val → Out} (hst : StOK st) (hargs : ∀ v ∈ args, noNested v = true)
    (hk : ∀ x, noNested x = true → WFOut (k x)) : WFOut (arity1 src args st k) := by
  unfold arity1; split
  · exact hk _ (hargs _ (by simp))
  · exact WFOut.err hst (by simp)

theorem wf_arity2 {k : Val → Val → Out} (hst : StOK st) (hargs : ∀ v ∈ args, noNested v = true)
    (hk : ∀ x y, noNested x = true → noNested y = true → WFOut (k x y)) : WFOut (arity2 src args st k) := by
  unfold arity2; split
  · exact hk _ _ (hargs _ (by simp)) (hargs _ (by simp))
  · exact WFOut.err hst (by simp)

theorem wf_arity3 {k : Val → Val → Val → Out} (hst : StOK st) (hargs : ∀ v ∈ args, noNested v = true)
    (hk : ∀ x y z, noNested x = true → noNested y = true → noNested z = true → WFOut (k x y z)) :
    WFOut (arity3 src args st k) := by
  unfold arity3; split
  · exact hk _ _ _ (hargs _ (by simp)) (hargs _ (by simp)) (hargs _ (by simp))
  · exact WFOut.err hst (by simp)

theorem wf_asNumber {v : Val} {k : Int → Out} (hst : StOK st) (hv : noNested v = true)
    (hk : ∀ n, WFOut (k n)) : WFOut (asNumber src v st k) := by
  unfold asNumber; split
  · exact hk _
  · exact WFOut.err hst (by simpa using hv)

theorem wf_asSymbol {v : Val} {k : Sym → Out} (hst : StOK st) (hv : noNested v = true)
    (hk : ∀ s, WFOut (k s)) : WFOut (asSymbol src v st k) := by
  unfold asSymbol; split
  · exact hk _
  · exact WFOut.err hst (by simpa using hv)

theorem wf_asList {v : Val} {k : List Val → Out} (hst : StOK st) (hv : noNested v = true)
    (hk : ∀ xs, (∀ x ∈ xs, noNested x = true) → WFOut (k xs)) : WFOut (asList src v st k) := by
  unfold asList; split
  · exact hk _ (noNested_listToVec hv ‹_›)
  · exact WFOut.err hst (by simpa using hv)

theorem wf_asString {v : Val} {k : List Char → Out} (hst : StOK st) (hv : noNested v = true)
    (hk : ∀ s, WFOut (k s)) : WFOut (asString src v st k) := by
  unfold asString; split
  · exact hk _
  · exact WFOut.err hst (by simpa using hv)

end combinators

theorem wf_arith (src : Name) (op) (args : List Val) (st : St) (hst : StOK st) (hargs : ∀ v ∈ args, noNested v = true) :
    WFOut (arith src op args st) := by
  unfold arith
  refine wf_arity2 hst hargs fun x y hx hy => wf_asNumber hst hx fun a => wf_asNumber hst hy fun b => ?_
  split
  · exact WFOut.ok hst rfl
  · exact WFOut.err hst (by simp)

theorem wf_compare (src : Name) (op) (args : List Val) (st : St) (hst : StOK st) (hargs : ∀ v ∈ args, noNested v = true) :
    WFOut (compare src op args st) := by
  unfold compare
  refine wf_arity2 hst hargs fun x y hx hy => wf_asNumber hst hx fun a => wf_asNumber hst hy fun b => ?_
  split <;> exact WFOut.ok hst rfl

theorem wf_divide (args : List Val) (st : St) (hst : StOK st) (hargs : ∀ v ∈ args, noNested v = true) :
    WFOut (divideNative args st) := by
  unfold divideNative
  refine wf_arity2 hst hargs fun x y hx hy => wf_asNumber hst hx fun a => wf_asNumber hst hy fun b => ?_
  split
  · exact WFOut.err hst (by simp)
  · split
    · exact WFOut.ok hst rfl
    · exact WFOut.err hst (by simp)

theorem wf_exportLoop (ns : List Val) : ∀ (st : St), StOK st → (∀ x ∈ ns, noNested x = true) → WFOut (exportLoop st ns) := by
  induction ns with
  | nil => intro st hst _; exact WFOut.ok hst rfl
  | cons n ns ih =>
    intro st hst hns
    unfold exportLoop
    split
    · exact ih _ (hst.addExport _) (fun x hx => hns x (List.mem_cons_of_mem _ hx))
    · exact WFOut.err hst (by simpa using hns n List.mem_cons_self)

theorem getPropertyInternal_ok (key : Sym) : ∀ (xs : List Val) (v : Val), (∀ x ∈ xs, noNested x = true) →
    getPropertyInternal key xs = some v → noNested v = true
  | [], v, _, h => by simp [getPropertyInternal] at h; subst h; rfl
  | [k], v, _, h => by
    simp only [getPropertyInternal] at h
    repeat' split at h
    all_goals first
      | (cases h; done)
      | (injection h with h; subst h; rfl)
  | k :: w :: r, v, hxs, h => by
    simp only [getPropertyInternal] at h
    repeat' split at h
    all_goals first
      | (cases h; done)
      | (injection h with h; subst h; exact hxs _ (by simp))
      | exact getPropertyInternal_ok key r v (fun x hx => hxs x (by simp [hx])) h

/-- what `read` found is well formed -/
def ReadOutcome.OK : ReadOutcome → Prop
  | .ok result rest  => noNested result = true ∧ noNested rest.string = true
  | .error _ _ rest  => noNested rest.string = true
  | _                => True

theorem noNested_toPlist {o : ReadOutcome} (h : o.OK) : noNested o.toPlist = true := by
  cases o <;> simp_all [ReadOutcome.OK, ReadOutcome.toPlist, formatReadError]

theorem readCore_ok (args : List Val) (d : Nat) (hargs : ∀ v ∈ args, noNested v = true) :
    (∀ o, readCore args d = .ok o → o.OK) ∧ (∀ s, readCore args d = .err s → noNested s = true) := by
  have hall : ∀ {v loc r}, readInternal v loc = r → v ∈ args → ReadOK r :=
    fun h hv => h ▸ readInternal_ok _ _ (hargs _ hv)
  unfold readCore
  repeat' first | split | (dsimp only)
  all_goals refine ⟨fun o h => ?_, fun s h => ?_⟩
  all_goals first
    | (cases h; done)
    | (injection h with h; subst h
       first
        | exact trivial
        | (have := hall ‹readInternal _ _ = _› List.mem_cons_self
           first
            | exact this.1 _ _ rfl
            | exact this.2 _ _ _ rfl)
        | (simp; done)
        | (simp [hargs]; done))

theorem readNative_ok (args : List Val) (d : Nat) (hargs : ∀ v ∈ args, noNested v = true) :
    (∀ v, readNative args d = .ok v → noNested v = true) ∧ (∀ s, readNative args d = .err s → noNested s = true) := by
  have h := readCore_ok args d hargs
  unfold readNative
  split
  · rename_i o ho
    exact ⟨fun v hv => (by injection hv with hv; subst hv; exact noNested_toPlist (h.1 o ho)), fun s hs => (by cases hs)⟩
  · rename_i e he
    exact ⟨fun v hv => (by cases hv), fun s hs => (by injection hs with hs; subst hs; exact h.2 _ he)⟩
  · exact ⟨fun v hv => (by cases hv), fun s hs => (by cases hs)⟩
  · exact ⟨fun v hv => (by cases hv), fun s hs => (by cases hs)⟩

theorem printText_ok (args : List Val) (d : Nat) (s : Val) (h : printText args d = .err s) : noNested s = true := by
  unfold printText at h
  repeat' split at h
  all_goals first
    | (cases h; done)
    | (injection h with h; subst h; simp; done)

theorem printNative_ok (args : List Val) (d : Nat) :
    (∀ v, printNative args d = .ok v → noNested v = true) ∧ (∀ s, printNative args d = .err s → noNested s = true) := by
  have h := printText_ok args d
  unfold printNative
  split
  · exact ⟨fun v hv => (by injection hv with hv; subst hv; simp), fun s hs => (by cases hs)⟩
  · rename_i e he
    exact ⟨fun v hv => (by cases hv), fun s hs => (by injection hs with hs; subst hs; exact h _ he)⟩
  · exact ⟨fun v hv => (by cases hv), fun s hs => (by cases hs)⟩
  · exact ⟨fun v hv => (by cases hv), fun s hs => (by cases hs)⟩

theorem noNested_functionParams {r p : Val} (hr : noNested r = true) (hp : noNested p = true) :
    noNested (functionParams r p) = true := by
  unfold functionParams
  rw [noNested_ofList, List.all_append, Bool.and_eq_true]
  constructor
  · cases hl : listToVec p with
    | none => simp
    | some xs =>
      simp only [Option.getD_some, List.all_eq_true]
      intro x hx
      exact noNested_listToVec hp hl x hx
  · cases r <;> simp_all [Val.restParam?, Val.symName, noNested]

@[simp] theorem noNested_ofList_symNames (ns : List Name) : noNested (.ofList (ns.map Val.symName)) = true := by
  simp

theorem restParam?_some {r x : Val} (h : r.restParam? = some x) : x = r := by
  cases r <;> simp [Val.restParam?] at h <;> exact h.symm

theorem noNested_getD_listToVec {p : Val} (hp : noNested p = true) : ∀ x ∈ (listToVec p).getD [], noNested x = true := by
  cases h : listToVec p with
  | none => intro x hx; cases hx
  | some xs => exact noNested_listToVec hp h

/-- the value `define` stores: the `allocate_metadata` panic excluded, it is well formed -/
theorem define_stored_ok {name value stored : Val} {d : List Char} (hv : noNested value = true)
    (h : (match name.getMeta with
          | some m => (match value.unmeta with
                       | .md _ _ => none
                       | inner   => some (Val.md inner { m with doc := d }))
          | none   => some value) = some stored) : noNested stored = true := by
  split at h
  · split at h
    · cases h
    · rename_i hnot
      injection h with h
      subst h
      rw [noNested_md_of_unmeta _ (fun w m' hw => hnot w m' hw)]
      exact noNested_unmeta hv
  · injection h with h
    subst h
    exact hv

/-- with well-formed arguments `define` does not reach the `allocate_metadata` panic -/
theorem define_stored_some {name value : Val} {d : List Char} (hv : noNested value = true) :
    (match name.getMeta with
     | some m => (match value.unmeta with
                  | .md _ _ => none
                  | inner   => some (Val.md inner { m with doc := d }))
     | none   => some value) ≠ none := by
  split
  · split
    · rename_i w m' hw
      cases value <;> simp [Val.unmeta] at hw
      subst hw
      simp [noNested] at hv
    · intro h; cases h
  · intro h; cases h

theorem simpleNative_wf (id : NativeId) (args : List Val) (d : Nat) (st : St)
    (hst : StOK st) (hargs : ∀ v ∈ args, noNested v = true) : WFOut (simpleNative id args d st) := by
  cases id <;> simp only [simpleNative]
  case cons => exact wf_arity2 hst hargs fun a d ha hd => WFOut.ok hst (by simp [ha, hd])
  case car =>
    refine wf_arity1 hst hargs fun c hc => ?_
    split
    · have := noNested_of_get_eq hc ‹_›
      simp at this
      exact WFOut.ok hst this.1
    · exact WFOut.err hst (by simpa using hc)
  case cdr =>
    refine wf_arity1 hst hargs fun c hc => ?_
    split
    · have := noNested_of_get_eq hc ‹_›
      simp at this
      exact WFOut.ok hst this.2
    · exact WFOut.err hst (by simpa using hc)
  case list => exact WFOut.ok hst (by simpa using hargs)
  case getProperty =>
    refine wf_arity2 hst hargs fun pl key hpl hkey => wf_asList hst hpl fun xs hxs => wf_asSymbol hst hkey fun s => ?_
    split
    · exact WFOut.ok hst (getPropertyInternal_ok _ _ _ hxs ‹_›)
    · exact WFOut.err hst (by simp)
  case append =>
    refine wf_arity2 hst hargs fun l1 l2 h1 h2 => wf_asList hst h1 fun xs hxs => wf_asList hst h2 fun ys hys => ?_
    refine WFOut.ok hst ?_
    simp only [noNested_ofList, List.all_eq_true, List.mem_append]
    rintro x (hx | hx)
    · exact hxs x hx
    · exact hys x hx
  case unrest =>
    refine wf_arity1 hst hargs fun f hf => ?_
    split
    · have := noNested_of_get_eq hf ‹_›
      simp only [noNested_fn, Bool.and_eq_true] at this
      obtain ⟨⟨⟨hr, hp⟩, hb⟩, he⟩ := this
      refine WFOut.ok hst ?_
      simp only [noNested_fn, Bool.and_eq_true, noNested_nil, true_and]
      refine ⟨⟨?_, hb⟩, he⟩
      split
      · rename_i x hx
        have := restParam?_some hx
        subst this
        simp only [noNested_ofList, List.all_eq_true, List.mem_append, List.mem_singleton]
        rintro y (hy | rfl)
        · exact noNested_getD_listToVec hp y hy
        · exact hr
      · exact hp
    · exact WFOut.ok hst hf
    · exact WFOut.err hst (by simpa using hf)
  case abort => exact wf_arity0 hst (WFOut.err hst rfl)
  case signal =>
    refine wf_arity1 hst hargs fun s hs => ?_
    split
    · exact WFOut.err hst (by simpa using hs)
    · exact WFOut.err hst hs
  case read =>
    have h := readNative_ok args d hargs
    exact ⟨hst, h.1, h.2⟩
  case print =>
    have h := printNative_ok args d
    exact ⟨hst, h.1, h.2⟩
  case makeTrap =>
    split
    · exact WFOut.err hst (by simp)
    · exact wf_arity2 hst hargs fun n h hn hh => WFOut.ok hst (by simp [hn, hh])
  case add => exact wf_arith _ _ _ _ hst hargs
  case substract => exact wf_arith _ _ _ _ hst hargs
  case multiply => exact wf_arith _ _ _ _ hst hargs
  case divide => exact wf_divide _ _ hst hargs
  case less => exact wf_compare _ _ _ _ hst hargs
  case greater => exact wf_compare _ _ _ _ hst hargs
  case define =>
    refine wf_arity3 hst hargs fun name value doc hn hv hd =>
      wf_asSymbol hst hn fun s => wf_asString hst hd fun ds => ?_
    split
    · exact WFOut.err hst (by simpa using hn)
    · split
      · exact WFOut.crash hst
      · rename_i stored hstored
        have hs : noNested stored = true := define_stored_ok hv hstored
        refine WFOut.ok ?_ rfl
        split
        · exact (hst.defineGlobal _ _ hs).send _
        · exact hst.defineGlobal _ _ hs
  case undefine =>
    refine wf_arity1 hst hargs fun name hn => wf_asSymbol hst hn fun s => ?_
    exact WFOut.ok ((hst.undefineGlobal _).send _) rfl
  case whereis =>
    refine wf_arity1 hst hargs fun name hn => wf_asSymbol hst hn fun s => ?_
    exact WFOut.ok hst (by simp)
  case «export» =>
    refine wf_arity1 hst hargs fun names hn => wf_asList hst hn fun ns hns => ?_
    exact wf_exportLoop ns st hst hns
  case getCurrentModule => exact wf_arity0 hst (WFOut.ok hst rfl)
  case fromModule =>
    refine wf_arity2 hst hargs fun name mod hn hm => wf_asSymbol hst hn fun s => wf_asSymbol hst hm fun m => ?_
    split
    · exact WFOut.ok hst (hst.getGlobalFromModule ‹_›)
    · exact WFOut.err hst (by simpa using hn)
    · exact WFOut.err hst (by simpa using hm)
  case withCurrentModule =>
    refine wf_arity2 hst hargs fun name mod hn hm => wf_asSymbol hst hn fun s => wf_asSymbol hst hm fun m => ?_
    split
    · exact WFOut.ok hst (hst.getGlobal ‹_›)
    · exact WFOut.err hst (by simpa using hn)
    · exact WFOut.err hst (by simpa using hn)
  case destructureTrap =>
    refine wf_arity1 hst hargs fun t ht => ?_
    split
    · have := noNested_of_get_eq ht ‹_›
      simp at this
      exact WFOut.ok hst (by simpa using this)
    · exact WFOut.err hst (by simpa using ht)
  case destructureFunction =>
    refine wf_arity1 hst hargs fun f hf => ?_
    split
    · have := noNested_of_get_eq hf ‹_›
      simp only [noNested_fn, Bool.and_eq_true] at this
      exact WFOut.ok hst (by simp [this, noNested_functionParams this.1.1.1 this.1.1.2])
    · exact WFOut.ok hst (by simp)
    · exact WFOut.err hst (by simpa using hf)
  case typeOf =>
    refine wf_arity1 hst hargs fun x hx => ?_
    split <;> exact WFOut.ok hst rfl
  case getMetadata =>
    refine wf_arity1 hst hargs fun x hx => ?_
    split
    · exact WFOut.ok hst (by simp)
    · exact WFOut.ok hst rfl
  case send =>
    refine wf_arity1 hst hargs fun data hd => wf_asList hst hd fun xs hxs => ?_
    split
    · exact WFOut.ok (hst.send _) rfl
    · exact WFOut.err hst (by simp)
  case receive =>
    refine wf_arity0 hst ?_
    split
    · split
      · exact WFOut.outOfFuel hst
      · have hst1 : StOK { st with inbox := ‹List Command› } := hst.of_eq rfl rfl
        split
        · exact WFOut.err hst1 (by simp)
        · split
          · exact WFOut.err hst1 rfl
          · exact WFOut.ok hst1 (by simp)
    · exact WFOut.ok hst rfl
  case inputFile =>
    refine wf_arity1 hst hargs fun src hsrc => ?_
    split
    · exact wf_inputStdin _ hst
    · split
      · exact WFOut.err hst (by simp)
      · exact WFOut.err hst (by simp)
  case outputFile =>
    refine wf_arity2 hst hargs fun dst string hd hs => wf_asString hst hs fun s => ?_
    split
    · exact WFOut.ok (hst.write _) rfl
    · split
      · exact WFOut.err hst (by simp)
      · exact WFOut.err hst (by simp)
  case gensym => exact wf_arity0 hst (WFOut.ok (hst.of_eq rfl rfl) rfl)
  case equal =>
    refine wf_arity2 hst hargs fun x y hx hy => ?_
    refine WFOut.ok hst ?_
    split <;> rfl
  all_goals exact WFOut.crash hst

/-! ### no native panics on well-formed arguments -/

theorem exportLoop_noCrash (site : List Char) (ns : List Val) : ∀ (st : St), (exportLoop st ns).1 ≠ .crash site := by
  induction ns with
  | nil => intro st h; cases h
  | cons n ns ih =>
    intro st
    unfold exportLoop
    split
    · exact ih _
    · intro h; cases h

theorem arith_noCrash (site : List Char) (src : Name) (op) (args : List Val) (st : St) :
    (arith src op args st).1 ≠ .crash site := by
  unfold arith arity2 asNumber
  splits
  all_goals (intro h; cases h; done)

theorem compare_noCrash (site : List Char) (src : Name) (op) (args : List Val) (st : St) :
    (compare src op args st).1 ≠ .crash site := by
  unfold compare arity2 asNumber
  splits
  all_goals (intro h; cases h; done)

theorem divide_noCrash (site : List Char) (args : List Val) (st : St) : (divideNative args st).1 ≠ .crash site := by
  unfold divideNative arity2 asNumber
  splits
  all_goals (intro h; cases h; done)

theorem simpleNative_noCrash (id : NativeId) (args : List Val) (d : Nat) (st : St) (site : List Char)
    (hid : id ≠ .makeFunction ∧ id ≠ .callNativeFunction ∧ id ≠ .macroexpand ∧ id ≠ .eval ∧ id ≠ .loadAll)
    (hargs : ∀ v ∈ args, noNested v = true) :
    (simpleNative id args d st).1 ≠ .crash site := by
  obtain ⟨h1, h2, h3, h4, h5⟩ := hid
  cases id
  case makeFunction => exact absurd rfl h1
  case callNativeFunction => exact absurd rfl h2
  case macroexpand => exact absurd rfl h3
  case eval => exact absurd rfl h4
  case loadAll => exact absurd rfl h5
  all_goals
    clear h1 h2 h3 h4 h5
    simp only [simpleNative]
    try unfold arity0
    try unfold arity1
    try unfold arity2
    try unfold arity3
    try unfold asList
    try unfold asSymbol
    try unfold asString
    splits
  all_goals first
    | (intro h; cases h; done)
    | exact arith_noCrash _ _ _ _ _
    | exact compare_noCrash _ _ _ _ _
    | exact divide_noCrash _ _ _
    | exact exportLoop_noCrash _ _ _
    | exact (readNative_noCrash _ _ _).1
    | exact (printNative_noCrash _ _ _).1
    | exact inputStdin_noCrash _ _ _
    | exact absurd ‹_ = none› (define_stored_some (hargs _ (by simp)))

end Pici
