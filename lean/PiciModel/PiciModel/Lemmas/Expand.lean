/-
Helper lemmas about the macro expander of the model (`expandInternal`, `expandArgs`, `expandCompletely` of
`Model/Eval.lean`), used by `Props/C09.lean`: values and `listToVec`, well-formedness (`noNested`, `Spec/WF.lean`),
a branch-by-branch description of one step of `expandInternal` (`ExpStep`), the `changed` flag is never reset,
a round that reports no change is idempotent (on well-formed values) and insensitive to extra fuel.
Everything lives in the namespace `Pici.Expand` (to avoid clashes with the other lemma files).
-/
import PiciModel.Model.Eval
import PiciModel.Spec.WF

namespace Pici.Expand
open Pici

/-! ### values -/

theorem listToVec_cons (a d : Val) : listToVec (.cons a d) = (listToVec d).map (a :: ·) := by
  simp [listToVec]

theorem listToVec_md_cons (a d : Val) (m : Meta) : listToVec (.md (.cons a d) m) = (listToVec d).map (a :: ·) := by
  simp [listToVec]

theorem listToVec_ofList (xs : List Val) : listToVec (.ofList xs) = some xs := by
  induction xs with
  | nil => simp [Val.ofList, listToVec]
  | cons x xs ih => simp [Val.ofList, listToVec, ih]

theorem get_cons (a d : Val) : (Val.cons a d).get = .cons a d := by simp [Val.get]

theorem noNested_cons (a d : Val) : noNested (.cons a d) = (noNested a && noNested d) := by
  simp [noNested]

/-- a well-formed value whose primitive value is a pair is that pair, bare or behind ONE metadata cell -/
theorem noNested_get_cons {e a d : Val} (hw : noNested e = true) (hg : e.get = .cons a d) :
    (e = .cons a d ∨ ∃ m, e = .md (.cons a d) m) := by
  cases e with
  | md v m =>
    cases v with
    | md v' m' => simp [noNested] at hw
    | _ => simp_all [Val.get]
  | _ => simp_all [Val.get]

theorem noNested_get_cons' {e a d : Val} (hw : noNested e = true) (hg : e.get = .cons a d) :
    noNested a = true ∧ noNested d = true ∧ listToVec e = (listToVec d).map (a :: ·) := by
  rcases noNested_get_cons hw hg with rfl | ⟨m, rfl⟩
  · simp [noNested] at hw; simp [hw, listToVec]
  · simp [noNested] at hw; simp [hw, listToVec]

theorem noNested_listToVec {e : Val} {l : List Val} (hw : noNested e = true) (hl : listToVec e = some l) :
    ∀ x ∈ l, noNested x = true := by
  induction l generalizing e with
  | nil => simp
  | cons y ys ih =>
    have key : ∀ a d, noNested a = true → noNested d = true → (listToVec d).map (a :: ·) = some (y :: ys) →
        ∀ x ∈ y :: ys, noNested x = true := by
      intro a d ha hd h
      cases hd' : listToVec d with
      | none => simp [hd'] at h
      | some l' =>
        simp [hd'] at h
        obtain ⟨rfl, rfl⟩ := h
        intro x hx
        rcases List.mem_cons.mp hx with rfl | hx
        · exact ha
        · exact ih hd hd' x hx
    cases e with
    | cons a d =>
      simp [noNested] at hw
      exact key a d hw.1 hw.2 (by simpa [listToVec] using hl)
    | md v m =>
      cases v with
      | cons a d =>
        simp [noNested] at hw
        exact key a d hw.1 hw.2 (by simpa [listToVec] using hl)
      | _ => simp [listToVec] at hl
    | _ => simp [listToVec] at hl

/-! ### one step of `expandInternal` / `expandArgs` -/

theorem makeFunctionInternal_ok {args : List Val} {env : Val} {mod source : Name} {kind : Kind} {v : Val}
    (h : makeFunctionInternal args env mod source kind = .ok v) :
    ∃ r p b, v = .fn kind r p b env mod := by
  unfold makeFunctionInternal at h
  split at h
  · split at h
    · cases h
    · split at h
      · cases h; exact ⟨_, _, _, rfl⟩
      · cases h
  · cases h

/-- one successful step of `expandInternal` at `fuel + 1`, branch by branch -/
inductive ExpStep (fuel : Nat) (st : St) (e env : Val) (mod : Name) (d : Nat) (ch : Bool) : Val → St → Bool → Prop
  | nil (hl : listToVec e = some []) : ExpStep fuel st e env mod d ch .nil st ch
  | macroForm (first : Val) (ops : List Val) (e1 : Val) (hl : listToVec e = some (first :: ops))
      (hm : first.isSymNamed cs!"macro" = true)
      (hf : makeFunctionInternal ops env mod cs!"macro" .macro = .ok e1) : ExpStep fuel st e env mod d ch e1 st ch
  | quote (first : Val) (ops : List Val) (hl : listToVec e = some (first :: ops))
      (hm : first.isSymNamed cs!"macro" = false) (hq : first.isSymNamed cs!"quote" = true) :
      ExpStep fuel st e env mod d ch e st ch
  | macroCall (first : Val) (ops : List Val) (operator : Val) (st2 : St) (ch2 : Bool) (args : List Val) (st3 : St) (ch3 : Bool)
      (rest params body fenv : Val) (fmod : Name) (newEnv e1 : Val) (st1 : St)
      (hl : listToVec e = some (first :: ops))
      (hm : first.isSymNamed cs!"macro" = false) (hq : first.isSymNamed cs!"quote" = false)
      (hop : expandInternal fuel st first env mod (d + 1) ch = ((.ok operator, st2), ch2))
      (hargs : expandArgs fuel st2 ops env mod d ch2 = ((.ok args, st3), ch3))
      (hfn : operator.get = .fn .macro rest params body fenv fmod)
      (hpair : pairParamsAndArgs rest params fenv (e.getMeta.map (·.readName)) args = .ok newEnv)
      (hev : evalInternal fuel st3 body newEnv fmod (d + 1) = (.ok e1, st1)) :
      ExpStep fuel st e env mod d ch e1 st1 true
  | call (first : Val) (ops : List Val) (operator : Val) (st2 : St) (ch2 : Bool) (args : List Val) (st3 : St) (ch3 : Bool)
      (hl : listToVec e = some (first :: ops))
      (hm : first.isSymNamed cs!"macro" = false) (hq : first.isSymNamed cs!"quote" = false)
      (hop : expandInternal fuel st first env mod (d + 1) ch = ((.ok operator, st2), ch2))
      (hargs : expandArgs fuel st2 ops env mod d ch2 = ((.ok args, st3), ch3))
      (hfn : ∀ rest params body fenv fmod, operator.get ≠ .fn .macro rest params body fenv fmod) :
      ExpStep fuel st e env mod d ch (.ofList (operator :: args)) st3 ch3
  | cons (a dd car : Val) (st2 : St) (ch2 : Bool) (cdr : Val) (st3 : St) (ch3 : Bool)
      (hl : listToVec e = none) (hg : e.get = .cons a dd)
      (hcar : expandInternal fuel st a env mod (d + 1) ch = ((.ok car, st2), ch2))
      (hcdr : expandInternal fuel st2 dd env mod (d + 1) ch2 = ((.ok cdr, st3), ch3)) :
      ExpStep fuel st e env mod d ch (.cons car cdr) st3 ch3
  | symMacro (s : Sym) (v rest params body fenv : Val) (fmod : Name)
      (hl : listToVec e = none) (hg : e.get = .sym s)
      (hlk : lookup st s env mod = .found v) (hfn : v.get = .fn .macro rest params body fenv fmod) :
      ExpStep fuel st e env mod d ch v st true
  | symFound (s : Sym) (v : Val)
      (hl : listToVec e = none) (hg : e.get = .sym s)
      (hlk : lookup st s env mod = .found v)
      (hfn : ∀ rest params body fenv fmod, v.get ≠ .fn .macro rest params body fenv fmod) :
      ExpStep fuel st e env mod d ch e st ch
  | symNotFound (s : Sym)
      (hl : listToVec e = none) (hg : e.get = .sym s)
      (hlk : lookup st s env mod = .notFound) :
      ExpStep fuel st e env mod d ch e st ch
  | atom (hl : listToVec e = none) (hc : ∀ a dd, e.get ≠ .cons a dd) (hs : ∀ s, e.get ≠ .sym s) :
      ExpStep fuel st e env mod d ch e st ch

theorem expandInternal_zero (st : St) (e env : Val) (mod : Name) (d : Nat) (ch : Bool) :
    expandInternal 0 st e env mod d ch = ((.outOfFuel, st), ch) := by
  rw [expandInternal]

theorem expandArgs_zero (st : St) (xs : List Val) (env : Val) (mod : Name) (d : Nat) (ch : Bool) :
    expandArgs 0 st xs env mod d ch = ((.outOfFuel, st), ch) := by
  rw [expandArgs]

/-- inversion: a successful call of `expandInternal` at `fuel + 1` is one of the steps -/
theorem expandInternal_inv {fuel : Nat} {st : St} {e env : Val} {mod : Name} {d : Nat} {ch : Bool} {e1 : Val} {st1 : St} {ch1 : Bool}
    (h : expandInternal (fuel + 1) st e env mod d ch = ((.ok e1, st1), ch1)) :
    d ≤ Config.maxRecursionDepth ∧ ExpStep fuel st e env mod d ch e1 st1 ch1 := by
  rw [expandInternal] at h
  split at h
  · cases h
  rename_i hd
  refine ⟨Nat.not_lt.mp hd, ?_⟩
  simp only at h
  split at h
  · cases h; exact .nil ‹_›
  · rename_i first ops hl
    split at h
    · rename_i hm
      simp only [Prod.mk.injEq] at h
      obtain ⟨⟨hf, rfl⟩, rfl⟩ := h
      exact .macroForm first ops e1 hl hm hf
    · rename_i hm
      split at h
      · rename_i hq
        cases h
        exact .quote first ops hl (by simpa using hm) hq
      · rename_i hq
        split at h
        · cases h
        · cases h
        · cases h
        · rename_i operator st2 ch2 hop
          split at h
          · cases h
          · cases h
          · cases h
          · rename_i args st3 ch3 hargs
            split at h
            · rename_i rest params body fenv fmod hfn
              split at h
              · rename_i newEnv hpair
                simp only [Prod.mk.injEq] at h
                obtain ⟨hev, rfl⟩ := h
                exact .macroCall first ops operator st2 ch2 args _ _ rest params body fenv fmod newEnv e1 st1 hl
                  (by simpa using hm) (by simpa using hq) hop hargs hfn hpair hev
              · cases h
              · cases h
              · cases h
            · rename_i hfn
              cases h
              exact .call first ops operator st2 ch2 args _ _ hl (by simpa using hm) (by simpa using hq) hop hargs
                (fun r p b fe fm hh => hfn r p b fe fm hh)
  · rename_i hl
    split at h
    · rename_i a dd hg
      split at h
      · rename_i car st2 ch2 hcar
        split at h
        · rename_i cdr st3 ch3 hcdr
          cases h
          exact .cons a dd car st2 ch2 cdr _ _ hl hg hcar hcdr
        · cases h
        · cases h
        · cases h
      · cases h
      · cases h
      · cases h
    · rename_i s hg
      split at h
      · rename_i v hlk
        split at h
        · rename_i rest params body fenv fmod hfn
          cases h
          exact .symMacro s _ _ _ _ _ _ hl hg hlk hfn
        · rename_i hfn
          cases h
          exact .symFound s v hl hg hlk (fun r p b fe fm hh => hfn r p b fe fm hh)
      · cases h
      · rename_i hlk
        cases h
        exact .symNotFound s hl hg hlk
    · rename_i hc hs
      cases h
      exact .atom hl (fun a dd hh => hc a dd hh) (fun s hh => hs s hh)

/-- … and conversely each step is what `expandInternal` does at `fuel + 1` -/
theorem expandInternal_of_step {fuel : Nat} {st : St} {e env : Val} {mod : Name} {d : Nat} {ch : Bool} {e1 : Val} {st1 : St} {ch1 : Bool}
    (hd : d ≤ Config.maxRecursionDepth) (h : ExpStep fuel st e env mod d ch e1 st1 ch1) :
    expandInternal (fuel + 1) st e env mod d ch = ((.ok e1, st1), ch1) := by
  have hd' : ¬ d > Config.maxRecursionDepth := Nat.not_lt.mpr hd
  rw [expandInternal]
  cases h with
  | nil hl => simp only [hd', if_false, hl]
  | macroForm first ops e1 hl hm hf => simp only [hd', if_false, hl, hm, hf, if_true]
  | quote first ops hl hm hq => simp only [hd', if_false, hl, hm, hq, if_true, Bool.false_eq_true]
  | macroCall first ops operator st2 ch2 args st3 ch3 rest params body fenv fmod newEnv e1 st1 hl hm hq hop hargs hfn hpair hev =>
    simp only [hd', if_false, hl, hm, hq, hop, hargs, hfn, hpair, hev, Bool.false_eq_true]
  | call first ops operator st2 ch2 args st3 ch3 hl hm hq hop hargs hfn =>
    simp only [hd', if_false, hl, hm, hq, hop, hargs, Bool.false_eq_true]
  | cons a dd car st2 ch2 cdr st3 ch3 hl hg hcar hcdr => simp only [hd', if_false, hl, hg, hcar, hcdr]
  | symMacro s v rest params body fenv fmod hl hg hlk hfn => simp only [hd', if_false, hl, hg, hlk, hfn]
  | symFound s v hl hg hlk hfn => simp only [hd', if_false, hl, hg, hlk]
  | symNotFound s hl hg hlk => simp only [hd', if_false, hl, hg, hlk]
  | atom hl hc hs => simp only [hd', if_false, hl]

theorem expandArgs_nil (fuel : Nat) (st : St) (env : Val) (mod : Name) (d : Nat) (ch : Bool) :
    expandArgs (fuel + 1) st [] env mod d ch = ((.ok [], st), ch) := by
  rw [expandArgs]

theorem expandArgs_cons_inv {fuel : Nat} {st : St} {x : Val} {xs : List Val} {env : Val} {mod : Name} {d : Nat} {ch : Bool}
    {vs : List Val} {st1 : St} {ch1 : Bool}
    (h : expandArgs (fuel + 1) st (x :: xs) env mod d ch = ((.ok vs, st1), ch1)) :
    ∃ v st2 ch2 vs', expandInternal fuel st x env mod (d + 1) ch = ((.ok v, st2), ch2) ∧
      expandArgs fuel st2 xs env mod d ch2 = ((.ok vs', st1), ch1) ∧ vs = v :: vs' := by
  rw [expandArgs] at h
  split at h
  · rename_i v st2 ch2 hx
    split at h
    · rename_i vs' st3 ch3 hxs
      cases h
      exact ⟨v, st2, ch2, vs', hx, hxs, rfl⟩
    · cases h
    · cases h
    · cases h
  · cases h
  · cases h
  · cases h

theorem expandArgs_cons_of {fuel : Nat} {st : St} {x : Val} {xs : List Val} {env : Val} {mod : Name} {d : Nat} {ch : Bool}
    {v : Val} {st2 : St} {ch2 : Bool} {vs : List Val} {st1 : St} {ch1 : Bool}
    (hx : expandInternal fuel st x env mod (d + 1) ch = ((.ok v, st2), ch2))
    (hxs : expandArgs fuel st2 xs env mod d ch2 = ((.ok vs, st1), ch1)) :
    expandArgs (fuel + 1) st (x :: xs) env mod d ch = ((.ok (v :: vs), st1), ch1) := by
  rw [expandArgs, hx]
  simp only [hxs]

/-! ### the `changed` flag is never reset -/

theorem expand_flag_aux (fuel : Nat) :
    (∀ st e env mod d ch e1 st1, expandInternal fuel st e env mod d ch = ((.ok e1, st1), false) → ch = false) ∧
    (∀ st xs env mod d ch vs st1, expandArgs fuel st xs env mod d ch = ((.ok vs, st1), false) → ch = false) := by
  induction fuel with
  | zero =>
    constructor
    · intro st e env mod d ch e1 st1 h; rw [expandInternal_zero] at h; cases h
    · intro st xs env mod d ch vs st1 h; rw [expandArgs_zero] at h; cases h
  | succ fuel ih =>
    obtain ⟨ihI, ihA⟩ := ih
    constructor
    · intro st e env mod d ch e1 st1 h
      obtain ⟨_, hs⟩ := expandInternal_inv h
      cases hs with
      | nil hl => rfl
      | macroForm first ops e1 hl hm hf => rfl
      | quote first ops hl hm hq => rfl
      | call first ops operator st2 ch2 args st3 ch3 hl hm hq hop hargs hfn =>
        have := ihA _ _ _ _ _ _ _ _ hargs; subst this
        exact ihI _ _ _ _ _ _ _ _ hop
      | cons a dd car st2 ch2 cdr st3 ch3 hl hg hcar hcdr =>
        have := ihI _ _ _ _ _ _ _ _ hcdr; subst this
        exact ihI _ _ _ _ _ _ _ _ hcar
      | symFound s v hl hg hlk hfn => rfl
      | symNotFound s hl hg hlk => rfl
      | atom hl hc hs => rfl
    · intro st xs env mod d ch vs st1 h
      cases xs with
      | nil => rw [expandArgs_nil] at h; cases h; rfl
      | cons x xs =>
        obtain ⟨v, st2, ch2, vs', hx, hxs, _⟩ := expandArgs_cons_inv h
        have := ihA _ _ _ _ _ _ _ _ hxs; subst this
        exact ihI _ _ _ _ _ _ _ _ hx

theorem expandInternal_flag {fuel : Nat} {st : St} {e env : Val} {mod : Name} {d : Nat} {ch : Bool} {e1 : Val} {st1 : St}
    (h : expandInternal fuel st e env mod d ch = ((.ok e1, st1), false)) : ch = false :=
  (expand_flag_aux fuel).1 _ _ _ _ _ _ _ _ h

theorem expandArgs_flag {fuel : Nat} {st : St} {xs : List Val} {env : Val} {mod : Name} {d : Nat} {ch : Bool} {vs : List Val} {st1 : St}
    (h : expandArgs fuel st xs env mod d ch = ((.ok vs, st1), false)) : ch = false :=
  (expand_flag_aux fuel).2 _ _ _ _ _ _ _ _ h

/-! ### a round without change keeps improper values improper, and returns a symbol only if it was given that symbol -/

theorem expandInternal_improper (fuel : Nat) : ∀ (st : St) (e env : Val) (mod : Name) (d : Nat) (ch : Bool) (e1 : Val) (st1 : St),
    noNested e = true → listToVec e = none →
    expandInternal fuel st e env mod d ch = ((.ok e1, st1), false) → listToVec e1 = none := by
  induction fuel with
  | zero => intro st e env mod d ch e1 st1 _ _ h; rw [expandInternal_zero] at h; cases h
  | succ fuel ih =>
    intro st e env mod d ch e1 st1 hw hn h
    obtain ⟨_, hs⟩ := expandInternal_inv h
    cases hs with
    | nil hl => rw [hn] at hl; cases hl
    | macroForm first ops e1 hl hm hf => rw [hn] at hl; cases hl
    | quote first ops hl hm hq => exact hn
    | call first ops operator st2 ch2 args st3 ch3 hl hm hq hop hargs hfn => rw [hn] at hl; cases hl
    | cons a dd car st2 ch2 cdr st3 ch3 hl hg hcar hcdr =>
      obtain ⟨_, hwd, hle⟩ := noNested_get_cons' hw hg
      have hdn : listToVec dd = none := by
        rw [hle] at hn; simpa using hn
      have := ih _ _ _ _ _ _ _ _ hwd hdn hcdr
      simp [listToVec_cons, this]
    | symFound s v hl hg hlk hfn => exact hn
    | symNotFound s hl hg hlk => exact hn
    | atom hl hc hs => exact hn

theorem expandInternal_sym_result {fuel : Nat} {st : St} {e env : Val} {mod : Name} {d : Nat} {ch : Bool} {e1 : Val} {st1 : St}
    (h : expandInternal fuel st e env mod d ch = ((.ok e1, st1), false)) :
    e1 = e ∨ ∀ n, e1.isSymNamed n = false := by
  cases fuel with
  | zero => rw [expandInternal_zero] at h; cases h
  | succ fuel =>
    obtain ⟨_, hs⟩ := expandInternal_inv h
    cases hs with
    | nil hl => right; intro n; simp [Val.isSymNamed, Val.get]
    | macroForm first ops e1 hl hm hf =>
      obtain ⟨r, p, b, rfl⟩ := makeFunctionInternal_ok hf
      right; intro n; simp [Val.isSymNamed, Val.get]
    | quote first ops hl hm hq => left; rfl
    | call first ops operator st2 ch2 args st3 ch3 hl hm hq hop hargs hfn =>
      right; intro n; simp [Val.isSymNamed, Val.get, Val.ofList]
    | cons a dd car st2 ch2 cdr st3 ch3 hl hg hcar hcdr =>
      right; intro n; simp [Val.isSymNamed, Val.get]
    | symFound s v hl hg hlk hfn => left; rfl
    | symNotFound s hl hg hlk => left; rfl
    | atom hl hc hs => left; rfl

/-! ### a round that reports no change is idempotent -/

theorem expand_round_aux (fuel : Nat) :
    (∀ (st : St) (e env : Val) (mod : Name) (d : Nat) (e1 : Val) (st1 : St), noNested e = true →
      expandInternal fuel st e env mod d false = ((.ok e1, st1), false) →
      st1 = st ∧ expandInternal fuel st e1 env mod d false = ((.ok e1, st), false)) ∧
    (∀ (st : St) (xs : List Val) (env : Val) (mod : Name) (d : Nat) (vs : List Val) (st1 : St), (∀ x ∈ xs, noNested x = true) →
      expandArgs fuel st xs env mod d false = ((.ok vs, st1), false) →
      st1 = st ∧ expandArgs fuel st vs env mod d false = ((.ok vs, st), false)) := by
  induction fuel with
  | zero =>
    constructor
    · intro st e env mod d e1 st1 _ h; rw [expandInternal_zero] at h; cases h
    · intro st xs env mod d vs st1 _ h; rw [expandArgs_zero] at h; cases h
  | succ fuel ih =>
    obtain ⟨ihI, ihA⟩ := ih
    constructor
    · intro st e env mod d e1 st1 hw h
      obtain ⟨hd, hs⟩ := expandInternal_inv h
      cases hs with
      | nil hl =>
        exact ⟨rfl, expandInternal_of_step hd (.nil (by simp [listToVec]))⟩
      | macroForm first ops e1 hl hm hf =>
        obtain ⟨r, p, b, rfl⟩ := makeFunctionInternal_ok hf
        exact ⟨rfl, expandInternal_of_step hd (.atom (by simp [listToVec]) (by simp [Val.get]) (by simp [Val.get]))⟩
      | quote first ops hl hm hq => exact ⟨rfl, h⟩
      | call first ops operator st2 ch2 args st3 ch3 hl hm hq hop hargs hfn =>
        have := expandArgs_flag hargs; subst this
        obtain ⟨hwf, hwo⟩ : noNested first = true ∧ ∀ x ∈ ops, noNested x = true := by
          have := noNested_listToVec hw hl
          exact ⟨this _ (List.mem_cons_self ..), fun x hx => this _ (List.mem_cons_of_mem _ hx)⟩
        obtain ⟨rfl, hop'⟩ := ihI _ _ _ _ _ _ _ hwf hop
        obtain ⟨rfl, hargs'⟩ := ihA _ _ _ _ _ _ _ hwo hargs
        refine ⟨rfl, expandInternal_of_step hd (.call operator args operator _ false args _ false (listToVec_ofList _) ?_ ?_ hop' hargs' hfn)⟩
        · rcases expandInternal_sym_result hop with rfl | hh
          · exact hm
          · exact hh _
        · rcases expandInternal_sym_result hop with rfl | hh
          · exact hq
          · exact hh _
      | cons a dd car st2 ch2 cdr st3 ch3 hl hg hcar hcdr =>
        have := expandInternal_flag hcdr; subst this
        obtain ⟨hwa, hwd, hle⟩ := noNested_get_cons' hw hg
        have hdn : listToVec dd = none := by
          rw [hle] at hl; simpa using hl
        have hcn := expandInternal_improper _ _ _ _ _ _ _ _ _ hwd hdn hcdr
        obtain ⟨rfl, hcar'⟩ := ihI _ _ _ _ _ _ _ hwa hcar
        obtain ⟨rfl, hcdr'⟩ := ihI _ _ _ _ _ _ _ hwd hcdr
        exact ⟨rfl, expandInternal_of_step hd (.cons car cdr car _ false cdr _ false (by simp [listToVec_cons, hcn]) (get_cons _ _) hcar' hcdr')⟩
      | symFound s v hl hg hlk hfn => exact ⟨rfl, h⟩
      | symNotFound s hl hg hlk => exact ⟨rfl, h⟩
      | atom hl hc hs => exact ⟨rfl, h⟩
    · intro st xs env mod d vs st1 hw h
      cases xs with
      | nil => rw [expandArgs_nil] at h; cases h; exact ⟨rfl, expandArgs_nil ..⟩
      | cons x xs =>
        obtain ⟨v, st2, ch2, vs', hx, hxs, rfl⟩ := expandArgs_cons_inv h
        have := expandArgs_flag hxs; subst this
        obtain ⟨rfl, hx'⟩ := ihI _ _ _ _ _ _ _ (hw _ (List.mem_cons_self ..)) hx
        obtain ⟨rfl, hxs'⟩ := ihA _ _ _ _ _ _ _ (fun y hy => hw _ (List.mem_cons_of_mem _ hy)) hxs
        exact ⟨rfl, expandArgs_cons_of hx' hxs'⟩

/-! ### … and insensitive to extra fuel -/

theorem expand_false_mono_aux (fuel : Nat) :
    (∀ (st : St) (e env : Val) (mod : Name) (d : Nat) (ch : Bool) (e1 : Val) (st1 : St),
      expandInternal fuel st e env mod d ch = ((.ok e1, st1), false) →
      expandInternal (fuel + 1) st e env mod d ch = ((.ok e1, st1), false)) ∧
    (∀ (st : St) (xs : List Val) (env : Val) (mod : Name) (d : Nat) (ch : Bool) (vs : List Val) (st1 : St),
      expandArgs fuel st xs env mod d ch = ((.ok vs, st1), false) →
      expandArgs (fuel + 1) st xs env mod d ch = ((.ok vs, st1), false)) := by
  induction fuel with
  | zero =>
    constructor
    · intro st e env mod d ch e1 st1 h; rw [expandInternal_zero] at h; cases h
    · intro st xs env mod d ch vs st1 h; rw [expandArgs_zero] at h; cases h
  | succ fuel ih =>
    obtain ⟨ihI, ihA⟩ := ih
    constructor
    · intro st e env mod d ch e1 st1 h
      obtain ⟨hd, hs⟩ := expandInternal_inv h
      apply expandInternal_of_step hd
      cases hs with
      | nil hl => exact .nil hl
      | macroForm first ops e1 hl hm hf => exact .macroForm first ops e1 hl hm hf
      | quote first ops hl hm hq => exact .quote first ops hl hm hq
      | call first ops operator st2 ch2 args st3 ch3 hl hm hq hop hargs hfn =>
        have := expandArgs_flag hargs; subst this
        exact .call first ops operator st2 false args _ false hl hm hq (ihI _ _ _ _ _ _ _ _ hop) (ihA _ _ _ _ _ _ _ _ hargs) hfn
      | cons a dd car st2 ch2 cdr st3 ch3 hl hg hcar hcdr =>
        have := expandInternal_flag hcdr; subst this
        exact .cons a dd car st2 false cdr _ false hl hg (ihI _ _ _ _ _ _ _ _ hcar) (ihI _ _ _ _ _ _ _ _ hcdr)
      | symFound s v hl hg hlk hfn => exact .symFound s v hl hg hlk hfn
      | symNotFound s hl hg hlk => exact .symNotFound s hl hg hlk
      | atom hl hc hs => exact .atom hl hc hs
    · intro st xs env mod d ch vs st1 h
      cases xs with
      | nil => rw [expandArgs_nil] at h; cases h; exact expandArgs_nil ..
      | cons x xs =>
        obtain ⟨v, st2, ch2, vs', hx, hxs, rfl⟩ := expandArgs_cons_inv h
        have := expandArgs_flag hxs; subst this
        exact expandArgs_cons_of (ihI _ _ _ _ _ _ _ _ hx) (ihA _ _ _ _ _ _ _ _ hxs)

theorem expandInternal_false_mono {fuel : Nat} {st : St} {e env : Val} {mod : Name} {d : Nat} {ch : Bool} {e1 : Val} {st1 : St}
    (h : expandInternal fuel st e env mod d ch = ((.ok e1, st1), false)) (k : Nat) :
    expandInternal (fuel + k) st e env mod d ch = ((.ok e1, st1), false) := by
  induction k with
  | zero => exact h
  | succ k ih => exact (expand_false_mono_aux (fuel + k)).1 _ _ _ _ _ _ _ _ ih

theorem expandInternal_false_mono_le {fuel k : Nat} {st : St} {e env : Val} {mod : Name} {d : Nat} {ch : Bool} {e1 : Val} {st1 : St}
    (h : expandInternal fuel st e env mod d ch = ((.ok e1, st1), false)) (hk : fuel ≤ k) :
    expandInternal k st e env mod d ch = ((.ok e1, st1), false) := by
  obtain ⟨j, rfl⟩ := Nat.exists_eq_add_of_le hk
  exact expandInternal_false_mono h j

/-! ### complete expansion -/

theorem expandCompletely_zero (st : St) (e env : Val) (mod : Name) (d : Nat) :
    expandCompletely 0 st e env mod d = (.outOfFuel, st) := by
  rw [expandCompletely]

theorem expandCompletely_of_false {fuel : Nat} {st : St} {e env : Val} {mod : Name} {d : Nat} {e1 : Val} {st1 : St}
    (h : expandInternal fuel st e env mod (d + 1) false = ((.ok e1, st1), false)) :
    expandCompletely (fuel + 1) st e env mod d = (.ok e1, st1) := by
  rw [expandCompletely, h]

theorem expandCompletely_of_true {fuel : Nat} {st : St} {e env : Val} {mod : Name} {d : Nat} {e1 : Val} {st1 : St}
    (h : expandInternal fuel st e env mod (d + 1) false = ((.ok e1, st1), true)) :
    expandCompletely (fuel + 1) st e env mod d = expandCompletely fuel st1 e1 env mod d := by
  rw [expandCompletely, h]

/-- a complete expansion that succeeds ends with a round that reports no change; `P` is any invariant of the rounds
that do report a change (the macro calls) -/
theorem expandCompletely_last_round (P : Val → Prop) (env : Val) (mod : Name) (d : Nat)
    (hP : ∀ f s x s' y, P x → expandInternal f s x env mod (d + 1) false = ((.ok y, s'), true) → P y)
    (fuel : Nat) : ∀ (st : St) (e e1 : Val) (st1 : St), P e →
    expandCompletely fuel st e env mod d = (.ok e1, st1) →
    ∃ f0 st' e', P e' ∧ expandInternal f0 st' e' env mod (d + 1) false = ((.ok e1, st1), false) := by
  induction fuel with
  | zero => intro st e e1 st1 _ h; rw [expandCompletely_zero] at h; cases h
  | succ fuel ih =>
    intro st e e1 st1 he h
    rw [expandCompletely] at h
    split at h
    · rename_i x s' hx
      exact ih _ _ _ _ (hP _ _ _ _ _ he hx) h
    · rename_i x s' hx
      cases h
      exact ⟨fuel, st, e, he, hx⟩
    · cases h
    · cases h
    · cases h

/-- the result of a complete expansion of well-formed forms is reproduced by complete expansion, for every
sufficiently large fuel -/
theorem expandCompletely_stable (env : Val) (mod : Name) (d : Nat)
    (hP : ∀ f s x s' y, noNested x = true → expandInternal f s x env mod (d + 1) false = ((.ok y, s'), true) → noNested y = true)
    (fuel : Nat) (st : St) (e e1 : Val) (st1 : St) (hw : noNested e = true)
    (h : expandCompletely fuel st e env mod d = (.ok e1, st1)) :
    ∃ f0, ∀ k, f0 ≤ k → expandCompletely (k + 1) st1 e1 env mod d = (.ok e1, st1) := by
  obtain ⟨f0, st', e', hw', hr⟩ := expandCompletely_last_round (fun v => noNested v = true) env mod d hP fuel st e e1 st1 hw h
  obtain ⟨rfl, hr'⟩ := (expand_round_aux f0).1 _ _ _ _ _ _ _ hw' hr
  exact ⟨f0, fun k hk => expandCompletely_of_false (expandInternal_false_mono_le hr' hk)⟩


end Pici.Expand
