/-
Helper lemmas for Props/C16b: the shape (up to reader metadata) of the prelude bodies of map, -map, foldr, zip, -zip,
enumerate, last, init, + and *; the binding of a rest parameter; `RunsJ` rules for the false branch of an `if`, for a
native that answers with any outcome (a signal included) and for a core primitive whose operands are arbitrary runs;
list values with an arbitrary nil tail.
-/
import PiciModel.Lemmas.PreludeSteps

namespace Pici
open Pici.Ref

/-- `'name` as the reader produces it: the bare symbol `quote` and the symbol with its metadata -/
def quoA (n : Name) (m : Meta) : Val := .ofList [.symName cs!"quote", symA n m]

/-! ### the shape of the prelude bodies, up to metadata -/

namespace Prelude

theorem foldr_params_shape : ∃ p1 p2 p3,
    foldr_params = .ofList [symA cs!"f" p1, symA cs!"init" p2, symA cs!"things" p3] := ⟨_, _, _, rfl⟩
theorem foldr_rest_eq : foldr_rest = .nil := rfl
theorem foldr_body_shape : ∃ m1 m2 m3 m4 m5 m6 m7 m8 m9 m10 m11, foldr_body =
    .ofList [symA cs!"if" m1, symA cs!"things" m2,
      .ofList [symA cs!"f" m3, .ofList [symA cs!"car" m4, symA cs!"things" m5],
               .ofList [symA cs!"foldr" m6, symA cs!"f" m7, symA cs!"init" m8,
                        .ofList [symA cs!"cdr" m9, symA cs!"things" m10]]],
      symA cs!"init" m11] := ⟨_, _, _, _, _, _, _, _, _, _, _, rfl⟩

theorem f_zip_params_shape : ∃ p1 p2 p3,
    f_zip_params = .ofList [symA cs!"things1" p1, symA cs!"things2" p2, symA cs!"init" p3] := ⟨_, _, _, rfl⟩
theorem f_zip_rest_eq : f_zip_rest = .nil := rfl
theorem f_zip_body_shape : ∃ m1 m2 m3 m4 m5 m6 m7 m8 m9 m10 m11 m12 m13 m14 m15 m16 m17 m18, f_zip_body =
    .ofList [symA cs!"if" m1, symA cs!"things1" m2,
      .ofList [symA cs!"if" m3, symA cs!"things2" m4,
        .ofList [symA cs!"-zip" m5, .ofList [symA cs!"cdr" m6, symA cs!"things1" m7],
                 .ofList [symA cs!"cdr" m8, symA cs!"things2" m9],
                 .ofList [symA cs!"cons" m10,
                          .ofList [symA cs!"cons" m11, .ofList [symA cs!"car" m12, symA cs!"things1" m13],
                                   .ofList [symA cs!"car" m14, symA cs!"things2" m15]],
                          symA cs!"init" m16]],
        symA cs!"init" m17],
      symA cs!"init" m18] := ⟨_, _, _, _, _, _, _, _, _, _, _, _, _, _, _, _, _, _, rfl⟩

theorem zip_params_shape : ∃ p1 p2, zip_params = .ofList [symA cs!"things1" p1, symA cs!"things2" p2] := ⟨_, _, rfl⟩
theorem zip_rest_eq : zip_rest = .nil := rfl
theorem zip_body_shape : ∃ m1 m2 m3 m4 m5, zip_body =
    .ofList [symA cs!"reverse" m1,
      .ofList [symA cs!"-zip" m2, symA cs!"things1" m3, symA cs!"things2" m4, symA cs!"nil" m5]] :=
  ⟨_, _, _, _, _, rfl⟩

theorem enumerate_params_shape : ∃ p1, enumerate_params = .ofList [symA cs!"things" p1] := ⟨_, rfl⟩
theorem enumerate_rest_eq : enumerate_rest = .nil := rfl
theorem enumerate_body_shape : ∃ m1 m2 m3 m4 m5, enumerate_body =
    .ofList [symA cs!"zip" m1, symA cs!"things" m2,
      .ofList [symA cs!"range" m3, .ofList [symA cs!"length" m4, symA cs!"things" m5]]] := ⟨_, _, _, _, _, rfl⟩

theorem f_map_params_shape : ∃ p1 p2 p3,
    f_map_params = .ofList [symA cs!"f" p1, symA cs!"things" p2, symA cs!"init" p3] := ⟨_, _, _, rfl⟩
theorem f_map_rest_eq : f_map_rest = .nil := rfl
theorem f_map_body_shape : ∃ m1 m2 m3 m4 m5 m6 m7 m8 m9 m10 m11 m12, f_map_body =
    .ofList [symA cs!"if" m1, symA cs!"things" m2,
      .ofList [symA cs!"-map" m3, symA cs!"f" m4, .ofList [symA cs!"cdr" m5, symA cs!"things" m6],
               .ofList [symA cs!"cons" m7, .ofList [symA cs!"f" m8, .ofList [symA cs!"car" m9, symA cs!"things" m10]],
                        symA cs!"init" m11]],
      symA cs!"init" m12] := ⟨_, _, _, _, _, _, _, _, _, _, _, _, rfl⟩

theorem map_params_shape : ∃ p1 p2, map_params = .ofList [symA cs!"f" p1, symA cs!"things" p2] := ⟨_, _, rfl⟩
theorem map_rest_eq : map_rest = .nil := rfl
theorem map_body_shape : ∃ m1 m2 m3 m4 m5, map_body =
    .ofList [symA cs!"reverse" m1,
      .ofList [symA cs!"-map" m2, symA cs!"f" m3, symA cs!"things" m4, symA cs!"nil" m5]] := ⟨_, _, _, _, _, rfl⟩

theorem last_params_shape : ∃ p1, last_params = .ofList [symA cs!"things" p1] := ⟨_, rfl⟩
theorem last_rest_eq : last_rest = .nil := rfl
theorem last_body_shape : ∃ m1 m2 m3 m4 m5 m6 m7 m8 m9 m10 m11 m12 m13 m14 m15 m16 m17 m18, last_body =
    .ofList [symA cs!"if" m1, symA cs!"things" m2,
      .ofList [symA cs!"if" m3, .ofList [symA cs!"cdr" m4, symA cs!"things" m5],
               .ofList [symA cs!"last" m6, .ofList [symA cs!"cdr" m7, symA cs!"things" m8]],
               .ofList [symA cs!"car" m9, symA cs!"things" m10]],
      .ofList [symA cs!"signal" m11,
        .ofList [symA cs!"list" m12, quoA cs!"kind" m13, quoA cs!"wrong-argument" m14, quoA cs!"soruce" m15,
                 quoA cs!"last" m16, quoA cs!"details" m17, quoA cs!"empty-list" m18]]] :=
  ⟨_, _, _, _, _, _, _, _, _, _, _, _, _, _, _, _, _, _, rfl⟩

theorem init_params_shape : ∃ p1, init_params = .ofList [symA cs!"things" p1] := ⟨_, rfl⟩
theorem init_rest_eq : init_rest = .nil := rfl
theorem init_body_shape : ∃ m1 m2 m3 m4 m5 m6 m7 m8 m9 m10 m11 m12 m13, init_body =
    .ofList [symA cs!"if" m1, symA cs!"things" m2,
      .ofList [symA cs!"if" m3, .ofList [symA cs!"cdr" m4, symA cs!"things" m5],
               .ofList [symA cs!"cons" m6, .ofList [symA cs!"car" m7, symA cs!"things" m8],
                        .ofList [symA cs!"init" m9, .ofList [symA cs!"cdr" m10, symA cs!"things" m11]]],
               symA cs!"nil" m12],
      symA cs!"nil" m13] := ⟨_, _, _, _, _, _, _, _, _, _, _, _, _, rfl⟩

theorem plus_params_eq : plus_params = .ofList [] := rfl
theorem plus_rest_shape : ∃ p, plus_rest = symA cs!"numbers" p := ⟨_, rfl⟩
theorem plus_body_shape : ∃ m1 m2 m3 m4, plus_body =
    .ofList [symA cs!"foldl" m1, symA cs!"add" m2, numA 0 m3, symA cs!"numbers" m4] := ⟨_, _, _, _, rfl⟩

theorem times_params_eq : times_params = .ofList [] := rfl
theorem times_rest_shape : ∃ p, times_rest = symA cs!"numbers" p := ⟨_, rfl⟩
theorem times_body_shape : ∃ m1 m2 m3 m4, times_body =
    .ofList [symA cs!"foldl" m1, symA cs!"multiply" m2, numA 1 m3, symA cs!"numbers" m4] := ⟨_, _, _, _, rfl⟩

theorem foldr_fn_eq : foldr_fn = .fn .lambda foldr_rest foldr_params foldr_body .nil cs!"prelude" := rfl
theorem f_zip_fn_eq : f_zip_fn = .fn .lambda f_zip_rest f_zip_params f_zip_body .nil cs!"prelude" := rfl
theorem zip_fn_eq : zip_fn = .fn .lambda zip_rest zip_params zip_body .nil cs!"prelude" := rfl
theorem f_map_fn_eq : f_map_fn = .fn .lambda f_map_rest f_map_params f_map_body .nil cs!"prelude" := rfl
theorem reverse_fn_eq : reverse_fn = .fn .lambda reverse_rest reverse_params reverse_body .nil cs!"prelude" := rfl
theorem length_fn_eq : length_fn = .fn .lambda length_rest length_params length_body .nil cs!"prelude" := rfl
theorem range_fn_eq : range_fn = .fn .lambda range_rest range_params range_body .nil cs!"prelude" := rfl
theorem last_fn_eq : last_fn = .fn .lambda last_rest last_params last_body .nil cs!"prelude" := rfl
theorem init_fn_eq : init_fn = .fn .lambda init_rest init_params init_body .nil cs!"prelude" := rfl

theorem foldr_mem : (cs!"foldr", foldr_fn) ∈ table := by simp [table]
theorem f_zip_mem : (cs!"-zip", f_zip_fn) ∈ table := by simp [table]
theorem zip_mem : (cs!"zip", zip_fn) ∈ table := by simp [table]
theorem f_map_mem : (cs!"-map", f_map_fn) ∈ table := by simp [table]
theorem reverse_mem : (cs!"reverse", reverse_fn) ∈ table := by simp [table]
theorem length_mem : (cs!"length", length_fn) ∈ table := by simp [table]
theorem range_mem : (cs!"range", range_fn) ∈ table := by simp [table]
theorem last_mem : (cs!"last", last_fn) ∈ table := by simp [table]
theorem init_mem : (cs!"init", init_fn) ∈ table := by simp [table]

end Prelude

/-! ### parameter binding with a rest parameter only -/

theorem pairRest (n : Name) (p : Meta) (fenv : Val) (name : Option Name) (args : List Val) :
    pairParamsAndArgs (symA n p) (.ofList []) fenv name args = .ok (.cons (.cons (symA n p) (.ofList args)) fenv) := by
  simp [pairParamsAndArgs, listToVec_ofList, bindParams, Val.restParam?, symA]

/-! ### more rules of the reference semantics -/

section rules
variable {G : Globals} {env : Val} {home : Name} {d : Nat}

theorem evs_three {x y z v w u : Val} (h1 : Eval G env home (d + 1) x (.ok v)) (h2 : Eval G env home (d + 1) y (.ok w))
    (h3 : Eval G env home (d + 1) z (.ok u)) : EvalArgs G env home d [x, y, z] (.ok [v, w, u]) :=
  .cons h1 (.cons h2 (.cons h3 .nil))

/-- `'name` is the symbol with its metadata -/
theorem ev_quoA {n : Name} {m : Meta} (hd : d ≤ Config.maxRecursionDepth) :
    Eval G env home d (quoA n m) (.ok (symA n m)) := ev_quote hd

end rules

/-! ### more `RunsJ` rules -/

theorem RunsJ.ifFalse {st : St} (hatt : st.attached = false) {env : Val} {home : Name} {d : Nat} {m : Meta} {c t o v : Val}
    {r : Res Val} (hd : d ≤ Config.maxRecursionDepth)
    (hc : RunsJ st c env home (d + 1) (.ok v)) (hv : v.isNil = true) (hb : RunsJ st o env home d r) :
    RunsJ st (.ofList [symA cs!"if" m, c, t, o]) env home d r :=
  RunsJ.ifOk hatt (first := symA cs!"if" m) hd rfl rfl rfl rfl hc (by rw [hv]; exact hb)

/-- a call of a native (other than `eval`) that answers with the outcome `r` — a value or a signal — whatever the step
count and the fuel -/
theorem RunsJ.callNativeRes {st : St} (hatt : st.attached = false) {e env : Val} {home : Name} {d : Nat} {first : Val}
    {operands args : List Val} {f : Val} {id : NativeId} {r : Res Val}
    (hd : d ≤ Config.maxRecursionDepth) (hl : listToVec e = some (first :: operands)) (hsp : isSpecial first = false)
    (hop : RunsJ st first env home (d + 1) (.ok f)) (hf : f.get = .native id) (hid : id ≠ .eval)
    (ha : RunsArgsJ st operands env home d (.ok args))
    (hn : ∀ fuel j, applyNative (fuel + 1) (C05.bump st j) id args env (d + 1) = (r, C05.bump st j)) :
    RunsJ st e env home d r := by
  obtain ⟨hlam, hq, hif, htrap⟩ := isSpecial_false hsp
  refine RunsJ.step fun j => ?_
  obtain ⟨F1, k1, hF1⟩ := hop (j + 1)
  obtain ⟨F2, k2, hF2⟩ := ha (j + 1 + k1)
  refine ⟨F1 + F2 + 1, 1 + k1 + k2, fun n hn' => ?_⟩
  obtain ⟨m, rfl⟩ : ∃ m, n = m + 1 := ⟨n - 1, by omega⟩
  rw [evalInternal_native (m + 1) _ _ _ _ e first operands env home d f id args hl hlam hq hif htrap hd
    (poll_bump st hatt j) (hF1 (m + 1) (by omega)) hf hid (hF2 (m + 1) (by omega)), hn m]
  simp only [Nat.add_assoc]

/-- a core primitive applied to operands that run in any way -/
theorem RunsJ.callPrim {st : St} (hatt : st.attached = false) {e env : Val} {home : Name} {d : Nat} {first : Val}
    {operands args : List Val} {f : Val} {id : NativeId} {r : Res Val}
    (hd : d ≤ Config.maxRecursionDepth) (hl : listToVec e = some (first :: operands)) (hsp : isSpecial first = false)
    (hop : RunsJ st first env home (d + 1) (.ok f)) (hf : f.get = .native id) (hc : corePrim id = true)
    (ha : RunsArgsJ st operands env home d (.ok args)) (hr : primResult id args (d + 1) = r) :
    RunsJ st e env home d r :=
  RunsJ.callNativeRes hatt hd hl hsp hop hf (corePrim_simple id hc).1 ha
    (fun fuel j => by rw [applyNative_corePrim fuel _ id args env (d + 1) hc, hr])

/-- `signal` on a non-nil payload raises it -/
theorem applyNative_signal (fuel : Nat) (st : St) (s env : Val) (d : Nat) (h : s.isNil = false) :
    applyNative (fuel + 1) st .signal [s] env d = (.err s, st) := by
  simp [applyNative, simpleNative, arity1, h]

theorem prim_multiply (a b : Val) (x y : Int) (d : Nat) (ha : a.get = .num x) (hb : b.get = .num y)
    (hx : inRange x = true) (hy : inRange y = true) (hr : inRange (x * y) = true) :
    primResult .multiply [a, b] d = .ok (.num (x * y)) := by
  simp only [primResult, simpleNative]
  rw [arith_exact cs!"multiply" checkedMul (· * ·) a b x y _ ha hb (checkedMul_toI64 x y hx hy), if_pos hr]

/-! ### lists as values, with an arbitrary nil tail -/

theorem ofList_eq_foldr (xs : List Val) : Val.ofList xs = xs.foldr Val.cons .nil := by
  induction xs with
  | nil => rfl
  | cons x xs ih => simp [Val.ofList, ih]

end Pici
