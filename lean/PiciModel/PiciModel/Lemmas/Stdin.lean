/-
Helper lemmas about `splitAfterNewline` / `readUntilNewline` (`Model/State.lean`), used by `Props/C18.lean`.
-/
import PiciModel.Model.State

namespace Pici

theorem splitAfterNewline_nil : splitAfterNewline [] = none := rfl

theorem splitAfterNewline_cons (b : UInt8) (bs : List UInt8) :
    splitAfterNewline (b :: bs) =
      if b = 10 then some ([b], bs)
      else match splitAfterNewline bs with
        | some (pre, post) => some (b :: pre, post)
        | none             => none := rfl

/-- a successful split: the two parts give back the input, the first part ends at its only newline -/
theorem splitAfterNewline_some {bs pre post : List UInt8} (h : splitAfterNewline bs = some (pre, post)) :
    pre ++ post = bs ∧ ∃ p, pre = p ++ [10] ∧ (10 : UInt8) ∉ p := by
  induction bs generalizing pre post with
  | nil => simp [splitAfterNewline_nil] at h
  | cons b bs ih =>
    rw [splitAfterNewline_cons] at h
    by_cases hb : b = 10
    · rw [if_pos hb] at h
      injection h with h
      injection h with h1 h2
      subst h1 h2
      refine ⟨rfl, [], ?_, ?_⟩
      · simp [hb]
      · simp
    · rw [if_neg hb] at h
      cases hs : splitAfterNewline bs with
      | none => rw [hs] at h; cases h
      | some pp =>
        obtain ⟨pre', post'⟩ := pp
        rw [hs] at h
        injection h with h
        injection h with h1 h2
        subst h1 h2
        obtain ⟨e, p, hp, hn⟩ := ih hs
        refine ⟨by simp [e], b :: p, by simp [hp], ?_⟩
        intro hm
        rcases List.mem_cons.mp hm with h10 | h10
        · exact hb h10.symm
        · exact hn h10

/-- the split fails exactly when there is no newline -/
theorem splitAfterNewline_eq_none_iff (bs : List UInt8) : splitAfterNewline bs = none ↔ (10 : UInt8) ∉ bs := by
  induction bs with
  | nil => simp [splitAfterNewline_nil]
  | cons b bs ih =>
    rw [splitAfterNewline_cons]
    by_cases hb : b = 10
    · rw [if_pos hb]; simp [hb]
    · rw [if_neg hb]
      have hb' : ¬ (10 : UInt8) = b := fun h => hb h.symm
      cases hs : splitAfterNewline bs with
      | none =>
        have := ih.mp hs
        simp [hb', this]
      | some pp =>
        have : ¬ (10 : UInt8) ∉ bs := fun hn => by
          have := ih.mpr hn
          rw [hs] at this; cases this
        simp only [List.mem_cons, not_or]
        constructor
        · intro h; cases h
        · intro h; exact absurd h.2 this

/-- a newline in the first part decides the split -/
theorem splitAfterNewline_append_some {a pre post : List UInt8} (b : List UInt8)
    (h : splitAfterNewline a = some (pre, post)) : splitAfterNewline (a ++ b) = some (pre, post ++ b) := by
  induction a generalizing pre post with
  | nil => simp [splitAfterNewline_nil] at h
  | cons x a ih =>
    rw [splitAfterNewline_cons] at h
    rw [List.cons_append, splitAfterNewline_cons]
    by_cases hx : x = 10
    · rw [if_pos hx] at h ⊢
      injection h with h
      injection h with h1 h2
      subst h1 h2
      rfl
    · rw [if_neg hx] at h ⊢
      cases hs : splitAfterNewline a with
      | none => rw [hs] at h; cases h
      | some pp =>
        obtain ⟨pre', post'⟩ := pp
        rw [hs] at h
        injection h with h
        injection h with h1 h2
        subst h1 h2
        rw [ih hs]

/-- no newline in the first part: it is prefixed to the split of the second part -/
theorem splitAfterNewline_append_none {a : List UInt8} (b : List UInt8) (h : splitAfterNewline a = none) :
    splitAfterNewline (a ++ b) =
      match splitAfterNewline b with
      | some (pre, post) => some (a ++ pre, post)
      | none             => none := by
  induction a with
  | nil =>
    rw [List.nil_append]
    cases splitAfterNewline b with
    | none => rfl
    | some pp => obtain ⟨p, q⟩ := pp; rfl
  | cons x a ih =>
    rw [splitAfterNewline_cons] at h
    rw [List.cons_append, splitAfterNewline_cons]
    by_cases hx : x = 10
    · rw [if_pos hx] at h; cases h
    · rw [if_neg hx] at h ⊢
      cases hs : splitAfterNewline a with
      | some pp => obtain ⟨p, q⟩ := pp; rw [hs] at h; cases h
      | none =>
        rw [ih hs]
        cases splitAfterNewline b with
        | none => rfl
        | some pp => obtain ⟨p, q⟩ := pp; rfl

/-- the first part of a successful split is not empty -/
theorem splitAfterNewline_some_ne_nil {bs pre post : List UInt8} (h : splitAfterNewline bs = some (pre, post)) :
    pre ≠ [] := by
  obtain ⟨_, p, hp, _⟩ := splitAfterNewline_some h
  rw [hp]; simp

/-! ### unfolding `readUntilNewline` -/

theorem readUntilNewline_of_some {buf pre post : List UInt8} (chunks : List (List UInt8)) (acc : List UInt8)
    (h : splitAfterNewline buf = some (pre, post)) : readUntilNewline buf chunks acc = (acc ++ pre, post, chunks) := by
  cases chunks <;> simp [readUntilNewline, h]

theorem readUntilNewline_none_nil {buf : List UInt8} (acc : List UInt8) (h : splitAfterNewline buf = none) :
    readUntilNewline buf [] acc = (acc ++ buf, [], []) := by
  simp [readUntilNewline, h]

theorem readUntilNewline_none_cons {buf c : List UInt8} (cs : List (List UInt8)) (acc : List UInt8)
    (h : splitAfterNewline buf = none) (hc : c ≠ []) :
    readUntilNewline buf (c :: cs) acc = readUntilNewline c cs (acc ++ buf) := by
  rw [readUntilNewline]; simp [h, hc]

/-- the accumulator is only ever a prefix of the line -/
theorem readUntilNewline_acc (buf : List UInt8) (chunks : List (List UInt8)) (acc : List UInt8) :
    readUntilNewline buf chunks acc =
      (acc ++ (readUntilNewline buf chunks []).1, (readUntilNewline buf chunks []).2.1, (readUntilNewline buf chunks []).2.2) := by
  induction chunks generalizing buf acc with
  | nil =>
    cases hs : splitAfterNewline buf with
    | none => simp [readUntilNewline_none_nil _ hs]
    | some pp => obtain ⟨p, q⟩ := pp; simp [readUntilNewline_of_some _ _ hs]
  | cons c cs ih =>
    cases hs : splitAfterNewline buf with
    | some pp => obtain ⟨p, q⟩ := pp; simp [readUntilNewline_of_some _ _ hs]
    | none =>
      by_cases hc : c = []
      · subst hc
        simp [readUntilNewline, hs]
      · rw [readUntilNewline_none_cons cs acc hs hc, readUntilNewline_none_cons cs [] hs hc]
        rw [ih c (acc ++ buf), ih c ([] ++ buf)]
        simp

end Pici
