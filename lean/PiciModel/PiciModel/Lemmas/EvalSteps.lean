/-
Helper lemmas about single steps of the evaluator (`Model/Eval.lean`) and about the shape of the values
built by `makeError` (`Model/Natives.lean`), used by `Props/C08.lean`.
-/
import PiciModel.Model.Eval

namespace Pici

/-! ### the shape of error values -/

/-- `make_error` always builds a cons cell: an error is never nil (so never an abort) -/
theorem makeError_isNil (kind source : Name) (details : List (Name × Val)) :
    (makeError kind source details).isNil = false := by
  simp [makeError, plist, Val.ofList, Val.isNil]

/-! ### a trap value, bare or behind one metadata cell -/

theorem listToVec_trap (n h : Val) : listToVec (.trap n h) = none := by
  simp [listToVec]

theorem listToVec_md_trap (n h : Val) (m : Meta) : listToVec (.md (.trap n h) m) = none := by
  simp [listToVec]

theorem get_trap (n h : Val) : (Val.trap n h).get = .trap n h := by
  simp [Val.get]

theorem get_md_trap (n h : Val) (m : Meta) : (Val.md (.trap n h) m).get = .trap n h := by
  simp [Val.get]

/-! ### one step of `evalInternal` on a trap -/

/-- the trap branch of `eval_internal`, reached when the depth test passes and the debugger poll lets the
evaluator go on -/
theorem evalInternal_trap_step (fuel : Nat) (st st1 : St) (e n h env : Val) (mod : Name) (d : Nat)
    (hl : listToVec e = none) (hg : e.get = .trap n h)
    (hd : d ≤ Config.maxRecursionDepth) (hpoll : pollDebugger st = (none, st1)) :
    evalInternal (fuel + 1) st e env mod d =
      (match evalInternal fuel st1 n env mod (d + 1) with
        | (.ok x, st)  => (.ok x, st)
        | (.err signal, st) =>
          if signal.isNil then (.err signal, st)
          else
            evalInternal fuel st h (Val.cons (.cons (.symName cs!"*trapped-signal*") signal) env) mod (d + 1)
        | (.crash s, st)   => (.crash s, st)
        | (.outOfFuel, st) => (.outOfFuel, st)) := by
  rw [evalInternal]
  have hd' : ¬ d > Config.maxRecursionDepth := Nat.not_lt.mpr hd
  simp only [hd', if_false, hpoll, hl, hg]
  rfl

/-! ### one step of `evalArgs` -/

theorem evalArgs_cons_err (fuel : Nat) (st st1 : St) (x : Val) (xs : List Val) (env : Val) (mod : Name) (d : Nat)
    (s : Val) (hx : evalInternal fuel st x env mod (d + 1) = (.err s, st1)) :
    evalArgs (fuel + 1) st (x :: xs) env mod d = (.err s, st1) := by
  rw [evalArgs, hx]

theorem evalArgs_cons_ok (fuel : Nat) (st st1 : St) (x : Val) (xs : List Val) (env : Val) (mod : Name) (d : Nat)
    (v : Val) (hx : evalInternal fuel st x env mod (d + 1) = (.ok v, st1)) :
    evalArgs (fuel + 1) st (x :: xs) env mod d =
      (match evalArgs fuel st1 xs env mod d with
       | (.ok vs, st2)     => (.ok (v :: vs), st2)
       | (.err s, st2)     => (.err s, st2)
       | (.crash s, st2)   => (.crash s, st2)
       | (.outOfFuel, st2) => (.outOfFuel, st2)) := by
  rw [evalArgs, hx]
  rfl

end Pici
