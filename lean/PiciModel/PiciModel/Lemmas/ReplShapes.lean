/-
Helper lemmas for Props/C18b: the shape (up to reader metadata and to the numbers of the symbols that the expansion of
`block` generated) of the STORED, macro-expanded body of `repl` (`Generated/ReplExpanded.lean`), cut into named pieces;
the shape of the prelude functions `output` and `get-property-safe` (`Generated/Prelude.lean`); the shape of the stored
closure of the prelude function `input`, which uses `block` and which the generated files do not contain.
-/
import PiciModel.Lemmas.PreludeSteps4
import PiciModel.Generated.ReplExpanded

namespace Pici

/-- the `i`-th element of a list form (nil when there is none) -/
def part (v : Val) (i : Nat) : Val := (((listToVec v).getD [])[i]?).getD .nil

namespace ReplX

/-! ### the pieces of the stored body of `repl`

```
(eval (trap N H))
N  = ((lambda (current-input) B1) (concat initial-input (input prompt)))
B1 = ((lambda (read-result) B2) (read current-input 'stdin 1 1))
B2 = ((lambda (read-status) C1) (. read-result 'status))
C1 = (if (= read-status 'invalid) X1 C2)        C2 = (if (= read-status 'nothing) X2 C3)
C3 = (if (= read-status 'incomplete) X3 C4)     C4 = (if (= read-status 'error) X4 C5)
C5 = (if (= read-status 'ok) ((lambda (g) (repl ">>> " nil)) (output (print (eval (. read-result 'result))))) C6)
H  = (if (= (get-property-safe 'kind *trapped-signal*) 'eof) HE H2)
HE = ((lambda (_) ((lambda (g) 'ok) (output ""))) *trapped-signal*)
```
-/

def replT : Val := part repl_body 1
def replN : Val := part replT 1
def replH : Val := part replT 2
def replB1 : Val := part (part replN 0) 2
def replB2 : Val := part (part replB1 0) 2
def replC1 : Val := part (part replB2 0) 2
def replX1 : Val := part replC1 2
def replC2 : Val := part replC1 3
def replX2 : Val := part replC2 2
def replC3 : Val := part replC2 3
def replX3 : Val := part replC3 2
def replC4 : Val := part replC3 3
def replX4 : Val := part replC4 2
def replC5 : Val := part replC4 3
def replOK : Val := part replC5 2
def replC6 : Val := part replC5 3
def replHE : Val := part replH 2
def replH2 : Val := part replH 3

theorem repl_params_shape : ∃ p1 p2, repl_params = .ofList [symA cs!"prompt" p1, symA cs!"initial-input" p2] :=
  ⟨_, _, rfl⟩
theorem repl_rest_eq : repl_rest = .nil := rfl
theorem repl_fn_eq : repl_fn = .fn .lambda repl_rest repl_params repl_body .nil cs!"repl" := rfl
theorem repl_mem : (cs!"repl", repl_fn) ∈ table := by simp [table]

theorem repl_body_shape : ∃ m1 m2, repl_body = .ofList [symA cs!"eval" m1, .ofList [symA cs!"trap" m2, replN, replH]] :=
  ⟨_, _, rfl⟩

theorem replN_shape : ∃ m1 m2 m3 m4 m5 m6, replN =
    .ofList [.ofList [symA cs!"lambda" m1, .ofList [symA cs!"current-input" m2], replB1],
             .ofList [symA cs!"concat" m3, symA cs!"initial-input" m4, .ofList [symA cs!"input" m5, symA cs!"prompt" m6]]] :=
  ⟨_, _, _, _, _, _, rfl⟩

theorem replB1_shape : ∃ m1 m2 m3 m4 m5 m6 m7, replB1 =
    .ofList [.ofList [symA cs!"lambda" m1, .ofList [symA cs!"read-result" m2], replB2],
             .ofList [symA cs!"read" m3, symA cs!"current-input" m4, quoA cs!"stdin" m5, numA 1 m6, numA 1 m7]] :=
  ⟨_, _, _, _, _, _, _, rfl⟩

theorem replB2_shape : ∃ m1 m2 m3 m4 m5, replB2 =
    .ofList [.ofList [symA cs!"lambda" m1, .ofList [symA cs!"read-status" m2], replC1],
             .ofList [symA cs!"." m3, symA cs!"read-result" m4, quoA cs!"status" m5]] :=
  ⟨_, _, _, _, _, rfl⟩

theorem replC1_shape : ∃ m1 m2 m3 m4, replC1 =
    .ofList [symA cs!"if" m1, .ofList [symA cs!"=" m2, symA cs!"read-status" m3, quoA cs!"invalid" m4], replX1, replC2] :=
  ⟨_, _, _, _, rfl⟩

theorem replC2_shape : ∃ m1 m2 m3 m4, replC2 =
    .ofList [symA cs!"if" m1, .ofList [symA cs!"=" m2, symA cs!"read-status" m3, quoA cs!"nothing" m4], replX2, replC3] :=
  ⟨_, _, _, _, rfl⟩

theorem replC3_shape : ∃ m1 m2 m3 m4, replC3 =
    .ofList [symA cs!"if" m1, .ofList [symA cs!"=" m2, symA cs!"read-status" m3, quoA cs!"incomplete" m4], replX3, replC4] :=
  ⟨_, _, _, _, rfl⟩

theorem replC4_shape : ∃ m1 m2 m3 m4, replC4 =
    .ofList [symA cs!"if" m1, .ofList [symA cs!"=" m2, symA cs!"read-status" m3, quoA cs!"error" m4], replX4, replC5] :=
  ⟨_, _, _, _, rfl⟩

theorem replC5_shape : ∃ m1 m2 m3 m4, replC5 =
    .ofList [symA cs!"if" m1, .ofList [symA cs!"=" m2, symA cs!"read-status" m3, quoA cs!"ok" m4], replOK, replC6] :=
  ⟨_, _, _, _, rfl⟩

/-- the `ok` arm: `(block (output (print (eval (. read-result 'result)))) (repl ">>> " nil))` as stored; `g` is the
symbol that the expansion of `block` generated when repl.lisp was loaded -/
theorem replOK_shape : ∃ g m1 m2 m3 m4 m5 m6 m7 m8 m9, replOK =
    .ofList [.ofList [symA cs!"lambda" m1, .ofList [.sym (.gen g)],
               .ofList [symA cs!"repl" m2, .ofList [.symName cs!"list", .chr '>', .chr '>', .chr '>', .chr ' '],
                        symA cs!"nil" m3]],
             .ofList [symA cs!"output" m4,
               .ofList [symA cs!"print" m5,
                 .ofList [symA cs!"eval" m6, .ofList [symA cs!"." m7, symA cs!"read-result" m8, quoA cs!"result" m9]]]]] :=
  ⟨_, _, _, _, _, _, _, _, _, _, rfl⟩

theorem replH_shape : ∃ m1 m2 m3 m4 m5 m6 m7 m8, replH =
    .ofList [symA cs!"if" m1,
      .ofList [symA cs!"=" m2,
        .ofList [symA cs!"get-property-safe" m3, .ofList [symA cs!"quote" m4, symA cs!"kind" m5],
                 symA cs!"*trapped-signal*" m6],
        .ofList [symA cs!"quote" m7, symA cs!"eof" m8]],
      replHE, replH2] :=
  ⟨_, _, _, _, _, _, _, _, rfl⟩

/-- the `eof` catcher applied to the signal: `((lambda (_) (block (output "") 'ok)) *trapped-signal*)` as stored -/
theorem replHE_shape : ∃ g m1 m2 m3 m4 m5 m6, replHE =
    .ofList [.ofList [symA cs!"lambda" m1, .ofList [symA cs!"_" m2],
               .ofList [.ofList [symA cs!"lambda" m3, .ofList [.sym (.gen g)], quoA cs!"ok" m4],
                        .ofList [symA cs!"output" m5, .ofList [.symName cs!"list"]]]],
             symA cs!"*trapped-signal*" m6] :=
  ⟨_, _, _, _, _, _, _, rfl⟩

end ReplX

/-! ### the prelude functions `output` and `get-property-safe` -/

namespace Prelude

theorem output_params_shape : ∃ p1, output_params = .ofList [symA cs!"msg" p1] := ⟨_, rfl⟩
theorem output_rest_eq : output_rest = .nil := rfl
theorem output_body_shape : ∃ m1 m2 m3 m4, output_body =
    .ofList [symA cs!"output-file" m1, symA cs!"*stdout*" m2,
      .ofList [symA cs!"concat" m3, symA cs!"msg" m4, .ofList [.symName cs!"list", .chr '\n']]] :=
  ⟨_, _, _, _, rfl⟩
theorem output_fn_eq : output_fn = .fn .lambda output_rest output_params output_body .nil cs!"prelude" := rfl
theorem output_mem : (cs!"output", output_fn) ∈ table := by simp [table]

theorem get_property_safe_params_shape : ∃ p1 p2,
    get_property_safe_params = .ofList [symA cs!"key" p1, symA cs!"plist" p2] := ⟨_, _, rfl⟩
theorem get_property_safe_rest_eq : get_property_safe_rest = .nil := rfl
theorem get_property_safe_body_shape : ∃ m1 m2 m3 m4 m5 m6, get_property_safe_body =
    .ofList [symA cs!"eval" m1,
      .ofList [symA cs!"trap" m2, .ofList [symA cs!"." m3, symA cs!"plist" m4, symA cs!"key" m5], symA cs!"nil" m6]] :=
  ⟨_, _, _, _, _, _, rfl⟩
theorem get_property_safe_fn_eq :
    get_property_safe_fn = .fn .lambda get_property_safe_rest get_property_safe_params get_property_safe_body .nil cs!"prelude" :=
  rfl
theorem get_property_safe_mem : (cs!"get-property-safe", get_property_safe_fn) ∈ table := by simp [table]

end Prelude

namespace PreludeX
theorem concat_fn_eq : concat_fn = .fn .lambda concat_rest concat_params concat_body .nil cs!"prelude" := rfl
theorem concat_mem : (cs!"concat", concat_fn) ∈ table := by simp [table]
end PreludeX

/-! ### the prelude function `input`

`(defun input (prompt) (block (output-file *stdout* prompt) (input-file *stdin*)))` uses the macro `block`; what the
interpreter binds is the closure over the EXPANDED body — `((lambda (g) (input-file *stdin*)) (output-file *stdout* prompt))`
with `g` a generated symbol (`C16.block_expands`, Props/C16c.lean: the two lists that `block` builds end in the value of the
global `nil`). The generated files (`Generated/PreludeExpanded.lean`) do not contain this closure, so it is described here,
up to metadata, to the number of the generated symbol and to the two nil tails. -/

/-- the stored body of `input` -/
def inputBody (g : Nat) (m1 m2 m3 m4 m5 m6 : Meta) (t1 t2 : Val) : Val :=
  .cons (.ofList [symA cs!"lambda" m1, .cons (.sym (.gen g)) t1, .ofList [symA cs!"input-file" m2, symA cs!"*stdin*" m3]])
    (.cons (.ofList [symA cs!"output-file" m4, symA cs!"*stdout*" m5, symA cs!"prompt" m6]) t2)

/-- `f` is the stored closure of the prelude function `input` -/
def IsInputFn (f : Val) : Prop :=
  ∃ p g m1 m2 m3 m4 m5 m6 t1 t2, t1.isNil = true ∧ t2.isNil = true ∧
    f = .fn .lambda .nil (.ofList [symA cs!"prompt" p]) (inputBody g m1 m2 m3 m4 m5 m6 t1 t2) .nil cs!"prelude"

end Pici
