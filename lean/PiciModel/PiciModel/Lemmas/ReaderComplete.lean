/-
Helper lemmas for Props/C11b: a text on which the reader reports `incomplete` can be completed.

The tokenizer reports `incomplete` only at the end of the text, inside a string (`"`, or right after a `\` in it) or
right after `%`; the token loop reports it when the text runs out with a pending quote or with open lists.  In each of
these states a continuation is exhibited: `"` closes a string (`n"` after a backslash), `a` gives `%` its character, a
newline followed by `a` gives a pending quote its datum (the newline because the text may end inside a `;` comment or
right after an atom), and one `)` per open list.
-/
import PiciModel.Lemmas.ReaderSpec

namespace Pici.ReaderSpec
open Pici

/-! ### single steps of the tokenizer used by the completions -/

theorem act_sN_dquote (loc : Loc) (b : List Char) (g : Loc) :
    act '"' loc .stringNormal b g = .tok (.string b.reverse) g := rfl
theorem act_sE_n (loc : Loc) (b : List Char) (g : Loc) :
    act 'n' loc .stringEscape b g = .go .stringNormal ('\n' :: b) g := rfl
theorem act_char_a (loc : Loc) (g : Loc) : act 'a' loc .character [] g = .fin .character ['a'] g := rfl
theorem act_ws_a (loc : Loc) (g : Loc) : act 'a' loc .whiteSpace [] g = .fin .symbol ['a'] loc := rfl
theorem act_ws_close (loc : Loc) (g : Loc) : act ')' loc .whiteSpace [] g = .tok .closeParen loc := rfl
theorem act_ws_nl (loc : Loc) (g : Loc) : act '\n' loc .whiteSpace [] g = .fin .whiteSpace [] g := rfl

/-- the tokens that are data by themselves -/
def isAtomTok : TokenValue → Bool
  | .character _ | .number _ | .symbol _ | .string _ => true
  | _ => false

/-- one `)` per open list -/
def closers (n : Nat) : List Char := List.replicate n ')'

theorem closers_succ (n : Nat) : closers (n + 1) = ')' :: closers n := rfl
theorem closers_length (n : Nat) : (closers n).length = n := by simp [closers]

theorem nd_closers (n : Nat) : nd (closers n) = false := by
  cases n with
  | zero => rfl
  | succ n => rw [closers_succ, nd_cons]; decide

/-! ### `finishF` when text is appended -/

theorem endF_incomplete (its : List (Char × Val)) (loc : Loc) (rest : Rest) (s : TokStatus) (b : List Char) (g : Loc)
    (h : endF its loc rest s b g = .err .incomplete) :
    (s = .stringNormal ∨ s = .stringEscape) ∧ tokLoop its .eof loc s b g = .err .incomplete ∧
      ∀ its2 rest2, endF its2 loc rest2 s b g = tokLoop its2 .eof loc s b g := by
  unfold endF at h
  split at h
  · split at h <;> cases h
  · split at h <;> cases h
  · cases h
  · cases h
  · exact ⟨.inl rfl, h, fun _ _ => rfl⟩
  · exact ⟨.inr rfl, h, fun _ _ => rfl⟩
  · cases h
  · cases h

theorem finishF_go_ext (cs w : List Char) (loc : Loc) (rest2 : Rest) (s : TokStatus) (b : List Char) (g : Loc)
    (hc : b = [] ∨ nd cs = true) :
    finishF (items (cs ++ w)) .eof loc rest2 s b g = tokLoop (items (cs ++ w)) .eof loc s b g := by
  rcases hc with hc | hc
  · subst hc; exact finishF_nil ..
  · apply finishF_nd
    cases cs with
    | nil => cases hc
    | cons d cs => exact hc

theorem finishF_string (cs : List Char) (loc : Loc) (rest : Rest) (s : TokStatus) (b : List Char) (g : Loc)
    (hs : ∀ its2 rest2, endF its2 loc rest2 s b g = tokLoop its2 .eof loc s b g) :
    finishF (items cs) .eof loc rest s b g = tokLoop (items cs) .eof loc s b g := by
  rcases finishF_cases cs loc rest s b g with ⟨h, -⟩ | ⟨h, -, -⟩
  · exact h
  · rw [h, hs]

/-! ### an unfinished token can be finished -/

/-- some non-empty piece of text `t1` finishes the token in progress: whatever `u` follows (starting with a delimiter
or empty), the tokenizer then returns an atom token and leaves exactly `u` -/
def Completes (cs : List Char) (loc : Loc) (s : TokStatus) (b : List Char) (g : Loc) : Prop :=
  ∃ t1 : List Char, t1 ≠ [] ∧ ∀ u, nd u = false → ∃ v tloc rest nl, isAtomTok v = true ∧
    tokLoop (items (cs ++ (t1 ++ u))) .eof loc s b g = .token v tloc rest (items u) nl

/-- the same for the atom-ending test -/
def CompletesF (cs : List Char) (loc : Loc) (s : TokStatus) (b : List Char) (g : Loc) : Prop :=
  ∃ t1 : List Char, t1 ≠ [] ∧ ∀ u, nd u = false → ∃ v tloc rest nl, isAtomTok v = true ∧
    ∀ rest2, finishF (items (cs ++ (t1 ++ u))) .eof loc rest2 s b g = .token v tloc rest (items u) nl

theorem Completes.of_go {c : Char} {cs : List Char} {loc : Loc} {s : TokStatus} {b : List Char} {g : Loc}
    {s' : TokStatus} {b' : List Char} {g' : Loc} (ha : act c (loc.step c) s b g = .go s' b' g')
    (h : Completes cs (loc.step c) s' b' g') : Completes (c :: cs) loc s b g := by
  obtain ⟨t1, h1, h2⟩ := h
  refine ⟨t1, h1, fun u hu => ?_⟩
  obtain ⟨v, tloc, rest, nl, hv, ht⟩ := h2 u hu
  refine ⟨v, tloc, rest, nl, hv, ?_⟩
  rw [List.cons_append, items_cons, tokLoop_cons, ha]
  exact ht

theorem Completes.of_fin {c : Char} {cs : List Char} {loc : Loc} {s : TokStatus} {b : List Char} {g : Loc}
    {s' : TokStatus} {b' : List Char} {g' : Loc} (ha : act c (loc.step c) s b g = .fin s' b' g')
    (h : CompletesF cs (loc.step c) s' b' g') : Completes (c :: cs) loc s b g := by
  obtain ⟨t1, h1, h2⟩ := h
  refine ⟨t1, h1, fun u hu => ?_⟩
  obtain ⟨v, tloc, rest, nl, hv, ht⟩ := h2 u hu
  refine ⟨v, tloc, rest, nl, hv, ?_⟩
  rw [List.cons_append, items_cons, tokLoop_cons, ha]
  exact ht _

/-- the atom-ending test reports `incomplete` only by going on; so it can be completed if the tokenizer can -/
theorem finishF_incomplete_of (cs : List Char)
    (hA : ∀ (loc : Loc) (s : TokStatus) (b : List Char) (g : Loc), Kf s b →
      (b ≠ [] → s = .stringNormal ∨ s = .stringEscape ∨ nd cs = true) →
      tokLoop (items cs) .eof loc s b g = .err .incomplete → Completes cs loc s b g)
    (loc : Loc) (rest : Rest) (s : TokStatus) (b : List Char) (g : Loc) (hk : Kf s b)
    (h : finishF (items cs) .eof loc rest s b g = .err .incomplete) : CompletesF cs loc s b g := by
  rcases finishF_cases cs loc rest s b g with ⟨h', hc⟩ | ⟨h', hne, hn⟩
  · rw [h'] at h
    obtain ⟨t1, h1, h2⟩ := hA loc s b g hk (fun hne => by
      rcases hc with hc | hc
      · exact absurd hc hne
      · exact .inr (.inr hc)) h
    refine ⟨t1, h1, fun u hu => ?_⟩
    obtain ⟨v, tloc, rest', nl, hv, ht⟩ := h2 u hu
    refine ⟨v, tloc, rest', nl, hv, fun rest2 => ?_⟩
    rw [finishF_go_ext cs _ _ _ _ _ _ hc]
    exact ht
  · rw [h'] at h
    obtain ⟨hs, h3, h4⟩ := endF_incomplete _ _ _ _ _ _ h
    obtain ⟨t1, h1, h2⟩ := hA loc s b g hk (fun _ => by
      rcases hs with hs | hs
      · exact .inl hs
      · exact .inr (.inl hs)) h3
    refine ⟨t1, h1, fun u hu => ?_⟩
    obtain ⟨v, tloc, rest', nl, hv, ht⟩ := h2 u hu
    refine ⟨v, tloc, rest', nl, hv, fun rest2 => ?_⟩
    rw [finishF_string _ _ _ _ _ _ h4]
    exact ht

/-- once a token has started, `incomplete` means: inside a string, or right after `%` -/
theorem tokLoop_incomplete_started (cs : List Char) : ∀ (loc : Loc) (s : TokStatus) (b : List Char) (g : Loc), Kf s b →
    (b ≠ [] → s = .stringNormal ∨ s = .stringEscape ∨ nd cs = true) →
    tokLoop (items cs) .eof loc s b g = .err .incomplete → Completes cs loc s b g := by
  induction cs with
  | nil =>
    intro loc s b g hk hb _
    obtain ⟨-, -, h3⟩ := hk
    have hs : s = .stringNormal ∨ s = .stringEscape ∨ (s = .character ∧ b = []) := by
      by_cases hbn : b = []
      · rcases h3 hbn with h | h | h
        · exact .inl h
        · exact .inr (.inl h)
        · exact .inr (.inr ⟨h, hbn⟩)
      · rcases hb hbn with h | h | h
        · exact .inl h
        · exact .inr (.inl h)
        · cases h
    rcases hs with rfl | rfl | ⟨rfl, rfl⟩
    · refine ⟨['"'], by simp, fun u _ => ⟨.string b.reverse, g,
        ⟨.ofChars u, (loc.step '"').line, (loc.step '"').col + 1⟩, loc.step '"', rfl, ?_⟩⟩
      show tokLoop (items ('"' :: u)) .eof loc .stringNormal b g = _
      rw [items_cons, tokLoop_cons, act_sN_dquote]
      rfl
    · refine ⟨['n', '"'], by simp, fun u _ => ⟨.string ('\n' :: b).reverse, g,
        ⟨.ofChars u, ((loc.step 'n').step '"').line, ((loc.step 'n').step '"').col + 1⟩, (loc.step 'n').step '"', rfl, ?_⟩⟩
      show tokLoop (items ('n' :: '"' :: u)) .eof loc .stringEscape b g = _
      rw [items_cons, tokLoop_cons, act_sE_n]
      simp only [runAct]
      rw [items_cons, tokLoop_cons, act_sN_dquote]
      rfl
    · refine ⟨['a'], by simp, fun u hu => ⟨.character 'a', g,
        ⟨.ofChars u, (loc.step 'a').line, (loc.step 'a').col + 1⟩, loc.step 'a', rfl, ?_⟩⟩
      show tokLoop (items ('a' :: u)) .eof loc .character [] g = _
      rw [items_cons, tokLoop_cons, act_char_a]
      simp only [runAct]
      rw [finishF_end u _ _ _ _ _ (by simp) hu]
      rfl
  | cons c cs ih =>
    intro loc s b g hk hb h
    rw [items_cons, tokLoop_cons] at h
    have hact := act_K c (loc.step c) s b g hk (by
      intro hne
      rcases hb hne with h | h | h
      · exact .inl h
      · exact .inr (.inl h)
      · exact .inr (.inr (by simpa [nd_cons] using h)))
    cases ha : act c (loc.step c) s b g with
    | go s' b' g' =>
      rw [ha] at hact h
      obtain ⟨rfl, rfl⟩ := hact
      exact Completes.of_go ha (ih _ _ _ _ ⟨by simp, by simp, by simp⟩ (fun _ => .inl rfl) h)
    | tok v tl => rw [ha] at h; cases h
    | bad m => rw [ha] at h; cases h
    | fin s' b' g' =>
      rw [ha] at hact h
      obtain ⟨rfl, hk'⟩ := hact
      exact Completes.of_fin ha (finishF_incomplete_of cs ih _ _ _ _ _ hk' h)

theorem finishF_incomplete (cs : List Char) (loc : Loc) (rest : Rest) (s : TokStatus) (b : List Char) (g : Loc) (hk : Kf s b)
    (h : finishF (items cs) .eof loc rest s b g = .err .incomplete) : CompletesF cs loc s b g :=
  finishF_incomplete_of cs (tokLoop_incomplete_started cs) loc rest s b g hk h

/-- the same from the states between tokens -/
theorem tokLoop_incomplete_blank (cs : List Char) : ∀ (loc g : Loc),
    (tokLoop (items cs) .eof loc .whiteSpace [] g = .err .incomplete → Completes cs loc .whiteSpace [] g) ∧
    (tokLoop (items cs) .eof loc .comment [] g = .err .incomplete → Completes cs loc .comment [] g) := by
  induction cs with
  | nil =>
    intro loc g
    constructor <;> intro h <;> rw [items, tokLoop_nil] at h <;> simp at h
  | cons c cs ih =>
    intro loc g
    constructor
    · rw [items_cons, tokLoop_cons]
      intro h
      by_cases hsc : c = ';'
      · subst hsc
        have ha := act_ws_semicolon (loc.step ';') g
        rw [ha] at h
        simp only [runAct, finishF_nil] at h
        obtain ⟨t1, h1, h2⟩ := (ih _ _).2 h
        refine Completes.of_fin ha ⟨t1, h1, fun u hu => ?_⟩
        obtain ⟨v, tloc, rest, nl, hv, ht⟩ := h2 u hu
        exact ⟨v, tloc, rest, nl, hv, fun rest2 => by rw [finishF_nil]; exact ht⟩
      · by_cases hb : (isWhitespace c || c == ',') = true
        · have ha := act_ws_blank c (loc.step c) g hb
          rw [ha] at h
          simp only [runAct, finishF_nil] at h
          obtain ⟨t1, h1, h2⟩ := (ih _ _).1 h
          refine Completes.of_fin ha ⟨t1, h1, fun u hu => ?_⟩
          obtain ⟨v, tloc, rest, nl, hv, ht⟩ := h2 u hu
          exact ⟨v, tloc, rest, nl, hv, fun rest2 => by rw [finishF_nil]; exact ht⟩
        · have hb' : (isWhitespace c || c == ',') = false := by simpa using hb
          have hact := act_ws_start c (loc.step c) g hb' hsc
          cases ha : act c (loc.step c) .whiteSpace [] g with
          | go s' b' g' => rw [ha] at hact; exact hact.elim
          | tok v tl => rw [ha] at h; cases h
          | bad m => rw [ha] at h; cases h
          | fin s' b' g' =>
            rw [ha] at h hact
            exact Completes.of_fin ha (finishF_incomplete cs _ _ _ _ _ hact.2 h)
    · rw [items_cons, tokLoop_cons]
      intro h
      have ha := act_comment c (loc.step c) [] g
      rw [ha] at h
      simp only [runAct] at h
      by_cases hn : c = '\n'
      · subst hn
        simp only [if_true] at h ha
        exact Completes.of_go ha ((ih _ _).1 h)
      · rw [if_neg hn] at h ha
        exact Completes.of_go ha ((ih _ _).2 h)

/-! ### blank text followed by a newline -/

/-- after blank text (possibly ending inside a comment) a newline brings the tokenizer back between tokens -/
theorem tokLoop_done_newline (cs : List Char) : ∀ (loc g : Loc),
    (tokLoop (items cs) .eof loc .whiteSpace [] g = .done → ∀ u, ∃ loc',
      tokLoop (items (cs ++ '\n' :: u)) .eof loc .whiteSpace [] g = tokLoop (items u) .eof loc' .whiteSpace [] g) ∧
    (tokLoop (items cs) .eof loc .comment [] g = .done → ∀ u, ∃ loc',
      tokLoop (items (cs ++ '\n' :: u)) .eof loc .comment [] g = tokLoop (items u) .eof loc' .whiteSpace [] g) := by
  induction cs with
  | nil =>
    intro loc g
    constructor
    · intro _ u
      refine ⟨loc.step '\n', ?_⟩
      rw [List.nil_append, items_cons, tokLoop_cons, act_ws_nl]
      simp only [runAct, finishF_nil]
    · intro _ u
      refine ⟨loc.step '\n', ?_⟩
      rw [List.nil_append, items_cons, tokLoop_cons, act_comment]
      simp only [runAct, if_true]
  | cons c cs ih =>
    intro loc g
    constructor
    · rw [items_cons, tokLoop_cons]
      intro h u
      rw [List.cons_append, items_cons, tokLoop_cons]
      by_cases hsc : c = ';'
      · subst hsc
        rw [act_ws_semicolon] at h ⊢
        simp only [runAct, finishF_nil] at h ⊢
        exact (ih _ _).2 h u
      · by_cases hb : (isWhitespace c || c == ',') = true
        · rw [act_ws_blank _ _ _ hb] at h ⊢
          simp only [runAct, finishF_nil] at h ⊢
          exact (ih _ _).1 h u
        · exfalso
          have hb' : (isWhitespace c || c == ',') = false := by simpa using hb
          have hact := act_ws_start c (loc.step c) g hb' hsc
          cases ha : act c (loc.step c) .whiteSpace [] g with
          | go s' b' g' => rw [ha] at hact; exact hact
          | tok v tl => rw [ha] at h; cases h
          | bad m => rw [ha] at h; cases h
          | fin s' b' g' =>
            rw [ha] at h hact
            exact (finishF_started cs _ _ _ _ _ hact.2).1 h
    · rw [items_cons, tokLoop_cons, act_comment]
      intro h u
      rw [List.cons_append, items_cons, tokLoop_cons, act_comment]
      simp only [runAct] at h ⊢
      by_cases hn : c = '\n'
      · subst hn
        simp only [if_true] at h ⊢
        exact (ih _ _).1 h u
      · rw [if_neg hn] at h ⊢
        exact (ih _ _).2 h u

theorem tokLoop_ws_a (u : List Char) (hu : nd u = false) (loc g : Loc) :
    tokLoop (items ('a' :: u)) .eof loc .whiteSpace [] g =
      .token (.symbol ['a']) (loc.step 'a') ⟨.ofChars u, (loc.step 'a').line, (loc.step 'a').col + 1⟩ (items u) (loc.step 'a') := by
  rw [items_cons, tokLoop_cons, act_ws_a]
  simp only [runAct]
  rw [finishF_end u _ _ _ _ _ (by simp) hu]
  rfl

/-! ### closing the open lists -/

theorem nextToken_close (u : List Char) (loc : Loc) :
    nextToken (items (')' :: u)) .eof loc =
      .token .closeParen (loc.step ')') ⟨.ofChars u, (loc.step ')').line, (loc.step ')').col + 1⟩ (items u) (loc.step ')') := by
  unfold nextToken
  rw [items_cons, tokLoop_cons, act_ws_close]
  rfl

/-- one `)` per open list ends the datum, whatever the `quoted` flag -/
theorem readLoop_closers (n : Nat) : ∀ (stack : List (List Val × Bool)) (quoted : Bool) (loc : Loc) (fuel : Nat),
    stack.length = n + 1 → n + 1 ≤ fuel →
    ∃ v rest, readLoop fuel (items (closers (n + 1))) .eof loc stack quoted = .ok (v, rest) := by
  induction n with
  | zero =>
    intro stack quoted loc fuel hs hf
    obtain ⟨f, rfl⟩ : ∃ f, fuel = f + 1 := ⟨fuel - 1, by omega⟩
    match stack, hs with
    | [(vec, q)], _ =>
      rw [readLoop_succ, closers_succ, nextToken_close]
      exact ⟨_, _, rfl⟩
  | succ n ih =>
    intro stack quoted loc fuel hs hf
    obtain ⟨f, rfl⟩ : ∃ f, fuel = f + 1 := ⟨fuel - 1, by omega⟩
    match stack, hs with
    | (vec, q) :: (lvec, lq) :: lower', hs =>
      rw [readLoop_succ, closers_succ, nextToken_close]
      simp only [rstep, runR]
      exact ih _ _ _ _ (by simpa using hs) (by omega)

/-- an atom token followed by one `)` per open list ends the datum -/
theorem runR_atom (v : TokenValue) (tloc : Loc) (hv : isAtomTok v = true) (stack : List (List Val × Bool)) (quoted : Bool)
    (fuel : Nat) (hf : stack.length ≤ fuel) (rest : Rest) (nl : Loc) :
    ∃ x rest', runR fuel .eof tloc rest (items (closers stack.length)) nl (rstep v tloc stack quoted) = .ok (x, rest') := by
  cases v
  case quote => cases hv
  case openParen => cases hv
  case closeParen => cases hv
  all_goals
    cases stack with
    | nil => exact ⟨_, _, rfl⟩
    | cons top lower =>
      obtain ⟨vec, q⟩ := top
      simp only [rstep, tokenAtom, runR]
      exact readLoop_closers lower.length _ _ _ _ (by simp) (by simpa using hf)

/-! ### a token is found again when what is appended starts with a delimiter -/

/-- `tokLoop_token_ext`, also for an atom at the very end of the text when the appended text starts with a delimiter -/
theorem tokLoop_token_ext' (cs : List Char) : ∀ (loc : Loc) (s : TokStatus) (b : List Char) (g : Loc)
    (v : TokenValue) (tloc : Loc) (rest : Rest) (r : List Char) (newLoc : Loc),
    tokLoop (items cs) .eof loc s b g = .token v tloc rest (items r) newLoc → ∀ t,
    (r ≠ [] ∨ nonAtom v = true ∨ nd t = false) →
    tokLoop (items (cs ++ t)) .eof loc s b g = .token v tloc ⟨.ofChars (r ++ t), rest.line, rest.column⟩ (items (r ++ t)) newLoc := by
  induction cs with
  | nil =>
    intro loc s b g v tloc rest r newLoc h
    exact absurd h (tokLoop_nil_ne_token _ _ _ _ _ _ _ _ _)
  | cons c cs ih =>
    intro loc s b g v tloc rest r newLoc h t hr
    rw [items_cons, tokLoop_cons] at h
    rw [List.cons_append, items_cons, tokLoop_cons]
    cases hact : act c (loc.step c) s b g with
    | go s' b' g' => rw [hact] at h; exact ih _ _ _ _ _ _ _ _ _ h t hr
    | tok v' tl =>
      rw [hact] at h
      simp only [runAct] at h ⊢
      injection h with h1 h2 h3 h4 h5
      have := items_inj h4
      subst h1 h2 h3 h5 this
      rfl
    | bad m => rw [hact] at h; cases h
    | fin s' b' g' =>
      rw [hact] at h
      simp only [runAct] at h ⊢
      rcases finishF_cases cs (loc.step c) ⟨.ofChars cs, (loc.step c).line, (loc.step c).col + 1⟩ s' b' g' with ⟨h', hc⟩ | ⟨h', hb, hn⟩
      · rw [h'] at h
        rw [finishF_go_ext cs t _ _ _ _ _ hc]
        exact ih _ _ _ _ _ _ _ _ _ h t hr
      · rw [h'] at h
        rcases endF_token _ _ _ _ _ _ _ _ _ _ _ h with ⟨-, h1, h2⟩ | ⟨h1, h2, h3, h4, h5, h6⟩
        · rw [finishF_string _ _ _ _ _ _ h2]
          exact ih _ _ _ _ _ _ _ _ _ h1 t hr
        · have hcs := items_inj h1
          subst hcs h2 h3
          have hnd : nd (r ++ t) = false := by
            cases r with
            | nil =>
              rcases hr with hr | hr | hr
              · exact absurd rfl hr
              · rw [h4] at hr; cases hr
              · exact hr
            | cons d r => exact hn
          rw [finishF_end _ _ _ _ _ _ hb hnd, h6]

/-! ### the token loop: `incomplete` can be completed -/

/-- from any state of the token loop: if the remaining text makes it report `incomplete`, some non-empty continuation
makes it return a datum (with enough fuel: one more round per appended character is plenty) -/
theorem readLoop_incomplete_completable (fuel : Nat) : ∀ (cs : List Char) (loc : Loc) (stack : List (List Val × Bool)) (quoted : Bool),
    readLoop fuel (items cs) .eof loc stack quoted = .error .incomplete →
    ∃ t : List Char, t ≠ [] ∧ (cs = [] → nd t = false) ∧ ∀ fuel', fuel + t.length ≤ fuel' →
      ∃ v rest, readLoop fuel' (items (cs ++ t)) .eof loc stack quoted = .ok (v, rest) := by
  induction fuel with
  | zero => intro cs loc stack quoted h; rw [readLoop_zero] at h; cases h
  | succ fuel ih =>
    intro cs loc stack quoted h
    rw [readLoop_succ] at h
    cases ht : nextToken (items cs) .eof loc with
    | err e =>
      rw [ht] at h
      simp only [Except.error.injEq] at h
      subst h
      unfold nextToken at ht
      obtain ⟨t1, hne, hc⟩ := (tokLoop_incomplete_blank cs loc loc).1 ht
      refine ⟨t1 ++ closers stack.length, by simp [hne], ?_, ?_⟩
      · rintro rfl
        rw [items, tokLoop_nil] at ht
        simp at ht
      · intro fuel' hf
        obtain ⟨f', rfl⟩ : ∃ f', fuel' = f' + 1 := ⟨fuel' - 1, by omega⟩
        obtain ⟨v, tloc, rest, nl, hv, htok⟩ := hc (closers stack.length) (nd_closers _)
        rw [readLoop_succ]
        unfold nextToken
        rw [htok]
        simp only
        rw [List.length_append, closers_length] at hf
        exact runR_atom v tloc hv stack quoted f' (by omega) rest nl
    | done =>
      unfold nextToken at ht
      refine ⟨'\n' :: 'a' :: closers stack.length, by simp, fun _ => by rw [nd_cons]; decide, ?_⟩
      intro fuel' hf
      obtain ⟨f', rfl⟩ : ∃ f', fuel' = f' + 1 := ⟨fuel' - 1, by omega⟩
      obtain ⟨loc', hl⟩ := (tokLoop_done_newline cs loc loc).1 ht ('a' :: closers stack.length)
      rw [readLoop_succ]
      unfold nextToken
      rw [hl, tokLoop_ws_a _ (nd_closers _)]
      simp only
      simp only [List.length_cons, closers_length] at hf
      exact runR_atom (.symbol ['a']) _ rfl stack quoted f' (by omega) _ _
    | token v tloc rest1 remaining newLoc =>
      rw [ht] at h
      obtain ⟨consumed, r, h1, h2, h3, h4, h5⟩ := tokLoop_token_prefix cs _ _ _ _ _ _ _ _ _ ht
      subst h3
      simp only at h
      cases hs : rstep v tloc stack quoted with
      | cont st q =>
        rw [hs] at h
        simp only [runR] at h
        obtain ⟨t, hne, hnd, hok⟩ := ih _ _ _ _ h
        refine ⟨t, hne, ?_, ?_⟩
        · intro hcs
          rw [hcs] at h1
          have : consumed = [] := (List.append_eq_nil_iff.mp h1.symm).1
          exact absurd this h2
        · intro fuel' hf
          obtain ⟨f', rfl⟩ : ∃ f', fuel' = f' + 1 := ⟨fuel' - 1, by omega⟩
          have hext : r ≠ [] ∨ nonAtom v = true ∨ nd t = false := by
            by_cases hr : r = []
            · exact .inr (.inr (hnd hr))
            · exact .inl hr
          rw [readLoop_succ]
          unfold nextToken at ht ⊢
          rw [tokLoop_token_ext' cs _ _ _ _ _ _ _ _ _ ht t hext]
          simp only
          rw [hs]
          exact hok f' (by omega)
      | retOk y => rw [hs] at h; cases h
      | tooMany => rw [hs] at h; cases h
      | notAtom => rw [hs] at h; cases h

end Pici.ReaderSpec
