/-
Helper lemmas for Props/C20b, part 4: the stepping evaluator of debugger.lisp, piece by piece, run by the model evaluator
with `step-in` bound to an empty list (every `(when step-in …)` is skipped: nothing is sent, nothing received).
Every lemma is about a piece of code of a given SHAPE (`Lemmas/DebuggerShapes.lean`), in an environment given as a chain
of bindings whose reader metadata is arbitrary.
-/
import PiciModel.Lemmas.DebuggerShapes
import PiciModel.Lemmas.DebuggerPrelude

namespace Pici.Dbg
open Pici Pici.Ref Pici.DebuggerX

/-- what `Props/C20b.lean` calls `LoadedD`: prelude and debugger loaded, no debugger attached; everything the stepping
evaluator uses resolves from the module `debugger` -/
structure DLoaded (st : St) : Prop where
  base      : C16.Loaded st
  debugger  : ∀ name v, (name, v) ∈ DebuggerX.table → ∃ w, st.getGlobal name cs!"debugger" = .found w ∧ w.get = v
  preludeD  : ∀ name v, (name, v) ∈ Prelude.table → ∃ w, st.getGlobal name cs!"debugger" = .found w ∧ w.get = v
  nativesD  : ∀ id : NativeId, ∃ w, st.getGlobal id.name cs!"debugger" = .found w ∧ w.get = .native id
  nilD      : ∃ w, st.getGlobal cs!"nil" cs!"debugger" = .found w ∧ w.isNil = true

/-! ### environments as chains of bindings -/

/-- a binding of a reader symbol, in front of `E` -/
def bindN (n : Name) (m : Meta) (v E : Val) : Val := .cons (.cons (symA n m) v) E
/-- a binding of a generated symbol, in front of `E` -/
def bindG (g : Nat) (v E : Val) : Val := .cons (.cons (.sym (.gen g)) v) E

theorem lookupEnv_bindN_hit (n : Name) (m : Meta) (v E : Val) : lookupEnv (.named n) (bindN n m v E) = some v :=
  lookupEnv_hit n m v E
theorem lookupEnv_bindN_miss (n n' : Name) (m : Meta) (v E : Val) (h : n' ≠ n) :
    lookupEnv (.named n) (bindN n' m v E) = lookupEnv (.named n) E := lookupEnv_miss n n' m v E h
theorem lookupEnv_bindG (n : Name) (g : Nat) (v E : Val) : lookupEnv (.named n) (bindG g v E) = lookupEnv (.named n) E :=
  lookupEnv_miss_gen n g v E

/-- the environment of a call of `debug-eval-internal` or `debug-list`: `(expr env env-module step-in)` -/
def env4 (p1 p2 p3 p4 : Meta) (e env mv sv : Val) : Val :=
  bindN cs!"step-in" p4 sv (bindN cs!"env-module" p3 mv (bindN cs!"env" p2 env (bindN cs!"expr" p1 e .nil)))

/-- the environment of a call of a function of three parameters -/
def env3 (n1 n2 n3 : Name) (p1 p2 p3 : Meta) (a b c : Val) : Val :=
  bindN n3 p3 c (bindN n2 p2 b (bindN n1 p1 a .nil))

/-- the environment of the `case` on the operator in `debug-list`: `(let (operator … operands … highlight-and-debug …) …)` -/
def dlEnv (a b c : Meta) (first dd hadV E : Val) : Val :=
  bindN cs!"highlight-and-debug" c hadV (bindN cs!"operands" b dd (bindN cs!"operator" a first E))

/-- variable lookup in a chain of bindings -/
macro "lke" : tactic =>
  `(tactic| (simp only [dlEnv, env4, env3, lookupEnv_bindN_hit, lookupEnv_bindN_miss, lookupEnv_bindG, lookupEnv_nil, ne_eq,
      List.cons.injEq, Char.reduceEq, and_true, and_false, false_and, true_and, not_false_eq_true, reduceCtorEq,
      Option.some.injEq]; try rfl))

theorem pair4 (p1 p2 p3 p4 a1 a2 a3 a4 fenv : Val) (name : Option Name) :
    pairParamsAndArgs .nil (.ofList [p1, p2, p3, p4]) fenv name [a1, a2, a3, a4] =
      .ok (.cons (.cons p4 a4) (.cons (.cons p3 a3) (.cons (.cons p2 a2) (.cons (.cons p1 a1) fenv)))) := by
  simp [pairParamsAndArgs, listToVec_ofList, bindParams, Val.restParam?]

section
variable {st : St}

theorem DLoaded.sees (hl : DLoaded st) : C05.Sees st (C16.globalsOf st) := hl.base.sees
theorem DLoaded.detached (hl : DLoaded st) : st.attached = false := hl.base.detached

/-! ### small forms -/

/-- `(= x 'name)`: is the value of `x` the symbol `name`? -/
theorem ev_eqQ {G : Globals} {env : Val} {home : Name} {d : Nat} {m1 m3 : Meta} {x a w : Val} {n : Name}
    (hd : d + 1 ≤ Config.maxRecursionDepth) (hw : lookupEnv (.named cs!"=") env = none)
    (hG : G cs!"=" home = .found w) (hwg : w.get = .native .equal) (hx : Eval G env home (d + 1) x (.ok a)) :
    Eval G env home d (.ofList [symA cs!"=" m1, x, quoA n m3]) (.ok (if a.isSymNamed n then .symName cs!"t" else .nil)) := by
  refine ev_prim (by omega) rfl (ev_global hd hw hG) hwg rfl (evs_two hx (ev_quoA hd)) ?_
  simp only [primResult, simpleNative, arity2, equalInternal_symA]

/-- `(when step-in …)` with `step-in` an empty list -/
theorem skip_when (hl : DLoaded st) {env : Val} {home : Name} {d : Nat} {m1 m2 : Meta} {o sv : Val}
    (hd : d + 1 ≤ Config.maxRecursionDepth) (hlk : lookupEnv (.named cs!"step-in") env = some sv) (hsv : sv.isNil = true) :
    RunsJ st (.ofList [symA cs!"if" m1, symA cs!"step-in" m2, o, .nil]) env home d (.ok .nil) :=
  RunsJ.of_eval hl.sees (ev_if_false (by omega) (ev_local hd hlk) hsv (Eval.emptyList (by omega) rfl))

/-- `(car x)` / `(cdr x)` of a variable bound to a cons cell -/
theorem ev_carVar (hl : DLoaded st) {env : Val} {d : Nat} {m1 m2 : Meta} {n : Name} {c a b : Val}
    (hd : d + 1 ≤ Config.maxRecursionDepth) (hfree : lookupEnv (.named cs!"car") env = none)
    (hx : lookupEnv (.named n) env = some c) (hc : c.get = .cons a b) :
    Eval (C16.globalsOf st) env cs!"debugger" d (.ofList [symA cs!"car" m1, symA n m2]) (.ok a) := by
  obtain ⟨w, hw, hwg⟩ := hl.nativesD .car
  exact ev_prim (by omega) rfl (ev_global hd hfree hw) hwg rfl (evs_one (ev_local hd hx)) (prim_car _ a b _ hc)

theorem ev_cdrVar (hl : DLoaded st) {env : Val} {d : Nat} {m1 m2 : Meta} {n : Name} {c a b : Val}
    (hd : d + 1 ≤ Config.maxRecursionDepth) (hfree : lookupEnv (.named cs!"cdr") env = none)
    (hx : lookupEnv (.named n) env = some c) (hc : c.get = .cons a b) :
    Eval (C16.globalsOf st) env cs!"debugger" d (.ofList [symA cs!"cdr" m1, symA n m2]) (.ok b) := by
  obtain ⟨w, hw, hwg⟩ := hl.nativesD .cdr
  exact ev_prim (by omega) rfl (ev_global hd hfree hw) hwg rfl (evs_one (ev_local hd hx)) (prim_cdr _ a b _ hc)

/-- `(car e)` / `(cdr e)` of an expression that yields a cons cell -/
theorem ev_carOf (hl : DLoaded st) {env : Val} {d : Nat} {m1 : Meta} {x c a b : Val}
    (hd : d + 1 ≤ Config.maxRecursionDepth) (hfree : lookupEnv (.named cs!"car") env = none)
    (hx : Eval (C16.globalsOf st) env cs!"debugger" (d + 1) x (.ok c)) (hc : c.get = .cons a b) :
    Eval (C16.globalsOf st) env cs!"debugger" d (.ofList [symA cs!"car" m1, x]) (.ok a) := by
  obtain ⟨w, hw, hwg⟩ := hl.nativesD .car
  exact ev_prim (by omega) rfl (ev_global hd hfree hw) hwg rfl (evs_one hx) (prim_car _ a b _ hc)

theorem ev_cdrOf (hl : DLoaded st) {env : Val} {d : Nat} {m1 : Meta} {x c a b : Val}
    (hd : d + 1 ≤ Config.maxRecursionDepth) (hfree : lookupEnv (.named cs!"cdr") env = none)
    (hx : Eval (C16.globalsOf st) env cs!"debugger" (d + 1) x (.ok c)) (hc : c.get = .cons a b) :
    Eval (C16.globalsOf st) env cs!"debugger" d (.ofList [symA cs!"cdr" m1, x]) (.ok b) := by
  obtain ⟨w, hw, hwg⟩ := hl.nativesD .cdr
  exact ev_prim (by omega) rfl (ev_global hd hfree hw) hwg rfl (evs_one hx) (prim_cdr _ a b _ hc)

/-! ### `debug-eval-internal`: from the body to the `case` on the type -/

/-- the body of `debug-eval-internal` runs to whatever the `case` on `(type-of expr)` runs to, two levels below -/
theorem dei_to_cases (hl : DLoaded st) {body : Val} (hb : IsDeiBody body) :
    ∃ cases, IsCases cases ∧ ∀ (p1 p2 p3 p4 : Meta) (e env mv sv tv : Val) (d : Nat) (v : Val), sv.isNil = true →
      d + 5 ≤ Config.maxRecursionDepth →
      (∀ dd st', simpleNative .typeOf [e] dd st' = (.ok tv, st')) →
      (∀ (a : Meta) (g : Nat), RunsJ st cases (bindN cs!"type" a tv (bindG g .nil (env4 p1 p2 p3 p4 e env mv sv)))
        cs!"debugger" (d + 2) (.ok v)) →
      RunsJ st body (env4 p1 p2 p3 p4 e env mv sv) cs!"debugger" d (.ok v) := by
  obtain ⟨m1, m2, m3, m4, m5, m6, m7, m8, m9, m10, m11, ga, gb, s1, s2, handler, disp, rfl, hdisp⟩ := hb
  obtain ⟨n1, n2, n3, n4, cases, rfl, hcases⟩ := hdisp
  refine ⟨cases, hcases, ?_⟩
  intro p1 p2 p3 p4 e env mv sv tv d v hsv hd hty hrun
  have hs := hl.sees
  obtain ⟨weval, hweval, hwevalg⟩ := hl.nativesD .eval
  obtain ⟨wty, hwty, hwtyg⟩ := hl.nativesD .typeOf
  refine RunsJ.evalTrap hl.detached (by omega) (listToVec_ofList _) rfl
    (RunsJ.glob hs (by omega) (by lke) hweval) hwevalg
    (RunsJ.trapForm hl.detached (by omega) (listToVec_ofList _) rfl rfl rfl rfl) ?_
  -- the normal body of the trap: `(block (when step-in …) (let (result …) (block (when step-in …) result)))`
  refine RunsJ.letForm hs (by omega) rfl (RunsArgsJ.one (skip_when hl (by omega) (by lke) hsv)) (pair1 _ _ _ _) ?_
  refine RunsJ.letForm (vs := [v]) hs (by omega) rfl (RunsArgsJ.one ?_) (pair1 _ _ _ _) ?_
  · -- `(let (type (type-of expr)) (case …))`
    refine RunsJ.letForm (vs := [tv]) hs (by omega) rfl (RunsArgsJ.one ?_) (pair1 _ _ _ _) (hrun n2 ga)
    exact RunsJ.callSimple hl.detached (by omega) (listToVec_ofList _) rfl
      (RunsJ.glob hs (by omega) (show lookupEnv _ (bindG ga .nil (env4 p1 p2 p3 p4 e env mv sv)) = _ by lke) hwty)
      hwtyg (by decide) (by decide) (by decide) (by decide) (by decide)
      (RunsArgsJ.one (RunsJ.loc hs (by omega)
        (show lookupEnv _ (bindG ga .nil (env4 p1 p2 p3 p4 e env mv sv)) = _ by lke))) (fun j => hty _ _)
  · refine RunsJ.letForm hs (by omega) rfl (RunsArgsJ.one (skip_when hl (by omega) ?_ hsv)) (pair1 _ _ _ _) ?_
    · show lookupEnv _ (bindN cs!"result" m5 v (bindG ga .nil (env4 p1 p2 p3 p4 e env mv sv))) = _
      lke
    · refine RunsJ.loc hs (by omega) ?_
      show lookupEnv _ (bindG gb .nil (bindN cs!"result" m5 v (bindG ga .nil (env4 p1 p2 p3 p4 e env mv sv)))) = _
      lke

/-- `(if (= x 'name) t o)` where `x` is a variable -/
theorem RunsJ.ifEq (hl : DLoaded st) {env : Val} {d : Nat} {mi m1 m2 m3 : Meta} {x X : Name} {a t o : Val} {r : Res Val}
    (b : Bool) (hd : d + 2 ≤ Config.maxRecursionDepth) (hfree : lookupEnv (.named cs!"=") env = none)
    (hx : lookupEnv (.named x) env = some a) (hab : a.isSymNamed X = b)
    (hb : RunsJ st (if b then t else o) env cs!"debugger" d r) :
    RunsJ st (.ofList [symA cs!"if" mi, .ofList [symA cs!"=" m1, symA x m2, quoA X m3], t, o]) env cs!"debugger" d r := by
  obtain ⟨w, hw, hwg⟩ := hl.nativesD .equal
  refine RunsJ.ifOk hl.detached (first := symA cs!"if" mi) (by omega) rfl rfl rfl rfl
    (RunsJ.of_eval hl.sees (ev_eqQ (by omega) hfree hw hwg (ev_local (by omega) hx))) ?_
  rw [hab]
  cases b <;> exact hb

/-- the `case` on the type: anything that is neither a list nor a symbol nor a trap evaluates to itself -/
theorem cases_atom (hl : DLoaded st) {cases : Val} (hc : IsCases cases) (a : Meta) (g : Nat) (p1 p2 p3 p4 : Meta)
    (e env mv sv : Val) (tn : Name) (D : Nat) (hd : D + 2 ≤ Config.maxRecursionDepth)
    (h1 : tn ≠ cs!"list-type") (h2 : tn ≠ cs!"cons-type") (h3 : tn ≠ cs!"symbol-type") (h4 : tn ≠ cs!"trap-type") :
    RunsJ st cases (bindN cs!"type" a (.symName tn) (bindG g .nil (env4 p1 p2 p3 p4 e env mv sv))) cs!"debugger" D (.ok e) := by
  obtain ⟨m1, m2, m3, m4, m5, m6, m7, m8, m9, m10, m11, m12, m13, m14, m15, m16, m17, m18, m19, m20, m21, m22, m23, m24,
    m25, m26, m27, m28, ocons, otrap, rfl⟩ := hc
  have hs := hl.sees
  have hn : ∀ X : Name, tn ≠ X → (Val.symName tn).isSymNamed X = false := by
    intro X h; simpa [Val.isSymNamed, Val.symName, Val.get] using h
  refine RunsJ.ifEq hl false hd (by lke) (by lke) (hn _ h1) ?_
  refine RunsJ.ifEq hl false hd (by lke) (by lke) (hn _ h2) ?_
  refine RunsJ.ifEq hl false hd (by lke) (by lke) (hn _ h3) ?_
  refine RunsJ.ifEq hl false hd (by lke) (by lke) (hn _ h4) ?_
  exact RunsJ.ifTrue hl.detached (by omega) (RunsJ.of_eval hs (ev_quoA (by omega))) rfl (RunsJ.loc hs (by omega) (by lke))

/-- the `case` on the type: a symbol is looked up -/
theorem cases_symbol (hl : DLoaded st) {cases : Val} (hc : IsCases cases) (a : Meta) (g : Nat) (p1 p2 p3 p4 : Meta)
    (e env mv sv : Val) (D : Nat) (r : Res Val) (hd : D + 2 ≤ Config.maxRecursionDepth)
    (hbody : ∀ q1 q2 q3, RunsJ st lookup_body (env3 cs!"key" cs!"env" cs!"env-module" q1 q2 q3 e env mv) cs!"debugger" D r) :
    RunsJ st cases (bindN cs!"type" a (.symName cs!"symbol-type") (bindG g .nil (env4 p1 p2 p3 p4 e env mv sv)))
      cs!"debugger" D r := by
  obtain ⟨m1, m2, m3, m4, m5, m6, m7, m8, m9, m10, m11, m12, m13, m14, m15, m16, m17, m18, m19, m20, m21, m22, m23, m24,
    m25, m26, m27, m28, ocons, otrap, rfl⟩ := hc
  have hs := hl.sees
  obtain ⟨q1, q2, q3, hq⟩ := lookup_params_shape
  obtain ⟨wf, hwf, hwfg⟩ := hl.debugger _ _ lookup_mem
  refine RunsJ.ifEq hl false hd (by lke) (by lke) rfl ?_
  refine RunsJ.ifEq hl false hd (by lke) (by lke) rfl ?_
  refine RunsJ.ifEq hl true hd (by lke) (by lke) rfl ?_
  refine RunsJ.callClosure hl.detached (by omega) (listToVec_ofList _) rfl (RunsJ.glob hs (by omega) (by lke) hwf)
    (hwfg.trans lookup_fn_eq)
    (RunsArgsJ.three (RunsJ.loc hs (by omega) (by lke)) (RunsJ.loc hs (by omega) (by lke)) (RunsJ.loc hs (by omega) (by lke)))
    (by rw [hq, lookup_rest_eq]; exact pair3 _ _ _ _ _ _ _ _) (hbody q1 q2 q3)

/-- the `case` on the type: a list goes to `debug-list` -/
theorem cases_list (hl : DLoaded st) {cases : Val} (hc : IsCases cases) (a : Meta) (g : Nat) (p1 p2 p3 p4 : Meta)
    (e env mv sv : Val) (D : Nat) (r : Res Val) (hd : D + 2 ≤ Config.maxRecursionDepth)
    (hbody : ∀ q1 q2 q3 q4, RunsJ st debug_list_body (env4 q1 q2 q3 q4 e env mv sv) cs!"debugger" D r) :
    RunsJ st cases (bindN cs!"type" a (.symName cs!"list-type") (bindG g .nil (env4 p1 p2 p3 p4 e env mv sv)))
      cs!"debugger" D r := by
  obtain ⟨m1, m2, m3, m4, m5, m6, m7, m8, m9, m10, m11, m12, m13, m14, m15, m16, m17, m18, m19, m20, m21, m22, m23, m24,
    m25, m26, m27, m28, ocons, otrap, rfl⟩ := hc
  have hs := hl.sees
  obtain ⟨q1, q2, q3, q4, hq⟩ := debug_list_params_shape
  obtain ⟨wf, hwf, hwfg⟩ := hl.debugger _ _ debug_list_mem
  refine RunsJ.ifEq hl true hd (by lke) (by lke) rfl ?_
  refine RunsJ.callClosure hl.detached (by omega) (listToVec_ofList _) rfl (RunsJ.glob hs (by omega) (by lke) hwf)
    (hwfg.trans debug_list_fn_eq)
    (RunsArgsJ.cons (RunsJ.loc hs (by omega) (by lke)) (RunsArgsJ.three (RunsJ.loc hs (by omega) (by lke))
      (RunsJ.loc hs (by omega) (by lke)) (RunsJ.loc hs (by omega) (by lke))))
    (by rw [hq, debug_list_rest_eq]; exact pair4 _ _ _ _ _ _ _ _ _ _) (hbody q1 q2 q3 q4)

/-! ### `lookup` -/

/-- `=` with a symbol on the left -/
theorem equalInternal_sym_left (a b : Val) (s : Sym) (ha : a.get = .sym s) :
    equalInternal a b = (match b.get with | .sym t => s == t | _ => false) := by
  induction a with
  | md w m ih => rw [equalInternal]; exact ih (by simpa [Val.get] using ha)
  | sym t => cases ha; rw [equalInternal]; rfl
  | _ => cases ha

/-- the walk of `lookup` through an association list: it stops at the first entry whose key is the symbol `s`, or at
an empty list; every entry it passes is a pair -/
inductive EnvWalk (s : Sym) : Val → Option Val → Prop where
  | done {env : Val} : env.isNil = true → EnvWalk s env none
  | hit {env kv rest k v : Val} : env.isNil = false → env.get = .cons kv rest → kv.get = .cons k v → k.get = .sym s →
      EnvWalk s env (some v)
  | miss {env kv rest k v : Val} {r : Option Val} : env.isNil = false → env.get = .cons kv rest → kv.get = .cons k v →
      k.get ≠ .sym s → EnvWalk s rest r → EnvWalk s env r

/-- the body of `lookup`: the binding the walk finds, else the global visible from the module `env-module` names -/
theorem lookup_runs (hl : DLoaded st) (key mv : Val) (s : Sym) (home : Name) (hk : key.get = .sym s)
    (hm : mv.get = .sym (.named home)) (v : Val) (D : Nat) (hd : D + 3 ≤ Config.maxRecursionDepth) :
    ∀ (env : Val) (r : Option Val), EnvWalk s env r →
      (r = some v ∨ (r = none ∧ st.getGlobal s.globalName home = .found v)) →
      ∀ q1 q2 q3, RunsJ st lookup_body (env3 cs!"key" cs!"env" cs!"env-module" q1 q2 q3 key env mv) cs!"debugger" D (.ok v) := by
  obtain ⟨m1, m2, m3, m4, m5, m6, m7, m8, m9, m10, m11, m12, m13, m14, m15, m16, m17, m18, m19, m20, m21, hb⟩ :=
    lookup_body_shape
  obtain ⟨p1, p2, p3, hq⟩ := lookup_params_shape
  obtain ⟨wf, hwf, hwfg⟩ := hl.debugger _ _ lookup_mem
  obtain ⟨wcar, hwcar, hwcarg⟩ := hl.nativesD .car
  obtain ⟨wcdr, hwcdr, hwcdrg⟩ := hl.nativesD .cdr
  obtain ⟨weq, hweq, hweqg⟩ := hl.nativesD .equal
  obtain ⟨wwcm, hwwcm, hwwcmg⟩ := hl.nativesD .withCurrentModule
  have hs := hl.sees
  intro env r hw
  induction hw with
  | @done env hnil =>
    intro hr q1 q2 q3
    rcases hr with hr | ⟨_, hg⟩
    · cases hr
    rw [hb]
    refine RunsJ.ifFalse hl.detached (by omega) (RunsJ.loc hs (by omega) (by lke)) hnil ?_
    refine RunsJ.callSimple hl.detached (by omega) (listToVec_ofList _) rfl
      (RunsJ.glob hs (by omega) (by lke) hwwcm) hwwcmg (by decide) (by decide) (by decide) (by decide) (by decide)
      (RunsArgsJ.two (RunsJ.loc hs (by omega) (by lke)) (RunsJ.loc hs (by omega) (by lke))) (fun j => ?_)
    rw [C20.with_current_module_is_lookup _ _ key mv s (.named home) hk hm]
    show (match st.getGlobal s.globalName home with | .found v => _ | .ambiguous ms => _ | .notFound => _) = _
    rw [hg]
  | @hit env kv rest k v' hnil hg hkv hks =>
    intro hr q1 q2 q3
    have hv : v' = v := by
      rcases hr with hr | ⟨hr, _⟩
      · exact Option.some.inj hr
      · cases hr
    subst hv
    rw [hb]
    refine RunsJ.ifTrue hl.detached (by omega) (RunsJ.loc hs (by omega) (by lke)) hnil ?_
    refine RunsJ.letForm hs (by omega) rfl
      (RunsArgsJ.one (RunsJ.of_eval hs (ev_carVar hl (by omega) (by lke) (by lke) hg))) (pair1 _ _ _ _) ?_
    have hE : ∀ n, lookupEnv (.named n) (Val.cons (.cons (symA cs!"key-value" m4) kv)
        (env3 cs!"key" cs!"env" cs!"env-module" q1 q2 q3 key env mv)) =
        lookupEnv (.named n) (bindN cs!"key-value" m4 kv (env3 cs!"key" cs!"env" cs!"env-module" q1 q2 q3 key env mv)) :=
      fun _ => rfl
    have hcond : equalInternal key k = true := by rw [equalInternal_sym_left key k s hk, hks]; simp
    refine RunsJ.of_eval hs (ev_if_true (v := .symName cs!"t") (by omega) ?_ rfl ?_)
    · refine ev_prim (args := [key, k]) (by omega) rfl (ev_global (by omega) (by rw [hE]; lke) hweq) hweqg rfl
        (evs_two (ev_local (by omega) (by rw [hE]; lke)) (ev_carVar hl (by omega) (by rw [hE]; lke) (by rw [hE]; lke) hkv)) ?_
      simp [primResult, simpleNative, arity2, hcond]
    · exact ev_cdrVar hl (by omega) (by rw [hE]; lke) (by rw [hE]; lke) hkv
  | @miss env kv rest k v' r hnil hg hkv hks _ ih =>
    intro hr q1 q2 q3
    rw [hb]
    refine RunsJ.ifTrue hl.detached (by omega) (RunsJ.loc hs (by omega) (by lke)) hnil ?_
    refine RunsJ.letForm hs (by omega) rfl
      (RunsArgsJ.one (RunsJ.of_eval hs (ev_carVar hl (by omega) (by lke) (by lke) hg))) (pair1 _ _ _ _) ?_
    have hE : ∀ n, lookupEnv (.named n) (Val.cons (.cons (symA cs!"key-value" m4) kv)
        (env3 cs!"key" cs!"env" cs!"env-module" q1 q2 q3 key env mv)) =
        lookupEnv (.named n) (bindN cs!"key-value" m4 kv (env3 cs!"key" cs!"env" cs!"env-module" q1 q2 q3 key env mv)) :=
      fun _ => rfl
    have hcond : equalInternal key k = false := by
      rw [equalInternal_sym_left key k s hk]
      cases hkg : k.get with
      | sym t =>
        have : s ≠ t := by intro h; subst h; exact hks hkg
        simpa using this
      | _ => rfl
    refine RunsJ.ifFalse hl.detached (v := .nil) (by omega) (RunsJ.of_eval hs ?_) rfl ?_
    · refine ev_prim (args := [key, k]) (by omega) rfl (ev_global (by omega) (by rw [hE]; lke) hweq) hweqg rfl
        (evs_two (ev_local (by omega) (by rw [hE]; lke)) (ev_carVar hl (by omega) (by rw [hE]; lke) (by rw [hE]; lke) hkv)) ?_
      simp [primResult, simpleNative, arity2, hcond]
    · refine RunsJ.callClosure hl.detached (by omega) (listToVec_ofList _) rfl
        (RunsJ.glob hs (by omega) (by rw [hE]; lke) hwf) (hwfg.trans lookup_fn_eq)
        (RunsArgsJ.three (RunsJ.loc hs (by omega) (by rw [hE]; lke))
          (RunsJ.of_eval hs (ev_cdrVar hl (by omega) (by rw [hE]; lke) (by rw [hE]; lke) hg))
          (RunsJ.loc hs (by omega) (by rw [hE]; lke)))
        (by rw [hq, lookup_rest_eq]; exact pair3 _ _ _ _ _ _ _ _) (ih hr p1 p2 p3)

end

end Pici.Dbg
