/-
Helper lemmas for Props/C20b, part 5: `add-parameters` and `debug-list` (quote, if, lambda; the local function
`highlight-and-debug`), run by the model evaluator with `step-in` bound to an empty list.
-/
import PiciModel.Lemmas.DebuggerRun

namespace Pici.Dbg
open Pici Pici.Ref Pici.DebuggerX

/-! ### `add-parameters` -/

/-- what `add-parameters` builds: the parameters paired with the arguments, one by one, in front of the environment -/
def bindAll : List Val → List Val → Val → Val
  | p :: ps, a :: as, env => bindAll ps as (.cons (.cons p a) env)
  | _, _, env => env

theorem bindAll_nil (args : List Val) (env : Val) : bindAll [] args env = env := by
  cases args <;> rfl

theorem bindParams_bindAll (src : Name) (n : Nat) (ps args : List Val) (i : Nat) (env env' : Val) (rem : List Val) (i' : Nat)
    (h : bindParams src n ps args i env = .ok (env', rem, i')) :
    env' = bindAll ps args env ∧ rem = args.drop ps.length ∧ ps.length ≤ args.length := by
  induction ps generalizing args i env with
  | nil =>
    simp only [bindParams] at h
    cases h
    exact ⟨(bindAll_nil _ _).symm, rfl, Nat.zero_le _⟩
  | cons p ps ih =>
    cases args with
    | nil => simp [bindParams] at h
    | cons a as =>
      simp only [bindParams] at h
      obtain ⟨h1, h2, h3⟩ := ih as (i + 1) _ h
      exact ⟨h1, h2, by simpa using h3⟩

/-- exact arity, no rest parameter: the environment `pair_params_and_args` builds is the one `add-parameters` builds -/
theorem pair_is_bindAll (params fenv : Val) (name : Option Name) (args : List Val) (newEnv : Val)
    (h : pairParamsAndArgs .nil params fenv name args = .ok newEnv) :
    newEnv = bindAll ((listToVec params).getD []) args fenv ∧ ((listToVec params).getD []).length ≤ args.length := by
  unfold pairParamsAndArgs at h
  simp only at h
  split at h
  · cases h
  · rename_i env' remaining i hb
    obtain ⟨h1, _, h3⟩ := bindParams_bindAll _ _ _ _ _ _ _ _ _ hb
    simp only [Val.restParam?] at h
    split at h
    · cases h; exact ⟨h1, h3⟩
    · cases h

section
variable {st : St}

/-- the body of `add-parameters`, for a parameter list without `&` and at least as many arguments as parameters -/
theorem add_params_runs (hl : DLoaded st) (D : Nat) (hd : D + 4 ≤ Config.maxRecursionDepth) (t : Val) :
    ∀ (ps args : List Val) (acc : Val), ps.length ≤ args.length → (∀ p ∈ ps, p.isSymNamed cs!"&" = false) →
      ∀ q1 q2 q3, RunsJ st add_parameters_body
        (env3 cs!"params" cs!"args" cs!"env" q1 q2 q3 (.ofList ps) (args.foldr Val.cons t) acc) cs!"debugger" D
        (.ok (bindAll ps args acc)) := by
  obtain ⟨m1, m2, m3, m4, m5, m6, m7, m8, m9, m10, m11, m12, m13, m14, m15, m16, m17, m18, m19, m20, m21, m22, m23, m24,
    m25, m26, m27, hb⟩ := add_parameters_body_shape
  obtain ⟨p1, p2, p3, hq⟩ := add_parameters_params_shape
  obtain ⟨wf, hwf, hwfg⟩ := hl.debugger _ _ add_parameters_mem
  obtain ⟨wcons, hwcons, hwconsg⟩ := hl.nativesD .cons
  obtain ⟨weq, hweq, hweqg⟩ := hl.nativesD .equal
  have hs := hl.sees
  intro ps
  induction ps with
  | nil =>
    intro args acc _ _ q1 q2 q3
    rw [hb, bindAll_nil]
    exact RunsJ.ifFalse hl.detached (by omega) (RunsJ.loc hs (by omega) (by lke)) rfl (RunsJ.loc hs (by omega) (by lke))
  | cons p ps ih =>
    intro args acc hlen hamp q1 q2 q3
    cases args with
    | nil => simp at hlen
    | cons a as =>
      have hp : p.isSymNamed cs!"&" = false := hamp p (List.mem_cons_self ..)
      rw [hb]
      refine RunsJ.ifTrue hl.detached (by omega) (RunsJ.loc hs (by omega) (by lke)) rfl ?_
      have hcond : Eval (C16.globalsOf st)
          (env3 cs!"params" cs!"args" cs!"env" q1 q2 q3 (.ofList (p :: ps)) ((a :: as).foldr Val.cons t) acc) cs!"debugger" (D + 1)
          (.ofList [symA cs!"=" m4, .ofList [symA cs!"car" m5, symA cs!"params" m6], quoA cs!"&" m7]) (.ok .nil) := by
        have := ev_eqQ (env := env3 cs!"params" cs!"args" cs!"env" q1 q2 q3 (.ofList (p :: ps)) ((a :: as).foldr Val.cons t) acc)
          (m1 := m4) (m3 := m7) (n := cs!"&") (d := D + 1) (by omega) (by lke) hweq hweqg
          (ev_carVar (m1 := m5) (m2 := m6) (n := cs!"params") hl (by omega) (by lke) (by lke) (ofList_get_cons p ps))
        rwa [hp] at this
      refine RunsJ.ifFalse hl.detached (by omega) (RunsJ.of_eval hs hcond) rfl ?_
      refine RunsJ.callClosure hl.detached (by omega) (listToVec_ofList _) rfl
        (RunsJ.glob hs (by omega) (by lke) hwf) (hwfg.trans add_parameters_fn_eq)
        (RunsArgsJ.of_evalArgs hs (evs_three
          (ev_cdrVar hl (by omega) (by lke) (by lke) (ofList_get_cons p ps))
          (ev_cdrVar (a := a) (b := as.foldr Val.cons t) hl (by omega) (by lke) (by lke) rfl) ?_))
        (by rw [hq, add_parameters_rest_eq]; exact pair3 _ _ _ _ _ _ _ _)
        (ih as (.cons (.cons p a) acc) (by simpa using hlen) (fun x hx => hamp x (List.mem_cons_of_mem _ hx)) p1 p2 p3)
      refine ev_prim (args := [.cons p a, acc]) (by omega) rfl (ev_global (by omega) (by lke) hwcons) hwconsg rfl
        (evs_two ?_ (ev_local (by omega) (by lke))) rfl
      exact ev_prim (args := [p, a]) (by omega) rfl (ev_global (by omega) (by lke) hwcons) hwconsg rfl
        (evs_two (ev_carVar hl (by omega) (by lke) (by lke) (ofList_get_cons p ps))
          (ev_carVar (a := a) (b := as.foldr Val.cons t) hl (by omega) (by lke) (by lke) rfl)) rfl

/-! ### `debug-list`: the local function `highlight-and-debug` -/

/-- what `highlight-and-debug` (a closure over the environment of `debug-list`) does when it is applied, `step-in` being
empty: it runs `debug-eval-internal` on its first argument, in the same environment and module, stepping over -/
def HadSpec (st : St) (clo : Val → Val) : Prop :=
  ∀ (q1 q2 q3 q4 : Meta) (e env mv sv x iv v : Val) (D : Nat), sv.isNil = true → D + 2 ≤ Config.maxRecursionDepth →
    (∀ p1 p2 p3 p4 sv', sv'.isNil = true →
      RunsJ st debug_eval_internal_body (env4 p1 p2 p3 p4 x env mv sv') cs!"debugger" D (.ok v)) →
    Applies st (clo (env4 q1 q2 q3 q4 e env mv sv)) [x, iv] v D

theorem had_spec (hl : DLoaded st) {hadE : Val} (hh : IsHad hadE) :
    ∃ clo : Val → Val, (∀ E d, d ≤ Config.maxRecursionDepth →
      Eval (C16.globalsOf st) E cs!"debugger" d hadE (.ok (clo E))) ∧ HadSpec st clo := by
  obtain ⟨m1, m2, m3, m4, m5, m6, m7, m8, m9, m10, os, rfl⟩ := hh
  obtain ⟨p1, p2, p3, p4, hq⟩ := debug_eval_internal_params_shape
  obtain ⟨wf, hwf, hwfg⟩ := hl.debugger _ _ debug_eval_internal_mem
  obtain ⟨wn, hwn, hwnp⟩ := hl.nilD
  have hs := hl.sees
  refine ⟨fun E => .fn .lambda .nil (.ofList [symA cs!"x" m2, symA cs!"i" m3])
    (.ofList [symA cs!"if" m4, symA cs!"step-in" m5, os, .ofList [symA cs!"debug-eval-internal" m6,
      symA cs!"x" m7, symA cs!"env" m8, symA cs!"env-module" m9, symA cs!"nil" m10]]) E cs!"debugger", ?_, ?_⟩
  · intro E d hd
    exact makeFunction_plain [symA cs!"x" m2, symA cs!"i" m3] _ E cs!"debugger" rfl ▸ ev_lambda hd
  · intro q1 q2 q3 q4 e env mv sv x iv v D hsv hd hdei e' env' home first operands hlv hsp hmeta hop hargs
    refine RunsJ.callClosure hl.detached (by omega) hlv hsp hop rfl hargs (by rw [hmeta]; exact pair2 _ _ _ _ _ _) ?_
    have hE : ∀ n, lookupEnv (.named n) (Val.cons (.cons (symA cs!"i" m3) iv) (.cons (.cons (symA cs!"x" m2) x)
        (env4 q1 q2 q3 q4 e env mv sv))) =
        lookupEnv (.named n) (bindN cs!"i" m3 iv (bindN cs!"x" m2 x (env4 q1 q2 q3 q4 e env mv sv))) := fun _ => rfl
    refine RunsJ.ifFalse hl.detached (by omega) (RunsJ.loc hs (by omega) (by rw [hE]; lke)) hsv ?_
    exact RunsJ.callClosure hl.detached (by omega) (listToVec_ofList _) rfl
      (RunsJ.glob hs (by omega) (by rw [hE]; lke) hwf) (hwfg.trans debug_eval_internal_fn_eq)
      (RunsArgsJ.cons (RunsJ.loc hs (by omega) (by rw [hE]; lke)) (RunsArgsJ.three (RunsJ.loc hs (by omega) (by rw [hE]; lke))
        (RunsJ.loc hs (by omega) (by rw [hE]; lke)) (RunsJ.glob hs (by omega) (by rw [hE]; lke) hwn)))
      (by rw [hq, debug_eval_internal_rest_eq]; exact pair4 _ _ _ _ _ _ _ _ _ _) (hdei p1 p2 p3 p4 wn hwnp)

/-! ### `debug-list`: from the body to the `case` on the operator -/

theorem dl_to_ifs (hl : DLoaded st) {body : Val} (hb : IsDebugListBody body) :
    ∃ (ifs : Val) (clo : Val → Val), IsIfs ifs ∧ HadSpec st clo ∧
      ∀ (q1 q2 q3 q4 : Meta) (e env mv sv first dd : Val) (D : Nat) (r : Res Val), e.get = .cons first dd →
        D + 3 ≤ Config.maxRecursionDepth →
        (∀ a b c, RunsJ st ifs (dlEnv a b c first dd (clo (env4 q1 q2 q3 q4 e env mv sv)) (env4 q1 q2 q3 q4 e env mv sv))
          cs!"debugger" D r) →
        RunsJ st body (env4 q1 q2 q3 q4 e env mv sv) cs!"debugger" D r := by
  obtain ⟨m1, m2, m3, m4, m5, m6, m7, m8, ifs, hadE, rfl, hifs, hhad⟩ := hb
  obtain ⟨clo, hclo, hspec⟩ := had_spec hl hhad
  refine ⟨ifs, clo, hifs, hspec, ?_⟩
  intro q1 q2 q3 q4 e env mv sv first dd D r he hd hrun
  have hs := hl.sees
  refine RunsJ.letForm hs (by omega) rfl
    (RunsArgsJ.of_evalArgs hs (evs_three (ev_carVar hl (by omega) (by lke) (by lke) he)
      (ev_cdrVar hl (by omega) (by lke) (by lke) he) (hclo _ _ (by omega)))) (pair3 _ _ _ _ _ _ _ _) (hrun m2 m3 m4)

/-- the `case` on the operator: which branch runs -/
theorem ifs_quote (hl : DLoaded st) {ifs : Val} (hi : IsIfs ifs) :
    ∃ qb, IsQuoteBranch qb ∧ ∀ (E first : Val) (D : Nat) (r : Res Val), D + 2 ≤ Config.maxRecursionDepth →
      lookupEnv (.named cs!"=") E = none → lookupEnv (.named cs!"operator") E = some first →
      first.isSymNamed cs!"quote" = true → RunsJ st qb E cs!"debugger" D r → RunsJ st ifs E cs!"debugger" D r := by
  obtain ⟨m1, m2, m3, m4, m5, m6, m7, m8, m9, m10, m11, m12, m13, m14, m15, m16, m17, m18, m19, m20, m21, m22,
    oeval, otrap, qb, ib, lb, ab, rfl, hqb, hib, hlb, hab⟩ := hi
  exact ⟨qb, hqb, fun E first D r hd hfree hop hq hrun => RunsJ.ifEq hl true hd hfree hop hq hrun⟩

theorem ifs_if (hl : DLoaded st) {ifs : Val} (hi : IsIfs ifs) :
    ∃ ib, IsIfBranch ib ∧ ∀ (E first : Val) (D : Nat) (r : Res Val), D + 2 ≤ Config.maxRecursionDepth →
      lookupEnv (.named cs!"=") E = none → lookupEnv (.named cs!"operator") E = some first →
      first.isSymNamed cs!"quote" = false → first.isSymNamed cs!"if" = true →
      RunsJ st ib E cs!"debugger" D r → RunsJ st ifs E cs!"debugger" D r := by
  obtain ⟨m1, m2, m3, m4, m5, m6, m7, m8, m9, m10, m11, m12, m13, m14, m15, m16, m17, m18, m19, m20, m21, m22,
    oeval, otrap, qb, ib, lb, ab, rfl, hqb, hib, hlb, hab⟩ := hi
  exact ⟨ib, hib, fun E first D r hd hfree hop hq hif hrun =>
    RunsJ.ifEq hl false hd hfree hop hq (RunsJ.ifEq hl true hd hfree hop hif hrun)⟩

theorem ifs_lambda (hl : DLoaded st) {ifs : Val} (hi : IsIfs ifs) :
    ∃ lb, IsLambdaBranch lb ∧ ∀ (E first : Val) (D : Nat) (r : Res Val), D + 2 ≤ Config.maxRecursionDepth →
      lookupEnv (.named cs!"=") E = none → lookupEnv (.named cs!"operator") E = some first →
      first.isSymNamed cs!"lambda" = true →
      RunsJ st lb E cs!"debugger" D r → RunsJ st ifs E cs!"debugger" D r := by
  obtain ⟨m1, m2, m3, m4, m5, m6, m7, m8, m9, m10, m11, m12, m13, m14, m15, m16, m17, m18, m19, m20, m21, m22,
    oeval, otrap, qb, ib, lb, ab, rfl, hqb, hib, hlb, hab⟩ := hi
  refine ⟨lb, hlb, fun E first D r hd hfree hop hlam hrun => ?_⟩
  have hne : ∀ X : Name, X ≠ cs!"lambda" → first.isSymNamed X = false := by
    intro X hX
    unfold Val.isSymNamed at hlam ⊢
    cases hg : first.get with
    | sym s =>
      rw [hg] at hlam
      cases s with
      | named n =>
        have : n = cs!"lambda" := by simpa using hlam
        subst this
        simpa using fun h => hX h.symm
      | gen i => rfl
    | _ => rfl
  exact RunsJ.ifEq hl false hd hfree hop (hne _ (by decide)) (RunsJ.ifEq hl false hd hfree hop (hne _ (by decide))
    (RunsJ.ifEq hl false hd hfree hop (hne _ (by decide)) (RunsJ.ifEq hl false hd hfree hop (hne _ (by decide))
      (RunsJ.ifEq hl true hd hfree hop hlam hrun))))

theorem ifs_app (hl : DLoaded st) {ifs : Val} (hi : IsIfs ifs) :
    ∃ ab, IsAppBranch ab ∧ ∀ (E first : Val) (D : Nat) (r : Res Val), D + 2 ≤ Config.maxRecursionDepth →
      lookupEnv (.named cs!"=") E = none → lookupEnv (.named cs!"operator") E = some first →
      first.isSymNamed cs!"quote" = false → first.isSymNamed cs!"if" = false → first.isSymNamed cs!"eval" = false →
      first.isSymNamed cs!"trap" = false → first.isSymNamed cs!"lambda" = false →
      RunsJ st ab E cs!"debugger" D r → RunsJ st ifs E cs!"debugger" D r := by
  obtain ⟨m1, m2, m3, m4, m5, m6, m7, m8, m9, m10, m11, m12, m13, m14, m15, m16, m17, m18, m19, m20, m21, m22,
    oeval, otrap, qb, ib, lb, ab, rfl, hqb, hib, hlb, hab⟩ := hi
  refine ⟨ab, hab, fun E first D r hd hfree hop h1 h2 h3 h4 h5 hrun => ?_⟩
  exact RunsJ.ifEq hl false hd hfree hop h1 (RunsJ.ifEq hl false hd hfree hop h2
    (RunsJ.ifEq hl false hd hfree hop h3 (RunsJ.ifEq hl false hd hfree hop h4
      (RunsJ.ifEq hl false hd hfree hop h5
        (RunsJ.ifTrue hl.detached (by omega) (RunsJ.of_eval hl.sees (ev_quoA (by omega))) rfl hrun)))))

/-! ### `debug-list`: quote, lambda, if -/

theorem quote_branch (hl : DLoaded st) {qb : Val} (hq : IsQuoteBranch qb) (a b c q1 q2 q3 q4 : Meta)
    (first dd hadV e env mv sv x rest : Val) (D : Nat) (hsv : sv.isNil = true) (hd : D + 3 ≤ Config.maxRecursionDepth)
    (hdd : dd.get = .cons x rest) :
    RunsJ st qb (dlEnv a b c first dd hadV (env4 q1 q2 q3 q4 e env mv sv)) cs!"debugger" D (.ok x) := by
  obtain ⟨m1, m2, m3, m4, m5, g1, os, rfl⟩ := hq
  have hs := hl.sees
  refine RunsJ.letForm hs (by omega) rfl (RunsArgsJ.one (skip_when hl (by omega) (by lke) hsv)) (pair1 _ _ _ _) ?_
  have hE : ∀ n, lookupEnv (.named n) (Val.cons (.cons (.sym (.gen g1)) .nil)
      (dlEnv a b c first dd hadV (env4 q1 q2 q3 q4 e env mv sv))) =
      lookupEnv (.named n) (bindG g1 .nil (dlEnv a b c first dd hadV (env4 q1 q2 q3 q4 e env mv sv))) := fun _ => rfl
  exact RunsJ.of_eval hs (ev_carVar hl (by omega) (by rw [hE]; lke) (by rw [hE]; lke) hdd)

/-- `make-function` with the kind `'lambda-type` builds the closure `lambda` builds -/
theorem applyNative_makeFunction (fuel : Nat) (st : St) (params body environment mv kind E : Val) (home : Name) (d : Nat)
    (xs : List Val) (hd : d ≤ Config.maxRecursionDepth) (hp : listToVec params = some xs)
    (hm : mv.get = .sym (.named home)) (hk : kind.get = .sym (.named cs!"lambda-type")) :
    applyNative (fuel + 1) st .makeFunction [params, body, environment, mv, kind] E d =
      (makeFunctionInternal [params, body] environment home cs!"lambda" .lambda, st) := by
  rw [applyNative]
  have hd' : ¬ d > Config.maxRecursionDepth := by omega
  simp [hd', asList, asSymbol, hp, hm, hk, Sym.globalName]

theorem lambda_branch (hl : DLoaded st) {lb : Val} (hlb : IsLambdaBranch lb) (a b c q1 q2 q3 q4 : Meta)
    (first dd hadV e env mv sv params body d2 d3 : Val) (home : Name) (xs : List Val) (D : Nat)
    (hd : D + 4 ≤ Config.maxRecursionDepth) (hmv : mv.get = .sym (.named home))
    (hdd : dd.get = .cons params d2) (hd2 : d2.get = .cons body d3) (hps : listToVec params = some xs) :
    RunsJ st lb (dlEnv a b c first dd hadV (env4 q1 q2 q3 q4 e env mv sv)) cs!"debugger" D
      (makeFunctionInternal [params, body] env home cs!"lambda" .lambda) := by
  obtain ⟨m1, m2, m3, m4, m5, m6, m7, m8, m9, rfl⟩ := hlb
  have hs := hl.sees
  obtain ⟨wf, hwf, hwfg⟩ := hl.nativesD .makeFunction
  refine RunsJ.callNativeRes hl.detached (by omega) (listToVec_ofList _) rfl
    (RunsJ.glob hs (by omega) (by lke) hwf) hwfg (by decide)
    (RunsArgsJ.of_evalArgs hs (.cons (ev_carVar hl (by omega) (by lke) (by lke) hdd)
      (.cons (ev_carOf hl (by omega) (by lke) (ev_cdrVar hl (by omega) (by lke) (by lke) hdd) hd2)
        (.cons (ev_local (by omega) (by lke)) (.cons (ev_local (by omega) (by lke)) (.cons (ev_quoA (by omega)) .nil))))))
    (fun fuel j => applyNative_makeFunction fuel _ params body env mv _ _ home (D + 1) xs (by omega) hps hmv rfl)

theorem if_branch (hl : DLoaded st) {ib : Val} (hib : IsIfBranch ib) {clo : Val → Val} (hspec : HadSpec st clo)
    (a b c q1 q2 q3 q4 : Meta) (first dd e env mv sv c' t o d2 d3 d4 cv v : Val) (D : Nat)
    (hsv : sv.isNil = true) (hd : D + 4 ≤ Config.maxRecursionDepth)
    (hdd : dd.get = .cons c' d2) (hd2 : d2.get = .cons t d3) (hd3 : d3.get = .cons o d4)
    (hc : ∀ p1 p2 p3 p4 sv', sv'.isNil = true →
      RunsJ st debug_eval_internal_body (env4 p1 p2 p3 p4 c' env mv sv') cs!"debugger" (D + 1) (.ok cv))
    (hb : ∀ p1 p2 p3 p4 sv', sv'.isNil = true →
      RunsJ st debug_eval_internal_body (env4 p1 p2 p3 p4 (if !cv.isNil then t else o) env mv sv') cs!"debugger" D (.ok v)) :
    RunsJ st ib (dlEnv a b c first dd (clo (env4 q1 q2 q3 q4 e env mv sv)) (env4 q1 q2 q3 q4 e env mv sv))
      cs!"debugger" D (.ok v) := by
  obtain ⟨m1, m2, m3, m4, m5, m6, m7, m8, m9, m10, m11, m12, m13, m14, m15, m16, m17, m18, m19, m20, m21, m22, m23, rfl⟩ := hib
  have hs := hl.sees
  refine RunsJ.letForm hs (by omega) rfl (RunsArgsJ.of_evalArgs hs (evs_three
    (ev_carVar hl (by omega) (by lke) (by lke) hdd)
    (ev_carOf hl (by omega) (by lke) (ev_cdrVar hl (by omega) (by lke) (by lke) hdd) hd2)
    (ev_carOf hl (by omega) (by lke) (ev_cdrOf hl (by omega) (by lke) (ev_cdrVar hl (by omega) (by lke) (by lke) hdd) hd2) hd3)))
    (pair3 _ _ _ _ _ _ _ _) ?_
  have hE : ∀ n, lookupEnv (.named n) (Val.cons (.cons (symA cs!"otherwise" m4) o) (.cons (.cons (symA cs!"then" m3) t)
      (.cons (.cons (symA cs!"condition" m2) c')
        (dlEnv a b c first dd (clo (env4 q1 q2 q3 q4 e env mv sv)) (env4 q1 q2 q3 q4 e env mv sv))))) =
      lookupEnv (.named n) (bindN cs!"otherwise" m4 o (bindN cs!"then" m3 t (bindN cs!"condition" m2 c'
        (dlEnv a b c first dd (clo (env4 q1 q2 q3 q4 e env mv sv)) (env4 q1 q2 q3 q4 e env mv sv))))) := fun _ => rfl
  refine RunsJ.ifOk hl.detached (first := symA cs!"if" m5) (by omega) rfl rfl rfl rfl
    (hspec q1 q2 q3 q4 e env mv sv c' (numA 1 m8) cv (D + 1) hsv (by omega) hc _ _ cs!"debugger" _ _
      (listToVec_ofList _) rfl rfl (RunsJ.loc hs (by omega) (by rw [hE]; lke))
      (RunsArgsJ.two (RunsJ.loc hs (by omega) (by rw [hE]; lke)) (RunsJ.of_eval hs (ev_num (by omega))))) ?_
  cases hcv : cv.isNil
  · simp only [hcv, Bool.not_false, if_true] at hb ⊢
    exact hspec q1 q2 q3 q4 e env mv sv t (numA 2 m11) v D hsv (by omega) hb _ _ cs!"debugger" _ _
      (listToVec_ofList _) rfl rfl (RunsJ.loc hs (by omega) (by rw [hE]; lke))
      (RunsArgsJ.two (RunsJ.loc hs (by omega) (by rw [hE]; lke)) (RunsJ.of_eval hs (ev_num (by omega))))
  · simp only [hcv, Bool.not_true, Bool.false_eq_true, if_false] at hb ⊢
    exact hspec q1 q2 q3 q4 e env mv sv o (numA 3 m14) v D hsv (by omega) hb _ _ cs!"debugger" _ _
      (listToVec_ofList _) rfl rfl (RunsJ.loc hs (by omega) (by rw [hE]; lke))
      (RunsArgsJ.two (RunsJ.loc hs (by omega) (by rw [hE]; lke)) (RunsJ.of_eval hs (ev_num (by omega))))

end

end Pici.Dbg
