/-
Helper lemmas for Props/C20b, part 6: `debug-list` on an application — every element of the form is evaluated by
`(map (lambda (xi) (highlight-and-debug (car xi) (cdr xi))) (enumerate expr))`, the evaluated operator is taken apart by
`destructure-function`; a closure's body is evaluated by `debug-eval-internal` in the environment `add-parameters` builds,
a native is applied by `call-native-function`.  `step-in` is bound to an empty list.
-/
import PiciModel.Lemmas.DebuggerList

namespace Pici.Prelude
theorem map_fn_eq : map_fn = .fn .lambda map_rest map_params map_body .nil cs!"prelude" := rfl
theorem enumerate_fn_eq : enumerate_fn = .fn .lambda enumerate_rest enumerate_params enumerate_body .nil cs!"prelude" := rfl
theorem map_mem : (cs!"map", map_fn) ∈ table := by simp [table]
theorem enumerate_mem : (cs!"enumerate", enumerate_fn) ∈ table := by simp [table]
end Pici.Prelude

namespace Pici.Dbg
open Pici Pici.Ref Pici.DebuggerX Pici.C16

/-- a call of a native that answers `r` in every state that differs from `st` by its step count, given enough fuel -/
theorem RunsJ.callNativeFrom {st : St} (hatt : st.attached = false) {e env : Val} {home : Name} {d : Nat} {first : Val}
    {operands args : List Val} {f : Val} {id : NativeId} {r : Res Val} (F0 : Nat)
    (hd : d ≤ Config.maxRecursionDepth) (hl : listToVec e = some (first :: operands)) (hsp : isSpecial first = false)
    (hop : RunsJ st first env home (d + 1) (.ok f)) (hf : f.get = .native id) (hid : id ≠ .eval)
    (ha : RunsArgsJ st operands env home d (.ok args))
    (hn : ∀ fuel j, F0 ≤ fuel → applyNative fuel (C05.bump st j) id args env (d + 1) = (r, C05.bump st j)) :
    RunsJ st e env home d r := by
  obtain ⟨hlam, hq, hif, htrap⟩ := isSpecial_false hsp
  refine RunsJ.step fun j => ?_
  obtain ⟨F1, k1, hF1⟩ := hop (j + 1)
  obtain ⟨F2, k2, hF2⟩ := ha (j + 1 + k1)
  refine ⟨F1 + F2 + F0, 1 + k1 + k2, fun n hn' => ?_⟩
  rw [evalInternal_native n _ _ _ _ e first operands env home d f id args hl hlam hq hif htrap hd
    (poll_bump st hatt j) (hF1 n (by omega)) hf hid (hF2 n (by omega)), hn n _ (by omega)]
  simp only [Nat.add_assoc]

/-! ### the property list `destructure-function` returns -/

/-- the parts of a function value, as `destructure-function` lists them -/
def parts (k p b e m : Val) : Val :=
  plist [(cs!"kind", k), (cs!"parameters", p), (cs!"body", b), (cs!"environment", e), (cs!"module", m)]

theorem parts_body (st : St) (d : Nat) (k p b e m keyV : Val) (hk : keyV.get = .sym (.named cs!"body")) :
    simpleNative .getProperty [parts k p b e m, keyV] d st = (.ok b, st) := by
  simp [simpleNative, arity2, asList, asSymbol, parts, plist, listToVec_ofList, hk, getPropertyInternal, Val.symName, Val.get]

theorem parts_parameters (st : St) (d : Nat) (k p b e m keyV : Val) (hk : keyV.get = .sym (.named cs!"parameters")) :
    simpleNative .getProperty [parts k p b e m, keyV] d st = (.ok p, st) := by
  simp [simpleNative, arity2, asList, asSymbol, parts, plist, listToVec_ofList, hk, getPropertyInternal, Val.symName, Val.get]

theorem parts_environment (st : St) (d : Nat) (k p b e m keyV : Val) (hk : keyV.get = .sym (.named cs!"environment")) :
    simpleNative .getProperty [parts k p b e m, keyV] d st = (.ok e, st) := by
  simp [simpleNative, arity2, asList, asSymbol, parts, plist, listToVec_ofList, hk, getPropertyInternal, Val.symName, Val.get]

theorem parts_module (st : St) (d : Nat) (k p b e m keyV : Val) (hk : keyV.get = .sym (.named cs!"module")) :
    simpleNative .getProperty [parts k p b e m, keyV] d st = (.ok m, st) := by
  simp [simpleNative, arity2, asList, asSymbol, parts, plist, listToVec_ofList, hk, getPropertyInternal, Val.symName, Val.get]

/-- `destructure-function` on a closure -/
theorem destructure_fn (st : St) (d : Nat) (f : Val) (k : Kind) (r p b e : Val) (m : Name) (hf : f.get = .fn k r p b e m) :
    simpleNative .destructureFunction [f] d st =
      (.ok (parts (.symName k.name) (functionParams r p) b e (.symName m)), st) := by
  simp [simpleNative, arity1, hf, parts]

/-- `destructure-function` on a native: the body is nil -/
theorem destructure_native (st : St) (d : Nat) (f : Val) (id : NativeId) (hf : f.get = .native id) :
    simpleNative .destructureFunction [f] d st =
      (.ok (parts (.symName cs!"lambda") (.ofList (id.params.map Val.symName)) .nil .nil (.symName [])), st) := by
  simp [simpleNative, arity1, hf, parts]

section
variable {st : St}

/-- `(. evaled-parts 'key)` -/
theorem RunsJ.dot (hl : DLoaded st) {E : Val} {D : Nat} {m1 m2 m3 : Meta} {key : Name} {k p b e m r : Val}
    (hd : D + 1 ≤ Config.maxRecursionDepth) (hfree : lookupEnv (.named cs!".") E = none)
    (hp : lookupEnv (.named cs!"evaled-parts") E = some (parts k p b e m))
    (hr : ∀ dd st', simpleNative .getProperty [parts k p b e m, symA key m3] dd st' = (.ok r, st')) :
    RunsJ st (.ofList [symA cs!"." m1, symA cs!"evaled-parts" m2, quoA key m3]) E cs!"debugger" D (.ok r) := by
  obtain ⟨w, hw, hwg⟩ := hl.nativesD .getProperty
  have hs := hl.sees
  exact RunsJ.callSimple hl.detached (by omega) (listToVec_ofList _) rfl (RunsJ.glob hs (by omega) hfree hw) hwg
    (by decide) (by decide) (by decide) (by decide) (by decide)
    (RunsArgsJ.two (RunsJ.loc hs (by omega) hp) (RunsJ.of_eval hs (ev_quoA (by omega)))) (fun j => hr _ _)

/-! ### every element of the form is evaluated -/

/-- one run of `debug-eval-internal`, stepping over, per element -/
def DeiRuns (st : St) (env mv : Val) (D : Nat) (x y : Val) : Prop :=
  ∀ p1 p2 p3 p4 sv', sv'.isNil = true →
    RunsJ st debug_eval_internal_body (env4 p1 p2 p3 p4 x env mv sv') cs!"debugger" D (.ok y)

theorem mapsVia_zip {R : Val → Val → Prop} {xs ys : List Val} (h : MapsVia R xs ys) :
    ∀ is : List Val, xs.length ≤ is.length →
      MapsVia (fun p y => ∃ x i, p = Val.cons x i ∧ R x y) (List.zipWith Val.cons xs is) ys := by
  induction h with
  | nil => intro is _; exact .nil
  | cons x y xs ys hr _ ih =>
    intro is hlen
    cases is with
    | nil => simp at hlen
    | cons i is =>
      rw [List.zipWith_cons_cons]
      exact .cons _ _ _ _ ⟨x, i, rfl, hr⟩ (ih is (by simpa using hlen))

/-- `(map (lambda (xi) (highlight-and-debug (car xi) (cdr xi))) (enumerate expr))`: the list of the values of the
elements, ending in the value of the global `nil` -/
theorem map_elements (hl : DLoaded st) {clo : Val → Val} (hspec : HadSpec st clo)
    (a b c q1 q2 q3 q4 : Meta) (first dd e env mv sv : Val) (xs ys : List Val) (D : Nat)
    (m3 m4 m5 m6 m7 m8 m9 m10 m11 m12 : Meta)
    (hsv : sv.isNil = true) (hd : D + 17 ≤ Config.maxRecursionDepth) (hlv : listToVec e = some xs)
    (hlen : (xs.length : Int) ≤ i64Max)
    (hall : MapsVia (DeiRuns st env mv (D + 4)) xs ys)
    (tail : Val) (htail : st.getGlobal cs!"nil" cs!"prelude" = .found tail) :
    RunsJ st (.ofList [symA cs!"map" m3, .ofList [symA cs!"lambda" m4, .ofList [symA cs!"xi" m5],
        .ofList [symA cs!"highlight-and-debug" m6, .ofList [symA cs!"car" m7, symA cs!"xi" m8],
          .ofList [symA cs!"cdr" m9, symA cs!"xi" m10]]], .ofList [symA cs!"enumerate" m11, symA cs!"expr" m12]])
      (dlEnv a b c first dd (clo (env4 q1 q2 q3 q4 e env mv sv)) (env4 q1 q2 q3 q4 e env mv sv)) cs!"debugger" (D + 1)
      (.ok (ys.foldr Val.cons tail)) := by
  have hs := hl.sees
  obtain ⟨wmap, hwmap, hwmapg⟩ := hl.preludeD _ _ Prelude.map_mem
  obtain ⟨wenum, hwenum, hwenumg⟩ := hl.preludeD _ _ Prelude.enumerate_mem
  obtain ⟨pe, hpe⟩ := Prelude.enumerate_params_shape
  obtain ⟨pm1, pm2, hpm⟩ := Prelude.map_params_shape
  have htailp : tail.isNil = true := by
    obtain ⟨t', ht', htp⟩ := hl.base.nil
    rw [htail] at ht'; cases ht'; exact htp
  -- the closure `(lambda (xi) …)`
  let Edl := dlEnv a b c first dd (clo (env4 q1 q2 q3 q4 e env mv sv)) (env4 q1 q2 q3 q4 e env mv sv)
  let F : Val := .fn .lambda .nil (.ofList [symA cs!"xi" m5]) (.ofList [symA cs!"highlight-and-debug" m6,
    .ofList [symA cs!"car" m7, symA cs!"xi" m8], .ofList [symA cs!"cdr" m9, symA cs!"xi" m10]]) Edl cs!"debugger"
  have happ : ∀ p y, (∃ x i, p = Val.cons x i ∧ DeiRuns st env mv (D + 4) x y) → Applies st F [p] y (D + 1 + 1 + 1 + 1) := by
    rintro p y ⟨x, i, rfl, hR⟩ e' env' home first' operands' hlv' hsp hmeta hop hargs
    refine RunsJ.callClosure hl.detached (by omega) hlv' hsp hop rfl hargs (by rw [hmeta]; exact pair1 _ _ _ _) ?_
    have hE : ∀ n, lookupEnv (.named n) (Val.cons (.cons (symA cs!"xi" m5) (.cons x i)) Edl) =
        lookupEnv (.named n) (bindN cs!"xi" m5 (.cons x i) Edl) := fun _ => rfl
    exact hspec q1 q2 q3 q4 e env mv sv x i y (D + 1 + 1 + 1 + 1) hsv (by omega) hR _ _ cs!"debugger" _ _
      (listToVec_ofList _) rfl rfl (RunsJ.loc hs (by omega) (by rw [hE]; simp only [Edl]; lke))
      (RunsArgsJ.of_evalArgs hs (evs_two
        (ev_carVar (a := x) (b := i) hl (by omega) (by rw [hE]; simp only [Edl]; lke) (by rw [hE]; simp only [Edl]; lke) rfl)
        (ev_cdrVar (a := x) (b := i) hl (by omega) (by rw [hE]; simp only [Edl]; lke) (by rw [hE]; simp only [Edl]; lke) rfl)))
  -- `(enumerate expr)`
  have hpairE : pairParamsAndArgs Prelude.enumerate_rest Prelude.enumerate_params .nil none [e] =
      .ok (.cons (.cons (symA cs!"things" pe) e) .nil) := by
    rw [hpe, Prelude.enumerate_rest_eq, pair1]
  have henum : RunsJ st (.ofList [symA cs!"enumerate" m11, symA cs!"expr" m12]) Edl cs!"debugger" (D + 1 + 1)
      (.ok ((List.zipWith Val.cons xs (indices xs.length)).foldr Val.cons tail)) :=
    RunsJ.callClosure hl.detached (by omega) (listToVec_ofList _) rfl
      (RunsJ.glob hs (by omega) (by simp only [Edl]; lke) hwenum) (hwenumg.trans Prelude.enumerate_fn_eq)
      (RunsArgsJ.one (RunsJ.loc hs (by omega) (by simp only [Edl]; lke))) hpairE
      (enumerate_runsL hl.base xs e hlv _ (D + 1 + 1) hlen (by omega) tail htail hpairE)
  -- `(map … …)`
  have hpairM : pairParamsAndArgs Prelude.map_rest Prelude.map_params .nil none
      [F, (List.zipWith Val.cons xs (indices xs.length)).foldr Val.cons tail] =
      .ok (.cons (.cons (symA cs!"things" pm2) ((List.zipWith Val.cons xs (indices xs.length)).foldr Val.cons tail))
        (.cons (.cons (symA cs!"f" pm1) F) .nil)) := by
    rw [hpm, Prelude.map_rest_eq, pair2]
  have hmapped := mapsVia_zip hall (indices xs.length) (by simp [indices])
  exact RunsJ.callClosure hl.detached (by omega) (listToVec_ofList _) rfl
    (RunsJ.glob hs (by omega) (by lke) hwmap) (hwmapg.trans Prelude.map_fn_eq)
    (RunsArgsJ.two (RunsJ.of_eval hs (makeFunction_plain [symA cs!"xi" m5] _ Edl cs!"debugger" rfl ▸ ev_lambda (by omega)))
      henum) hpairM
    (map_via hl.base F (D + 1) (by omega) _ happ tail htailp _ ys hmapped _ tail htail hpairM)

/-! ### application of a closure, of a core primitive -/

/-- the core primitives do not look at the recursion depth -/
theorem primResult_depth (id : NativeId) (h : corePrim id = true) (args : List Val) (d d' : Nat) :
    primResult id args d = primResult id args d' := by
  cases id <;> first | (exfalso; revert h; decide) | rfl

/-- `debug-list` on an application whose operator evaluates to a closure without rest parameter, with a non-empty body and
no parameter named `&`: the body, evaluated by `debug-eval-internal` in the closure's environment extended by the
parameters, in the closure's module -/
theorem app_closure (hl : DLoaded st) {ab : Val} (hab : IsAppBranch ab) {clo : Val → Val} (hspec : HadSpec st clo)
    (a b c q1 q2 q3 q4 : Meta) (first dd e env mv sv : Val) (xs : List Val) (f : Val) (args : List Val)
    (k : Kind) (params body fenv : Val) (fmod : Name) (v : Val) (D : Nat)
    (hsv : sv.isNil = true) (hd : D + 17 ≤ Config.maxRecursionDepth) (hlv : listToVec e = some xs)
    (hlen : (xs.length : Int) ≤ i64Max)
    (hall : MapsVia (DeiRuns st env mv (D + 4)) xs (f :: args))
    (hf : f.get = .fn k .nil params body fenv fmod) (hbody : body.isNil = false)
    (hamp : ∀ p ∈ (listToVec params).getD [], p.isSymNamed cs!"&" = false)
    (hlenp : ((listToVec params).getD []).length ≤ args.length)
    (hrun : DeiRuns st (bindAll ((listToVec params).getD []) args fenv) (.symName fmod) D body v) :
    RunsJ st ab (dlEnv a b c first dd (clo (env4 q1 q2 q3 q4 e env mv sv)) (env4 q1 q2 q3 q4 e env mv sv))
      cs!"debugger" D (.ok v) := by
  obtain ⟨m1, m2, m3, m4, m5, m6, m7, m8, m9, m10, m11, m12, app2, rfl, happ2⟩ := hab
  obtain ⟨n1, n2, n3, n4, n5, app3, rfl, happ3⟩ := happ2
  obtain ⟨k1, k2, k3, k4, k5, k6, k7, g1, os, cc, nc, rfl, hcc, hnc⟩ := happ3
  obtain ⟨c1, c2, c3, c4, c5, c6, c7, c8, c9, c10, c11, c12, c13, c14, c15, c16, c17, rfl⟩ := hcc
  have hs := hl.sees
  obtain ⟨tail, htail, htailp⟩ := hl.base.nil
  obtain ⟨wdf, hwdf, hwdfg⟩ := hl.nativesD .destructureFunction
  obtain ⟨wdei, hwdei, hwdeig⟩ := hl.debugger _ _ debug_eval_internal_mem
  obtain ⟨wadd, hwadd, hwaddg⟩ := hl.debugger _ _ add_parameters_mem
  obtain ⟨pd1, pd2, pd3, pd4, hpd⟩ := debug_eval_internal_params_shape
  obtain ⟨pa1, pa2, pa3, hpa⟩ := add_parameters_params_shape
  -- every element of the form is evaluated
  refine RunsJ.letForm (vs := [(f :: args).foldr Val.cons tail]) hs (by omega) rfl
    (RunsArgsJ.one (map_elements hl hspec a b c q1 q2 q3 q4 first dd e env mv sv xs (f :: args) D
      m3 m4 m5 m6 m7 m8 m9 m10 m11 m12 hsv hd hlv hlen hall tail htail)) (pair1 _ _ _ _) ?_
  change RunsJ st _ (bindN cs!"evaled-expr" m2 ((f :: args).foldr Val.cons tail)
    (dlEnv a b c first dd (clo (env4 q1 q2 q3 q4 e env mv sv)) (env4 q1 q2 q3 q4 e env mv sv))) _ _ _
  -- the operator is taken apart
  refine RunsJ.letForm (vs := [parts (.symName k.name) (functionParams .nil params) body fenv (.symName fmod)]) hs (by omega) rfl
    (RunsArgsJ.one (RunsJ.callSimple hl.detached (by omega) (listToVec_ofList _) rfl
      (RunsJ.glob hs (by omega) (by lke) hwdf) hwdfg (by decide) (by decide) (by decide) (by decide) (by decide)
      (RunsArgsJ.one (RunsJ.of_eval hs (ev_carVar (a := f) (b := args.foldr Val.cons tail) hl (by omega) (by lke) (by lke) rfl)))
      (fun j => destructure_fn _ _ f k .nil params body fenv fmod hf))) (pair1 _ _ _ _) ?_
  change RunsJ st _ (bindN cs!"evaled-parts" n2 (parts (.symName k.name) (functionParams .nil params) body fenv (.symName fmod))
    (bindN cs!"evaled-expr" m2 ((f :: args).foldr Val.cons tail)
      (dlEnv a b c first dd (clo (env4 q1 q2 q3 q4 e env mv sv)) (env4 q1 q2 q3 q4 e env mv sv)))) _ _ _
  refine RunsJ.letForm (vs := [.nil]) hs (by omega) rfl (RunsArgsJ.one (skip_when hl (by omega) (by lke) hsv)) (pair1 _ _ _ _) ?_
  change RunsJ st _ (bindG g1 .nil (bindN cs!"evaled-parts" n2
    (parts (.symName k.name) (functionParams .nil params) body fenv (.symName fmod))
    (bindN cs!"evaled-expr" m2 ((f :: args).foldr Val.cons tail)
      (dlEnv a b c first dd (clo (env4 q1 q2 q3 q4 e env mv sv)) (env4 q1 q2 q3 q4 e env mv sv))))) _ _ _
  -- the body is not nil: a closure
  refine RunsJ.ifTrue hl.detached (by omega)
    (RunsJ.dot hl (by omega) (by lke) (by lke) (fun dd st' => parts_body st' dd _ _ _ _ _ _ rfl)) hbody ?_
  have hfp : functionParams .nil params = .ofList ((listToVec params).getD []) := by
    simp [functionParams, Val.restParam?]
  refine RunsJ.callClosure hl.detached (by omega) (listToVec_ofList _) rfl
    (RunsJ.glob hs (by omega) (by lke) hwdei) (hwdeig.trans debug_eval_internal_fn_eq)
    (RunsArgsJ.cons (RunsJ.dot hl (by omega) (by lke) (by lke) (fun dd st' => parts_body st' dd _ _ _ _ _ _ rfl))
      (RunsArgsJ.three ?_
        (RunsJ.dot hl (by omega) (by lke) (by lke) (fun dd st' => parts_module st' dd _ _ _ _ _ _ rfl))
        (RunsJ.loc hs (by omega) (by lke))))
    (by rw [hpd, debug_eval_internal_rest_eq]; exact pair4 _ _ _ _ _ _ _ _ _ _) (hrun pd1 pd2 pd3 pd4 sv hsv)
  -- `(add-parameters parameters (cdr evaled-expr) environment)`
  refine RunsJ.callClosure hl.detached (by omega) (listToVec_ofList _) rfl
    (RunsJ.glob hs (by omega) (by lke) hwadd) (hwaddg.trans add_parameters_fn_eq)
    (RunsArgsJ.three
      (RunsJ.dot hl (by omega) (by lke) (by lke) (fun dd st' => parts_parameters st' dd _ _ _ _ _ _ rfl))
      (RunsJ.of_eval hs (ev_cdrVar (a := f) (b := args.foldr Val.cons tail) hl (by omega) (by lke) (by lke) rfl))
      (RunsJ.dot hl (by omega) (by lke) (by lke) (fun dd st' => parts_environment st' dd _ _ _ _ _ _ rfl)))
    (by rw [hpa, add_parameters_rest_eq]; exact pair3 _ _ _ _ _ _ _ _) ?_
  rw [hfp]
  exact add_params_runs hl (D + 1) (by omega) tail _ args fenv hlenp hamp pa1 pa2 pa3

/-- `debug-list` on an application whose operator evaluates to a core primitive: the primitive's result -/
theorem app_native (hl : DLoaded st) {ab : Val} (hab : IsAppBranch ab) {clo : Val → Val} (hspec : HadSpec st clo)
    (a b c q1 q2 q3 q4 : Meta) (first dd e env mv sv : Val) (xs : List Val) (f : Val) (args : List Val)
    (id : NativeId) (v : Val) (D dp : Nat)
    (hsv : sv.isNil = true) (hd : D + 17 ≤ Config.maxRecursionDepth) (hlv : listToVec e = some xs)
    (hlen : (xs.length : Int) ≤ i64Max)
    (hall : MapsVia (DeiRuns st env mv (D + 4)) xs (f :: args))
    (hf : f.get = .native id) (hc : corePrim id = true) (hr : primResult id args dp = .ok v) :
    RunsJ st ab (dlEnv a b c first dd (clo (env4 q1 q2 q3 q4 e env mv sv)) (env4 q1 q2 q3 q4 e env mv sv))
      cs!"debugger" D (.ok v) := by
  obtain ⟨m1, m2, m3, m4, m5, m6, m7, m8, m9, m10, m11, m12, app2, rfl, happ2⟩ := hab
  obtain ⟨n1, n2, n3, n4, n5, app3, rfl, happ3⟩ := happ2
  obtain ⟨k1, k2, k3, k4, k5, k6, k7, g1, os, cc, nc, rfl, hcc, hnc⟩ := happ3
  obtain ⟨c1, c2, c3, c4, c5, c6, rfl⟩ := hnc
  have hs := hl.sees
  obtain ⟨tail, htail, htailp⟩ := hl.base.nil
  obtain ⟨wdf, hwdf, hwdfg⟩ := hl.nativesD .destructureFunction
  obtain ⟨wcn, hwcn, hwcng⟩ := hl.nativesD .callNativeFunction
  refine RunsJ.letForm (vs := [(f :: args).foldr Val.cons tail]) hs (by omega) rfl
    (RunsArgsJ.one (map_elements hl hspec a b c q1 q2 q3 q4 first dd e env mv sv xs (f :: args) D
      m3 m4 m5 m6 m7 m8 m9 m10 m11 m12 hsv hd hlv hlen hall tail htail)) (pair1 _ _ _ _) ?_
  change RunsJ st _ (bindN cs!"evaled-expr" m2 ((f :: args).foldr Val.cons tail)
    (dlEnv a b c first dd (clo (env4 q1 q2 q3 q4 e env mv sv)) (env4 q1 q2 q3 q4 e env mv sv))) _ _ _
  refine RunsJ.letForm (vs := [parts (.symName cs!"lambda") (.ofList (id.params.map Val.symName)) .nil .nil (.symName [])])
    hs (by omega) rfl
    (RunsArgsJ.one (RunsJ.callSimple hl.detached (by omega) (listToVec_ofList _) rfl
      (RunsJ.glob hs (by omega) (by lke) hwdf) hwdfg (by decide) (by decide) (by decide) (by decide) (by decide)
      (RunsArgsJ.one (RunsJ.of_eval hs (ev_carVar (a := f) (b := args.foldr Val.cons tail) hl (by omega) (by lke) (by lke) rfl)))
      (fun j => destructure_native _ _ f id hf))) (pair1 _ _ _ _) ?_
  change RunsJ st _ (bindN cs!"evaled-parts" n2
    (parts (.symName cs!"lambda") (.ofList (id.params.map Val.symName)) .nil .nil (.symName []))
    (bindN cs!"evaled-expr" m2 ((f :: args).foldr Val.cons tail)
      (dlEnv a b c first dd (clo (env4 q1 q2 q3 q4 e env mv sv)) (env4 q1 q2 q3 q4 e env mv sv)))) _ _ _
  refine RunsJ.letForm (vs := [.nil]) hs (by omega) rfl (RunsArgsJ.one (skip_when hl (by omega) (by lke) hsv)) (pair1 _ _ _ _) ?_
  change RunsJ st _ (bindG g1 .nil (bindN cs!"evaled-parts" n2
    (parts (.symName cs!"lambda") (.ofList (id.params.map Val.symName)) .nil .nil (.symName []))
    (bindN cs!"evaled-expr" m2 ((f :: args).foldr Val.cons tail)
      (dlEnv a b c first dd (clo (env4 q1 q2 q3 q4 e env mv sv)) (env4 q1 q2 q3 q4 e env mv sv))))) _ _ _
  -- the body is nil: a native
  refine RunsJ.ifFalse hl.detached (by omega)
    (RunsJ.dot hl (by omega) (by lke) (by lke) (fun dd st' => parts_body st' dd _ _ _ _ _ _ rfl)) rfl ?_
  refine RunsJ.callNativeFrom hl.detached 2 (by omega) (listToVec_ofList _) rfl
    (RunsJ.glob hs (by omega) (by lke) hwcn) hwcng (by decide)
    (RunsArgsJ.of_evalArgs hs (evs_three
      (ev_carVar (a := f) (b := args.foldr Val.cons tail) hl (by omega) (by lke) (by lke) rfl)
      (ev_cdrVar (a := f) (b := args.foldr Val.cons tail) hl (by omega) (by lke) (by lke) rfl)
      (ev_local (by omega) (by lke)))) ?_
  intro fuel j hfuel
  obtain ⟨n, rfl⟩ : ∃ n, fuel = n + 2 := ⟨fuel - 2, by omega⟩
  rw [C20.call_native_is_application (n + 1) _ f _ env _ id args (D + 1) (by omega) hf (listToVec_foldr args tail htailp),
    applyNative_corePrim n _ id args env (D + 1 + 1) hc, primResult_depth id hc args _ dp, hr]

end

end Pici.Dbg
