/-
Helper lemmas for Props/C20d (the stepping evaluator yields the same SIGNAL as the evaluator), part 1: the rules of the
evaluator for signals in `RunsJ` form (a signal in the condition of an `if`, in the operator, in an operand; the inlined
`eval` on a trap object whose normal body signals: the handler runs, an abort passes), and the wrapper
`(eval (trap NORMAL HANDLER))` of `debug-eval-internal` with `step-in` empty: the handler re-signals `*trapped-signal*`.
-/
import PiciModel.Lemmas.DebuggerRest
import PiciModel.Props.C08

namespace Pici
open Pici.Ref

/-! ### signals in `RunsJ` form -/

section rules
variable {st : St}

/-- the condition of an `if` signals -/
theorem RunsJ.ifErr (hatt : st.attached = false) {e env : Val} {home : Name} {d : Nat} {first c t o s : Val}
    (hd : d ≤ Config.maxRecursionDepth) (hl : listToVec e = some [first, c, t, o])
    (hlam : first.isSymNamed cs!"lambda" = false) (hq : first.isSymNamed cs!"quote" = false)
    (hif : first.isSymNamed cs!"if" = true)
    (hc : RunsJ st c env home (d + 1) (.err s)) :
    RunsJ st e env home d (.err s) := by
  refine RunsJ.step fun j => ?_
  obtain ⟨F1, k1, hF1⟩ := hc (j + 1)
  refine ⟨F1, 1 + k1, fun n hn => ?_⟩
  rw [step_ifErr n _ _ e env home d hd (poll_bump st hatt j) first c t o _ s hl hlam hq hif (hF1 n (by omega))]
  simp only [Nat.add_assoc]

/-- the operator of an application signals -/
theorem RunsJ.operatorErr (hatt : st.attached = false) {e env : Val} {home : Name} {d : Nat} {first : Val}
    {operands : List Val} {s : Val}
    (hd : d ≤ Config.maxRecursionDepth) (hl : listToVec e = some (first :: operands)) (hsp : isSpecial first = false)
    (hop : RunsJ st first env home (d + 1) (.err s)) :
    RunsJ st e env home d (.err s) := by
  refine RunsJ.step fun j => ?_
  obtain ⟨F1, k1, hF1⟩ := hop (j + 1)
  refine ⟨F1, 1 + k1, fun n hn => ?_⟩
  rw [step_operatorErr n _ _ e env home d hd (poll_bump st hatt j) first operands _ s hl hsp (hF1 n (by omega))]
  simp only [Nat.add_assoc]

/-- an operand of a call (of a closure or of a native) signals: the call is not made -/
theorem RunsJ.operandErr (hatt : st.attached = false) {e env : Val} {home : Name} {d : Nat} {first : Val}
    {operands : List Val} {f s : Val}
    (hd : d ≤ Config.maxRecursionDepth) (hl : listToVec e = some (first :: operands)) (hsp : isSpecial first = false)
    (hop : RunsJ st first env home (d + 1) (.ok f))
    (hf : (∃ k r p b fe m, f.get = .fn k r p b fe m) ∨ (∃ id, f.get = .native id))
    (ha : RunsArgsJ st operands env home d (.err s)) :
    RunsJ st e env home d (.err s) := by
  refine RunsJ.step fun j => ?_
  obtain ⟨F1, k1, hF1⟩ := hop (j + 1)
  obtain ⟨F2, k2, hF2⟩ := ha (j + 1 + k1)
  refine ⟨F1 + F2, 1 + k1 + k2, fun n hn => ?_⟩
  rw [step_operandErr n _ _ e env home d hd (poll_bump st hatt j) first operands _ _ f s hl hsp (hF1 n (by omega)) hf
    (hF2 n (by omega))]
  simp only [Nat.add_assoc]

/-- the first operand signals -/
theorem RunsArgsJ.here {x : Val} {xs : List Val} {env : Val} {home : Name} {d : Nat} {s : Val}
    (h : RunsJ st x env home (d + 1) (.err s)) : RunsArgsJ st (x :: xs) env home d (.err s) := by
  refine RunsArgsJ.step fun j => ?_
  obtain ⟨F1, k1, hF1⟩ := h j
  exact ⟨F1, k1, fun n hn => step_args_here n _ _ x xs env home d s (hF1 n hn)⟩

/-- a later operand signals -/
theorem RunsArgsJ.later {x : Val} {xs : List Val} {env : Val} {home : Name} {d : Nat} {v s : Val}
    (h1 : RunsJ st x env home (d + 1) (.ok v)) (h2 : RunsArgsJ st xs env home d (.err s)) :
    RunsArgsJ st (x :: xs) env home d (.err s) := by
  refine RunsArgsJ.step fun j => ?_
  obtain ⟨F1, k1, hF1⟩ := h1 j
  obtain ⟨F2, k2, hF2⟩ := h2 (j + k1)
  refine ⟨F1 + F2, k1 + k2, fun n hn => ?_⟩
  rw [step_args_later n _ _ _ x xs env home d v s (hF1 n (by omega)) (hF2 n (by omega)), Nat.add_assoc]

/-- `((lambda (v …) body) e …)` when one of the `e …` signals -/
theorem RunsJ.letFormErr {G : Globals} (hs : C05.Sees st G) {m : Meta} {ps args : List Val} {body env : Val} {home : Name}
    {d : Nat} {s : Val} (hd : d + 1 ≤ Config.maxRecursionDepth) (hpl : plainParams ps = true)
    (ha : RunsArgsJ st args env home d (.err s)) :
    RunsJ st (.ofList (.ofList [symA cs!"lambda" m, .ofList ps, body] :: args)) env home d (.err s) :=
  RunsJ.operandErr hs.detached (by omega) (listToVec_ofList _) rfl
    (RunsJ.of_eval hs (makeFunction_plain ps body env home hpl ▸ ev_lambda hd)) (Or.inl ⟨_, _, _, _, _, _, rfl⟩) ha

/-- `(eval t)` where `t` evaluates to a trap object whose normal body raises a signal that is not an abort: the handler
runs in the environment extended by `*trapped-signal*`, one level below the call of `eval` -/
theorem RunsJ.evalTrapCatch (hatt : st.attached = false) {e env : Val} {home : Name} {d : Nat} {first targ f n h : Val}
    {s : Val} {r : Res Val} (hd : d + 2 ≤ Config.maxRecursionDepth) (hl : listToVec e = some [first, targ])
    (hsp : isSpecial first = false)
    (hop : RunsJ st first env home (d + 1) (.ok f)) (hf : f.get = .native .eval)
    (harg : RunsJ st targ env home (d + 1) (.ok (.trap n h)))
    (hn : RunsJ st n env home (d + 1) (.err s)) (hs : s.isNil = false)
    (hh : RunsJ st h (.cons (.cons (.symName cs!"*trapped-signal*") s) env) home (d + 1) r) :
    RunsJ st e env home d r := by
  have hd0 : d ≤ Config.maxRecursionDepth := by omega
  refine RunsJ.step fun j => ?_
  obtain ⟨F1, k1, hF1⟩ := hop (j + 1)
  obtain ⟨F2, k2, hF2⟩ := (RunsArgsJ.one harg) (j + 1 + k1)
  obtain ⟨F3, k3, hF3⟩ := hn (j + 1 + k1 + k2 + 1)
  obtain ⟨F4, k4, hF4⟩ := hh (j + 1 + k1 + k2 + 1 + k3)
  refine ⟨F1 + F2 + F3 + F4 + 3, 1 + k1 + k2 + 1 + k3 + k4, fun m hm => ?_⟩
  obtain ⟨m', rfl⟩ : ∃ m', m = m' + 2 := ⟨m - 2, by omega⟩
  rw [evalInternal_evalNative (m' + 2) _ _ _ _ e first [targ] env home d f (.trap n h) hl hsp hd0 (poll_bump st hatt j)
    (hF1 _ (by omega)) hf (hF2 _ (by omega))]
  rw [expandCompletely_trap m' _ n h env home (d + 1) (by omega)]
  show evalInternal (m' + 1 + 1) _ (.trap n h) env home d = _
  rw [evalInternal_trap_step (m' + 1) _ _ (.trap n h) n h env home d rfl rfl hd0 (poll_bump st hatt _), hF3 _ (by omega)]
  simp only [hs, Bool.false_eq_true, if_false]
  rw [hF4 _ (by omega)]
  simp only [Nat.add_assoc]

/-- `(eval t)` where `t` evaluates to a trap object whose normal body aborts: the abort passes -/
theorem RunsJ.evalTrapAbort (hatt : st.attached = false) {e env : Val} {home : Name} {d : Nat} {first targ f n h : Val}
    {s : Val} (hd : d + 2 ≤ Config.maxRecursionDepth) (hl : listToVec e = some [first, targ])
    (hsp : isSpecial first = false)
    (hop : RunsJ st first env home (d + 1) (.ok f)) (hf : f.get = .native .eval)
    (harg : RunsJ st targ env home (d + 1) (.ok (.trap n h)))
    (hn : RunsJ st n env home (d + 1) (.err s)) (hs : s.isNil = true) :
    RunsJ st e env home d (.err s) := by
  have hd0 : d ≤ Config.maxRecursionDepth := by omega
  refine RunsJ.step fun j => ?_
  obtain ⟨F1, k1, hF1⟩ := hop (j + 1)
  obtain ⟨F2, k2, hF2⟩ := (RunsArgsJ.one harg) (j + 1 + k1)
  obtain ⟨F3, k3, hF3⟩ := hn (j + 1 + k1 + k2 + 1)
  refine ⟨F1 + F2 + F3 + 3, 1 + k1 + k2 + 1 + k3, fun m hm => ?_⟩
  obtain ⟨m', rfl⟩ : ∃ m', m = m' + 2 := ⟨m - 2, by omega⟩
  rw [evalInternal_evalNative (m' + 2) _ _ _ _ e first [targ] env home d f (.trap n h) hl hsp hd0 (poll_bump st hatt j)
    (hF1 _ (by omega)) hf (hF2 _ (by omega))]
  rw [expandCompletely_trap m' _ n h env home (d + 1) (by omega)]
  show evalInternal (m' + 1 + 1) _ (.trap n h) env home d = _
  rw [evalInternal_trap_step (m' + 1) _ _ (.trap n h) n h env home d rfl rfl hd0 (poll_bump st hatt _), hF3 _ (by omega)]
  simp only [hs, if_true]
  simp only [Nat.add_assoc]

end rules

/-- applying the function value `f` to the already evaluated arguments `args` at depth `d` has the outcome `r` (a value
or a signal): `Applies`, generalised -/
def AppliesR (st : St) (f : Val) (args : List Val) (r : Res Val) (d : Nat) : Prop :=
  ∀ (e env : Val) (home : Name) (first : Val) (operands : List Val),
    listToVec e = some (first :: operands) → isSpecial first = false → e.getMeta = none →
    RunsJ st first env home (d + 1) (.ok f) → RunsArgsJ st operands env home d (.ok args) →
    RunsJ st e env home d r

theorem zipWith_append_cons {α β γ : Type} (f : α → β → γ) (x0 : α) (post : List α) :
    ∀ (pre : List α) (is : List β), pre.length < is.length →
      ∃ i is', List.zipWith f (pre ++ x0 :: post) is = List.zipWith f pre is ++ f x0 i :: List.zipWith f post is' := by
  intro pre
  induction pre with
  | nil =>
    intro is h
    cases is with
    | nil => simp at h
    | cons i is => exact ⟨i, is, rfl⟩
  | cons p pre ih =>
    intro is h
    cases is with
    | nil => simp at h
    | cons i is =>
      obtain ⟨i', is', h'⟩ := ih is (by simpa using h)
      exact ⟨i', is', by simp [h']⟩

namespace C16

/-- the helper `-map` when the call for one element signals, the calls for the elements before it having values -/
theorem fmap_via_err {st : St} (hl : Loaded st) (fv : Val) (d : Nat) (hd : d + 4 ≤ Config.maxRecursionDepth)
    (C : Val → Val → Prop) (hcall : ∀ x y, C x y → Applies st fv [x] y (d + 1 + 1))
    (t x0 : Val) (post : List Val) (s : Val) (herr : AppliesR st fv [x0] (.err s) (d + 1 + 1)) :
    ∀ pre ys, MapsVia C pre ys → ∀ acc env,
      pairParamsAndArgs Prelude.f_map_rest Prelude.f_map_params .nil none
        [fv, (pre ++ x0 :: post).foldr Val.cons t, acc] = .ok env →
      RunsJ st Prelude.f_map_body env cs!"prelude" d (.err s) := by
  obtain ⟨p1, p2, p3, hp⟩ := Prelude.f_map_params_shape
  obtain ⟨m1, m2, m3, m4, m5, m6, m7, m8, m9, m10, m11, m12, hb⟩ := Prelude.f_map_body_shape
  obtain ⟨wf, hwf, hwfg⟩ := hl.prelude _ _ Prelude.f_map_mem
  obtain ⟨wcar, hwcar, hwcarg⟩ := hl.native .car (by decide)
  obtain ⟨wcdr, hwcdr, hwcdrg⟩ := hl.native .cdr (by decide)
  obtain ⟨wcons, hwcons, hwconsg⟩ := hl.native .cons (by decide)
  have hs := hl.sees
  have hd0 : d ≤ Config.maxRecursionDepth := by omega
  have hd1 : d + 1 ≤ Config.maxRecursionDepth := by omega
  have hd2 : d + 1 + 1 ≤ Config.maxRecursionDepth := by omega
  have hd3 : d + 1 + 1 + 1 ≤ Config.maxRecursionDepth := by omega
  have hd4 : d + 1 + 1 + 1 + 1 ≤ Config.maxRecursionDepth := by omega
  intro pre ys h
  induction h with
  | nil =>
    intro acc env henv
    have hE : env = .cons (.cons (symA cs!"init" p3) acc) (.cons (.cons (symA cs!"things" p2) (.cons x0 (post.foldr Val.cons t)))
        (.cons (.cons (symA cs!"f" p1) fv) .nil)) := by
      rw [hp, Prelude.f_map_rest_eq, pair3] at henv
      exact (Res.ok.inj henv).symm
    rw [hb]
    refine RunsJ.ifTrue hl.detached hd0 (RunsJ.of_eval hs (ev_local hd1 (by lk hE))) rfl ?_
    refine RunsJ.operandErr hl.detached hd0 (listToVec_ofList _) rfl
      (RunsJ.of_eval hs (ev_global hd1 (by lk hE) hwf)) (Or.inl ⟨_, _, _, _, _, _, hwfg.trans Prelude.f_map_fn_eq⟩)
      (RunsArgsJ.later (RunsJ.of_eval hs (ev_local hd1 (by lk hE)))
        (RunsArgsJ.later (v := post.foldr Val.cons t) (RunsJ.of_eval hs ?_) (RunsArgsJ.here ?_)))
    · exact ev_prim hd1 rfl (ev_global hd2 (by lk hE) hwcdr) hwcdrg rfl (evs_one (ev_local hd2 (by lk hE)))
        (prim_cdr _ x0 _ _ rfl)
    · refine RunsJ.operandErr hl.detached hd1 (listToVec_ofList _) rfl
        (RunsJ.of_eval hs (ev_global hd2 (by lk hE) hwcons)) (Or.inr ⟨_, hwconsg⟩) (RunsArgsJ.here ?_)
      refine herr _ env cs!"prelude" _ _ (listToVec_ofList _) rfl rfl
        (RunsJ.of_eval hs (ev_local hd3 (by lk hE)))
        (RunsArgsJ.of_evalArgs hs (evs_one ?_))
      exact ev_prim hd3 rfl (ev_global hd4 (by lk hE) hwcar) hwcarg rfl (evs_one (ev_local hd4 (by lk hE)))
        (prim_car _ x0 _ _ rfl)
  | cons x y xs ys hc _ ih =>
    intro acc env henv
    have hE : env = .cons (.cons (symA cs!"init" p3) acc)
        (.cons (.cons (symA cs!"things" p2) (.cons x ((xs ++ x0 :: post).foldr Val.cons t)))
        (.cons (.cons (symA cs!"f" p1) fv) .nil)) := by
      rw [hp, Prelude.f_map_rest_eq, pair3] at henv
      exact (Res.ok.inj henv).symm
    have hpair : pairParamsAndArgs Prelude.f_map_rest Prelude.f_map_params .nil none
        [fv, (xs ++ x0 :: post).foldr Val.cons t, .cons y acc] =
        .ok (.cons (.cons (symA cs!"init" p3) (.cons y acc))
          (.cons (.cons (symA cs!"things" p2) ((xs ++ x0 :: post).foldr Val.cons t))
          (.cons (.cons (symA cs!"f" p1) fv) .nil))) := by
      rw [hp, Prelude.f_map_rest_eq, pair3]
    rw [hb]
    refine RunsJ.ifTrue hl.detached hd0 (RunsJ.of_eval hs (ev_local hd1 (by lk hE))) rfl ?_
    refine RunsJ.callClosure hl.detached hd0 (listToVec_ofList _) rfl
      (RunsJ.of_eval hs (ev_global hd1 (by lk hE) hwf)) (hwfg.trans Prelude.f_map_fn_eq)
      (RunsArgsJ.cons (RunsJ.of_eval hs (ev_local hd1 (by lk hE)))
        (RunsArgsJ.cons (RunsJ.of_eval hs ?_) (RunsArgsJ.cons ?_ (RunsArgsJ.nil _ _ _ _))))
      hpair (ih _ _ hpair)
    · exact ev_prim hd1 rfl (ev_global hd2 (by lk hE) hwcdr) hwcdrg rfl (evs_one (ev_local hd2 (by lk hE)))
        (prim_cdr _ x _ _ rfl)
    · refine RunsJ.callPrim hl.detached hd1 (listToVec_ofList _) rfl
        (RunsJ.of_eval hs (ev_global hd2 (by lk hE) hwcons)) hwconsg rfl
        (RunsArgsJ.cons ?_ (RunsArgsJ.cons (RunsJ.of_eval hs (ev_local hd2 (by lk hE))) (RunsArgsJ.nil _ _ _ _))) rfl
      refine hcall x y hc _ env cs!"prelude" _ _ (listToVec_ofList _) rfl rfl
        (RunsJ.of_eval hs (ev_local hd3 (by lk hE)))
        (RunsArgsJ.of_evalArgs hs (evs_one ?_))
      exact ev_prim hd3 rfl (ev_global hd4 (by lk hE) hwcar) hwcarg rfl (evs_one (ev_local hd4 (by lk hE)))
        (prim_car _ x _ _ rfl)

/-- the body of `map` when the call for one element signals, the calls for the elements before it having values -/
theorem map_via_err {st : St} (hl : Loaded st) (fv : Val) (d : Nat) (hd : d + 7 ≤ Config.maxRecursionDepth)
    (C : Val → Val → Prop) (hcall : ∀ x y, C x y → Applies st fv [x] y (d + 1 + 1 + 1))
    (t x0 : Val) (post : List Val) (s : Val) (herr : AppliesR st fv [x0] (.err s) (d + 1 + 1 + 1))
    (pre ys : List Val) (hmap : MapsVia C pre ys) (env : Val)
    (henv : pairParamsAndArgs Prelude.map_rest Prelude.map_params .nil none
      [fv, (pre ++ x0 :: post).foldr Val.cons t] = .ok env) :
    RunsJ st Prelude.map_body env cs!"prelude" d (.err s) := by
  obtain ⟨p1, p2, hp⟩ := Prelude.map_params_shape
  obtain ⟨m1, m2, m3, m4, m5, hb⟩ := Prelude.map_body_shape
  obtain ⟨q1, q2, q3, hq⟩ := Prelude.f_map_params_shape
  have hE : env = .cons (.cons (symA cs!"things" p2) ((pre ++ x0 :: post).foldr Val.cons t))
      (.cons (.cons (symA cs!"f" p1) fv) .nil) := by
    rw [hp, Prelude.map_rest_eq, pair2] at henv
    exact (Res.ok.inj henv).symm
  obtain ⟨wf, hwf, hwfg⟩ := hl.prelude _ _ Prelude.f_map_mem
  obtain ⟨wr, hwr, hwrg⟩ := hl.prelude _ _ Prelude.reverse_mem
  obtain ⟨tail, htail, htailp⟩ := hl.nil
  have htail' : globalsOf st cs!"nil" cs!"prelude" = .found tail := htail
  have hs := hl.sees
  have hd0 : d ≤ Config.maxRecursionDepth := by omega
  have hd1 : d + 1 ≤ Config.maxRecursionDepth := by omega
  have hd2 : d + 1 + 1 ≤ Config.maxRecursionDepth := by omega
  have hpair : pairParamsAndArgs Prelude.f_map_rest Prelude.f_map_params .nil none
      [fv, (pre ++ x0 :: post).foldr Val.cons t, tail] =
      .ok (.cons (.cons (symA cs!"init" q3) tail) (.cons (.cons (symA cs!"things" q2) ((pre ++ x0 :: post).foldr Val.cons t))
        (.cons (.cons (symA cs!"f" q1) fv) .nil))) := by
    rw [hq, Prelude.f_map_rest_eq, pair3]
  have hmapr := fmap_via_err hl fv (d + 1) (by omega) C hcall t x0 post s herr pre ys hmap tail _ hpair
  rw [hb]
  refine RunsJ.operandErr hl.detached hd0 (listToVec_ofList _) rfl
    (RunsJ.of_eval hs (ev_global hd1 (by lk hE) hwr)) (Or.inl ⟨_, _, _, _, _, _, hwrg.trans Prelude.reverse_fn_eq⟩)
    (RunsArgsJ.here ?_)
  exact RunsJ.callClosure hl.detached hd1 (listToVec_ofList _) rfl
    (RunsJ.of_eval hs (ev_global hd2 (by lk hE) hwf)) (hwfg.trans Prelude.f_map_fn_eq)
    (RunsArgsJ.of_evalArgs hs (evs_three (ev_local hd2 (by lk hE)) (ev_local hd2 (by lk hE))
      (ev_global hd2 (by lk hE) htail')))
    hpair hmapr

end C16

end Pici

/-! ### the handler of the trap in `debug-eval-internal` -/

namespace Pici.DebuggerX
open Pici

/-- the handler of the trap in `debug-eval-internal`: `(block (when step-in …) (signal *trapped-signal*))`:
`((lambda (Ga) (signal *trapped-signal*)) (if step-in $s ()))` -/
def IsHandler (v : Val) : Prop :=
  ∃ (m1 m2 m3 m4 m5 : Meta) (g1 : Nat) (o_s : Val), v = .ofList [.ofList [symA cs!"lambda" m1, .ofList [(.sym (.gen
      g1))], .ofList [symA cs!"signal" m2, symA cs!"*trapped-signal*" m3]], .ofList [symA cs!"if" m4, symA
      cs!"step-in" m5, o_s, .nil]]

/-- the body of `debug-eval-internal`, as `IsDeiBody`, the handler included -/
def IsDeiBodyH (v : Val) : Prop :=
  ∃ (m1 m2 m3 m4 m5 m6 m7 m8 m9 m10 m11 : Meta) (g1 g2 : Nat) (o_s1 o_s2 vHandler vDispatch : Val), v = .ofList [symA
      cs!"eval" m1, .ofList [symA cs!"trap" m2, .ofList [.ofList [symA cs!"lambda" m3, .ofList [(.sym (.gen g1))],
      .ofList [.ofList [symA cs!"lambda" m4, .ofList [symA cs!"result" m5], .ofList [.ofList [symA cs!"lambda" m6,
      .ofList [(.sym (.gen g2))], symA cs!"result" m7], .ofList [symA cs!"if" m8, symA cs!"step-in" m9, o_s1, .nil]]],
      vDispatch]], .ofList [symA cs!"if" m10, symA cs!"step-in" m11, o_s2, .nil]], vHandler]] ∧ IsDispatch vDispatch ∧
      IsHandler vHandler

theorem debug_eval_internal_body_shapeH : IsDeiBodyH debug_eval_internal_body := by
  unfold IsDeiBodyH
  repeat (first | exact rfl | apply Exists.intro | apply And.intro | unfold IsHandler | shape_unfold)

end Pici.DebuggerX

namespace Pici.Dbg
open Pici Pici.Ref Pici.DebuggerX Pici.C16

/-- a binding of a symbol without metadata (`*trapped-signal*`, as the evaluator binds it), in front of `E` -/
def bindS (n : Name) (v E : Val) : Val := .cons (.cons (.symName n) v) E

theorem lookupEnv_bindS_hit (n : Name) (v E : Val) : lookupEnv (.named n) (bindS n v E) = some v := by
  simp [lookupEnv, bindS, Val.get, Val.symName]

theorem lookupEnv_bindS_miss (n n' : Name) (v E : Val) (h : n' ≠ n) :
    lookupEnv (.named n) (bindS n' v E) = lookupEnv (.named n) E := by
  simp [lookupEnv, bindS, Val.get, Val.symName, h]

/-- variable lookup in a chain of bindings, `bindS` included -/
macro "lks" : tactic =>
  `(tactic| (simp only [dlEnv, env4, env3, lookupEnv_bindN_hit, lookupEnv_bindN_miss, lookupEnv_bindG, lookupEnv_bindS_hit,
      lookupEnv_bindS_miss, lookupEnv_nil, ne_eq, List.cons.injEq, Char.reduceEq, and_true, and_false, false_and, true_and,
      not_false_eq_true, reduceCtorEq, Option.some.injEq]; try rfl))

section
variable {st : St}

/-- one run of `debug-eval-internal`, stepping over, with any outcome -/
def DeiRunsR (st : St) (env mv : Val) (D : Nat) (x : Val) (r : Res Val) : Prop :=
  ∀ p1 p2 p3 p4 sv', sv'.isNil = true →
    RunsJ st debug_eval_internal_body (env4 p1 p2 p3 p4 x env mv sv') cs!"debugger" D r

/-- the handler re-signals the trapped signal -/
theorem handler_runs (hl : DLoaded st) {h : Val} (hh : IsHandler h) (E s sv : Val) (D : Nat)
    (hd : D + 2 ≤ Config.maxRecursionDepth) (hsv : sv.isNil = true) (hs : s.isNil = false)
    (hstep : lookupEnv (.named cs!"step-in") E = some sv) (hsig : lookupEnv (.named cs!"signal") E = none) :
    RunsJ st h (bindS cs!"*trapped-signal*" s E) cs!"debugger" D (.err s) := by
  obtain ⟨m1, m2, m3, m4, m5, g1, os, rfl⟩ := hh
  have hs' := hl.sees
  obtain ⟨w, hw, hwg⟩ := hl.nativesD .signal
  refine RunsJ.letForm hs' (by omega) rfl (RunsArgsJ.one (skip_when hl (by omega) ?_ hsv)) (pair1 _ _ _ _) ?_
  · rw [lookupEnv_bindS_miss _ _ _ _ (by decide)]; exact hstep
  have hE : ∀ n, lookupEnv (.named n) (Val.cons (.cons (.sym (.gen g1)) .nil) (bindS cs!"*trapped-signal*" s E)) =
      lookupEnv (.named n) (bindG g1 .nil (bindS cs!"*trapped-signal*" s E)) := fun _ => rfl
  refine RunsJ.callSimple hl.detached (by omega) (listToVec_ofList _) rfl
    (RunsJ.glob hs' (by omega) ?_ hw) hwg (by decide) (by decide) (by decide) (by decide) (by decide)
    (RunsArgsJ.one (RunsJ.loc hs' (by omega) ?_)) (fun j => C08.signal_payload _ _ s hs)
  · rw [hE, lookupEnv_bindG, lookupEnv_bindS_miss _ _ _ _ (by decide)]; exact hsig
  · rw [hE, lookupEnv_bindG, lookupEnv_bindS_hit]

/-- the body of `debug-eval-internal` signals whatever the `case` on `(type-of expr)` signals, two levels below: the trap
re-signals the trapped value, and lets an abort pass -/
theorem dei_to_cases_err (hl : DLoaded st) {body : Val} (hb : IsDeiBodyH body) :
    ∃ cases, IsCases cases ∧ ∀ (p1 p2 p3 p4 : Meta) (e env mv sv tv : Val) (d : Nat) (s : Val), sv.isNil = true →
      d + 5 ≤ Config.maxRecursionDepth → (s = .nil ∨ s.isNil = false) →
      (∀ dd st', simpleNative .typeOf [e] dd st' = (.ok tv, st')) →
      (∀ (a : Meta) (g : Nat), RunsJ st cases (bindN cs!"type" a tv (bindG g .nil (env4 p1 p2 p3 p4 e env mv sv)))
        cs!"debugger" (d + 2) (.err s)) →
      RunsJ st body (env4 p1 p2 p3 p4 e env mv sv) cs!"debugger" d (.err s) := by
  obtain ⟨m1, m2, m3, m4, m5, m6, m7, m8, m9, m10, m11, ga, gb, s1, s2, handler, disp, rfl, hdisp, hhandler⟩ := hb
  obtain ⟨n1, n2, n3, n4, cases, rfl, hcases⟩ := hdisp
  refine ⟨cases, hcases, ?_⟩
  intro p1 p2 p3 p4 e env mv sv tv d s hsv hd hgood hty hrun
  have hs := hl.sees
  obtain ⟨weval, hweval, hwevalg⟩ := hl.nativesD .eval
  obtain ⟨wty, hwty, hwtyg⟩ := hl.nativesD .typeOf
  -- the normal body of the trap signals: the operand of `(let (result …) …)` does
  have hN : RunsJ st (.ofList [.ofList [symA cs!"lambda" m3, .ofList [(.sym (.gen ga))],
      .ofList [.ofList [symA cs!"lambda" m4, .ofList [symA cs!"result" m5], .ofList [.ofList [symA cs!"lambda" m6,
      .ofList [(.sym (.gen gb))], symA cs!"result" m7], .ofList [symA cs!"if" m8, symA cs!"step-in" m9, s1, .nil]]],
      .ofList [.ofList [symA cs!"lambda" n1, .ofList [symA cs!"type" n2], cases],
        .ofList [symA cs!"type-of" n3, symA cs!"expr" n4]]]], .ofList [symA cs!"if" m10, symA cs!"step-in" m11, s2, .nil]])
      (env4 p1 p2 p3 p4 e env mv sv) cs!"debugger" (d + 1) (.err s) := by
    refine RunsJ.letForm hs (by omega) rfl (RunsArgsJ.one (skip_when hl (by omega) (by lke) hsv)) (pair1 _ _ _ _) ?_
    refine RunsJ.letFormErr hs (by omega) rfl (RunsArgsJ.here ?_)
    refine RunsJ.letForm (vs := [tv]) hs (by omega) rfl (RunsArgsJ.one ?_) (pair1 _ _ _ _) (hrun n2 ga)
    exact RunsJ.callSimple hl.detached (by omega) (listToVec_ofList _) rfl
      (RunsJ.glob hs (by omega) (show lookupEnv _ (bindG ga .nil (env4 p1 p2 p3 p4 e env mv sv)) = _ by lke) hwty)
      hwtyg (by decide) (by decide) (by decide) (by decide) (by decide)
      (RunsArgsJ.one (RunsJ.loc hs (by omega)
        (show lookupEnv _ (bindG ga .nil (env4 p1 p2 p3 p4 e env mv sv)) = _ by lke))) (fun j => hty _ _)
  rcases hgood with rfl | hnn
  · exact RunsJ.evalTrapAbort hl.detached (by omega) (listToVec_ofList _) rfl
      (RunsJ.glob hs (by omega) (by lke) hweval) hwevalg
      (RunsJ.trapForm hl.detached (by omega) (listToVec_ofList _) rfl rfl rfl rfl) hN rfl
  · exact RunsJ.evalTrapCatch hl.detached (by omega) (listToVec_ofList _) rfl
      (RunsJ.glob hs (by omega) (by lke) hweval) hwevalg
      (RunsJ.trapForm hl.detached (by omega) (listToVec_ofList _) rfl rfl rfl rfl) hN hnn
      (handler_runs hl hhandler _ s sv (d + 1) (by omega) hsv hnn (by lke) (by lke))

end

end Pici.Dbg
