/-
Helper lemmas for Props/C10: the tokenizer (`tokLoop`, `nextToken`) and the reader loop (`readLoop`) on plain text
(`Val.ofChars`), token by token.  Nothing here mentions the data of Props/C10.
-/
import PiciModel.Model.Reader
import PiciModel.Model.Printer
import PiciModel.Lemmas.Numbers
namespace Pici

def itemsOf : List Char → List (Char × Val)
  | [] => []
  | c :: cs => (c, .ofChars cs) :: itemsOf cs

theorem explode_ofChars (cs : List Char) : explode (.ofChars cs) = (itemsOf cs, .eof) := by
  induction cs with
  | nil => rfl
  | cons c cs ih =>
    show explode (.cons (.chr c) (.ofChars cs)) = _
    rw [explode]
    simp only [Val.get, ih, itemsOf]

/-- the closure `finish` of `tokLoop`, as a function -/
def finishF (items : List (Char × Val)) (tail : Tail) (loc : Loc) (rest : Rest)
    (status : TokStatus) (buf : List Char) (begin : Loc) : TokOut :=
  if buf ≠ [] then
    match atomEnding items tail with
    | none       => .err .invalidString
    | some false => tokLoop items tail loc status buf begin
    | some true  =>
      match status with
      | .character =>
        match buildCharacter buf.reverse with
        | .ok c      => .token (.character c) begin rest items loc
        | .error msg => .err (.error msg loc rest)
      | .number =>
        match buildNumber buf.reverse with
        | .ok n      => .token (.number n) begin rest items loc
        | .error msg => .err (.error msg loc rest)
      | .symbol | .symbolOrNumber => .token (.symbol buf.reverse) begin rest items loc
      | .stringNormal | .stringEscape => tokLoop items tail loc status buf begin
      | .whiteSpace | .comment => .err (.crash cs!"read: unreachable token status")
  else tokLoop items tail loc status buf begin

theorem tokLoop_cons (ch : Char) (r : Val) (items : List (Char × Val)) (tail : Tail) (loc0 : Loc)
    (status : TokStatus) (buf : List Char) (begin : Loc) :
    tokLoop ((ch, r) :: items) tail loc0 status buf begin =
    (let loc := loc0.step ch
    let rest : Rest := ⟨r, loc.line, loc.col + 1⟩
    let finish := finishF items tail loc rest
    if status == .comment then
      tokLoop items tail loc (if ch = '\n' then .whiteSpace else .comment) buf begin
    else if status == .stringNormal && ch ≠ '"' && ch ≠ '\\' then
      tokLoop items tail loc status (ch :: buf) begin
    else if status == .stringEscape then
      if ch = '"' then tokLoop items tail loc .stringNormal ('"' :: buf) begin
      else if ch = 'n' then tokLoop items tail loc .stringNormal ('\n' :: buf) begin
      else if ch = 'r' then tokLoop items tail loc .stringNormal ('\r' :: buf) begin
      else if ch = 't' then tokLoop items tail loc .stringNormal ('\t' :: buf) begin
      else if ch = '\\' then tokLoop items tail loc .stringNormal ('\\' :: buf) begin
      else .err (.error (cs!"'" ++ [ch] ++ cs!"' is not a valid escape character in a string literal") loc rest)
    else if status == .character && buf = [] then
      finish status [ch] begin
    else if isWhitespace ch || ch = ',' then
      finish .whiteSpace buf begin
    else if ch = ';' then
      finish .comment buf begin
    else if ch = '\'' then .token .quote loc rest items loc
    else if ch = '(' then .token .openParen loc rest items loc
    else if ch = ')' then .token .closeParen loc rest items loc
    else if ch = '"' then
      if status == .stringNormal then .token (.string buf.reverse) begin rest items loc
      else finish .stringNormal buf loc
    else if ch = '\\' then
      if status == .stringNormal then finish .stringEscape buf begin
      else if status == .character then finish status (ch :: buf) begin
      else .err (.error cs!"unexpected character: '\\'" loc rest)
    else if ch = '%' then
      if status == .whiteSpace then finish .character buf loc
      else finish status (ch :: buf) begin
    else if ch = '+' || ch = '-' then
      if status == .whiteSpace then finish .symbolOrNumber (ch :: buf) loc
      else finish status (ch :: buf) begin
    else if isAsciiDigit ch then
      if status == .symbolOrNumber then finish .number (ch :: buf) begin
      else if status == .whiteSpace then finish .number (ch :: buf) loc
      else finish status (ch :: buf) begin
    else
      if status == .whiteSpace then finish .symbol (ch :: buf) loc
      else if status == .symbolOrNumber then finish .symbol (ch :: buf) begin
      else if status == .number then
        .err (.error (cs!"unexpected character in number literal: '" ++ [ch] ++ cs!"'") loc rest)
      else finish status (ch :: buf) begin) := by
  rw [tokLoop]
  rfl

def endsB : List Char → Bool
  | [] => true
  | c :: _ => isDelimiter c

theorem atomEnding_itemsOf (t : List Char) : atomEnding (itemsOf t) .eof = some (endsB t) := by
  cases t <;> rfl

def locAfter (loc : Loc) (s : List Char) : Loc := s.foldl Loc.step loc

def restAt (loc : Loc) (t : List Char) : Rest := ⟨.ofChars t, loc.line, loc.col + 1⟩

theorem finishF_nil (items tail loc rest st b) : finishF items tail loc rest st [] b = tokLoop items tail loc st [] b := by
  simp only [finishF, ne_eq, not_true_eq_false, if_false]

theorem finishF_cont (t loc rest st) (c : Char) (buf b) (h : endsB t = false) :
    finishF (itemsOf t) .eof loc rest st (c :: buf) b = tokLoop (itemsOf t) .eof loc st (c :: buf) b := by
  simp only [finishF, atomEnding_itemsOf, h]
  simp

theorem finishF_end (t loc rest st) (c : Char) (buf b) (h : endsB t = true) :
    finishF (itemsOf t) .eof loc rest st (c :: buf) b =
      match st with
      | .character =>
        match buildCharacter (c :: buf).reverse with
        | .ok c      => .token (.character c) b rest (itemsOf t) loc
        | .error msg => .err (.error msg loc rest)
      | .number =>
        match buildNumber (c :: buf).reverse with
        | .ok n      => .token (.number n) b rest (itemsOf t) loc
        | .error msg => .err (.error msg loc rest)
      | .symbol | .symbolOrNumber => .token (.symbol (c :: buf).reverse) b rest (itemsOf t) loc
      | .stringNormal | .stringEscape => tokLoop (itemsOf t) .eof loc st (c :: buf) b
      | .whiteSpace | .comment => .err (.crash cs!"read: unreachable token status") := by
  simp only [finishF, atomEnding_itemsOf, h]
  simp

theorem finishF_string (t loc rest st buf b) (h : st = .stringNormal ∨ st = .stringEscape) :
    finishF (itemsOf t) .eof loc rest st buf b = tokLoop (itemsOf t) .eof loc st buf b := by
  cases buf with
  | nil => exact finishF_nil ..
  | cons c buf =>
    cases he : endsB t
    · exact finishF_cont _ _ _ _ _ _ _ he
    · rw [finishF_end _ _ _ _ _ _ _ he]
      rcases h with rfl | rfl <;> rfl

theorem not_delim {c : Char} (h : isDelimiter c = false) :
    isWhitespace c = false ∧ c ≠ ',' ∧ c ≠ ';' ∧ c ≠ '\'' ∧ c ≠ '(' ∧ c ≠ ')' ∧ c ≠ '"' := by
  simp only [isDelimiter, Bool.or_eq_false_iff, beq_eq_false_iff_ne] at h
  simp only [h, ne_eq, not_false_eq_true, and_self]


theorem digit_toNat {c : Char} (h : isAsciiDigit c = true) : 48 ≤ c.toNat ∧ c.toNat ≤ 57 := by
  simp only [isAsciiDigit, Bool.and_eq_true, decide_eq_true_eq, Char.le_def] at h
  have h1 := UInt32.le_iff_toNat_le.mp h.1
  have h2 := UInt32.le_iff_toNat_le.mp h.2
  exact ⟨h1, h2⟩

theorem ne_of_toNat_ne {c d : Char} (h : c.toNat ≠ d.toNat) : c ≠ d := by
  rintro rfl; exact h rfl

theorem digit_facts {c : Char} (h : isAsciiDigit c = true) :
    isDelimiter c = false ∧ c ≠ '\\' ∧ c ≠ '%' ∧ c ≠ '+' ∧ c ≠ '-' := by
  have ⟨h1, h2⟩ := digit_toNat h
  have e : ∀ d : Char, d.toNat < 48 ∨ 57 < d.toNat → c ≠ d := by
    intro d hd; apply ne_of_toNat_ne; omega
  refine ⟨?_, e _ (by decide), e _ (by decide), e _ (by decide), e _ (by decide)⟩
  simp only [isDelimiter, Bool.or_eq_false_iff, beq_eq_false_iff_ne]
  refine ⟨⟨⟨⟨⟨⟨e _ (by decide), e _ (by decide)⟩, e _ (by decide)⟩, e _ (by decide)⟩, e _ (by decide)⟩, e _ (by decide)⟩, ?_⟩
  simp only [isWhitespace, Bool.or_eq_false_iff, Bool.and_eq_false_iff, beq_eq_false_iff_ne, decide_eq_false_iff_not]
  omega

section steps
variable (ch : Char) (r : Val) (items : List (Char × Val)) (tail : Tail) (loc0 : Loc) (buf : List Char) (b : Loc)

local notation "LOC" => Loc.step loc0 ch
local notation "REST" => Rest.mk r (Loc.line (Loc.step loc0 ch)) (Loc.col (Loc.step loc0 ch) + 1)

theorem step_sym (h : isDelimiter ch = false) (h2 : ch ≠ '\\') :
    tokLoop ((ch, r) :: items) tail loc0 .symbol buf b = finishF items tail LOC REST .symbol (ch :: buf) b := by
  obtain ⟨h3, h4, h5, h6, h7, h8, h9⟩ := not_delim h
  rw [tokLoop_cons]
  simp [*]

theorem step_ws_space :
    tokLoop ((' ', r) :: items) tail loc0 .whiteSpace buf b =
      finishF items tail (loc0.step ' ') ⟨r, (loc0.step ' ').line, (loc0.step ' ').col + 1⟩ .whiteSpace buf b := by
  rw [tokLoop_cons]
  simp [isWhitespace]

theorem step_ws_open :
    tokLoop (('(', r) :: items) tail loc0 .whiteSpace buf b =
      .token .openParen (loc0.step '(') ⟨r, (loc0.step '(').line, (loc0.step '(').col + 1⟩ items (loc0.step '(') := by
  rw [tokLoop_cons]
  simp [isWhitespace]

theorem step_ws_close :
    tokLoop ((')', r) :: items) tail loc0 .whiteSpace buf b =
      .token .closeParen (loc0.step ')') ⟨r, (loc0.step ')').line, (loc0.step ')').col + 1⟩ items (loc0.step ')') := by
  rw [tokLoop_cons]
  simp [isWhitespace]

theorem step_ws_dquote :
    tokLoop (('"', r) :: items) tail loc0 .whiteSpace buf b =
      finishF items tail (loc0.step '"') ⟨r, (loc0.step '"').line, (loc0.step '"').col + 1⟩ .stringNormal buf (loc0.step '"') := by
  rw [tokLoop_cons]
  simp [isWhitespace]

theorem step_str_plain (h1 : ch ≠ '"') (h2 : ch ≠ '\\') :
    tokLoop ((ch, r) :: items) tail loc0 .stringNormal buf b = tokLoop items tail LOC .stringNormal (ch :: buf) b := by
  rw [tokLoop_cons]
  simp [*]

theorem step_str_bs :
    tokLoop (('\\', r) :: items) tail loc0 .stringNormal buf b =
      finishF items tail (loc0.step '\\') ⟨r, (loc0.step '\\').line, (loc0.step '\\').col + 1⟩ .stringEscape buf b := by
  rw [tokLoop_cons]
  simp [isWhitespace]

theorem step_str_close :
    tokLoop (('"', r) :: items) tail loc0 .stringNormal buf b =
      .token (.string buf.reverse) b ⟨r, (loc0.step '"').line, (loc0.step '"').col + 1⟩ items (loc0.step '"') := by
  rw [tokLoop_cons]
  simp [isWhitespace]

theorem step_esc (h : ch = '"' ∨ ch = '\\') :
    tokLoop ((ch, r) :: items) tail loc0 .stringEscape buf b = tokLoop items tail LOC .stringNormal (ch :: buf) b := by
  rw [tokLoop_cons]
  rcases h with rfl | rfl <;> simp

theorem step_ws_percent :
    tokLoop (('%', r) :: items) tail loc0 .whiteSpace buf b =
      finishF items tail (loc0.step '%') ⟨r, (loc0.step '%').line, (loc0.step '%').col + 1⟩ .character buf (loc0.step '%') := by
  rw [tokLoop_cons]
  simp [isWhitespace]

theorem step_char_first :
    tokLoop ((ch, r) :: items) tail loc0 .character [] b = finishF items tail LOC REST .character [ch] b := by
  rw [tokLoop_cons]
  simp

theorem step_char_more (x : Char) (h : ch = '\\' ∨ ch = 'n' ∨ ch = 't' ∨ ch = 's' ∨ ch = 'r') :
    tokLoop ((ch, r) :: items) tail loc0 .character (x :: buf) b = finishF items tail LOC REST .character (ch :: x :: buf) b := by
  rw [tokLoop_cons]
  rcases h with rfl | rfl | rfl | rfl | rfl <;> simp [isWhitespace, isAsciiDigit]

theorem step_ws_sign (h : ch = '+' ∨ ch = '-') :
    tokLoop ((ch, r) :: items) tail loc0 .whiteSpace buf b = finishF items tail LOC REST .symbolOrNumber (ch :: buf) LOC := by
  rw [tokLoop_cons]
  rcases h with rfl | rfl <;> simp [isWhitespace]

theorem step_son_signpct (h : ch = '+' ∨ ch = '-' ∨ ch = '%') :
    tokLoop ((ch, r) :: items) tail loc0 .symbolOrNumber buf b = finishF items tail LOC REST .symbolOrNumber (ch :: buf) b := by
  rw [tokLoop_cons]
  rcases h with rfl | rfl | rfl <;> simp [isWhitespace]

theorem step_ws_digit (h : isAsciiDigit ch = true) :
    tokLoop ((ch, r) :: items) tail loc0 .whiteSpace buf b = finishF items tail LOC REST .number (ch :: buf) LOC := by
  obtain ⟨h1, h2, h3, h4, h5⟩ := digit_facts h
  obtain ⟨g3, g4, g5, g6, g7, g8, g9⟩ := not_delim h1
  rw [tokLoop_cons]
  simp [*]

theorem step_son_digit (h : isAsciiDigit ch = true) :
    tokLoop ((ch, r) :: items) tail loc0 .symbolOrNumber buf b = finishF items tail LOC REST .number (ch :: buf) b := by
  obtain ⟨h1, h2, h3, h4, h5⟩ := digit_facts h
  obtain ⟨g3, g4, g5, g6, g7, g8, g9⟩ := not_delim h1
  rw [tokLoop_cons]
  simp [*]

theorem step_num_digit (h : isAsciiDigit ch = true) :
    tokLoop ((ch, r) :: items) tail loc0 .number buf b = finishF items tail LOC REST .number (ch :: buf) b := by
  obtain ⟨h1, h2, h3, h4, h5⟩ := digit_facts h
  obtain ⟨g3, g4, g5, g6, g7, g8, g9⟩ := not_delim h1
  rw [tokLoop_cons]
  simp [*]

theorem step_ws_other (h : isDelimiter ch = false) (h2 : ch ≠ '\\') (h3 : ch ≠ '%') (h4 : ch ≠ '+') (h5 : ch ≠ '-')
    (h6 : isAsciiDigit ch = false) :
    tokLoop ((ch, r) :: items) tail loc0 .whiteSpace buf b = finishF items tail LOC REST .symbol (ch :: buf) LOC := by
  obtain ⟨g3, g4, g5, g6, g7, g8, g9⟩ := not_delim h
  rw [tokLoop_cons]
  simp [*]

theorem step_son_other (h : isDelimiter ch = false) (h2 : ch ≠ '\\') (h3 : ch ≠ '%') (h4 : ch ≠ '+') (h5 : ch ≠ '-')
    (h6 : isAsciiDigit ch = false) :
    tokLoop ((ch, r) :: items) tail loc0 .symbolOrNumber buf b = finishF items tail LOC REST .symbol (ch :: buf) b := by
  obtain ⟨g3, g4, g5, g6, g7, g8, g9⟩ := not_delim h
  rw [tokLoop_cons]
  simp [*]
 
end steps

/-- in the states between tokens the remembered start location is never used: every token start overwrites it -/
theorem tokLoop_begin_irrelevant (items : List (Char × Val)) (tail : Tail) (loc : Loc) (st : TokStatus)
    (hst : st = .whiteSpace ∨ st = .comment) (b b' : Loc) :
    tokLoop items tail loc st [] b = tokLoop items tail loc st [] b' := by
  induction items generalizing loc st with
  | nil => simp only [tokLoop]
  | cons x items ih =>
    obtain ⟨ch, r⟩ := x
    rw [tokLoop_cons, tokLoop_cons]
    rcases hst with rfl | rfl
    · simp [finishF_nil, ih _ .whiteSpace (Or.inl rfl), ih _ .comment (Or.inr rfl)]
    · simp only [beq_self_eq_true, if_true]
      split
      · exact ih _ _ (Or.inl rfl)
      · exact ih _ _ (Or.inr rfl)

theorem nextToken_space (text : List Char) (loc : Loc) :
    nextToken (itemsOf (' ' :: text)) .eof loc = nextToken (itemsOf text) .eof (loc.step ' ') := by
  rw [nextToken, itemsOf, step_ws_space, finishF_nil, nextToken]
  exact tokLoop_begin_irrelevant _ _ _ _ (Or.inl rfl) _ _

/-! ### whole tokens -/

theorem locAfter_cons (loc : Loc) (c : Char) (s : List Char) : locAfter loc (c :: s) = locAfter (loc.step c) s := rfl
theorem locAfter_nil (loc : Loc) : locAfter loc [] = loc := rfl
theorem locAfter_append (loc : Loc) (a b : List Char) : locAfter loc (a ++ b) = locAfter (locAfter loc a) b :=
  List.foldl_append ..

theorem tok_open (t : List Char) (loc : Loc) :
    nextToken (itemsOf ('(' :: t)) .eof loc =
      .token .openParen (loc.step '(') (restAt (loc.step '(') t) (itemsOf t) (loc.step '(') := by
  rw [nextToken, itemsOf, step_ws_open]; rfl

theorem tok_close (t : List Char) (loc : Loc) :
    nextToken (itemsOf (')' :: t)) .eof loc =
      .token .closeParen (loc.step ')') (restAt (loc.step ')') t) (itemsOf t) (loc.step ')') := by
  rw [nextToken, itemsOf, step_ws_close]; rfl

/-! #### strings -/

theorem string_run (cs t : List Char) (loc : Loc) (buf : List Char) (b : Loc) :
    tokLoop (itemsOf (printStringBody cs ++ '"' :: t)) .eof loc .stringNormal buf b =
      .token (.string (buf.reverse ++ cs)) b (restAt (locAfter loc (printStringBody cs ++ ['"'])) t) (itemsOf t)
        (locAfter loc (printStringBody cs ++ ['"'])) := by
  induction cs generalizing loc buf with
  | nil =>
    simp only [printStringBody, List.nil_append, itemsOf, step_str_close, List.append_nil]
    rfl
  | cons c cs ih =>
    rw [printStringBody]
    by_cases hc : c = '"' ∨ c = '\\'
    · rw [if_pos hc]
      simp only [List.cons_append, itemsOf, step_str_bs]
      rw [← itemsOf, finishF_string _ _ _ _ _ _ (Or.inr rfl), itemsOf, step_esc _ _ _ _ _ _ _ hc, ih]
      simp only [List.reverse_cons, List.append_assoc, List.singleton_append, locAfter_cons]
    · rw [if_neg hc]
      have h1 : c ≠ '"' := fun h => hc (Or.inl h)
      have h2 : c ≠ '\\' := fun h => hc (Or.inr h)
      simp only [List.cons_append, itemsOf, step_str_plain _ _ _ _ _ _ _ h1 h2]
      rw [ih]
      simp only [List.reverse_cons, List.append_assoc, List.singleton_append, locAfter_cons]

theorem tok_string (cs t : List Char) (loc : Loc) :
    nextToken (itemsOf (printString cs ++ t)) .eof loc =
      .token (.string cs) (loc.step '"') (restAt (locAfter loc (printString cs)) t) (itemsOf t)
        (locAfter loc (printString cs)) := by
  have e : printString cs ++ t = '"' :: (printStringBody cs ++ '"' :: t) := by
    simp only [printString, List.cons_append, List.append_assoc, List.nil_append]
  rw [e, nextToken, itemsOf, step_ws_dquote, finishF_nil, string_run]
  simp only [List.reverse_nil, List.nil_append, printString, locAfter_cons]

/-! #### characters -/

theorem restAt_eq (loc : Loc) (t : List Char) : (⟨.ofChars t, loc.line, loc.col + 1⟩ : Rest) = restAt loc t := rfl

theorem char_single (c : Char) (t : List Char) (ht : endsB t = true) (loc b : Loc) :
    tokLoop (itemsOf (c :: t)) .eof loc .character [] b =
      .token (.character c) b (restAt (loc.step c) t) (itemsOf t) (loc.step c) := by
  rw [itemsOf, step_char_first, finishF_end _ _ _ _ _ _ _ ht]
  simp [buildCharacter, restAt]

theorem char_escaped (x c : Char) (hx : x = '\\' ∨ x = 'n' ∨ x = 't' ∨ x = 's' ∨ x = 'r')
    (hb : buildCharacter ['\\', x] = .ok c) (t : List Char) (ht : endsB t = true) (loc b : Loc) :
    tokLoop (itemsOf ('\\' :: x :: t)) .eof loc .character [] b =
      .token (.character c) b (restAt ((loc.step '\\').step x) t) (itemsOf t) ((loc.step '\\').step x) := by
  have hx' : endsB (x :: t) = false := by
    rcases hx with rfl | rfl | rfl | rfl | rfl <;> (show isDelimiter _ = false) <;> decide
  rw [itemsOf, step_char_first, finishF_cont _ _ _ _ _ _ _ hx', itemsOf, step_char_more _ _ _ _ _ _ _ _ hx,
    finishF_end _ _ _ _ _ _ _ ht]
  simp only [List.reverse_cons, List.reverse_nil, List.nil_append, List.singleton_append, hb]
  rfl

theorem tok_char (c : Char) (t : List Char) (ht : endsB t = true) (loc : Loc) :
    nextToken (itemsOf ('%' :: charEscape c ++ t)) .eof loc =
      .token (.character c) (loc.step '%') (restAt (locAfter loc ('%' :: charEscape c)) t) (itemsOf t)
        (locAfter loc ('%' :: charEscape c)) := by
  rw [nextToken, List.cons_append, itemsOf, step_ws_percent, finishF_nil]
  unfold charEscape
  split
  · subst c; exact char_escaped 't' _ (by decide) (by simp [buildCharacter]) t ht _ _
  split
  · subst c; exact char_escaped 'n' _ (by decide) (by simp [buildCharacter]) t ht _ _
  split
  · subst c; exact char_escaped 'r' _ (by decide) (by simp [buildCharacter]) t ht _ _
  split
  · subst c; exact char_escaped 's' _ (by decide) (by simp [buildCharacter]) t ht _ _
  split
  · subst c; exact char_escaped '\\' _ (by decide) (by simp [buildCharacter]) t ht _ _
  · exact char_single c t ht _ _

/-! #### numbers -/

theorem isAsciiDigit_of_isDigit {c : Char} (h : c.isDigit = true) : isAsciiDigit c = true := by
  simp only [Char.isDigit, Bool.and_eq_true, decide_eq_true_eq] at h
  simp only [isAsciiDigit, Bool.and_eq_true, decide_eq_true_eq, Char.le_def]
  exact h

theorem endsB_cons_digit {d : Char} (hd : isAsciiDigit d = true) (s : List Char) : endsB (d :: s) = false :=
  (digit_facts hd).1

theorem number_run (ds : List Char) (hds : ∀ x ∈ ds, isAsciiDigit x = true) (t : List Char) (ht : endsB t = true)
    (c : Char) (buf : List Char) (n : Int) (hn : buildNumber ((c :: buf).reverse ++ ds) = .ok n) (loc b : Loc) :
    finishF (itemsOf (ds ++ t)) .eof loc (restAt loc (ds ++ t)) .number (c :: buf) b =
      .token (.number n) b (restAt (locAfter loc ds) t) (itemsOf t) (locAfter loc ds) := by
  induction ds generalizing c buf loc with
  | nil =>
    rw [List.append_nil] at hn
    rw [List.nil_append, finishF_end _ _ _ _ _ _ _ ht]
    simp only [hn]; rfl
  | cons d ds ih =>
    have hd := hds d (List.mem_cons_self ..)
    rw [List.cons_append, finishF_cont _ _ _ _ _ _ _ (endsB_cons_digit hd _), itemsOf, step_num_digit _ _ _ _ _ _ _ hd,
      restAt_eq, ih (fun x hx => hds x (List.mem_cons_of_mem _ hx))]
    · rfl
    · rw [← hn]; simp only [List.reverse_cons, List.append_assoc, List.cons_append, List.nil_append]

/-- a decimal literal: digits, or `-` and digits -/
theorem tok_number (neg : Bool) (d : Char) (ds : List Char) (hds : ∀ x ∈ d :: ds, isAsciiDigit x = true)
    (n : Int) (hn : parseI64 ((if neg then ['-'] else []) ++ d :: ds) = .ok n)
    (t : List Char) (ht : endsB t = true) (loc : Loc) :
    ∃ tloc, nextToken (itemsOf (((if neg then ['-'] else []) ++ d :: ds) ++ t)) .eof loc =
      .token (.number n) tloc (restAt (locAfter loc ((if neg then ['-'] else []) ++ d :: ds)) t) (itemsOf t)
        (locAfter loc ((if neg then ['-'] else []) ++ d :: ds)) := by
  have hd := hds d (List.mem_cons_self ..)
  have hds' : ∀ x ∈ ds, isAsciiDigit x = true := fun x hx => hds x (List.mem_cons_of_mem _ hx)
  cases neg
  · refine ⟨loc.step d, ?_⟩
    simp only [Bool.false_eq_true, if_false, List.nil_append] at hn ⊢
    rw [nextToken, List.cons_append, itemsOf, step_ws_digit _ _ _ _ _ _ _ hd, restAt_eq,
      number_run ds hds' t ht d [] n (by simp only [buildNumber, List.reverse_cons, List.reverse_nil, List.nil_append, List.singleton_append, hn])]
    rfl
  · refine ⟨loc.step '-', ?_⟩
    simp only [if_true, List.singleton_append] at hn ⊢
    rw [nextToken, List.cons_append, List.cons_append, itemsOf, step_ws_sign _ _ _ _ _ _ _ (Or.inr rfl),
      finishF_cont _ _ _ _ _ _ _ (endsB_cons_digit hd _), itemsOf, step_son_digit _ _ _ _ _ _ _ hd, restAt_eq,
      number_run ds hds' t ht d ['-'] n (by simp only [buildNumber, List.reverse_cons, List.reverse_nil, List.nil_append, List.cons_append, hn])]
    rfl

theorem tok_formatInt (n : Int) (hn : inRange n = true) (t : List Char) (ht : endsB t = true) (loc : Loc) :
    ∃ tloc, nextToken (itemsOf (formatInt n ++ t)) .eof loc =
      .token (.number n) tloc (restAt (locAfter loc (formatInt n)) t) (itemsOf t) (locAfter loc (formatInt n)) := by
  have hp := parseI64_formatInt n hn
  have key : ∃ (neg : Bool) (d : Char) (ds : List Char),
      formatInt n = (if neg then ['-'] else []) ++ d :: ds ∧ ∀ x ∈ d :: ds, isAsciiDigit x = true := by
    unfold formatInt
    by_cases h : n < 0
    · rw [if_pos h]
      cases hs : Nat.toDigits 10 n.natAbs with
      | nil => exact absurd hs Nat.toDigits_ne_nil
      | cons d ds =>
        refine ⟨true, d, ds, rfl, fun x hx => isAsciiDigit_of_isDigit (toDigits_isDigit n.natAbs x (hs ▸ hx))⟩
    · rw [if_neg h]
      cases hs : Nat.toDigits 10 n.toNat with
      | nil => exact absurd hs Nat.toDigits_ne_nil
      | cons d ds =>
        refine ⟨false, d, ds, rfl, fun x hx => isAsciiDigit_of_isDigit (toDigits_isDigit n.toNat x (hs ▸ hx))⟩
  obtain ⟨neg, d, ds, e, hds⟩ := key
  rw [e] at hp ⊢
  exact tok_number neg d ds hds n hp t ht loc

/-! #### symbols -/

/-- the characters over which the tokenizer stays undecided between symbol and number -/
def signPct (x : Char) : Bool := x == '+' || x == '-' || x == '%'

/-- does the text, after a run of `+ - %`, continue with a digit? -/
def digitAfterSigns (s : List Char) : Bool :=
  match s.dropWhile signPct with
  | d :: _ => isAsciiDigit d
  | []     => false

theorem symbol_run (s : List Char) (hs : ∀ x ∈ s, isDelimiter x = false ∧ x ≠ '\\') (t : List Char) (ht : endsB t = true)
    (c : Char) (buf : List Char) (loc b : Loc) :
    finishF (itemsOf (s ++ t)) .eof loc (restAt loc (s ++ t)) .symbol (c :: buf) b =
      .token (.symbol ((c :: buf).reverse ++ s)) b (restAt (locAfter loc s) t) (itemsOf t) (locAfter loc s) := by
  induction s generalizing c buf loc with
  | nil =>
    rw [List.nil_append, finishF_end _ _ _ _ _ _ _ ht, List.append_nil]; rfl
  | cons x s ih =>
    obtain ⟨hx1, hx2⟩ := hs x (List.mem_cons_self ..)
    rw [List.cons_append, finishF_cont _ _ _ _ _ _ _ (show endsB (x :: (s ++ t)) = false from hx1), itemsOf,
      step_sym _ _ _ _ _ _ _ hx1 hx2, restAt_eq, ih (fun y hy => hs y (List.mem_cons_of_mem _ hy))]
    simp only [List.reverse_cons, List.append_assoc, List.cons_append, List.nil_append, locAfter_cons]

theorem symbolOrNumber_run (s : List Char) (hs : ∀ x ∈ s, isDelimiter x = false ∧ x ≠ '\\')
    (hd : digitAfterSigns s = false) (t : List Char) (ht : endsB t = true)
    (c : Char) (buf : List Char) (loc b : Loc) :
    finishF (itemsOf (s ++ t)) .eof loc (restAt loc (s ++ t)) .symbolOrNumber (c :: buf) b =
      .token (.symbol ((c :: buf).reverse ++ s)) b (restAt (locAfter loc s) t) (itemsOf t) (locAfter loc s) := by
  induction s generalizing c buf loc with
  | nil =>
    rw [List.nil_append, finishF_end _ _ _ _ _ _ _ ht, List.append_nil]; rfl
  | cons x s ih =>
    obtain ⟨hx1, hx2⟩ := hs x (List.mem_cons_self ..)
    have hs' : ∀ y ∈ s, isDelimiter y = false ∧ y ≠ '\\' := fun y hy => hs y (List.mem_cons_of_mem _ hy)
    rw [List.cons_append, finishF_cont _ _ _ _ _ _ _ (show endsB (x :: (s ++ t)) = false from hx1), itemsOf]
    cases hp : signPct x
    · -- an ordinary character: the token is a symbol from here on
      have hdx : isAsciiDigit x = false := by
        simpa only [digitAfterSigns, List.dropWhile_cons, hp, Bool.false_eq_true, if_false] using hd
      simp only [signPct, Bool.or_eq_false_iff, beq_eq_false_iff_ne] at hp
      rw [step_son_other _ _ _ _ _ _ _ hx1 hx2 hp.2 hp.1.1 hp.1.2 hdx, restAt_eq, symbol_run s hs' t ht]
      simp only [List.reverse_cons, List.append_assoc, List.cons_append, List.nil_append, locAfter_cons]
    · have hd' : digitAfterSigns s = false := by
        simpa only [digitAfterSigns, List.dropWhile_cons, hp, if_true] using hd
      simp only [signPct, Bool.or_eq_true, beq_iff_eq] at hp
      rw [step_son_signpct _ _ _ _ _ _ _ (by rcases hp with (h | h) | h <;> simp only [h, true_or, or_true]), restAt_eq,
        ih hs' hd']
      simp only [List.reverse_cons, List.append_assoc, List.cons_append, List.nil_append, locAfter_cons]

/-- a name the reader tokenises as one symbol -/
theorem tok_symbol (c : Char) (s : List Char) (hs : ∀ x ∈ c :: s, isDelimiter x = false ∧ x ≠ '\\')
    (h1 : c ≠ '%') (h2 : isAsciiDigit c = false) (h3 : (c = '+' ∨ c = '-') → digitAfterSigns s = false)
    (t : List Char) (ht : endsB t = true) (loc : Loc) :
    nextToken (itemsOf ((c :: s) ++ t)) .eof loc =
      .token (.symbol (c :: s)) (loc.step c) (restAt (locAfter loc (c :: s)) t) (itemsOf t) (locAfter loc (c :: s)) := by
  obtain ⟨hc1, hc2⟩ := hs c (List.mem_cons_self ..)
  have hs' : ∀ y ∈ s, isDelimiter y = false ∧ y ≠ '\\' := fun y hy => hs y (List.mem_cons_of_mem _ hy)
  rw [nextToken, List.cons_append, itemsOf]
  by_cases hsign : c = '+' ∨ c = '-'
  · rw [step_ws_sign _ _ _ _ _ _ _ hsign, restAt_eq, symbolOrNumber_run s hs' (h3 hsign) t ht]
    rfl
  · rw [step_ws_other _ _ _ _ _ _ _ hc1 hc2 h1 (fun h => hsign (Or.inl h)) (fun h => hsign (Or.inr h)) h2, restAt_eq,
      symbol_run s hs' t ht]
    rfl

/-! ### the reader loop -/

theorem length_itemsOf (cs : List Char) : (itemsOf cs).length = cs.length := by
  induction cs with
  | nil => rfl
  | cons c cs ih => simp only [itemsOf, List.length_cons, ih]

theorem readInternal_ofChars (cs : List Char) (loc : Loc) :
    readInternal (.ofChars cs) loc = readLoop (cs.length + 1) (itemsOf cs) .eof loc [] false := by
  simp only [readInternal, explode_ofChars, length_itemsOf]

/-- a stack of open lists, none of them opened under a quote -/
def frames (S : List (List Val)) : List (List Val × Bool) := S.map (fun vec => (vec, false))

/-- what the reader does with a complete datum `v` when the text `t` remains: return it, or push it on the innermost
open list and go on -/
def deliver (fuel : Nat) (t : List Char) (loc : Loc) (S : List (List Val)) (v : Val) : Except ReadError (Val × Rest) :=
  match S with
  | [] => .ok (v, restAt loc t)
  | vec :: lower => readLoop fuel (itemsOf t) .eof loc (frames ((v :: vec) :: lower)) false

theorem readLoop_space (fuel : Nat) (text : List Char) (loc : Loc) (S : List (List Val × Bool)) (q : Bool) :
    readLoop fuel (itemsOf (' ' :: text)) .eof loc S q = readLoop fuel (itemsOf text) .eof (loc.step ' ') S q := by
  cases fuel with
  | zero => rfl
  | succ fuel => rw [readLoop, readLoop, nextToken_space]

theorem readLoop_open (fuel : Nat) (t : List Char) (loc : Loc) (S : List (List Val)) :
    readLoop (fuel + 1) (itemsOf ('(' :: t)) .eof loc (frames S) false =
      readLoop fuel (itemsOf t) .eof (loc.step '(') (frames ([] :: S)) false := by
  rw [readLoop, tok_open]; rfl

theorem readLoop_close (fuel : Nat) (t : List Char) (loc : Loc) (vec : List Val) (S : List (List Val)) :
    readLoop (fuel + 1) (itemsOf (')' :: t)) .eof loc (frames (vec :: S)) false =
      deliver fuel t (loc.step ')') S (Val.ofList vec.reverse) := by
  rw [readLoop, tok_close]
  cases S <;> rfl

theorem readLoop_atom (fuel : Nat) (text t : List Char) (loc L tloc : Loc) (tv : TokenValue) (x : Val)
    (h : nextToken (itemsOf (text ++ t)) .eof loc = .token tv tloc (restAt L t) (itemsOf t) L)
    (ha : tokenAtom tv tloc = some x) (S : List (List Val)) :
    readLoop (fuel + 1) (itemsOf (text ++ t)) .eof loc (frames S) false = deliver fuel t L S x := by
  rw [readLoop, h]
  cases tv <;> first | (cases ha; done) | (simp only [ha]; cases S <;> rfl)

end Pici
