/-
Helper lemmas for Props/C11c: the tokenizer state machine `nextToken` of `Model/Reader.lean` returns, on every text,
what the maximal-munch lexer `Ref.lex` of `Spec/RefReader.lean` returns (token, position, remaining text).
-/
import PiciModel.Spec.RefReader
import PiciModel.Lemmas.ReaderComplete
import PiciModel.Lemmas.Numbers

namespace Pici.RefLexer
open Pici Pici.Ref Pici.ReaderSpec

/-! ### numbers: `str::parse::<i64>` with its incremental overflow checks is `[+-]?[0-9]+` within the range -/

theorem isAsciiDigit_iff (c : Char) : isAsciiDigit c = true ↔ '0' ≤ c ∧ c ≤ '9' := by
  simp [isAsciiDigit]

theorem digitVal_digit (c : Char) (h : isAsciiDigit c = true) : digitVal c = some (c.toNat - '0'.toNat) := by
  unfold digitVal; rw [if_pos ((isAsciiDigit_iff c).1 h)]

theorem digitVal_nondigit (c : Char) (h : isAsciiDigit c = false) : digitVal c = none := by
  unfold digitVal; rw [if_neg]
  intro h'; rw [(isAsciiDigit_iff c).2 h'] at h; cases h

def toOpt {ε α : Type} : Except ε α → Option α
  | .ok a => some a
  | .error _ => none

theorem parseDigits_pos_spec (ds : List Char) : ∀ (init : Nat), init < 2 ^ 63 →
    toOpt (parseDigits true ds (init : Int)) =
      if ds.all isAsciiDigit then (if Nat.ofDigitChars 10 ds init < 2 ^ 63 then some ((Nat.ofDigitChars 10 ds init : Nat) : Int) else none)
      else none := by
  induction ds with
  | nil => intro init h; simp [parseDigits, toOpt, h]
  | cons c cs ih =>
    intro init hinit
    rw [parseDigits]
    cases hc : isAsciiDigit c with
    | false => rw [digitVal_nondigit c hc]; simp [toOpt, hc]
    | true =>
      rw [digitVal_digit c hc, Nat.ofDigitChars_cons]
      have hle := le_ofDigitChars cs (10 * init + (c.toNat - '0'.toNat))
      generalize c.toNat - '0'.toNat = d at *
      simp only [List.all_cons, hc, Bool.true_and, if_true]
      by_cases h1 : inRange ((init : Int) * 10) = true
      · by_cases h2 : inRange ((init : Int) * 10 + (d : Int)) = true
        · have e : (init : Int) * 10 + (d : Int) = ((10 * init + d : Nat) : Int) := by omega
          simp only [h1, h2, Bool.not_true, Bool.false_eq_true, if_false]
          rw [e]
          apply ih
          rw [inRange_iff] at h2; omega
        · have h2' : inRange ((init : Int) * 10 + (d : Int)) = false := by simpa using h2
          simp only [h1, h2', Bool.not_true, Bool.not_false, Bool.false_eq_true, if_false, if_true, toOpt]
          rw [inRange_eq_false_iff] at h2'
          have : ¬ Nat.ofDigitChars 10 cs (10 * init + d) < 2 ^ 63 := by omega
          simp [this]
      · have h1' : inRange ((init : Int) * 10) = false := by simpa using h1
        simp only [h1', Bool.not_false, if_true, toOpt]
        rw [inRange_eq_false_iff] at h1'
        have : ¬ Nat.ofDigitChars 10 cs (10 * init + d) < 2 ^ 63 := by omega
        simp [this]

theorem parseDigits_neg_spec (ds : List Char) : ∀ (init : Nat), init ≤ 2 ^ 63 →
    toOpt (parseDigits false ds (-(init : Int))) =
      if ds.all isAsciiDigit then (if Nat.ofDigitChars 10 ds init ≤ 2 ^ 63 then some (-((Nat.ofDigitChars 10 ds init : Nat) : Int)) else none)
      else none := by
  induction ds with
  | nil => intro init h; simp [parseDigits, toOpt, h]
  | cons c cs ih =>
    intro init hinit
    rw [parseDigits]
    cases hc : isAsciiDigit c with
    | false => rw [digitVal_nondigit c hc]; simp [toOpt, hc]
    | true =>
      rw [digitVal_digit c hc, Nat.ofDigitChars_cons]
      have hle := le_ofDigitChars cs (10 * init + (c.toNat - '0'.toNat))
      generalize c.toNat - '0'.toNat = d at *
      simp only [List.all_cons, hc, Bool.true_and]
      by_cases h1 : inRange (-(init : Int) * 10) = true
      · by_cases h2 : inRange (-(init : Int) * 10 - (d : Int)) = true
        · have e : -(init : Int) * 10 - (d : Int) = -((10 * init + d : Nat) : Int) := by omega
          simp only [h1, h2, Bool.not_true, Bool.false_eq_true, if_false]
          rw [e]
          apply ih
          rw [inRange_iff] at h2; omega
        · have h2' : inRange (-(init : Int) * 10 - (d : Int)) = false := by simpa using h2
          simp only [h1, h2', Bool.not_true, Bool.not_false, Bool.false_eq_true, if_false, if_true, toOpt]
          rw [inRange_eq_false_iff] at h2'
          have : ¬ Nat.ofDigitChars 10 cs (10 * init + d) ≤ 2 ^ 63 := by omega
          simp [this]
      · have h1' : inRange (-(init : Int) * 10) = false := by simpa using h1
        simp only [h1', Bool.not_false, if_true, toOpt]
        rw [inRange_eq_false_iff] at h1'
        have : ¬ Nat.ofDigitChars 10 cs (10 * init + d) ≤ 2 ^ 63 := by omega
        simp [this]

theorem digitsValue_cons (c : Char) (cs : List Char) :
    digitsValue (c :: cs) = if (c :: cs).all isAsciiDigit then some (Nat.ofDigitChars 10 (c :: cs) 0) else none := by
  simp [digitsValue]

/-- `buildNumber` succeeds exactly on `[+-]?[0-9]+` within the 64-bit range, with that value -/
theorem parseI64_spec (s : List Char) : toOpt (parseI64 s) = intOf s := by
  cases s with
  | nil => rfl
  | cons c cs =>
    cases cs with
    | nil =>
      by_cases h1 : c = '-'
      · subst h1; rfl
      · by_cases h2 : c = '+'
        · subst h2; rfl
        · rw [parseI64_other _ _ h2 h1]
          have := parseDigits_pos_spec [c] 0 (by decide)
          simp only [Int.natCast_zero] at this
          rw [this, intOf, if_neg h1, if_neg h2, digitsValue_cons]
          by_cases hd : ([c].all isAsciiDigit) = true
          · simp only [hd, if_true, Option.bind_some]
          · simp only [hd, Bool.false_eq_true, if_false, Option.bind_none]
    | cons d ds =>
      by_cases h1 : c = '-'
      · subst h1
        rw [parseI64_minus]
        have := parseDigits_neg_spec (d :: ds) 0 (by decide)
        simp only [Int.natCast_zero, Int.neg_zero] at this
        rw [this, intOf, if_pos rfl, digitsValue_cons]
        by_cases hd : ((d :: ds).all isAsciiDigit) = true
        · simp only [hd, if_true, Option.bind_some]
        · simp only [hd, Bool.false_eq_true, if_false, Option.bind_none]
      · by_cases h2 : c = '+'
        · subst h2
          rw [parseI64_plus]
          have := parseDigits_pos_spec (d :: ds) 0 (by decide)
          simp only [Int.natCast_zero] at this
          rw [this, intOf, if_neg h1, if_pos rfl, digitsValue_cons]
          by_cases hd : ((d :: ds).all isAsciiDigit) = true
          · simp only [hd, if_true, Option.bind_some]
          · simp only [hd, Bool.false_eq_true, if_false, Option.bind_none]
        · rw [parseI64_other _ _ h2 h1]
          have := parseDigits_pos_spec (c :: d :: ds) 0 (by decide)
          simp only [Int.natCast_zero] at this
          rw [this, intOf, if_neg h1, if_neg h2, digitsValue_cons]
          by_cases hd : ((c :: d :: ds).all isAsciiDigit) = true
          · simp only [hd, if_true, Option.bind_some]
          · simp only [hd, Bool.false_eq_true, if_false, Option.bind_none]

/-! ### positions: a model location `⟨_, line, k⟩` (k characters consumed on the line) is the position `(line, k + 1)` of the next character -/

def posOf (l : Loc) : Pos := ⟨l.line, l.col + 1⟩

theorem posOf_step (l : Loc) (c : Char) : posOf (l.step c) = (posOf l).adv c := by
  unfold Loc.step Pos.adv posOf
  by_cases h : c = '\n'
  · rw [if_pos h, if_pos h]; rfl
  · rw [if_neg h, if_neg h]; rfl

def advance (loc : Loc) (cs : List Char) : Loc := cs.foldl Loc.step loc

theorem advance_cons (loc : Loc) (c : Char) (cs : List Char) : advance loc (c :: cs) = advance (loc.step c) cs := rfl
theorem advance_nil (loc : Loc) : advance loc [] = loc := rfl
theorem advance_append (loc : Loc) (a b : List Char) : advance loc (a ++ b) = advance (advance loc a) b := by
  unfold advance; rw [List.foldl_append]

theorem advs_cons (p : Pos) (c : Char) (cs : List Char) : p.advs (c :: cs) = (p.adv c).advs cs := rfl
theorem advs_append (p : Pos) (a b : List Char) : p.advs (a ++ b) = (p.advs a).advs b := by
  unfold Pos.advs; rw [List.foldl_append]

theorem posOf_advance (cs : List Char) : ∀ (l : Loc), posOf (advance l cs) = (posOf l).advs cs := by
  induction cs with
  | nil => intro l; rfl
  | cons c cs ih => intro l; rw [advance_cons, ih, posOf_step]; rfl

/-- the location after a character that is not a newline, against the position of that character -/
theorem step_at (l : Loc) (c : Char) (h : c ≠ '\n') : (l.step c).line = (posOf l).line ∧ (l.step c).col = (posOf l).col := by
  unfold Loc.step; rw [if_neg h]; exact ⟨rfl, rfl⟩

def restAt (loc : Loc) (r : List Char) : Rest := ⟨.ofChars r, loc.line, loc.col + 1⟩

/-! ### the conformance relation at token level -/

def tokOf : TokenValue → Tok
  | .openParen => .open
  | .closeParen => .close
  | .quote => .quote
  | .character c => .chr c
  | .number n => .num n
  | .symbol s => .sym s
  | .string s => .str s

/-- the state machine and the lexer say the same: same status; an error at the same line and column; a token of the
same kind and value, at the same line and column, leaving the same text at the same position -/
def LexConf (out : TokOut) (lx : Lexed) : Prop :=
  match out, lx with
  | .done, .eof => True
  | .err .incomplete, .incomplete => True
  | .err (.error _ el _), .error p => el.line = p.line ∧ el.col = p.col
  | .token v tl rest rem nl, .tok t p r a =>
    tokOf v = t ∧ tl.line = p.line ∧ tl.col = p.col ∧ rem = items r ∧ rest = restAt nl r ∧ posOf nl = a
  | _, _ => False

/-! ### blank text -/

def blankStatus (inComment : Bool) : TokStatus := if inComment then .comment else .whiteSpace

/-- skipping blanks: the state machine goes on, in the whitespace state, where `skipBlank` stops -/
theorem tokLoop_skip (cs : List Char) : ∀ (inC : Bool) (loc g : Loc),
    ∃ loc', posOf loc' = (skipBlank inC cs (posOf loc)).2 ∧
      tokLoop (items cs) .eof loc (blankStatus inC) [] g =
        tokLoop (items (skipBlank inC cs (posOf loc)).1) .eof loc' .whiteSpace [] g := by
  induction cs with
  | nil =>
    intro inC loc g
    refine ⟨loc, by cases inC <;> rfl, ?_⟩
    cases inC <;> simp [skipBlank, ReaderSpec.items, tokLoop_nil, blankStatus]
  | cons c cs ih =>
    intro inC loc g
    cases inC with
    | true =>
      rw [items_cons, tokLoop_cons, blankStatus, if_pos rfl, act_comment, skipBlank, ← posOf_step]
      simp only [runAct]
      obtain ⟨loc', h1, h2⟩ := ih (c != '\n') (loc.step c) g
      refine ⟨loc', h1, ?_⟩
      rw [← h2]
      by_cases hn : c = '\n'
      · subst hn; rfl
      · rw [if_neg hn]
        have : (c != '\n') = true := by simpa using hn
        rw [this]; rfl
    | false =>
      rw [blankStatus, if_neg (by decide)]
      by_cases hsc : c = ';'
      · subst hsc
        rw [items_cons, tokLoop_cons, act_ws_semicolon, skipBlank, if_pos rfl, ← posOf_step]
        simp only [runAct, finishF_nil]
        exact ih true _ g
      · by_cases hb : (isWhitespace c || c == ',') = true
        · rw [items_cons, tokLoop_cons, act_ws_blank _ _ _ hb, skipBlank, if_neg hsc, if_pos (by simpa using hb), ← posOf_step]
          simp only [runAct, finishF_nil]
          exact ih false _ g
        · rw [skipBlank, if_neg hsc, if_neg (by simpa using hb)]
          exact ⟨loc, rfl, rfl⟩

/-! ### string literals -/

/-- `lexString` after a backslash (`p`: the position of the escape character) -/
def lexEscape (start : Pos) (cs : List Char) (p : Pos) (out : List Char) : Lexed :=
  match cs with
  | [] => .incomplete
  | e :: cs' =>
    match unescape e with
    | some x => lexString start cs' (p.adv e) (x :: out)
    | none   => .error p

/-- `escNewline` after a backslash -/
def escNewlineE (cs : List Char) : Bool :=
  match cs with
  | [] => false
  | e :: cs' => e = '\n' || ((unescape e).isSome && escNewline cs')

theorem lexString_quote (start : Pos) (cs : List Char) (p : Pos) (out : List Char) :
    lexString start ('"' :: cs) p out = .tok (.str out.reverse) start cs (p.adv '"') := by
  rw [lexString.eq_def]; simp only [if_pos]

theorem lexString_bs (start : Pos) (cs : List Char) (p : Pos) (out : List Char) :
    lexString start ('\\' :: cs) p out = lexEscape start cs (p.adv '\\') out := by
  rw [lexString.eq_def]; simp only [show ¬ ('\\' = '"') by decide, if_false, if_true]
  cases cs <;> rfl

theorem lexString_plain (start : Pos) (c : Char) (cs : List Char) (p : Pos) (out : List Char) (h1 : c ≠ '"') (h2 : c ≠ '\\') :
    lexString start (c :: cs) p out = lexString start cs (p.adv c) (c :: out) := by
  rw [lexString.eq_def]; simp only [if_neg h1, if_neg h2]

theorem escNewline_bs (cs : List Char) : escNewline ('\\' :: cs) = escNewlineE cs := by
  rw [escNewline.eq_def]; simp only [show ¬ ('\\' = '"') by decide, if_false, if_true]
  cases cs <;> rfl

theorem escNewline_plain (c : Char) (cs : List Char) (h1 : c ≠ '"') (h2 : c ≠ '\\') : escNewline (c :: cs) = escNewline cs := by
  rw [escNewline.eq_def]; simp only [if_neg h1, if_neg h2]

theorem act_string_plain (c : Char) (l : Loc) (b : List Char) (g : Loc) (h1 : c ≠ '"') (h2 : c ≠ '\\') :
    act c l .stringNormal b g = .go .stringNormal (c :: b) g := by
  unfold act
  rw [if_neg (by decide), if_pos (by simp [h1, h2])]

theorem act_string_bs (l : Loc) (b : List Char) (g : Loc) : act '\\' l .stringNormal b g = .fin .stringEscape b g := rfl

theorem act_escape (e : Char) (l : Loc) (b : List Char) (g : Loc) :
    act e l .stringEscape b g =
      match unescape e with
      | some x => .go .stringNormal (x :: b) g
      | none => .bad (msgEscape e) := by
  unfold act unescape
  rw [if_neg (by decide), if_neg (by simp), if_pos (by decide)]
  by_cases h1 : e = '"'
  · simp [h1]
  · by_cases h2 : e = 'n'
    · simp [h2]
    · by_cases h3 : e = 'r'
      · simp [h3]
      · by_cases h4 : e = 't'
        · simp [h4]
        · by_cases h5 : e = '\\'
          · simp [h5]
          · simp [h1, h2, h3, h4, h5]

theorem tokLoop_string (start : Pos) (g : Loc) (hg : g.line = start.line ∧ g.col = start.col) (cs : List Char) :
    ∀ (loc : Loc) (buf : List Char),
      (escNewline cs = false → LexConf (tokLoop (items cs) .eof loc .stringNormal buf g) (lexString start cs (posOf loc) buf)) ∧
      (escNewlineE cs = false → LexConf (tokLoop (items cs) .eof loc .stringEscape buf g) (lexEscape start cs (posOf loc) buf)) := by
  induction cs with
  | nil =>
    intro loc buf
    constructor <;> intro _ <;> rw [ReaderSpec.items, tokLoop_nil] <;> simp [lexString, lexEscape, LexConf]
  | cons c cs ih =>
    intro loc buf
    constructor
    · intro hesc
      rw [items_cons, tokLoop_cons]
      by_cases h1 : c = '"'
      · subst h1
        rw [act_sN_dquote, lexString_quote]
        simp only [runAct, LexConf, tokOf, posOf_step]
        exact ⟨trivial, hg.1, hg.2, trivial, rfl, trivial⟩
      · by_cases h2 : c = '\\'
        · subst h2
          rw [act_string_bs, lexString_bs, ← posOf_step]
          simp only [runAct]
          rw [finishF_string _ _ _ _ _ _ (fun _ _ => rfl)]
          rw [escNewline_bs] at hesc
          exact (ih _ _).2 hesc
        · rw [act_string_plain _ _ _ _ h1 h2, lexString_plain _ _ _ _ _ h1 h2, ← posOf_step]
          rw [escNewline_plain _ _ h1 h2] at hesc
          exact (ih _ _).1 hesc
    · intro hesc
      rw [items_cons, tokLoop_cons, act_escape]
      simp only [escNewlineE, Bool.or_eq_false_iff, decide_eq_false_iff_not] at hesc
      unfold lexEscape
      cases hu : unescape c with
      | none =>
        simp only [runAct, LexConf, hu]
        exact step_at loc c hesc.1
      | some x =>
        simp only [runAct, hu]
        rw [← posOf_step]
        rw [hu] at hesc
        exact (ih _ _).1 (by simpa using hesc.2)

/-! ### the last character of a run -/

theorem nonDelim_ne_newline {c : Char} (h : nonDelim c = true) : c ≠ '\n' := by
  rintro rfl; revert h; decide

theorem nonDelim_iff (c : Char) : nonDelim c = true ↔ isDelimiter c = false := by simp [nonDelim]

theorem nd_eq (cs : List Char) : nd cs = match cs with | c :: _ => nonDelim c | [] => false := by
  cases cs <;> rfl

/-- the location after a piece of text whose last character is not a newline, against the position of that character -/
theorem last_pos (loc : Loc) (s : List Char) (hs : s ≠ []) (hl : s.getLast hs ≠ '\n') :
    (advance loc s).line = ((posOf loc).advs s.dropLast).line ∧ (advance loc s).col = ((posOf loc).advs s.dropLast).col := by
  have h := List.dropLast_concat_getLast hs
  have : advance loc s = (advance loc s.dropLast).step (s.getLast hs) := by
    conv => lhs; rw [← h]
    rw [advance_append]; rfl
  rw [this, ← posOf_advance]
  exact step_at _ _ hl

theorem takeWhile_nonDelim_last (c : Char) (cs : List Char) (h : cs.takeWhile nonDelim ≠ []) :
    (c :: cs.takeWhile nonDelim).getLast (by simp) ≠ '\n' := by
  rw [List.getLast_cons h]
  have hall : (cs.takeWhile nonDelim).all nonDelim = true := List.all_takeWhile
  rw [List.all_eq_true] at hall
  exact nonDelim_ne_newline (hall _ (List.getLast_mem h))

/-! ### character literals -/

theorem act_char_first (c : Char) (l : Loc) (g : Loc) : act c l .character [] g = .fin .character [c] g := by
  unfold act
  rw [if_neg (by decide), if_neg (by simp), if_neg (by decide), if_pos (by simp)]

theorem act_char_more (c : Char) (l : Loc) (b : List Char) (g : Loc) (h : isDelimiter c = false) (hb : b ≠ []) :
    act c l .character b g = .fin .character (c :: b) g := by
  have := act_character_stuck c l b g h hb
  cases ha : act c l .character b g <;> rw [ha] at this <;> simp only [Act.sat] at this
  obtain ⟨rfl, rfl, rfl⟩ := this
  rfl

/-- a character literal in progress runs on to the next delimiter -/
theorem finishF_char_run (g : Loc) (cs : List Char) : ∀ (loc : Loc) (buf : List Char), buf ≠ [] →
    finishF (items cs) .eof loc (restAt loc cs) .character buf g =
      endF (items (cs.dropWhile nonDelim)) (advance loc (cs.takeWhile nonDelim))
        (restAt (advance loc (cs.takeWhile nonDelim)) (cs.dropWhile nonDelim))
        .character ((cs.takeWhile nonDelim).reverse ++ buf) g := by
  induction cs with
  | nil => intro loc buf hb; rw [finishF_end _ _ _ _ _ _ hb rfl]; rfl
  | cons d cs ih =>
    intro loc buf hb
    by_cases hd : nonDelim d = true
    · have hd' : isDelimiter d = false := (nonDelim_iff d).1 hd
      rw [finishF_nd _ _ _ _ _ _ (by rw [nd_cons, hd']; rfl), items_cons, tokLoop_cons, act_char_more _ _ _ _ hd' hb]
      simp only [runAct, List.takeWhile_cons, List.dropWhile_cons, hd, if_true]
      have := ih (loc.step d) (d :: buf) (by simp)
      unfold restAt at this ⊢
      rw [this, advance_cons]
      simp
    · have hd' : isDelimiter d = true := by simpa [nonDelim] using hd
      rw [finishF_end _ _ _ _ _ _ hb (by rw [nd_cons, hd']; rfl)]
      simp [hd, advance_nil]

theorem charOf_single (c : Char) : charOf [c] = some c := by
  simp [charOf]

theorem buildCharacter_spec (body : List Char) (h : body ≠ []) :
    buildCharacter body = match charOf body with
      | some x => .ok x
      | none => .error (cs!"invalid character: '%" ++ body ++ cs!"'") := by
  unfold buildCharacter charOf
  rw [if_neg h]
  by_cases h1 : body = cs!"\\n"
  · rw [if_pos h1, if_pos h1]
  · rw [if_neg h1, if_neg h1]
    by_cases h2 : body = cs!"\\t"
    · rw [if_pos h2, if_pos h2]
    · rw [if_neg h2, if_neg h2]
      by_cases h3 : body = cs!"\\s"
      · rw [if_pos h3, if_pos h3]
      · rw [if_neg h3, if_neg h3]
        by_cases h4 : body = cs!"\\r"
        · rw [if_pos h4, if_pos h4]
        · rw [if_neg h4, if_neg h4]
          by_cases h5 : body = cs!"\\\\"
          · rw [if_pos h5, if_pos h5]
          · rw [if_neg h5, if_neg h5]
            match body, h with
            | [c], _ => rfl
            | _ :: _ :: _, _ => rfl

theorem tokLoop_char (start : Pos) (g : Loc) (hg : g.line = start.line ∧ g.col = start.col) (cs : List Char) (loc : Loc) :
    LexConf (tokLoop (items cs) .eof loc .character [] g) (lexChar start cs (posOf loc)) := by
  cases cs with
  | nil => rw [ReaderSpec.items, tokLoop_nil]; simp [lexChar, LexConf]
  | cons c cs =>
    rw [items_cons, tokLoop_cons, act_char_first]
    simp only [runAct]
    have := finishF_char_run g cs (loc.step c) [c] (by simp)
    unfold restAt at this
    rw [this]
    unfold endF lexChar
    simp only [List.reverse_append, List.reverse_cons, List.reverse_nil, List.nil_append, List.reverse_reverse, List.cons_append]
    rw [buildCharacter_spec _ (by simp)]
    cases hc : charOf (c :: cs.takeWhile nonDelim) with
    | some x =>
      simp only [LexConf, tokOf]
      refine ⟨trivial, hg.1, hg.2, trivial, rfl, ?_⟩
      rw [posOf_advance, posOf_step]; rfl
    | none =>
      simp only [LexConf]
      have hne : cs.takeWhile nonDelim ≠ [] := by
        intro h; rw [h, charOf_single] at hc; cases hc
      have := last_pos loc (c :: cs.takeWhile nonDelim) (by simp) (takeWhile_nonDelim_last c cs hne)
      rw [advance_cons] at this
      exact this

/-! ### atoms: numbers and symbols -/

def numberish (c : Char) : Bool := isAsciiDigit c || signish c

/-- the state of the machine inside an atom, one character on -/
def δ (s : TokStatus) (c : Char) : TokStatus :=
  match s with
  | .whiteSpace => if c = '+' ∨ c = '-' then .symbolOrNumber else if isAsciiDigit c then .number else .symbol
  | .symbolOrNumber => if signish c then .symbolOrNumber else if isAsciiDigit c then .number else .symbol
  | s => s

def cls (pre : List Char) : TokStatus := pre.foldl δ .whiteSpace

theorem delim_facts {c : Char} (h : isDelimiter c = false) :
    c ≠ ';' ∧ c ≠ '(' ∧ c ≠ ')' ∧ c ≠ '"' ∧ c ≠ '\'' ∧ c ≠ ',' ∧ isWhitespace c = false := by
  simp only [isDelimiter, Bool.or_eq_false_iff, beq_eq_false_iff_ne, ne_eq] at h
  obtain ⟨⟨⟨⟨⟨⟨a, b⟩, c'⟩, d⟩, e⟩, f⟩, g⟩ := h
  exact ⟨a, b, c', d, e, f, g⟩

theorem digit_not_sign {c : Char} (h : isAsciiDigit c = true) : c ≠ '+' ∧ c ≠ '-' ∧ c ≠ '%' ∧ c ≠ '\\' := by
  refine ⟨?_, ?_, ?_, ?_⟩ <;> (rintro rfl; revert h; decide)

theorem act_atom_first (c : Char) (l g : Loc) (h : isDelimiter c = false) (h1 : c ≠ '\\') (h2 : c ≠ '%') :
    act c l .whiteSpace [] g = .fin (δ .whiteSpace c) [c] l := by
  obtain ⟨d1, d2, d3, d4, d5, d6, d7⟩ := delim_facts h
  unfold act δ
  by_cases hs : c = '+' ∨ c = '-'
  · rcases hs with rfl | rfl <;> rfl
  · have hs' := hs
    rw [not_or] at hs'
    by_cases hd : isAsciiDigit c = true
    · simp [*]
    · simp [*]

theorem act_atom_bs (l g : Loc) (s : TokStatus) (b : List Char)
    (hs : s = .whiteSpace ∨ s = .symbolOrNumber ∨ s = .number ∨ s = .symbol) :
    act '\\' l s b g = .bad msgBackslash := by
  rcases hs with rfl | rfl | rfl | rfl <;> rfl

theorem act_atom_more (c : Char) (l g : Loc) (s : TokStatus) (b : List Char)
    (hs : s = .symbolOrNumber ∨ s = .number ∨ s = .symbol) (h : isDelimiter c = false) (h1 : c ≠ '\\') :
    act c l s b g = if s = .number ∧ numberish c = false then .bad (msgNumber c) else .fin (δ s c) (c :: b) g := by
  obtain ⟨d1, d2, d3, d4, d5, d6, d7⟩ := delim_facts h
  unfold act δ numberish signish
  by_cases hp : c = '%'
  · subst hp; rcases hs with rfl | rfl | rfl <;> rfl
  · by_cases hs1 : c = '+'
    · subst hs1; rcases hs with rfl | rfl | rfl <;> rfl
    · by_cases hs2 : c = '-'
      · subst hs2; rcases hs with rfl | rfl | rfl <;> rfl
      · by_cases hd : isAsciiDigit c = true
        · rcases hs with rfl | rfl | rfl <;> simp [*]
        · rcases hs with rfl | rfl | rfl <;> simp [*]

theorem foldl_δ_number (cs : List Char) : cs.foldl δ .number = .number := by
  induction cs with
  | nil => rfl
  | cons c cs ih => exact ih

theorem foldl_δ_symbol (cs : List Char) : cs.foldl δ .symbol = .symbol := by
  induction cs with
  | nil => rfl
  | cons c cs ih => exact ih

theorem foldl_δ_son (cs : List Char) :
    (cs.foldl δ .symbolOrNumber = .number ↔ ((cs.dropWhile signish).head?.any isAsciiDigit) = true) ∧
    (cs.foldl δ .symbolOrNumber = .number ∨ cs.foldl δ .symbolOrNumber = .symbol ∨ cs.foldl δ .symbolOrNumber = .symbolOrNumber) := by
  induction cs with
  | nil => simp
  | cons c cs ih =>
    rw [List.foldl_cons, List.dropWhile_cons]
    by_cases hs : signish c = true
    · simp only [δ, hs, if_true]; exact ih
    · by_cases hd : isAsciiDigit c = true
      · simp [δ, hs, hd, foldl_δ_number]
      · simp [δ, hs, hd, foldl_δ_symbol]

/-- the machine is in the number state exactly when the run so far matches `[0-9].*|[+-][+\-%]*[0-9].*` -/
theorem committed_iff (pre : List Char) : committed pre = true ↔ cls pre = .number := by
  cases pre with
  | nil => simp [committed, cls]
  | cons c cs =>
    unfold cls
    rw [List.foldl_cons, committed]
    by_cases hs : c = '+' ∨ c = '-'
    · have hd : isAsciiDigit c = false := by rcases hs with rfl | rfl <;> decide
      have : δ .whiteSpace c = .symbolOrNumber := by simp [δ, hs]
      rw [this, (foldl_δ_son cs).1]
      simp [hd, hs]
    · by_cases hd : isAsciiDigit c = true
      · have : δ .whiteSpace c = .number := by simp [δ, hs, hd]
        rw [this, foldl_δ_number]; simp [hd]
      · have : δ .whiteSpace c = .symbol := by simp [δ, hs, hd]
        rw [this, foldl_δ_symbol]
        rw [not_or] at hs
        simp [hd, hs]

theorem cls_atom (pre : List Char) (h : pre ≠ []) : cls pre = .symbolOrNumber ∨ cls pre = .number ∨ cls pre = .symbol := by
  cases pre with
  | nil => exact absurd rfl h
  | cons c cs =>
    unfold cls
    rw [List.foldl_cons]
    by_cases hs : c = '+' ∨ c = '-'
    · have : δ .whiteSpace c = .symbolOrNumber := by simp [δ, hs]
      rw [this]
      rcases (foldl_δ_son cs).2 with h | h | h
      · exact .inr (.inl h)
      · exact .inr (.inr h)
      · exact .inl h
    · by_cases hd : isAsciiDigit c = true
      · have : δ .whiteSpace c = .number := by simp [δ, hs, hd]
        rw [this, foldl_δ_number]; exact .inr (.inl rfl)
      · have : δ .whiteSpace c = .symbol := by simp [δ, hs, hd]
        rw [this, foldl_δ_symbol]; exact .inr (.inr rfl)

theorem cls_snoc (pre : List Char) (c : Char) : cls (pre ++ [c]) = δ (cls pre) c := by
  unfold cls; rw [List.foldl_append]; rfl

/-- an error of the state machine at a given line and column -/
def ErrAt (out : TokOut) (p : Pos) : Prop := ∃ m el rest, out = .err (.error m el rest) ∧ el.line = p.line ∧ el.col = p.col

/-- an atom in progress: the run goes on to the next delimiter unless a character can not be there -/
theorem finishF_atom_run (g : Loc) (r : List Char) (hr : nd r = false) (todo : List Char) :
    ∀ (pre : List Char) (loc : Loc), pre ≠ [] → (∀ x ∈ todo, nonDelim x = true) →
    match firstBad pre todo (posOf loc) with
    | some e => ErrAt (finishF (items (todo ++ r)) .eof loc (restAt loc (todo ++ r)) (cls pre) pre.reverse g) e
    | none => finishF (items (todo ++ r)) .eof loc (restAt loc (todo ++ r)) (cls pre) pre.reverse g =
        endF (items r) (advance loc todo) (restAt (advance loc todo) r) (cls (pre ++ todo)) (pre ++ todo).reverse g := by
  induction todo with
  | nil =>
    intro pre loc hpre _
    simp only [firstBad, List.nil_append, List.append_nil, advance_nil]
    exact finishF_end _ _ _ _ _ _ (by simpa using hpre) hr
  | cons c todo ih =>
    intro pre loc hpre hall
    have hc : isDelimiter c = false := (nonDelim_iff c).1 (hall c (List.mem_cons_self ..))
    have hnl : c ≠ '\n' := nonDelim_ne_newline (hall c (List.mem_cons_self ..))
    have hatom := cls_atom pre hpre
    rw [List.cons_append, finishF_nd _ _ _ _ _ _ (by rw [nd_cons, hc]; rfl), items_cons, tokLoop_cons, firstBad]
    have hstep : ∀ (hact : act c (loc.step c) (cls pre) pre.reverse g = .fin (δ (cls pre) c) (c :: pre.reverse) g),
        match firstBad (pre ++ [c]) todo ((posOf loc).adv c) with
        | some e => ErrAt (runAct (items (todo ++ r)) .eof (loc.step c) ⟨.ofChars (todo ++ r), (loc.step c).line, (loc.step c).col + 1⟩
              (act c (loc.step c) (cls pre) pre.reverse g)) e
        | none => runAct (items (todo ++ r)) .eof (loc.step c) ⟨.ofChars (todo ++ r), (loc.step c).line, (loc.step c).col + 1⟩
              (act c (loc.step c) (cls pre) pre.reverse g) =
            endF (items r) (advance loc (c :: todo)) (restAt (advance loc (c :: todo)) r) (cls (pre ++ c :: todo)) (pre ++ c :: todo).reverse g := by
      intro hact
      rw [hact]
      have := ih (pre ++ [c]) (loc.step c) (by simp) (fun x hx => hall x (List.mem_cons_of_mem _ hx))
      rw [posOf_step, cls_snoc, List.reverse_append, List.append_assoc] at this
      exact this
    by_cases hbs : c = '\\'
    · subst hbs
      rw [if_pos rfl, act_atom_bs _ _ _ _ (.inr hatom)]
      exact ⟨_, _, _, rfl, step_at loc _ hnl⟩
    · rw [if_neg hbs]
      have hact := act_atom_more c (loc.step c) g (cls pre) pre.reverse hatom hc hbs
      by_cases hcm : committed pre = true
      · have hnum := (committed_iff pre).1 hcm
        by_cases hn : numberish c = true
        · have hb : (committed pre && !(isAsciiDigit c || signish c)) = false := by
            unfold numberish at hn; simp [hn]
          rw [if_neg (by simp [hn])] at hact
          rw [hb]
          exact hstep hact
        · have hn' : numberish c = false := by simpa using hn
          have hb : (committed pre && !(isAsciiDigit c || signish c)) = true := by
            unfold numberish at hn'; simp [hn', hcm]
          rw [if_pos ⟨hnum, hn'⟩] at hact
          rw [hb, hact]
          exact ⟨_, _, _, rfl, step_at loc _ hnl⟩
      · have hnum : cls pre ≠ .number := fun h => hcm ((committed_iff pre).2 h)
        have hb : (committed pre && !(isAsciiDigit c || signish c)) = false := by simp [hcm]
        rw [if_neg (fun h => hnum h.1)] at hact
        rw [hb]
        exact hstep hact

theorem nd_dropWhile (cs : List Char) : nd (cs.dropWhile nonDelim) = false := by
  induction cs with
  | nil => rfl
  | cons d cs ih =>
    rw [List.dropWhile_cons]
    by_cases hd : nonDelim d = true
    · rw [if_pos hd]; exact ih
    · rw [if_neg hd, nd_cons]
      simpa [nonDelim] using hd

theorem run_last (c : Char) (cs : List Char) (hc : nonDelim c = true) :
    (c :: cs.takeWhile nonDelim).getLast (by simp) ≠ '\n' := by
  by_cases h : cs.takeWhile nonDelim = []
  · simp only [h, List.getLast_singleton]; exact nonDelim_ne_newline hc
  · exact takeWhile_nonDelim_last c cs h

theorem buildNumber_spec (s : List Char) :
    match intOf s with
    | some n => buildNumber s = .ok n
    | none => ∃ m, buildNumber s = .error m := by
  have := parseI64_spec s
  unfold buildNumber
  cases hp : parseI64 s with
  | ok n => rw [hp] at this; rw [← this]; rfl
  | error e => rw [hp] at this; rw [← this]; exact ⟨_, rfl⟩

theorem tokLoop_atom (c : Char) (rest : List Char) (loc g : Loc) (hc : isDelimiter c = false) (h2 : c ≠ '%') :
    LexConf (tokLoop (items (c :: rest)) .eof loc .whiteSpace [] g) (lexAtom (c :: rest) (posOf loc)) := by
  have hnd : nonDelim c = true := (nonDelim_iff c).2 hc
  have hnl : c ≠ '\n' := nonDelim_ne_newline hnd
  have hat := step_at loc c hnl
  rw [items_cons, tokLoop_cons]
  unfold lexAtom
  simp only [List.takeWhile_cons, List.dropWhile_cons, hnd, if_true]
  rw [firstBad]
  by_cases hbs : c = '\\'
  · subst hbs
    rw [act_atom_bs _ _ _ _ (.inl rfl), if_pos rfl]
    exact hat
  · rw [if_neg hbs, act_atom_first c _ g hc hbs h2]
    simp only [runAct, show committed [] = false from rfl, Bool.false_and, Bool.false_eq_true, if_false, List.nil_append]
    have hrun := finishF_atom_run (loc.step c) (rest.dropWhile nonDelim) (nd_dropWhile rest) (rest.takeWhile nonDelim)
      [c] (loc.step c) (by simp) (fun x hx => by
        have hall : (rest.takeWhile nonDelim).all nonDelim = true := List.all_takeWhile
        rw [List.all_eq_true] at hall
        exact hall x hx)
    rw [List.takeWhile_append_dropWhile, posOf_step] at hrun
    have hcls : cls [c] = δ .whiteSpace c := rfl
    rw [hcls] at hrun
    unfold restAt at hrun
    simp only [List.reverse_cons, List.reverse_nil, List.nil_append] at hrun
    cases hfb : firstBad [c] (rest.takeWhile nonDelim) ((posOf loc).adv c) with
    | some e =>
      rw [hfb] at hrun
      obtain ⟨m, el, rs, h1, h2, h3⟩ := hrun
      rw [h1]
      exact ⟨h2, h3⟩
    | none =>
      rw [hfb] at hrun
      simp only at hrun ⊢
      rw [hrun]
      have hpos : posOf (advance (loc.step c) (rest.takeWhile nonDelim)) = (posOf loc).advs (c :: rest.takeWhile nonDelim) := by
        rw [posOf_advance, posOf_step]; rfl
      have hrr : ([c] ++ rest.takeWhile nonDelim) = c :: rest.takeWhile nonDelim := rfl
      rw [hrr]
      by_cases hcm : committed (c :: rest.takeWhile nonDelim) = true
      · rw [(committed_iff _).1 hcm, if_pos hcm]
        unfold endF
        simp only [List.reverse_reverse]
        have hb := buildNumber_spec (c :: rest.takeWhile nonDelim)
        cases hi : intOf (c :: rest.takeWhile nonDelim) with
        | some n =>
          rw [hi] at hb
          simp only [hb, LexConf, tokOf]
          exact ⟨trivial, hat.1, hat.2, trivial, rfl, hpos⟩
        | none =>
          rw [hi] at hb
          obtain ⟨m, hm⟩ := hb
          simp only [hm, LexConf]
          have := last_pos loc (c :: rest.takeWhile nonDelim) (by simp) (run_last c rest hnd)
          rw [advance_cons] at this
          exact this
      · have hcm' : committed (c :: rest.takeWhile nonDelim) = false := by simpa using hcm
        rw [hcm']
        simp only [Bool.false_eq_true, if_false]
        have hne : cls (c :: rest.takeWhile nonDelim) ≠ .number := fun h => hcm ((committed_iff _).2 h)
        rcases cls_atom (c :: rest.takeWhile nonDelim) (by simp) with h | h | h
        · rw [h]; unfold endF
          simp only [List.reverse_reverse, LexConf, tokOf]
          exact ⟨trivial, hat.1, hat.2, trivial, rfl, hpos⟩
        · exact absurd h hne
        · rw [h]; unfold endF
          simp only [List.reverse_reverse, LexConf, tokOf]
          exact ⟨trivial, hat.1, hat.2, trivial, rfl, hpos⟩

/-! ### the next token -/

theorem skipBlank_fst (cs : List Char) : ∀ (inC : Bool) (p q : Pos), (skipBlank inC cs p).1 = (skipBlank inC cs q).1 := by
  induction cs with
  | nil => intro inC p q; cases inC <;> rfl
  | cons c cs ih =>
    intro inC p q
    cases inC with
    | true => rw [skipBlank, skipBlank]; exact ih _ _ _
    | false =>
      rw [skipBlank, skipBlank]
      by_cases h1 : c = ';'
      · rw [if_pos h1, if_pos h1]; exact ih _ _ _
      · rw [if_neg h1, if_neg h1]
        by_cases h2 : (isWhitespace c || decide (c = ',')) = true
        · rw [if_pos h2, if_pos h2]; exact ih _ _ _
        · rw [if_neg h2, if_neg h2]

theorem skipBlank_head (cs : List Char) : ∀ (inC : Bool) (p : Pos) (c : Char) (cs' : List Char),
    (skipBlank inC cs p).1 = c :: cs' → c ≠ ';' ∧ isWhitespace c = false ∧ c ≠ ',' := by
  induction cs with
  | nil => intro inC p c cs' h; cases inC <;> cases h
  | cons d cs ih =>
    intro inC p c cs' h
    cases inC with
    | true => rw [skipBlank] at h; exact ih _ _ _ _ h
    | false =>
      rw [skipBlank] at h
      by_cases h1 : d = ';'
      · rw [if_pos h1] at h; exact ih _ _ _ _ h
      · rw [if_neg h1] at h
        by_cases h2 : (isWhitespace d || decide (d = ',')) = true
        · rw [if_pos h2] at h; exact ih _ _ _ _ h
        · rw [if_neg h2] at h
          injection h with h3 h4
          subst h3
          simp only [Bool.or_eq_true, decide_eq_true_eq, not_or, Bool.not_eq_true] at h2
          exact ⟨h1, h2.1, h2.2⟩

/-- token level: on every text the state machine `nextToken` returns what the lexer returns — the same status, the
same token at the same position, the same remaining text at the same position, an error at the same position —
unless the next token is a string literal with a backslash-newline (F25) -/
theorem lexer_conforms (cs : List Char) (loc : Loc) (hok : nextTokenOk cs = true) :
    LexConf (nextToken (items cs) .eof loc) (lex cs (posOf loc)) := by
  unfold nextToken
  obtain ⟨loc', h1, h2⟩ := tokLoop_skip cs false loc loc
  have hbs : blankStatus false = .whiteSpace := rfl
  rw [hbs] at h2
  rw [h2]
  unfold lex
  unfold nextTokenOk at hok
  rw [skipBlank_fst cs false ⟨1, 1⟩ (posOf loc)] at hok
  rcases hsb : skipBlank false cs (posOf loc) with ⟨l, p'⟩
  rw [hsb] at h1 hok
  simp only at h1 hok ⊢
  subst h1
  cases l with
  | nil => rw [ReaderSpec.items, tokLoop_nil]; simp [LexConf]
  | cons c cs' =>
    have hsb1 : (skipBlank false cs (posOf loc)).1 = c :: cs' := by rw [hsb]
    obtain ⟨hsc, hws, hcm⟩ := skipBlank_head cs false _ c cs' hsb1
    simp only at hok ⊢
    by_cases ho : c = '('
    · subst ho
      rw [if_pos rfl, items_cons, tokLoop_cons]
      exact ⟨rfl, (step_at loc' _ (by decide)).1, (step_at loc' _ (by decide)).2, rfl, rfl, posOf_step _ _⟩
    · rw [if_neg ho]
      by_cases hcl : c = ')'
      · subst hcl
        rw [if_pos rfl, items_cons, tokLoop_cons]
        exact ⟨rfl, (step_at loc' _ (by decide)).1, (step_at loc' _ (by decide)).2, rfl, rfl, posOf_step _ _⟩
      · rw [if_neg hcl]
        by_cases hq : c = '\''
        · subst hq
          rw [if_pos rfl, items_cons, tokLoop_cons]
          exact ⟨rfl, (step_at loc' _ (by decide)).1, (step_at loc' _ (by decide)).2, rfl, rfl, posOf_step _ _⟩
        · rw [if_neg hq]
          by_cases hdq : c = '"'
          · subst hdq
            rw [if_pos rfl, items_cons, tokLoop_cons]
            have : act '"' (loc'.step '"') .whiteSpace [] loc = .fin .stringNormal [] (loc'.step '"') := rfl
            rw [this]
            simp only [runAct, finishF_nil]
            rw [← posOf_step]
            have hesc : escNewline cs' = false := by simpa using hok
            exact (tokLoop_string (posOf loc') (loc'.step '"') (step_at loc' _ (by decide)) cs' _ _).1 hesc
          · rw [if_neg hdq]
            by_cases hpc : c = '%'
            · subst hpc
              rw [if_pos rfl, items_cons, tokLoop_cons]
              have : act '%' (loc'.step '%') .whiteSpace [] loc = .fin .character [] (loc'.step '%') := rfl
              rw [this]
              simp only [runAct, finishF_nil]
              rw [← posOf_step]
              exact tokLoop_char (posOf loc') (loc'.step '%') (step_at loc' _ (by decide)) cs' _
            · rw [if_neg hpc]
              apply tokLoop_atom c cs' loc' loc _ hpc
              simp [isDelimiter, hsc, ho, hcl, hdq, hq, hcm, hws]

end Pici.RefLexer
