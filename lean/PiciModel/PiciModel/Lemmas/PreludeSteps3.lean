/-
Helper lemmas for Props/C16c: the shape (up to reader metadata) of the STORED, macro-expanded prelude bodies of
`Generated/PreludeExpanded.lean` (case, or, block, /=, <=, >=), and a generalisation of `RunsJ` to evaluations that
change the symbol counter (`gensym`): `RunsG st e env home d r g g'` — from every state that differs from `st` by its
step counter and by `g` generated symbols, the evaluator answers `r` and leaves `g'` generated symbols.
-/
import PiciModel.Lemmas.PreludeSteps2
import PiciModel.Generated.PreludeExpanded

namespace Pici
open Pici.Ref

/-- the value of the global `nil` as the `let` macro splices it into code: a nil pointer behind metadata -/
def nilA (m : Meta) : Val := .md .nil m

theorem nilA_isNil (m : Meta) : (nilA m).isNil = true := rfl

/-! ### the shape of the expanded prelude bodies, up to metadata -/

namespace PreludeX

theorem case_params_eq : case_params = .ofList [] := rfl
theorem case_rest_shape : ∃ p, case_rest = symA cs!"cases" p := ⟨_, rfl⟩
theorem case_body_shape : ∃ m1 m2 m3 m4 m5 m6 m7 m8 m9 m10 m11 m12 m13 m14 m15 m16 m17 m18 m19 n1 n2, case_body =
    .ofList [symA cs!"foldr" m1,
      .ofList [symA cs!"lambda" m2, .ofList [symA cs!"c" m3, symA cs!"acc" m4],
        .cons (.ofList [symA cs!"lambda" m5, .cons (symA cs!"condition" m6) (.cons (symA cs!"value" m7) (nilA n1)),
                 .ofList [symA cs!"list" m8, quoA cs!"if" m9, symA cs!"condition" m10, symA cs!"value" m11,
                          symA cs!"acc" m12]])
          (.cons (.ofList [symA cs!"car" m13, symA cs!"c" m14])
            (.cons (.ofList [symA cs!"car" m15, .ofList [symA cs!"cdr" m16, symA cs!"c" m17]]) (nilA n2)))],
      symA cs!"nil" m18, symA cs!"cases" m19] :=
  ⟨_, _, _, _, _, _, _, _, _, _, _, _, _, _, _, _, _, _, _, _, _, rfl⟩

theorem or_params_shape : ∃ p1 p2, or_params = .ofList [symA cs!"x" p1, symA cs!"y" p2] := ⟨_, _, rfl⟩
theorem or_rest_eq : or_rest = .nil := rfl
theorem or_body_shape : ∃ m1 m2 m3 m4 m5 m6 m7 m8 m9 m10 m11 m12 m13 m14 n1 n2, or_body =
    .cons (.ofList [symA cs!"lambda" m1, .cons (symA cs!"value" m2) (nilA n1),
             .ofList [symA cs!"list" m3,
               .ofList [symA cs!"list" m4, quoA cs!"lambda" m5, .ofList [symA cs!"list" m6, symA cs!"value" m7],
                        .ofList [symA cs!"list" m8, quoA cs!"if" m9, symA cs!"value" m10, symA cs!"value" m11,
                                 symA cs!"y" m12]],
               symA cs!"x" m13]])
      (.cons (.ofList [symA cs!"gensym" m14]) (nilA n2)) :=
  ⟨_, _, _, _, _, _, _, _, _, _, _, _, _, _, _, _, rfl⟩

theorem slasheq_params_shape : ∃ p1 p2, slasheq_params = .ofList [symA cs!"x" p1, symA cs!"y" p2] := ⟨_, _, rfl⟩
theorem slasheq_rest_eq : slasheq_rest = .nil := rfl
theorem slasheq_body_shape : ∃ m1 m2 m3 m4 m5, slasheq_body =
    .ofList [symA cs!"if" m1, .ofList [symA cs!"=" m2, symA cs!"x" m3, symA cs!"y" m4], .nil, symA cs!"t" m5] :=
  ⟨_, _, _, _, _, rfl⟩

theorem lteq_params_shape : ∃ p1 p2, lteq_params = .ofList [symA cs!"x" p1, symA cs!"y" p2] := ⟨_, _, rfl⟩
theorem lteq_rest_eq : lteq_rest = .nil := rfl
/-- the symbol `g` was generated when the prelude was loaded (by the expansion of `or`) -/
theorem lteq_body_shape : ∃ g m1 m2 m3 m4 m5 m6 m7 m8, lteq_body =
    .ofList [.ofList [symA cs!"lambda" m1, .ofList [.sym (.gen g)],
               .ofList [symA cs!"if" m2, .sym (.gen g), .sym (.gen g), .ofList [symA cs!"=" m3, symA cs!"x" m4, symA cs!"y" m5]]],
             .ofList [symA cs!"<" m6, symA cs!"x" m7, symA cs!"y" m8]] :=
  ⟨_, _, _, _, _, _, _, _, _, rfl⟩

theorem gteq_params_shape : ∃ p1 p2, gteq_params = .ofList [symA cs!"x" p1, symA cs!"y" p2] := ⟨_, _, rfl⟩
theorem gteq_rest_eq : gteq_rest = .nil := rfl
theorem gteq_body_shape : ∃ g m1 m2 m3 m4 m5 m6 m7 m8, gteq_body =
    .ofList [.ofList [symA cs!"lambda" m1, .ofList [.sym (.gen g)],
               .ofList [symA cs!"if" m2, .sym (.gen g), .sym (.gen g), .ofList [symA cs!"=" m3, symA cs!"x" m4, symA cs!"y" m5]]],
             .ofList [symA cs!">" m6, symA cs!"x" m7, symA cs!"y" m8]] :=
  ⟨_, _, _, _, _, _, _, _, _, rfl⟩

theorem block_params_eq : block_params = .ofList [] := rfl
theorem block_rest_shape : ∃ p, block_rest = symA cs!"body" p := ⟨_, rfl⟩
theorem block_body_shape : ∃ m1 m2 m3 m4 m5 m6 m7 m8 m9 m10 m11 m12 m13 m14 m15 m16 m17 m18 m19 m20 m21 m22 m23 n1 n2 n3 n4,
    block_body =
    .ofList [symA cs!"if" m1, symA cs!"body" m2,
      .cons (.ofList [symA cs!"lambda" m3, .cons (symA cs!"init-body" m4) (nilA n1),
               .cons (.ofList [symA cs!"lambda" m5, .cons (symA cs!"params" m6) (.cons (symA cs!"end" m7) (nilA n2)),
                        .ofList [symA cs!"cons" m8,
                                 .ofList [symA cs!"list" m9, quoA cs!"lambda" m10, symA cs!"params" m11, symA cs!"end" m12],
                                 symA cs!"init-body" m13]])
                 (.cons (.ofList [symA cs!"map" m14,
                                  .ofList [symA cs!"lambda" m15, .ofList [symA cs!"_" m16], .ofList [symA cs!"gensym" m17]],
                                  symA cs!"init-body" m18])
                   (.cons (.ofList [symA cs!"last" m19, symA cs!"body" m20]) (nilA n3)))])
        (.cons (.ofList [symA cs!"init" m21, symA cs!"body" m22]) (nilA n4)),
      symA cs!"nil" m23] :=
  ⟨_, _, _, _, _, _, _, _, _, _, _, _, _, _, _, _, _, _, _, _, _, _, _, _, _, _, _, rfl⟩

end PreludeX

namespace Prelude
theorem map_fn_eq : map_fn = .fn .lambda map_rest map_params map_body .nil cs!"prelude" := rfl
theorem map_mem : (cs!"map", map_fn) ∈ table := by simp [table]
end Prelude

/-! ### more rules of the reference semantics -/

section rules
variable {G : Globals} {env : Val} {home : Name} {d : Nat}

/-- a variable that is a generated symbol -/
theorem ev_localGen {g : Nat} {v : Val} (hd : d ≤ Config.maxRecursionDepth)
    (h : lookupEnv (.gen g) env = some v) : Eval G env home d (.sym (.gen g)) (.ok v) :=
  Eval.varLocal hd rfl rfl h

/-- the empty list evaluates to the bare nil -/
theorem ev_nil (hd : d ≤ Config.maxRecursionDepth) : Eval G env home d .nil (.ok .nil) :=
  Eval.emptyList hd rfl

end rules

theorem lookupEnv_hitGen (g : Nat) (v rest : Val) :
    lookupEnv (.gen g) (.cons (.cons (.sym (.gen g)) v) rest) = some v := by
  simp [lookupEnv, Val.get]

theorem prim_equal (x y : Val) (d : Nat) :
    primResult .equal [x, y] d = .ok (if equalInternal x y then .symName cs!"t" else .nil) := by
  simp [primResult, simpleNative, arity2]

theorem prim_greater (a b : Val) (x y : Int) (d : Nat) (ha : a.get = .num x) (hb : b.get = .num y)
    (hx : inRange x = true) (hy : inRange y = true) :
    primResult .greater [a, b] d = .ok (if y < x then .symName cs!"t" else .nil) := by
  simp only [primResult, simpleNative]
  rw [compare_nums cs!">" (fun a b => lessI64 b a) a b x y _ ha hb, lessI64_toI64 y x hy hx]
  simp

theorem equalInternal_num (x y : Int) : equalInternal (.num x) (.num y) = (x == y) := by
  simp [equalInternal, Val.get]

/-! ### evaluations that change the symbol counter -/

/-- the state after `j` more loop heads and `g` more generated symbols -/
def gs (st : St) (j g : Nat) : St := { st with steps := st.steps + j, gensym := st.gensym + g }

/-- the state after `g` more generated symbols -/
def withG (st : St) (g : Nat) : St := { st with gensym := st.gensym + g }

theorem bump_withG (st : St) (g j : Nat) : C05.bump (withG st g) j = gs st j g := rfl

theorem withG_zero (st : St) : withG st 0 = st := rfl

/-- from every state that differs from `st` by its step counter and by `g` generated symbols, with enough fuel, the
evaluator answers `r`, counts steps and leaves `g'` generated symbols -/
def RunsG (st : St) (e env : Val) (home : Name) (d : Nat) (r : Res Val) (g g' : Nat) : Prop :=
  ∀ j, ∃ F k, ∀ n, F ≤ n → evalInternal n (gs st j g) e env home d = (r, gs st (j + k) g')

def RunsArgsG (st : St) (xs : List Val) (env : Val) (home : Name) (d : Nat) (r : Res (List Val)) (g g' : Nat) : Prop :=
  ∀ j, ∃ F k, ∀ n, F ≤ n → evalArgs n (gs st j g) xs env home d = (r, gs st (j + k) g')

/-- an evaluation that does not generate symbols, from the state with `g` more of them -/
theorem RunsG.of_pure {st : St} {e env : Val} {home : Name} {d : Nat} {r : Res Val} {g : Nat}
    (h : RunsJ (withG st g) e env home d r) : RunsG st e env home d r g g := h

theorem RunsArgsG.of_pure {st : St} {xs : List Val} {env : Val} {home : Name} {d : Nat} {r : Res (List Val)} {g : Nat}
    (h : RunsArgsJ (withG st g) xs env home d r) : RunsArgsG st xs env home d r g g := h

theorem poll_gs (st : St) (h : st.attached = false) (j g : Nat) :
    pollDebugger (gs st j g) = (none, gs st (j + 1) g) := by
  simp [pollDebugger, gs, h, Nat.add_assoc]

theorem RunsG.step {st : St} {e env : Val} {home : Name} {d : Nat} {r : Res Val} {g g' : Nat}
    (h : ∀ j, ∃ F k, ∀ n, F ≤ n → evalInternal (n + 1) (gs st j g) e env home d = (r, gs st (j + k) g')) :
    RunsG st e env home d r g g' := by
  intro j
  obtain ⟨F, k, hF⟩ := h j
  refine ⟨F + 1, k, fun n hn => ?_⟩
  obtain ⟨m, rfl⟩ : ∃ m, n = m + 1 := ⟨n - 1, by omega⟩
  exact hF m (by omega)

theorem RunsArgsG.step {st : St} {xs : List Val} {env : Val} {home : Name} {d : Nat} {r : Res (List Val)} {g g' : Nat}
    (h : ∀ j, ∃ F k, ∀ n, F ≤ n → evalArgs (n + 1) (gs st j g) xs env home d = (r, gs st (j + k) g')) :
    RunsArgsG st xs env home d r g g' := by
  intro j
  obtain ⟨F, k, hF⟩ := h j
  refine ⟨F + 1, k, fun n hn => ?_⟩
  obtain ⟨m, rfl⟩ : ∃ m, n = m + 1 := ⟨n - 1, by omega⟩
  exact hF m (by omega)

theorem RunsArgsG.nil (st : St) (env : Val) (home : Name) (d g : Nat) : RunsArgsG st [] env home d (.ok []) g g :=
  RunsArgsG.step fun _ => ⟨0, 0, fun n _ => step_args_nil n _ env home d⟩

theorem RunsArgsG.cons {st : St} {x : Val} {xs : List Val} {env : Val} {home : Name} {d : Nat} {v : Val} {vs : List Val}
    {g g1 g2 : Nat}
    (h1 : RunsG st x env home (d + 1) (.ok v) g g1) (h2 : RunsArgsG st xs env home d (.ok vs) g1 g2) :
    RunsArgsG st (x :: xs) env home d (.ok (v :: vs)) g g2 := by
  refine RunsArgsG.step fun j => ?_
  obtain ⟨F1, k1, hF1⟩ := h1 j
  obtain ⟨F2, k2, hF2⟩ := h2 (j + k1)
  refine ⟨F1 + F2, k1 + k2, fun n hn => ?_⟩
  rw [step_args_cons n _ _ _ x xs env home d v vs (hF1 n (by omega)) (hF2 n (by omega)), Nat.add_assoc]

/-- `(if c t o)` when the condition yields a value: the chosen branch at the same depth -/
theorem RunsG.ifOk {st : St} (hatt : st.attached = false) {e env : Val} {home : Name} {d : Nat} {first c t o v : Val}
    {r : Res Val} {g g1 g2 : Nat} (hd : d ≤ Config.maxRecursionDepth) (hl : listToVec e = some [first, c, t, o])
    (hlam : first.isSymNamed cs!"lambda" = false) (hq : first.isSymNamed cs!"quote" = false)
    (hif : first.isSymNamed cs!"if" = true)
    (hc : RunsG st c env home (d + 1) (.ok v) g g1) (hb : RunsG st (if !v.isNil then t else o) env home d r g1 g2) :
    RunsG st e env home d r g g2 := by
  refine RunsG.step fun j => ?_
  obtain ⟨F1, k1, hF1⟩ := hc (j + 1)
  obtain ⟨F2, k2, hF2⟩ := hb (j + 1 + k1)
  refine ⟨F1 + F2, 1 + k1 + k2, fun n hn => ?_⟩
  rw [step_ifOk n _ _ e env home d hd (poll_gs st hatt j g) first c t o _ v hl hlam hq hif (hF1 n (by omega)),
    hF2 n (by omega)]
  simp only [Nat.add_assoc]

theorem RunsG.ifTrue {st : St} (hatt : st.attached = false) {env : Val} {home : Name} {d : Nat} {m : Meta} {c t o v : Val}
    {r : Res Val} {g g1 g2 : Nat} (hd : d ≤ Config.maxRecursionDepth)
    (hc : RunsG st c env home (d + 1) (.ok v) g g1) (hv : v.isNil = false) (hb : RunsG st t env home d r g1 g2) :
    RunsG st (.ofList [symA cs!"if" m, c, t, o]) env home d r g g2 :=
  RunsG.ifOk hatt (first := symA cs!"if" m) hd rfl rfl rfl rfl hc (by rw [hv]; exact hb)

theorem RunsG.ifFalse {st : St} (hatt : st.attached = false) {env : Val} {home : Name} {d : Nat} {m : Meta} {c t o v : Val}
    {r : Res Val} {g g1 g2 : Nat} (hd : d ≤ Config.maxRecursionDepth)
    (hc : RunsG st c env home (d + 1) (.ok v) g g1) (hv : v.isNil = true) (hb : RunsG st o env home d r g1 g2) :
    RunsG st (.ofList [symA cs!"if" m, c, t, o]) env home d r g g2 :=
  RunsG.ifOk hatt (first := symA cs!"if" m) hd rfl rfl rfl rfl hc (by rw [hv]; exact hb)

/-- a call of a closure: the body at the depth of the call -/
theorem RunsG.callClosure {st : St} (hatt : st.attached = false) {e env : Val} {home : Name} {d : Nat} {first : Val}
    {operands args : List Val} {f : Val} {k : Kind} {rest params body fenv newEnv : Val} {fmod : Name} {r : Res Val}
    {g g1 g2 g3 : Nat}
    (hd : d ≤ Config.maxRecursionDepth) (hl : listToVec e = some (first :: operands)) (hsp : isSpecial first = false)
    (hop : RunsG st first env home (d + 1) (.ok f) g g1) (hf : f.get = .fn k rest params body fenv fmod)
    (ha : RunsArgsG st operands env home d (.ok args) g1 g2)
    (hp : pairParamsAndArgs rest params fenv (e.getMeta.map (·.readName)) args = .ok newEnv)
    (hb : RunsG st body newEnv fmod d r g2 g3) :
    RunsG st e env home d r g g3 := by
  refine RunsG.step fun j => ?_
  obtain ⟨F1, k1, hF1⟩ := hop (j + 1)
  obtain ⟨F2, k2, hF2⟩ := ha (j + 1 + k1)
  obtain ⟨F3, k3, hF3⟩ := hb (j + 1 + k1 + k2)
  refine ⟨F1 + F2 + F3, 1 + k1 + k2 + k3, fun n hn => ?_⟩
  rw [step_callClosure n _ _ e env home d hd (poll_gs st hatt j g) first operands _ _ f k rest params body fenv fmod args
    newEnv hl hsp (hF1 n (by omega)) hf (hF2 n (by omega)) hp, hF3 n (by omega)]
  simp only [Nat.add_assoc]

/-- a call of a native (other than `eval`) that answers with the outcome `r` whatever the step count and the fuel, and
takes the number of generated symbols from `g2` to `g3` -/
theorem RunsG.callNativeRes {st : St} (hatt : st.attached = false) {e env : Val} {home : Name} {d : Nat} {first : Val}
    {operands args : List Val} {f : Val} {id : NativeId} {r : Res Val} {g g1 g2 g3 : Nat}
    (hd : d ≤ Config.maxRecursionDepth) (hl : listToVec e = some (first :: operands)) (hsp : isSpecial first = false)
    (hop : RunsG st first env home (d + 1) (.ok f) g g1) (hf : f.get = .native id) (hid : id ≠ .eval)
    (ha : RunsArgsG st operands env home d (.ok args) g1 g2)
    (hn : ∀ fuel j, applyNative (fuel + 1) (gs st j g2) id args env (d + 1) = (r, gs st j g3)) :
    RunsG st e env home d r g g3 := by
  obtain ⟨hlam, hq, hif, htrap⟩ := isSpecial_false hsp
  refine RunsG.step fun j => ?_
  obtain ⟨F1, k1, hF1⟩ := hop (j + 1)
  obtain ⟨F2, k2, hF2⟩ := ha (j + 1 + k1)
  refine ⟨F1 + F2 + 1, 1 + k1 + k2, fun n hn' => ?_⟩
  obtain ⟨m, rfl⟩ : ∃ m, n = m + 1 := ⟨n - 1, by omega⟩
  rw [evalInternal_native (m + 1) _ _ _ _ e first operands env home d f id args hl hlam hq hif htrap hd
    (poll_gs st hatt j g) (hF1 (m + 1) (by omega)) hf hid (hF2 (m + 1) (by omega)), hn m]
  simp only [Nat.add_assoc]

/-- a core primitive applied to operands that run in any way -/
theorem RunsG.callPrim {st : St} (hatt : st.attached = false) {e env : Val} {home : Name} {d : Nat} {first : Val}
    {operands args : List Val} {f : Val} {id : NativeId} {r : Res Val} {g g1 g2 : Nat}
    (hd : d ≤ Config.maxRecursionDepth) (hl : listToVec e = some (first :: operands)) (hsp : isSpecial first = false)
    (hop : RunsG st first env home (d + 1) (.ok f) g g1) (hf : f.get = .native id) (hc : corePrim id = true)
    (ha : RunsArgsG st operands env home d (.ok args) g1 g2) (hr : primResult id args (d + 1) = r) :
    RunsG st e env home d r g g2 :=
  RunsG.callNativeRes hatt hd hl hsp hop hf (corePrim_simple id hc).1 ha
    (fun fuel j => by rw [applyNative_corePrim fuel _ id args env (d + 1) hc, hr])

/-- `gensym` answers the next generated symbol and counts it -/
theorem applyNative_gensym (fuel : Nat) (st : St) (j g : Nat) (env : Val) (d : Nat) :
    applyNative (fuel + 1) (gs st j g) .gensym [] env d = (.ok (.sym (.gen (st.gensym + g))), gs st j (g + 1)) := by
  simp [applyNative, simpleNative, arity0, gs, Nat.add_assoc]

/-- the call `(gensym)` -/
theorem RunsG.callGensym {st : St} (hatt : st.attached = false) {e env : Val} {home : Name} {d : Nat} {first : Val}
    {f : Val} {g : Nat}
    (hd : d ≤ Config.maxRecursionDepth) (hl : listToVec e = some [first]) (hsp : isSpecial first = false)
    (hop : RunsG st first env home (d + 1) (.ok f) g g) (hf : f.get = .native .gensym) :
    RunsG st e env home d (.ok (.sym (.gen (st.gensym + g)))) g (g + 1) :=
  RunsG.callNativeRes hatt hd hl hsp hop hf (by decide) (RunsArgsG.nil st env home d g)
    (fun fuel j => applyNative_gensym fuel st j g env (d + 1))

/-- the answer at ONE fuel and step count, from `st` itself -/
theorem RunsG.at_zero {st : St} {e env : Val} {home : Name} {d : Nat} {r : Res Val} {g : Nat}
    (h : RunsG st e env home d r 0 g) :
    ∃ fuel k, evalInternal fuel st e env home d = (r, { C05.bump st k with gensym := st.gensym + g }) := by
  obtain ⟨F, k, hF⟩ := h 0
  refine ⟨F, k, ?_⟩
  have := hF F (Nat.le_refl F)
  rw [Nat.zero_add] at this
  exact this

end Pici
