/-
Helper lemmas for C02 (`Props/C02.lean`): contents with every address mapped, one operation of the heap client
(`HeapState.step`) restated operation by operation — the resulting slots, global definitions and response, and for the
allocating operations the new cell —, lists of slots and of global definitions under a map of addresses.
Nothing here mentions two clients at once; the isomorphism itself lives in `Props/C02.lean`.
-/
import PiciModel.Props.C01

namespace Pici.Sched
open Pici Pici.Heap Pici.HeapState Pici.C01

/-! ### contents with every address mapped -/

def mapAddr (φ : Addr → Addr) : Content → Content
  | .num n => .num n
  | .chr c => .chr c
  | .cons a d => .cons (a.map φ) (d.map φ)
  | .sym n o => .sym n (o.map φ)
  | .fn k r ps b e m => .fn k r (ps.map φ) (b.map φ) (e.map φ) m
  | .trap n t => .trap (n.map φ) (t.map φ)
  | .md v m => .md (v.map φ) m

theorem toList_map (φ : Addr → Addr) (x : Option Addr) : (x.map φ).toList = x.toList.map φ := by
  cases x <;> rfl

theorem children_mapAddr (φ : Addr → Addr) (c : Content) : (mapAddr φ c).children = c.children.map φ := by
  cases c <;> simp [mapAddr, Content.children, toList_map]

theorem opt_map_congr {φ φ' : Addr → Addr} (x : Option Addr) (h : ∀ b ∈ x.toList, φ' b = φ b) : x.map φ' = x.map φ := by
  cases x with
  | none => rfl
  | some a => simp [h a (by simp)]

/-- two maps that agree on the children of a content (and on a symbol's own address) map it alike -/
theorem mapAddr_congr {φ φ' : Addr → Addr} (c : Content) (hk : ∀ b ∈ c.children, φ' b = φ b)
    (hs : ∀ n o, c = .sym n o → o.map φ' = o.map φ) : mapAddr φ' c = mapAddr φ c := by
  cases c with
  | num n => rfl
  | chr c => rfl
  | cons a d =>
    simp only [Content.children, List.mem_append] at hk
    simp only [mapAddr]
    rw [opt_map_congr a (fun b hb => hk b (Or.inl hb)), opt_map_congr d (fun b hb => hk b (Or.inr hb))]
  | sym n o =>
    simp only [mapAddr]
    rw [hs n o rfl]
  | fn k r ps b e m =>
    simp only [Content.children, List.mem_append] at hk
    simp only [mapAddr]
    rw [opt_map_congr b (fun x hx => hk x (Or.inl (Or.inl hx))), opt_map_congr e (fun x hx => hk x (Or.inl (Or.inr hx))),
      List.map_congr_left (fun x hx => hk x (Or.inr hx))]
  | trap a d =>
    simp only [Content.children, List.mem_append] at hk
    simp only [mapAddr]
    rw [opt_map_congr a (fun b hb => hk b (Or.inl hb)), opt_map_congr d (fun b hb => hk b (Or.inr hb))]
  | md v m =>
    simp only [Content.children] at hk
    simp only [mapAddr]
    rw [opt_map_congr v hk]

/-- a map of addresses, redirected at one address -/
def upd (φ : Addr → Addr) (a b : Addr) : Addr → Addr := fun x => if x = a then b else φ x

theorem upd_self (φ : Addr → Addr) (a b : Addr) : upd φ a b a = b := by simp [upd]

theorem upd_ne (φ : Addr → Addr) (a b x : Addr) (h : x ≠ a) : upd φ a b x = φ x := by simp [upd, h]

/-! ### handles -/

theorem held_cases {s : HeapState} {a : Addr} (h : 0 < heldCount s a) :
    (some (some a) : Slot) ∈ s.slots ∨ some a ∈ s.heap.globals.map (·.2) := by
  unfold heldCount at h
  by_cases h1 : (some (some a) : Slot) ∈ s.slots
  · exact Or.inl h1
  · right
    have : s.slots.count (some (some a)) = 0 := List.count_eq_zero.2 h1
    rw [this] at h
    exact List.count_pos_iff.1 (by omega)

theorem held_of_slot {s : HeapState} {a : Addr} (h : (some (some a) : Slot) ∈ s.slots) : 0 < heldCount s a := by
  have := List.count_pos_iff.2 h
  unfold heldCount
  omega

theorem held_of_glob {s : HeapState} {a : Addr} (h : some a ∈ s.heap.globals.map (·.2)) : 0 < heldCount s a := by
  have := List.count_pos_iff.2 h
  unfold heldCount
  omega

theorem mem_setSlotList (w : Slot) : ∀ (i : Nat) (l : List Slot) (v : Slot),
    w ∈ setSlotList l i v → w ∈ l ∨ w = v ∨ w = none := by
  intro i
  induction i with
  | zero =>
    intro l v h
    cases l with
    | nil => simp [setSlotList] at h; exact Or.inr (Or.inl h)
    | cons x t =>
      simp only [setSlotList, List.mem_cons] at h
      rcases h with h | h
      · exact Or.inr (Or.inl h)
      · exact Or.inl (List.mem_cons_of_mem _ h)
  | succ i ih =>
    intro l v h
    cases l with
    | nil =>
      simp only [setSlotList, List.mem_cons] at h
      rcases h with h | h
      · exact Or.inr (Or.inr h)
      · rcases ih [] v h with h | h
        · exact Or.inl h
        · exact Or.inr h
    | cons x t =>
      simp only [setSlotList, List.mem_cons] at h
      rcases h with h | h
      · exact Or.inl (h ▸ List.mem_cons_self ..)
      · rcases ih t v h with h | h
        · exact Or.inl (List.mem_cons_of_mem _ h)
        · exact Or.inr h

theorem decRc?_globals {h h' : Heap} {x : Option Addr} (e : h.decRc? x = some h') : h'.globals = h.globals := by
  cases x with
  | none => cases e; rfl
  | some a =>
    simp only [decRc?, decRc] at e
    split at e
    · cases e
    · cases e; rfl

/-! ### the invariant does not look at the schedule -/

theorem sinv_every (s : HeapState) (h : SInv s) (e n : Nat) : SInv { s with every := e, allocs := n } :=
  sinv_congr h rfl rfl

/-! ### `HeapState.step`, operation by operation -/

/-- allocate a cell for `c` (after the hook's decision) and store its first handle in slot `dst` -/
def allocStep (s : HeapState) (dst : Nat) (c : Content) : HeapState × HeapResp :=
  s.tick.1.finish dst (s.tick.1.heap.allocHandle c s.tick.2)

/-- hand out one more handle on `x` and store it in slot `dst` -/
def giveStep (s : HeapState) (dst : Nat) (x : Option Addr) : HeapState × HeapResp :=
  match ({ s with heap := s.heap.incRc? x } : HeapState).setSlot dst x with
  | some s' => (s', .ok)
  | none    => (s, .crash "handle count below zero")

/-- the result of an allocating step: a cell that was not reachable, holding the content, its handle in the slot -/
theorem alloc_res (s s1 : HeapState) (hh : s1.heap = s.heap) (hsl : s1.slots = s.slots) (h : SInv s) (dst : Nat)
    (r : Option (Heap × Addr)) (c : Addr → Content)
    (hr : ∃ h' a, r = some (h', a) ∧ Alloc s.heap h' a ∧ (h'.cell a).content = c a) :
    ∃ s' a, s1.finish dst r = (s', .ok) ∧ s'.slots = setSlotList s.slots dst (some (some a)) ∧
      s'.heap.globals = s.heap.globals ∧ ¬ Reach s.heap a ∧ (s'.heap.cell a).content = c a := by
  obtain ⟨h', a, rfl, hal, hc⟩ := hr
  have h1 : SInv s1 := sinv_congr h hh hsl
  obtain ⟨s', e, _, ro, g, sl⟩ := finish_ok s1 dst h' a h1 (by rw [hh]; exact hal)
  exact ⟨s', a, e, by rw [sl, hsl], by rw [g, hh], hal.fresh, by rw [ro.content a, hc]⟩

theorem allocStep_res (s : HeapState) (h : SInv s) (dst : Nat) (c : Content)
    (hkids : ∀ b ∈ c.children, 0 < heldCount s b) (hsym : ∀ n o, c ≠ .sym (some n) o) :
    ∃ s' a, allocStep s dst c = (s', .ok) ∧ s'.slots = setSlotList s.slots dst (some (some a)) ∧
      s'.heap.globals = s.heap.globals ∧ ¬ Reach s.heap a ∧ (s'.heap.cell a).content = c := by
  apply alloc_res s s.tick.1 (tick_heap s) (tick_slots s) h dst _ (fun _ => c)
  exact allocHandle_alloc s.heap h.heap c s.tick.2 (fun b hb => held_reach' s h b (hkids b hb)) hsym

theorem giveStep_res (s : HeapState) (h : SInv s) (dst : Nat) (x : Option Addr) (hx : ∀ a, x = some a → Used s.heap a) :
    ∃ s', giveStep s dst x = (s', .ok) ∧ s'.slots = setSlotList s.slots dst (some x) ∧ s'.heap.globals = s.heap.globals := by
  obtain ⟨s', e, _, _, g, sl⟩ := give_ok s dst x h hx
  refine ⟨s', ?_, sl, g⟩
  unfold giveStep
  simp only [e]

theorem step_num (s : HeapState) (dst : Nat) (n : Int) : s.step (.num dst n) = allocStep s dst (.num n) := rfl

theorem step_chr (s : HeapState) (dst : Nat) (n : Nat) : s.step (.chr dst n) = allocStep s dst (.chr n) := rfl

theorem step_cons {s : HeapState} {dst : Nat} {a d : Int} {x y : Option Addr} (hx : s.arg a = some x) (hy : s.arg d = some y) :
    s.step (.cons dst a d) = allocStep s dst (.cons x y) := by
  unfold HeapState.step
  simp only [hx, hy]
  rfl

theorem step_cons_refused {s : HeapState} {dst : Nat} {a d : Int} (hn : s.arg a = none ∨ s.arg d = none) :
    s.step (.cons dst a d) = (s, .refused "empty slot") := by
  unfold HeapState.step
  rcases hn with hn | hn
  · simp only [hn]
  · cases hx : s.arg a <;> simp only [hn, hx]

theorem step_trap {s : HeapState} {dst : Nat} {a d : Int} {x y : Option Addr} (hx : s.arg a = some x) (hy : s.arg d = some y) :
    s.step (.trap dst a d) = allocStep s dst (.trap x y) := by
  unfold HeapState.step
  simp only [hx, hy]
  rfl

theorem step_trap_refused {s : HeapState} {dst : Nat} {a d : Int} (hn : s.arg a = none ∨ s.arg d = none) :
    s.step (.trap dst a d) = (s, .refused "empty slot") := by
  unfold HeapState.step
  rcases hn with hn | hn
  · simp only [hn]
  · cases hx : s.arg a <;> simp only [hn, hx]

/-- the parameter test of `.fn`: an empty slot, nil, or a cell that is neither a symbol nor a metadata-wrapped symbol -/
def paramBad (h : Heap) : Option (Option Addr) → Bool
  | some (some a) => !(match (h.cell a).content with
                       | .sym .. => true
                       | .md (some t) _ => (match (h.cell t).content with | .sym .. => true | _ => false)
                       | _ => false)
  | _ => true

theorem step_fn {s : HeapState} {dst : Nat} {kind : Kind} {rest : Bool} {body env : Int} {mod : Name} {params : List Nat}
    {b e : Option Addr} (hb : s.arg body = some b) (he : s.arg env = some e) :
    s.step (.fn dst kind rest body env mod params) =
      if (params.map fun p => s.arg (Int.ofNat p)).any (paramBad s.heap) then (s, .refused "param-not-symbol")
      else if rest && params.isEmpty then (s, .refused "rest-without-params")
      else allocStep s dst (.fn kind rest ((params.map fun p => s.arg (Int.ofNat p)).filterMap fun p => p.join) b e mod) := by
  unfold HeapState.step
  simp only [hb, he]
  rfl

theorem step_fn_refused {s : HeapState} {dst : Nat} {kind : Kind} {rest : Bool} {body env : Int} {mod : Name} {params : List Nat}
    (hn : s.arg body = none ∨ s.arg env = none) :
    s.step (.fn dst kind rest body env mod params) = (s, .refused "empty slot") := by
  unfold HeapState.step
  rcases hn with hn | hn
  · simp only [hn]
  · cases hx : s.arg body <;> simp only [hn, hx]

def isMd (h : Heap) : Option Addr → Bool
  | some a => (match (h.cell a).content with | .md .. => true | _ => false)
  | none => false

theorem step_md {s : HeapState} {dst : Nat} {src : Int} {m : Meta} {x : Option Addr} (hx : s.arg src = some x) :
    s.step (.md dst src m) = if isMd s.heap x then (s, .refused "meta-of-meta") else allocStep s dst (.md x m) := by
  unfold HeapState.step
  simp only [hx]
  rfl

theorem step_md_refused {s : HeapState} {dst : Nat} {src : Int} {m : Meta} (hx : s.arg src = none) :
    s.step (.md dst src m) = (s, .refused "empty slot") := by
  unfold HeapState.step
  simp only [hx]

theorem step_clone {s : HeapState} {dst : Nat} {src : Int} {x : Option Addr} (hx : s.arg src = some x) :
    s.step (.clone dst src) = giveStep s dst x := by
  unfold HeapState.step
  simp only [hx]
  rfl

theorem step_clone_refused {s : HeapState} {dst : Nat} {src : Int} (hx : s.arg src = none) :
    s.step (.clone dst src) = (s, .refused "empty slot") := by
  unfold HeapState.step
  simp only [hx]

/-- the accessors look through one metadata wrapper -/
def target (h : Heap) (a : Addr) : Addr :=
  match (h.cell a).content with
  | .md (some t) _ => t
  | _              => a

theorem step_car_cons {s : HeapState} {dst src : Nat} {a : Addr} {x y : Option Addr} (hx : s.arg src = some (some a))
    (hc : (s.heap.cell (target s.heap a)).content = .cons x y) : s.step (.car dst src) = giveStep s dst x := by
  unfold HeapState.step
  simp only [hx]
  unfold target at hc
  split
  · rename_i x' y' h'
    have := hc.symm.trans h'
    cases this
    rfl
  · rename_i hne
    exact (hne x y hc).elim

theorem step_cdr_cons {s : HeapState} {dst src : Nat} {a : Addr} {x y : Option Addr} (hx : s.arg src = some (some a))
    (hc : (s.heap.cell (target s.heap a)).content = .cons x y) : s.step (.cdr dst src) = giveStep s dst y := by
  unfold HeapState.step
  simp only [hx]
  unfold target at hc
  split
  · rename_i x' y' h'
    have := hc.symm.trans h'
    cases this
    rfl
  · rename_i hne
    exact (hne x y hc).elim

theorem step_car_not {s : HeapState} {dst src : Nat} {a : Addr} (hx : s.arg src = some (some a))
    (hc : ∀ x y, (s.heap.cell (target s.heap a)).content ≠ .cons x y) : s.step (.car dst src) = (s, .refused "not-cons") := by
  unfold HeapState.step
  simp only [hx]
  unfold target at hc
  split
  · rename_i x y h
    exact (hc x y h).elim
  · rfl

theorem step_cdr_not {s : HeapState} {dst src : Nat} {a : Addr} (hx : s.arg src = some (some a))
    (hc : ∀ x y, (s.heap.cell (target s.heap a)).content ≠ .cons x y) : s.step (.cdr dst src) = (s, .refused "not-cons") := by
  unfold HeapState.step
  simp only [hx]
  unfold target at hc
  split
  · rename_i x y h
    exact (hc x y h).elim
  · rfl

theorem step_car_nil {s : HeapState} {dst src : Nat} (hx : s.arg src = some none) :
    s.step (.car dst src) = (s, .refused "not-cons") := by
  unfold HeapState.step
  simp only [hx]

theorem step_cdr_nil {s : HeapState} {dst src : Nat} (hx : s.arg src = some none) :
    s.step (.cdr dst src) = (s, .refused "not-cons") := by
  unfold HeapState.step
  simp only [hx]

theorem step_car_empty {s : HeapState} {dst src : Nat} (hx : s.arg src = none) :
    s.step (.car dst src) = (s, .refused "empty slot") := by
  unfold HeapState.step
  simp only [hx]

theorem step_cdr_empty {s : HeapState} {dst src : Nat} (hx : s.arg src = none) :
    s.step (.cdr dst src) = (s, .refused "empty slot") := by
  unfold HeapState.step
  simp only [hx]

theorem step_drop_none {s : HeapState} {i : Nat} (hx : ∀ x, s.slots[i]? ≠ some (some x)) : s.step (.drop i) = (s, .ok) := by
  unfold HeapState.step
  dsimp only
  split
  · rename_i x h
    exact (hx x h).elim
  · rfl

theorem drop_res (s : HeapState) (h : SInv s) (i : Nat) (x : Option Addr) (hx : s.slots[i]? = some (some x)) :
    ∃ s', s.step (.drop i) = (s', .ok) ∧ s'.slots = setSlotList s.slots i none ∧ s'.heap.globals = s.heap.globals := by
  obtain ⟨h', e, _, _, g⟩ := slot_update s i none h.toPInv
  rw [oldOf_of hx] at e
  refine ⟨{ s with heap := h', slots := setSlotList s.slots i none }, ?_, rfl, g⟩
  unfold HeapState.step
  simp only [hx, e]

theorem step_define_refused {s : HeapState} {name : Name} {src : Int} (hx : s.arg src = none) :
    s.step (.define name src) = (s, .refused "empty slot") := by
  unfold HeapState.step
  simp only [hx]

theorem define_res (s : HeapState) (h : SInv s) (name : Name) (src : Int) (x : Option Addr) (hx : s.arg src = some x) :
    ∃ s', s.step (.define name src) = (s', .ok) ∧ s'.slots = s.slots ∧
      s'.heap.globals = (if (s.heap.globals.lookup name).isSome then redefine name x s.heap.globals
                         else s.heap.globals ++ [(name, x)]) := by
  obtain ⟨h2, e, _, _⟩ := define_ok s h name x (fun a ha => arg_held (ha ▸ hx))
  have g2 : h2.globals = s.heap.globals := (decRc?_globals e).trans (incRc?_globals _ _)
  refine ⟨{ s with heap := { h2 with globals := if (h2.globals.lookup name).isSome then redefine name x h2.globals
                                                  else h2.globals ++ [(name, x)] } }, ?_, rfl, ?_⟩
  · unfold HeapState.step
    simp only [hx, e]
    rfl
  · simp only [g2]

theorem step_undefine_none {s : HeapState} {name : Name} (hl : s.heap.globals.lookup name = none) :
    s.step (.undefine name) = (s, .ok) := by
  unfold HeapState.step
  simp only [hl]

theorem undefine_res (s : HeapState) (h : SInv s) (name : Name) (v : Option Addr) (hl : s.heap.globals.lookup name = some v) :
    ∃ s', s.step (.undefine name) = (s', .ok) ∧ s'.slots = s.slots ∧
      s'.heap.globals = s.heap.globals.filter (·.1 != name) := by
  obtain ⟨h2, e, _, _⟩ := undefine_ok s h name v hl
  have g2 : h2.globals = s.heap.globals := decRc?_globals e
  refine ⟨{ s with heap := { h2 with globals := h2.globals.filter (·.1 != name) } }, ?_, rfl, ?_⟩
  · unfold HeapState.step
    simp only [hl, e]
  · simp only [g2]

theorem step_getGlobal_some {s : HeapState} {dst : Nat} {name : Name} {v : Option Addr}
    (hl : s.heap.globals.lookup name = some v) : s.step (.getGlobal dst name) = giveStep s dst v := by
  unfold HeapState.step
  simp only [hl]
  rfl

theorem step_getGlobal_none {s : HeapState} {dst : Nat} {name : Name} (hl : s.heap.globals.lookup name = none) :
    s.step (.getGlobal dst name) = (s, .notFound) := by
  unfold HeapState.step
  simp only [hl]

theorem collect_res (s : HeapState) (h : SInv s) :
    ∃ s' u f, s.step .collect = (s', .collected u f) ∧ s'.slots = s.slots ∧ s'.heap.globals = s.heap.globals := by
  obtain ⟨h', e, _, _, g, _⟩ := collectFast_spec s.heap h.heap
  refine ⟨{ s with heap := h' }, h'.firstFree, h'.order.size - h'.firstFree, ?_, rfl, g⟩
  unfold HeapState.step
  simp only [e]

/-- `.sym`: the handle of a symbol cell of that name — the table's entry if the name has one -/
theorem sym_res (s : HeapState) (h : SInv s) (dst : Nat) (name : Name) :
    ∃ s' a, s.step (.sym dst name) = (s', .ok) ∧ s'.slots = setSlotList s.slots dst (some (some a)) ∧
      s'.heap.globals = s.heap.globals ∧ (s'.heap.cell a).content = .sym (some name) (some a) ∧
      (∀ b, (name, b) ∈ s.heap.symtab → a = b) := by
  cases hl : s.heap.symtab.lookup name with
  | some a =>
    have hm := lookup_mem _ _ _ hl
    obtain ⟨hu, hc⟩ := h.heap.symSound name a hm
    obtain ⟨s', e, _, r, g, sl⟩ := give_ok s dst (some a) h (fun b hb => by cases hb; exact hu)
    have e' : ({ s with heap := s.heap.incRc a } : HeapState).setSlot dst (some a) = some s' := e
    refine ⟨s', a, ?_, sl, g, by rw [r.content a, hc], fun b hb => assoc_unique _ h.heap.symNodup name a b hm hb⟩
    unfold HeapState.step
    simp only [hl]
    rw [symbolFor_found s.heap name a false hl]
    unfold HeapState.finish
    simp only [e']
  | none =>
    have hno : ∀ b, (name, b) ∉ s.heap.symtab := by
      intro b hb
      have := List.lookup_eq_none_iff.1 hl (name, b) hb
      simp at this
    obtain ⟨s', a, e, sl, g, _, hc⟩ := alloc_res s s.tick.1 (tick_heap s) (tick_slots s) h dst _
      (fun a => .sym (some name) (some a)) (symbolFor_alloc s.heap h.heap name s.tick.2 hl)
    refine ⟨s', a, ?_, sl, g, hc, fun b hb => (hno b hb).elim⟩
    unfold HeapState.step
    simp only [hl]
    exact e

theorem gensym_res (s : HeapState) (h : SInv s) (dst : Nat) :
    ∃ s' a, s.step (.gensym dst) = (s', .ok) ∧ s'.slots = setSlotList s.slots dst (some (some a)) ∧
      s'.heap.globals = s.heap.globals ∧ ¬ Reach s.heap a ∧ (s'.heap.cell a).content = .sym none (some a) := by
  obtain ⟨h', a, e, al, hc, _⟩ := uniqueSymbol_alloc s.heap h.heap s.tick.2
  exact alloc_res s s.tick.1 (tick_heap s) (tick_slots s) h dst _ (fun a => .sym none (some a)) ⟨h', a, e, al, hc⟩

/-! ### slots and global definitions under a map of addresses -/

/-- a slot with its handle mapped -/
def smap (φ : Addr → Addr) (v : Slot) : Slot := v.map (Option.map φ)

theorem setSlotList_map (φ : Addr → Addr) : ∀ (d : Nat) (l : List Slot) (v : Slot),
    (setSlotList l d v).map (smap φ) = setSlotList (l.map (smap φ)) d (smap φ v) := by
  intro d
  induction d with
  | zero => intro l v; cases l <;> simp [setSlotList]
  | succ d ih =>
    intro l v
    cases l with
    | nil =>
      have := ih [] v
      simp only [List.map_nil] at this
      simp only [setSlotList, List.map_cons, List.map_nil, this]
      rfl
    | cons x t => simp only [setSlotList, List.map_cons, ih]

theorem smap_congr {φ φ' : Addr → Addr} (l : List Slot) (h : ∀ a, (some (some a) : Slot) ∈ l → φ' a = φ a) :
    l.map (smap φ') = l.map (smap φ) := by
  apply List.map_congr_left
  intro v hv
  cases v with
  | none => rfl
  | some x =>
    cases x with
    | none => rfl
    | some a => simp [smap, h a hv]

theorem arg_map {s1 s2 : HeapState} {φ : Addr → Addr} (hs : s2.slots = s1.slots.map (smap φ)) (i : Int) :
    s2.arg i = (s1.arg i).map (Option.map φ) := by
  unfold HeapState.arg
  split
  · rfl
  · rw [hs, List.getElem?_map]
    cases s1.slots[i.toNat]? with
    | none => rfl
    | some v => cases v <;> rfl

/-- global definitions with their handles mapped -/
def gmap (φ : Addr → Addr) (g : Globals) : Globals := g.map fun p => (p.1, p.2.map φ)

theorem globRel_iff (φ : Addr → Addr) : ∀ (g1 g2 : Globals),
    (g1.map (·.1) = g2.map (·.1) ∧ g1.map (fun p => p.2.map φ) = g2.map (·.2)) ↔ g2 = gmap φ g1 := by
  intro g1
  induction g1 with
  | nil =>
    intro g2
    cases g2 <;> simp [gmap]
  | cons p t ih =>
    intro g2
    cases g2 with
    | nil => simp [gmap]
    | cons q u =>
      have := ih u
      simp only [gmap] at this
      simp only [List.map_cons, List.cons.injEq, gmap]
      rw [← this]
      obtain ⟨q1, q2⟩ := q
      simp only [Prod.mk.injEq]
      constructor
      · rintro ⟨⟨a, b⟩, c, d⟩
        exact ⟨⟨a.symm, c.symm⟩, b, d⟩
      · rintro ⟨⟨a, c⟩, b, d⟩
        exact ⟨⟨a.symm, b⟩, c.symm, d⟩

theorem lookup_gmap (φ : Addr → Addr) (n : Name) (g : Globals) :
    (gmap φ g).lookup n = (g.lookup n).map (Option.map φ) := by
  induction g with
  | nil => rfl
  | cons p t ih =>
    obtain ⟨k, v⟩ := p
    simp only [gmap, List.map_cons, List.lookup_cons] at ih ⊢
    cases n == k
    · exact ih
    · rfl

theorem redefine_gmap (φ : Addr → Addr) (n : Name) (x : Option Addr) (g : Globals) :
    redefine n (x.map φ) (gmap φ g) = gmap φ (redefine n x g) := by
  induction g with
  | nil => rfl
  | cons p t ih =>
    obtain ⟨k, v⟩ := p
    simp only [redefine, gmap, List.map_cons, List.map_map] at ih ⊢
    rw [ih]
    cases k == n <;> rfl

theorem filter_gmap (φ : Addr → Addr) (n : Name) (g : Globals) :
    (gmap φ g).filter (·.1 != n) = gmap φ (g.filter (·.1 != n)) := by
  simp only [gmap, List.filter_map]
  rfl

theorem gmap_append (φ : Addr → Addr) (g1 g2 : Globals) : gmap φ (g1 ++ g2) = gmap φ g1 ++ gmap φ g2 := by
  simp [gmap]

theorem gmap_congr {φ φ' : Addr → Addr} (g : Globals) (h : ∀ a, some a ∈ g.map (·.2) → φ' a = φ a) :
    gmap φ' g = gmap φ g := by
  apply List.map_congr_left
  intro p hp
  obtain ⟨k, v⟩ := p
  cases v with
  | none => rfl
  | some a =>
    have := h a (List.mem_map.2 ⟨_, hp, rfl⟩)
    simp [this]

theorem mem_gmap_vals {φ : Addr → Addr} {g : Globals} {b : Addr} (h : some b ∈ (gmap φ g).map (·.2)) :
    ∃ a, some a ∈ g.map (·.2) ∧ φ a = b := by
  simp only [gmap, List.map_map, List.mem_map, Function.comp] at h
  obtain ⟨p, hp, e⟩ := h
  obtain ⟨k, v⟩ := p
  cases v with
  | none => cases e
  | some a =>
    simp only [Option.map_some, Option.some.injEq] at e
    exact ⟨a, List.mem_map.2 ⟨_, hp, rfl⟩, e⟩

theorem mem_smap {φ : Addr → Addr} {l : List Slot} {b : Addr} (h : (some (some b) : Slot) ∈ l.map (smap φ)) :
    ∃ a, (some (some a) : Slot) ∈ l ∧ φ a = b := by
  obtain ⟨v, hv, e⟩ := List.mem_map.1 h
  cases v with
  | none => cases e
  | some x =>
    cases x with
    | none => cases e
    | some a =>
      simp only [smap, Option.map_some, Option.some.injEq] at e
      exact ⟨a, hv, e⟩

end Pici.Sched
