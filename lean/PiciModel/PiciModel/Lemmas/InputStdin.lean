/-
Helper lemmas about `inputStdin` (`Model/Natives.lean`), the model of `(input-file *stdin*)` on a standard input that may
time out (`timeoutChunk`):

* the unfoldings (`inputStdin_zero`, `inputStdin_succ_none`, `inputStdin_interrupt`, `inputStdin_abort`, `inputStdin_other`,
  `inputStdin_nothing`, `inputStdin_detached`);
* what comes out (`InputOutcome`: a list of characters, an error property list made by `makeError`, or the abort `.err .nil`)
  and what changes in the state (`InputFrame`: only `stdinBuf`, `stdinChunks`, `inbox`), by induction on the fuel;
* the fuel does not matter once it is at least the number of chunks (`inputStdin_fuel_irrelevant`);
* a standard input whose bytes up to the end of the current line are all below 0xF8 (`TextLine`) has no time-out ahead
  (`firstTimeout_none_of_text`), hence is read by `St.readLine` (`inputStdin_eq_readLine`).
-/
import PiciModel.Model.Natives

namespace Pici

/-- what `(input-file *stdin*)` makes of one `read_line` -/
def readLineOutcome (st : St) : Res Val × St :=
  match st.readLine with
  | (.line text, st1)   => (.ok (.ofChars text), st1)
  | (.eof, st1)         => (.err (makeError cs!"eof" cs!"input-file" []), st1)
  | (.invalidData, st1) => (.err (makeError cs!"cannot-read-file" cs!"input-file" [(cs!"details", .ofChars cs!"invalid data")]), st1)

/-! ### unfoldings -/

theorem inputStdin_zero (st : St) : inputStdin 0 st = readLineOutcome st := rfl

theorem inputStdin_succ_none (n : Nat) (st : St) (h : firstTimeout st.stdinBuf st.stdinChunks = none) :
    inputStdin (n + 1) st = readLineOutcome st := by
  rw [inputStdin, h]; rfl

theorem inputStdin_interrupt (n : Nat) (st : St) (before after : List (List UInt8)) (c : Command) (rest : List Command)
    (h : firstTimeout st.stdinBuf st.stdinChunks = some (before, after)) (ha : st.attached = true)
    (hi : st.inbox = c :: rest) (hc : c.text = cs!"INTERRUPT") :
    inputStdin (n + 1) st =
      (.err (makeError cs!"interrupted" cs!"input-file" []),
       { st with inbox := rest, stdinBuf := [], stdinChunks := after }) := by
  rw [inputStdin, h]
  simp only [ha, if_true, hi, hc, beq_self_eq_true]

theorem inputStdin_abort (n : Nat) (st : St) (before after : List (List UInt8)) (c : Command) (rest : List Command)
    (h : firstTimeout st.stdinBuf st.stdinChunks = some (before, after)) (ha : st.attached = true)
    (hi : st.inbox = c :: rest) (hc : c.text = cs!"ABORT") :
    inputStdin (n + 1) st = (.err .nil, { st with inbox := rest, stdinBuf := [], stdinChunks := after }) := by
  rw [inputStdin, h]
  have h1 : (cs!"ABORT" == cs!"INTERRUPT") = false := by decide
  simp only [ha, if_true, hi, hc, h1, Bool.false_eq_true, if_false, beq_self_eq_true]

theorem inputStdin_other (n : Nat) (st : St) (before after : List (List UInt8)) (c : Command) (rest : List Command)
    (h : firstTimeout st.stdinBuf st.stdinChunks = some (before, after)) (ha : st.attached = true)
    (hi : st.inbox = c :: rest) (h1 : c.text ≠ cs!"INTERRUPT") (h2 : c.text ≠ cs!"ABORT") :
    inputStdin (n + 1) st = inputStdin n { st with inbox := rest, stdinChunks := before ++ after } := by
  rw [inputStdin, h]
  have h1' : (c.text == cs!"INTERRUPT") = false := by simpa using h1
  have h2' : (c.text == cs!"ABORT") = false := by simpa using h2
  simp only [ha, if_true, hi, h1', h2', Bool.false_eq_true, if_false]

theorem inputStdin_nothing (n : Nat) (st : St) (before after : List (List UInt8))
    (h : firstTimeout st.stdinBuf st.stdinChunks = some (before, after)) (ha : st.attached = true) (hi : st.inbox = []) :
    inputStdin (n + 1) st = inputStdin n { st with stdinChunks := before ++ after } := by
  rw [inputStdin, h]
  simp only [ha, if_true, hi]

theorem inputStdin_detached (n : Nat) (st : St) (before after : List (List UInt8))
    (h : firstTimeout st.stdinBuf st.stdinChunks = some (before, after)) (ha : st.attached = false) :
    inputStdin (n + 1) st = inputStdin n { st with stdinChunks := before ++ after } := by
  rw [inputStdin, h]
  simp only [ha, Bool.false_eq_true, if_false]

/-! ### what comes out, what changes -/

/-- the outcomes of `(input-file *stdin*)`: a string, an error property list, or the abort -/
inductive InputOutcome : Res Val → Prop
  | line (text : List Char) : InputOutcome (.ok (.ofChars text))
  | error (kind source : Name) (details : List (Name × Val)) : InputOutcome (.err (makeError kind source details))
  | abort : InputOutcome (.err .nil)

/-- `st'` is `st` except for the standard input and the pending debugger commands -/
def InputFrame (st st' : St) : Prop :=
  ∃ buf chunks inbox, st' = { st with stdinBuf := buf, stdinChunks := chunks, inbox := inbox }

theorem InputFrame.refl (st : St) : InputFrame st st := ⟨_, _, _, rfl⟩

theorem InputFrame.trans {a b c : St} (h1 : InputFrame a b) (h2 : InputFrame b c) : InputFrame a c := by
  obtain ⟨b1, c1, i1, rfl⟩ := h1
  obtain ⟨b2, c2, i2, rfl⟩ := h2
  exact ⟨b2, c2, i2, rfl⟩

theorem readLine_frame (st : St) : ∃ buf chunks, st.readLine.2 = { st with stdinBuf := buf, stdinChunks := chunks } := by
  unfold St.readLine
  simp only
  split
  · exact ⟨_, _, rfl⟩
  · split <;> exact ⟨_, _, rfl⟩

theorem readLineOutcome_snd (st : St) : (readLineOutcome st).2 = st.readLine.2 := by
  unfold readLineOutcome
  split <;> simp only [*]

theorem readLineOutcome_outcome (st : St) : InputOutcome (readLineOutcome st).1 := by
  unfold readLineOutcome
  split
  · exact .line _
  · exact .error ..
  · exact .error ..

theorem readLineOutcome_frame (st : St) : InputFrame st (readLineOutcome st).2 := by
  rw [readLineOutcome_snd]
  obtain ⟨buf, chunks, h⟩ := readLine_frame st
  exact ⟨buf, chunks, st.inbox, by rw [h]⟩

/-- induction principle: a property of the outcome that holds for `read_line`, for the two interruptions, and is
inherited along the skipped time-outs -/
theorem inputStdin_induction (P : St → Res Val × St → Prop)
    (hread : ∀ st, P st (readLineOutcome st))
    (hstop : ∀ st (r : Res Val) after rest, r = .err (makeError cs!"interrupted" cs!"input-file" []) ∨ r = .err .nil →
      P st (r, { st with inbox := rest, stdinBuf := [], stdinChunks := after }))
    (hskip : ∀ st chunks inbox o, P { st with inbox := inbox, stdinChunks := chunks } o → P st o)
    (n : Nat) (st : St) : P st (inputStdin n st) := by
  induction n generalizing st with
  | zero => exact hread st
  | succ n ih =>
    rw [inputStdin]
    split
    · split
      · split
        · dsimp only
          split
          · exact hstop st _ _ _ (.inl rfl)
          · split
            · exact hstop st _ _ _ (.inr rfl)
            · exact hskip st _ _ _ (ih _)
        · exact hskip st _ st.inbox _ (ih _)
      · exact hskip st _ st.inbox _ (ih _)
    · exact hread st

theorem inputStdin_outcome (n : Nat) (st : St) : InputOutcome (inputStdin n st).1 := by
  refine inputStdin_induction (fun _ o => InputOutcome o.1) readLineOutcome_outcome ?_ (fun _ _ _ _ h => h) n st
  rintro st r after rest (rfl | rfl)
  · exact .error ..
  · exact .abort

theorem inputStdin_frame (n : Nat) (st : St) : InputFrame st (inputStdin n st).2 := by
  refine inputStdin_induction (fun st o => InputFrame st o.2) readLineOutcome_frame ?_ ?_ n st
  · intro st r after rest _
    exact ⟨[], after, rest, rfl⟩
  · intro st chunks inbox o h
    exact InputFrame.trans ⟨st.stdinBuf, chunks, inbox, rfl⟩ h

theorem inputStdin_noCrash (n : Nat) (st : St) (s : List Char) : (inputStdin n st).1 ≠ .crash s := by
  intro h
  have := inputStdin_outcome n st
  rw [h] at this
  cases this

theorem inputStdin_not_outOfFuel (n : Nat) (st : St) : (inputStdin n st).1 ≠ .outOfFuel := by
  intro h
  have := inputStdin_outcome n st
  rw [h] at this
  cases this

/-! ### time-outs ahead -/

theorem firstTimeoutIn_length (chunks seen : List (List UInt8)) (before after : List (List UInt8))
    (h : firstTimeoutIn chunks seen = some (before, after)) :
    before.length + after.length + 1 = chunks.length + seen.length := by
  induction chunks generalizing seen with
  | nil => simp [firstTimeoutIn] at h
  | cons c cs ih =>
    rw [firstTimeoutIn] at h
    split at h
    · simp only [Option.some.injEq, Prod.mk.injEq] at h
      obtain ⟨rfl, rfl⟩ := h
      simp only [List.length_reverse, List.length_cons]; omega
    · split at h
      · cases h
      · split at h
        · cases h
        · have := ih _ h
          simp only [List.length_cons] at this ⊢; omega

/-- skipping a time-out leaves one chunk less -/
theorem firstTimeout_length (buf : List UInt8) (chunks before after : List (List UInt8))
    (h : firstTimeout buf chunks = some (before, after)) : (before ++ after).length + 1 = chunks.length := by
  unfold firstTimeout at h
  split at h
  · cases h
  · have := firstTimeoutIn_length chunks [] before after h
    simp only [List.length_append, List.length_nil] at this ⊢; omega

/-- the fuel does not matter once there is one unit per chunk: there is at most one time-out per chunk -/
theorem inputStdin_fuel_irrelevant (n m : Nat) (st : St) (hn : st.stdinChunks.length ≤ n) (hm : st.stdinChunks.length ≤ m) :
    inputStdin n st = inputStdin m st := by
  induction n generalizing m st with
  | zero =>
    have hc : st.stdinChunks = [] := List.eq_nil_of_length_eq_zero (by omega)
    cases m with
    | zero => rfl
    | succ m =>
      rw [inputStdin_zero, inputStdin_succ_none]
      simp [firstTimeout, hc, firstTimeoutIn]
  | succ n ih =>
    cases m with
    | zero =>
      have hc : st.stdinChunks = [] := List.eq_nil_of_length_eq_zero (by omega)
      rw [inputStdin_zero, inputStdin_succ_none]
      simp [firstTimeout, hc, firstTimeoutIn]
    | succ m =>
      rw [inputStdin, inputStdin]
      split
      · rename_i before after hft
        have hlen := firstTimeout_length _ _ _ _ hft
        split
        · split
          · dsimp only
            split
            · rfl
            · split
              · rfl
              · exact ih m _ (by dsimp only; omega) (by dsimp only; omega)
          · exact ih m _ (by dsimp only; omega) (by dsimp only; omega)
        · exact ih m _ (by dsimp only; omega) (by dsimp only; omega)
      · rfl

/-- with no time-out before the end of the line, `(input-file *stdin*)` is one `read_line` -/
theorem inputStdin_eq_readLine (n : Nat) (st : St) (h : firstTimeout st.stdinBuf st.stdinChunks = none) :
    inputStdin n st = readLineOutcome st := by
  cases n with
  | zero => rfl
  | succ n => exact inputStdin_succ_none n st h

/-! ### an input that is ordinary text up to the end of the line has no time-out ahead -/

theorem splitAfterNewline_append_of_none (a b : List UInt8) (h : splitAfterNewline a = none) :
    splitAfterNewline (a ++ b) = (splitAfterNewline b).map fun p => (a ++ p.1, p.2) := by
  induction a with
  | nil => cases hb : splitAfterNewline b <;> simp [hb]
  | cons x xs ih =>
    rw [splitAfterNewline] at h
    split at h
    · cases h
    · rename_i hx
      split at h
      · cases h
      · rename_i hn
        rw [List.cons_append, splitAfterNewline, if_neg hx, ih hn]
        cases splitAfterNewline b <;> rfl

/-- every byte up to and including the first newline (or all of them, when there is none) is below `0xF8` -/
def TextLine (bytes : List UInt8) : Prop :=
  match splitAfterNewline bytes with
  | some (pre, _) => ∀ b ∈ pre, b.toNat < 0xF8
  | none          => ∀ b ∈ bytes, b.toNat < 0xF8

theorem firstTimeoutIn_none_of_text (chunks seen : List (List UInt8)) (pending : List UInt8)
    (hp : splitAfterNewline pending = none) (ht : TextLine (pending ++ chunks.flatten)) :
    firstTimeoutIn chunks seen = none := by
  induction chunks generalizing seen pending with
  | nil => rfl
  | cons c cs ih =>
    rw [firstTimeoutIn]
    split
    · -- the chunk is the marker: its byte lies on the current line, contradiction
      rename_i hc
      exfalso
      subst hc
      rw [List.flatten_cons] at ht
      unfold TextLine at ht
      have hsplit : splitAfterNewline (pending ++ (timeoutChunk ++ cs.flatten)) =
          (splitAfterNewline (timeoutChunk ++ cs.flatten)).map fun p => (pending ++ p.1, p.2) :=
        splitAfterNewline_append_of_none _ _ hp
      have hsplit2 : splitAfterNewline (timeoutChunk ++ cs.flatten) =
          (splitAfterNewline cs.flatten).map fun p => (timeoutChunk ++ p.1, p.2) :=
        splitAfterNewline_append_of_none _ _ (by decide)
      rw [hsplit, hsplit2] at ht
      cases hs : splitAfterNewline cs.flatten with
      | none =>
        rw [hs] at ht
        have := ht 0xF8 (by simp [timeoutChunk])
        exact absurd this (by decide)
      | some p =>
        rw [hs] at ht
        have := ht 0xF8 (by simp [timeoutChunk])
        exact absurd this (by decide)
    · split
      · rfl
      · split
        · rfl
        · rename_i hnl
          have hnl' : splitAfterNewline c = none := by
            cases h : splitAfterNewline c with
            | none => rfl
            | some p => rw [h] at hnl; simp at hnl
          refine ih (c :: seen) (pending ++ c) ?_ ?_
          · rw [splitAfterNewline_append_of_none _ _ hp, hnl']; rfl
          · rw [List.append_assoc]; rw [List.flatten_cons] at ht; exact ht

/-- no time-out is ahead when the bytes up to the end of the current line are text -/
theorem firstTimeout_none_of_text (buf : List UInt8) (chunks : List (List UInt8)) (ht : TextLine (buf ++ chunks.flatten)) :
    firstTimeout buf chunks = none := by
  unfold firstTimeout
  split
  · rfl
  · rename_i h
    have h' : splitAfterNewline buf = none := by
      cases hs : splitAfterNewline buf with
      | none => rfl
      | some p => rw [hs] at h; simp at h
    exact firstTimeoutIn_none_of_text chunks [] buf h' ht

theorem firstTimeout_nil (buf : List UInt8) : firstTimeout buf [] = none := by
  unfold firstTimeout; split <;> rfl

end Pici
