/-
Mark phase (part of C01 / C03): both mark loops — the one written in `collect` (no visited test) and the executable
one with a visited test — compute exactly the set of reachable cells whenever they return.
-/
import PiciModel.Spec.HeapSpec
import PiciModel.Lemmas.Mark

namespace Pici.Heap

/-- everything on the initial stack is a root -/
theorem roots_reach (h : Heap) (a : Addr) (ha : a ∈ (roots h).reverse) : Reach h a := by
  exact Reach.root (List.mem_reverse.mp ha)

/-- the mark loop as written in the source: if it returns, it returns exactly the reachable cells -/
theorem markLoop_marked (h : Heap) (fuel : Nat) (R : List Addr)
    (hm : markLoop h fuel (roots h).reverse [] = some R) : Marked h R := by
  exact markLoop_marked' h fuel R hm

/-- the executable mark loop (visited test): the same -/
theorem markFast_marked (h : Heap) (fuel : Nat) (R : List Addr)
    (hm : markFast h fuel (roots h).reverse [] = some R) : Marked h R := by
  exact markFast_marked' h fuel R hm

/-- so the two loops agree as sets, whatever fuel each needed -/
theorem mark_agree (h : Heap) (f1 f2 : Nat) (R1 R2 : List Addr)
    (h1 : markLoop h f1 (roots h).reverse [] = some R1) (h2 : markFast h f2 (roots h).reverse [] = some R2) :
    ∀ a, a ∈ R1 ↔ a ∈ R2 := by
  intro a
  rw [markLoop_marked h f1 R1 h1 a, markFast_marked h f2 R2 h2 a]

/-- the executable loop never runs out of the fuel `collectFast` gives it, on heaps whose used cells only refer to
cells of the store (any heap satisfying the invariant) -/
theorem markFast_terminates (h : Heap) (hinv : Inv h) :
    ∃ R, markFast h (markFuel h) (roots h).reverse [] = some R := by
  exact markFast_terminates' h hinv

end Pici.Heap
