/-
C02 — Evaluation depends only on program and input (GC schedule, hash seed, addresses).

(a) Collection schedule: two clients of the heap API that perform the same operations under ANY two collection
    schedules stay isomorphic — there is a bijection between their reachable cells that commutes with contents, handles,
    globals and the symbol table — and receive the same responses; hence the trees their handles denote are equal up to
    the renaming of generated-symbol identities.  (The Rust evaluator is such a client: cells are reachable only through
    `GcRef` handles.)
(b) Hash seeds: every answer of the module table is invariant under permutation of the table (`C14.getGlobal_perm`, and
    `whereis` here).
(c) Addresses: the printed text does not depend on the identity of generated symbols (functions, traps and generated
    symbols print a fixed mask where the real interpreter prints an address).
-/
import PiciModel.Props.C01
import PiciModel.Props.C14
import PiciModel.Model.Printer
import PiciModel.Lemmas.Schedule

namespace Pici.C02
open Pici Pici.Heap Pici.C01

/-! ### (a) collection schedules -/

/-- contents related by an address map: same kind and payload, children (and a symbol's own address) mapped -/
def ContentRel (φ : Addr → Addr) : Content → Content → Prop
  | .num n, .num m => n = m
  | .chr c, .chr d => c = d
  | .cons a d, .cons a' d' => a.map φ = a' ∧ d.map φ = d'
  | .sym n o, .sym n' o' => n = n' ∧ o.map φ = o'
  | .fn k r ps b e m, .fn k' r' ps' b' e' m' => k = k' ∧ r = r' ∧ ps.map φ = ps' ∧ b.map φ = b' ∧ e.map φ = e' ∧ m = m'
  | .trap n t, .trap n' t' => n.map φ = n' ∧ t.map φ = t'
  | .md v m, .md v' m' => v.map φ = v' ∧ m = m'
  | _, _ => False

def SlotRel (φ : Addr → Addr) : Option Slot → Option Slot → Prop
  | none, none => True
  | some none, some none => True
  | some (some none), some (some none) => True
  | some (some (some a)), some (some (some b)) => φ a = b
  | _, _ => False

/-- two client states that differ only by where their cells live and by garbage -/
structure Iso (s1 s2 : HeapState) (φ : Addr → Addr) : Prop where
  slots   : ∀ i : Nat, SlotRel φ (s1.slots[i]?) (s2.slots[i]?)
  globals : s1.heap.globals.map (·.1) = s2.heap.globals.map (·.1) ∧
            s1.heap.globals.map (fun p => p.2.map φ) = s2.heap.globals.map (·.2)
  inj     : ∀ a b, Reach s1.heap a → Reach s1.heap b → φ a = φ b → a = b
  reach   : ∀ a, Reach s1.heap a → Reach s2.heap (φ a)
  surj    : ∀ b, Reach s2.heap b → ∃ a, Reach s1.heap a ∧ φ a = b
  content : ∀ a, Reach s1.heap a → ContentRel φ (s1.heap.cell a).content (s2.heap.cell (φ a)).content
  symtab  : ∀ n a, Reach s1.heap a → ((n, a) ∈ s1.heap.symtab ↔ (n, φ a) ∈ s2.heap.symtab)
  /-- every reachable symbol cell knows its own address (on the second side this follows through `content`).
  Needed: `ContentRel` maps a symbol's `own` field, but `SInv` does not say that a GENERATED symbol's `own` is the cell itself
  (`Inv.symSound` only covers table entries).  With a generated symbol at cell 0 whose `own` is the free cell 2 — a state no history
  from `HeapState.init` produces: `symbolFor` / `uniqueSymbol` always store the cell's own address — and a garbage cell 1,
  `.num 1 7` puts the number in cell 2 without a collection and in cell 1 after one, so the new map would have to send 2 to 1
  (slot 1) and to 2 (`own` of cell 0): `step_iso` would be false. -/
  own     : ∀ a n o, Reach s1.heap a → (s1.heap.cell a).content = .sym n o → o = some a

/-- pointwise relation of two lists (core has no `List.Forall₂`) -/
inductive Forall2 {α β : Type} (R : α → β → Prop) : List α → List β → Prop where
  | nil : Forall2 R [] []
  | cons {a b as bs} : R a b → Forall2 R as bs → Forall2 R (a :: as) (b :: bs)

/-- responses that a client can tell apart: everything except the cell counts a collection reports -/
def RespRel : HeapResp → HeapResp → Prop
  | .collected _ _, .collected _ _ => True
  | r1, r2 => r1 = r2

section helpers
open Pici.Sched Pici.HeapState

theorem contentRel_iff (φ : Addr → Addr) (c c' : Content) : ContentRel φ c c' ↔ c' = mapAddr φ c := by
  cases c <;> cases c' <;> simp [ContentRel, mapAddr, eq_comm]

theorem slotRel_iff (φ : Addr → Addr) (x y : Option Slot) : SlotRel φ x y ↔ y = x.map (smap φ) := by
  rcases x with _ | _ | _ | a <;> rcases y with _ | _ | _ | b <;> simp [SlotRel, smap, eq_comm]

theorem slots_iff (φ : Addr → Addr) (l1 l2 : List Slot) : (∀ i : Nat, SlotRel φ l1[i]? l2[i]?) ↔ l2 = l1.map (smap φ) := by
  constructor
  · intro h
    apply List.ext_getElem?
    intro i
    rw [List.getElem?_map]
    exact (slotRel_iff _ _ _).1 (h i)
  · rintro rfl i
    rw [slotRel_iff, List.getElem?_map]

theorem respRel_refl (r : HeapResp) : RespRel r r := by
  cases r <;> simp [RespRel]

theorem Iso.slots' {s1 s2 : HeapState} {φ : Addr → Addr} (h : Iso s1 s2 φ) : s2.slots = s1.slots.map (smap φ) :=
  (slots_iff _ _ _).1 h.slots

theorem Iso.globals' {s1 s2 : HeapState} {φ : Addr → Addr} (h : Iso s1 s2 φ) : s2.heap.globals = gmap φ s1.heap.globals :=
  (globRel_iff _ _ _).1 h.globals

theorem Iso.content' {s1 s2 : HeapState} {φ : Addr → Addr} (h : Iso s1 s2 φ) (a : Addr) (hr : Reach s1.heap a) :
    (s2.heap.cell (φ a)).content = mapAddr φ (s1.heap.cell a).content :=
  (contentRel_iff _ _ _).1 (h.content a hr)

/-- handles correspond -/
theorem held_to {s1 s2 : HeapState} {φ : Addr → Addr} (hslots : s2.slots = s1.slots.map (smap φ))
    (hglob : s2.heap.globals = gmap φ s1.heap.globals) (a : Addr) (h : 0 < heldCount s1 a) : 0 < heldCount s2 (φ a) := by
  rcases held_cases h with hs | hg
  · apply held_of_slot
    rw [hslots]
    exact List.mem_map.2 ⟨_, hs, rfl⟩
  · apply held_of_glob
    rw [hglob]
    obtain ⟨p, hp, e⟩ := List.mem_map.1 hg
    exact List.mem_map.2 ⟨(p.1, p.2.map φ), List.mem_map.2 ⟨p, hp, rfl⟩, by simp [e]⟩

theorem held_back {s1 s2 : HeapState} {φ : Addr → Addr} (hslots : s2.slots = s1.slots.map (smap φ))
    (hglob : s2.heap.globals = gmap φ s1.heap.globals) (b : Addr) (h : 0 < heldCount s2 b) :
    ∃ a, 0 < heldCount s1 a ∧ φ a = b := by
  rcases held_cases h with hs | hg
  · rw [hslots] at hs
    obtain ⟨a, ha, e⟩ := mem_smap hs
    exact ⟨a, held_of_slot ha, e⟩
  · rw [hglob] at hg
    obtain ⟨a, ha, e⟩ := mem_gmap_vals hg
    exact ⟨a, held_of_glob ha, e⟩

/-- the isomorphism from its data on a set of cells that contains the roots and is closed under the reference edges:
the correspondence of reachability and of the symbol table follows -/
theorem iso_mk (s1 s2 : HeapState) (φ : Addr → Addr) (h1 : SInv s1) (h2 : SInv s2)
    (hslots : s2.slots = s1.slots.map (smap φ)) (hglob : s2.heap.globals = gmap φ s1.heap.globals)
    (P : Addr → Prop) (hroot : ∀ a, 0 < heldCount s1 a → P a)
    (hkids : ∀ a, P a → ∀ b ∈ kids s1.heap a, P b)
    (hinj : ∀ a b, P a → P b → φ a = φ b → a = b)
    (hcont : ∀ a, P a → (s2.heap.cell (φ a)).content = mapAddr φ (s1.heap.cell a).content)
    (hown : ∀ a n o, P a → (s1.heap.cell a).content = .sym n o → o = some a) : Iso s1 s2 φ := by
  have reachP : ∀ a, Reach s1.heap a → P a := by
    intro a hr
    induction hr with
    | root hr => exact hroot _ (by rw [← h1.rc]; exact (mem_roots_iff.1 hr).2)
    | step _ hb ih => exact hkids _ ih _ hb
  have kidsEq : ∀ a, P a → kids s2.heap (φ a) = (kids s1.heap a).map φ := by
    intro a ha
    unfold kids
    rw [hcont a ha, children_mapAddr]
  have hreach : ∀ a, Reach s1.heap a → Reach s2.heap (φ a) := by
    intro a hr
    induction hr with
    | root hr =>
      apply held_reach' s2 h2
      apply held_to hslots hglob
      rw [← h1.rc]
      exact (mem_roots_iff.1 hr).2
    | step hr hb ih =>
      apply Reach.step ih
      rw [kidsEq _ (reachP _ hr)]
      exact List.mem_map.2 ⟨_, hb, rfl⟩
  have hsurj : ∀ b, Reach s2.heap b → ∃ a, Reach s1.heap a ∧ φ a = b := by
    intro b hr
    induction hr with
    | root hr =>
      obtain ⟨a, ha, e⟩ := held_back hslots hglob _ (by rw [← h2.rc]; exact (mem_roots_iff.1 hr).2)
      exact ⟨a, held_reach' s1 h1 a ha, e⟩
    | step _ hb ih =>
      obtain ⟨a, ha, rfl⟩ := ih
      rw [kidsEq _ (reachP _ ha)] at hb
      obtain ⟨c, hc, e⟩ := List.mem_map.1 hb
      exact ⟨c, Reach.step ha hc, e⟩
  refine ⟨(slots_iff _ _ _).2 hslots, (globRel_iff _ _ _).2 hglob, fun a b ha hb => hinj a b (reachP a ha) (reachP b hb),
    hreach, hsurj, fun a ha => (contentRel_iff _ _ _).2 (hcont a (reachP a ha)), ?_, fun a n o ha => hown a n o (reachP a ha)⟩
  intro n a ha
  have hu1 := reach_used s1.heap h1.heap a ha
  have hu2 := reach_used s2.heap h2.heap _ (hreach a ha)
  have hc := hcont a (reachP a ha)
  constructor
  · intro hm
    obtain ⟨_, hs⟩ := h1.heap.symSound n a hm
    rw [hs] at hc
    exact h2.heap.symComplete _ n _ hu2 hc
  · intro hm
    obtain ⟨_, hs⟩ := h2.heap.symSound n _ hm
    rw [hs] at hc
    cases hcc : (s1.heap.cell a).content with
    | sym n' o =>
      rw [hcc] at hc
      simp only [mapAddr, Content.sym.injEq] at hc
      rw [← hc.1] at hcc
      exact h1.heap.symComplete a n o hu1 hcc
    | _ => rw [hcc] at hc; simp [mapAddr] at hc

/-- one step on both sides: the old correspondence, possibly extended by one new cell -/
theorem iso_next {s1 s2 s1' s2' : HeapState} {φ : Addr → Addr} (hiso : Iso s1 s2 φ) (i1 : SInv s1') (i2 : SInv s2')
    (c1 : ∀ a, Reach s1.heap a → (s1'.heap.cell a).content = (s1.heap.cell a).content)
    (c2 : ∀ a, Reach s2.heap a → (s2'.heap.cell a).content = (s2.heap.cell a).content)
    (n1 : Option Addr) (φ' : Addr → Addr)
    (hroots : ∀ a, 0 < heldCount s1' a → Reach s1.heap a ∨ n1 = some a)
    (hφ : ∀ a, Reach s1.heap a → φ' a = φ a)
    (hnew : ∀ a, n1 = some a → ¬ Reach s2.heap (φ' a) ∧
        (s2'.heap.cell (φ' a)).content = mapAddr φ' (s1'.heap.cell a).content ∧
        (∀ b ∈ (s1'.heap.cell a).content.children, Reach s1.heap b ∨ b = a) ∧
        (∀ n o, (s1'.heap.cell a).content = .sym n o → o = some a))
    (hslots : s2'.slots = s1'.slots.map (smap φ')) (hglob : s2'.heap.globals = gmap φ' s1'.heap.globals) :
    Iso s1' s2' φ' := by
  apply iso_mk s1' s2' φ' i1 i2 hslots hglob (fun a => Reach s1.heap a ∨ n1 = some a) hroots
  · intro a ha b hb
    rcases ha with ha | ha
    · left
      unfold kids at hb
      rw [c1 a ha] at hb
      exact Reach.step ha hb
    · rcases (hnew a ha).2.2.1 b hb with h | h
      · exact Or.inl h
      · right; rw [h]; exact ha
  · intro a b ha hb e
    rcases ha with ha | ha <;> rcases hb with hb | hb
    · rw [hφ a ha, hφ b hb] at e
      exact hiso.inj a b ha hb e
    · exfalso
      apply (hnew b hb).1
      rw [← e, hφ a ha]
      exact hiso.reach a ha
    · exfalso
      apply (hnew a ha).1
      rw [e, hφ b hb]
      exact hiso.reach b hb
    · rw [ha] at hb
      exact Option.some.inj hb
  · intro a ha
    rcases ha with ha | ha
    · rw [hφ a ha, c2 _ (hiso.reach a ha), hiso.content' a ha, c1 a ha]
      symm
      apply mapAddr_congr
      · intro b hb
        exact hφ b (Reach.step ha hb)
      · intro n o hc
        rw [hiso.own a n o ha hc]
        simp only [Option.map_some, hφ a ha]
    · exact (hnew a ha).2.1
  · intro a n o ha hc
    rcases ha with ha | ha
    · rw [c1 a ha] at hc
      exact hiso.own a n o ha hc
    · exact (hnew a ha).2.2.2 n o hc

theorem mem_setSlot_held {l : List Slot} {d : Nat} {v : Slot} {a : Addr}
    (h : (some (some a) : Slot) ∈ setSlotList l d v) : (some (some a) : Slot) ∈ l ∨ v = some (some a) := by
  rcases mem_setSlotList _ d l v h with h | h | h
  · exact Or.inl h
  · exact Or.inr h.symm
  · cases h

/-- both sides put corresponding old handles (or nothing) in a slot -/
theorem iso_slot_same {s1 s2 s1' s2' : HeapState} {φ : Addr → Addr} {r1 r2 : HeapResp} (hiso : Iso s1 s2 φ) (h1 : SInv s1)
    (ok1 : StepOK s1 s1' r1) (ok2 : StepOK s2 s2' r2) (dst : Nat) (v : Slot)
    (hv : ∀ a, v = some (some a) → Reach s1.heap a)
    (sl1 : s1'.slots = setSlotList s1.slots dst v) (sl2 : s2'.slots = setSlotList s2.slots dst (smap φ v))
    (g1 : s1'.heap.globals = s1.heap.globals) (g2 : s2'.heap.globals = s2.heap.globals) : Iso s1' s2' φ := by
  apply iso_next hiso ok1.sinv ok2.sinv ok1.content ok2.content none φ
  · intro a ha
    left
    rcases held_cases ha with hs | hg
    · rw [sl1] at hs
      rcases mem_setSlot_held hs with h | h
      · exact held_reach' s1 h1 a (held_of_slot h)
      · exact hv a h
    · rw [g1] at hg
      exact held_reach' s1 h1 a (held_of_glob hg)
  · intro a _; rfl
  · intro a ha; cases ha
  · rw [sl1, sl2, hiso.slots', setSlotList_map]
  · rw [g1, g2, hiso.globals']

/-- both sides put the handle of a new cell in a slot -/
theorem iso_slot_new {s1 s2 s1' s2' : HeapState} {φ : Addr → Addr} {r1 r2 : HeapResp} (hiso : Iso s1 s2 φ) (h1 : SInv s1)
    (ok1 : StepOK s1 s1' r1) (ok2 : StepOK s2 s2' r2) (dst : Nat) (a1 a2 : Addr)
    (f1 : ¬ Reach s1.heap a1) (f2 : ¬ Reach s2.heap a2)
    (hc : (s2'.heap.cell a2).content = mapAddr (upd φ a1 a2) (s1'.heap.cell a1).content)
    (hk : ∀ b ∈ (s1'.heap.cell a1).content.children, Reach s1.heap b ∨ b = a1)
    (ho : ∀ n o, (s1'.heap.cell a1).content = .sym n o → o = some a1)
    (sl1 : s1'.slots = setSlotList s1.slots dst (some (some a1)))
    (sl2 : s2'.slots = setSlotList s2.slots dst (some (some a2)))
    (g1 : s1'.heap.globals = s1.heap.globals) (g2 : s2'.heap.globals = s2.heap.globals) :
    Iso s1' s2' (upd φ a1 a2) := by
  have hφ : ∀ a, Reach s1.heap a → upd φ a1 a2 a = φ a := by
    intro a ha
    apply upd_ne
    rintro rfl
    exact f1 ha
  apply iso_next hiso ok1.sinv ok2.sinv ok1.content ok2.content (some a1) (upd φ a1 a2)
  · intro a ha
    rcases held_cases ha with hs | hg
    · rw [sl1] at hs
      rcases mem_setSlot_held hs with h | h
      · exact Or.inl (held_reach' s1 h1 a (held_of_slot h))
      · right; cases h; rfl
    · rw [g1] at hg
      exact Or.inl (held_reach' s1 h1 a (held_of_glob hg))
  · exact hφ
  · intro a ha
    cases ha
    rw [upd_self]
    exact ⟨f2, hc, hk, ho⟩
  · rw [sl1, sl2, hiso.slots', setSlotList_map]
    have : smap (upd φ a1 a2) (some (some a1)) = some (some a2) := by simp [smap, upd_self]
    rw [this]
    congr 1
    symm
    apply smap_congr
    intro a ha
    exact hφ a (held_reach' s1 h1 a (held_of_slot ha))
  · rw [g1, g2, hiso.globals']
    symm
    apply gmap_congr
    intro a ha
    exact hφ a (held_reach' s1 h1 a (held_of_glob ha))

/-- both sides change the global definitions alike -/
theorem iso_glob {s1 s2 s1' s2' : HeapState} {φ : Addr → Addr} {r1 r2 : HeapResp} (hiso : Iso s1 s2 φ)
    (ok1 : StepOK s1 s1' r1) (ok2 : StepOK s2 s2' r2) (G : Globals)
    (hG : ∀ a, some a ∈ G.map (·.2) → Reach s1.heap a) (h1 : SInv s1)
    (sl1 : s1'.slots = s1.slots) (sl2 : s2'.slots = s2.slots)
    (g1 : s1'.heap.globals = G) (g2 : s2'.heap.globals = gmap φ G) : Iso s1' s2' φ := by
  apply iso_next hiso ok1.sinv ok2.sinv ok1.content ok2.content none φ
  · intro a ha
    left
    rcases held_cases ha with hs | hg
    · rw [sl1] at hs
      exact held_reach' s1 h1 a (held_of_slot hs)
    · rw [g1] at hg
      exact hG a hg
  · intro a _; rfl
  · intro a ha; cases ha
  · rw [sl1, sl2, hiso.slots']
  · rw [g1, g2]


theorem stepOK_of_eq {s s' : HeapState} {op : HeapOp} {r : HeapResp} (h : SInv s) (e : s.step op = (s', r)) : StepOK s s' r := by
  have := step_ok s op h
  rw [e] at this
  exact this

/-- both sides allocate corresponding contents -/
theorem alloc_iso {s1 s2 : HeapState} {φ : Addr → Addr} (hiso : Iso s1 s2 φ) (h1 : SInv s1) (h2 : SInv s2) (dst : Nat)
    (c : Content) (hkids : ∀ b ∈ c.children, 0 < heldCount s1 b) (hsym : ∀ n o, c ≠ .sym n o) :
    ∃ φ', Iso (allocStep s1 dst c).1 (allocStep s2 dst (mapAddr φ c)).1 φ' ∧
      RespRel (allocStep s1 dst c).2 (allocStep s2 dst (mapAddr φ c)).2 := by
  have hkids2 : ∀ b ∈ (mapAddr φ c).children, 0 < heldCount s2 b := by
    intro b hb
    rw [children_mapAddr] at hb
    obtain ⟨a, ha, rfl⟩ := List.mem_map.1 hb
    exact held_to hiso.slots' hiso.globals' a (hkids a ha)
  have hsym2 : ∀ n o, mapAddr φ c ≠ .sym n o := by
    intro n o e
    cases c <;> simp [mapAddr] at e
    exact hsym _ _ rfl
  have ok1 : StepOK s1 (allocStep s1 dst c).1 (allocStep s1 dst c).2 :=
    step_allocHandle s1 dst c h1 hkids (fun n o => hsym _ o)
  have ok2 : StepOK s2 (allocStep s2 dst (mapAddr φ c)).1 (allocStep s2 dst (mapAddr φ c)).2 :=
    step_allocHandle s2 dst _ h2 hkids2 (fun n o => hsym2 _ o)
  obtain ⟨s1', a1, e1, sl1, g1, f1, hc1⟩ := allocStep_res s1 h1 dst c hkids (fun n o => hsym _ o)
  obtain ⟨s2', a2, e2, sl2, g2, f2, hc2⟩ := allocStep_res s2 h2 dst _ hkids2 (fun n o => hsym2 _ o)
  rw [e1] at ok1 ⊢
  rw [e2] at ok2 ⊢
  refine ⟨upd φ a1 a2, iso_slot_new hiso h1 ok1 ok2 dst a1 a2 f1 f2 ?_ ?_ ?_ sl1 sl2 g1 g2, respRel_refl _⟩
  · rw [hc1, hc2]
    symm
    apply mapAddr_congr
    · intro b hb
      apply upd_ne
      rintro rfl
      exact f1 (held_reach' _ h1 _ (hkids _ hb))
    · intro n o e
      exact (hsym n o e).elim
  · intro b hb
    rw [hc1] at hb
    exact Or.inl (held_reach' _ h1 _ (hkids _ hb))
  · intro n o e
    rw [hc1] at e
    exact (hsym n o e).elim

/-- both sides hand out one more handle on corresponding cells -/
theorem give_iso {s1 s2 : HeapState} {φ : Addr → Addr} (hiso : Iso s1 s2 φ) (h1 : SInv s1) (h2 : SInv s2) (dst : Nat)
    (x : Option Addr) (hx : ∀ a, x = some a → Reach s1.heap a) :
    ∃ φ', Iso (giveStep s1 dst x).1 (giveStep s2 dst (x.map φ)).1 φ' ∧
      RespRel (giveStep s1 dst x).2 (giveStep s2 dst (x.map φ)).2 := by
  have hx2 : ∀ b, x.map φ = some b → Reach s2.heap b := by
    intro b hb
    cases x with
    | none => cases hb
    | some a => cases hb; exact hiso.reach a (hx a rfl)
  obtain ⟨s1', e1, i1, r1, g1, sl1⟩ := give_ok s1 dst x h1 (fun a ha => reach_used _ h1.heap a (hx a ha))
  obtain ⟨s2', e2, i2, r2, g2, sl2⟩ := give_ok s2 dst (x.map φ) h2 (fun a ha => reach_used _ h2.heap a (hx2 a ha))
  have e1' : giveStep s1 dst x = (s1', .ok) := by unfold giveStep; simp only [e1]
  have e2' : giveStep s2 dst (x.map φ) = (s2', .ok) := by unfold giveStep; simp only [e2]
  rw [e1', e2']
  refine ⟨φ, iso_slot_same hiso h1 (StepOK.rcOnly i1 r1) (StepOK.rcOnly i2 r2) dst (some x) ?_ sl1 sl2 g1 g2, respRel_refl _⟩
  intro a ha
  cases ha
  exact hx a rfl

theorem same_iso {s1 s2 : HeapState} {φ : Addr → Addr} (hiso : Iso s1 s2 φ) (r : HeapResp) :
    ∃ φ', Iso (s1, r).1 (s2, r).1 φ' ∧ RespRel (s1, r).2 (s2, r).2 := ⟨φ, hiso, respRel_refl r⟩

theorem arg_iso {s1 s2 : HeapState} {φ : Addr → Addr} (hiso : Iso s1 s2 φ) (i : Int) :
    s2.arg i = (s1.arg i).map (Option.map φ) := arg_map hiso.slots' i

theorem arg_reach {s : HeapState} (h : SInv s) {i : Int} {x : Option Addr} (hx : s.arg i = some x) :
    ∀ a, x = some a → Reach s.heap a := by
  intro a ha
  subst ha
  exact held_reach' s h a (arg_held hx)

theorem paramBad_iso {s1 s2 : HeapState} {φ : Addr → Addr} (hiso : Iso s1 s2 φ) (p : Option (Option Addr))
    (hp : ∀ a, p = some (some a) → Reach s1.heap a) :
    paramBad s2.heap (p.map (Option.map φ)) = paramBad s1.heap p := by
  rcases p with _ | _ | a
  · rfl
  · rfl
  · have ha := hp a rfl
    simp only [Option.map_some, paramBad]
    rw [hiso.content' a ha]
    cases hc : (s1.heap.cell a).content with
    | md v m =>
      cases v with
      | none => simp [mapAddr]
      | some t =>
        have ht : Reach s1.heap t := Reach.step ha (by simp [kids, hc, Content.children])
        simp only [mapAddr, Option.map_some]
        rw [hiso.content' t ht]
        cases (s1.heap.cell t).content <;> simp [mapAddr]
    | _ => simp [mapAddr]

theorem isMd_iso {s1 s2 : HeapState} {φ : Addr → Addr} (hiso : Iso s1 s2 φ) (x : Option Addr)
    (hx : ∀ a, x = some a → Reach s1.heap a) : isMd s2.heap (x.map φ) = isMd s1.heap x := by
  cases x with
  | none => rfl
  | some a =>
    simp only [Option.map_some, isMd]
    rw [hiso.content' a (hx a rfl)]
    cases (s1.heap.cell a).content <;> simp [mapAddr]

theorem target_iso {s1 s2 : HeapState} {φ : Addr → Addr} (hiso : Iso s1 s2 φ) (a : Addr) (ha : Reach s1.heap a) :
    target s2.heap (φ a) = φ (target s1.heap a) ∧ Reach s1.heap (target s1.heap a) := by
  unfold target
  rw [hiso.content' a ha]
  cases hc : (s1.heap.cell a).content with
  | md v m =>
    cases v with
    | none => exact ⟨rfl, ha⟩
    | some t => exact ⟨rfl, Reach.step ha (by simp [kids, hc, Content.children])⟩
  | _ => exact ⟨rfl, ha⟩

theorem mem_redefine_vals {n : Name} {x : Option Addr} {g : Globals} {a : Addr}
    (h : some a ∈ (redefine n x g).map (·.2)) : some a ∈ g.map (·.2) ∨ x = some a := by
  simp only [redefine, List.map_map, List.mem_map, Function.comp] at h
  obtain ⟨p, hp, e⟩ := h
  obtain ⟨k, v⟩ := p
  by_cases hk : (k == n) = true
  · simp only [hk, if_true] at e
    exact Or.inr e
  · simp only [hk] at e
    exact Or.inl (List.mem_map.2 ⟨_, hp, e⟩)

end helpers

open Pici.Sched in
/-- one operation, performed under any two schedule states, keeps two isomorphic clients isomorphic and answers the same -/
theorem step_iso (s1 s2 : HeapState) (φ : Addr → Addr) (h1 : SInv s1) (h2 : SInv s2) (hiso : Iso s1 s2 φ) (op : HeapOp) :
    ∃ φ', Iso (s1.step op).1 (s2.step op).1 φ' ∧ RespRel (s1.step op).2 (s2.step op).2 := by
  cases op with
  | num dst n =>
    rw [step_num, step_num]
    exact alloc_iso hiso h1 h2 dst (.num n) (by simp [Content.children]) (by intro n o e; cases e)
  | chr dst n =>
    rw [step_chr, step_chr]
    exact alloc_iso hiso h1 h2 dst (.chr n) (by simp [Content.children]) (by intro n o e; cases e)
  | cons dst a d =>
    have ea := arg_iso hiso a
    have ed := arg_iso hiso d
    cases hx : s1.arg a with
    | none =>
      rw [step_cons_refused (Or.inl hx), step_cons_refused (Or.inl (by rw [ea, hx]; rfl))]
      exact same_iso hiso _
    | some x =>
      cases hy : s1.arg d with
      | none =>
        rw [step_cons_refused (Or.inr hy), step_cons_refused (Or.inr (by rw [ed, hy]; rfl))]
        exact same_iso hiso _
      | some y =>
        rw [step_cons hx hy, step_cons (show s2.arg a = some (x.map φ) by rw [ea, hx]; rfl)
          (show s2.arg d = some (y.map φ) by rw [ed, hy]; rfl)]
        refine alloc_iso hiso h1 h2 dst (.cons x y) ?_ (by intro n o e; cases e)
        intro b hb
        simp only [Content.children, List.mem_append] at hb
        rcases hb with hb | hb
        · exact toList_held hx b hb
        · exact toList_held hy b hb
  | trap dst a d =>
    have ea := arg_iso hiso a
    have ed := arg_iso hiso d
    cases hx : s1.arg a with
    | none =>
      rw [step_trap_refused (Or.inl hx), step_trap_refused (Or.inl (by rw [ea, hx]; rfl))]
      exact same_iso hiso _
    | some x =>
      cases hy : s1.arg d with
      | none =>
        rw [step_trap_refused (Or.inr hy), step_trap_refused (Or.inr (by rw [ed, hy]; rfl))]
        exact same_iso hiso _
      | some y =>
        rw [step_trap hx hy, step_trap (show s2.arg a = some (x.map φ) by rw [ea, hx]; rfl)
          (show s2.arg d = some (y.map φ) by rw [ed, hy]; rfl)]
        refine alloc_iso hiso h1 h2 dst (.trap x y) ?_ (by intro n o e; cases e)
        intro b hb
        simp only [Content.children, List.mem_append] at hb
        rcases hb with hb | hb
        · exact toList_held hx b hb
        · exact toList_held hy b hb
  | sym dst name =>
    obtain ⟨s1', a1, e1, sl1, g1, hc1, u1⟩ := sym_res s1 h1 dst name
    obtain ⟨s2', a2, e2, sl2, g2, hc2, u2⟩ := sym_res s2 h2 dst name
    have ok1 := stepOK_of_eq h1 e1
    have ok2 := stepOK_of_eq h2 e2
    rw [e1, e2]
    by_cases hr : Reach s1.heap a1
    · have hc : (s1.heap.cell a1).content = .sym (some name) (some a1) := by rw [← ok1.content a1 hr]; exact hc1
      have hm : (name, a1) ∈ s1.heap.symtab := h1.heap.symComplete a1 name _ (reach_used _ h1.heap _ hr) hc
      have hm2 := (hiso.symtab name a1 hr).1 hm
      have : a2 = φ a1 := u2 _ hm2
      subst this
      exact ⟨φ, iso_slot_same hiso h1 ok1 ok2 dst (some (some a1)) (by intro a h; cases h; exact hr) sl1 sl2 g1 g2,
        respRel_refl _⟩
    · have hr2 : ¬ Reach s2.heap a2 := by
        intro hr2
        obtain ⟨a', ha', rfl⟩ := hiso.surj a2 hr2
        have hc : (s2.heap.cell (φ a')).content = .sym (some name) (some (φ a')) := by rw [← ok2.content _ hr2]; exact hc2
        have hm2 : (name, φ a') ∈ s2.heap.symtab := h2.heap.symComplete _ name _ (reach_used _ h2.heap _ hr2) hc
        have hm := (hiso.symtab name a' ha').2 hm2
        have := u1 _ hm
        subst this
        exact hr ha'
      refine ⟨upd φ a1 a2, iso_slot_new hiso h1 ok1 ok2 dst a1 a2 hr hr2 ?_ ?_ ?_ sl1 sl2 g1 g2, respRel_refl _⟩
      · rw [hc1, hc2]
        simp [mapAddr, upd_self]
      · rw [hc1]
        simp [Content.children]
      · intro n o e
        rw [hc1] at e
        cases e
        rfl
  | gensym dst =>
    obtain ⟨s1', a1, e1, sl1, g1, f1, hc1⟩ := gensym_res s1 h1 dst
    obtain ⟨s2', a2, e2, sl2, g2, f2, hc2⟩ := gensym_res s2 h2 dst
    have ok1 := stepOK_of_eq h1 e1
    have ok2 := stepOK_of_eq h2 e2
    rw [e1, e2]
    refine ⟨upd φ a1 a2, iso_slot_new hiso h1 ok1 ok2 dst a1 a2 f1 f2 ?_ ?_ ?_ sl1 sl2 g1 g2, respRel_refl _⟩
    · rw [hc1, hc2]
      simp [mapAddr, upd_self]
    · rw [hc1]
      simp [Content.children]
    · intro n o e
      rw [hc1] at e
      cases e
      rfl
  | fn dst kind rest body env mod params =>
    have eb := arg_iso hiso body
    have ee := arg_iso hiso env
    cases hb : s1.arg body with
    | none =>
      rw [step_fn_refused (Or.inl hb), step_fn_refused (Or.inl (by rw [eb, hb]; rfl))]
      exact same_iso hiso _
    | some b =>
      cases he : s1.arg env with
      | none =>
        rw [step_fn_refused (Or.inr he), step_fn_refused (Or.inr (by rw [ee, he]; rfl))]
        exact same_iso hiso _
      | some e =>
        rw [step_fn hb he, step_fn (show s2.arg body = some (b.map φ) by rw [eb, hb]; rfl)
          (show s2.arg env = some (e.map φ) by rw [ee, he]; rfl)]
        have hfm : ((params.map fun p => s2.arg (Int.ofNat p)).filterMap fun p => p.join) =
            ((params.map fun p => s1.arg (Int.ofNat p)).filterMap fun p => p.join).map φ := by
          induction params with
          | nil => rfl
          | cons p ps ih =>
            simp only [List.map_cons, List.filterMap_cons]
            rw [arg_iso hiso, ih]
            rcases s1.arg (Int.ofNat p) with _ | _ | a <;> rfl
        have hany : (params.map fun p => s2.arg (Int.ofNat p)).any (paramBad s2.heap) =
            (params.map fun p => s1.arg (Int.ofNat p)).any (paramBad s1.heap) := by
          rw [List.any_map, List.any_map]
          apply List.any_congr rfl
          intro p
          simp only [Function.comp]
          rw [arg_iso hiso]
          apply paramBad_iso hiso
          intro a ha
          exact held_reach' s1 h1 a (arg_held ha)
        rw [hany, hfm]
        split
        · exact same_iso hiso _
        · split
          · exact same_iso hiso _
          · refine alloc_iso hiso h1 h2 dst (.fn kind rest _ b e mod) ?_ (by intro n o e; cases e)
            intro c hc
            simp only [Content.children, List.mem_append, List.mem_filterMap, List.mem_map] at hc
            rcases hc with (hc | hc) | ⟨p, ⟨q, _, hq⟩, hp⟩
            · exact toList_held hb c hc
            · exact toList_held he c hc
            · apply arg_held (i := Int.ofNat q)
              rw [hq]
              exact join_eq_some.1 hp
  | md dst src m =>
    have ex := arg_iso hiso src
    cases hx : s1.arg src with
    | none =>
      rw [step_md_refused hx, step_md_refused (by rw [ex, hx]; rfl)]
      exact same_iso hiso _
    | some x =>
      rw [step_md hx, step_md (show s2.arg src = some (x.map φ) by rw [ex, hx]; rfl),
        isMd_iso hiso x (arg_reach h1 hx)]
      split
      · exact same_iso hiso _
      · refine alloc_iso hiso h1 h2 dst (.md x m) ?_ (by intro n o e; cases e)
        intro b hb
        simp only [Content.children] at hb
        exact toList_held hx b hb
  | clone dst src =>
    have ex := arg_iso hiso src
    cases hx : s1.arg src with
    | none =>
      rw [step_clone_refused hx, step_clone_refused (by rw [ex, hx]; rfl)]
      exact same_iso hiso _
    | some x =>
      rw [step_clone hx, step_clone (show s2.arg src = some (x.map φ) by rw [ex, hx]; rfl)]
      exact give_iso hiso h1 h2 dst x (arg_reach h1 hx)
  | drop i =>
    have hsl : s2.slots[i]? = (s1.slots[i]?).map (smap φ) := by rw [hiso.slots', List.getElem?_map]
    cases hx : s1.slots[i]? with
    | none =>
      rw [hx] at hsl
      rw [step_drop_none (by intro x e; rw [hx] at e; cases e), step_drop_none (by intro x e; rw [hsl] at e; cases e)]
      exact same_iso hiso _
    | some v =>
      cases v with
      | none =>
        rw [hx] at hsl
        rw [step_drop_none (by intro x e; rw [hx] at e; cases e), step_drop_none (by intro x e; rw [hsl] at e; cases e)]
        exact same_iso hiso _
      | some x =>
        rw [hx] at hsl
        obtain ⟨s1', e1, sl1, g1⟩ := drop_res s1 h1 i x hx
        obtain ⟨s2', e2, sl2, g2⟩ := drop_res s2 h2 i (x.map φ) hsl
        rw [e1, e2]
        exact ⟨φ, iso_slot_same hiso h1 (stepOK_of_eq h1 e1) (stepOK_of_eq h2 e2) i none (by intro a h; cases h)
          sl1 sl2 g1 g2, respRel_refl _⟩
  | car dst src =>
    have ex := arg_iso hiso (src : Int)
    cases hx : s1.arg (src : Int) with
    | none =>
      rw [step_car_empty hx, step_car_empty (by rw [ex, hx]; rfl)]
      exact same_iso hiso _
    | some x =>
      cases x with
      | none =>
        rw [step_car_nil hx, step_car_nil (by rw [ex, hx]; rfl)]
        exact same_iso hiso _
      | some a =>
        have ha : Reach s1.heap a := arg_reach h1 hx a rfl
        have hx2 : s2.arg (src : Int) = some (some (φ a)) := by rw [ex, hx]; rfl
        obtain ⟨ht, hrt⟩ := target_iso hiso a ha
        have hct := hiso.content' _ hrt
        rw [← ht] at hct
        cases hc : (s1.heap.cell (target s1.heap a)).content with
        | cons x y =>
          rw [hc] at hct
          rw [step_car_cons hx hc, step_car_cons hx2 hct]
          exact give_iso hiso h1 h2 dst x (fun b hb => Reach.step hrt (by simp [kids, hc, Content.children, hb]))
        | _ =>
          rw [hc] at hct
          rw [step_car_not hx (by intro x y e; rw [hc] at e; cases e),
            step_car_not hx2 (by intro x y e; rw [hct] at e; simp [mapAddr] at e)]
          exact same_iso hiso _
  | cdr dst src =>
    have ex := arg_iso hiso (src : Int)
    cases hx : s1.arg (src : Int) with
    | none =>
      rw [step_cdr_empty hx, step_cdr_empty (by rw [ex, hx]; rfl)]
      exact same_iso hiso _
    | some x =>
      cases x with
      | none =>
        rw [step_cdr_nil hx, step_cdr_nil (by rw [ex, hx]; rfl)]
        exact same_iso hiso _
      | some a =>
        have ha : Reach s1.heap a := arg_reach h1 hx a rfl
        have hx2 : s2.arg (src : Int) = some (some (φ a)) := by rw [ex, hx]; rfl
        obtain ⟨ht, hrt⟩ := target_iso hiso a ha
        have hct := hiso.content' _ hrt
        rw [← ht] at hct
        cases hc : (s1.heap.cell (target s1.heap a)).content with
        | cons x y =>
          rw [hc] at hct
          rw [step_cdr_cons hx hc, step_cdr_cons hx2 hct]
          exact give_iso hiso h1 h2 dst y (fun b hb => Reach.step hrt (by simp [kids, hc, Content.children, hb]))
        | _ =>
          rw [hc] at hct
          rw [step_cdr_not hx (by intro x y e; rw [hc] at e; cases e),
            step_cdr_not hx2 (by intro x y e; rw [hct] at e; simp [mapAddr] at e)]
          exact same_iso hiso _
  | define name src =>
    have ex := arg_iso hiso src
    cases hx : s1.arg src with
    | none =>
      rw [step_define_refused hx, step_define_refused (by rw [ex, hx]; rfl)]
      exact same_iso hiso _
    | some x =>
      obtain ⟨s1', e1, sl1, g1⟩ := define_res s1 h1 name src x hx
      obtain ⟨s2', e2, sl2, g2⟩ := define_res s2 h2 name src (x.map φ) (by rw [ex, hx]; rfl)
      rw [e1, e2]
      refine ⟨φ, iso_glob hiso (stepOK_of_eq h1 e1) (stepOK_of_eq h2 e2) _ ?_ h1 sl1 sl2 g1 ?_, respRel_refl _⟩
      · intro a ha
        have hold : some a ∈ s1.heap.globals.map (·.2) ∨ x = some a := by
          split at ha
          · exact mem_redefine_vals ha
          · simp only [List.map_append, List.mem_append, List.map_cons, List.map_nil, List.mem_singleton] at ha
            rcases ha with ha | ha
            · exact Or.inl ha
            · exact Or.inr ha.symm
        rcases hold with h | h
        · exact held_reach' s1 h1 a (held_of_glob h)
        · exact arg_reach h1 hx a h
      · rw [g2, hiso.globals', lookup_gmap]
        cases hl : s1.heap.globals.lookup name with
        | none => simp [gmap]
        | some v => simp [redefine_gmap]
  | undefine name =>
    have hl2 : s2.heap.globals.lookup name = (s1.heap.globals.lookup name).map (Option.map φ) := by
      rw [hiso.globals', lookup_gmap]
    cases hl : s1.heap.globals.lookup name with
    | none =>
      rw [hl] at hl2
      rw [step_undefine_none hl, step_undefine_none hl2]
      exact same_iso hiso _
    | some v =>
      rw [hl] at hl2
      obtain ⟨s1', e1, sl1, g1⟩ := undefine_res s1 h1 name v hl
      obtain ⟨s2', e2, sl2, g2⟩ := undefine_res s2 h2 name _ hl2
      rw [e1, e2]
      refine ⟨φ, iso_glob hiso (stepOK_of_eq h1 e1) (stepOK_of_eq h2 e2) _ ?_ h1 sl1 sl2 g1 ?_, respRel_refl _⟩
      · intro a ha
        obtain ⟨p, hp, e⟩ := List.mem_map.1 ha
        exact held_reach' s1 h1 a (held_of_glob (List.mem_map.2 ⟨p, (List.mem_filter.1 hp).1, e⟩))
      · rw [g2, hiso.globals', filter_gmap]
  | getGlobal dst name =>
    have hl2 : s2.heap.globals.lookup name = (s1.heap.globals.lookup name).map (Option.map φ) := by
      rw [hiso.globals', lookup_gmap]
    cases hl : s1.heap.globals.lookup name with
    | none =>
      rw [hl] at hl2
      rw [step_getGlobal_none hl, step_getGlobal_none hl2]
      exact same_iso hiso _
    | some v =>
      rw [hl] at hl2
      rw [step_getGlobal_some hl, step_getGlobal_some hl2]
      exact give_iso hiso h1 h2 dst v (fun a ha => held_reach' s1 h1 a (global_held (ha ▸ hl)))
  | collect =>
    obtain ⟨s1', u1, f1, e1, sl1, g1⟩ := collect_res s1 h1
    obtain ⟨s2', u2, f2, e2, sl2, g2⟩ := collect_res s2 h2
    rw [e1, e2]
    refine ⟨φ, iso_glob hiso (stepOK_of_eq h1 e1) (stepOK_of_eq h2 e2) _ ?_ h1 sl1 sl2 g1 ?_, by simp [RespRel]⟩
    · intro a ha
      exact held_reach' s1 h1 a (held_of_glob ha)
    · rw [g2, hiso.globals']

/-- a history under the schedule "collect before every k-th allocation" (k = 0: only when the free list is empty) -/
def runWith (every : Nat) (ops : List HeapOp) : HeapState × List HeapResp :=
  ops.foldl (fun (acc : HeapState × List HeapResp) op => ((acc.1.step op).1, acc.2 ++ [(acc.1.step op).2]))
    ({ HeapState.init with every := every }, [])

section helpers
open Pici.Sched Pici.HeapState

theorem forall2_snoc {α β : Type} {R : α → β → Prop} {l1 : List α} {l2 : List β} {a : α} {b : β}
    (h : Forall2 R l1 l2) (hab : R a b) : Forall2 R (l1 ++ [a]) (l2 ++ [b]) := by
  induction h with
  | nil => exact .cons hab .nil
  | cons hr _ ih => exact .cons hr ih

/-- two isomorphic clients stay isomorphic along any history, whatever their schedules -/
theorem run_iso (ops : List HeapOp) : ∀ (s1 s2 : HeapState) (l1 l2 : List HeapResp) (φ : Addr → Addr),
    SInv s1 → SInv s2 → Iso s1 s2 φ → Forall2 RespRel l1 l2 →
    (∃ φ', Iso (ops.foldl (fun (acc : HeapState × List HeapResp) op =>
        ((acc.1.step op).1, acc.2 ++ [(acc.1.step op).2])) (s1, l1)).1
      (ops.foldl (fun (acc : HeapState × List HeapResp) op =>
        ((acc.1.step op).1, acc.2 ++ [(acc.1.step op).2])) (s2, l2)).1 φ') ∧
    Forall2 RespRel (ops.foldl (fun (acc : HeapState × List HeapResp) op =>
        ((acc.1.step op).1, acc.2 ++ [(acc.1.step op).2])) (s1, l1)).2
      (ops.foldl (fun (acc : HeapState × List HeapResp) op =>
        ((acc.1.step op).1, acc.2 ++ [(acc.1.step op).2])) (s2, l2)).2 := by
  induction ops with
  | nil => intro s1 s2 l1 l2 φ _ _ hiso hl; exact ⟨⟨φ, hiso⟩, hl⟩
  | cons op ops ih =>
    intro s1 s2 l1 l2 φ h1 h2 hiso hl
    obtain ⟨φ', hiso', hr⟩ := step_iso s1 s2 φ h1 h2 hiso op
    simp only [List.foldl_cons]
    exact ih _ _ _ _ φ' (sinv_step s1 op h1) (sinv_step s2 op h2) hiso' (forall2_snoc hl hr)

theorem iso_init (e1 e2 : Nat) :
    Iso { HeapState.init with every := e1 } { HeapState.init with every := e2 } id := by
  apply iso_mk { HeapState.init with every := e1 } { HeapState.init with every := e2 } id
    (sinv_congr sinv_init rfl rfl) (sinv_congr sinv_init rfl rfl) rfl rfl (fun _ => False)
  · intro a ha
    have : heldCount { HeapState.init with every := e1 } a = 0 := rfl
    omega
  · intro a ha; exact ha.elim
  · intro a b ha; exact ha.elim
  · intro a ha; exact ha.elim
  · intro a n o ha; exact ha.elim

end helpers

/-- THE theorem: the same history under ANY two collection schedules gives the same responses and isomorphic final states -/
theorem schedule_independent (ops : List HeapOp) (e1 e2 : Nat) :
    (∃ φ, Iso (runWith e1 ops).1 (runWith e2 ops).1 φ) ∧
    Forall2 RespRel (runWith e1 ops).2 (runWith e2 ops).2 := by
  exact run_iso ops _ _ [] [] id (sinv_congr sinv_init rfl rfl) (sinv_congr sinv_init rfl rfl) (iso_init e1 e2) .nil

/-- renaming of generated-symbol identities in a tree -/
def rename (ρ : Nat → Nat) : Val → Val
  | .sym (.gen i) => .sym (.gen (ρ i))
  | .cons a d => .cons (rename ρ a) (rename ρ d)
  | .fn k r p b e m => .fn k (rename ρ r) (rename ρ p) (rename ρ b) (rename ρ e) m
  | .trap n h => .trap (rename ρ n) (rename ρ h)
  | .md v m => .md (rename ρ v) m
  | v => v

section helpers
open Pici.Sched

/-- the trees of corresponding cells, for any two heaps whose contents correspond on the reachable cells of the first -/
theorem iso_abs_aux (h1 h2 : Heap) (φ : Addr → Addr)
    (hc : ∀ a, Reach h1 a → (h2.cell (φ a)).content = mapAddr φ (h1.cell a).content) :
    ∀ fuel, (∀ x : Option Addr, (∀ a, x = some a → Reach h1 a) → rename φ (abs h1 fuel x) = abs h2 fuel (x.map φ)) ∧
      (∀ l : List Addr, (∀ a ∈ l, Reach h1 a) → rename φ (absList h1 fuel l) = absList h2 fuel (l.map φ)) := by
  intro fuel
  induction fuel with
  | zero =>
    refine ⟨?_, ?_⟩
    · intro x _
      cases x <;> simp [abs, rename]
    · intro l _
      cases l <;> simp [absList, rename]
  | succ fuel ih =>
    obtain ⟨ih1, ih2⟩ := ih
    refine ⟨?_, ?_⟩
    · intro x hx
      cases x with
      | none => simp [abs, rename]
      | some a =>
        have ha := hx a rfl
        have kid : ∀ b, b ∈ (h1.cell a).content.children → Reach h1 b := fun b hb => Reach.step ha hb
        simp only [abs, Option.map_some]
        rw [hc a ha]
        cases hcon : (h1.cell a).content with
        | num n => simp [mapAddr, rename]
        | chr c => simp [mapAddr, rename]
        | cons x y =>
          rw [hcon] at kid
          simp only [mapAddr, rename]
          rw [ih1 x (fun b hb => kid b (by simp [Content.children, hb])),
              ih1 y (fun b hb => kid b (by simp [Content.children, hb]))]
        | sym name own => cases name <;> simp [mapAddr, rename]
        | trap x y =>
          rw [hcon] at kid
          simp only [mapAddr, rename]
          rw [ih1 x (fun b hb => kid b (by simp [Content.children, hb])),
              ih1 y (fun b hb => kid b (by simp [Content.children, hb]))]
        | md v m =>
          rw [hcon] at kid
          simp only [mapAddr, rename]
          rw [ih1 v (fun b hb => kid b (by simp [Content.children, hb]))]
        | fn k r ps b e m =>
          rw [hcon] at kid
          simp only [mapAddr]
          have hb := ih1 b (fun c hc' => kid c (by simp [Content.children, hc']))
          have he := ih1 e (fun c hc' => kid c (by simp [Content.children, hc']))
          have hps : ∀ c ∈ ps, Reach h1 c := fun c hc' => kid c (by simp [Content.children, hc'])
          rw [← hb, ← he, ← ih2 ps hps, ← List.map_reverse]
          cases hrev : ps.reverse with
          | nil => cases r <;> simp [rename]
          | cons last initRev =>
            have hmem : ∀ c, c ∈ last :: initRev → c ∈ ps := by
              intro c hc'; rw [← hrev] at hc'; exact List.mem_reverse.1 hc'
            simp only [List.map_cons]
            have hl := ih1 (some last) (fun c hc' => by cases hc'; exact hps _ (hmem _ (List.mem_cons_self ..)))
            simp only [Option.map_some] at hl
            rw [← List.map_reverse, ← hl,
                ← ih2 initRev.reverse (fun c hc' => hps c (hmem c (List.mem_cons_of_mem _ (List.mem_reverse.1 hc'))))]
            cases r <;> simp [rename]
    · intro l hl
      cases l with
      | nil => simp [absList, rename]
      | cons p ps =>
        simp only [absList, List.map_cons, rename]
        rw [ih1 (some p) (fun a e => by cases e; exact hl _ (List.mem_cons_self ..)),
            ih2 ps (fun a ha => hl a (List.mem_cons_of_mem _ ha))]
        rfl

end helpers

/-- isomorphic clients denote the same trees, up to the identities of generated symbols -/
theorem iso_abs (s1 s2 : HeapState) (φ : Addr → Addr) (h1 : SInv s1) (hiso : Iso s1 s2 φ) (a : Addr) (hr : Reach s1.heap a) (fuel : Nat) :
    rename φ (Heap.abs s1.heap fuel (some a)) = Heap.abs s2.heap fuel (some (φ a)) := by
  have _ := h1
  exact (iso_abs_aux s1.heap s2.heap φ (fun b hb => hiso.content' b hb) fuel).1 (some a)
    (fun b e => by cases e; exact hr)

/-! ### (b) hash seeds -/

/-- `whereis` does not depend on the order of the module table -/
theorem whereis_perm (st1 st2 : St) (name : Name) (h : st1.modules.Perm st2.modules) :
    st1.modulesOfGlobal name = st2.modulesOfGlobal name := by
  unfold St.modulesOfGlobal
  exact sortNames_eq_of_perm _ _ ((h.filter _).map _)

/-! ### (c) addresses -/

section helpers

theorem rename_isNil (ρ : Nat → Nat) (v : Val) : (rename ρ v).isNil = v.isNil := by
  cases v with
  | md v m => cases v <;> simp [rename, Val.isNil]
              all_goals (rename_i s; cases s <;> simp [rename])
  | sym s => cases s <;> simp [rename, Val.isNil]
  | _ => simp [rename, Val.isNil]

theorem rename_listToVec (ρ : Nat → Nat) (v : Val) :
    listToVec (rename ρ v) = (listToVec v).map (List.map (rename ρ)) := by
  induction v with
  | cons a d _ ihd => simp [rename, listToVec, ihd, Option.map_map, Function.comp_def]
  | md v m ih =>
    cases v with
    | cons a d =>
      simp only [rename, listToVec] at ih ⊢
      rw [ih]
    | sym s => cases s <;> simp [rename, listToVec]
    | _ => simp [rename, listToVec]
  | sym s => cases s <;> simp [rename, listToVec]
  | _ => simp [rename, listToVec]

theorem rename_get (ρ : Nat → Nat) (v : Val) : (rename ρ v).get = rename ρ v.get := by
  induction v with
  | md v m ih => simpa [rename, Val.get] using ih
  | sym s => cases s <;> simp [rename, Val.get]
  | _ => simp [rename, Val.get]

theorem rename_isSymNamed (ρ : Nat → Nat) (v : Val) (n : Name) : (rename ρ v).isSymNamed n = v.isSymNamed n := by
  unfold Val.isSymNamed
  rw [rename_get]
  cases v.get with
  | sym s => cases s <;> simp [rename]
  | _ => simp [rename]

theorem rename_charsOf (ρ : Nat → Nat) (l : List Val) : charsOf (l.map (rename ρ)) = charsOf l := by
  induction l with
  | nil => rfl
  | cons x xs ih =>
    simp only [List.map_cons, charsOf, rename_get, ih]
    cases x.get with
    | sym s => cases s <;> simp [rename]
    | _ => simp [rename]

theorem rename_listToString (ρ : Nat → Nat) (v : Val) : listToString (rename ρ v) = listToString v := by
  unfold listToString
  rw [rename_listToVec]
  cases listToVec v with
  | none => rfl
  | some l =>
    cases l with
    | nil => rfl
    | cons x xs =>
      simp only [Option.map_some, List.map_cons, rename_isSymNamed]
      rw [← List.map_cons, rename_charsOf, rename_charsOf]

theorem rename_printAtom (ρ : Nat → Nat) (v : Val) : printAtom (rename ρ v) = printAtom v := by
  induction v with
  | sym s => cases s <;> simp [rename, printAtom, Sym.print]
  | _ => simp_all [rename, printAtom]

end helpers

/-- the printed text does not depend on the identities of generated symbols -/
theorem print_rename (ρ : Nat → Nat) (fuel : Nat) (v : Val) (d : Nat) :
    printInternal fuel (rename ρ v) d = printInternal fuel v d := by
  induction fuel generalizing v d with
  | zero => rfl
  | succ fuel ih =>
    simp only [printInternal, rename_isNil, rename_listToString, rename_listToVec, rename_printAtom]
    cases hl : listToVec v with
    | none => rfl
    | some l =>
      have : (l.map (rename ρ)).map (fun x => printInternal fuel x (d + 1)) =
          l.map (fun x => printInternal fuel x (d + 1)) := by
        rw [List.map_map]
        apply List.map_congr_left
        intro x _
        exact ih x _
      simp only [Option.map_some, this]


/-! non-vacuity: the same history with a garbage-producing middle part, never collected vs collected before every allocation -/
def exOps : List HeapOp :=
  [.sym 0 cs!"a", .num 1 1, .cons 2 0 1, .drop 0, .drop 1, .num 3 9, .drop 3, .gensym 4, .cons 5 4 2, .sym 6 cs!"a", .car 7 2]
example : (runWith 0 exOps).2 = (runWith 1 exOps).2 := by decide +kernel
example : (runWith 0 exOps).1.heap.firstFree ≠ (runWith 1 exOps).1.heap.firstFree := by decide +kernel

end Pici.C02
